#!/usr/bin/env python3
"""Run the repository's baseline test command (guard OFF) on a scratch worktree of /repo HEAD and compare with
/root/.vp/BASELINE.json: every test in stable_pass must pass. usage: tools/baseline_compare.py [--parallel1-app]"""
import json, os, subprocess, sys
B = json.load(open("/root/.vp/BASELINE.json"))
W = "/tmp/mut/baseline-%d" % os.getpid()
subprocess.run(["git", "-C", "/repo", "worktree", "add", "-q", "--detach", W, "HEAD"], check=True)
env = dict(os.environ, GOFLAGS="-mod=mod", GOPROXY="off")
results = {}
try:
    for mod in [".", "./LICENSES/github.com/hashicorp/go-version", "./LICENSES/github.com/hashicorp/golang-lru/v2"]:
        p = subprocess.run("go test -mod=mod -json -vet=off -count=1 -timeout 25m ./...", shell=True, cwd=os.path.join(W, mod), env=env,
                           stdout=subprocess.PIPE, stderr=subprocess.DEVNULL, text=True)
        for l in p.stdout.splitlines():
            try: e = json.loads(l)
            except ValueError: continue
            if e.get("Test") and e.get("Action") in ("pass", "fail", "skip"):
                results["%s::%s" % (e["Package"], e["Test"])] = e["Action"]
    bad = [t for t in B["stable_pass"] if results.get(t) != "pass"]
    print("stable_pass tests: %d, passing now: %d, not passing: %d" % (len(B["stable_pass"]), len(B["stable_pass"]) - len(bad), len(bad)))
    for t in bad: print("  NOT PASSING:", t, results.get(t))
    # re-run the not-passing ones alone, serially (load / fixed-port flakiness)
    still = []
    for t in bad:
        pkg, test = t.split("::", 1)
        rel = pkg.replace("github.com/honeycombio/refinery", ".")
        cwd = W
        if pkg.startswith("github.com/hashicorp"):
            continue
        top = test.split("/")[0]
        r = subprocess.run("go test -mod=mod -vet=off -count=1 -parallel 1 -run '^%s$' %s" % (top, rel), shell=True, cwd=cwd, env=env, stdout=subprocess.PIPE, stderr=subprocess.STDOUT, text=True)
        if r.returncode != 0: still.append(t)
    print("after re-running each alone with -parallel 1: still failing: %d" % len(still))
    for t in still: print("  STILL FAILING:", t)
finally:
    subprocess.run(["git", "-C", "/repo", "worktree", "remove", "--force", W])
