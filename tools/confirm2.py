#!/usr/bin/env python3
"""Confirm a seeded defect using meta.json demo_files [{file, dir}] in a scratch worktree of /repo HEAD.
usage: tools/confirm2.py seeded/<name> [extra go test flags, e.g. -race]"""
import json, os, shutil, subprocess, sys
d = os.path.abspath(sys.argv[1]); extra = sys.argv[2:]
m = json.load(open(os.path.join(d, "meta.json")))
W = "/tmp/mut/confirm-%d" % os.getpid()
env = dict(os.environ, GOFLAGS="-mod=mod", GOPROXY="off")
def sh(cmd, **k): return subprocess.run(cmd, shell=True, cwd=W, env=env, stdout=subprocess.PIPE, stderr=subprocess.STDOUT, text=True, **k)
subprocess.run(["git", "-C", "/repo", "worktree", "add", "-q", "--detach", W, "HEAD"], check=True)
res = {}
try:
    demos = m["demo_files"]; dirs = sorted(set(x["dir"] for x in demos))
    pk = " ".join("./%s/" % x for x in dirs)
    def put():
        for x in demos: shutil.copy(os.path.join(d, x["file"]), os.path.join(W, x["dir"], "zz_seeded_" + os.path.basename(d).replace("-", "_") + "_" + str(demos.index(x)) + "_test.go"))
    def rm():
        for x in dirs:
            for f in os.listdir(os.path.join(W, x)):
                if f.startswith("zz_seeded_"): os.remove(os.path.join(W, x, f))
    put(); r = sh("go test -count=1 %s -run Seeded %s" % (" ".join(extra), pk)); res["demo_on_clean"] = "PASS" if r.returncode == 0 else "FAIL"; c_out = r.stdout[-600:]
    rm()
    r = sh("git apply %s" % os.path.join(d, "patch.diff"))
    if r.returncode != 0: print(os.path.basename(d), "PATCH DOES NOT APPLY", r.stdout[:300]); sys.exit(2)
    r = sh("go build ./..."); res["build"] = "OK" if r.returncode == 0 else "FAIL"
    tp = " ".join(sorted(set("./%s/..." % x.split("/")[0] for x in dirs) | set("./%s/..." % f.split("/")[0] for f in m.get("files", []) if "/" in f)))
    r = sh("go test -count=1 -parallel 2 %s" % tp); fails = [l for l in r.stdout.splitlines() if l.startswith("--- FAIL")]
    res["existing_tests(%s)" % tp] = "PASS" if r.returncode == 0 else "FAIL " + "; ".join(fails)[:300]
    put(); r = sh("go test -count=1 %s -run Seeded %s" % (" ".join(extra), pk)); res["demo_on_mutant"] = "PASS" if r.returncode == 0 else "FAIL"
    print(os.path.basename(d), " ".join("%s=%s" % kv for kv in res.items()))
    if res["demo_on_clean"] != "PASS": print(c_out)
finally:
    subprocess.run(["git", "-C", "/repo", "worktree", "remove", "--force", W])
