#!/usr/bin/env python3
"""Run every seeded defect (or the named ones) against its property's check; update seeded/RESULTS.json."""
import glob, json, os, re, subprocess, sys, time
ROOT = os.path.dirname(os.path.dirname(os.path.abspath(__file__)))
names = sys.argv[1:] or sorted(os.path.basename(os.path.dirname(p)) for p in glob.glob(os.path.join(ROOT, "seeded", "*", "meta.json")))
rp = os.path.join(ROOT, "seeded", "RESULTS.json")
for n in names:
    t = time.time()
    p = subprocess.run([os.path.join(ROOT, "tools", "seeded.py"), os.path.join("seeded", n)], cwd=ROOT, stdout=subprocess.PIPE, stderr=subprocess.STDOUT, text=True)
    lines = [l for l in p.stdout.splitlines() if re.match(r"^C\d+ (DETECTED|MISSED)", l)]
    res = json.load(open(rp)) if os.path.exists(rp) else {}
    if not lines:
        print(n, "ERROR", p.stdout[-300:], flush=True); continue
    l = lines[0]
    old = res.get(n, {})
    new = {"check": l.split()[0], "result": l.split()[1], "line": l.strip(),
           "concrete_replay": l.split()[1] == "DETECTED" and "no-failing-input-found" not in l,
           "round": time.strftime("%Y-%m-%d %H:%M")}
    for k in ("history", "also"):
        if k in old: new[k] = old[k]
    if old and old.get("result") != new["result"]:
        new["history"] = (old.get("history", "") + "; " if old.get("history") else "") + "earlier run (%s): %s" % (old.get("round", "?"), old.get("result"))
    res[n] = new
    json.dump(res, open(rp, "w"), indent=1, sort_keys=True)
    print("%s %s %.0fs %s" % (n, new["result"], time.time() - t, "" if new["concrete_replay"] or new["result"] != "DETECTED" else "(no-failing-input-found)"), flush=True)
