#!/usr/bin/env python3
"""Run several property checks (default: all) and print a table: id, exit code, wall time, last line.
usage: tools/runall.py [--jobs N] [--tier quick|thorough] [--seed S] [ids...]"""
import argparse, glob, os, subprocess, sys, time
from concurrent.futures import ThreadPoolExecutor
ROOT = os.path.dirname(os.path.dirname(os.path.abspath(__file__)))
ap = argparse.ArgumentParser()
ap.add_argument("ids", nargs="*")
ap.add_argument("--jobs", type=int, default=3)
ap.add_argument("--tier", default="quick")
ap.add_argument("--seed", default="1")
a = ap.parse_args()
ids = a.ids or sorted(os.path.basename(p)[:-5] for p in glob.glob(os.path.join(ROOT, "props", "C*.json")))
def run(i):
    t = time.time()
    p = subprocess.run([os.path.join(ROOT, "check"), i, "--tier", a.tier, "--seed", a.seed], cwd=ROOT,
                       stdout=subprocess.PIPE, stderr=subprocess.PIPE, text=True)
    lines = [l for l in p.stdout.strip().splitlines() if l]
    return i, p.returncode, time.time() - t, lines, p.stderr[-600:]
bad = 0
with ThreadPoolExecutor(max_workers=a.jobs) as ex:
    for i, rc, dt, lines, err in ex.map(run, ids):
        print("%s rc=%d %5.0fs %s" % (i, rc, dt, " | ".join(l[:160] for l in lines[-3:])), flush=True)
        if rc != 0:
            bad += 1
            print("    stderr:", err.replace("\n", "\n    "))
sys.exit(1 if bad else 0)
