#!/bin/bash
# usage: tools/integrate.sh <family>   — merge the family's framework branch and cherry-pick its new repo commits
set -u
F=$1
cd /verif
git merge -q --no-edit fam-$F 2>&1 | tail -3
cd /repo
for c in $(git cherry main fam-$F | grep '^+' | cut -d' ' -f2); do
  if [ $(git rev-list --parents -n1 $c | wc -w) -gt 2 ]; then continue; fi
  if grep -q "^${c:0:7}" /work/.skip_commits 2>/dev/null; then continue; fi
  if git cherry-pick -x $c >/dev/null 2>&1; then echo "picked $(git log -1 --format='%h %s' $c)"
  else
    if git diff --cached --quiet && git diff --quiet; then git cherry-pick --skip 2>/dev/null; echo "skipped (empty) $(git log -1 --format='%h %s' $c)"
    else echo "CONFLICT on $(git log -1 --format='%h %s' $c)"; git status --short | head; exit 1; fi
  fi
done
