#!/bin/bash
# usage: tools/integrate.sh <family>   — merge the family's framework branch and cherry-pick its repo commits
set -u
F=$1
cd /verif
git merge -q --no-edit fam-$F 2>&1 | tail -3
LAST=$(cat /work/$F/.picked 2>/dev/null || echo b674eec)
cd /repo
for c in $(git rev-list --reverse $LAST..fam-$F); do
  if git cherry-pick -x $c >/dev/null 2>&1; then echo "picked $(git log -1 --format='%h %s' $c)"; echo $c > /work/$F/.picked
  else echo "CONFLICT on $(git log -1 --format='%h %s' $c)"; git status --short | head; exit 1; fi
done
