package main

// Custom extraction kinds of family route2 (C20, C19).

import (
	"fmt"
	"go/ast"
	"go/token"
	"regexp"
	"strings"
)

func init() {
	customKinds["meta_fields"] = kindMetaFields
	customKinds["string_consts"] = kindStringConsts
	customKinds["func_text_has_opt"] = kindFuncTextHasOpt
}

// func_text_has_opt: like func_text_has, but a missing function yields false instead of an error
// (used for helpers that exist only on the repaired tree).
func kindFuncTextHasOpt(it Item) (string, error) {
	p, err := loadPkg(it.Pkg)
	if err != nil {
		return "", err
	}
	re, err := regexp.Compile(it.Regex)
	if err != nil {
		return "", err
	}
	b := "false"
	if fd := findFunc(p, it.Func); fd != nil && re.MatchString(funcText(p, fd)) {
		b = "true"
	}
	return fmt.Sprintf("Definition %s : bool := %s.", it.Coq, b), nil
}

// resolve a string constant by name inside one package (BasicLit only)
func stringConst(p *pkgInfo, name string) (string, bool) {
	e := findConstExpr(p, name, "")
	if bl, ok := e.(*ast.BasicLit); ok && bl.Kind == token.STRING {
		return unquote(bl.Value), true
	}
	return "", false
}

// meta_fields: the composite literal `var <Name> = map[string]metadataField{ Key: ctor(...), ... }`.
// Emits  Definition <coq> : list (string * string)  with the key constants resolved to their string
// values and the constructor mapped through extra.ctors (e.g. stringField -> "string").
func kindMetaFields(it Item) (string, error) {
	p, err := loadPkg(it.Pkg)
	if err != nil {
		return "", err
	}
	var cl *ast.CompositeLit
	for _, f := range p.files {
		ast.Inspect(f, func(n ast.Node) bool {
			if vs, ok := n.(*ast.ValueSpec); ok {
				for i, id := range vs.Names {
					if id.Name == it.Name && i < len(vs.Values) {
						if c, ok := vs.Values[i].(*ast.CompositeLit); ok {
							cl = c
						}
					}
				}
			}
			return true
		})
	}
	if cl == nil {
		return "", fmt.Errorf("composite literal %s not found in %s", it.Name, it.Pkg)
	}
	ctors := map[string]string{}
	if m, ok := it.Extra["ctors"].(map[string]any); ok {
		for k, v := range m {
			ctors[k] = fmt.Sprint(v)
		}
	}
	var rows []string
	for _, e := range cl.Elts {
		kv, ok := e.(*ast.KeyValueExpr)
		if !ok {
			return "", fmt.Errorf("%s: element is not key: value", it.Name)
		}
		var key string
		switch k := kv.Key.(type) {
		case *ast.BasicLit:
			key = unquote(k.Value)
		case *ast.Ident:
			s, ok := stringConst(p, k.Name)
			if !ok {
				return "", fmt.Errorf("%s: key %s is not a string constant", it.Name, k.Name)
			}
			key = s
		default:
			return "", fmt.Errorf("%s: unsupported key %s", it.Name, nodeText(p, kv.Key))
		}
		ce, ok := kv.Value.(*ast.CallExpr)
		if !ok {
			return "", fmt.Errorf("%s: value of %s is not a constructor call", it.Name, key)
		}
		fn := nodeText(p, ce.Fun)
		ty, ok := ctors[fn]
		if !ok {
			return "", fmt.Errorf("%s: unknown constructor %s for %s", it.Name, fn, key)
		}
		// the constructor's first argument is the key the field is serialised under: must be the same constant
		if len(ce.Args) > 0 {
			if id, ok := ce.Args[0].(*ast.Ident); ok {
				if s, ok := stringConst(p, id.Name); ok && s != key {
					return "", fmt.Errorf("%s: entry %q is serialised under a different key %q", it.Name, key, s)
				}
			}
		}
		rows = append(rows, fmt.Sprintf("(%s, %s)", coqStr(key), coqStr(ty)))
	}
	return fmt.Sprintf("Definition %s : list (string * string) :=\n  [%s].", it.Coq, strings.Join(rows, ";\n   ")), nil
}

// string_consts: several named string constants -> one Definition each. extra.names = {coqName: GoConst}
func kindStringConsts(it Item) (string, error) {
	p, err := loadPkg(it.Pkg)
	if err != nil {
		return "", err
	}
	names, _ := it.Extra["names"].(map[string]any)
	var keys []string
	for k := range names {
		keys = append(keys, k)
	}
	sortStrings(keys)
	var out []string
	for _, k := range keys {
		s, ok := stringConst(p, fmt.Sprint(names[k]))
		if !ok {
			return "", fmt.Errorf("string constant %v not found in %s", names[k], it.Pkg)
		}
		out = append(out, fmt.Sprintf("Definition %s : string := %s.", k, coqStr(s)))
	}
	return strings.Join(out, "\n"), nil
}

func sortStrings(xs []string) {
	for i := 1; i < len(xs); i++ {
		for j := i; j > 0 && xs[j] < xs[j-1]; j-- {
			xs[j], xs[j-1] = xs[j-1], xs[j]
		}
	}
}
