package main

// Custom extraction kinds of the txcfg family (C29, C38).
//
//   config_settings  every leaf setting of a config struct, recursively through nested structs of the
//                    package: (yaml path, Go type as written, underlying type, default tag, cmdenv tag)
//   cmdenv_options   every field of the CmdEnv struct: (field name, Go type, long flag, env name, env-delim)
//   meta_envdocs     the documented environment variable / command line flag of every field in
//                    config/metadata/configMeta.yaml: (group, field, envvar text, commandline text)
//   meta_v1names     the v1group/v1name -> v2 group/field table of configMeta.yaml (C38)

import (
	"bufio"
	"fmt"
	"go/ast"
	"os"
	"path/filepath"
	"regexp"
	"strings"
)

func init() {
	customKinds["config_settings"] = kindConfigSettings
	customKinds["cmdenv_options"] = kindCmdenvOptions
	customKinds["meta_envdocs"] = kindMetaEnvDocs
	customKinds["meta_v1names"] = kindMetaV1Names
}

func findTypeSpec(p *pkgInfo, name string) *ast.TypeSpec {
	var out *ast.TypeSpec
	for _, f := range p.files {
		ast.Inspect(f, func(n ast.Node) bool {
			if ts, ok := n.(*ast.TypeSpec); ok && ts.Name.Name == name {
				out = ts
			}
			return true
		})
	}
	return out
}

func tagValue(tag, key string) string {
	if m := regexp.MustCompile(key + `:"([^"]*)"`).FindStringSubmatch(tag); m != nil {
		return m[1]
	}
	return ""
}

func kindConfigSettings(it Item) (string, error) {
	p, err := loadPkg(it.Pkg)
	if err != nil {
		return "", err
	}
	var rows []string
	var walk func(typeName, prefix string, depth int) error
	walk = func(typeName, prefix string, depth int) error {
		if depth > 6 {
			return fmt.Errorf("struct nesting too deep at %s", prefix)
		}
		ts := findTypeSpec(p, typeName)
		if ts == nil {
			return fmt.Errorf("type %s not found", typeName)
		}
		st, ok := ts.Type.(*ast.StructType)
		if !ok {
			return fmt.Errorf("type %s is not a struct", typeName)
		}
		for _, f := range st.Fields.List {
			ty := nodeText(p, f.Type)
			tag := ""
			if f.Tag != nil {
				tag = unquote(f.Tag.Value)
			}
			for _, n := range f.Names {
				yamlName := strings.Split(tagValue(tag, "yaml"), ",")[0]
				if yamlName == "-" {
					continue
				}
				if yamlName == "" {
					yamlName = n.Name
				}
				path := yamlName
				if prefix != "" {
					path = prefix + "." + yamlName
				}
				under := ty
				if id, ok := f.Type.(*ast.Ident); ok {
					if sub := findTypeSpec(p, id.Name); sub != nil {
						if _, isStruct := sub.Type.(*ast.StructType); isStruct {
							if err := walk(id.Name, path, depth+1); err != nil {
								return err
							}
							continue
						}
						under = nodeText(p, sub.Type)
					}
				}
				rows = append(rows, fmt.Sprintf("(%s, %s, %s, %s, %s)", coqStr(path), coqStr(ty), coqStr(under),
					coqStr(tagValue(tag, "default")), coqStr(tagValue(tag, "cmdenv"))))
			}
		}
		return nil
	}
	if err := walk(it.Name, "", 0); err != nil {
		return "", err
	}
	return fmt.Sprintf("Definition %s : list (string * string * string * string * string) :=\n  [%s].", it.Coq, strings.Join(rows, ";\n   ")), nil
}

func kindCmdenvOptions(it Item) (string, error) {
	p, err := loadPkg(it.Pkg)
	if err != nil {
		return "", err
	}
	ts := findTypeSpec(p, it.Name)
	if ts == nil {
		return "", fmt.Errorf("type %s not found", it.Name)
	}
	st, ok := ts.Type.(*ast.StructType)
	if !ok {
		return "", fmt.Errorf("%s is not a struct", it.Name)
	}
	var rows []string
	for _, f := range st.Fields.List {
		tag := ""
		if f.Tag != nil {
			tag = unquote(f.Tag.Value)
		}
		for _, n := range f.Names {
			rows = append(rows, fmt.Sprintf("(%s, %s, %s, %s, %s)", coqStr(n.Name), coqStr(nodeText(p, f.Type)),
				coqStr(tagValue(tag, "long")), coqStr(tagValue(tag, "env")), coqStr(tagValue(tag, "env-delim"))))
		}
	}
	return fmt.Sprintf("Definition %s : list (string * string * string * string * string) :=\n  [%s].", it.Coq, strings.Join(rows, ";\n   ")), nil
}

// metaFields reads configMeta.yaml by indentation: groups are "  - name:" items, fields "      - name:" items.
type metaField struct {
	group, name string
	kv          map[string]string
}

func readMetaFields(file string) ([]metaField, error) {
	f, err := os.Open(filepath.Join(repo, file))
	if err != nil {
		return nil, err
	}
	defer f.Close()
	var out []metaField
	group := ""
	var cur *metaField
	sc := bufio.NewScanner(f)
	sc.Buffer(make([]byte, 1<<20), 1<<20)
	groupRe := regexp.MustCompile(`^  - name: (\S+)`)
	fieldRe := regexp.MustCompile(`^      - name: (\S+)`)
	kvRe := regexp.MustCompile(`^        ([A-Za-z0-9]+): (.*)$`)
	for sc.Scan() {
		line := sc.Text()
		if m := groupRe.FindStringSubmatch(line); m != nil {
			group = m[1]
			cur = nil
			continue
		}
		if m := fieldRe.FindStringSubmatch(line); m != nil {
			out = append(out, metaField{group: group, name: m[1], kv: map[string]string{}})
			cur = &out[len(out)-1]
			continue
		}
		if cur != nil {
			if m := kvRe.FindStringSubmatch(line); m != nil {
				cur.kv[strings.ToLower(m[1])] = strings.Trim(strings.TrimSpace(m[2]), `"'`)
			}
		}
	}
	return out, sc.Err()
}

func kindMetaEnvDocs(it Item) (string, error) {
	fields, err := readMetaFields(filepath.Join(it.Pkg, it.Name))
	if err != nil {
		return "", err
	}
	var rows []string
	for _, f := range fields {
		if f.kv["envvar"] == "" && f.kv["commandline"] == "" {
			continue
		}
		rows = append(rows, fmt.Sprintf("(%s, %s, %s, %s)", coqStr(f.group), coqStr(f.name), coqStr(f.kv["envvar"]), coqStr(f.kv["commandline"])))
	}
	if len(rows) == 0 {
		return "", fmt.Errorf("no documented env vars found in %s", it.Name)
	}
	return fmt.Sprintf("Definition %s : list (string * string * string * string) :=\n  [%s].", it.Coq, strings.Join(rows, ";\n   ")), nil
}

func kindMetaV1Names(it Item) (string, error) {
	fields, err := readMetaFields(filepath.Join(it.Pkg, it.Name))
	if err != nil {
		return "", err
	}
	var rows []string
	for _, f := range fields {
		if f.kv["v1name"] == "" {
			continue
		}
		rows = append(rows, fmt.Sprintf("(%s, %s, %s, %s, %s)", coqStr(f.kv["v1group"]), coqStr(f.kv["v1name"]), coqStr(f.group), coqStr(f.name), coqStr(f.kv["type"])))
	}
	if len(rows) == 0 {
		return "", fmt.Errorf("no v1 names found in %s", it.Name)
	}
	return fmt.Sprintf("Definition %s : list (string * string * string * string * string) :=\n  [%s].", it.Coq, strings.Join(rows, ";\n   ")), nil
}
