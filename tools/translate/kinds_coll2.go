package main

// Custom extraction kinds of family coll2.
//
//   decimal_in_func : Regex (capture group 1) over the normalised text of Func must capture a decimal
//                     literal such as 0.99, or the name of a constant whose value is such a literal; emitted as the exact ratio  <coq>_num / <coq>_den  (N).
//   all_in_func     : every match of Regex capture group 1 in Func, emitted as `list string`
//                     (same as regex_all, kept under a family name so the spec reads naturally).

import (
	"fmt"
	"go/ast"
	"regexp"
	"strings"
)

func init() {
	customKinds["decimal_in_func"] = func(it Item) (string, error) {
		p, err := loadPkg(it.Pkg)
		if err != nil {
			return "", err
		}
		fd := findFunc(p, it.Func)
		if fd == nil {
			return "", fmt.Errorf("function %s not found in %s", it.Func, it.Pkg)
		}
		re, err := regexp.Compile(it.Regex)
		if err != nil {
			return "", err
		}
		m := re.FindStringSubmatch(funcText(p, fd))
		if m == nil || len(m) < 2 {
			return "", fmt.Errorf("pattern %q not found in %s", it.Regex, it.Func)
		}
		lit := m[1]
		// a named constant and a literal of the same value are the same fact: resolve identifiers
		// (function-local constants first, then package-level ones), through parentheses and chains
		for depth := 0; regexp.MustCompile(`^[A-Za-z_][A-Za-z0-9_]*$`).MatchString(lit); depth++ {
			if depth > 10 {
				return "", fmt.Errorf("constant chain too deep at %q", lit)
			}
			e := findConstExpr(p, lit, it.Func)
			if e == nil {
				e = findConstExpr(p, lit, "")
			}
			if e == nil {
				return "", fmt.Errorf("identifier %q is not a constant of %s", lit, it.Pkg)
			}
			for {
				if pe, ok := e.(*ast.ParenExpr); ok {
					e = pe.X
					continue
				}
				break
			}
			switch x := e.(type) {
			case *ast.BasicLit:
				lit = x.Value
			case *ast.Ident:
				lit = x.Name
			default:
				return "", fmt.Errorf("constant %q is not a plain decimal literal", lit)
			}
		}
		lit = strings.ReplaceAll(lit, "_", "")
		if !regexp.MustCompile(`^[0-9]*\.?[0-9]+$`).MatchString(lit) {
			return "", fmt.Errorf("captured %q is not a decimal literal", m[1])
		}
		num, den := lit, "1"
		if i := strings.Index(lit, "."); i >= 0 {
			frac := lit[i+1:]
			num = lit[:i] + frac
			den = "1" + strings.Repeat("0", len(frac))
		}
		num = strings.TrimLeft(num, "0")
		if num == "" {
			num = "0"
		}
		return fmt.Sprintf("Definition %s_num : N := %s%%N.\nDefinition %s_den : N := %s%%N.", it.Coq, num, it.Coq, den), nil
	}
}
