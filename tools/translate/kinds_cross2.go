// kinds_cross2.go — custom translator kind "access_table" (family cross2, property C35).
//
// For the structs named in the spec item it lists every syntactic access site of every field:
// enclosing function, read / write / atomic, the locks OF THE SAME BASE EXPRESSION that are
// syntactically held (x.mu.Lock() ... x.mu.Unlock() regions, defer x.mu.Unlock()), the goroutine
// roles that can reach the enclosing function (go statements, callbacks, exported entry points,
// closed under the in-package call graph), and the lifecycle phase of the site (constructor-local
// object, segment of Start before/between its spawn points, running).
//
// The analysis is purely syntactic plus go/types restricted to the package itself (imports are
// replaced by empty packages, type errors are ignored): selections on package-local struct types
// resolve exactly, nothing else is needed. No alias analysis; dynamic dispatch is not followed
// (cross-package entry points are exported, hence role "ext").
package main

import (
	"fmt"
	"go/ast"
	"go/parser"
	"go/token"
	"go/types"
	"os"
	"path/filepath"
	"sort"
	"strings"
)

func init() {
	customKinds["access_table"] = accessTable
}

type fakeImporter struct{ cache map[string]*types.Package }

func (f fakeImporter) Import(path string) (*types.Package, error) {
	if p, ok := f.cache[path]; ok {
		return p, nil
	}
	name := path
	if i := strings.LastIndex(name, "/"); i >= 0 {
		name = name[i+1:]
	}
	p := types.NewPackage(path, name)
	p.MarkComplete()
	f.cache[path] = p
	return p, nil
}

// externalSelNames: every identifier used as the Sel of a selector expression in a non-test Go
// file of the repository outside directory `skip` (a superset of all cross-package calls and method
// values by name: "dynamic dispatch resolved by name").
var extNamesCache = map[string]map[string]bool{}

func externalSelNames(skip string) map[string]bool {
	if m, ok := extNamesCache[skip]; ok {
		return m
	}
	out := map[string]bool{}
	skipAbs := filepath.Join(repo, skip)
	filepath.WalkDir(repo, func(path string, d os.DirEntry, err error) error {
		if err != nil {
			return nil
		}
		if d.IsDir() {
			n := d.Name()
			if n == ".git" || n == "LICENSES" || n == "vendor" || n == "node_modules" || path == skipAbs {
				return filepath.SkipDir
			}
			return nil
		}
		n := d.Name()
		if !strings.HasSuffix(n, ".go") || strings.HasSuffix(n, "_test.go") || strings.HasPrefix(n, "verif_") {
			return nil
		}
		f, err := parser.ParseFile(token.NewFileSet(), path, nil, parser.SkipObjectResolution)
		if err != nil {
			return nil
		}
		ast.Inspect(f, func(nd ast.Node) bool {
			if se, ok := nd.(*ast.SelectorExpr); ok {
				out[se.Sel.Name] = true
			}
			return true
		})
		return nil
	})
	extNamesCache[skip] = out
	return out
}

// methods invoked by the runtime / standard library / frameworks through interfaces
var wellKnownEntry = map[string]bool{"ServeHTTP": true, "String": true, "Error": true, "MarshalText": true,
	"UnmarshalText": true, "MarshalJSON": true, "UnmarshalJSON": true, "MarshalYAML": true, "UnmarshalYAML": true,
	"MarshalMsg": true, "UnmarshalMsg": true, "Export": true, "Check": true, "Watch": true, "Write": true, "Read": true, "Close": true}

type atSite struct {
	st, field, fn string
	kind          int // 0 read, 1 write, 2 atomic
	locks         []string
	roles         []string
	phase         int
	run           bool
	final         bool
}

type heldLocks map[string]bool // base "\x00" lockfield -> exclusive

func (h heldLocks) clone() heldLocks {
	c := heldLocks{}
	for k, v := range h {
		c[k] = v
	}
	return c
}
func intersect(a, b heldLocks) heldLocks {
	c := heldLocks{}
	for k, v := range a {
		if w, ok := b[k]; ok {
			c[k] = v && w
		}
	}
	return c
}

type rawAccess struct {
	st, field string
	fn        string // function whose roles apply
	kind      int
	locks     []string // "m\x00x"
	base      string
	pos       token.Pos
	decl      *ast.FuncDecl
	inClosure bool   // inside a non-deferred function literal
	forceRole string // role override (go func literal body)
	local     bool   // through a constructor-local fresh object (phase 0)
}

type callSite struct {
	caller    string
	callee    string
	pos       token.Pos
	decl      *ast.FuncDecl
	recvText  string
	inClosure bool
	forceRole string
	held      heldLocks
}

type spawnPoint struct {
	start, end token.Pos
}

type atAnalysis struct {
	p        *pkgInfo
	info     *types.Info
	targets  map[string]bool
	fieldOf  map[*types.Var][2]string // field object -> (struct, field)
	fclass   map[[2]string]string     // (struct, field) -> plain|lock|sync|atomic|chan
	ftext    map[[2]string]string
	valueFld map[[2]string]bool // field whose type is a struct/array value (writes through it write the field)
	funcs    map[string]*ast.FuncDecl
	funcObj  map[*types.Func]string
	accesses []rawAccess
	calls    []callSite
	goSites  [][3]string          // struct, role, launcher
	goRoots  map[string][]string  // function -> roles it is the root of
	valueUse map[string]bool      // method/function used as a value (callback)
	spawns   map[string][]spawnPoint
	startFns map[string]bool
	lifeFns  map[string]bool
	litCount map[string]int
	freshRet map[string]bool // functions whose first result is always nil or an object freshly built inside them
}

func recvStruct(fd *ast.FuncDecl) string {
	n := funcName(fd)
	if i := strings.Index(n, "."); i >= 0 {
		return n[:i]
	}
	return ""
}

func (a *atAnalysis) classOf(t ast.Expr) string {
	s := nodeText(a.p, t)
	s = strings.TrimPrefix(s, "*")
	switch {
	case s == "sync.Mutex" || s == "sync.RWMutex":
		return "lock"
	case s == "sync.WaitGroup" || s == "sync.Once" || s == "sync.Map" || s == "sync.Pool" || s == "sync.Cond":
		return "sync"
	case strings.HasPrefix(s, "atomic."):
		return "atomic"
	case strings.HasPrefix(s, "chan ") || strings.HasPrefix(s, "<-chan") || strings.HasPrefix(s, "chan<-"):
		return "chan"
	}
	return "plain"
}

// selField resolves x.f to (struct, field) when f is a field of a target struct.
func (a *atAnalysis) selField(se *ast.SelectorExpr) (string, string, bool) {
	if sel, ok := a.info.Selections[se]; ok && sel.Kind() == types.FieldVal {
		if v, ok := sel.Obj().(*types.Var); ok {
			if sf, ok := a.fieldOf[v]; ok {
				return sf[0], sf[1], true
			}
		}
	}
	return "", "", false
}

// lockCall recognises  X.m.Lock() / RLock / Unlock / RUnlock  on a lock-class field m.
func (a *atAnalysis) lockCall(e ast.Expr) (key string, op string, ok bool) {
	ce, isCall := e.(*ast.CallExpr)
	if !isCall {
		return
	}
	fs, isSel := ce.Fun.(*ast.SelectorExpr)
	if !isSel {
		return
	}
	switch fs.Sel.Name {
	case "Lock", "RLock", "Unlock", "RUnlock":
	default:
		return
	}
	ms, isSel2 := fs.X.(*ast.SelectorExpr)
	if !isSel2 {
		return
	}
	st, f, isField := a.selField(ms)
	if !isField || a.fclass[[2]string{st, f}] != "lock" {
		return
	}
	return nodeText(a.p, ms.X) + "\x00" + f, fs.Sel.Name, true
}

type walkCtx struct {
	decl      *ast.FuncDecl
	fn        string
	inClosure bool
	forceRole string
	locals    map[string]token.Pos // fresh local objects -> pos until which they are local (0 = whole function)
}

func (a *atAnalysis) record(se *ast.SelectorExpr, kind int, h heldLocks, c *walkCtx) {
	st, f, ok := a.selField(se)
	if !ok {
		return
	}
	cl := a.fclass[[2]string{st, f}]
	if cl == "lock" || cl == "sync" {
		return
	}
	if cl == "atomic" {
		kind = 2
	}
	base := nodeText(a.p, se.X)
	var locks []string
	for k, x := range h {
		parts := strings.SplitN(k, "\x00", 2)
		if parts[0] == base {
			locks = append(locks, fmt.Sprintf("%s\x00%v", parts[1], x))
		}
	}
	sort.Strings(locks)
	local := false
	if id, isId := se.X.(*ast.Ident); isId && c.locals != nil && !c.inClosure {
		if until, ok := c.locals[id.Name]; ok && (until == 0 || se.Pos() < until) {
			local = true
		}
	}
	a.accesses = append(a.accesses, rawAccess{st: st, field: f, fn: c.fn, kind: kind, locks: locks, base: base,
		pos: se.Pos(), decl: c.decl, inClosure: c.inClosure, forceRole: c.forceRole, local: local})
}

// expr walks an expression in read context.
func (a *atAnalysis) expr(e ast.Expr, h heldLocks, c *walkCtx) {
	if e == nil {
		return
	}
	switch x := e.(type) {
	case *ast.SelectorExpr:
		if _, _, ok := a.selField(x); ok {
			a.record(x, 0, h, c)
		} else if sel, ok := a.info.Selections[x]; ok && sel.Kind() == types.MethodVal {
			// method value (not a call: calls are handled in CallExpr)
			if fo, ok := sel.Obj().(*types.Func); ok {
				if n, ok := a.funcObj[fo]; ok {
					a.valueUse[n] = true
				}
			}
		}
		a.expr(x.X, h, c)
	case *ast.Ident:
		if fo, ok := a.info.Uses[x].(*types.Func); ok {
			if n, ok := a.funcObj[fo]; ok {
				a.valueUse[n] = true
			}
		}
	case *ast.CallExpr:
		a.call(x, h, c)
	case *ast.FuncLit:
		// a closure that is neither deferred nor started with go: may run anywhere, any time
		cc := &walkCtx{decl: c.decl, fn: c.fn, inClosure: true, forceRole: c.forceRole}
		a.block(x.Body.List, heldLocks{}, cc)
	case *ast.UnaryExpr:
		if x.Op == token.AND {
			if se, ok := x.X.(*ast.SelectorExpr); ok {
				if _, _, isF := a.selField(se); isF {
					a.record(se, 1, h, c) // address taken: treat as a write
					a.expr(se.X, h, c)
					return
				}
			}
		}
		a.expr(x.X, h, c)
	case *ast.BinaryExpr:
		a.expr(x.X, h, c)
		a.expr(x.Y, h, c)
	case *ast.ParenExpr:
		a.expr(x.X, h, c)
	case *ast.StarExpr:
		a.expr(x.X, h, c)
	case *ast.IndexExpr:
		a.expr(x.X, h, c)
		a.expr(x.Index, h, c)
	case *ast.IndexListExpr:
		a.expr(x.X, h, c)
	case *ast.SliceExpr:
		a.expr(x.X, h, c)
		a.expr(x.Low, h, c)
		a.expr(x.High, h, c)
		a.expr(x.Max, h, c)
	case *ast.TypeAssertExpr:
		a.expr(x.X, h, c)
	case *ast.KeyValueExpr:
		a.expr(x.Key, h, c)
		a.expr(x.Value, h, c)
	case *ast.CompositeLit:
		a.composite(x, h, c)
	}
}

func (a *atAnalysis) composite(x *ast.CompositeLit, h heldLocks, c *walkCtx) {
	for _, el := range x.Elts {
		if kv, ok := el.(*ast.KeyValueExpr); ok {
			if id, ok := kv.Key.(*ast.Ident); ok {
				if v, ok := a.info.Uses[id].(*types.Var); ok {
					if sf, ok := a.fieldOf[v]; ok {
						cl := a.fclass[[2]string{sf[0], sf[1]}]
						if cl != "lock" && cl != "sync" {
							a.accesses = append(a.accesses, rawAccess{st: sf[0], field: sf[1], fn: c.fn, kind: 1,
								pos: id.Pos(), decl: c.decl, inClosure: c.inClosure, forceRole: c.forceRole, local: true})
						}
						a.expr(kv.Value, h, c)
						continue
					}
				}
			}
			a.expr(kv.Key, h, c)
			a.expr(kv.Value, h, c)
		} else {
			a.expr(el, h, c)
		}
	}
}

func (a *atAnalysis) calleeName(ce *ast.CallExpr) (string, string) {
	switch f := ce.Fun.(type) {
	case *ast.SelectorExpr:
		if sel, ok := a.info.Selections[f]; ok && sel.Kind() == types.MethodVal {
			if fo, ok := sel.Obj().(*types.Func); ok {
				if n, ok := a.funcObj[fo]; ok {
					return n, nodeText(a.p, f.X)
				}
			}
		}
	case *ast.Ident:
		if fo, ok := a.info.Uses[f].(*types.Func); ok {
			if n, ok := a.funcObj[fo]; ok {
				return n, ""
			}
		}
	}
	return "", ""
}

func (a *atAnalysis) call(ce *ast.CallExpr, h heldLocks, c *walkCtx) {
	// builtins that write their first argument's content
	if id, ok := ce.Fun.(*ast.Ident); ok && (id.Name == "delete" || id.Name == "clear") && len(ce.Args) > 0 {
		if se, ok := ce.Args[0].(*ast.SelectorExpr); ok {
			if _, _, isF := a.selField(se); isF {
				a.record(se, 1, h, c)
				a.expr(se.X, h, c)
				for _, x := range ce.Args[1:] {
					a.expr(x, h, c)
				}
				return
			}
		}
	}
	if n, recv := a.calleeName(ce); n != "" {
		a.calls = append(a.calls, callSite{caller: c.fn, callee: n, pos: ce.Pos(), decl: c.decl, recvText: recv,
			inClosure: c.inClosure, forceRole: c.forceRole, held: h.clone()})
		if fs, ok := ce.Fun.(*ast.SelectorExpr); ok {
			a.expr(fs.X, h, c)
		}
	} else {
		switch f := ce.Fun.(type) {
		case *ast.SelectorExpr:
			// method call on a field (x.f.Load(), x.f.Get(k)) or on something else
			a.expr(f.X, h, c)
		case *ast.FuncLit:
			a.expr(f, h, c)
		default:
			a.expr(ce.Fun, h, c)
		}
	}
	for _, x := range ce.Args {
		a.expr(x, h, c)
	}
}

// lhs walks an assignment target: the outermost field selection is a write.
func (a *atAnalysis) lhs(e ast.Expr, h heldLocks, c *walkCtx) {
	switch x := e.(type) {
	case *ast.SelectorExpr:
		if _, _, ok := a.selField(x); ok {
			a.record(x, 1, h, c)
			a.expr(x.X, h, c)
			return
		}
		// x.f.g = v : writes f's memory when f is a struct value field, else reads f
		if inner, ok := x.X.(*ast.SelectorExpr); ok {
			if st, f, ok := a.selField(inner); ok && a.valueFld[[2]string{st, f}] {
				a.record(inner, 1, h, c)
				a.expr(inner.X, h, c)
				return
			}
		}
		a.expr(x.X, h, c)
	case *ast.IndexExpr:
		// x.f[k] = v writes the content of f
		if se, ok := x.X.(*ast.SelectorExpr); ok {
			if _, _, isF := a.selField(se); isF {
				a.record(se, 1, h, c)
				a.expr(se.X, h, c)
				a.expr(x.Index, h, c)
				return
			}
		}
		a.expr(x.X, h, c)
		a.expr(x.Index, h, c)
	case *ast.StarExpr:
		a.expr(x.X, h, c)
	case *ast.ParenExpr:
		a.lhs(x.X, h, c)
	default:
		a.expr(e, h, c)
	}
}

func terminates(s ast.Stmt) bool {
	switch x := s.(type) {
	case *ast.ReturnStmt, *ast.BranchStmt:
		return true
	case *ast.ExprStmt:
		if ce, ok := x.X.(*ast.CallExpr); ok {
			if id, ok := ce.Fun.(*ast.Ident); ok && id.Name == "panic" {
				return true
			}
		}
	}
	return false
}

// block walks statements in order; returns the locks held at the end and whether control cannot
// fall through.
func (a *atAnalysis) block(list []ast.Stmt, h heldLocks, c *walkCtx) (heldLocks, bool) {
	for _, s := range list {
		var term bool
		h, term = a.stmt(s, h, c)
		if term {
			return h, true
		}
	}
	return h, false
}

func (a *atAnalysis) branch(body []ast.Stmt, h heldLocks, c *walkCtx, acc *heldLocks) {
	end, term := a.block(body, h.clone(), c)
	if !term {
		*acc = intersect(*acc, end)
	}
}

func (a *atAnalysis) stmt(s ast.Stmt, h heldLocks, c *walkCtx) (heldLocks, bool) {
	switch x := s.(type) {
	case *ast.ExprStmt:
		if key, op, ok := a.lockCall(x.X); ok {
			h = h.clone()
			switch op {
			case "Lock":
				h[key] = true
			case "RLock":
				h[key] = false
			default:
				delete(h, key)
			}
			return h, false
		}
		a.expr(x.X, h, c)
		return h, terminates(s)
	case *ast.DeferStmt:
		if _, op, ok := a.lockCall(x.Call); ok && (op == "Unlock" || op == "RUnlock") {
			return h, false // released at function exit: held for the rest of the body
		}
		if fl, ok := x.Call.Fun.(*ast.FuncLit); ok {
			// deferred closure: same goroutine, runs at exit; assume no lock is held any more
			cc := &walkCtx{decl: c.decl, fn: c.fn, inClosure: c.inClosure, forceRole: c.forceRole}
			a.block(fl.Body.List, heldLocks{}, cc)
			for _, arg := range x.Call.Args {
				a.expr(arg, h, c)
			}
			return h, false
		}
		a.call(x.Call, heldLocks{}, c)
		return h, false
	case *ast.GoStmt:
		a.goStmt(x, h, c)
		return h, false
	case *ast.AssignStmt:
		for _, r := range x.Rhs {
			a.expr(r, h, c)
		}
		for _, l := range x.Lhs {
			if x.Tok == token.DEFINE {
				continue
			}
			a.lhs(l, h, c)
			if x.Tok != token.ASSIGN { // += etc. also read
				a.expr(l, h, c)
			}
		}
		a.trackFresh(x, c)
		return h, false
	case *ast.IncDecStmt:
		a.lhs(x.X, h, c)
		return h, false
	case *ast.SendStmt:
		a.expr(x.Chan, h, c)
		a.expr(x.Value, h, c)
		return h, false
	case *ast.DeclStmt:
		if gd, ok := x.Decl.(*ast.GenDecl); ok {
			for _, sp := range gd.Specs {
				if vs, ok := sp.(*ast.ValueSpec); ok {
					for _, v := range vs.Values {
						a.expr(v, h, c)
					}
				}
			}
		}
		return h, false
	case *ast.ReturnStmt:
		for _, r := range x.Results {
			a.expr(r, h, c)
		}
		return h, true
	case *ast.BranchStmt:
		return h, true
	case *ast.BlockStmt:
		return a.block(x.List, h, c)
	case *ast.LabeledStmt:
		return a.stmt(x.Stmt, h, c)
	case *ast.IfStmt:
		if x.Init != nil {
			h, _ = a.stmt(x.Init, h, c)
		}
		a.expr(x.Cond, h, c)
		acc := h.clone()
		a.branch(x.Body.List, h, c, &acc)
		if x.Else != nil {
			a.branch([]ast.Stmt{x.Else}, h, c, &acc)
		}
		return acc, false
	case *ast.ForStmt:
		if x.Init != nil {
			h, _ = a.stmt(x.Init, h, c)
		}
		a.expr(x.Cond, h, c)
		acc := h.clone()
		body := x.Body.List
		if x.Post != nil {
			body = append(append([]ast.Stmt{}, body...), x.Post)
		}
		a.branch(body, h, c, &acc)
		return acc, false
	case *ast.RangeStmt:
		a.expr(x.X, h, c)
		acc := h.clone()
		a.branch(x.Body.List, h, c, &acc)
		return acc, false
	case *ast.SwitchStmt:
		if x.Init != nil {
			h, _ = a.stmt(x.Init, h, c)
		}
		a.expr(x.Tag, h, c)
		acc := h.clone()
		for _, cl := range x.Body.List {
			cc := cl.(*ast.CaseClause)
			for _, e := range cc.List {
				a.expr(e, h, c)
			}
			a.branch(cc.Body, h, c, &acc)
		}
		return acc, false
	case *ast.TypeSwitchStmt:
		if x.Init != nil {
			h, _ = a.stmt(x.Init, h, c)
		}
		h2, _ := a.stmt(x.Assign, h, c)
		acc := h2.clone()
		for _, cl := range x.Body.List {
			a.branch(cl.(*ast.CaseClause).Body, h2, c, &acc)
		}
		return acc, false
	case *ast.SelectStmt:
		acc := h.clone()
		for _, cl := range x.Body.List {
			cc := cl.(*ast.CommClause)
			hh := h.clone()
			if cc.Comm != nil {
				hh, _ = a.stmt(cc.Comm, hh, c)
			}
			a.branch(cc.Body, hh, c, &acc)
		}
		return acc, false
	}
	return h, false
}

// trackFresh notes  v := &S{..} | S{..} | new(S) | NewS(..)  so that accesses through v are
// constructor-local until the first go statement of the function.
func (a *atAnalysis) trackFresh(as *ast.AssignStmt, c *walkCtx) {
	if c.inClosure || c.locals == nil || len(as.Rhs) == 0 || len(as.Lhs) == 0 || as.Tok != token.DEFINE {
		return
	}
	id, ok := as.Lhs[0].(*ast.Ident)
	if !ok || id.Name == "_" {
		return
	}
	fresh := a.freshExpr(as.Rhs[0])
	if fresh {
		if _, seen := c.locals[id.Name]; !seen {
			until := firstSpawn(c.decl, a)
			if e := firstEscape(c.decl, id.Name, as.End()); e != 0 && (until == 0 || e < until) {
				until = e
			}
			c.locals[id.Name] = until
		}
	}
}

// freshExpr: the expression builds a new object of a target struct: &S{..}, S{..}, new(S), a call of
// an in-package New*/new* function returning (a pointer to) a target struct, or a call of a function
// known to return only objects it has freshly built (freshRet).
func (a *atAnalysis) freshExpr(r ast.Expr) bool {
	if u, ok := r.(*ast.UnaryExpr); ok && u.Op == token.AND {
		r = u.X
	}
	switch y := r.(type) {
	case *ast.CompositeLit:
		if tid, ok := y.Type.(*ast.Ident); ok && a.targets[tid.Name] {
			return true
		}
	case *ast.CallExpr:
		if fid, ok := y.Fun.(*ast.Ident); ok {
			if fid.Name == "new" && len(y.Args) == 1 {
				if tid, ok := y.Args[0].(*ast.Ident); ok && a.targets[tid.Name] {
					return true
				}
			} else if strings.HasPrefix(strings.ToLower(fid.Name), "new") {
				if fd, ok := a.funcs[fid.Name]; ok && a.firstResultIsTarget(fd) {
					return true
				}
			}
		}
		if n, _ := a.calleeName(y); n != "" && a.freshRet[n] {
			return true
		}
	}
	return false
}

func (a *atAnalysis) firstResultIsTarget(fd *ast.FuncDecl) bool {
	if fd.Type.Results == nil || len(fd.Type.Results.List) == 0 {
		return false
	}
	rt := strings.TrimPrefix(nodeText(a.p, fd.Type.Results.List[0].Type), "*")
	return a.targets[rt]
}

// computeFreshRet finds the functions that only ever return nil or a local that was :=-bound to a
// fresh object inside them (e.g. fileConfig.reloadAndStore returning the config it has just built).
func (a *atAnalysis) computeFreshRet() {
	a.freshRet = map[string]bool{}
	for round := 0; round < 4; round++ {
		changed := false
		for n, fd := range a.funcs {
			if a.freshRet[n] || !a.firstResultIsTarget(fd) {
				continue
			}
			freshVars := map[string]bool{}
			reassigned := map[string]bool{}
			ast.Inspect(fd.Body, func(nd ast.Node) bool {
				if _, isLit := nd.(*ast.FuncLit); isLit {
					return false
				}
				as, ok := nd.(*ast.AssignStmt)
				if !ok || len(as.Lhs) == 0 || len(as.Rhs) == 0 {
					return true
				}
				id, ok := as.Lhs[0].(*ast.Ident)
				if !ok {
					return true
				}
				if as.Tok == token.DEFINE && a.freshExpr(as.Rhs[0]) && !freshVars[id.Name] {
					freshVars[id.Name] = true
				} else if freshVars[id.Name] {
					reassigned[id.Name] = true
				}
				return true
			})
			ok, any := true, false
			ast.Inspect(fd.Body, func(nd ast.Node) bool {
				if _, isLit := nd.(*ast.FuncLit); isLit {
					return false
				}
				rs, isRet := nd.(*ast.ReturnStmt)
				if !isRet {
					return true
				}
				if len(rs.Results) == 0 {
					ok = false // named results: not analysed
					return true
				}
				switch x := rs.Results[0].(type) {
				case *ast.Ident:
					if x.Name == "nil" {
						return true
					}
					if freshVars[x.Name] && !reassigned[x.Name] {
						any = true
						return true
					}
					ok = false
				default:
					if a.freshExpr(rs.Results[0]) {
						any = true
					} else {
						ok = false
					}
				}
				return true
			})
			if ok && any {
				a.freshRet[n] = true
				changed = true
			}
		}
		if !changed {
			break
		}
	}
}

// firstEscape is the position of the first use of the variable after `from` that is not the base
// of a selector expression (stored somewhere, passed to a call, sent on a channel): from there on
// the object may be shared. A plain `return v` does not count (the function is over).
func firstEscape(fd *ast.FuncDecl, name string, from token.Pos) token.Pos {
	var p token.Pos
	var stack []ast.Node
	ast.Inspect(fd.Body, func(n ast.Node) bool {
		if n == nil {
			stack = stack[:len(stack)-1]
			return true
		}
		if id, ok := n.(*ast.Ident); ok && id.Name == name && id.Pos() >= from && len(stack) > 0 {
			parent := stack[len(stack)-1]
			esc := true
			switch x := parent.(type) {
			case *ast.SelectorExpr:
				esc = x.X != n
			case *ast.ReturnStmt:
				esc = false
			case *ast.BinaryExpr: // v == nil
				esc = false
			case *ast.AssignStmt:
				for _, l := range x.Lhs {
					if l == n {
						esc = false
					}
				}
			}
			if esc && (p == 0 || id.Pos() < p) {
				p = id.Pos()
			}
		}
		stack = append(stack, n)
		return true
	})
	return p
}

// firstSpawn is the position of the first go statement of the function (0 when there is none).
func firstSpawn(fd *ast.FuncDecl, a *atAnalysis) token.Pos {
	var p token.Pos
	ast.Inspect(fd.Body, func(n ast.Node) bool {
		if g, ok := n.(*ast.GoStmt); ok && (p == 0 || g.Pos() < p) {
			p = g.Pos()
		}
		return true
	})
	return p
}

func (a *atAnalysis) goStmt(g *ast.GoStmt, h heldLocks, c *walkCtx) {
	if fl, ok := g.Call.Fun.(*ast.FuncLit); ok {
		a.litCount[c.fn]++
		role := fmt.Sprintf("%s$go%d", c.fn, a.litCount[c.fn])
		a.goSites = append(a.goSites, [3]string{recvStruct(c.decl), role, c.fn})
		cc := &walkCtx{decl: c.decl, fn: c.fn, inClosure: true, forceRole: role}
		a.block(fl.Body.List, heldLocks{}, cc)
		for _, arg := range g.Call.Args {
			a.expr(arg, h, c)
		}
		return
	}
	if n, _ := a.calleeName(g.Call); n != "" {
		st := ""
		if i := strings.Index(n, "."); i >= 0 {
			st = n[:i]
		}
		a.goSites = append(a.goSites, [3]string{st, n, c.fn})
		a.goRoots[n] = append(a.goRoots[n], n)
		if fs, ok := g.Call.Fun.(*ast.SelectorExpr); ok {
			a.expr(fs.X, h, c)
		}
		for _, arg := range g.Call.Args {
			a.expr(arg, h, c)
		}
		return
	}
	// go <something else>(...): callback variables etc.
	a.goSites = append(a.goSites, [3]string{"", "dynamic", c.fn})
	a.expr(g.Call.Fun, h, c)
	for _, arg := range g.Call.Args {
		a.expr(arg, h, c)
	}
}

// containsSpawn: the statement starts a goroutine or hands out a method value / closure as callback.
func (a *atAnalysis) containsSpawn(s ast.Stmt, spawning map[string]bool) bool {
	found := false
	ast.Inspect(s, func(n ast.Node) bool {
		if found {
			return false
		}
		switch x := n.(type) {
		case *ast.GoStmt:
			found = true
		case *ast.DeferStmt:
			return false
		case *ast.CallExpr:
			if n, _ := a.calleeName(x); n != "" && spawning[n] {
				found = true
				return false
			}
			for _, arg := range x.Args {
				switch y := arg.(type) {
				case *ast.FuncLit:
					found = true
				case *ast.SelectorExpr:
					if sel, ok := a.info.Selections[y]; ok && sel.Kind() == types.MethodVal {
						found = true
					}
				}
			}
		}
		return true
	})
	return found
}

func accessTable(it Item) (string, error) {
	p, err := loadPkg(it.Pkg)
	if err != nil {
		return "", err
	}
	strList := func(k string) []string {
		var out []string
		if v, ok := it.Extra[k].([]any); ok {
			for _, x := range v {
				if s, ok := x.(string); ok {
					out = append(out, s)
				}
			}
		}
		return out
	}
	a := &atAnalysis{p: p, targets: map[string]bool{}, fieldOf: map[*types.Var][2]string{}, fclass: map[[2]string]string{},
		ftext: map[[2]string]string{}, valueFld: map[[2]string]bool{}, funcs: map[string]*ast.FuncDecl{},
		funcObj: map[*types.Func]string{}, goRoots: map[string][]string{}, valueUse: map[string]bool{},
		spawns: map[string][]spawnPoint{}, startFns: map[string]bool{}, lifeFns: map[string]bool{}, litCount: map[string]int{}}
	for _, s := range strList("structs") {
		a.targets[s] = true
	}
	startNames := strList("start_funcs")
	if len(startNames) == 0 {
		startNames = []string{"Start"}
	}
	stopNames := strList("stop_funcs")
	if len(stopNames) == 0 {
		stopNames = []string{"Stop"}
	}
	preNames := strList("prestart_funcs") // setters called by the lifecycle goroutine before Start
	lifeNames := append(append(append([]string{}, startNames...), stopNames...), preNames...)
	lifeNames = append(lifeNames, strList("lifecycle_funcs")...)
	testOnly := map[string]bool{}
	for _, n := range strList("test_only") {
		testOnly[n] = true
	}
	extNames := externalSelNames(it.Pkg)
	a.info = &types.Info{Selections: map[*ast.SelectorExpr]*types.Selection{}, Uses: map[*ast.Ident]types.Object{},
		Defs: map[*ast.Ident]types.Object{}, Types: map[ast.Expr]types.TypeAndValue{}}
	conf := types.Config{Importer: fakeImporter{cache: map[string]*types.Package{}}, Error: func(error) {},
		DisableUnusedImportCheck: true, FakeImportC: true}
	pkg, _ := conf.Check(it.Pkg, p.fset, p.files, a.info)
	if pkg == nil {
		return "", fmt.Errorf("type-check of %s produced no package", it.Pkg)
	}
	// struct declarations
	found := map[string]bool{}
	for _, f := range p.files {
		for _, d := range f.Decls {
			gd, ok := d.(*ast.GenDecl)
			if !ok {
				continue
			}
			for _, sp := range gd.Specs {
				ts, ok := sp.(*ast.TypeSpec)
				if !ok || !a.targets[ts.Name.Name] {
					continue
				}
				stAst, ok := ts.Type.(*ast.StructType)
				if !ok {
					continue
				}
				found[ts.Name.Name] = true
				obj := pkg.Scope().Lookup(ts.Name.Name)
				if obj == nil {
					continue
				}
				stT, ok := obj.Type().Underlying().(*types.Struct)
				if !ok {
					continue
				}
				idx := 0
				for _, fl := range stAst.Fields.List {
					n := len(fl.Names)
					if n == 0 {
						n = 1
					}
					for k := 0; k < n; k++ {
						if idx >= stT.NumFields() {
							break
						}
						v := stT.Field(idx)
						idx++
						key := [2]string{ts.Name.Name, v.Name()}
						a.fieldOf[v] = key
						a.fclass[key] = a.classOf(fl.Type)
						a.ftext[key] = strings.Join(strings.Fields(nodeText(p, fl.Type)), " ")
						switch v.Type().Underlying().(type) {
						case *types.Struct, *types.Array:
							if a.fclass[key] == "plain" {
								a.valueFld[key] = true
							}
						}
					}
				}
			}
		}
	}
	for s := range a.targets {
		if !found[s] {
			return "", fmt.Errorf("struct %s not found in %s", s, it.Pkg)
		}
	}
	// functions
	testOnlySeen := map[string]bool{}
	for _, f := range p.files {
		for _, d := range f.Decls {
			if fd, ok := d.(*ast.FuncDecl); ok && fd.Body != nil {
				n := funcName(fd)
				if testOnly[n] {
					if extNames[fd.Name.Name] {
						return "", fmt.Errorf("%s is listed as test_only but the name %s is referenced from non-test code", n, fd.Name.Name)
					}
					testOnlySeen[n] = true
					continue
				}
				a.funcs[n] = fd
				if fo, ok := a.info.Defs[fd.Name].(*types.Func); ok {
					a.funcObj[fo] = n
				}
			}
		}
	}
	isNamed := func(n string, names []string) bool {
		base := n
		if i := strings.Index(n, "."); i >= 0 {
			base = n[i+1:]
		}
		for _, x := range names {
			if x == base {
				return true
			}
		}
		return false
	}
	names := make([]string, 0, len(a.funcs))
	for n := range a.funcs {
		names = append(names, n)
	}
	sort.Strings(names)
	for _, n := range names {
		if strings.Contains(n, ".") && isNamed(n, startNames) {
			a.startFns[n] = true
		}
		if strings.Contains(n, ".") && isNamed(n, lifeNames) {
			a.lifeFns[n] = true
		}
	}
	a.computeFreshRet()
	// walk
	for _, n := range names {
		fd := a.funcs[n]
		c := &walkCtx{decl: fd, fn: n, locals: map[string]token.Pos{}}
		a.block(fd.Body.List, heldLocks{}, c)
	}
	// which functions (transitively) spawn
	spawning := map[string]bool{}
	for _, g := range a.goSites {
		spawning[g[2]] = true
	}
	for changed := true; changed; {
		changed = false
		for _, cs := range a.calls {
			if spawning[cs.callee] && !spawning[cs.caller] {
				spawning[cs.caller] = true
				changed = true
			}
		}
	}
	// spawn points of Start functions (top-level statements; a loop containing a spawn counts from its start)
	var collectSpawns func(n string, list []ast.Stmt)
	collectSpawns = func(n string, list []ast.Stmt) {
		for _, s := range list {
			if _, isDefer := s.(*ast.DeferStmt); isDefer {
				continue
			}
			if !a.containsSpawn(s, spawning) {
				continue
			}
			switch x := s.(type) {
			case *ast.BlockStmt:
				collectSpawns(n, x.List)
			case *ast.IfStmt:
				// not a loop: the spawn point is inside the branch (a spawn in the condition / init counts at the if)
				if (x.Init != nil && a.containsSpawn(x.Init, spawning)) || a.containsSpawn(&ast.ExprStmt{X: x.Cond}, spawning) {
					a.spawns[n] = append(a.spawns[n], spawnPoint{s.Pos(), s.End()})
					continue
				}
				collectSpawns(n, x.Body.List)
				if x.Else != nil {
					collectSpawns(n, []ast.Stmt{x.Else})
				}
			default:
				a.spawns[n] = append(a.spawns[n], spawnPoint{s.Pos(), s.End()})
			}
		}
	}
	for n := range a.startFns {
		collectSpawns(n, a.funcs[n].Body.List)
		sort.Slice(a.spawns[n], func(i, j int) bool { return a.spawns[n][i].start < a.spawns[n][j].start })
	}
	segment := func(startFn string, pos token.Pos) int {
		seg := 1
		for _, sp := range a.spawns[startFn] {
			if sp.start <= pos {
				seg++
			}
		}
		return seg
	}
	// roles -----------------------------------------------------------------------------------
	roleSet := map[string]map[string]bool{}
	add := func(fn, r string) bool {
		if roleSet[fn] == nil {
			roleSet[fn] = map[string]bool{}
		}
		if roleSet[fn][r] {
			return false
		}
		roleSet[fn][r] = true
		return true
	}
	hasCaller := map[string]bool{}
	for _, cs := range a.calls {
		hasCaller[cs.callee] = true
	}
	for _, n := range names {
		base := n
		if i := strings.Index(n, "."); i >= 0 {
			base = n[i+1:]
		}
		switch {
		case a.lifeFns[n]:
			add(n, "lifecycle")
		case ast.IsExported(base) && (extNames[base] || wellKnownEntry[base] || !strings.Contains(n, ".") && extNames[base]):
			add(n, "ext")
		}
		if a.valueUse[n] {
			add(n, "cb:"+n)
		}
		for _, r := range a.goRoots[n] {
			add(n, r)
		}
		if !hasCaller[n] && len(roleSet[n]) == 0 {
			add(n, "ext") // reached only from outside the package (interface implementation, init, ...)
		}
	}
	for changed := true; changed; {
		changed = false
		for _, cs := range a.calls {
			if cs.forceRole != "" {
				if add(cs.callee, cs.forceRole) {
					changed = true
				}
				continue
			}
			for r := range roleSet[cs.caller] {
				if add(cs.callee, r) {
					changed = true
				}
			}
			if cs.inClosure {
				if add(cs.callee, "closure:"+cs.caller) {
					changed = true
				}
			}
		}
	}
	recvNameOf := func(fn string) string {
		fd := a.funcs[fn]
		if fd != nil && fd.Recv != nil && len(fd.Recv.List) > 0 && len(fd.Recv.List[0].Names) > 0 {
			return fd.Recv.List[0].Names[0].Name
		}
		return ""
	}
	isEntry := func(n string) bool {
		base := n
		if i := strings.Index(n, "."); i >= 0 {
			base = n[i+1:]
		}
		if a.valueUse[n] || len(a.goRoots[n]) > 0 || a.lifeFns[n] || !hasCaller[n] {
			return true
		}
		return ast.IsExported(base) && (extNames[base] || wellKnownEntry[base])
	}
	// helper functions executed only inside a Start segment (e.g. registerMetrics) --------------
	helperSeg := map[string]int{}   // function -> segment
	helperOf := map[string]string{} // function -> its Start function
	for iter := 0; iter < 5; iter++ {
		for _, n := range names {
			if a.startFns[n] || a.lifeFns[n] || a.valueUse[n] || len(a.goRoots[n]) > 0 || !strings.Contains(n, ".") {
				continue
			}
			if isEntry(n) {
				continue
			}
			seg, owner, ok, any := 0, "", true, false
			for _, cs := range a.calls {
				if cs.callee != n {
					continue
				}
				any = true
				if cs.inClosure || cs.forceRole != "" {
					ok = false
					break
				}
				var s int
				var o string
				if a.startFns[cs.caller] {
					s, o = segment(cs.caller, cs.pos), cs.caller
				} else if hs, isH := helperSeg[cs.caller]; isH {
					s, o = hs, helperOf[cs.caller]
				} else {
					ok = false
					break
				}
				// same receiver object
				callerDecl := a.funcs[cs.caller]
				recvName := ""
				if callerDecl.Recv != nil && len(callerDecl.Recv.List) > 0 && len(callerDecl.Recv.List[0].Names) > 0 {
					recvName = callerDecl.Recv.List[0].Names[0].Name
				}
				if cs.recvText != recvName || recvStruct(a.funcs[n]) != recvStruct(callerDecl) {
					ok = false
					break
				}
				if owner != "" && owner != o {
					ok = false
					break
				}
				owner = o
				if s > seg {
					seg = s
				}
			}
			if any && ok {
				helperSeg[n], helperOf[n] = seg, owner
			} else {
				delete(helperSeg, n)
				delete(helperOf, n)
			}
		}
	}
	// birth of a role relative to struct st: roots / callbacks started inside st's Start at spawn
	// point j are born after segment j; everything else after the whole of Start (END)
	startOf := map[string]string{}
	for n := range a.startFns {
		startOf[recvStruct(a.funcs[n])] = n
	}
	end := func(st string) int {
		if s, ok := startOf[st]; ok {
			return len(a.spawns[s]) + 2
		}
		return 1
	}
	rootBirthPos := map[string][]token.Pos{} // role -> positions where it is launched / registered, per Start fn
	rootLauncher := map[string]map[string]bool{}
	noteLaunch := func(role, launcher string, pos token.Pos) {
		if rootLauncher[role] == nil {
			rootLauncher[role] = map[string]bool{}
		}
		rootLauncher[role][launcher] = true
		rootBirthPos[role+"\x00"+launcher] = append(rootBirthPos[role+"\x00"+launcher], pos)
	}
	for _, n := range names {
		fd := a.funcs[n]
		lit := 0
		ast.Inspect(fd.Body, func(nd ast.Node) bool {
			switch x := nd.(type) {
			case *ast.GoStmt:
				if _, ok := x.Call.Fun.(*ast.FuncLit); ok {
					lit++
					noteLaunch(fmt.Sprintf("%s$go%d", n, lit), n, x.Pos())
				} else if cn, _ := a.calleeName(x.Call); cn != "" {
					noteLaunch(cn, n, x.Pos())
				}
			case *ast.SelectorExpr:
				if sel, ok := a.info.Selections[x]; ok && sel.Kind() == types.MethodVal {
					if fo, ok := sel.Obj().(*types.Func); ok {
						if cn, ok := a.funcObj[fo]; ok && a.valueUse[cn] {
							noteLaunch("cb:"+cn, n, x.Pos())
						}
					}
				}
			}
			return true
		})
	}
	birth := func(role, st string) int {
		e := end(st)
		s, ok := startOf[st]
		if !ok {
			return e
		}
		ls := rootLauncher[role]
		if len(ls) == 0 {
			return e
		}
		b := e
		for l := range ls {
			if l != s {
				continue // launched elsewhere: that code itself runs after Start
			}
			for _, pos := range rootBirthPos[role+"\x00"+l] {
				// born at the spawn point whose statement contains pos: after segment j => birth j+1
				j := 0
				for k, sp := range a.spawns[s] {
					if sp.start <= pos {
						j = k + 1
					}
				}
				if j+1 < b {
					b = j + 1
				}
			}
		}
		return b
	}
	// stop functions: the part after the last  recv.<WaitGroup field>.Wait()  is "final" (all of the
	// struct's own goroutines have been joined); when the struct starts no goroutine of its own the
	// whole function is
	ownGo := map[string]bool{}
	for _, g := range a.goSites {
		ownGo[recvStruct(a.funcs[g[2]])] = true
		if g[0] != "" {
			ownGo[g[0]] = true
		}
	}
	finalFrom := map[string]token.Pos{}
	for _, n := range names {
		if !strings.Contains(n, ".") || !isNamed(n, stopNames) {
			continue
		}
		fd := a.funcs[n]
		var pos token.Pos
		for _, st := range fd.Body.List {
			es, ok := st.(*ast.ExprStmt)
			if !ok {
				continue
			}
			ce, ok := es.X.(*ast.CallExpr)
			if !ok {
				continue
			}
			fs, ok := ce.Fun.(*ast.SelectorExpr)
			if !ok || fs.Sel.Name != "Wait" {
				continue
			}
			if inner, ok := fs.X.(*ast.SelectorExpr); ok {
				if stn, f, ok := a.selField(inner); ok && a.fclass[[2]string{stn, f}] == "sync" {
					pos = st.End()
				}
			}
		}
		if pos == 0 && !ownGo[recvStruct(fd)] {
			pos = fd.Body.Pos()
		}
		if pos != 0 {
			finalFrom[n] = pos
		}
	}
	// locks inherited from the callers: an internal helper that is only ever called (directly, on the
	// caller's own receiver) while the receiver's lock m is held runs with m held
	inherit := map[string]map[string]bool{} // function -> lock field -> exclusive
	for round := 0; round < 4; round++ {
		for _, n := range names {
			if !strings.Contains(n, ".") || isEntry(n) {
				continue
			}
			var acc map[string]bool
			ok := true
			for _, cs := range a.calls {
				if cs.callee != n {
					continue
				}
				if cs.inClosure || cs.forceRole != "" || cs.recvText == "" || cs.recvText != recvNameOf(cs.caller) ||
					recvStruct(a.funcs[cs.caller]) != recvStruct(a.funcs[n]) {
					ok = false
					break
				}
				here := map[string]bool{}
				for k, x := range cs.held {
					parts := strings.SplitN(k, "\x00", 2)
					if parts[0] == cs.recvText {
						here[parts[1]] = x
					}
				}
				for m, x := range inherit[cs.caller] {
					if old, has := here[m]; !has || (x && !old) {
						here[m] = x
					}
				}
				if acc == nil {
					acc = here
				} else {
					for m, x := range acc {
						if y, has := here[m]; !has {
							delete(acc, m)
						} else {
							acc[m] = x && y
						}
					}
				}
			}
			if ok && len(acc) > 0 {
				inherit[n] = acc
			} else {
				delete(inherit, n)
			}
		}
	}
	// rows ------------------------------------------------------------------------------------
	var rows []atSite
	for _, ac := range a.accesses {
		var roles []string
		if ac.forceRole != "" {
			roles = []string{ac.forceRole}
		} else {
			for r := range roleSet[ac.fn] {
				roles = append(roles, r)
			}
			if ac.inClosure {
				roles = append(roles, "closure:"+ac.fn)
			}
		}
		sort.Strings(roles)
		row := atSite{st: ac.st, field: ac.field, fn: ac.fn, kind: ac.kind, locks: ac.locks, roles: roles}
		if inh := inherit[ac.fn]; len(inh) > 0 && !ac.inClosure && ac.forceRole == "" && ac.base == recvNameOf(ac.fn) {
			have := map[string]bool{}
			for _, l := range row.locks {
				have[strings.SplitN(l, "\x00", 2)[0]] = true
			}
			merged := append([]string{}, row.locks...)
			for m, x := range inh {
				if !have[m] {
					merged = append(merged, fmt.Sprintf("%s\x00%v", m, x))
				}
			}
			sort.Strings(merged)
			row.locks = merged
		}
		recvName := ""
		if ac.decl.Recv != nil && len(ac.decl.Recv.List) > 0 && len(ac.decl.Recv.List[0].Names) > 0 {
			recvName = ac.decl.Recv.List[0].Names[0].Name
		}
		onRecv := ac.base == recvName && recvStruct(ac.decl) == ac.st && !ac.inClosure && ac.forceRole == ""
		switch {
		case ac.local:
			row.phase, row.run = 0, false
		case onRecv && a.startFns[ac.fn]:
			row.phase, row.run = segment(ac.fn, ac.pos), false
		case onRecv && strings.Contains(ac.fn, ".") && isNamed(ac.fn, preNames):
			row.phase, row.run = 1, false
		case onRecv && helperSeg[ac.fn] > 0:
			row.phase, row.run = helperSeg[ac.fn], false
		default:
			b := end(ac.st)
			if len(roles) == 0 {
				b = end(ac.st)
			}
			for i, r := range roles {
				rb := birth(r, ac.st)
				if i == 0 || rb < b {
					b = rb
				}
			}
			row.phase, row.run = b, true
			if fp, ok := finalFrom[ac.fn]; ok && ac.forceRole == "" && ac.pos >= fp {
				row.final = true
			}
		}
		rows = append(rows, row)
	}
	key := func(r atSite) string {
		return fmt.Sprintf("%s|%s|%s|%d|%s|%s|%d|%v|%v", r.st, r.field, r.fn, r.kind, strings.Join(r.locks, ","), strings.Join(r.roles, ","), r.phase, r.run, r.final)
	}
	sort.Slice(rows, func(i, j int) bool { return key(rows[i]) < key(rows[j]) })
	var out []string
	seen := map[string]bool{}
	for _, r := range rows {
		k := key(r)
		if seen[k] {
			continue
		}
		seen[k] = true
		var ls []string
		for _, l := range r.locks {
			parts := strings.SplitN(l, "\x00", 2)
			ls = append(ls, fmt.Sprintf("(%s, %s)", coqStr(parts[0]), parts[1]))
		}
		out = append(out, fmt.Sprintf("(%s, %s, %s, %d%%N, [%s], %s, %d%%N, %v, %v)", coqStr(r.st), coqStr(r.field), coqStr(r.fn),
			r.kind, strings.Join(ls, "; "), coqStrList(r.roles), r.phase, r.run, r.final))
	}
	var b strings.Builder
	fmt.Fprintf(&b, "Definition %s_sites : list (string * string * string * N * list (string * bool) * list string * N * bool * bool) :=\n  [%s].\n\n",
		it.Coq, strings.Join(out, ";\n   "))
	// go statements
	var gs []string
	seenG := map[string]bool{}
	for _, g := range a.goSites {
		s := fmt.Sprintf("(%s, %s, %s)", coqStr(g[0]), coqStr(g[1]), coqStr(g[2]))
		if !seenG[s] {
			seenG[s] = true
			gs = append(gs, s)
		}
	}
	sort.Strings(gs)
	fmt.Fprintf(&b, "Definition %s_go : list (string * string * string) :=\n  [%s].\n\n", it.Coq, strings.Join(gs, ";\n   "))
	// fields with their class
	var fs []string
	for k, cl := range a.fclass {
		fs = append(fs, fmt.Sprintf("(%s, %s, %s)", coqStr(k[0]), coqStr(k[1]), coqStr(cl)))
	}
	sort.Strings(fs)
	fmt.Fprintf(&b, "Definition %s_fields : list (string * string * string) :=\n  [%s].", it.Coq, strings.Join(fs, ";\n   "))
	return b.String(), nil
}
