// translate: regenerates coq/Gen/*.v from the working tree of the refinery repository.
//
// It does not translate Go statements. It extracts the facts the Coq models are parametric in
// (constants, struct field lists and tags, switch arms, call argument lists, map literals, and
// constant expressions located by a pattern inside a function), so that an edit to the source
// changes the subject of the theorems. Extraction requests live in specs/*.json, one file per
// generated Coq file.
package main

import (
	"bytes"
	"crypto/sha256"
	"encoding/hex"
	"encoding/json"
	"flag"
	"fmt"
	"go/ast"
	"go/parser"
	"go/printer"
	"go/token"
	"math/big"
	"os"
	"path/filepath"
	"regexp"
	"sort"
	"strconv"
	"strings"
)

type Item struct {
	Kind   string `json:"kind"`   // const | struct_fields | switch_cases | call_args | map_literal | expr_in_func | fingerprint | func_text_has | string_list
	Pkg    string `json:"pkg"`    // directory relative to repo root
	Name   string `json:"name"`   // Go identifier (const, type, var, or function; methods as Recv.Method)
	Func   string `json:"func"`   // enclosing function for in-function lookups
	Call   string `json:"call"`   // callee text for call_args
	Regex  string `json:"regex"`  // for expr_in_func / func_text_has: regex over normalised function text
	Coq    string `json:"coq"`    // Coq definition name
	As     string `json:"as"`     // Z (default) | N | string
	Tag    string `json:"tag"`    // struct tag key to extract for struct_fields (optional, comma list)
	Extra  map[string]any `json:"extra"` // free-form parameters for custom kinds
}

type Spec struct {
	Out   string `json:"out"` // file name under coq/Gen
	Doc   string `json:"doc"`
	Items []Item `json:"items"`
}

type pkgInfo struct {
	fset  *token.FileSet
	files []*ast.File
}

var repo string
var pkgs = map[string]*pkgInfo{}

func loadPkg(dir string) (*pkgInfo, error) {
	if p, ok := pkgs[dir]; ok {
		return p, nil
	}
	fset := token.NewFileSet()
	ents, err := os.ReadDir(filepath.Join(repo, dir))
	if err != nil {
		return nil, err
	}
	p := &pkgInfo{fset: fset}
	for _, e := range ents {
		n := e.Name()
		if e.IsDir() || !strings.HasSuffix(n, ".go") || strings.HasSuffix(n, "_test.go") || strings.HasPrefix(n, "verif_") {
			continue
		}
		f, err := parser.ParseFile(fset, filepath.Join(repo, dir, n), nil, parser.SkipObjectResolution)
		if err != nil {
			return nil, err
		}
		p.files = append(p.files, f)
	}
	pkgs[dir] = p
	return p, nil
}

func funcName(fd *ast.FuncDecl) string {
	if fd.Recv != nil && len(fd.Recv.List) > 0 {
		t := fd.Recv.List[0].Type
		for {
			switch x := t.(type) {
			case *ast.StarExpr:
				t = x.X
				continue
			case *ast.IndexExpr:
				t = x.X
				continue
			case *ast.IndexListExpr:
				t = x.X
				continue
			}
			break
		}
		if id, ok := t.(*ast.Ident); ok {
			return id.Name + "." + fd.Name.Name
		}
	}
	return fd.Name.Name
}

func findFunc(p *pkgInfo, name string) *ast.FuncDecl {
	for _, f := range p.files {
		for _, d := range f.Decls {
			if fd, ok := d.(*ast.FuncDecl); ok && funcName(fd) == name {
				return fd
			}
		}
	}
	return nil
}

func nodeText(p *pkgInfo, n ast.Node) string {
	var b bytes.Buffer
	printer.Fprint(&b, p.fset, n)
	return b.String()
}

// normalised text of a function: printed without comments, whitespace collapsed.
func funcText(p *pkgInfo, fd *ast.FuncDecl) string {
	var b bytes.Buffer
	cfg := printer.Config{Mode: printer.RawFormat}
	cfg.Fprint(&b, p.fset, fd)
	s := b.String()
	s = regexp.MustCompile(`\s+`).ReplaceAllString(s, " ")
	return s
}

// ---- constant evaluation
var timeUnits = map[string]int64{"Nanosecond": 1, "Microsecond": 1e3, "Millisecond": 1e6, "Second": 1e9, "Minute": 60e9, "Hour": 3600e9}

func findConstExpr(p *pkgInfo, name string, inFunc string) ast.Expr {
	var found ast.Expr
	visit := func(n ast.Node) bool {
		if found != nil {
			return false
		}
		if vs, ok := n.(*ast.ValueSpec); ok {
			for i, id := range vs.Names {
				if id.Name == name && i < len(vs.Values) {
					found = vs.Values[i]
					return false
				}
			}
		}
		return true
	}
	if inFunc != "" {
		if fd := findFunc(p, inFunc); fd != nil {
			ast.Inspect(fd, visit)
		}
		return found
	}
	for _, f := range p.files {
		for _, d := range f.Decls {
			if gd, ok := d.(*ast.GenDecl); ok {
				ast.Inspect(gd, visit)
			}
		}
	}
	return found
}

func evalInt(p *pkgInfo, e ast.Expr, inFunc string, depth int) (*big.Int, error) {
	if depth > 20 {
		return nil, fmt.Errorf("constant too deep")
	}
	switch x := e.(type) {
	case *ast.BasicLit:
		if x.Kind == token.INT {
			v, ok := new(big.Int).SetString(strings.ReplaceAll(x.Value, "_", ""), 0)
			if !ok {
				return nil, fmt.Errorf("bad int %s", x.Value)
			}
			return v, nil
		}
		if x.Kind == token.FLOAT {
			f, ok := new(big.Float).SetString(strings.ReplaceAll(x.Value, "_", ""))
			if ok && f.IsInt() {
				v, _ := f.Int(nil)
				return v, nil
			}
		}
		return nil, fmt.Errorf("non-integer literal %s", x.Value)
	case *ast.ParenExpr:
		return evalInt(p, x.X, inFunc, depth+1)
	case *ast.UnaryExpr:
		v, err := evalInt(p, x.X, inFunc, depth+1)
		if err != nil {
			return nil, err
		}
		if x.Op == token.SUB {
			return v.Neg(v), nil
		}
		return v, nil
	case *ast.BinaryExpr:
		a, err := evalInt(p, x.X, inFunc, depth+1)
		if err != nil {
			return nil, err
		}
		b, err := evalInt(p, x.Y, inFunc, depth+1)
		if err != nil {
			return nil, err
		}
		r := new(big.Int)
		switch x.Op {
		case token.ADD:
			return r.Add(a, b), nil
		case token.SUB:
			return r.Sub(a, b), nil
		case token.MUL:
			return r.Mul(a, b), nil
		case token.QUO:
			if b.Sign() == 0 {
				return nil, fmt.Errorf("div by zero")
			}
			return r.Quo(a, b), nil
		case token.SHL:
			return r.Lsh(a, uint(b.Int64())), nil
		case token.SHR:
			return r.Rsh(a, uint(b.Int64())), nil
		}
		return nil, fmt.Errorf("unsupported op %s", x.Op)
	case *ast.SelectorExpr:
		if id, ok := x.X.(*ast.Ident); ok {
			if id.Name == "time" {
				if u, ok := timeUnits[x.Sel.Name]; ok {
					return big.NewInt(u), nil
				}
			}
			if id.Name == "math" {
				switch x.Sel.Name {
				case "MaxUint32":
					return big.NewInt(1<<32 - 1), nil
				case "MaxInt32":
					return big.NewInt(1<<31 - 1), nil
				case "MaxInt64":
					return big.NewInt(1<<63 - 1), nil
				case "MaxUint64":
					return new(big.Int).SetUint64(1<<64 - 1), nil
				}
			}
		}
		return nil, fmt.Errorf("unsupported selector %s", x.Sel.Name)
	case *ast.CallExpr: // conversions such as time.Duration(x), int64(x)
		if len(x.Args) == 1 {
			return evalInt(p, x.Args[0], inFunc, depth+1)
		}
	case *ast.Ident:
		if inFunc != "" {
			if ce := findConstExpr(p, x.Name, inFunc); ce != nil {
				return evalInt(p, ce, inFunc, depth+1)
			}
		}
		if ce := findConstExpr(p, x.Name, ""); ce != nil {
			return evalInt(p, ce, "", depth+1)
		}
		return nil, fmt.Errorf("unknown identifier %s", x.Name)
	}
	return nil, fmt.Errorf("unsupported constant expression %T", e)
}

// ---- Coq printing
func coqStr(s string) string {
	plain := true
	for i := 0; i < len(s); i++ {
		if s[i] < 32 || s[i] > 126 {
			plain = false
		}
	}
	if plain {
		return "\"" + strings.ReplaceAll(s, "\"", "\"\"") + "\"%string"
	}
	var bs []string
	for i := 0; i < len(s); i++ {
		bs = append(bs, fmt.Sprintf("%d%%N", s[i]))
	}
	return "(gen_bs [" + strings.Join(bs, "; ") + "])"
}
func coqStrList(xs []string) string {
	ys := make([]string, len(xs))
	for i, x := range xs {
		ys[i] = coqStr(x)
	}
	return "[" + strings.Join(ys, "; ") + "]"
}
func coqInt(v *big.Int, as string) string {
	if as == "N" {
		return v.String() + "%N"
	}
	if v.Sign() < 0 {
		return "(" + v.String() + ")%Z"
	}
	return v.String() + "%Z"
}

func unquote(s string) string {
	if u, err := strconv.Unquote(s); err == nil {
		return u
	}
	return s
}

func extract(it Item) (string, error) {
	p, err := loadPkg(it.Pkg)
	if err != nil {
		return "", err
	}
	switch it.Kind {
	case "const":
		e := findConstExpr(p, it.Name, it.Func)
		if e == nil {
			return "", fmt.Errorf("constant %s not found in %s", it.Name, it.Pkg)
		}
		if it.As == "string" {
			if bl, ok := e.(*ast.BasicLit); ok && bl.Kind == token.STRING {
				return fmt.Sprintf("Definition %s : string := %s.", it.Coq, coqStr(unquote(bl.Value))), nil
			}
			return "", fmt.Errorf("constant %s is not a string literal", it.Name)
		}
		v, err := evalInt(p, e, it.Func, 0)
		if err != nil {
			return "", fmt.Errorf("constant %s: %v", it.Name, err)
		}
		ty := "Z"
		if it.As == "N" {
			ty = "N"
		}
		return fmt.Sprintf("Definition %s : %s := %s.", it.Coq, ty, coqInt(v, it.As)), nil
	case "expr_in_func":
		fd := findFunc(p, it.Func)
		if fd == nil {
			return "", fmt.Errorf("function %s not found in %s", it.Func, it.Pkg)
		}
		re, err := regexp.Compile(it.Regex)
		if err != nil {
			return "", err
		}
		m := re.FindStringSubmatch(funcText(p, fd))
		if m == nil || len(m) < 2 {
			return "", fmt.Errorf("pattern %q not found in %s", it.Regex, it.Func)
		}
		if it.As == "string" {
			return fmt.Sprintf("Definition %s : string := %s.", it.Coq, coqStr(m[1])), nil
		}
		e, err := parser.ParseExpr(m[1])
		if err != nil {
			return "", fmt.Errorf("captured text %q is not an expression", m[1])
		}
		v, err := evalInt(p, e, it.Func, 0)
		if err != nil {
			return "", fmt.Errorf("captured %q: %v", m[1], err)
		}
		ty := "Z"
		if it.As == "N" {
			ty = "N"
		}
		return fmt.Sprintf("Definition %s : %s := %s.", it.Coq, ty, coqInt(v, it.As)), nil
	case "func_text_has":
		fd := findFunc(p, it.Func)
		if fd == nil {
			return "", fmt.Errorf("function %s not found in %s", it.Func, it.Pkg)
		}
		re, err := regexp.Compile(it.Regex)
		if err != nil {
			return "", err
		}
		b := "false"
		if re.MatchString(funcText(p, fd)) {
			b = "true"
		}
		return fmt.Sprintf("Definition %s : bool := %s.", it.Coq, b), nil
	case "regex_all":
		// all matches of capture group 1 of Regex over the normalised text of Func, in order
		fd := findFunc(p, it.Func)
		if fd == nil {
			return "", fmt.Errorf("function %s not found in %s", it.Func, it.Pkg)
		}
		re, err := regexp.Compile(it.Regex)
		if err != nil {
			return "", err
		}
		var out []string
		for _, m := range re.FindAllStringSubmatch(funcText(p, fd), -1) {
			if len(m) > 1 {
				out = append(out, m[1])
			}
		}
		return fmt.Sprintf("Definition %s : list string := %s.", it.Coq, coqStrList(out)), nil
	case "struct_fields":
		var st *ast.StructType
		for _, f := range p.files {
			ast.Inspect(f, func(n ast.Node) bool {
				if ts, ok := n.(*ast.TypeSpec); ok && ts.Name.Name == it.Name {
					if s, ok := ts.Type.(*ast.StructType); ok {
						st = s
					}
				}
				return true
			})
		}
		if st == nil {
			return "", fmt.Errorf("struct %s not found in %s", it.Name, it.Pkg)
		}
		tags := strings.Split(it.Tag, ",")
		var rows []string
		for _, f := range st.Fields.List {
			ty := nodeText(p, f.Type)
			tagv := ""
			if f.Tag != nil {
				tagv = unquote(f.Tag.Value)
			}
			names := f.Names
			if len(names) == 0 {
				names = []*ast.Ident{{Name: ty}}
			}
			for _, n := range names {
				var tv []string
				for _, t := range tags {
					if t == "" {
						continue
					}
					v := ""
					if m := regexp.MustCompile(t + `:"([^"]*)"`).FindStringSubmatch(tagv); m != nil {
						v = m[1]
					}
					tv = append(tv, v)
				}
				rows = append(rows, fmt.Sprintf("(%s, %s, %s)", coqStr(n.Name), coqStr(ty), coqStrList(tv)))
			}
		}
		return fmt.Sprintf("Definition %s : list (string * string * list string) :=\n  [%s].", it.Coq, strings.Join(rows, ";\n   ")), nil
	case "switch_cases":
		fd := findFunc(p, it.Func)
		if fd == nil {
			return "", fmt.Errorf("function %s not found in %s", it.Func, it.Pkg)
		}
		var rows []string
		ast.Inspect(fd, func(n ast.Node) bool {
			if cc, ok := n.(*ast.CaseClause); ok {
				var labels []string
				for _, e := range cc.List {
					labels = append(labels, nodeText(p, e))
				}
				if len(cc.List) == 0 {
					labels = []string{"default"}
				}
				rows = append(rows, coqStrList(labels))
			}
			return true
		})
		return fmt.Sprintf("Definition %s : list (list string) :=\n  [%s].", it.Coq, strings.Join(rows, ";\n   ")), nil
	case "call_args":
		fd := findFunc(p, it.Func)
		if fd == nil {
			return "", fmt.Errorf("function %s not found in %s", it.Func, it.Pkg)
		}
		var rows []string
		ast.Inspect(fd, func(n ast.Node) bool {
			if ce, ok := n.(*ast.CallExpr); ok && nodeText(p, ce.Fun) == it.Call {
				var args []string
				for _, a := range ce.Args {
					args = append(args, nodeText(p, a))
				}
				rows = append(rows, coqStrList(args))
			}
			return true
		})
		return fmt.Sprintf("Definition %s : list (list string) :=\n  [%s].", it.Coq, strings.Join(rows, ";\n   ")), nil
	case "map_literal":
		var cl *ast.CompositeLit
		for _, f := range p.files {
			ast.Inspect(f, func(n ast.Node) bool {
				if vs, ok := n.(*ast.ValueSpec); ok {
					for i, id := range vs.Names {
						if id.Name == it.Name && i < len(vs.Values) {
							if c, ok := vs.Values[i].(*ast.CompositeLit); ok {
								cl = c
							}
						}
					}
				}
				return true
			})
		}
		if cl == nil {
			return "", fmt.Errorf("composite literal %s not found in %s", it.Name, it.Pkg)
		}
		var rows []string
		for _, e := range cl.Elts {
			if kv, ok := e.(*ast.KeyValueExpr); ok {
				rows = append(rows, fmt.Sprintf("(%s, %s)", coqStr(unquote(nodeText(p, kv.Key))), coqStr(regexp.MustCompile(`\s+`).ReplaceAllString(nodeText(p, kv.Value), " "))))
			} else {
				rows = append(rows, fmt.Sprintf("(%s, %s)", coqStr(unquote(nodeText(p, e))), coqStr("")))
			}
		}
		return fmt.Sprintf("Definition %s : list (string * string) :=\n  [%s].", it.Coq, strings.Join(rows, ";\n   ")), nil
	case "fingerprint":
		return "", nil
	}
	if f, ok := customKinds[it.Kind]; ok {
		return f(it)
	}
	return "", fmt.Errorf("unknown kind %q", it.Kind)
}

// customKinds lets additional files (kinds_*.go) register further extraction kinds from init().
// A kind returns the complete Coq text to emit for the item (one or more definitions).
var customKinds = map[string]func(Item) (string, error){}

func main() {
	out := flag.String("out", "", "output dir (coq/Gen)")
	fp := flag.String("fingerprints", "", "fingerprints.json output")
	flag.StringVar(&repo, "repo", "/repo", "repository root")
	specDir := flag.String("specs", "", "spec dir (default: specs next to the sources)")
	flag.Parse()
	if *specDir == "" {
		exe, _ := os.Executable()
		_ = exe
		*specDir = filepath.Join(filepath.Dir(filepath.Dir(*out)), "..", "tools", "translate", "specs")
	}
	files, _ := filepath.Glob(filepath.Join(*specDir, "*.json"))
	sort.Strings(files)
	failed := 0
	prints := map[string]string{}
	keep := map[string]bool{}
	for _, sf := range files {
		var sp Spec
		b, err := os.ReadFile(sf)
		if err != nil || json.Unmarshal(b, &sp) != nil {
			fmt.Printf("translate: bad spec %s: %v\n", sf, err)
			failed++
			continue
		}
		var buf bytes.Buffer
		fmt.Fprintf(&buf, "(* GENERATED by tools/translate from the working tree of the repository — do not edit.\n   spec: %s\n   %s *)\n", filepath.Base(sf), sp.Doc)
		buf.WriteString("From Coq Require Import ZArith NArith String List Ascii.\nImport ListNotations.\n")
		buf.WriteString("Definition gen_bs (l : list N) : string := fold_right (fun n acc => String (ascii_of_N n) acc) EmptyString l.\n\n")
		for _, it := range sp.Items {
			if it.Kind == "fingerprint" {
				if p, err := loadPkg(it.Pkg); err == nil {
					if fd := findFunc(p, it.Name); fd != nil {
						h := sha256.Sum256([]byte(funcText(p, fd)))
						prints[it.Pkg+":"+it.Name] = hex.EncodeToString(h[:8])
					} else {
						prints[it.Pkg+":"+it.Name] = "missing"
					}
				}
				continue
			}
			s, err := extract(it)
			if err != nil {
				fmt.Printf("translate: %s: item %s: %v\n", filepath.Base(sf), it.Coq, err)
				msg := strings.NewReplacer("\"", "'", "(*", "( *", "*)", "* )").Replace(fmt.Sprint(err))
				fmt.Fprintf(&buf, "(* MISSING %s: %s *)\n", it.Coq, msg)
				failed++
				continue
			}
			fmt.Fprintf(&buf, "(* %s %s %s%s *)\n%s\n\n", it.Kind, it.Pkg, it.Name, it.Func, s)
		}
		dst := filepath.Join(*out, sp.Out)
		keep[sp.Out] = true
		old, _ := os.ReadFile(dst)
		if !bytes.Equal(old, buf.Bytes()) {
			if err := os.WriteFile(dst, buf.Bytes(), 0o644); err != nil {
				fmt.Println("translate:", err)
				failed++
			}
		}
	}
	// remove stale generated files
	olds, _ := filepath.Glob(filepath.Join(*out, "*.v"))
	for _, o := range olds {
		if !keep[filepath.Base(o)] {
			os.Remove(o)
			os.Remove(o + "o")
		}
	}
	if *fp != "" {
		b, _ := json.MarshalIndent(prints, "", " ")
		os.MkdirAll(filepath.Dir(*fp), 0o755)
		os.WriteFile(*fp, b, 0o644)
	}
	if failed > 0 {
		os.Exit(1)
	}
}
