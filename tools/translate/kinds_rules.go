package main

// Custom extraction kinds of the "rules" family (C08 / C09).

import (
	"fmt"
	"go/ast"
	"go/token"
)

func init() {
	customKinds["string_const"] = kindStringConst
}

// evalString evaluates a constant string expression built from string literals, identifiers of
// other string constants in the same package, conversions and `+`.
func evalString(p *pkgInfo, e ast.Expr, depth int) (string, error) {
	if depth > 20 {
		return "", fmt.Errorf("constant too deep")
	}
	switch x := e.(type) {
	case *ast.BasicLit:
		if x.Kind == token.STRING {
			return unquote(x.Value), nil
		}
		if x.Kind == token.CHAR {
			return unquote("\"" + x.Value[1:len(x.Value)-1] + "\""), nil
		}
	case *ast.ParenExpr:
		return evalString(p, x.X, depth+1)
	case *ast.BinaryExpr:
		if x.Op == token.ADD {
			a, err := evalString(p, x.X, depth+1)
			if err != nil {
				return "", err
			}
			b, err := evalString(p, x.Y, depth+1)
			if err != nil {
				return "", err
			}
			return a + b, nil
		}
	case *ast.CallExpr:
		if len(x.Args) == 1 {
			return evalString(p, x.Args[0], depth+1)
		}
	case *ast.Ident:
		if ce := findConstExpr(p, x.Name, ""); ce != nil {
			return evalString(p, ce, depth+1)
		}
		return "", fmt.Errorf("unknown identifier %s", x.Name)
	}
	return "", fmt.Errorf("unsupported string constant expression %T", e)
}

// string_const: a package-level string constant, possibly defined by concatenation.
func kindStringConst(it Item) (string, error) {
	p, err := loadPkg(it.Pkg)
	if err != nil {
		return "", err
	}
	e := findConstExpr(p, it.Name, "")
	if e == nil {
		return "", fmt.Errorf("constant %s not found in %s", it.Name, it.Pkg)
	}
	s, err := evalString(p, e, 0)
	if err != nil {
		return "", fmt.Errorf("constant %s: %v", it.Name, err)
	}
	return fmt.Sprintf("Definition %s : string := %s.", it.Coq, coqStr(s)), nil
}
