package main

// Custom extraction kinds of family "resp" (C23 C24 C25 C37).

import (
	"fmt"
	"go/ast"
	"go/token"
	"regexp"
	"sort"
	"strings"
)

var respHTTPStatus = map[string]int{
	"StatusOK": 200, "StatusCreated": 201, "StatusAccepted": 202, "StatusNoContent": 204,
	"StatusBadRequest": 400, "StatusUnauthorized": 401, "StatusForbidden": 403, "StatusNotFound": 404,
	"StatusMethodNotAllowed": 405, "StatusRequestEntityTooLarge": 413, "StatusUnsupportedMediaType": 415,
	"StatusTooManyRequests": 429, "StatusInternalServerError": 500, "StatusBadGateway": 502,
	"StatusServiceUnavailable": 503, "StatusGatewayTimeout": 504,
}

func respStatusOf(e ast.Expr) (int, bool) {
	if se, ok := e.(*ast.SelectorExpr); ok {
		if id, ok := se.X.(*ast.Ident); ok && id.Name == "http" {
			v, ok := respHTTPStatus[se.Sel.Name]
			return v, ok
		}
	}
	if bl, ok := e.(*ast.BasicLit); ok && bl.Kind == token.INT {
		var v int
		if _, err := fmt.Sscanf(bl.Value, "%d", &v); err == nil {
			return v, true
		}
	}
	return 0, false
}

func respBoolLit(e ast.Expr) (bool, bool) {
	if id, ok := e.(*ast.Ident); ok {
		switch id.Name {
		case "true":
			return true, true
		case "false":
			return false, true
		}
	}
	return false, false
}

func coqBool(b bool) string {
	if b {
		return "true"
	}
	return "false"
}

func init() {
	// handler_errors: the `ErrXxx = handlerError{err, msg, status, detailed, friendly}` table.
	// Emits  <coq> : list (string * (N * (bool * bool)))  = (name, (status, (detailed, friendly))).
	// Entries whose status is not an http.StatusXxx constant / literal are skipped.
	customKinds["handler_errors"] = func(it Item) (string, error) {
		p, err := loadPkg(it.Pkg)
		if err != nil {
			return "", err
		}
		var rows []string
		for _, f := range p.files {
			ast.Inspect(f, func(n ast.Node) bool {
				vs, ok := n.(*ast.ValueSpec)
				if !ok {
					return true
				}
				for i, id := range vs.Names {
					if i >= len(vs.Values) {
						continue
					}
					cl, ok := vs.Values[i].(*ast.CompositeLit)
					if !ok {
						continue
					}
					if t, ok := cl.Type.(*ast.Ident); !ok || t.Name != "handlerError" || len(cl.Elts) != 5 {
						continue
					}
					st, ok1 := respStatusOf(cl.Elts[2])
					det, ok2 := respBoolLit(cl.Elts[3])
					fr, ok3 := respBoolLit(cl.Elts[4])
					if !ok1 || !ok2 || !ok3 {
						continue
					}
					rows = append(rows, fmt.Sprintf("(%s, (%d%%N, (%s, %s)))", coqStr(id.Name), st, coqBool(det), coqBool(fr)))
				}
				return true
			})
		}
		if len(rows) == 0 {
			return "", fmt.Errorf("no handlerError table found in %s", it.Pkg)
		}
		return fmt.Sprintf("Definition %s : list (string * (N * (bool * bool))) :=\n  [%s].", it.Coq, strings.Join(rows, ";\n   ")), nil
	}

	// error_steps: every `if err != nil { ... X.handlerReturnWithError(w, ErrC, err) ... }` of a function,
	// in source order: (callee whose error is tested, ErrC, does the if-body end with `return`).
	customKinds["error_steps"] = func(it Item) (string, error) {
		p, err := loadPkg(it.Pkg)
		if err != nil {
			return "", err
		}
		fd := findFunc(p, it.Func)
		if fd == nil {
			return "", fmt.Errorf("function %s not found in %s", it.Func, it.Pkg)
		}
		calleeOf := func(s ast.Stmt) string {
			var rhs []ast.Expr
			switch x := s.(type) {
			case *ast.AssignStmt:
				rhs = x.Rhs
			case *ast.ExprStmt:
				rhs = []ast.Expr{x.X}
			}
			for _, e := range rhs {
				if ce, ok := e.(*ast.CallExpr); ok {
					return nodeText(p, ce.Fun)
				}
			}
			return ""
		}
		isErrNotNil := func(e ast.Expr) bool {
			be, ok := e.(*ast.BinaryExpr)
			if !ok || be.Op != token.NEQ {
				return false
			}
			x, ok1 := be.X.(*ast.Ident)
			y, ok2 := be.Y.(*ast.Ident)
			return ok1 && ok2 && x.Name == "err" && y.Name == "nil"
		}
		var rows []string
		var walk func(list []ast.Stmt)
		walk = func(list []ast.Stmt) {
			for i, s := range list {
				switch x := s.(type) {
				case *ast.IfStmt:
					if isErrNotNil(x.Cond) {
						errName := ""
						for _, bs := range x.Body.List {
							if es, ok := bs.(*ast.ExprStmt); ok {
								if ce, ok := es.X.(*ast.CallExpr); ok && strings.HasSuffix(nodeText(p, ce.Fun), "handlerReturnWithError") && len(ce.Args) >= 2 {
									errName = nodeText(p, ce.Args[1])
								}
							}
						}
						if errName != "" {
							callee := ""
							if x.Init != nil {
								callee = calleeOf(x.Init)
							} else if i > 0 {
								callee = calleeOf(list[i-1])
							}
							ret := false
							if n := len(x.Body.List); n > 0 {
								_, ret = x.Body.List[n-1].(*ast.ReturnStmt)
							}
							rows = append(rows, fmt.Sprintf("(%s, (%s, %s))", coqStr(callee), coqStr(errName), coqBool(ret)))
						}
					}
					walk(x.Body.List)
					if eb, ok := x.Else.(*ast.BlockStmt); ok {
						walk(eb.List)
					}
				case *ast.ForStmt:
					walk(x.Body.List)
				case *ast.RangeStmt:
					walk(x.Body.List)
				case *ast.BlockStmt:
					walk(x.List)
				case *ast.SwitchStmt:
					for _, c := range x.Body.List {
						if cc, ok := c.(*ast.CaseClause); ok {
							walk(cc.Body)
						}
					}
				}
			}
		}
		// handlers written as `return http.HandlerFunc(func(...) {...})` (middlewares): descend into literals
		ast.Inspect(fd.Body, func(n ast.Node) bool {
			if fl, ok := n.(*ast.FuncLit); ok {
				walk(fl.Body.List)
			}
			return true
		})
		walk(fd.Body.List)
		return fmt.Sprintf("Definition %s : list (string * (string * bool)) :=\n  [%s].", it.Coq, strings.Join(rows, ";\n   ")), nil
	}

	// http_status_regex: capture group 1 of Regex over the normalised function text must be the name of
	// a net/http status constant (StatusXxx) or a decimal literal; emits it as N.
	customKinds["http_status_regex"] = func(it Item) (string, error) {
		p, err := loadPkg(it.Pkg)
		if err != nil {
			return "", err
		}
		fd := findFunc(p, it.Func)
		if fd == nil {
			return "", fmt.Errorf("function %s not found in %s", it.Func, it.Pkg)
		}
		re, err := regexp.Compile(it.Regex)
		if err != nil {
			return "", err
		}
		m := re.FindStringSubmatch(funcText(p, fd))
		if m == nil || len(m) < 2 {
			return "", fmt.Errorf("pattern %q not found in %s", it.Regex, it.Func)
		}
		name := strings.TrimPrefix(m[1], "http.")
		if v, ok := respHTTPStatus[name]; ok {
			return fmt.Sprintf("Definition %s : N := %d%%N.", it.Coq, v), nil
		}
		var v int
		if _, err := fmt.Sscanf(name, "%d", &v); err == nil {
			return fmt.Sprintf("Definition %s : N := %d%%N.", it.Coq, v), nil
		}
		return "", fmt.Errorf("captured %q is not a known http status", m[1])
	}
}

// ---- C24 ------------------------------------------------------------------------------------------------

func init() {
	// auth_script: the order in which an ingest entry point checks, replaces and re-assigns the API key.
	// Walks the function body in source order and emits one token per recognised statement:
	//   "accept"            X.IsAccepted(k, id)
	//   "replace_strict"    v, err := X.GetReplaceKey(k, id)      (the error is looked at)
	//   "replace_lenient"   v, _ := X.GetReplaceKey(k, id)       (the error is discarded)
	//   "assign"            ri.ApiKey = v   |  req.Header.Set(types.APIKeyHeader, v)
	//   "validate"          ri.ValidateTracesHeaders() | ri.ValidateLogsHeaders()
	//   "translate"         husky translation of the body with ri (re-validates ri.ApiKey), or dec(in)
	// Consecutive duplicates are collapsed (the same call in the arms of a content-type switch).
	customKinds["auth_script"] = func(it Item) (string, error) {
		p, err := loadPkg(it.Pkg)
		if err != nil {
			return "", err
		}
		fd := findFunc(p, it.Func)
		if fd == nil {
			return "", fmt.Errorf("function %s not found in %s", it.Func, it.Pkg)
		}
		var toks []string
		push := func(t string) {
			if n := len(toks); n == 0 || toks[n-1] != t {
				toks = append(toks, t)
			}
		}
		callTok := func(ce *ast.CallExpr, lenient bool) {
			fn := nodeText(p, ce.Fun)
			switch {
			case strings.HasSuffix(fn, ".IsAccepted"):
				push("accept")
			case strings.HasSuffix(fn, ".GetReplaceKey"):
				if lenient {
					push("replace_lenient")
				} else {
					push("replace_strict")
				}
			case strings.HasSuffix(fn, ".ValidateTracesHeaders"), strings.HasSuffix(fn, ".ValidateLogsHeaders"):
				push("validate")
			case strings.HasSuffix(fn, ".TranslateLogsRequestFromReader"), strings.HasSuffix(fn, ".TranslateLogsRequest"),
				strings.HasSuffix(fn, ".TranslateTraceRequestFromReaderSizedWithMsgp"), strings.HasSuffix(fn, ".processOTLPRequestWithMsgp"),
				fn == "dec":
				push("translate")
			case strings.HasSuffix(fn, ".Header.Set") && len(ce.Args) == 2 && strings.HasSuffix(nodeText(p, ce.Args[0]), "APIKeyHeader"):
				push("assign")
			}
		}
		ast.Inspect(fd.Body, func(n ast.Node) bool {
			switch x := n.(type) {
			case *ast.AssignStmt:
				if len(x.Lhs) == 1 && nodeText(p, x.Lhs[0]) == "ri.ApiKey" {
					push("assign")
					return false
				}
				lenient := len(x.Lhs) == 2 && nodeText(p, x.Lhs[1]) == "_"
				for _, e := range x.Rhs {
					if ce, ok := e.(*ast.CallExpr); ok {
						callTok(ce, lenient)
					}
				}
				return false
			case *ast.CallExpr:
				callTok(x, false)
			}
			return true
		})
		return fmt.Sprintf("Definition %s : list string := %s.", it.Coq, coqStrList(toks)), nil
	}

	// switch_arm_bodies: the arms of the (first) switch of a function as (labels joined by ",", body text).
	customKinds["switch_arm_bodies"] = func(it Item) (string, error) {
		p, err := loadPkg(it.Pkg)
		if err != nil {
			return "", err
		}
		fd := findFunc(p, it.Func)
		if fd == nil {
			return "", fmt.Errorf("function %s not found in %s", it.Func, it.Pkg)
		}
		ws := regexp.MustCompile(`\s+`)
		var rows []string
		done := false
		ast.Inspect(fd.Body, func(n ast.Node) bool {
			sw, ok := n.(*ast.SwitchStmt)
			if !ok || done {
				return !done
			}
			done = true
			for _, c := range sw.Body.List {
				cc := c.(*ast.CaseClause)
				var labels []string
				for _, e := range cc.List {
					labels = append(labels, unquote(nodeText(p, e)))
				}
				if len(cc.List) == 0 {
					labels = []string{"default"}
				}
				var body []string
				for _, s := range cc.Body {
					body = append(body, ws.ReplaceAllString(nodeText(p, s), " "))
				}
				rows = append(rows, fmt.Sprintf("(%s, %s)", coqStr(strings.Join(labels, ",")), coqStr(strings.Join(body, "; "))))
			}
			return false
		})
		if len(rows) == 0 {
			return "", fmt.Errorf("no switch in %s", it.Func)
		}
		return fmt.Sprintf("Definition %s : list (string * string) :=\n  [%s].", it.Coq, strings.Join(rows, ";\n   ")), nil
	}
}

// ---- C25 / C37: the gorilla/mux routing table built by LnS -----------------------------------------------

func init() {
	// mux_table: every statement of a function that builds the routing table, in source order, as
	//   (kind, (router variable, (a, b)))
	//   ("sub",   (X, (Y, "prefix|M1,M2")))   X := Y.PathPrefix("prefix").Methods("M1","M2").Subrouter()
	//   ("use",   (X, (middleware, "")))        X.Use(r.middleware)
	//   ("route", (X, (pattern, handler)))      X.HandleFunc(pattern, r.handler) / X.Handle(pattern, otelhttp.NewHandler(http.HandlerFunc(r.handler), ..))
	//   ("prefix",(X, (prefix, handler)))       X.PathPrefix(prefix).HandlerFunc(r.handler)
	//   ("opt",   (X, (option, "")))            X.UseEncodedPath() ...
	//   ("call",  (X, (method, "")))            r.method(X)  - another function that registers routes on X
	customKinds["mux_table"] = func(it Item) (string, error) {
		p, err := loadPkg(it.Pkg)
		if err != nil {
			return "", err
		}
		fd := findFunc(p, it.Func)
		if fd == nil {
			return "", fmt.Errorf("function %s not found in %s", it.Func, it.Pkg)
		}
		routers := map[string]bool{}
		if v, ok := it.Extra["root"].(string); ok && v != "" {
			routers[v] = true
		}
		var rows []string
		row := func(kind, x, a, b string) {
			rows = append(rows, fmt.Sprintf("(%s, (%s, (%s, %s)))", coqStr(kind), coqStr(x), coqStr(a), coqStr(b)))
		}
		// flatten a call chain  X.A(a..).B(b..).C(c..)  into receiver X and [(A,args),(B,args),(C,args)]
		type link struct {
			name string
			args []ast.Expr
		}
		var flatten func(e ast.Expr) (string, []link)
		flatten = func(e ast.Expr) (string, []link) {
			ce, ok := e.(*ast.CallExpr)
			if !ok {
				return nodeText(p, e), nil
			}
			se, ok := ce.Fun.(*ast.SelectorExpr)
			if !ok {
				return nodeText(p, e), nil
			}
			recv, links := flatten(se.X)
			return recv, append(links, link{se.Sel.Name, ce.Args})
		}
		str := func(e ast.Expr) string { return unquote(nodeText(p, e)) }
		handlerName := func(e ast.Expr) string {
			t := nodeText(p, e)
			if m := regexp.MustCompile(`http\.HandlerFunc\(r\.(\w+)\)`).FindStringSubmatch(t); m != nil {
				return m[1]
			}
			return strings.TrimPrefix(t, "r.")
		}
		for _, s := range fd.Body.List {
			var e ast.Expr
			lhs := ""
			switch x := s.(type) {
			case *ast.AssignStmt:
				if len(x.Lhs) == 1 && len(x.Rhs) == 1 {
					lhs, e = nodeText(p, x.Lhs[0]), x.Rhs[0]
				}
			case *ast.ExprStmt:
				e = x.X
			}
			if e == nil {
				continue
			}
			recv, links := flatten(e)
			if lhs != "" && len(links) == 1 && links[0].name == "NewRouter" {
				routers[lhs] = true
				continue
			}
			if recv == "r" && len(links) == 1 && len(links[0].args) == 1 && routers[nodeText(p, links[0].args[0])] {
				row("call", nodeText(p, links[0].args[0]), links[0].name, "")
				continue
			}
			if !routers[recv] || len(links) == 0 {
				continue
			}
			last := links[len(links)-1]
			switch {
			case last.name == "Subrouter" && lhs != "":
				prefix, methods := "", []string{}
				for _, l := range links {
					switch l.name {
					case "PathPrefix":
						prefix = str(l.args[0])
					case "Methods":
						for _, a := range l.args {
							methods = append(methods, str(a))
						}
					}
				}
				routers[lhs] = true
				row("sub", lhs, recv, prefix+"|"+strings.Join(methods, ","))
			case last.name == "Use" && len(links) == 1:
				row("use", recv, handlerName(last.args[0]), "")
			case links[0].name == "HandleFunc" || links[0].name == "Handle":
				row("route", recv, str(links[0].args[0]), handlerName(links[0].args[1]))
			case links[0].name == "PathPrefix" && len(links) >= 2 && links[1].name == "HandlerFunc":
				row("prefix", recv, str(links[0].args[0]), handlerName(links[1].args[0]))
			case len(links) == 1 && len(last.args) == 0:
				row("opt", recv, last.name, "")
			}
		}
		return fmt.Sprintf("Definition %s : list (string * (string * (string * string))) :=\n  [%s].", it.Coq, strings.Join(rows, ";\n   ")), nil
	}
}

func init() {
	// handler_error_msgs: (name, msg) of the handlerError table
	customKinds["handler_error_msgs"] = func(it Item) (string, error) {
		p, err := loadPkg(it.Pkg)
		if err != nil {
			return "", err
		}
		var rows []string
		for _, f := range p.files {
			ast.Inspect(f, func(n ast.Node) bool {
				vs, ok := n.(*ast.ValueSpec)
				if !ok {
					return true
				}
				for i, id := range vs.Names {
					if i >= len(vs.Values) {
						continue
					}
					cl, ok := vs.Values[i].(*ast.CompositeLit)
					if !ok {
						continue
					}
					if t, ok := cl.Type.(*ast.Ident); !ok || t.Name != "handlerError" || len(cl.Elts) != 5 {
						continue
					}
					if bl, ok := cl.Elts[1].(*ast.BasicLit); ok && bl.Kind == token.STRING {
						rows = append(rows, fmt.Sprintf("(%s, %s)", coqStr(id.Name), coqStr(unquote(bl.Value))))
					}
				}
				return true
			})
		}
		return fmt.Sprintf("Definition %s : list (string * string) :=\n  [%s].", it.Coq, strings.Join(rows, ";\n   ")), nil
	}
}

// ---- refactoring-tolerant structural facts (round 3) ----------------------------------------------------

func init() {
	// toplevel_stmt_has: true iff some DIRECT child statement of the function body that is not a compound
	// statement (if / for / switch / select / block) matches Regex (text whitespace-normalised).  Captures
	// "this is done unconditionally" without fixing the neighbouring statements.
	customKinds["toplevel_stmt_has"] = func(it Item) (string, error) {
		p, err := loadPkg(it.Pkg)
		if err != nil {
			return "", err
		}
		fd := findFunc(p, it.Func)
		if fd == nil {
			return "", fmt.Errorf("function %s not found in %s", it.Func, it.Pkg)
		}
		re, err := regexp.Compile(it.Regex)
		if err != nil {
			return "", err
		}
		ws := regexp.MustCompile(`\s+`)
		found := false
		for _, s := range fd.Body.List {
			switch s.(type) {
			case *ast.IfStmt, *ast.ForStmt, *ast.RangeStmt, *ast.SwitchStmt, *ast.TypeSwitchStmt, *ast.SelectStmt, *ast.BlockStmt:
				continue
			}
			if re.MatchString(ws.ReplaceAllString(nodeText(p, s), " ")) {
				found = true
			}
		}
		return fmt.Sprintf("Definition %s : bool := %s.", it.Coq, coqBool(found)), nil
	}

	// decision_paths: the decision structure of a function that only tests conditions and returns: the SET of
	// (conjunction of guard conditions, returned first value) pairs, independent of nesting, early returns and
	// if/else style.  Conditions are normalised (outer parentheses and double negations removed), the conjuncts
	// of a path and the paths themselves are sorted.  Emitted as "c1 & c2 => outcome" strings.
	customKinds["decision_paths"] = func(it Item) (string, error) {
		p, err := loadPkg(it.Pkg)
		if err != nil {
			return "", err
		}
		fd := findFunc(p, it.Func)
		if fd == nil {
			return "", fmt.Errorf("function %s not found in %s", it.Func, it.Pkg)
		}
		ws := regexp.MustCompile(`\s+`)
		norm := func(c string) string {
			c = strings.TrimSpace(ws.ReplaceAllString(c, " "))
			for {
				if len(c) >= 2 && c[0] == '(' && c[len(c)-1] == ')' {
					depth, whole := 0, true
					for i, ch := range c {
						if ch == '(' {
							depth++
						} else if ch == ')' {
							depth--
							if depth == 0 && i != len(c)-1 {
								whole = false
								break
							}
						}
					}
					if whole {
						c = strings.TrimSpace(c[1 : len(c)-1])
						continue
					}
				}
				break
			}
			return c
		}
		simple := regexp.MustCompile(`^[\w.]+$`)
		var neg func(c string) string
		neg = func(c string) string {
			c = norm(c)
			if strings.HasPrefix(c, "!") {
				rest := norm(c[1:])
				if simple.MatchString(rest) || (strings.HasPrefix(c[1:], "(") && norm(c[1:]) != c[1:]) {
					return rest
				}
			}
			if simple.MatchString(c) {
				return "!" + c
			}
			return "!(" + c + ")"
		}
		pos := func(c string) string {
			c = norm(c)
			if strings.HasPrefix(c, "!") { // !!x / !(!x)
				inner := norm(c[1:])
				if strings.HasPrefix(inner, "!") {
					return norm(inner[1:])
				}
				if simple.MatchString(inner) {
					return "!" + inner
				}
				return "!(" + inner + ")"
			}
			return c
		}
		var paths []string
		var walk func(list []ast.Stmt, path []string) bool // returns true when every path through list returns
		walk = func(list []ast.Stmt, path []string) bool {
			for _, s := range list {
				switch x := s.(type) {
				case *ast.ReturnStmt:
					out := "void"
					if len(x.Results) > 0 {
						out = nodeText(p, x.Results[0])
						if out != "nil" {
							out = "err"
						}
					}
					cs := append([]string(nil), path...)
					sort.Strings(cs)
					paths = append(paths, strings.Join(cs, " & ")+" => "+out)
					return true
				case *ast.IfStmt:
					c := nodeText(p, x.Cond)
					thenRet := walk(x.Body.List, append(append([]string(nil), path...), pos(c)))
					elseRet := false
					if eb, ok := x.Else.(*ast.BlockStmt); ok {
						elseRet = walk(eb.List, append(append([]string(nil), path...), neg(c)))
					}
					if thenRet && elseRet {
						return true
					}
					if thenRet {
						path = append(append([]string(nil), path...), neg(c))
					} else if elseRet {
						path = append(append([]string(nil), path...), pos(c))
					}
				}
			}
			return false
		}
		walk(fd.Body.List, nil)
		sort.Strings(paths)
		return fmt.Sprintf("Definition %s : list string := %s.", it.Coq, coqStrList(paths)), nil
	}
}
