package main

// Custom extraction kinds of the "cross" family.
//
//   panic_sites : syntactic inventory of expressions that can panic at run time, per function
//                 (index / slice / unchecked type assertion / integer-looking division or modulo /
//                 explicit panic, os.Exit, log.Fatal calls), as (function, kind, normalised text).

import (
	"fmt"
	"go/ast"
	"go/token"
	"os"
	"path/filepath"
	"regexp"
	"sort"
	"strings"
)

func init() {
	customKinds["panic_sites"] = panicSites
	customKinds["file_text_has"] = fileTextHas
	customKinds["callgraph_text_has"] = callgraphTextHas
}

var wsRe = regexp.MustCompile(`\s+`)

func normText(p *pkgInfo, n ast.Node) string {
	return wsRe.ReplaceAllString(nodeText(p, n), " ")
}

func extraStrings(it Item, key string) []string {
	var out []string
	if it.Extra == nil {
		return out
	}
	if v, ok := it.Extra[key].([]any); ok {
		for _, x := range v {
			if s, ok := x.(string); ok {
				out = append(out, s)
			}
		}
	}
	return out
}

func looksFloat(s string) bool {
	return strings.Contains(s, "float64(") || strings.Contains(s, "float32(") || strings.Contains(s, ".Seconds()") ||
		regexp.MustCompile(`\b\d+\.\d+\b|\b\d+e\d+\b`).MatchString(s)
}

// panicSites. Extra: "funcs": functions whose index/slice/assert sites are inventoried ("*" = all);
// "scan_all": kinds inventoried in EVERY function of the package (subset of div, panic, assert, intn, rootspan).
//
// A site is (function, kind, SHAPE, GUARDS):
//   SHAPE  = the expression with what does not matter for its safety abstracted: the base operand of an index /
//            slice expression is `_` (renaming a local or slicing msg instead of a copy of it is the same site class);
//   GUARDS = the conditions that hold on every path to the site, collected structurally: enclosing if / else-if /
//            else branches, tagless and tagged switch cases (with the negations of the earlier cases), the left operands
//            of && (and negated of ||), loop conditions, and the negation of every earlier `if c { return|continue|break|panic }`
//            of the enclosing blocks. So `if a {..} else if b {X}` and `switch { case a: .. case b: X }` and
//            `if !b { continue }; X` all give X the guard b.
func panicSites(it Item) (string, error) {
	p, err := loadPkg(it.Pkg)
	if err != nil {
		return "", err
	}
	funcs := map[string]bool{}
	for _, f := range extraStrings(it, "funcs") {
		funcs[f] = true
	}
	scanAll := map[string]bool{}
	for _, k := range extraStrings(it, "scan_all") {
		scanAll[k] = true
	}
	type site struct{ fn, kind, shape, guards string }
	seen := map[site]bool{}
	var sites []site
	found := map[string]bool{}
	neg := func(c string) string {
		if strings.HasPrefix(c, "!(") && strings.HasSuffix(c, ")") {
			return c[2 : len(c)-1]
		}
		return "!(" + c + ")"
	}
	var conjuncts func(e ast.Expr) []string
	conjuncts = func(e ast.Expr) []string {
		if pe, ok := e.(*ast.ParenExpr); ok {
			return conjuncts(pe.X)
		}
		if be, ok := e.(*ast.BinaryExpr); ok && be.Op == token.LAND {
			return append(conjuncts(be.X), conjuncts(be.Y)...)
		}
		if ue, ok := e.(*ast.UnaryExpr); ok && ue.Op == token.NOT {
			return []string{neg(normText(p, ue.X))}
		}
		return []string{normText(p, e)}
	}
	// the negation of a condition, as conjuncts when it is a disjunction
	var negConj func(e ast.Expr) []string
	negConj = func(e ast.Expr) []string {
		if pe, ok := e.(*ast.ParenExpr); ok {
			return negConj(pe.X)
		}
		if be, ok := e.(*ast.BinaryExpr); ok && be.Op == token.LOR {
			return append(negConj(be.X), negConj(be.Y)...)
		}
		if ue, ok := e.(*ast.UnaryExpr); ok && ue.Op == token.NOT {
			return conjuncts(ue.X)
		}
		if be, ok := e.(*ast.BinaryExpr); ok {
			flip := map[token.Token]string{token.EQL: "!=", token.NEQ: "==", token.LSS: ">=", token.GEQ: "<", token.GTR: "<=", token.LEQ: ">"}
			if op, ok := flip[be.Op]; ok {
				return []string{normText(p, be.X) + " " + op + " " + normText(p, be.Y)}
			}
		}
		return []string{neg(normText(p, e))}
	}
	terminates := func(b *ast.BlockStmt) bool {
		if b == nil || len(b.List) == 0 {
			return false
		}
		switch x := b.List[len(b.List)-1].(type) {
		case *ast.ReturnStmt:
			return true
		case *ast.BranchStmt:
			return x.Tok == token.CONTINUE || x.Tok == token.BREAK || x.Tok == token.GOTO
		case *ast.ExprStmt:
			if ce, ok := x.X.(*ast.CallExpr); ok {
				ft := normText(p, ce.Fun)
				return ft == "panic" || ft == "os.Exit"
			}
		}
		return false
	}
	for _, f := range p.files {
		for _, d := range f.Decls {
			fd, ok := d.(*ast.FuncDecl)
			if !ok || fd.Body == nil {
				continue
			}
			name := funcName(fd)
			full := funcs["*"] || funcs[name]
			if funcs[name] {
				found[name] = true
			}
			okAssert := map[*ast.TypeAssertExpr]bool{}
			ast.Inspect(fd.Body, func(n ast.Node) bool {
				switch x := n.(type) {
				case *ast.AssignStmt:
					if len(x.Lhs) == 2 && len(x.Rhs) == 1 {
						if ta, ok := x.Rhs[0].(*ast.TypeAssertExpr); ok {
							okAssert[ta] = true
						}
					}
				case *ast.ValueSpec:
					if len(x.Names) == 2 && len(x.Values) == 1 {
						if ta, ok := x.Values[0].(*ast.TypeAssertExpr); ok {
							okAssert[ta] = true
						}
					}
				case *ast.TypeSwitchStmt:
					ast.Inspect(x.Assign, func(m ast.Node) bool {
						if ta, ok := m.(*ast.TypeAssertExpr); ok {
							okAssert[ta] = true
						}
						return true
					})
				}
				return true
			})
			add := func(kind, shape string, conds []string) {
				var gs []string
				dup := map[string]bool{}
				for _, c := range conds {
					if !dup[c] {
						dup[c] = true
						gs = append(gs, c)
					}
				}
				s := site{name, kind, shape, coqStrList(gs)}
				if !seen[s] {
					seen[s] = true
					sites = append(sites, s)
				}
			}
			var walk func(n ast.Node, conds []string)
			children := func(n ast.Node, conds []string) {
				ast.Inspect(n, func(c ast.Node) bool {
					if c == n || c == nil {
						return true
					}
					walk(c, conds)
					return false
				})
			}
			with := func(conds []string, more ...string) []string {
				return append(append([]string{}, conds...), more...)
			}
			walk = func(n ast.Node, conds []string) {
				if n == nil {
					return
				}
				switch x := n.(type) {
				case *ast.BlockStmt:
					cur := conds
					for _, st := range x.List {
						walk(st, cur)
						if is, ok := st.(*ast.IfStmt); ok && is.Else == nil && terminates(is.Body) {
							cur = with(cur, negConj(is.Cond)...)
						}
					}
					return
				case *ast.IfStmt:
					walk(x.Init, conds)
					walk(x.Cond, conds)
					walk(x.Body, with(conds, conjuncts(x.Cond)...))
					if x.Else != nil {
						walk(x.Else, with(conds, negConj(x.Cond)...))
					}
					return
				case *ast.SwitchStmt:
					walk(x.Init, conds)
					walk(x.Tag, conds)
					cur := conds
					var deflt *ast.CaseClause
					for _, st := range x.Body.List {
						cc := st.(*ast.CaseClause)
						if len(cc.List) == 0 {
							deflt = cc
							continue
						}
						var here []string
						if x.Tag == nil {
							if len(cc.List) == 1 {
								here = conjuncts(cc.List[0])
							} else {
								var alts []string
								for _, e := range cc.List {
									alts = append(alts, normText(p, e))
								}
								here = []string{strings.Join(alts, " || ")}
							}
						} else {
							var vals []string
							for _, e := range cc.List {
								vals = append(vals, normText(p, e))
							}
							here = []string{normText(p, x.Tag) + " in [" + strings.Join(vals, ", ") + "]"}
						}
						for _, e := range cc.List {
							walk(e, cur)
						}
						for _, b := range cc.Body {
							walk(b, with(cur, here...))
						}
						if x.Tag == nil && len(cc.List) == 1 {
							cur = with(cur, negConj(cc.List[0])...)
						} else {
							cur = with(cur, neg(here[0]))
						}
					}
					if deflt != nil {
						for _, b := range deflt.Body {
							walk(b, cur)
						}
					}
					return
				case *ast.ForStmt:
					walk(x.Init, conds)
					walk(x.Cond, conds)
					inner := conds
					if x.Cond != nil {
						inner = with(conds, conjuncts(x.Cond)...)
					}
					walk(x.Post, inner)
					walk(x.Body, inner)
					return
				case *ast.BinaryExpr:
					if x.Op == token.LAND {
						walk(x.X, conds)
						walk(x.Y, with(conds, conjuncts(x.X)...))
						return
					}
					if x.Op == token.LOR {
						walk(x.X, conds)
						walk(x.Y, with(conds, negConj(x.X)...))
						return
					}
					if (x.Op == token.QUO || x.Op == token.REM) && (full || scanAll["div"]) {
						t := normText(p, x)
						if bl, ok := x.Y.(*ast.BasicLit); !ok || bl.Kind != token.INT || bl.Value == "0" {
							if looksFloat(t) {
								add("fdiv", t, conds)
							} else {
								add("div", t, conds)
							}
						}
					}
				case *ast.IndexExpr:
					if full {
						if bl, ok := x.Index.(*ast.BasicLit); !ok || bl.Kind != token.STRING {
							add("index", "_["+normText(p, x.Index)+"]", conds)
						}
					}
				case *ast.SliceExpr:
					if full {
						lo, hi := "", ""
						if x.Low != nil {
							lo = normText(p, x.Low)
						}
						if x.High != nil {
							hi = normText(p, x.High)
						}
						add("slice", "_["+lo+":"+hi+"]", conds)
					}
				case *ast.TypeAssertExpr:
					if (full || scanAll["assert"]) && x.Type != nil && !okAssert[x] {
						add("assert", normText(p, x), conds)
					}
				case *ast.SelectorExpr:
					if scanAll["rootspan"] && strings.HasSuffix(normText(p, x.X), ".RootSpan") {
						add("rootspan", "deref "+normText(p, x.X), conds)
					}
				case *ast.AssignStmt:
					if scanAll["rootspan"] {
						for _, r := range x.Rhs {
							if strings.HasSuffix(normText(p, r), ".RootSpan") {
								add("rootspan", "assign "+normText(p, r), conds)
							}
						}
					}
				case *ast.CallExpr:
					ft := normText(p, x.Fun)
					if (ft == "rand.Intn" || ft == "rand.Int63n" || ft == "rand.Int31n") && (full || scanAll["intn"]) && len(x.Args) == 1 {
						if bl, ok := x.Args[0].(*ast.BasicLit); !ok || bl.Kind != token.INT || bl.Value == "0" {
							add("intn", normText(p, x), conds)
						}
					}
					if (full || scanAll["panic"]) && (ft == "panic" || ft == "os.Exit" || strings.HasPrefix(ft, "log.Fatal") || strings.HasSuffix(ft, ".Fatalf") || strings.HasSuffix(ft, ".Fatal")) {
						add("exit", ft, nil)
					}
				}
				children(n, conds)
			}
			walk(fd.Body, nil)
		}
	}
	for f := range funcs {
		if f != "*" && !found[f] {
			return "", fmt.Errorf("panic_sites: function %s not found in %s", f, it.Pkg)
		}
	}
	sort.Slice(sites, func(i, j int) bool {
		a, b := sites[i], sites[j]
		if a.fn != b.fn {
			return a.fn < b.fn
		}
		if a.kind != b.kind {
			return a.kind < b.kind
		}
		if a.shape != b.shape {
			return a.shape < b.shape
		}
		return a.guards < b.guards
	})
	var rows []string
	for _, s := range sites {
		rows = append(rows, fmt.Sprintf("(%s, %s, %s, %s)", coqStr(s.fn), coqStr(s.kind), coqStr(s.shape), s.guards))
	}
	return fmt.Sprintf("Definition %s : list (string * string * string * list string) :=\n  [%s].", it.Coq, strings.Join(rows, ";\n   ")), nil
}

// fileTextHas: does the whitespace-normalised text of a (non-Go) file of the repository match Regex?
// Pkg = directory, Name = file name. Used for the embedded YAML metadata.
func fileTextHas(it Item) (string, error) {
	b, err := os.ReadFile(filepath.Join(repo, it.Pkg, it.Name))
	if err != nil {
		return "", err
	}
	re, err := regexp.Compile(it.Regex)
	if err != nil {
		return "", err
	}
	v := "false"
	if re.MatchString(wsRe.ReplaceAllString(string(b), " ")) {
		v = "true"
	}
	return fmt.Sprintf("Definition %s : bool := %s.", it.Coq, v), nil
}

// callgraphTextHas: does Regex match the normalised text of Func or of any function / method of the same package
// reachable from it by calls (matched by name, depth <= 4)? A statement that is moved verbatim into a helper called
// from Func keeps the fact.
func callgraphTextHas(it Item) (string, error) {
	p, err := loadPkg(it.Pkg)
	if err != nil {
		return "", err
	}
	re, err := regexp.Compile(it.Regex)
	if err != nil {
		return "", err
	}
	byName := map[string][]*ast.FuncDecl{}
	for _, f := range p.files {
		for _, d := range f.Decls {
			if fd, ok := d.(*ast.FuncDecl); ok {
				byName[fd.Name.Name] = append(byName[fd.Name.Name], fd)
			}
		}
	}
	start := findFunc(p, it.Func)
	if start == nil {
		return "", fmt.Errorf("function %s not found in %s", it.Func, it.Pkg)
	}
	seen := map[*ast.FuncDecl]bool{}
	hit := false
	var visit func(fd *ast.FuncDecl, depth int)
	visit = func(fd *ast.FuncDecl, depth int) {
		if seen[fd] || depth > 4 || hit {
			return
		}
		seen[fd] = true
		if re.MatchString(funcText(p, fd)) {
			hit = true
			return
		}
		if fd.Body == nil {
			return
		}
		ast.Inspect(fd.Body, func(n ast.Node) bool {
			if ce, ok := n.(*ast.CallExpr); ok {
				name := ""
				switch f := ce.Fun.(type) {
				case *ast.Ident:
					name = f.Name
				case *ast.SelectorExpr:
					name = f.Sel.Name
				}
				for _, callee := range byName[name] {
					visit(callee, depth+1)
				}
			}
			return true
		})
	}
	visit(start, 0)
	v := "false"
	if hit {
		v = "true"
	}
	return fmt.Sprintf("Definition %s : bool := %s.", it.Coq, v), nil
}
