package main

// Custom extraction kinds of the "cross" family.
//
//   panic_sites : syntactic inventory of expressions that can panic at run time, per function
//                 (index / slice / unchecked type assertion / integer-looking division or modulo /
//                 explicit panic, os.Exit, log.Fatal calls), as (function, kind, normalised text).

import (
	"fmt"
	"go/ast"
	"go/token"
	"os"
	"path/filepath"
	"regexp"
	"sort"
	"strings"
)

func init() {
	customKinds["panic_sites"] = panicSites
	customKinds["file_text_has"] = fileTextHas
}

var wsRe = regexp.MustCompile(`\s+`)

func normText(p *pkgInfo, n ast.Node) string {
	return wsRe.ReplaceAllString(nodeText(p, n), " ")
}

func extraStrings(it Item, key string) []string {
	var out []string
	if it.Extra == nil {
		return out
	}
	if v, ok := it.Extra[key].([]any); ok {
		for _, x := range v {
			if s, ok := x.(string); ok {
				out = append(out, s)
			}
		}
	}
	return out
}

func looksFloat(s string) bool {
	return strings.Contains(s, "float64(") || strings.Contains(s, "float32(") || strings.Contains(s, ".Seconds()") ||
		regexp.MustCompile(`\b\d+\.\d+\b|\b\d+e\d+\b`).MatchString(s)
}

// panicSites. Extra: "funcs": functions whose index/slice/assert sites are inventoried ("*" = all);
// "scan_all": kinds inventoried in EVERY function of the package (subset of div, panic, assert).
func panicSites(it Item) (string, error) {
	p, err := loadPkg(it.Pkg)
	if err != nil {
		return "", err
	}
	funcs := map[string]bool{}
	for _, f := range extraStrings(it, "funcs") {
		funcs[f] = true
	}
	scanAll := map[string]bool{}
	for _, k := range extraStrings(it, "scan_all") {
		scanAll[k] = true
	}
	type site struct{ fn, kind, text string }
	seen := map[site]bool{}
	var sites []site
	add := func(fn, kind, text string) {
		s := site{fn, kind, text}
		if !seen[s] {
			seen[s] = true
			sites = append(sites, s)
		}
	}
	found := map[string]bool{}
	for _, f := range p.files {
		for _, d := range f.Decls {
			fd, ok := d.(*ast.FuncDecl)
			if !ok || fd.Body == nil {
				continue
			}
			name := funcName(fd)
			full := funcs["*"] || funcs[name]
			if funcs[name] {
				found[name] = true
			}
			// type assertions in comma-ok form or in type switches are safe
			okAssert := map[*ast.TypeAssertExpr]bool{}
			ast.Inspect(fd.Body, func(n ast.Node) bool {
				switch x := n.(type) {
				case *ast.AssignStmt:
					if len(x.Lhs) == 2 && len(x.Rhs) == 1 {
						if ta, ok := x.Rhs[0].(*ast.TypeAssertExpr); ok {
							okAssert[ta] = true
						}
					}
				case *ast.ValueSpec:
					if len(x.Names) == 2 && len(x.Values) == 1 {
						if ta, ok := x.Values[0].(*ast.TypeAssertExpr); ok {
							okAssert[ta] = true
						}
					}
				case *ast.TypeSwitchStmt:
					ast.Inspect(x.Assign, func(m ast.Node) bool {
						if ta, ok := m.(*ast.TypeAssertExpr); ok {
							okAssert[ta] = true
						}
						return true
					})
				}
				return true
			})
			ast.Inspect(fd.Body, func(n ast.Node) bool {
				switch x := n.(type) {
				case *ast.IndexExpr:
					if !full {
						break
					}
					if bl, ok := x.Index.(*ast.BasicLit); ok && bl.Kind == token.STRING {
						break // map lookup by literal key
					}
					add(name, "index", normText(p, x))
				case *ast.SliceExpr:
					if full {
						add(name, "slice", normText(p, x))
					}
				case *ast.TypeAssertExpr:
					if (full || scanAll["assert"]) && x.Type != nil && !okAssert[x] {
						add(name, "assert", normText(p, x))
					}
				case *ast.BinaryExpr:
					if (x.Op == token.QUO || x.Op == token.REM) && (full || scanAll["div"]) {
						t := normText(p, x)
						if bl, ok := x.Y.(*ast.BasicLit); ok && bl.Kind == token.INT && bl.Value != "0" {
							break // non-zero integer literal divisor
						}
						if looksFloat(t) {
							add(name, "fdiv", t)
						} else {
							add(name, "div", t)
						}
					}
				case *ast.CallExpr:
					if full || scanAll["panic"] || scanAll["intn"] {
						ft := normText(p, x.Fun)
						if (ft == "rand.Intn" || ft == "rand.Int63n" || ft == "rand.Int31n") && (full || scanAll["intn"]) && len(x.Args) == 1 {
							if bl, ok := x.Args[0].(*ast.BasicLit); !ok || bl.Kind != token.INT || bl.Value == "0" {
								add(name, "intn", normText(p, x))
							}
						}
						if (full || scanAll["panic"]) && (ft == "panic" || ft == "os.Exit" || strings.HasPrefix(ft, "log.Fatal") || strings.HasSuffix(ft, ".Fatalf") || strings.HasSuffix(ft, ".Fatal")) {
							add(name, "exit", ft)
						}
					}
				}
				return true
			})
		}
	}
	if scanAll["rootspan"] {
		// uses of a possibly-nil *Span taken from <x>.RootSpan: dereferences `<x>.RootSpan.<sel>` and assignments
		// `<v> = <x>.RootSpan`, each with the innermost enclosing if-condition that mentions RootSpan ("unguarded" if none)
		for _, f := range p.files {
			for _, d := range f.Decls {
				fd, ok := d.(*ast.FuncDecl)
				if !ok || fd.Body == nil {
					continue
				}
				name := funcName(fd)
				var walk func(n ast.Node, guard string)
				walk = func(n ast.Node, guard string) {
					if n == nil {
						return
					}
					switch x := n.(type) {
					case *ast.IfStmt:
						if x.Init != nil {
							walk(x.Init, guard)
						}
						walk(x.Cond, guard)
						g := guard
						if ct := normText(p, x.Cond); strings.Contains(ct, "RootSpan") {
							g = ct
						}
						walk(x.Body, g)
						if x.Else != nil {
							walk(x.Else, guard)
						}
						return
					case *ast.SelectorExpr:
						if strings.HasSuffix(normText(p, x.X), ".RootSpan") {
							add(name, "rootspan", normText(p, x)+" | if "+guard)
						}
					case *ast.AssignStmt:
						for _, r := range x.Rhs {
							if strings.HasSuffix(normText(p, r), ".RootSpan") {
								add(name, "rootspan", normText(p, x)+" | if "+guard)
							}
						}
					}
					// generic descent
					ast.Inspect(n, func(c ast.Node) bool {
						if c == n || c == nil {
							return true
						}
						walk(c, guard)
						return false
					})
				}
				walk(fd.Body, "unguarded")
			}
		}
	}
	for f := range funcs {
		if f != "*" && !found[f] {
			return "", fmt.Errorf("panic_sites: function %s not found in %s", f, it.Pkg)
		}
	}
	sort.Slice(sites, func(i, j int) bool {
		a, b := sites[i], sites[j]
		if a.fn != b.fn {
			return a.fn < b.fn
		}
		if a.kind != b.kind {
			return a.kind < b.kind
		}
		return a.text < b.text
	})
	var rows []string
	for _, s := range sites {
		rows = append(rows, fmt.Sprintf("(%s, %s, %s)", coqStr(s.fn), coqStr(s.kind), coqStr(s.text)))
	}
	return fmt.Sprintf("Definition %s : list (string * string * string) :=\n  [%s].", it.Coq, strings.Join(rows, ";\n   ")), nil
}

// fileTextHas: does the whitespace-normalised text of a (non-Go) file of the repository match Regex?
// Pkg = directory, Name = file name. Used for the embedded YAML metadata.
func fileTextHas(it Item) (string, error) {
	b, err := os.ReadFile(filepath.Join(repo, it.Pkg, it.Name))
	if err != nil {
		return "", err
	}
	re, err := regexp.Compile(it.Regex)
	if err != nil {
		return "", err
	}
	v := "false"
	if re.MatchString(wsRe.ReplaceAllString(string(b), " ")) {
		v = "true"
	}
	return fmt.Sprintf("Definition %s : bool := %s.", it.Coq, v), nil
}
