package main

// Custom extraction kinds of the "sm" property family (C30 C15 C18 C34 C33).

import (
	"fmt"
	"go/ast"
	"math/big"
	"regexp"
	"strings"
	"time"
)

func init() {
	// struct_tag_int: the integer (or Go duration) value of one struct tag of one field.
	//   {"kind":"struct_tag_int","pkg":"config","name":"StressReliefConfig","coq":"default_activation_level",
	//    "extra":{"field":"ActivationLevel","tag":"default"}}
	customKinds["struct_tag_int"] = func(it Item) (string, error) {
		p, err := loadPkg(it.Pkg)
		if err != nil {
			return "", err
		}
		field, _ := it.Extra["field"].(string)
		tag, _ := it.Extra["tag"].(string)
		if tag == "" {
			tag = "default"
		}
		var found *string
		for _, f := range p.files {
			ast.Inspect(f, func(n ast.Node) bool {
				ts, ok := n.(*ast.TypeSpec)
				if !ok || ts.Name.Name != it.Name {
					return true
				}
				st, ok := ts.Type.(*ast.StructType)
				if !ok {
					return true
				}
				for _, fl := range st.Fields.List {
					for _, nm := range fl.Names {
						if nm.Name == field && fl.Tag != nil {
							if m := regexp.MustCompile(tag + `:"([^"]*)"`).FindStringSubmatch(unquote(fl.Tag.Value)); m != nil {
								v := m[1]
								found = &v
							}
						}
					}
				}
				return true
			})
		}
		if found == nil {
			return "", fmt.Errorf("tag %s of %s.%s not found", tag, it.Name, field)
		}
		v := new(big.Int)
		if _, ok := v.SetString(strings.TrimSpace(*found), 10); !ok {
			d, err := time.ParseDuration(*found)
			if err != nil {
				return "", fmt.Errorf("tag value %q is neither an integer nor a duration", *found)
			}
			v.SetInt64(int64(d))
		}
		ty := "Z"
		if it.As == "N" {
			ty = "N"
		}
		return fmt.Sprintf("Definition %s : %s := %s.", it.Coq, ty, coqInt(v, it.As)), nil
	}
}
