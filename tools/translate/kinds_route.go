package main

// Family "route": extraction kinds that main.go's generic ones cannot express.

import (
	"fmt"
	"go/ast"
	"reflect"
	"strings"
)

func init() {
	// struct_tags_route: for the struct Name in Pkg, every field with the (comma separated) struct
	// tags of Tag, parsed with reflect.StructTag so that escaped quotes inside a tag value survive.
	// Emits  Definition <Coq> : list (string * list string).
	customKinds["struct_tags_route"] = func(it Item) (string, error) {
		p, err := loadPkg(it.Pkg)
		if err != nil {
			return "", err
		}
		var st *ast.StructType
		for _, f := range p.files {
			ast.Inspect(f, func(n ast.Node) bool {
				if ts, ok := n.(*ast.TypeSpec); ok && ts.Name.Name == it.Name {
					if s, ok := ts.Type.(*ast.StructType); ok {
						st = s
					}
				}
				return true
			})
		}
		if st == nil {
			return "", fmt.Errorf("struct %s not found in %s", it.Name, it.Pkg)
		}
		var rows []string
		for _, f := range st.Fields.List {
			tagv := ""
			if f.Tag != nil {
				tagv = unquote(f.Tag.Value)
			}
			for _, n := range f.Names {
				var vals []string
				for _, t := range strings.Split(it.Tag, ",") {
					vals = append(vals, reflect.StructTag(tagv).Get(t))
				}
				rows = append(rows, fmt.Sprintf("(%s, %s)", coqStr(n.Name), coqStrList(vals)))
			}
		}
		return fmt.Sprintf("Definition %s : list (string * list string) :=\n  [%s].", it.Coq, strings.Join(rows, ";\n   ")), nil
	}
}
