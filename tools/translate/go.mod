module verif/translate

go 1.23
