#!/usr/bin/env python3
"""For every fixed entry in known_findings/*.json record the SHA of the commit on /repo main (agents committed
on their own branches; the integrator cherry-picked). Matches by commit subject."""
import glob, json, subprocess
def sh(*a): return subprocess.run(a, stdout=subprocess.PIPE, text=True).stdout
main = {}
for l in sh("git", "-C", "/repo", "log", "--format=%h\t%s", "main").splitlines():
    h, s = l.split("\t", 1); main.setdefault(s, h)
mainset = set(h for h in main.values())
for f in sorted(glob.glob("/verif/known_findings/C*.json")):
    ks = json.load(open(f)); ch = False
    for k in ks:
        if k.get("status") != "fixed": continue
        c = str(k.get("commit", ""))
        subj = sh("git", "-C", "/repo", "log", "-1", "--format=%s", c).strip() if c else ""
        m = main.get(subj)
        if sh("git", "-C", "/repo", "merge-base", "--is-ancestor", c, "main") == "" and subprocess.run(["git", "-C", "/repo", "merge-base", "--is-ancestor", c, "main"]).returncode == 0:
            m = c[:7]
        if m and k.get("commit_main") != m:
            k["commit_main"] = m; ch = True
            if "line" in k: k["line"] = k["line"].replace(c, m).replace(c[:7], m)
        if not m: print("no main commit for", f, k.get("id"), c, subj)
    if ch: json.dump(ks, open(f, "w"), indent=1); print("updated", f)
