#!/usr/bin/env python3
"""Apply a semantics-preserving refactor (benign/<name>/patch.diff) to /repo, run every check whose anchors or
translator spec mention the touched package, restore /repo and the evidence. Records alarms in benign/RESULTS.json.
usage: tools/benign.py benign/<name> [Cxx ...]"""
import glob, json, os, re, shutil, subprocess, sys, tempfile, time
from concurrent.futures import ThreadPoolExecutor
ROOT = os.path.dirname(os.path.dirname(os.path.abspath(__file__)))
REPO = os.environ.get("VERIF_REPO", "/repo")
d = os.path.abspath(sys.argv[1]); name = os.path.basename(d)
patch = open(os.path.join(d, "patch.diff")).read()
files = re.findall(r"^\+\+\+ b/(\S+)", patch, re.M)
pkgs = set(os.path.dirname(f) for f in files)
ids = sys.argv[2:]
if not ids:
    props = [json.loads(l) for l in open(os.path.join(ROOT, "properties.jsonl"))]
    for p in props:
        hit = False
        for a in p["anchors"]["files"]:
            ad = os.path.dirname(a)
            if any(a == f or (("*" in a) and os.path.dirname(f) == ad) for f in files): hit = True
        sp = os.path.join(ROOT, "tools/translate/specs", p["id"] + ".json")
        if os.path.exists(sp):
            s = json.load(open(sp))
            if any(it.get("pkg") in pkgs for it in s.get("items", [])): hit = True
        if hit: ids.append(p["id"])
st = subprocess.run(["git", "-C", REPO, "status", "--porcelain"], stdout=subprocess.PIPE, text=True).stdout.strip()
if st: sys.exit("repo not clean")
r = subprocess.run(["git", "-C", REPO, "apply", os.path.join(d, "patch.diff")], stdout=subprocess.PIPE, stderr=subprocess.STDOUT, text=True)
if r.returncode != 0: sys.exit("patch does not apply: " + r.stdout)
evbak = tempfile.mkdtemp(dir=os.path.join(ROOT, ".work"))
for f in os.listdir(os.path.join(ROOT, "evidence")): shutil.copy(os.path.join(ROOT, "evidence", f), evbak)
out = {}
def run(i):
    t = time.time()
    p = subprocess.run([os.path.join(ROOT, "check"), i, "--tier", "quick"], cwd=ROOT, stdout=subprocess.PIPE, stderr=subprocess.PIPE, text=True)
    v = [l for l in p.stdout.splitlines() if l.startswith("VIOLATION")]
    return i, p.returncode, v, p.stderr[-700:], time.time() - t
try:
    with ThreadPoolExecutor(max_workers=4) as ex:
        for i, rc, v, err, dt in ex.map(run, ids):
            out[i] = {"alarm": rc != 0, "line": (v or [""])[0], "why": err if rc != 0 else "", "wall_s": round(dt)}
            print("%s %s %s %ds %s" % (name, i, "ALARM" if rc != 0 else "quiet", dt, (v or [""])[0][:150]), flush=True)
finally:
    subprocess.run(["git", "-C", REPO, "checkout", "--", "."])
    for f in os.listdir(evbak): shutil.copy(os.path.join(evbak, f), os.path.join(ROOT, "evidence", f))
    shutil.rmtree(evbak, ignore_errors=True)
rp = os.path.join(ROOT, "benign", "RESULTS.json")
res = json.load(open(rp)) if os.path.exists(rp) else {}
res[name] = {"files": files, "checks": out, "when": time.strftime("%Y-%m-%d %H:%M")}
json.dump(res, open(rp, "w"), indent=1, sort_keys=True)
