#!/bin/bash
# usage: tools/confirm_seeded.sh seeded/<name> <demo-target-dir-in-repo> "<pkgs to test>" [run-regex]
# Confirms in a scratch worktree: existing tests of pkgs pass with the patch; demo passes without and fails with it.
set -u
D=$(realpath "$1"); TGT="$2"; PKGS="$3"; RUN="${4:-Seeded}"
W=/tmp/mut/confirm-$$
export GOFLAGS=-mod=mod GOPROXY=off
git -C /repo worktree add -q --detach $W HEAD || exit 2
cd $W
res=""
cp $D/*_test.go $TGT/ 2>/dev/null
go test -count=1 -run "$RUN" ./$TGT/ > $W/demo_clean.log 2>&1 && res="$res demo_on_clean=PASS" || res="$res demo_on_clean=FAIL"
rm -f $TGT/zz_seeded*_test.go
git apply $D/patch.diff || { echo "patch does not apply"; cd /; git -C /repo worktree remove --force $W; exit 2; }
go build ./... > $W/build.log 2>&1 && res="$res build=OK" || res="$res build=FAIL"
go test -count=1 -parallel 2 $PKGS > $W/pkg.log 2>&1 && res="$res existing_tests=PASS" || res="$res existing_tests=FAIL($(grep -c '^--- FAIL' $W/pkg.log))"
cp $D/*_test.go $TGT/
go test -count=1 -run "$RUN" ./$TGT/ > $W/demo_mut.log 2>&1 && res="$res demo_on_mutant=PASS" || res="$res demo_on_mutant=FAIL"
echo "$(basename $D):$res"
grep '^--- FAIL' $W/pkg.log | head -5
cd /; git -C /repo worktree remove --force $W
