#!/usr/bin/env python3
"""Apply a seeded defect (seeded/<name>/patch.diff) to /repo, run the named checks, undo it.
usage: tools/seeded.py seeded/<name> [Cxx ...]   (default checks: meta.json "property" (+ "also"))
Prints one line per check: DETECTED / MISSED, and leaves /repo clean."""
import json, os, subprocess, sys
ROOT = os.path.dirname(os.path.dirname(os.path.abspath(__file__)))
REPO = os.environ.get("VERIF_REPO", "/repo")
d = os.path.abspath(sys.argv[1])
meta = json.load(open(os.path.join(d, "meta.json")))
ids = sys.argv[2:] or [meta["property"]] + meta.get("also", [])
st = subprocess.run(["git", "-C", REPO, "status", "--porcelain"], stdout=subprocess.PIPE, text=True).stdout.strip()
if st:
    sys.exit("repo not clean:\n" + st)
r = subprocess.run(["git", "-C", REPO, "apply", "--3way", os.path.join(d, "patch.diff")], stdout=subprocess.PIPE, stderr=subprocess.STDOUT, text=True)
if r.returncode != 0:
    subprocess.run(["git", "-C", REPO, "reset", "-q"]); subprocess.run(["git", "-C", REPO, "checkout", "--", "."])
    sys.exit("patch does not apply: " + r.stdout)
import shutil, tempfile
evbak = tempfile.mkdtemp(dir=os.path.join(ROOT, ".work")) if os.path.isdir(os.path.join(ROOT, ".work")) else tempfile.mkdtemp()
for f in os.listdir(os.path.join(ROOT, "evidence")):
    shutil.copy(os.path.join(ROOT, "evidence", f), evbak)
try:
    for i in ids:
        p = subprocess.run([os.path.join(ROOT, "check"), i, "--tier", "quick"], cwd=ROOT, stdout=subprocess.PIPE, stderr=subprocess.PIPE, text=True)
        v = [l for l in p.stdout.splitlines() if l.startswith("VIOLATION")]
        print("%s %s rc=%d %s" % (i, "DETECTED" if p.returncode != 0 and v else "MISSED", p.returncode, (v or p.stdout.strip().splitlines()[-1:] or [""])[0]), flush=True)
finally:
    subprocess.run(["git", "-C", REPO, "reset", "-q"]); subprocess.run(["git", "-C", REPO, "checkout", "--", "."])
    subprocess.run(["git", "-C", REPO, "clean", "-fdq"])
    for f in os.listdir(evbak):          # evidence must only ever describe runs on the unchanged tree
        shutil.copy(os.path.join(evbak, f), os.path.join(ROOT, "evidence", f))
    shutil.rmtree(evbak, ignore_errors=True)
