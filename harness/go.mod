module github.com/honeycombio/refinery/verifharness

go 1.25.0

require (
	github.com/dgryski/go-wyhash v0.0.0-20191203203029-c4841ae36371
	github.com/facebookgo/inject v0.0.0-20180706035515-f23751cae28b
	github.com/facebookgo/startstop v0.0.0-20161013234910-bc158412526d
	github.com/gorilla/mux v1.8.1
	github.com/honeycombio/dynsampler-go v0.6.4
	github.com/honeycombio/husky v0.43.1
	github.com/honeycombio/refinery v0.0.0
	github.com/jonboulle/clockwork v0.5.0
	github.com/klauspost/compress v1.18.6
	github.com/panmari/cuckoofilter v1.0.6
	github.com/tinylib/msgp v1.6.4
	github.com/vmihailenco/msgpack/v5 v5.4.1
	go.opentelemetry.io/otel/trace v1.43.0
	go.opentelemetry.io/proto/otlp v1.10.0
	google.golang.org/grpc v1.80.0
	google.golang.org/protobuf v1.36.11
)

require (
	github.com/agnivade/levenshtein v1.2.1 // indirect
	github.com/beorn7/perks v1.0.1 // indirect
	github.com/cenkalti/backoff/v5 v5.0.3 // indirect
	github.com/cespare/xxhash/v2 v2.3.0 // indirect
	github.com/creasty/defaults v1.8.0 // indirect
	github.com/davecgh/go-spew v1.1.1 // indirect
	github.com/dgryski/go-metro v0.0.0-20250106013310-edb8663e5e33 // indirect
	github.com/facebookgo/clock v0.0.0-20150410010913-600d898af40a // indirect
	github.com/facebookgo/limitgroup v0.0.0-20150612190941-6abd8d71ec01 // indirect
	github.com/facebookgo/muster v0.0.0-20150708232844-fd3d7953fd52 // indirect
	github.com/facebookgo/structtag v0.0.0-20150214074306-217e25fb9691 // indirect
	github.com/felixge/httpsnoop v1.0.4 // indirect
	github.com/go-logr/logr v1.4.3 // indirect
	github.com/go-logr/stdr v1.2.2 // indirect
	github.com/google/uuid v1.6.0 // indirect
	github.com/grpc-ecosystem/grpc-gateway/v2 v2.28.0 // indirect
	github.com/hashicorp/go-version v1.9.0 // indirect
	github.com/hashicorp/golang-lru/v2 v2.0.7 // indirect
	github.com/honeycombio/libhoney-go v1.27.1 // indirect
	github.com/jessevdk/go-flags v1.6.1 // indirect
	github.com/json-iterator/go v1.1.12 // indirect
	github.com/modern-go/concurrent v0.0.0-20180306012644-bacd9c7ef1dd // indirect
	github.com/modern-go/reflect2 v1.0.3-0.20250322232337-35a7c28c31ee // indirect
	github.com/munnerz/goautoneg v0.0.0-20191010083416-a7dc8b61c822 // indirect
	github.com/open-telemetry/opentelemetry-collector-contrib/pkg/sampling v0.142.0 // indirect
	github.com/pelletier/go-toml/v2 v2.3.0 // indirect
	github.com/philhofer/fwd v1.2.0 // indirect
	github.com/pkg/errors v0.9.1 // indirect
	github.com/pmezard/go-difflib v1.0.0 // indirect
	github.com/prometheus/client_golang v1.23.2 // indirect
	github.com/prometheus/client_model v0.6.2 // indirect
	github.com/prometheus/common v0.66.1 // indirect
	github.com/prometheus/procfs v0.16.1 // indirect
	github.com/rdleal/go-priorityq v0.0.0-20240324224830-28716009213d // indirect
	github.com/redis/go-redis/v9 v9.19.0 // indirect
	github.com/sirupsen/logrus v1.9.4 // indirect
	github.com/sourcegraph/conc v0.3.0 // indirect
	github.com/stretchr/testify v1.11.1 // indirect
	github.com/tidwall/gjson v1.18.0 // indirect
	github.com/tidwall/match v1.1.1 // indirect
	github.com/tidwall/pretty v1.2.1 // indirect
	github.com/valyala/fastjson v1.6.10 // indirect
	github.com/vmihailenco/tagparser/v2 v2.0.0 // indirect
	go.opentelemetry.io/auto/sdk v1.2.1 // indirect
	go.opentelemetry.io/collector/featuregate v1.57.0 // indirect
	go.opentelemetry.io/collector/pdata v1.57.0 // indirect
	go.opentelemetry.io/contrib/instrumentation/google.golang.org/grpc/otelgrpc v0.68.0 // indirect
	go.opentelemetry.io/contrib/instrumentation/net/http/otelhttp v0.68.0 // indirect
	go.opentelemetry.io/otel v1.43.0 // indirect
	go.opentelemetry.io/otel/exporters/otlp/otlpmetric/otlpmetrichttp v1.43.0 // indirect
	go.opentelemetry.io/otel/exporters/otlp/otlptrace v1.43.0 // indirect
	go.opentelemetry.io/otel/exporters/otlp/otlptrace/otlptracehttp v1.43.0 // indirect
	go.opentelemetry.io/otel/metric v1.43.0 // indirect
	go.opentelemetry.io/otel/sdk v1.43.0 // indirect
	go.opentelemetry.io/otel/sdk/metric v1.43.0 // indirect
	go.opentelemetry.io/proto/otlp/collector/profiles/v1development v0.2.0 // indirect
	go.opentelemetry.io/proto/otlp/profiles/v1development v0.2.0 // indirect
	go.uber.org/atomic v1.11.0 // indirect
	go.uber.org/multierr v1.11.0 // indirect
	go.yaml.in/yaml/v2 v2.4.2 // indirect
	golang.org/x/exp v0.0.0-20250531010427-b6e5de432a8b // indirect
	golang.org/x/mod v0.35.0 // indirect
	golang.org/x/net v0.52.0 // indirect
	golang.org/x/sys v0.42.0 // indirect
	golang.org/x/text v0.35.0 // indirect
	google.golang.org/genproto/googleapis/api v0.0.0-20260401024825-9d38bb4040a9 // indirect
	google.golang.org/genproto/googleapis/rpc v0.0.0-20260406210006-6f92a3bedf2d // indirect
	gopkg.in/alexcesaro/statsd.v2 v2.0.0 // indirect
	gopkg.in/yaml.v3 v3.0.1 // indirect
)

replace github.com/honeycombio/refinery => /repo
