// Package coqfmt prints Go values as Gallina literals for the generated cases_Cxx.v files.
package coqfmt

import (
	"fmt"
	"strings"
)

func Z(v int64) string {
	if v < 0 {
		return fmt.Sprintf("(%d)%%Z", v)
	}
	return fmt.Sprintf("%d%%Z", v)
}
func N(v uint64) string { return fmt.Sprintf("%d%%N", v) }
func Nat(v int) string  { return fmt.Sprintf("%d%%nat", v) }
func Bool(b bool) string {
	if b {
		return "true"
	}
	return "false"
}
func List(xs []string) string { return "[" + strings.Join(xs, "; ") + "]" }
func ListN(xs []uint64) string {
	s := make([]string, len(xs))
	for i, x := range xs {
		s[i] = N(x)
	}
	return List(s)
}
func ListZ(xs []int64) string {
	s := make([]string, len(xs))
	for i, x := range xs {
		s[i] = Z(x)
	}
	return List(s)
}
func Some(s string) string        { return "(Some " + s + ")" }
func None() string                { return "None" }
func Pair(a, b string) string     { return "(" + a + ", " + b + ")" }
func App(f string, args ...string) string {
	if len(args) == 0 {
		return f
	}
	return "(" + f + " " + strings.Join(args, " ") + ")"
}

// Str prints arbitrary bytes as a Coq string: printable ASCII as a literal, anything else via Base.bs.
func Str(s string) string {
	plain := true
	for i := 0; i < len(s); i++ {
		c := s[i]
		if c < 32 || c > 126 {
			plain = false
			break
		}
	}
	if plain {
		return "\"" + strings.ReplaceAll(s, "\"", "\"\"") + "\"%string"
	}
	bs := make([]string, len(s))
	for i := 0; i < len(s); i++ {
		bs[i] = fmt.Sprintf("%d%%N", s[i])
	}
	return "(bs " + List(bs) + ")"
}
func ListStr(xs []string) string {
	s := make([]string, len(xs))
	for i, x := range xs {
		s[i] = Str(x)
	}
	return List(s)
}
