package drive

import (
	"bytes"
	"compress/gzip"
	"context"
	"crypto/sha1"
	"encoding/base64"
	"encoding/binary"
	"encoding/json"
	"fmt"
	"math/rand"
	"net/http/httptest"
	"os"
	"os/exec"
	"path/filepath"
	"strings"
	"sync"
	"syscall"
	"time"

	"gopkg.in/yaml.v3"

	"github.com/honeycombio/refinery/config"
	"github.com/honeycombio/refinery/internal/peer"
	"github.com/honeycombio/refinery/logger"
	"github.com/honeycombio/refinery/metrics"
	"github.com/honeycombio/refinery/sample"
	"github.com/honeycombio/refinery/transmit"
	"github.com/honeycombio/refinery/types"
	cq "github.com/honeycombio/refinery/verifharness/coqfmt"
)

// C28 (partial): crash search. The parent driver ("C28") runs every case in a CHILD process (the same
// binary, driver "C28-child"), so that a panic escaping a goroutine, os.Exit or a hang is observed as
// the death / timeout of the child. Case kinds:
//   keyfields : a rules file with this FieldList through the real loader+validator, then the real
//               config.GetKeyFields and a sampler built from it
//   detrate   : a rules file with a DeterministicSampler of this rate; sampler built, decisions taken
//   config    : a generated rules file (all sampler types, boundary values); if accepted, every sampler
//               is built and takes decisions on a few traces
//   requests  : fuzzed HTTP requests (events, batch, OTLP http, junk paths; json/msgpack/protobuf;
//               gzip/zstd; header garbage) against in-process incoming and peer routers

type c28Req struct {
	Router string            `json:"router"` // incoming | peer
	Method string            `json:"method"`
	Path   string            `json:"path"`
	Hdr    map[string]string `json:"hdr,omitempty"`
	Body   string            `json:"body"` // base64
}
type c28Input struct {
	Kind   string         `json:"kind"`
	Fields []string       `json:"fields,omitempty"`
	Rate   int64          `json:"rate,omitempty"`
	Drop   bool           `json:"drop,omitempty"`
	Scope  string         `json:"scope,omitempty"`
	Tids   []string       `json:"tids,omitempty"`
	Rules  map[string]any `json:"rules,omitempty"` // Samplers section
	Main   map[string]any `json:"main,omitempty"`  // sections of the main configuration file (kind mainconfig)
	Reqs   []c28Req       `json:"reqs,omitempty"`
}

type c28Result struct {
	Accepted  bool       `json:"accepted"`
	RejectMsg string     `json:"reject_msg,omitempty"`
	All       []string   `json:"all,omitempty"`
	NonRoot   []string   `json:"nonroot,omitempty"`
	Decisions [][2]int64 `json:"decisions,omitempty"` // rate, keep(0/1)
	Statuses  []int      `json:"statuses,omitempty"`
	Caught    int        `json:"caught"`
	Samplers  int        `json:"samplers"`
}

const c28DetSalt = "5VQ8l2jE5aJLPVqk" // sample.shardingSalt (unexported); a change shows up as a model mismatch

func init() {
	Register(&Driver{ID: "C28", Gen: c28Gen, Run: c28Run, Shrink: c28Shrink})
	Register(&Driver{ID: "C28-child", Gen: c28Gen, Run: c28Child})
}

// ---------------------------------------------------------------- generator

var c28FieldPool = []string{"", "a", "http.status", "root.service", "root.", "root", "r", "?.NUM_DESCENDANTS", "?.", "?",
	" ", "root.root.x", "ROOT.x", "r\xc3\xa9", "rootx", "?x", "service.name"}

var c28Rates = []int64{1, 2, 3, 10, 1<<31 - 1, 1 << 31, 1<<32 - 1, 1 << 32, 1<<32 + 1, 1 << 33, 3 << 32, 5<<32 + 7,
	1 << 62, 1<<63 - 1, 0, -1, -(1 << 32), 100, 1000}

func c28PickFields(r *rand.Rand) []string {
	n := r.Intn(5)
	if r.Intn(8) == 0 {
		n = 0
	}
	out := []string{}
	for i := 0; i < n; i++ {
		if r.Intn(10) < 2 {
			out = append(out, "")
		} else {
			out = append(out, c28FieldPool[r.Intn(len(c28FieldPool))])
		}
	}
	return out
}

// mostly valid values (so that most files pass validation), boundary values otherwise
func c28Int(r *rand.Rand) int64 {
	if r.Intn(100) < 70 {
		return []int64{1, 2, 5, 100, 1000}[r.Intn(5)]
	}
	return []int64{0, -1, 1 << 31, 1 << 32, 1<<32 + 1, 1 << 40, 1<<53 + 1, 1<<63 - 1}[r.Intn(8)]
}
func c28Dur(r *rand.Rand) string {
	if r.Intn(100) < 60 {
		return []string{"1s", "30s", "100ms", "1h"}[r.Intn(4)]
	}
	return []string{"0s", "1ns", "1ms", "-1s", "1us"}[r.Intn(5)]
}
func c28Float(r *rand.Rand) float64 {
	if r.Intn(100) < 60 {
		return []float64{0.5, 0.1, 0.9, 2}[r.Intn(4)]
	}
	return []float64{0, 1, -1, 0.999, 1e-9, 1e18}[r.Intn(6)]
}

func c28Downstream(r *rand.Rand, allowDet bool) (string, map[string]any) {
	opt := func(m map[string]any, k string, v any) {
		if r.Intn(3) > 0 {
			m[k] = v
		}
	}
	k := r.Intn(6)
	if k == 5 && !allowDet {
		k = 0
	}
	switch k {
	case 0:
		m := map[string]any{"SampleRate": c28Int(r), "FieldList": c28PickFields(r)}
		opt(m, "ClearFrequency", c28Dur(r))
		opt(m, "MaxKeys", c28Int(r))
		opt(m, "UseTraceLength", r.Intn(2) == 0)
		return "DynamicSampler", m
	case 1:
		m := map[string]any{"GoalSampleRate": c28Int(r), "FieldList": c28PickFields(r)}
		opt(m, "AdjustmentInterval", c28Dur(r))
		opt(m, "Weight", c28Float(r))
		opt(m, "AgeOutValue", c28Float(r))
		opt(m, "BurstMultiple", c28Float(r))
		opt(m, "BurstDetectionDelay", r.Intn(5))
		opt(m, "MaxKeys", c28Int(r))
		return "EMADynamicSampler", m
	case 2:
		m := map[string]any{"FieldList": c28PickFields(r), "GoalThroughputPerSec": c28Int(r)}
		opt(m, "InitialSampleRate", c28Int(r))
		opt(m, "AdjustmentInterval", c28Dur(r))
		opt(m, "Weight", c28Float(r))
		opt(m, "UseClusterSize", r.Intn(2) == 0)
		opt(m, "MaxKeys", c28Int(r))
		return "EMAThroughputSampler", m
	case 3:
		m := map[string]any{"FieldList": c28PickFields(r), "GoalThroughputPerSec": c28Int(r)}
		opt(m, "UpdateFrequency", c28Dur(r))
		opt(m, "LookbackFrequency", c28Dur(r))
		opt(m, "UseClusterSize", r.Intn(2) == 0)
		opt(m, "MaxKeys", c28Int(r))
		return "WindowedThroughputSampler", m
	case 4:
		m := map[string]any{"GoalThroughputPerSec": c28Int(r), "FieldList": c28PickFields(r)}
		opt(m, "ClearFrequency", c28Dur(r))
		opt(m, "UseClusterSize", r.Intn(2) == 0)
		opt(m, "MaxKeys", c28Int(r))
		return "TotalThroughputSampler", m
	default:
		return "DeterministicSampler", map[string]any{"SampleRate": c28Rates[r.Intn(len(c28Rates))]}
	}
}

// rule-level static SampleRate: validation puts no bound on it
func c28RuleRate(r *rand.Rand) int64 {
	return []int64{-1, -2, -(1 << 32), -(1 << 62), 0, 1, 2, 10, 1 << 31, 1 << 32, 1<<62 + 1}[r.Intn(11)]
}

// conditions that the fixed traces of c28Traces satisfy, so that rules behind them are reached
var c28MatchingConds = []map[string]any{
	{"Field": "a", "Operator": "exists"},
	{"Field": "http.status", "Operator": "=", "Value": 200, "Datatype": "int"},
	{"Field": "service", "Operator": "=", "Value": "s"},
	{"Field": "nope", "Operator": "not-exists"},
	{"Operator": "has-root-span", "Value": true},
	{"Fields": []any{"missing", "service.name"}, "Operator": "starts-with", "Value": "n"},
	{"Field": "root.service", "Operator": "=", "Value": "s"},
	{"Field": "root.missing", "Operator": "not-exists"},
	{"Fields": []any{"root.missing", "root.http.status"}, "Operator": "exists"},
	{"Field": "nested.b", "Operator": "exists"},
	{"Field": "nested.c.d", "Operator": "=", "Value": "deep"},
	{"Field": "root.nested.b", "Operator": "not-exists"},
}

func c28Condition(r *rand.Rand) map[string]any {
	if r.Intn(3) == 0 {
		c := map[string]any{}
		for k, v := range c28MatchingConds[r.Intn(len(c28MatchingConds))] {
			c[k] = v
		}
		return c
	}
	ops := []string{"=", "!=", ">", ">=", "<", "<=", "starts-with", "contains", "does-not-contain", "exists", "not-exists",
		"has-root-span", "matches", "in", "not-in"}
	c := map[string]any{"Operator": ops[r.Intn(len(ops))]}
	if r.Intn(4) == 0 {
		c["Fields"] = c28PickFields(r)
	} else {
		c["Field"] = c28FieldPool[r.Intn(len(c28FieldPool))]
	}
	vals := []any{"x", "", 1, 0, -1, 1.5, true, nil, "(", "[a-", "^a.*$", []any{"a", "b"}, []any{1, 2}, []any{}, "1", int64(1) << 40}
	if r.Intn(6) > 0 {
		c["Value"] = vals[r.Intn(len(vals))]
	}
	if r.Intn(3) == 0 {
		c["Datatype"] = []string{"string", "int", "float", "bool"}[r.Intn(4)]
	}
	return c
}

func c28Rules(r *rand.Rand) map[string]any {
	samplers := map[string]any{}
	names := []string{"__default__", "ds1", "env.ds"}
	n := 1 + r.Intn(3)
	for i := 0; i < n; i++ {
		name := names[i]
		if r.Intn(3) == 0 {
			var rules []any
			for j := r.Intn(3); j >= 0; j-- {
				rule := map[string]any{"Name": fmt.Sprintf("rule%d", j)}
				switch r.Intn(4) {
				case 0:
					rule["Drop"] = true
				case 1:
					rule["SampleRate"] = c28RuleRate(r)
				case 2:
					k, m := c28Downstream(r, true)
					rule["Sampler"] = map[string]any{k: m}
				}
				if r.Intn(3) == 0 {
					rule["Scope"] = []string{"span", "trace"}[r.Intn(2)]
				}
				var conds []any
				for c := r.Intn(3); c > 0; c-- {
					conds = append(conds, c28Condition(r))
				}
				if len(conds) > 0 {
					rule["Conditions"] = conds
				}
				rules = append(rules, rule)
			}
			samplers[name] = map[string]any{"RulesBasedSampler": map[string]any{"Rules": rules, "CheckNestedFields": r.Intn(2) == 0}}
		} else {
			k, m := c28Downstream(r, true)
			samplers[name] = map[string]any{k: m}
		}
	}
	return samplers
}

func c28B64(b []byte) string { return base64.StdEncoding.EncodeToString(b) }

func c28Mutate(r *rand.Rand, b []byte) []byte {
	out := append([]byte{}, b...)
	switch r.Intn(6) {
	case 0:
		if len(out) > 0 {
			out = out[:r.Intn(len(out))]
		}
	case 1:
		for i := 0; i < 3 && len(out) > 0; i++ {
			out[r.Intn(len(out))] ^= byte(1 << uint(r.Intn(8)))
		}
	case 2:
		if len(out) > 0 {
			p := r.Intn(len(out))
			out = append(out[:p], append([]byte{0xff, 0xc1, 0xdf, 0xff, 0xff, 0xff, 0xff}, out[p:]...)...)
		}
	case 3:
		out = append(out, out...)
	case 4:
		junk := make([]byte, r.Intn(40))
		r.Read(junk)
		out = junk
	}
	return out
}

// time values for X-Honeycomb-Event-Time and the batch "time" field: integer-looking strings of length 0..12 (the
// code switches on len == 10 / len > 10), signs, hex / octal / underscore forms ParseInt(s, 0, 64) accepts, spaces,
// floats, RFC3339 and junk
var c28TimePool = []string{"", "0", "7", "-5", "+3", "42", "0x1F", "0X1f", "0b101", "0o17", "017", "1_0", "123456789", "-12345678",
	"1234567890", "-123456789", "0x12345678", "12345678901", "-1234567890", "123456789012", "1535589382641", "1535589382641123",
	"1535589382641123456", "9223372036854775807", "-9223372036854775808", "9223372036854775808", " 7", "7 ", "1.5", "-0.5", "1e3", "1e400",
	".5", "5.", "0x1p-2", "NaN", "Inf", "abc", "2018-08-30T00:36:22.641Z", "2018-08-30T00:36:22+25:00", "0000-00-00T00:00:00Z"}

// c28TimeProbes: otherwise well-formed requests that carry an odd time value in the header / in a batch entry
func c28TimeProbes(r *rand.Rand, n int) []c28Req {
	var out []c28Req
	for i := 0; i < n; i++ {
		t := c28TimePool[r.Intn(len(c28TimePool))]
		router := []string{"incoming", "peer"}[r.Intn(2)]
		if i%2 == 0 {
			out = append(out, c28Req{Router: router, Method: "POST", Path: "/1/events/ds",
				Hdr:  map[string]string{"X-Honeycomb-Team": crossLegacyKey, "Content-Type": "application/json", "X-Honeycomb-Event-Time": t},
				Body: c28B64([]byte(`{"trace.trace_id":"t1","a":1}`))})
		} else {
			tb, _ := json.Marshal(t)
			out = append(out, c28Req{Router: router, Method: "POST", Path: "/1/batch/ds",
				Hdr:  map[string]string{"X-Honeycomb-Team": crossLegacyKey, "Content-Type": "application/json"},
				Body: c28B64([]byte(`[{"time":` + string(tb) + `,"samplerate":1,"data":{"trace.trace_id":"t2","x":1}}]`))})
		}
	}
	return out
}

func c28GenReq(r *rand.Rand) c28Req {
	q := c28Req{Router: []string{"incoming", "incoming", "peer"}[r.Intn(3)], Method: "POST", Hdr: map[string]string{}}
	if r.Intn(12) == 0 {
		q.Method = []string{"GET", "PUT", "DELETE"}[r.Intn(3)]
	}
	if r.Intn(10) > 0 {
		q.Hdr["X-Honeycomb-Team"] = []string{crossLegacyKey, crossLegacyKey2, "", "hcaik_" + strings.Repeat("0", 58), strings.Repeat("z", 64), "x"}[r.Intn(6)]
	}
	tsPool := []string{"", "1", "-1", "1535589382", "1535589382641", "15355893826411", "99999999999999999999", "1.5", "abc", "2018-08-30T00:36:22.641Z",
		"0x10", "1e400", "15355893826", "١٢٣٤٥٦٧٨٩٠١", " 1535589382", "+1535589382641", "1535589382.641", "1_000_000_000_0"}
	var body []byte
	switch r.Intn(5) {
	case 0: // single event
		q.Path = "/1/events/" + []string{"ds", "d%2Fs", "", "a b", "%zz"}[r.Intn(5)]
		q.Hdr["Content-Type"] = "application/json"
		q.Hdr["X-Honeycomb-Event-Time"] = tsPool[r.Intn(len(tsPool))]
		q.Hdr["X-Honeycomb-Samplerate"] = []string{"", "1", "0", "-5", "abc", "99999999999999999999"}[r.Intn(6)]
		body = []byte(`{"trace.trace_id":"t1","a":1,"nested":{"b":[1,2,{"c":null}]},"s":"x"}`)
	case 1: // json batch
		q.Path = "/1/batch/" + []string{"ds", "d%2Fs", ""}[r.Intn(3)]
		q.Hdr["Content-Type"] = "application/json"
		ts := tsPool[r.Intn(len(tsPool))]
		body = []byte(fmt.Sprintf(`[{"time":%q,"samplerate":%s,"data":{"trace.trace_id":"t2","trace.parent_id":"p","x":1.5,"meta.refinery.probe":%s}},{"data":{}},{"time":5,"data":{"k":"v"}}]`,
			ts, []string{"1", "0", "-1", "1e99", `"2"`, "null"}[r.Intn(6)], []string{"true", "1", `"yes"`, "null"}[r.Intn(4)]))
	case 2: // msgpack batch
		q.Path = "/1/batch/ds"
		q.Hdr["Content-Type"] = []string{"application/msgpack", "application/x-msgpack"}[r.Intn(2)]
		// [ {time: "x", samplerate: 2, data: {trace.trace_id: "t3", n: 7}} ]
		body = []byte{0x91, 0x83, 0xa4, 't', 'i', 'm', 'e', 0xa1, 'x', 0xaa, 's', 'a', 'm', 'p', 'l', 'e', 'r', 'a', 't', 'e', 0x02,
			0xa4, 'd', 'a', 't', 'a', 0x82, 0xae, 't', 'r', 'a', 'c', 'e', '.', 't', 'r', 'a', 'c', 'e', '_', 'i', 'd', 0xa2, 't', '3', 0xa1, 'n', 0x07}
	case 3: // OTLP over http
		q.Path = []string{"/v1/traces", "/v1/traces/", "/v1/logs"}[r.Intn(3)]
		q.Hdr["Content-Type"] = []string{"application/protobuf", "application/x-protobuf", "application/json", "text/plain"}[r.Intn(4)]
		q.Hdr["X-Honeycomb-Dataset"] = "ds"
		body = []byte{0x0a, 0x12, 0x0a, 0x02, 0x0a, 0x00, 0x12, 0x0c, 0x12, 0x0a, 0x0a, 0x08, 1, 2, 3, 4, 5, 6, 7, 8}
		if q.Hdr["Content-Type"] == "application/json" {
			body = []byte(`{"resourceSpans":[{"scopeSpans":[{"spans":[{"traceId":"AQIDBAUGBwgJCgsMDQ4PEA==","spanId":"AQIDBAUGBwg=","name":"n","startTimeUnixNano":"1","endTimeUnixNano":"-1"}]}]}]}`)
		}
	default: // everything else is proxied / health / query
		q.Path = []string{"/alive", "/ready", "/version", "/query/trace/abc", "/query/rules/json/ds", "/query/allrules/zzz", "/query/configmetadata", "/1/markers/ds", "/x"}[r.Intn(9)]
		if strings.HasPrefix(q.Path, "/query") {
			q.Method = "GET"
			q.Hdr["X-Honeycomb-Refinery-Query"] = []string{"", "tok", "bad"}[r.Intn(3)]
		}
		if q.Path == "/1/markers/ds" || q.Path == "/x" {
			q.Path = "/alive" // the proxy would need an upstream API; not part of this search
		}
	}
	if r.Intn(10) < 6 {
		body = c28Mutate(r, body)
	}
	switch r.Intn(8) {
	case 0:
		var zb bytes.Buffer
		zw := gzip.NewWriter(&zb)
		zw.Write(body)
		zw.Close()
		body = zb.Bytes()
		q.Hdr["Content-Encoding"] = "gzip"
		if r.Intn(2) == 0 {
			body = c28Mutate(r, body)
		}
	case 1:
		q.Hdr["Content-Encoding"] = []string{"gzip", "zstd", "br", "zstd"}[r.Intn(4)] // claimed but not applied
	}
	q.Body = c28B64(body)
	return q
}

func c28Gen(r *rand.Rand, tier string, i int) any {
	switch x := r.Intn(100); {
	case x < 15:
		return c28Input{Kind: "keyfields", Fields: c28PickFields(r)}
	case x < 25:
		return c28Input{Kind: "rulerate", Rate: c28RuleRate(r), Drop: r.Intn(4) == 0, Scope: []string{"", "trace", "span"}[r.Intn(3)]}
	case x < 40:
		in := c28Input{Kind: "detrate", Rate: c28Rates[r.Intn(len(c28Rates))]}
		for k := 0; k < 3; k++ {
			in.Tids = append(in.Tids, c17RandTid(r))
		}
		return in
	case x < 72:
		return c28Input{Kind: "config", Rules: c28Rules(r)}
	case x < 80:
		tr := map[string]any{}
		durs := []string{"1ns", "3ns", "4ns", "1us", "1ms", "100ms", "1s", "0s", "2562047h"}
		// a duration at or above the validator's minimum most of the time (so that the file is accepted)
		atLeast := func(min string) string {
			if r.Intn(5) == 0 {
				return durs[r.Intn(len(durs))]
			}
			return []string{min, min, "1h", "24h", "2562047h"}[r.Intn(5)]
		}
		if r.Intn(4) > 0 {
			tr["BatchTimeout"] = durs[r.Intn(len(durs))]
		}
		if r.Intn(3) == 0 {
			tr["SendTicker"] = durs[r.Intn(len(durs))]
		}
		if r.Intn(3) == 0 {
			tr["SendDelay"] = atLeast("100ms")
		}
		if r.Intn(3) == 0 {
			tr["MaxBatchSize"] = []int64{100, 101, 500, 1 << 31, 1 << 40, 99}[r.Intn(6)]
		}
		if r.Intn(4) == 0 {
			tr["TraceTimeout"] = []string{"1s", "60s", "1s", "2562047h", "999ms"}[r.Intn(5)]
		}
		if r.Intn(4) == 0 {
			tr["SpanLimit"] = []int64{0, 1, 2, -1, 1 << 40}[r.Intn(5)]
		}
		if r.Intn(4) == 0 {
			tr["MaxExpiredTraces"] = []int64{1000, 1000, 1001, 1 << 40, 999, 0}[r.Intn(6)]
		}
		main := map[string]any{"Traces": tr}
		pick := func(vals ...any) any { return vals[r.Intn(len(vals))] }
		if r.Intn(2) == 0 {
			c := map[string]any{}
			if r.Intn(2) == 0 {
				c["WorkerCount"] = pick(0, 1, 2, 3, 64, 257, -1)
			}
			if r.Intn(2) == 0 {
				c["IncomingQueueSize"] = pick(0, 1, -1, 3, 30000, 1<<22)
			}
			if r.Intn(2) == 0 {
				c["PeerQueueSize"] = pick(0, 1, -1, 3, 30000, 1<<22)
			}
			if r.Intn(3) == 0 {
				c["MaxAlloc"] = pick(0, 1, "1Mb", "1Gb", -1)
			}
			if r.Intn(3) == 0 {
				c["AvailableMemory"] = pick("1Mb", "4Gb", 0, 1)
				c["MaxMemoryPercentage"] = pick(10, 75, 100, 100, 9, 101)
			}
			if r.Intn(3) == 0 {
				c["HealthCheckTimeout"] = durs[r.Intn(len(durs))]
			}
			if r.Intn(3) == 0 {
				c["ShutdownDelay"] = durs[r.Intn(len(durs))]
			}
			main["Collection"] = c
		}
		if r.Intn(2) == 0 {
			c := map[string]any{}
			if r.Intn(2) == 0 {
				c["KeptSize"] = pick(0, 1, 2, 3, 10000, 1<<22)
			}
			if r.Intn(2) == 0 {
				c["DroppedSize"] = pick(0, 1, 2, 3, 10000, 1<<22)
			}
			if r.Intn(2) == 0 {
				c["SizeCheckInterval"] = atLeast("1s")
			}
			main["SampleCache"] = c
		}
		if r.Intn(2) == 0 {
			c := map[string]any{"Mode": pick("never", "always", "monitor", "always", "bogus")}
			if r.Intn(2) == 0 {
				c["ActivationLevel"] = pick(0, 1, 50, 100, 100, 90, 101)
			}
			if r.Intn(2) == 0 {
				c["DeactivationLevel"] = pick(0, 1, 50, 100, 100, 75, 101)
			}
			if r.Intn(2) == 0 {
				c["SamplingRate"] = pick(0, 1, 2, 100, int64(1)<<40, int64(1)<<62)
			}
			if r.Intn(2) == 0 {
				c["MinimumActivationDuration"] = durs[r.Intn(len(durs))]
			}
			main["StressRelief"] = c
		}
		if r.Intn(4) == 0 {
			main["General"] = map[string]any{"ConfigurationVersion": 2, "ConfigReloadInterval": durs[r.Intn(len(durs))]}
		}
		if r.Intn(4) == 0 {
			main["IDFields"] = map[string]any{"TraceNames": pick([]any{}, []any{""}, []any{"trace.trace_id", ""}, []any{"x"}), "ParentNames": pick([]any{}, []any{""}, []any{"trace.parent_id"})}
		}
		if r.Intn(4) == 0 {
			main["Specialized"] = map[string]any{"AdditionalAttributes": pick(map[string]any{}, map[string]any{"": "v"}, map[string]any{"k": ""}), "EnvironmentCacheTTL": atLeast("15m")}
		}
		return c28Input{Kind: "mainconfig", Main: main}
	default:
		in := c28Input{Kind: "requests"}
		n := 6 + r.Intn(8)
		if tier == "thorough" {
			n = 20 + r.Intn(40)
		}
		in.Reqs = append(in.Reqs, c28TimeProbes(r, 8)...)
		for k := 0; k < n; k++ {
			if r.Intn(3) == 0 {
				in.Reqs = append(in.Reqs, c28GenGrpc(r))
			} else {
				in.Reqs = append(in.Reqs, c28GenReq(r))
			}
		}
		return in
	}
}

// ---------------------------------------------------------------- child: does the dangerous work

func c28Marker(s string) {
	if f, err := os.OpenFile(os.Getenv("VERIF_C28_MARKER"), os.O_APPEND|os.O_CREATE|os.O_WRONLY, 0o644); err == nil {
		f.WriteString(s + "\n")
		f.Close()
	}
}

// c28NormNums turns the float64 that encoding/json produced for whole numbers back into int64, so that the
// YAML written for the child says `4294967296`, not `4.294967296e+09`.
func c28NormNums(v any) any {
	switch x := v.(type) {
	case map[string]any:
		out := map[string]any{}
		for k, c := range x {
			out[k] = c28NormNums(c)
		}
		return out
	case []any:
		out := make([]any, len(x))
		for i, c := range x {
			out[i] = c28NormNums(c)
		}
		return out
	case float64:
		if x == float64(int64(x)) && x > -9.2e18 && x < 9.2e18 {
			return int64(x)
		}
	}
	return v
}

func c28LoadConfig(dir string, samplers map[string]any, mainSections ...map[string]any) (config.Config, error) {
	samplers, _ = c28NormNums(samplers).(map[string]any)
	main := "General:\n  ConfigurationVersion: 2\nRefineryTelemetry:\n  AddRuleReasonToTrace: true\n"
	if len(mainSections) > 0 && mainSections[0] != nil {
		if _, ok := mainSections[0]["General"]; ok {
			main = "RefineryTelemetry:\n  AddRuleReasonToTrace: true\n"
		}
		if _, ok := mainSections[0]["Network"]; !ok {
			main += "Network:\n  ListenAddr: 127.0.0.1:0\n  PeerListenAddr: 127.0.0.1:0\n"
		}
		mb, err := yaml.Marshal(c28NormNums(mainSections[0]))
		if err != nil {
			return nil, err
		}
		main += string(mb)
	}
	rules := map[string]any{"RulesVersion": 2, "Samplers": samplers}
	rb, err := yaml.Marshal(rules)
	if err != nil {
		return nil, err
	}
	cf, rf := filepath.Join(dir, "c28_config.yaml"), filepath.Join(dir, "c28_rules.yaml")
	if err := os.WriteFile(cf, []byte(main), 0o644); err != nil {
		return nil, err
	}
	if err := os.WriteFile(rf, rb, 0o644); err != nil {
		return nil, err
	}
	cfg, err := config.NewConfig(&config.CmdEnv{ConfigLocations: []string{cf}, RulesLocations: []string{rf}})
	if cfg == nil {
		return nil, err
	}
	return cfg, nil
}

func c28Traces() []*types.Trace {
	var out []*types.Trace
	mk := func(tid string, fields ...map[string]any) *types.Trace {
		tr := &types.Trace{TraceID: tid, APIKey: crossLegacyKey, Dataset: "ds1"}
		for i, f := range fields {
			f["trace.trace_id"] = tid
			sp := &types.Span{TraceID: tid, Event: &types.Event{Dataset: "ds1", APIKey: crossLegacyKey, SampleRate: 1,
				Data: types.NewPayload(&config.MockConfig{TraceIdFieldNames: []string{"trace.trace_id"}, ParentIdFieldNames: []string{"trace.parent_id"}}, f)}}
			sp.Data.ExtractMetadata()
			if i == 0 {
				sp.IsRoot = true
				tr.RootSpan = sp
			}
			tr.AddSpan(sp)
		}
		return tr
	}
	out = append(out, mk("t-one", map[string]any{"a": "x", "http.status": 200, "service": "s", "service.name": "n", "": "empty",
		"nested": map[string]any{"b": 1, "c": map[string]any{"d": "deep"}}, "json": `{"k":{"v":2}}`},
		map[string]any{"a": 1.5, "trace.parent_id": "p", "r": true}))
	out = append(out, mk("t-two", map[string]any{"http.status": "500", "root": nil, " ": 3}))
	out = append(out, mk("", map[string]any{"x": []any{1, "a"}}))
	// ROOTLESS traces (the trace timed out / was ejected before its root arrived): RootSpan stays nil
	rootless := func(tr *types.Trace) *types.Trace {
		tr.RootSpan = nil
		for _, sp := range tr.GetSpans() {
			sp.IsRoot = false
		}
		return tr
	}
	out = append(out, rootless(mk("t-rootless", map[string]any{"a": "x", "trace.parent_id": "p1", "service": "s", "http.status": 200,
		"nested": map[string]any{"b": 1}}, map[string]any{"trace.parent_id": "p2", "service.name": "n"})))
	out = append(out, rootless(mk("t-rootless-bare", map[string]any{"trace.parent_id": "p3"})))
	return out
}

func c28BuildAndDecide(cfg config.Config, res *c28Result, tids []string) {
	f := &sample.SamplerFactory{Config: cfg, Logger: &logger.NullLogger{}, Metrics: &metrics.NullMetrics{}, Peers: peer.NewMockPeers([]string{"a"}, "a")}
	f.Start()
	keys := []string{"__default__", "ds1", "env.ds", "other"}
	for _, k := range keys {
		s := f.GetSamplerImplementationForKey(k)
		if s == nil {
			continue
		}
		res.Samplers++
		all, _ := s.GetKeyFields()
		config.GetKeyFields(all)
		if len(tids) > 0 && k == "__default__" {
			for _, t := range tids {
				rate, keep, _, _ := s.GetSampleRate(&types.Trace{TraceID: t})
				kb := int64(0)
				if keep {
					kb = 1
				}
				res.Decisions = append(res.Decisions, [2]int64{int64(rate), kb})
			}
			continue
		}
		for _, tr := range c28Traces() {
			s.GetSampleRate(tr)
		}
		// A rules-based sampler stops at the first matching rule: give EVERY rule its turn, once with its own
		// conditions as the only rule and once without conditions (so that it certainly matches).
		if sc, _ := cfg.GetSamplerConfigForDestName(k); sc != nil {
			if rc, ok := sc.(*config.RulesBasedSamplerConfig); ok {
				for _, rule := range rc.Rules {
					if rule == nil {
						continue
					}
					for variant := 0; variant < 3; variant++ {
						// 0: own conditions, nested-field lookup off; 1: own conditions, nested-field lookup on; 2: no conditions
						one := &config.RulesBasedSamplerRule{Name: rule.Name, SampleRate: rule.SampleRate, Drop: rule.Drop, Scope: rule.Scope, Sampler: rule.Sampler}
						if variant < 2 {
							one.Conditions = rule.Conditions
						}
						rs := &sample.RulesBasedSampler{Config: &config.RulesBasedSamplerConfig{Rules: []*config.RulesBasedSamplerRule{one}, CheckNestedFields: variant == 1},
							Logger: &logger.NullLogger{}, Metrics: &metrics.NullMetrics{}, SamplerFactory: f}
						if rs.Start() != nil {
							continue
						}
						res.Samplers++
						for _, tr := range c28Traces() {
							rs.GetSampleRate(tr)
						}
					}
				}
			}
		}
	}
}

func c28Child(raw json.RawMessage) (Case, error) {
	// a configuration that makes refinery allocate without bound should kill the child, not the machine
	lim := uint64(12) << 30
	syscall.Setrlimit(syscall.RLIMIT_AS, &syscall.Rlimit{Cur: lim, Max: lim})
	var in c28Input
	if err := json.Unmarshal(raw, &in); err != nil {
		return Case{}, err
	}
	dir, _ := os.Getwd()
	res := c28Result{}
	switch in.Kind {
	case "keyfields":
		samplers := map[string]any{"__default__": map[string]any{"DynamicSampler": map[string]any{"SampleRate": 2, "FieldList": in.Fields}}}
		cfg, err := c28LoadConfig(dir, samplers)
		c28Marker("loaded")
		if cfg != nil {
			res.Accepted = true
		} else if err != nil {
			res.RejectMsg = err.Error()
		}
		res.All, res.NonRoot = config.GetKeyFields(in.Fields)
		if cfg != nil {
			c28BuildAndDecide(cfg, &res, nil)
		}
	case "detrate":
		samplers := map[string]any{"__default__": map[string]any{"DeterministicSampler": map[string]any{"SampleRate": in.Rate}}}
		cfg, err := c28LoadConfig(dir, samplers)
		c28Marker("loaded")
		if cfg != nil {
			res.Accepted = true
			c28BuildAndDecide(cfg, &res, in.Tids)
		} else {
			if err != nil {
				res.RejectMsg = err.Error()
			}
			// not accepted: still run the sampler on the raw value (the model covers every int)
			d := &sample.DeterministicSampler{Config: &config.DeterministicSamplerConfig{SampleRate: int(in.Rate)}, Logger: &logger.NullLogger{}}
			d.Start()
			for _, t := range in.Tids {
				rate, keep, _, _ := d.GetSampleRate(&types.Trace{TraceID: t})
				kb := int64(0)
				if keep {
					kb = 1
				}
				res.Decisions = append(res.Decisions, [2]int64{int64(rate), kb})
			}
		}
	case "config":
		cfg, err := c28LoadConfig(dir, in.Rules)
		c28Marker("loaded")
		if cfg != nil {
			res.Accepted = true
			c28BuildAndDecide(cfg, &res, nil)
		} else if err != nil {
			res.RejectMsg = err.Error()
		}
	case "rulerate":
		rule := map[string]any{"Name": "static", "SampleRate": in.Rate}
		if in.Drop {
			rule["Drop"] = true
		}
		if in.Scope != "" {
			rule["Scope"] = in.Scope
		}
		samplers := map[string]any{"__default__": map[string]any{"RulesBasedSampler": map[string]any{"Rules": []any{rule}}}}
		cfg, err := c28LoadConfig(dir, samplers)
		c28Marker("loaded")
		if cfg != nil {
			res.Accepted = true
			c28BuildAndDecide(cfg, &res, nil)
		} else {
			if err != nil {
				res.RejectMsg = err.Error()
			}
			// not accepted: the model covers every int, so still run the sampler on the raw value
			rs := &sample.RulesBasedSampler{Config: &config.RulesBasedSamplerConfig{Rules: []*config.RulesBasedSamplerRule{{Name: "static", SampleRate: int(in.Rate), Drop: in.Drop, Scope: in.Scope}}},
				Logger: &logger.NullLogger{}, Metrics: &metrics.NullMetrics{}}
			rs.Start()
			for _, tr := range c28Traces() {
				rs.GetSampleRate(tr)
			}
		}
	case "mainconfig":
		samplers := map[string]any{"__default__": map[string]any{"DeterministicSampler": map[string]any{"SampleRate": 1}}}
		cfg, err := c28LoadConfig(dir, samplers, in.Main)
		c28Marker("loaded")
		if cfg != nil {
			res.Accepted = true
			// the two transmissions exactly as cmd/refinery/main.go builds them from the configuration
			tc := cfg.GetTracesConfig()
			mn := newCrossMemNet()
			for _, tt := range []types.TransmitType{types.TransmitTypeUpstream, types.TransmitTypePeer} {
				tx := transmit.NewDirectTransmission(tt, mn.Transport(), int(tc.GetMaxBatchSize()), time.Duration(tc.GetBatchTimeout()), 2*time.Second, false, nil)
				tx.Config, tx.Logger, tx.Metrics, tx.Version = cfg, &logger.NullLogger{}, &metrics.NullMetrics{}, "verif"
				tx.Start()
				tx.EnqueueEvent(&types.Event{Context: context.Background(), APIHost: "http://nowhere.test:80", APIKey: crossLegacyKey, Dataset: "ds",
					Data: types.NewPayload(cfg, map[string]any{"a": 1})})
				time.Sleep(20 * time.Millisecond)
				tx.Stop()
			}
			res.Samplers = 2
			// ... and a whole node (collector workers, sample caches, stress relief, routers) from the same configuration
			mn2 := newCrossMemNet()
			node, nerr := crossStartFullNode(crossFullOpts{Addr: "http://node-a:8081", PeerList: []string{"http://node-a:8081"}, Net: mn2, CfgAny: cfg, Origin: "A"})
			if nerr == nil {
				res.Samplers = 3
				for i := 0; i < 4; i++ {
					data := map[string]any{"trace.trace_id": fmt.Sprintf("t%d", i%2), "sid": i, "name": "s", "x": i}
					if i%2 == 1 {
						data["trace.parent_id"] = "p"
					}
					node.PostBatch("ds", crossLegacyKey, []crossBatchEvent{{SampleRate: 1, Data: data}})
				}
				node.WaitIdle(2 * time.Second)
				node.Stress.Recalc()
				// The collector runs on a FAKE clock: advancing it fires every tick in between, so a
				// nanosecond SendTicker must not be advanced across minutes and a 292-year one overflows the fake
				// clock's arithmetic (both would be the harness spinning, not refinery).
				step := tc.GetSendTickerValue()
				if step >= time.Millisecond && step <= time.Hour {
					for i := 0; i < 20; i++ {
						node.CollClock.Advance(step)
					}
					node.CollClock.Advance(2 * time.Minute)
				} else if step > 0 && step < time.Millisecond {
					for i := 0; i < 50; i++ {
						node.CollClock.Advance(step)
					}
				}
				time.Sleep(30 * time.Millisecond)
				node.Stop()
			} else {
				res.RejectMsg = "node start: " + nerr.Error()
			}
		} else if err != nil {
			res.RejectMsg = err.Error()
		}
	case "validate":
		cfg, err := c28LoadConfig(dir, in.Rules)
		if cfg != nil {
			res.Accepted = true
		} else if err != nil {
			res.RejectMsg = err.Error()
		}
	case "requests":
		c28Marker("loaded")
		mn := newCrossMemNet()
		var mu sync.Mutex
		var col []crossCollected
		var hops []crossHop
		cfg := crossDefaultCfg()
		cfg.QueryAuthToken = "tok"
		grpcAddr := ""
		for _, q := range in.Reqs {
			if q.Router == "grpc" {
				grpcAddr = c28FreePort()
			}
		}
		if grpcAddr != "" {
			on := config.DefaultTrue(true)
			cfg.GetGRPCEnabledVal, cfg.GetGRPCListenAddrVal = true, grpcAddr
			cfg.GetGRPCServerParameters = config.GRPCServerParameters{Enabled: &on, ListenAddr: grpcAddr,
				MaxConnectionIdle: config.Duration(time.Minute), MaxConnectionAge: config.Duration(3 * time.Minute),
				MaxConnectionAgeGrace: config.Duration(time.Minute), KeepAlive: config.Duration(time.Minute), KeepAliveTimeout: config.Duration(20 * time.Second),
				MaxSendMsgSize: config.MemorySize(15 << 20), MaxRecvMsgSize: config.MemorySize(15 << 20)}
		}
		cfg.GetSamplerTypeVal = &config.DeterministicSamplerConfig{SampleRate: 1}
		// the generic 500 body does not say that a panic was caught; the router's error log does
		rlog := &logger.MockLogger{}
		n, err := crossStartNode(crossNodeOpts{Addr: "http://node-a:8081", PeerList: []string{"http://node-a:8081", "http://node-b:8081"}, Net: mn, Cfg: cfg, RouterLog: rlog,
			Collector:  &crossRecCollector{Node: "a", mu: &mu, log: &col},
			Upstream:   &crossRecTx{Node: "a#up", mu: &mu, log: &hops},
			WrapPeerTx: func(transmitT) transmitT { return &crossRecTx{Node: "a#peer", mu: &mu, log: &hops} }})
		if err != nil {
			return Case{}, err
		}
		defer n.Stop()
		var gc *c28GrpcClient
		if grpcAddr != "" {
			if gc, err = c28DialGrpc(grpcAddr); err != nil {
				return Case{}, err
			}
			defer gc.Close()
		}
		for _, q := range in.Reqs {
			body, _ := base64.StdEncoding.DecodeString(q.Body)
			if q.Router == "grpc" {
				res.Statuses = append(res.Statuses, gc.Call(q.Path, q.Hdr, body))
				continue
			}
			var req = httptest.NewRequest(q.Method, "http://refinery.test"+c28SafePath(q.Path), bytes.NewReader(body))
			for k, v := range q.Hdr {
				req.Header.Set(k, v)
			}
			w := httptest.NewRecorder()
			if q.Router == "peer" {
				n.peerH.ServeHTTP(w, req)
			} else {
				n.inH.ServeHTTP(w, req)
			}
			res.Statuses = append(res.Statuses, w.Code)
			if w.Code == 500 && strings.Contains(w.Body.String(), "caught panic") {
				res.Caught++
			}
		}
		for _, e := range rlog.Events {
			if e != nil && fmt.Sprint(e.Fields["error.msg"]) == "caught panic" {
				res.Caught++
			}
		}
	default:
		return Case{}, fmt.Errorf("C28-child: bad kind %q", in.Kind)
	}
	c28Marker("done")
	return Case{Coq: "child", Key: "child", Summary: res}, nil
}

// httptest.NewRequest panics on an unparsable target; that would be the harness, not refinery.
func c28SafePath(p string) string {
	if strings.Contains(p, "%zz") {
		return strings.ReplaceAll(p, "%zz", "%25zz")
	}
	return strings.ReplaceAll(p, " ", "%20")
}

// ---------------------------------------------------------------- parent

func c28RunChild(raw json.RawMessage) (res c28Result, crashed, hung, loaded bool, tail string, err error) {
	exe, e := os.Executable()
	if e != nil {
		return res, false, false, false, "", e
	}
	dir, e := os.MkdirTemp(".", "c28child-")
	if e != nil {
		return res, false, false, false, "", e
	}
	defer os.RemoveAll(dir)
	inF, outF, mk := filepath.Join(dir, "in.json"), filepath.Join(dir, "out.jsonl"), filepath.Join(dir, "marker")
	wrap, _ := json.Marshal(map[string]json.RawMessage{"input": raw})
	os.WriteFile(inF, wrap, 0o644)
	ctx, cancel := context.WithTimeout(context.Background(), 25*time.Second)
	defer cancel()
	absIn, _ := filepath.Abs(inF)
	absOut, _ := filepath.Abs(outF)
	absMk, _ := filepath.Abs(mk)
	cmd := exec.CommandContext(ctx, exe, "C28-child", "--replay", absIn, "--out", absOut)
	cmd.Dir = dir
	cmd.Env = append(os.Environ(), "VERIF_C28_MARKER="+absMk, "GOTRACEBACK=single")
	var eb bytes.Buffer
	cmd.Stderr = &eb
	cmd.Stdout = &eb
	runErr := cmd.Run()
	mb, _ := os.ReadFile(mk)
	loaded = strings.Contains(string(mb), "loaded")
	if ctx.Err() == context.DeadlineExceeded {
		return res, false, true, loaded, "timeout", nil
	}
	if runErr != nil {
		t := eb.String()
		if i := strings.Index(t, "panic:"); i >= 0 {
			t = t[i:]
		}
		if len(t) > 700 {
			t = t[:700]
		}
		return res, true, false, loaded, t, nil
	}
	ob, e := os.ReadFile(outF)
	if e != nil {
		return res, true, false, loaded, "no output", nil
	}
	var c struct {
		Summary c28Result `json:"summary"`
	}
	if e := json.Unmarshal(bytes.TrimSpace(ob), &c); e != nil {
		return res, true, false, loaded, "bad output: " + e.Error(), nil
	}
	return c.Summary, false, false, loaded, "", nil
}

func c28Run(raw json.RawMessage) (Case, error) {
	var in c28Input
	if err := json.Unmarshal(raw, &in); err != nil {
		return Case{}, err
	}
	res, crashed, hung, loaded, tail, err := c28RunChild(raw)
	if err != nil {
		return Case{}, err
	}
	tags := []string{"kind:" + in.Kind}
	if res.Accepted {
		tags = append(tags, "accepted")
	}
	if crashed {
		tags = append(tags, "child-crashed")
	}
	sum := map[string]any{"kind": in.Kind, "accepted": res.Accepted, "crashed": crashed, "hung": hung}
	if tail != "" {
		sum["child_stderr"] = tail
	}
	if res.RejectMsg != "" {
		m := res.RejectMsg
		if len(m) > 300 {
			m = m[:300]
		}
		sum["rejected_because"] = m
	}
	var kind string
	nontriv := false
	switch in.Kind {
	case "keyfields":
		obs := cq.None()
		if !crashed && !hung {
			obs = cq.Some(cq.Pair(crossListPstr(res.All), crossListPstr(res.NonRoot)))
		}
		acc := res.Accepted
		if crashed && loaded {
			acc = true // the loader finished and accepted before the crash only if it said so; unknown -> see below
		}
		// the child records acceptance only in its result; after a crash re-validate without running the sampler
		if crashed || hung {
			acc = c28AcceptedOnly(in)
		}
		kind = cq.App("KKeyFields", cq.Bool(acc), crossListPstr(in.Fields), obs)
		sum["fields"] = in.Fields
		sum["accepted"] = acc
		for _, f := range in.Fields {
			if f == "" {
				nontriv = true
				tags = append(tags, "empty-field-name")
				break
			}
		}
	case "detrate":
		obs := cq.None()
		if !crashed && !hung {
			var ds []string
			for _, d := range res.Decisions {
				ds = append(ds, cq.Pair(cq.Z(d[0]), cq.Bool(d[1] == 1)))
			}
			obs = cq.Some(cq.List(ds))
		}
		acc := res.Accepted
		if crashed || hung {
			acc = c28AcceptedOnly(in)
		}
		var hs []string
		for _, t := range in.Tids {
			s := sha1.Sum([]byte(t + c28DetSalt))
			hs = append(hs, cq.Z(int64(binary.BigEndian.Uint32(s[:4]))))
		}
		// the reported rate is uint(d.sampleRate): print through Z with 2^64 wrap handled by the model
		kind = cq.App("KDetRate", cq.Bool(acc), c28Z(in.Rate), cq.List(hs), obs)
		sum["rate"] = in.Rate
		sum["accepted"] = acc
		if in.Rate > 1 && uint64(in.Rate)&0xffffffff == 0 {
			nontriv = true
			tags = append(tags, "rate-multiple-of-2^32")
		}
		if in.Rate >= 1<<32 {
			tags = append(tags, "rate>=2^32")
		}
	case "rulerate":
		acc := res.Accepted
		if crashed || hung {
			acc = c28AcceptedOnly(in)
		}
		kind = cq.App("KRuleRate", cq.Bool(acc), cq.Bool(in.Drop), c28Z(in.Rate), cq.Bool(crashed || hung))
		sum["rate"], sum["drop"], sum["scope"], sum["accepted"] = in.Rate, in.Drop, in.Scope, acc
		if in.Rate <= 0 && !in.Drop {
			nontriv = true
			tags = append(tags, "rule-rate<=0")
		}
	case "config", "mainconfig":
		acc := res.Accepted
		loadCrashed, runCrashed := false, false
		if crashed || hung {
			if loaded {
				runCrashed = true
				acc = true
			} else {
				loadCrashed = true
			}
		}
		sig := c28Signature(in.Rules, tail)
		if in.Kind == "mainconfig" {
			sig = c28MainSignature(in.Main, tail)
			sum["main"] = in.Main
		}
		kind = cq.App("KConfig", cq.Bool(acc), cq.Bool(loadCrashed), cq.Bool(runCrashed), cq.N(sig))
		sum["accepted"] = acc
		if sig != 0 {
			tags = append(tags, fmt.Sprintf("crash-signature:%d", sig))
		}
		sum["rules"] = in.Rules
		sum["samplers_built"] = res.Samplers
		nontriv = acc
	case "requests":
		kind = cq.App("KRequests", cq.Bool(crashed), cq.Bool(hung), cq.N(uint64(res.Caught)))
		sum["statuses"] = res.Statuses
		sum["requests"] = len(in.Reqs)
		nontriv = true
		hist := map[int]int{}
		for _, s := range res.Statuses {
			hist[s]++
		}
		for s := range hist {
			tags = append(tags, fmt.Sprintf("status:%d", s))
		}
	default:
		return Case{}, fmt.Errorf("C28: bad kind %q", in.Kind)
	}
	key, _ := json.Marshal(in)
	return Case{Coq: "{| c_kind := " + kind + " |}", Key: string(key), Nontriv: nontriv, Tags: tags, Summary: sum}, nil
}

// c28Signature classifies the crash of an accepted generated configuration into the narrow classes of the
// known finding: 1 = EMAThroughputSampler with 0 < AdjustmentInterval < 1ms (dynsampler-go Start error ignored, nil
// map on the first decision). Both the panic text AND the offending setting must be present; anything else is 0.
func c28Signature(rules map[string]any, stderr string) uint64 {
	if stderr == "" {
		return 0
	}
	var shortInterval bool
	var walk func(v any)
	walk = func(v any) {
		switch x := v.(type) {
		case map[string]any:
			if e, ok := x["EMAThroughputSampler"].(map[string]any); ok {
				if ai, ok := e["AdjustmentInterval"].(string); ok {
					if d, err := time.ParseDuration(ai); err == nil && d > 0 && d < time.Millisecond {
						shortInterval = true
					}
				}
			}
			for _, c := range x {
				walk(c)
			}
		case []any:
			for _, c := range x {
				walk(c)
			}
		}
	}
	walk(rules)
	switch {
	case shortInterval && strings.Contains(stderr, "assignment to entry in nil map") && strings.Contains(stderr, "dynsampler-go.(*EMAThroughput).GetSampleRateMulti"):
		return 1
	}
	return 0
}

// c28MainSignature: 2 = Traces.BatchTimeout with 0 < d < 4ns (batchTimeout/4 == 0) AND the child died with
// "non-positive interval for NewTicker" in DirectTransmission.dispatchStaleBatches; anything else 0.
func c28MainSignature(main map[string]any, stderr string) uint64 {
	tr, _ := main["Traces"].(map[string]any)
	bt, _ := tr["BatchTimeout"].(string)
	d, err := time.ParseDuration(bt)
	if err == nil && d > 0 && d < 4 && strings.Contains(stderr, "non-positive interval for NewTicker") && strings.Contains(stderr, "dispatchStaleBatches") {
		return 2
	}
	return 0
}

func c28Z(v int64) string {
	if v < 0 {
		return fmt.Sprintf("(%d)%%Z", v)
	}
	return fmt.Sprintf("%d%%Z", v)
}

// c28AcceptedOnly asks a second child to only load+validate the configuration of a case whose first
// child died, so that "accepted" is known.
func c28AcceptedOnly(in c28Input) bool {
	var samplers map[string]any
	switch in.Kind {
	case "keyfields":
		samplers = map[string]any{"__default__": map[string]any{"DynamicSampler": map[string]any{"SampleRate": 2, "FieldList": in.Fields}}}
	case "detrate":
		samplers = map[string]any{"__default__": map[string]any{"DeterministicSampler": map[string]any{"SampleRate": in.Rate}}}
	case "rulerate":
		samplers = map[string]any{"__default__": map[string]any{"RulesBasedSampler": map[string]any{"Rules": []any{map[string]any{"Name": "static", "SampleRate": in.Rate, "Drop": in.Drop}}}}}
	default:
		return false
	}
	raw, _ := json.Marshal(c28Input{Kind: "validate", Rules: samplers})
	res, crashed, hung, _, _, err := c28RunChildValidate(raw)
	return err == nil && !crashed && !hung && res.Accepted
}

func c28RunChildValidate(raw json.RawMessage) (c28Result, bool, bool, bool, string, error) {
	return c28RunChild(raw)
}

func c28Shrink(raw json.RawMessage) []json.RawMessage {
	var in c28Input
	if json.Unmarshal(raw, &in) != nil {
		return nil
	}
	var out []json.RawMessage
	emit := func(c c28Input) {
		b, _ := json.Marshal(c)
		out = append(out, b)
	}
	for i := range in.Fields {
		c := in
		c.Fields = append(append([]string{}, in.Fields[:i]...), in.Fields[i+1:]...)
		emit(c)
	}
	for i := range in.Reqs {
		c := in
		c.Reqs = append(append([]c28Req{}, in.Reqs[:i]...), in.Reqs[i+1:]...)
		emit(c)
	}
	if len(in.Tids) > 1 {
		c := in
		c.Tids = in.Tids[:1]
		emit(c)
	}
	if in.Kind == "config" {
		for k := range in.Rules {
			if len(in.Rules) > 1 {
				c := in
				c.Rules = map[string]any{}
				for k2, v := range in.Rules {
					if k2 != k {
						c.Rules[k2] = v
					}
				}
				emit(c)
			}
		}
	}
	return out
}
