package drive

// Light sequential driver around the REAL InMemCollector, shared by C04 / C05 / C06 (family coll2).
// The collector is started normally; its worker goroutines are parked through their own pause channel
// (hook VerifC04Park) and processSpan / sendExpiredTracesInCache / sendTracesEarly / reloadConfigs /
// ProcessSpanImmediately are then called one at a time. The sendTraces goroutine stays live and is
// awaited with a marker trace pushed through the real tracesToSend channel.
//
// Oracles handed to the Coq model are the values the real components returned: the trace sampler's
// decision comes from a second sampler instance built from the same configuration (rules keyed on a span
// field, with "keep rate 1", "drop" and downstream DeterministicSamplers, all pure functions of the
// trace id), the stress decision from the collector's own StressRelief.GetSampleRate.

import (
	"encoding/json"
	"fmt"
	"os"
	"sort"
	"strings"
	"sync"
	"time"

	"github.com/honeycombio/refinery/collect"
	"github.com/honeycombio/refinery/config"
	"github.com/honeycombio/refinery/internal/health"
	"github.com/honeycombio/refinery/internal/peer"
	"github.com/honeycombio/refinery/logger"
	"github.com/honeycombio/refinery/metrics"
	"github.com/honeycombio/refinery/pubsub"
	"github.com/honeycombio/refinery/sample"
	"github.com/honeycombio/refinery/sharder"
	"github.com/honeycombio/refinery/types"
	cq "github.com/honeycombio/refinery/verifharness/coqfmt"
	"github.com/jonboulle/clockwork"
	"go.opentelemetry.io/otel/trace/noop"
)

type c2Span struct {
	ID   int    `json:"id"`
	Tid  int    `json:"tid"`
	Rate uint64 `json:"rate,omitempty"` // client sample rate, 0 = absent
	Root bool   `json:"root,omitempty"`
	Ann  int    `json:"ann,omitempty"` // 0 span, 1 span_event, 2 link
}
type c2Cfg struct {
	Dry       bool     `json:"dry,omitempty"`
	Reason    bool     `json:"reason,omitempty"`
	SpanCount bool     `json:"spancount,omitempty"`
	Counts    bool     `json:"counts,omitempty"`
	HostMeta  bool     `json:"hostmeta,omitempty"`
	Attrs     [][2]int `json:"attrs,omitempty"` // (key index, value index)
}
type c2Op struct {
	Op string  `json:"op"` // span stress decide eject reload
	S  *c2Span `json:"s,omitempty"`
	C  *c2Cfg  `json:"c,omitempty"`
}
type c2Trace struct {
	Class  string `json:"class"`            // keep1 drop bare det2 det10 det100 det65536 other
	Want   string `json:"want,omitempty"`   // keep | drop | "" : wanted trace-sampler decision (det classes)
	Stress string `json:"stress,omitempty"` // keep | drop | "" : wanted stress decision
	Pre    int    `json:"pre,omitempty"`    // 1..3: use a precomputed id that stress relief keeps at rates up to 2^37
}
type c2Input struct {
	Cfg        c2Cfg     `json:"cfg"`
	StressRate uint64    `json:"stress_rate"`
	Workers    int       `json:"workers"`
	Traces     []c2Trace `json:"traces"`
	Ops        []c2Op    `json:"ops"`
}

// ids whose wyhash(id, stress hashSeed) is below 2^31: kept by StressRelief for every SamplingRate <= 2^37
// (found once by exhaustive search, see notes/C04.md)
var c2PreIDs = []string{"verif-stress-4baeb37", "verif-stress-4df47eq", "verif-stress-6hnk5tc"}

var c2DetRates = map[string]int{"det2": 2, "det10": 10, "det100": 100, "det65536": 65536}

// ---- configuration: MockConfig plus independently switchable decoration options
type c2Config struct {
	*config.MockConfig
	mu     sync.RWMutex
	cur    c2Cfg
	stress uint64
}

func (c *c2Config) get() c2Cfg { c.mu.RLock(); defer c.mu.RUnlock(); return c.cur }
func (c *c2Config) set(n c2Cfg) { c.mu.Lock(); c.cur = n; c.mu.Unlock() }

func (c *c2Config) GetIsDryRun() bool               { return c.get().Dry }
func (c *c2Config) GetAddRuleReasonToTrace() bool   { return c.get().Reason }
func (c *c2Config) GetAddSpanCountToRoot() bool     { return c.get().SpanCount }
func (c *c2Config) GetAddCountsToRoot() bool        { return c.get().Counts }
func (c *c2Config) GetAddHostMetadataToTrace() bool { return c.get().HostMeta }
func (c *c2Config) GetAdditionalAttributes() map[string]string {
	m := map[string]string{}
	for _, kv := range c.get().Attrs {
		m[fmt.Sprintf("vattr.k%d", kv[0])] = fmt.Sprintf("v%d", kv[1])
	}
	return m
}
func (c *c2Config) GetStressReliefConfig() config.StressReliefConfig {
	c.mu.RLock()
	defer c.mu.RUnlock()
	return config.StressReliefConfig{Mode: "never", ActivationLevel: 90, DeactivationLevel: 75, SamplingRate: c.stress}
}

func c2Rules() *config.RulesBasedSamplerConfig {
	cond := func(v string) []*config.RulesBasedSamplerCondition {
		return []*config.RulesBasedSamplerCondition{{Field: "cls", Operator: config.EQ, Value: v}}
	}
	r := &config.RulesBasedSamplerConfig{Rules: []*config.RulesBasedSamplerRule{
		{Name: "keep one", SampleRate: 1, Conditions: cond("keep1")},
		{Name: "drop it", Drop: true, Conditions: cond("drop")},
		// a "bare" rule: matches, but has no SampleRate, no Drop and no downstream sampler (rate 0: never kept)
		{Name: "bare rule", Conditions: cond("bare")},
	}}
	for _, k := range []string{"det2", "det10", "det100", "det65536"} {
		r.Rules = append(r.Rules, &config.RulesBasedSamplerRule{Name: k, Conditions: cond(k),
			Sampler: &config.RulesBasedDownstreamSampler{DeterministicSampler: &config.DeterministicSamplerConfig{SampleRate: c2DetRates[k]}}})
	}
	return r
}

// ---- transmission double: records forwarded spans, recognises the marker
const c2MarkerID = "verif-coll2-marker"

type c2Tx struct {
	mu     sync.Mutex
	spans  []*types.Span
	marker chan struct{}
}

func (t *c2Tx) EnqueueEvent(ev *types.Event) {}
func (t *c2Tx) EnqueueSpan(sp *types.Span) {
	if sp.TraceID == c2MarkerID {
		t.marker <- struct{}{}
		return
	}
	t.mu.Lock()
	t.spans = append(t.spans, sp)
	t.mu.Unlock()
}
func (t *c2Tx) take() []*types.Span {
	t.mu.Lock()
	defer t.mu.Unlock()
	s := t.spans
	t.spans = nil
	return s
}

type c2Env struct {
	conf     *c2Config
	coll     *collect.InMemCollector
	tx       *c2Tx
	clock    *clockwork.FakeClock
	oracle   sample.Sampler
	stress   *collect.StressRelief
	resume   func()
	hostname string
	stops    []func()
}

func c2NewEnv(in *c2Input) (*c2Env, error) {
	workers := in.Workers
	if workers < 1 {
		workers = 1
	}
	mock := &config.MockConfig{
		GetTracesConfigVal: config.TracesConfig{
			SendTicker:       config.Duration(time.Hour),
			SendDelay:        config.Duration(time.Second),
			TraceTimeout:     config.Duration(60 * time.Second),
			MaxBatchSize:     500,
			MaxExpiredTraces: 100000,
		},
		SampleCache:        config.SampleCacheConfig{KeptSize: 10000, DroppedSize: 100000, SizeCheckInterval: config.Duration(time.Hour)},
		GetSamplerTypeVal:  c2Rules(),
		TraceIdFieldNames:  []string{"trace.trace_id"},
		ParentIdFieldNames: []string{"trace.parent_id"},
		GetCollectionConfigVal: config.CollectionConfig{
			WorkerCount: workers, ShutdownDelay: config.Duration(time.Millisecond), IncomingQueueSize: 16, PeerQueueSize: 16,
		},
	}
	conf := &c2Config{MockConfig: mock, cur: in.Cfg, stress: in.StressRate}
	clock := clockwork.NewFakeClockAt(time.Unix(1_700_000_000, 0))
	met := &metrics.MockMetrics{}
	met.Start()
	hr := &health.Health{Clock: clock}
	hr.Start()
	ps := &pubsub.LocalPubSub{Config: conf, Metrics: met}
	ps.Start()
	sf := &sample.SamplerFactory{Config: conf, Metrics: met, Logger: &logger.NullLogger{}}
	if err := sf.Start(); err != nil {
		return nil, err
	}
	osf := &sample.SamplerFactory{Config: conf, Metrics: &metrics.NullMetrics{}, Logger: &logger.NullLogger{}}
	if err := osf.Start(); err != nil {
		return nil, err
	}
	sr := &collect.StressRelief{Config: conf, Logger: &logger.NullLogger{}, RefineryMetrics: met, Health: hr}
	tx := &c2Tx{marker: make(chan struct{}, 4)}
	coll := &collect.InMemCollector{
		TestMode: true, Config: conf, Clock: clock, Logger: &logger.NullLogger{},
		Tracer: noop.NewTracerProvider().Tracer("verif"), Health: hr,
		Transmission: tx, PeerTransmission: &c2Tx{marker: make(chan struct{}, 4)},
		PubSub: ps, Metrics: met, StressRelief: sr, SamplerFactory: sf,
		Peers:   peer.NewMockPeers([]string{"api1"}, "api1"),
		Sharder: &sharder.MockSharder{Self: &sharder.TestShard{Addr: "api1"}},
	}
	if err := coll.Start(); err != nil {
		return nil, err
	}
	env := &c2Env{conf: conf, coll: coll, tx: tx, clock: clock, stress: sr}
	env.resume = coll.VerifC04Park()
	env.oracle = osf.GetSamplerImplementationForKey("env")
	env.hostname, _ = os.Hostname()
	env.stops = []func(){func() { coll.Stop() }, func() { hr.Stop() }, func() { ps.Stop() }, func() { sf.Stop() }, func() { osf.Stop() }}
	return env, nil
}

func (e *c2Env) close() {
	e.resume()
	for _, f := range e.stops {
		f()
	}
}

func (e *c2Env) payload(fields map[string]any) types.Payload {
	return types.NewPayload(e.conf, fields)
}

// the trace sampler's answer for a trace of the given class and id (second instance, same configuration)
func (e *c2Env) sampler(class, id string) (uint, bool, string) {
	tr := &types.Trace{TraceID: id}
	tr.AddSpan(&types.Span{TraceID: id, Event: &types.Event{Data: e.payload(map[string]any{"cls": class})}})
	rate, keep, reason, _ := e.oracle.GetSampleRate(tr)
	return rate, keep, reason
}

var (
	c2IDMu    sync.Mutex
	c2IDCache = map[string]string{}
)

// pick a trace id for trace number i whose real decisions match what the input asks for
func (e *c2Env) pickID(i int, t c2Trace, stressRate uint64) (string, error) {
	if t.Pre >= 1 && t.Pre <= len(c2PreIDs) {
		return c2PreIDs[t.Pre-1], nil
	}
	key := fmt.Sprintf("%d|%s|%s|%s|%d", i, t.Class, t.Want, t.Stress, stressRate)
	c2IDMu.Lock()
	defer c2IDMu.Unlock()
	if id, ok := c2IDCache[key]; ok {
		return id, nil
	}
	for n := 0; n < 3_000_000; n++ {
		id := fmt.Sprintf("c2-%d-%d", i, n)
		if t.Want != "" {
			if _, keep, _ := e.sampler(t.Class, id); keep != (t.Want == "keep") {
				continue
			}
		}
		if t.Stress != "" {
			if _, keep, _ := e.stress.GetSampleRate(id); keep != (t.Stress == "keep") {
				continue
			}
		}
		c2IDCache[key] = id
		return id, nil
	}
	return "", fmt.Errorf("no trace id found for %+v at stress rate %d", t, stressRate)
}

func c2CfgCoq(c c2Cfg) string {
	var as []string
	attrs := append([][2]int{}, c.Attrs...)
	sort.Slice(attrs, func(a, b int) bool { return attrs[a][0] < attrs[b][0] })
	for _, kv := range attrs {
		as = append(as, cq.Pair(cq.N(uint64(kv[0])), cq.N(uint64(kv[1]))))
	}
	return fmt.Sprintf("{| c_dry := %s; c_reason := %s; c_spancount := %s; c_counts := %s; c_hostmeta := %s; c_attrs := %s |}",
		cq.Bool(c.Dry), cq.Bool(c.Reason), cq.Bool(c.SpanCount), cq.Bool(c.Counts), cq.Bool(c.HostMeta), cq.List(as))
}

func c2SpanCoq(s c2Span) string {
	return fmt.Sprintf("{| s_id := %s; s_tid := %s; s_rate := %s; s_root := %s; s_ann := %s |}",
		cq.N(uint64(s.ID)), cq.N(uint64(s.Tid)), cq.N(s.Rate), cq.Bool(s.Root), cq.N(uint64(s.Ann%3)))
}

func c2Int(v any) (int64, error) {
	switch x := v.(type) {
	case nil:
		return 0, nil
	case int64:
		return x, nil
	case int:
		return int64(x), nil
	case uint:
		return int64(x), nil
	case uint64:
		return int64(x), nil
	}
	return 0, fmt.Errorf("unexpected numeric field type %T", v)
}

// one forwarded span as a Gallina [out]
func (e *c2Env) outCoq(sp *types.Span) (int64, string, error) {
	sid, err := c2Int(sp.Data.Get("sid"))
	if err != nil {
		return 0, "", err
	}
	geti := func(k string) int64 {
		v, er := c2Int(sp.Data.Get(k))
		if er != nil && err == nil {
			err = er
		}
		return v
	}
	final := geti(types.MetaRefineryFinalSampleRate)
	orig := geti(types.MetaRefineryOriginalSampleRate)
	sc, ec := geti(types.MetaSpanCount), geti(types.MetaEventCount)
	sev, lk := geti(types.MetaSpanEventCount), geti(types.MetaSpanLinkCount)
	if orig < 0 || sc < 0 || ec < 0 || sev < 0 || lk < 0 {
		return 0, "", fmt.Errorf("negative count field")
	}
	dry := cq.None()
	if v := sp.Data.Get(config.DryRunFieldName); v != nil {
		b, ok := v.(bool)
		if !ok {
			return 0, "", fmt.Errorf("dry run field has type %T", v)
		}
		dry = cq.Some(cq.Bool(b))
	}
	dryrate := cq.None()
	if v := sp.Data.Get("meta.dryrun.sample_rate"); v != nil {
		u, ok := v.(uint)
		if !ok {
			return 0, "", fmt.Errorf("meta.dryrun.sample_rate has type %T", v)
		}
		dryrate = cq.Some(cq.N(uint64(u)))
	}
	reason, _ := sp.Data.Get(types.MetaRefineryReason).(string)
	host := false
	if v := sp.Data.Get(types.MetaRefineryLocalHostname); v != nil {
		if s, _ := v.(string); s != e.hostname {
			return 0, "", fmt.Errorf("local_hostname %q is not this host (%q)", s, e.hostname)
		}
		host = true
	}
	stressed, _ := sp.Data.Get(types.MetaStressed).(bool)
	var attrs []string
	for k := 0; k < 4; k++ {
		if v := sp.Data.Get(fmt.Sprintf("vattr.k%d", k)); v != nil {
			var j int
			if _, er := fmt.Sscanf(fmt.Sprint(v), "v%d", &j); er != nil {
				return 0, "", fmt.Errorf("attribute value %v", v)
			}
			attrs = append(attrs, cq.Pair(cq.N(uint64(k)), cq.N(uint64(j))))
		}
	}
	if err != nil {
		return 0, "", err
	}
	s := fmt.Sprintf("{| o_sid := %s; o_rate := %s; o_final := %s; o_orig := %s; o_dry := %s; o_dryrate := %s; o_reason := %s; o_host := %s; o_stressed := %s; o_spancount := %s; o_eventcount := %s; o_sevcount := %s; o_linkcount := %s; o_attrs := %s |}",
		cq.N(uint64(sid)), cq.N(uint64(sp.SampleRate)), cq.Z(final), cq.N(uint64(orig)), dry, dryrate, cq.Str(reason),
		cq.Bool(host), cq.Bool(stressed), cq.N(uint64(sc)), cq.N(uint64(ec)), cq.N(uint64(sev)), cq.N(uint64(lk)), cq.List(attrs))
	return sid, s, nil
}

type c2Result struct {
	Coq     string
	OpsText []string
	Human   []string
	Tags    map[string]bool
	NOut    int
	Late, StressOut, OnTime int
}

// run one input on the real collector; the Gallina term is a Monitor.Coll2 case
func c2RunInput(in *c2Input) (*c2Result, error) {
	env, err := c2NewEnv(in)
	if err != nil {
		return nil, err
	}
	defer env.close()
	res := &c2Result{Tags: map[string]bool{}}
	ids := make([]string, len(in.Traces))
	var decs, sdecs []string
	for i, t := range in.Traces {
		id, err := env.pickID(i, t, in.StressRate)
		if err != nil {
			return nil, err
		}
		ids[i] = id
		rate, keep, reason := env.sampler(t.Class, id)
		decs = append(decs, cq.Pair(cq.N(uint64(i)), cq.Pair(cq.Pair(cq.N(uint64(rate)), cq.Bool(keep)), cq.Str(reason))))
		srate, skeep, sreason := env.stress.GetSampleRate(id)
		sdecs = append(sdecs, cq.Pair(cq.N(uint64(i)), cq.Pair(cq.Pair(cq.N(uint64(srate)), cq.Bool(skeep)), cq.Str(sreason))))
	}
	mkSpan := func(s *c2Span) (*types.Span, error) {
		if s == nil || s.Tid < 0 || s.Tid >= len(in.Traces) {
			return nil, fmt.Errorf("span refers to unknown trace")
		}
		fields := map[string]any{"sid": int64(s.ID), "cls": in.Traces[s.Tid].Class}
		if !s.Root {
			fields["trace.parent_id"] = "p"
		}
		p := env.payload(fields)
		p.MetaAnnotationType = []string{"", "span_event", "link"}[s.Ann%3]
		return &types.Span{TraceID: ids[s.Tid], IsRoot: s.Root,
			Event: &types.Event{APIKey: "c2key0123456789abcdef0", Dataset: "ds", Environment: "env", SampleRate: uint(s.Rate), Data: p}}, nil
	}
	var ops, obs []string
	markerN := 0
	flush := func() error {
		markerN++
		m := &types.Span{TraceID: c2MarkerID, Event: &types.Event{Data: env.payload(map[string]any{"sid": int64(-1)})}}
		env.coll.VerifC04Marker(m)
		select {
		case <-env.tx.marker:
			return nil
		case <-time.After(20 * time.Second):
			return fmt.Errorf("sendTraces goroutine did not reach the marker")
		}
	}
	for _, o := range in.Ops {
		var text string
		switch o.Op {
		case "span":
			sp, err := mkSpan(o.S)
			if err != nil {
				return nil, err
			}
			env.coll.VerifC04ProcessSpan(sp)
			text = cq.App("Span", c2SpanCoq(*o.S))
		case "stress":
			sp, err := mkSpan(o.S)
			if err != nil {
				return nil, err
			}
			env.coll.ProcessSpanImmediately(sp)
			text = cq.App("Stress", c2SpanCoq(*o.S))
			res.Tags["stress"] = true
		case "decide":
			env.coll.VerifC04Tick(env.clock.Now().Add(24 * time.Hour))
			if err := flush(); err != nil {
				return nil, err
			}
			text = "Decide"
		case "eject":
			env.coll.VerifC04SendEarly(1 << 40)
			if err := flush(); err != nil {
				return nil, err
			}
			text = "Decide"
			res.Tags["eject"] = true
		case "reload":
			if o.C == nil {
				return nil, fmt.Errorf("reload without config")
			}
			if o.C.Dry != env.conf.get().Dry {
				res.Tags["dryrun-toggled-by-reload"] = true
			}
			env.conf.set(*o.C)
			env.coll.VerifC04Reload()
			text = cq.App("Reload", c2CfgCoq(*o.C))
			res.Tags["reload"] = true
		default:
			return nil, fmt.Errorf("bad op %q", o.Op)
		}
		got := env.tx.take()
		type kv struct {
			sid int64
			s   string
		}
		var outs []kv
		for _, sp := range got {
			sid, s, err := env.outCoq(sp)
			if err != nil {
				return nil, err
			}
			outs = append(outs, kv{sid, s})
		}
		sort.SliceStable(outs, func(a, b int) bool { return outs[a].sid < outs[b].sid })
		var ss []string
		for _, x := range outs {
			ss = append(ss, x.s)
		}
		res.NOut += len(ss)
		switch o.Op {
		case "span":
			res.Late += len(ss)
		case "stress":
			res.StressOut += len(ss)
		default:
			res.OnTime += len(ss)
		}
		ops = append(ops, text)
		obs = append(obs, cq.List(ss))
		if len(res.Human) < 80 {
			h := text
			if len(h) > 120 {
				h = h[:120]
			}
			res.Human = append(res.Human, fmt.Sprintf("%s -> %d span(s) forwarded", h, len(ss)))
		}
	}
	res.OpsText = ops
	res.Coq = fmt.Sprintf("{| c_cfg := %s; c_dec := %s; c_sdec := %s; c_ops := %s; c_obs := %s |}",
		c2CfgCoq(in.Cfg), cq.List(decs), cq.List(sdecs), cq.List(ops), cq.List(obs))
	return res, nil
}

func c2Key(in *c2Input, res *c2Result) string {
	b, _ := json.Marshal(in.Cfg)
	return fmt.Sprintf("%s|%d|%s", b, in.StressRate, strings.Join(res.OpsText, ";"))
}

// generic shrinker: drop chunks of operations, then single operations
func c2Shrink(raw json.RawMessage) []json.RawMessage {
	var in c2Input
	if json.Unmarshal(raw, &in) != nil {
		return nil
	}
	var out []json.RawMessage
	n := len(in.Ops)
	for chunk := n / 2; chunk >= 1; chunk /= 2 {
		for i := 0; i+chunk <= n; i += chunk {
			c := in
			c.Ops = append(append([]c2Op{}, in.Ops[:i]...), in.Ops[i+chunk:]...)
			b, _ := json.Marshal(c)
			out = append(out, b)
		}
		if chunk == 1 {
			break
		}
	}
	if in.Workers > 1 {
		c := in
		c.Workers = 1
		b, _ := json.Marshal(c)
		out = append(out, b)
	}
	return out
}
