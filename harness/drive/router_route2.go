package drive

// Family route2: one real route.Router wired to two real transmit.DirectTransmission instances that
// post to a fake Honeycomb / fake peer HTTP endpoint, plus a scriptable collector and sharder.
// Used by the C20 and C19 drivers.

import (
	"bytes"
	"context"
	"fmt"
	"io"
	"net/http"
	"net/http/httptest"
	"strings"
	"sync"
	"time"

	"github.com/gorilla/mux"
	huskyotlp "github.com/honeycombio/husky/otlp"
	"github.com/klauspost/compress/zstd"
	"github.com/honeycombio/refinery/config"
	"github.com/honeycombio/refinery/logger"
	"github.com/honeycombio/refinery/metrics"
	"github.com/honeycombio/refinery/route"
	"github.com/honeycombio/refinery/sharder"
	"github.com/honeycombio/refinery/transmit"
	"github.com/honeycombio/refinery/types"
)

// ---- fake Honeycomb / peer endpoint (one server for the whole process, requests tagged by path prefix)
type r2Request struct {
	Prefix  string // "hny" or "peer"
	Path    string // rest of the path, e.g. /1/batch/ds
	APIKey  string
	Body    []byte
	Headers http.Header
}

type r2Sink struct {
	mu   sync.Mutex
	reqs map[string][]r2Request // by run id (first path element)
	fail map[string]*r2Fail     // by "<run>/1/batch/<dataset>"
}

type r2Fail struct {
	remaining, seen int
	status          int
	retryAfter      string
}

var r2Zstd, _ = zstd.NewReader(nil)

var (
	r2Once   sync.Once
	r2Server *httptest.Server
	r2Store  = &r2Sink{reqs: map[string][]r2Request{}, fail: map[string]*r2Fail{}}
	r2RunSeq int
)

func r2ServerURL() string {
	r2Once.Do(func() {
		r2Server = httptest.NewServer(http.HandlerFunc(func(w http.ResponseWriter, req *http.Request) {
			body, _ := io.ReadAll(req.Body)
			if req.Header.Get("Content-Encoding") == "zstd" {
				if dec, err := r2Zstd.DecodeAll(body, nil); err == nil {
					body = dec
				}
			}
			// path: /<run>/<prefix>/1/batch/<dataset>
			parts := strings.SplitN(strings.TrimPrefix(req.URL.EscapedPath(), "/"), "/", 3)
			if len(parts) < 3 {
				w.WriteHeader(404)
				return
			}
			// scripted refusals (429 / 503 + Retry-After) for the delivery scenarios
			r2Store.mu.Lock()
			if f := r2Store.fail[parts[0]+"/"+parts[2]]; f != nil && f.remaining > 0 {
				f.remaining--
				f.seen++
				status, ra := f.status, f.retryAfter
				r2Store.mu.Unlock()
				w.Header().Set("Retry-After", ra)
				w.WriteHeader(status)
				return
			}
			r2Store.mu.Unlock()
			r2Store.mu.Lock()
			r2Store.reqs[parts[0]] = append(r2Store.reqs[parts[0]], r2Request{Prefix: parts[1], Path: "/" + parts[2],
				APIKey: req.Header.Get("X-Honeycomb-Team"), Body: body, Headers: req.Header.Clone()})
			r2Store.mu.Unlock()
			// answer like the batch API: one status per event
			n := 0
			if v, _, err := mpDecode(body); err == nil && v.T == "arr" {
				n = len(v.A)
			}
			var sb strings.Builder
			sb.WriteByte('[')
			for i := 0; i < n; i++ {
				if i > 0 {
					sb.WriteByte(',')
				}
				sb.WriteString(`{"status":202}`)
			}
			sb.WriteByte(']')
			w.Header().Set("Content-Type", "application/json")
			w.WriteHeader(200)
			io.WriteString(w, sb.String())
		}))
	})
	return r2Server.URL
}

// ---- scriptable collector
type r2Collector struct {
	stressed  bool
	processed bool // result of ProcessSpanImmediately
	kept      bool
	full      bool // AddSpan reports a full queue
	log       *[]r2Sunk
}

type r2Sunk struct {
	Sink string // collector | collector-peer | stress | upstream | peer
	Ev   *types.Event
	Span *types.Span
	Snap r2Snapshot // deep copy of the observable attributes at the moment of the call
}

type r2Snapshot struct {
	APIHost, APIKey, Dataset, Environment string
	SampleRate                            uint
	TimeSec                               int64
	TimeNsec                              int64
	Data                                  []byte // MarshalMsg of the payload at that moment
	TraceID                               string
	IsRoot                                bool
}

func r2Snap(ev *types.Event) r2Snapshot {
	data, _ := ev.Data.MarshalMsg(nil)
	return r2Snapshot{APIHost: ev.APIHost, APIKey: ev.APIKey, Dataset: ev.Dataset, Environment: ev.Environment,
		SampleRate: ev.SampleRate, TimeSec: ev.Timestamp.Unix(), TimeNsec: int64(ev.Timestamp.Nanosecond()), Data: data}
}

func (c *r2Collector) add(sink string, sp *types.Span) {
	s := r2Snap(sp.Event)
	s.TraceID, s.IsRoot = sp.TraceID, sp.IsRoot
	*c.log = append(*c.log, r2Sunk{Sink: sink, Ev: sp.Event, Span: sp, Snap: s})
}
func (c *r2Collector) AddSpan(sp *types.Span) error {
	if c.full {
		return fmt.Errorf("collector queue full")
	}
	c.add("collector", sp)
	return nil
}
func (c *r2Collector) AddSpanFromPeer(sp *types.Span) error {
	if c.full {
		return fmt.Errorf("collector queue full")
	}
	c.add("collector-peer", sp)
	return nil
}
func (c *r2Collector) Stressed() bool { return c.stressed }
func (c *r2Collector) GetStressedSampleRate(string) (uint, bool, string) {
	return 1, c.kept, "verif"
}
func (c *r2Collector) ProcessSpanImmediately(sp *types.Span) (bool, bool) {
	if c.processed {
		c.add("stress", sp)
	}
	return c.processed, c.kept
}

// ---- transmission wrapper: logs the call, then hands the event to the real DirectTransmission
type r2Transmission struct {
	name  string
	inner *transmit.DirectTransmission
	log   *[]r2Sunk
}

func (t *r2Transmission) EnqueueEvent(ev *types.Event) {
	*t.log = append(*t.log, r2Sunk{Sink: t.name, Ev: ev, Snap: r2Snap(ev)})
	t.inner.EnqueueEvent(ev)
}
func (t *r2Transmission) EnqueueSpan(sp *types.Span) { t.EnqueueEvent(sp.Event) }

// ---- the environment of one run
type r2Env struct {
	Run       string
	Cfg       *config.MockConfig
	Router    *route.Router
	Collector *r2Collector
	Upstream  *r2Transmission
	Peer      *r2Transmission
	Log       []r2Sunk
	HnyURL    string
	PeerURL   string
}

type r2Options struct {
	TraceNames, ParentNames, KeyFields []string
	Incoming                           bool
	PeerTraceIDs                       []string
	Stressed, Processed, Kept, Full    bool
}

var r2Transport = &http.Transport{MaxIdleConnsPerHost: 8}

func r2NewEnv(o r2Options) (*r2Env, error) {
	base := r2ServerURL()
	r2RunSeq++
	e := &r2Env{Run: fmt.Sprintf("run%d", r2RunSeq)}
	e.HnyURL = base + "/" + e.Run + "/hny"
	e.PeerURL = base + "/" + e.Run + "/peer"
	e.Cfg = &config.MockConfig{
		TraceIdFieldNames:  o.TraceNames,
		ParentIdFieldNames: o.ParentNames,
		GetHoneycombAPIVal: e.HnyURL,
		GetSamplerTypeVal:  &config.DynamicSamplerConfig{FieldList: o.KeyFields, SampleRate: 1},
	}
	e.Collector = &r2Collector{stressed: o.Stressed, processed: o.Processed, kept: o.Kept, full: o.Full, log: &e.Log}
	mk := func(tt types.TransmitType) *transmit.DirectTransmission {
		d := transmit.NewDirectTransmission(tt, r2Transport, 1000, time.Hour, 10*time.Second, false, nil)
		d.Config, d.Logger, d.Metrics, d.Version = e.Cfg, &logger.NullLogger{}, &metrics.NullMetrics{}, "verif"
		return d
	}
	e.Upstream = &r2Transmission{name: "upstream", inner: mk(types.TransmitTypeUpstream), log: &e.Log}
	e.Peer = &r2Transmission{name: "peer", inner: mk(types.TransmitTypePeer), log: &e.Log}
	if err := e.Upstream.inner.Start(); err != nil {
		return nil, err
	}
	if err := e.Peer.inner.Start(); err != nil {
		return nil, err
	}
	e.Router = &route.Router{
		Config:               e.Cfg,
		Logger:               &logger.NullLogger{},
		UpstreamTransmission: e.Upstream,
		PeerTransmission:     e.Peer,
		Sharder: &sharder.MockSharder{
			Self:  &sharder.TestShard{Addr: base + "/" + e.Run + "/self"},
			Other: &sharder.TestShard{Addr: e.PeerURL, TraceIDs: o.PeerTraceIDs},
		},
		Collector: e.Collector,
		Metrics:   &metrics.NullMetrics{},
	}
	if o.Incoming {
		e.Router.SetType(types.RouterTypeIncoming)
	} else {
		e.Router.SetType(types.RouterTypePeer)
	}
	if err := e.Router.VerifC20Prepare(); err != nil {
		return nil, err
	}
	return e, nil
}

// Post sends one request to the real handler (no network on the ingest side).
func (e *r2Env) Post(kind, dataset, contentType, apiKey, userAgent string, hdr map[string]string, body []byte) (int, []byte) {
	req := httptest.NewRequest("POST", "/1/"+kind+"/"+dataset, bytes.NewReader(body))
	req = mux.SetURLVars(req, map[string]string{"datasetName": dataset})
	if contentType != "" {
		req.Header.Set("Content-Type", contentType)
	}
	req.Header.Set("X-Honeycomb-Team", apiKey)
	if userAgent != "" {
		req.Header.Set("User-Agent", userAgent)
	}
	for k, v := range hdr {
		req.Header.Set(k, v)
	}
	w := httptest.NewRecorder()
	if kind == "events" {
		e.Router.VerifC20Event(w, req)
	} else {
		e.Router.VerifC20Batch(w, req)
	}
	return w.Code, w.Body.Bytes()
}

// PostOTLPMsgp hands msgpack attribute maps to the router the way the OTLP handlers do after husky's
// translation (processOTLPRequestBatchMsgp).
func (e *r2Env) PostOTLPMsgp(dataset, apiKey, userAgent string, attrs [][]byte, times []time.Time, rates []int32) error {
	b := huskyotlp.BatchMsgp{Dataset: dataset}
	for i := range attrs {
		b.Events = append(b.Events, huskyotlp.EventMsgp{Attributes: attrs[i], Timestamp: times[i], SampleRate: rates[i]})
	}
	return e.Router.VerifC20OTLPBatchMsgp(context.Background(), []huskyotlp.BatchMsgp{b}, apiKey, userAgent)
}

// Finish flushes both transmissions (Stop sends every pending batch and waits) and returns what the
// fake endpoints received in this run.
func (e *r2Env) Finish() []r2Request {
	e.Upstream.inner.Stop()
	e.Peer.inner.Stop()
	r2Store.mu.Lock()
	defer r2Store.mu.Unlock()
	out := r2Store.reqs[e.Run]
	delete(r2Store.reqs, e.Run)
	return out
}

// one event of a received batch
type r2Received struct {
	Prefix, Dataset, APIKey string
	TimeSec                 int64
	TimeNsec                uint32
	HasTime                 bool
	SampleRate              mpVal
	Data                    []mpField
	Raw                     mpVal
}

// r2DecodeBatches decodes every received body with the harness's own decoder.
func r2DecodeBatches(reqs []r2Request) ([]r2Received, error) {
	var out []r2Received
	for _, rq := range reqs {
		v, rest, err := mpDecode(rq.Body)
		if err != nil || len(rest) != 0 || v.T != "arr" {
			return nil, fmt.Errorf("received body is not one msgpack array: %v (%d trailing bytes)", err, len(rest))
		}
		ds := strings.TrimPrefix(rq.Path, "/1/batch/")
		for _, ev := range v.A {
			if ev.T != "map" {
				return nil, fmt.Errorf("batch element is %s", ev.T)
			}
			r := r2Received{Prefix: rq.Prefix, Dataset: ds, APIKey: rq.APIKey, Raw: ev}
			for _, f := range ev.M {
				switch string(f.K) {
				case "time":
					if f.V.T == "time" {
						r.TimeSec, r.TimeNsec, r.HasTime = f.V.Sec, f.V.Nsec, true
					}
				case "samplerate":
					r.SampleRate = f.V
				case "data":
					if f.V.T != "map" {
						return nil, fmt.Errorf("data is %s", f.V.T)
					}
					r.Data = f.V.M
				}
			}
			out = append(out, r)
		}
	}
	return out, nil
}
