package drive

import (
	"bytes"
	"context"
	"encoding/json"
	"fmt"
	"math/rand"
	"net/http/httptest"
	"time"

	"github.com/honeycombio/refinery/config"
	cq "github.com/honeycombio/refinery/verifharness/coqfmt"
	"google.golang.org/grpc"
	"google.golang.org/grpc/metadata"
	"google.golang.org/protobuf/proto"
)

// C24: ingest authorization and key replacement, uniform across the six ingest entry points.
// One request per case against the real router (real mux + apiKeyProcessor, real OTLP handlers, real gRPC
// dispatch); key IDs come from the router's real environment lookup against a fake Honeycomb /1/auth.

type c24Input struct {
	Ep     string `json:"ep"`      // event batch otlp_trace_http otlp_logs_http otlp_trace_grpc otlp_logs_grpc
	Mode   string `json:"mode"`    // none all nonblank listedonly unlisted missingonly bogus
	AOL    bool   `json:"aol"`     // AcceptOnlyListedKeys
	Send   string `json:"send"`    // "" (unset) modern legacy
	RK     int    `json:"rk"`      // ReceiveKeys variant: 0 none, 1 the listed keys, 2 the listed keys + SendKey
	RKID   int    `json:"rkid"`    // ReceiveKeyIDs variant: 0 none, 1 [kid-byid], 2 [kid-byid kid-send], 3 [kid-none]
	Client string `json:"client"`  // blank send listed listed_legacy byid unlisted unlisted_legacy
	Short  bool   `json:"short,omitempty"` // /1/ only: send the key in X-Hny-Team
}

const (
	c24SendModern     = "sendkeySSSSSSSSSSSSSSS"
	c24SendLegacy     = "5e5e5e5e5e5e5e5e5e5e5e5e5e5e5e5e"
	c24Listed         = "listedkeyLLLLLLLLLLLLL"
	c24ListedLegacy   = "11111111111111111111111111111111"
	c24ByID           = "byidkeyBBBBBBBBBBBBBBB"
	c24Unlisted       = "unlistedUUUUUUUUUUUUUU"
	c24UnlistedLegacy = "22222222222222222222222222222222"
)

var c24Modes = []string{"none", "all", "nonblank", "listedonly", "unlisted", "missingonly", "bogus"}
var c24Sends = []string{"", "modern", "legacy"}
var c24Clients = []string{"blank", "send", "listed", "listed_legacy", "byid", "unlisted", "unlisted_legacy"}

func init() {
	Register(&Driver{ID: "C24", Gen: c24Gen, Run: c24Run, Shrink: c24Shrink})
}

// the whole space: 6 endpoints x 7 modes x 2 x 3 x 3 x 4 x 7 client keys = 21168 combinations
func c24Nth(i int) c24Input {
	var in c24Input
	in.Ep = c23Eps[i%6]
	i /= 6
	in.Mode = c24Modes[i%7]
	i /= 7
	in.AOL = i%2 == 1
	i /= 2
	in.Send = c24Sends[i%3]
	i /= 3
	in.RK = i % 3
	i /= 3
	in.RKID = i % 4
	i /= 4
	in.Client = c24Clients[i%7]
	return in
}

const c24Space = 6 * 7 * 2 * 3 * 3 * 4 * 7

func c24Gen(r *rand.Rand, tier string, i int) any {
	var in c24Input
	if tier == "thorough" {
		in = c24Nth(i % c24Space) // exhaustive sweep
	} else {
		in = c24Nth(r.Intn(c24Space))
		// bias towards the combinations the property names: restricting + replacing modes, gRPC
		if r.Intn(3) == 0 {
			in.AOL = true
			in.Send = []string{"modern", "legacy"}[r.Intn(2)]
			in.Mode = []string{"all", "nonblank", "unlisted", "listedonly", "missingonly"}[r.Intn(5)]
		}
		if r.Intn(4) == 0 {
			in.Ep = []string{"otlp_trace_grpc", "otlp_logs_grpc"}[r.Intn(2)]
		}
	}
	if (in.Ep == "event" || in.Ep == "batch") && r.Intn(4) == 0 {
		in.Short = true
	}
	return in
}

func c24Config(in *c24Input) (cfg config.AccessKeyConfig, client string) {
	cfg.SendKeyMode = in.Mode
	cfg.AcceptOnlyListedKeys = in.AOL
	switch in.Send {
	case "modern":
		cfg.SendKey = c24SendModern
	case "legacy":
		cfg.SendKey = c24SendLegacy
	}
	switch in.RK {
	case 1:
		cfg.ReceiveKeys = []string{c24Listed, c24ListedLegacy}
	case 2:
		cfg.ReceiveKeys = []string{c24Listed, c24ListedLegacy}
		if cfg.SendKey != "" {
			cfg.ReceiveKeys = append(cfg.ReceiveKeys, cfg.SendKey)
		}
	}
	switch in.RKID {
	case 1:
		cfg.ReceiveKeyIDs = []string{respKeyID(c24ByID)}
	case 2:
		cfg.ReceiveKeyIDs = []string{respKeyID(c24ByID), respKeyID(c24SendModern)}
	case 3:
		cfg.ReceiveKeyIDs = []string{"kid-none"}
	}
	switch in.Client {
	case "blank":
		client = ""
	case "send":
		client = cfg.SendKey
		if client == "" {
			client = c24SendModern // SendKey unset: just another key
		}
	case "listed":
		client = c24Listed
	case "listed_legacy":
		client = c24ListedLegacy
	case "byid":
		client = c24ByID
	case "unlisted_legacy":
		client = c24UnlistedLegacy
	default:
		client = c24Unlisted
	}
	return cfg, client
}

func c24Run(raw json.RawMessage) (Case, error) {
	var in c24Input
	if err := json.Unmarshal(raw, &in); err != nil {
		return Case{}, err
	}
	if _, ok := c23EpCoq[in.Ep]; !ok {
		in.Ep = "event"
	}
	if in.Ep != "event" && in.Ep != "batch" {
		in.Short = false
	}
	g, err := respGetRigEnv("incoming", true)
	if err != nil {
		return Case{}, err
	}
	cfg, client := c24Config(&in)
	g.setAccessKeys(cfg)

	// one locally-owned span (batch: plus one non-trace event, so both routes carry the key)
	c23in := c23Input{Ep: in.Ep, Enc: "json", Events: []c23Ev{{ID: 1, Cls: "mine"}}}
	if in.Ep == "batch" {
		c23in.Events = append(c23in.Events, c23Ev{ID: 2, Cls: "nontrace"})
	}
	isV1 := in.Ep == "event" || in.Ep == "batch"
	var body []byte
	if isV1 {
		body, err = c23V1Body(&c23in)
	} else {
		var m proto.Message
		c23in.Enc = "proto"
		if m, err = c23OTLPBody(&c23in); err == nil {
			body, err = proto.Marshal(m)
		}
	}
	if err != nil {
		return Case{}, err
	}
	var status uint64
	switch in.Ep {
	case "otlp_trace_grpc", "otlp_logs_grpc":
		conn, err := g.grpc()
		if err != nil {
			return Case{}, err
		}
		method := "/opentelemetry.proto.collector.trace.v1.TraceService/Export"
		if in.Ep == "otlp_logs_grpc" {
			method = "/opentelemetry.proto.collector.logs.v1.LogsService/Export"
		}
		md := map[string]string{"x-honeycomb-dataset": "ds"}
		if client != "" {
			md["x-honeycomb-team"] = client
		}
		ctx, cancel := context.WithTimeout(context.Background(), 20*time.Second)
		ctx = metadata.NewOutgoingContext(ctx, metadata.New(md))
		var out []byte
		err = conn.Invoke(ctx, method, &body, &out, grpc.ForceCodec(respRawCodec{}))
		cancel()
		status = uint64(status_code(err))
	default:
		path := map[string]string{"event": "/1/events/ds", "batch": "/1/batch/ds", "otlp_trace_http": "/v1/traces", "otlp_logs_http": "/v1/logs"}[in.Ep]
		req := httptest.NewRequest("POST", path, bytes.NewReader(body))
		if client != "" {
			if in.Short {
				req.Header.Set("X-Hny-Team", client)
			} else {
				req.Header.Set("X-Honeycomb-Team", client)
			}
		}
		if isV1 {
			req.Header.Set("Content-Type", "application/json")
		} else {
			req.Header.Set("Content-Type", "application/protobuf")
			req.Header.Set("X-Honeycomb-Dataset", "ds")
		}
		w := newRespWriter()
		g.handler.ServeHTTP(w, req)
		status = uint64(w.effStatus())
	}
	var keys []string
	for _, a := range g.coll.attempts {
		keys = append(keys, a.APIKey)
	}
	for _, s := range g.up.sent {
		keys = append(keys, s.APIKey)
	}
	for _, s := range g.peer.sent {
		keys = append(keys, s.APIKey)
	}
	coqCfg := fmt.Sprintf("{| ak_receive := %s; ak_receive_ids := %s; ak_send := %s; ak_mode := %s; ak_only_listed := %s |}",
		cq.ListStr(cfg.ReceiveKeys), cq.ListStr(cfg.ReceiveKeyIDs), cq.Str(cfg.SendKey), cq.Str(cfg.SendKeyMode), cq.Bool(cfg.AcceptOnlyListedKeys))
	entry := map[string]string{"event": "EV1Event", "batch": "EV1Batch", "otlp_trace_http": "EOtlpTraceHttp",
		"otlp_logs_http": "EOtlpLogsHttp", "otlp_trace_grpc": "EGrpcTrace", "otlp_logs_grpc": "EGrpcLogs"}[in.Ep]
	coq := fmt.Sprintf("{| c_entry := %s; c_cfg := %s; c_key := %s; c_kid_client := %s; c_kid_send := %s; o_status := %s; o_keys := %s |}",
		entry, coqCfg, cq.Str(client), cq.Str(respKeyID(client)), cq.Str(respKeyID(cfg.SendKey)), cq.N(status), cq.ListStr(keys))
	b, _ := json.Marshal(in)
	tags := []string{"ep:" + in.Ep, "mode:" + in.Mode, fmt.Sprintf("aol:%v", in.AOL), "send:" + in.Send, "client:" + in.Client,
		fmt.Sprintf("rk:%d", in.RK), fmt.Sprintf("rkid:%d", in.RKID), fmt.Sprintf("status:%d", status)}
	nontriv := in.AOL || (in.Send != "" && in.Mode != "none") || in.Client == "blank"
	return Case{Input: b, Coq: coq, Key: string(b), Nontriv: nontriv, Tags: tags,
		Summary: map[string]any{"endpoint": in.Ep, "config": cfg, "client_key": client, "client_key_id": respKeyID(client),
			"status": status, "outgoing_keys": keys}}, nil
}

func c24Shrink(raw json.RawMessage) []json.RawMessage {
	var in c24Input
	if json.Unmarshal(raw, &in) != nil {
		return nil
	}
	var out []json.RawMessage
	add := func(c c24Input) {
		b, _ := json.Marshal(c)
		if !bytes.Equal(b, raw) {
			out = append(out, b)
		}
	}
	if in.RKID != 0 {
		c := in
		c.RKID = 0
		add(c)
	}
	if in.RK > 1 {
		c := in
		c.RK = 1
		add(c)
	}
	if in.RK == 1 {
		c := in
		c.RK = 0
		add(c)
	}
	if in.Short {
		c := in
		c.Short = false
		add(c)
	}
	if in.Send == "legacy" {
		c := in
		c.Send = "modern"
		add(c)
	}
	if in.Client != "unlisted" && in.Client != "blank" {
		c := in
		c.Client = "unlisted"
		add(c)
	}
	return out
}
