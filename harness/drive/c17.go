package drive

import (
	"encoding/json"
	"fmt"
	"math/rand"
	"sort"
	"strings"
	"sync"
	"time"

	"github.com/dgryski/go-wyhash"
	"github.com/honeycombio/refinery/config"
	"github.com/honeycombio/refinery/internal/peer"
	"github.com/honeycombio/refinery/logger"
	"github.com/honeycombio/refinery/sharder"
	cq "github.com/honeycombio/refinery/verifharness/coqfmt"
)

// C17: the real DeterministicSharder on permutations of one peer list (owner agreement, owner in
// peers) and, in cluster cases, spans sent through in-process nodes made of the real routers, the
// real sharder and the real peer DirectTransmission (single hop, never to self, collected by owner).

type c17Span struct {
	Tid   int `json:"tid"`   // index into Tids
	Entry int `json:"entry"` // index of the node whose incoming router receives the span
}
type c17Input struct {
	Peers     []string  `json:"peers"`
	Perms     [][]int   `json:"perms"` // one per sharder instance / node
	Tids      []string  `json:"tids"`
	Extra     int       `json:"extra"`
	ExtraSeed int64     `json:"extra_seed"`
	Cluster   bool      `json:"cluster"`
	Spans     []c17Span `json:"spans,omitempty"`
	History   []c17Hist `json:"history,omitempty"` // on one long-lived sharder started on Perms[0] (non-cluster cases)
}

// c17Hist: Set != nil: membership change to these peers (indices into Peers; empty = an empty list, which
// loadPeerList refuses); otherwise a lookup of Tids[Look].
type c17Hist struct {
	Set  *[]int `json:"set,omitempty"`
	Look int    `json:"look"`
}

func init() {
	Register(&Driver{ID: "C17", Gen: c17Gen, Run: c17Run, Shrink: c17Shrink})
}

func c17RandTid(r *rand.Rand) string {
	const hexd = "0123456789abcdef"
	mk := func(n int) string {
		b := make([]byte, n)
		for i := range b {
			b[i] = hexd[r.Intn(16)]
		}
		return string(b)
	}
	switch x := r.Intn(20); {
	case x < 9:
		return mk(32)
	case x < 13:
		return mk(16)
	case x < 14:
		return ""
	case x < 16:
		return mk(1 + r.Intn(3))
	case x < 17:
		return "tr\xc3\xa4ce-" + mk(4)
	case x < 18:
		return strings.Repeat("f", 32)
	default:
		return fmt.Sprintf("trace-%d", r.Intn(1000))
	}
}

func c17GenPeers(r *rand.Rand, n int, cluster bool) []string {
	style := r.Intn(5)
	if cluster && style >= 3 { // cluster addresses must be distinct URL hosts
		style = 2
	}
	out := make([]string, 0, n)
	seen := map[string]bool{}
	for len(out) < n {
		var a string
		k := len(out)
		switch style {
		case 0:
			a = fmt.Sprintf("http://10.0.%d.%d:8081", r.Intn(3), 1+r.Intn(250))
		case 1:
			a = fmt.Sprintf("http://refinery-%d.refinery.svc.cluster.local:8081", r.Intn(40))
		case 2: // shared prefixes / different lengths: exercises the byte-lexicographic order
			a = "http://a" + strings.Repeat("a", r.Intn(3)) + fmt.Sprintf(":%d", []int{1, 10, 2, 20, 100, 11, 8081, 80811}[r.Intn(8)])
		case 3: // case differences sort differently bytewise
			a = fmt.Sprintf("http://%s%d:8081", []string{"Node", "node", "NODE", "nodE"}[r.Intn(4)], r.Intn(12))
		default: // arbitrary strings (file peers are free-form), incl. non-ASCII and empty
			a = []string{"", "peer", "peer ", "p\xc3\xa9er", "\xffpeer", "peer\x00", "z", "Z", "~", "0"}[r.Intn(10)] + []string{"", "", "1", "2", "10"}[r.Intn(5)]
		}
		if seen[a] {
			if cluster || r.Intn(4) != 0 { // duplicates allowed only rarely and never in cluster mode
				if len(seen) > 30 {
					style = 0
				}
				continue
			}
		}
		seen[a] = true
		out = append(out, a)
		_ = k
	}
	return out
}

func c17Gen(r *rand.Rand, tier string, i int) any {
	in := c17Input{ExtraSeed: r.Int63()}
	in.Cluster = r.Intn(100) < 22
	var n int
	switch x := r.Intn(100); {
	case x < 8:
		n = 1
	case x < 30:
		n = 2
	case x < 55:
		n = 3
	case x < 90:
		n = 4 + r.Intn(9)
	default:
		n = []int{25, 49, 50, 51, 17}[r.Intn(5)] // boundaries of partitionCount/len + 1
	}
	if in.Cluster {
		n = 2 + r.Intn(3)
	}
	in.Peers = c17GenPeers(r, n, in.Cluster)
	if !in.Cluster && n >= 2 && r.Intn(10) == 0 {
		in.Peers[n-1] = in.Peers[0] // a duplicated address
	}
	ninst := 2 + r.Intn(3)
	if in.Cluster {
		ninst = n
	}
	for k := 0; k < ninst; k++ {
		p := r.Perm(n)
		switch r.Intn(6) {
		case 0:
			for j := range p {
				p[j] = j
			}
		case 1:
			for j := range p {
				p[j] = n - 1 - j
			}
		}
		in.Perms = append(in.Perms, p)
	}
	nt := 2 + r.Intn(2)
	if n > 20 {
		nt = 2
	}
	for k := 0; k < nt; k++ {
		in.Tids = append(in.Tids, c17RandTid(r))
	}
	in.Extra = 40
	if tier == "thorough" {
		in.Extra = 400
	}
	if !in.Cluster && n >= 2 && r.Intn(100) < 60 {
		// lookup, membership change, the SAME id again right away, other ids, ...
		last := r.Intn(len(in.Tids))
		in.History = append(in.History, c17Hist{Look: last})
		for k := 2 + r.Intn(5); k > 0; k-- {
			var l []int
			switch r.Intn(6) {
			case 0: // drop one peer
				p := r.Perm(n)
				l = p[:n-1]
			case 1: // a single peer
				l = []int{r.Intn(n)}
			case 2: // the full list in another order (no real change)
				l = r.Perm(n)
			case 3: // empty (refused)
				l = []int{}
			default: // a random non-empty subset in random order
				p := r.Perm(n)
				l = p[:1+r.Intn(n)]
			}
			in.History = append(in.History, c17Hist{Set: &l})
			in.History = append(in.History, c17Hist{Look: last}) // the id looked up just before the change
			for j := r.Intn(3); j > 0; j-- {
				last = r.Intn(len(in.Tids))
				in.History = append(in.History, c17Hist{Look: last})
			}
		}
	}
	if in.Cluster {
		ns := 5 + r.Intn(6)
		for k := 0; k < ns; k++ {
			t := r.Intn(len(in.Tids))
			if in.Tids[t] == "" { // an event without a trace id is not a span: it goes straight upstream
				continue
			}
			in.Spans = append(in.Spans, c17Span{Tid: t, Entry: r.Intn(ninst)})
		}
	}
	return in
}

type c17Oracle struct {
	rows  map[string]map[uint64]uint64
	order []string
}

func (o *c17Oracle) add(s string, seed uint64) uint64 {
	v := wyhash.Hash([]byte(s), seed)
	m, ok := o.rows[s]
	if !ok {
		m = map[uint64]uint64{}
		o.rows[s] = m
		o.order = append(o.order, s)
	}
	m[seed] = v
	return v
}

func (o *c17Oracle) coq() string {
	var rows []string
	for _, s := range o.order {
		m := o.rows[s]
		seeds := make([]uint64, 0, len(m))
		for k := range m {
			seeds = append(seeds, k)
		}
		sort.Slice(seeds, func(a, b int) bool { return seeds[a] < seeds[b] })
		var ps []string
		for _, k := range seeds {
			ps = append(ps, cq.Pair(crossW64(k), crossW64(m[k])))
		}
		rows = append(rows, cq.Pair(crossPstr(s), cq.List(ps)))
	}
	return cq.List(rows)
}

func c17ListListNat(xs [][]int) string {
	out := make([]string, len(xs))
	for i, x := range xs {
		out[i] = crossListNat(x)
	}
	return cq.List(out)
}

func c17Run(raw json.RawMessage) (Case, error) {
	var in c17Input
	if err := json.Unmarshal(raw, &in); err != nil {
		return Case{}, err
	}
	if len(in.Peers) == 0 || len(in.Perms) == 0 {
		return Case{}, fmt.Errorf("C17: empty input")
	}
	perms := make([][]string, len(in.Perms))
	for k, p := range in.Perms {
		if len(p) != len(in.Peers) {
			return Case{}, fmt.Errorf("C17: permutation length")
		}
		for _, ix := range p {
			if ix < 0 || ix >= len(in.Peers) {
				return Case{}, fmt.Errorf("C17: permutation index")
			}
			perms[k] = append(perms[k], in.Peers[ix])
		}
	}
	// all trace ids: model-checked ones first, then extras (monitor only)
	tids := append([]string{}, in.Tids...)
	xr := rand.New(rand.NewSource(in.ExtraSeed))
	for k := 0; k < in.Extra; k++ {
		tids = append(tids, c17RandTid(xr))
	}

	selfs := make([]string, len(perms))
	shs := make([]*sharder.DeterministicSharder, len(perms))
	var nodes []*crossNode
	var mu sync.Mutex
	var hops []crossHop
	var collected []crossCollected
	if in.Cluster {
		if len(perms) != len(in.Peers) {
			return Case{}, fmt.Errorf("C17: cluster needs one node per peer")
		}
		mn := newCrossMemNet()
		defer func() {
			for _, n := range nodes {
				n.Stop()
			}
		}()
		for k := range perms {
			selfs[k] = in.Peers[k]
			addr := selfs[k]
			n, err := crossStartNode(crossNodeOpts{
				Addr: addr, PeerList: perms[k], Net: mn,
				Collector: &crossRecCollector{Node: addr, mu: &mu, log: &collected},
				Upstream:  &crossRecTx{Node: addr + "#upstream", mu: &mu, log: new([]crossHop)},
				WrapPeerTx: func(inner transmitT) transmitT {
					return &crossRecTx{Node: addr, Inner: inner, mu: &mu, log: &hops}
				},
			})
			if err != nil {
				return Case{}, fmt.Errorf("C17: start node %q: %v", addr, err)
			}
			nodes = append(nodes, n)
			shs[k] = n.Sharder
		}
	} else {
		for k := range perms {
			selfs[k] = perms[k][0]
			d := &sharder.DeterministicSharder{
				Config: &config.MockConfig{}, Logger: &logger.NullLogger{},
				Peers: peer.NewMockPeers(perms[k], selfs[k]),
			}
			if err := d.Start(); err != nil {
				return Case{}, fmt.Errorf("C17: sharder start: %v", err)
			}
			shs[k] = d
		}
	}

	// address -> first index in the base list; len(Peers) = "not one of the peers"
	ixOf := func(a string) int {
		for i, p := range in.Peers {
			if p == a {
				return i
			}
		}
		return len(in.Peers)
	}
	// observations of every instance
	orc := &c17Oracle{rows: map[string]map[uint64]uint64{}}
	obsPeers := make([][]int, len(shs))
	obsHashIx := make([]int, len(shs))
	var hlists []string
	obsOwner := make([][]int, len(shs))
	obsOwnerStr := make([][]string, len(shs))
	uh := map[uint64]bool{}
	collision := false
	for k, d := range shs {
		ps, hs := sharder.VerifC17State(d)
		for _, a := range ps {
			obsPeers[k] = append(obsPeers[k], ixOf(a))
		}
		var hl []string
		byHash := map[uint64]string{}
		for _, h := range hs {
			hl = append(hl, cq.Pair(crossW64(h.Uhash), cq.Nat(h.Index)))
			uh[h.Uhash] = true
			if h.Index >= 0 && h.Index < len(ps) {
				if a, ok := byHash[h.Uhash]; ok && a != ps[h.Index] {
					collision = true
				}
				byHash[h.Uhash] = ps[h.Index]
			}
		}
		hlc := cq.List(hl)
		obsHashIx[k] = -1
		for j, x := range hlists {
			if x == hlc {
				obsHashIx[k] = j
			}
		}
		if obsHashIx[k] < 0 {
			hlists = append(hlists, hlc)
			obsHashIx[k] = len(hlists) - 1
		}
		for _, t := range tids {
			o := d.WhichShard(t).GetAddress()
			obsOwner[k] = append(obsOwner[k], ixOf(o))
			obsOwnerStr[k] = append(obsOwnerStr[k], o)
		}
		// oracle rows for the seed chain and the partition hashes (the real wyhash on the model's queries)
		ppp := 1
		if len(ps) > 0 {
			ppp = len(hs) / len(ps)
		}
		seed := sharder.VerifC17PeerSeed
		for j := 0; j < ppp; j++ {
			for _, a := range in.Peers {
				orc.add(a, seed)
			}
			seed = orc.add("anything", seed)
		}
	}
	// history on one long-lived sharder; every lookup is repeated on a sharder freshly started on the list in force
	var hist []string
	var histSum []string
	histChanges := 0
	if len(in.History) > 0 && !in.Cluster {
		sel := func(ix []int) ([]string, error) {
			var l []string
			for _, i := range ix {
				if i < 0 || i >= len(in.Peers) {
					return nil, fmt.Errorf("C17: history index")
				}
				l = append(l, in.Peers[i])
			}
			return l, nil
		}
		cur := append([]string{}, perms[0]...)
		mp := peer.NewMockPeers(cur, cur[0])
		long := &sharder.DeterministicSharder{Config: &config.MockConfig{}, Logger: &logger.NullLogger{}, Peers: mp}
		if err := long.Start(); err != nil {
			return Case{}, fmt.Errorf("C17: history sharder start: %v", err)
		}
		addRows := func(list []string) *sharder.DeterministicSharder {
			f := &sharder.DeterministicSharder{Config: &config.MockConfig{}, Logger: &logger.NullLogger{}, Peers: peer.NewMockPeers(list, list[0])}
			f.Start()
			ps, hs := sharder.VerifC17State(f)
			ppp := 1
			if len(ps) > 0 {
				ppp = len(hs) / len(ps)
			}
			seed := sharder.VerifC17PeerSeed
			for j := 0; j < ppp; j++ {
				for _, a := range list {
					orc.add(a, seed)
				}
				seed = orc.add("anything", seed)
			}
			for _, h := range hs {
				uh[h.Uhash] = true
			}
			return f
		}
		fresh := addRows(cur)
		for _, st := range in.History {
			if st.Set != nil {
				l, err := sel(*st.Set)
				if err != nil {
					return Case{}, err
				}
				mp.UpdatePeers(l)
				if len(l) > 0 {
					cur = l
					fresh = addRows(cur)
				}
				histChanges++
				hist = append(hist, cq.App("HSet", crossListNat(*st.Set)))
				histSum = append(histSum, fmt.Sprintf("peers := %v", l))
				continue
			}
			if st.Look < 0 || st.Look >= len(in.Tids) {
				return Case{}, fmt.Errorf("C17: history lookup index")
			}
			t := in.Tids[st.Look]
			o, fo := long.WhichShard(t).GetAddress(), fresh.WhichShard(t).GetAddress()
			hist = append(hist, cq.App("HLook", cq.Nat(st.Look), cq.Nat(ixOf(o)), cq.Nat(ixOf(fo))))
			histSum = append(histSum, fmt.Sprintf("WhichShard(%q) = %s (fresh sharder: %s)", t, o, fo))
		}
	}
	uhs := make([]uint64, 0, len(uh))
	for u := range uh {
		uhs = append(uhs, u)
	}
	sort.Slice(uhs, func(a, b int) bool { return uhs[a] < uhs[b] })
	for _, t := range in.Tids {
		for _, u := range uhs {
			orc.add(t, u)
		}
	}

	// cluster: send the spans through the real routers
	var spanObs []string
	var spanSum []map[string]any
	forwarded := 0
	if in.Cluster {
		for i, sp := range in.Spans {
			if sp.Tid < 0 || sp.Tid >= len(in.Tids) || sp.Entry < 0 || sp.Entry >= len(nodes) || in.Tids[sp.Tid] == "" {
				return Case{}, fmt.Errorf("C17: bad span")
			}
			code, body := nodes[sp.Entry].PostBatch("ds", crossLegacyKey, []crossBatchEvent{{
				SampleRate: 1,
				Data:       map[string]any{"trace.trace_id": in.Tids[sp.Tid], "sid": i, "name": "s"},
			}})
			if code != 200 {
				return Case{}, fmt.Errorf("C17: batch post status %d: %s", code, body)
			}
		}
		count := func() int { mu.Lock(); defer mu.Unlock(); return len(collected) }
		crossWaitStable(count, len(in.Spans), 4*time.Second, 40*time.Millisecond)
		mu.Lock()
		for i, sp := range in.Spans {
			var hp, cl []string
			var hsum [][2]string
			for _, h := range hops {
				if h.Sid == int64(i) && len(hp) < 6 {
					hp = append(hp, cq.Pair(cq.Nat(ixOf(h.From)), cq.Nat(ixOf(h.To))))
					hsum = append(hsum, [2]string{h.From, h.To})
				}
			}
			var csum []string
			for _, c := range collected {
				if c.Sid == int64(i) && len(cl) < 6 {
					cl = append(cl, cq.Nat(ixOf(c.Node)))
					csum = append(csum, c.Node+"("+c.Via+")")
				}
			}
			if len(hp) > 0 {
				forwarded++
			}
			spanObs = append(spanObs, fmt.Sprintf("{| s_tid := %s; s_entry := %s; s_hops := %s; s_collectors := %s |}",
				cq.Nat(sp.Tid), cq.Nat(ixOf(selfs[sp.Entry])), cq.List(hp), cq.List(cl)))
			spanSum = append(spanSum, map[string]any{"tid": in.Tids[sp.Tid], "entry": selfs[sp.Entry], "hops": hsum, "collected": csum})
		}
		mu.Unlock()
	}

	selfIx := make([]int, len(selfs))
	for k, a := range selfs {
		selfIx[k] = ixOf(a)
	}
	coq := fmt.Sprintf("{| c_peers := %s; c_perms := %s; c_selfs := %s; c_tids := %s; c_hash := %s; c_obs_peers := %s; c_hlists := %s; c_obs_hashes := %s; c_obs_owner := %s; c_spans := %s; c_hist_start := %s; c_hist := %s |}",
		crossListPstr(in.Peers), c17ListListNat(in.Perms), crossListNat(selfIx), crossListPstr(in.Tids), orc.coq(),
		c17ListListNat(obsPeers), cq.List(hlists), crossListNat(obsHashIx), c17ListListNat(obsOwner), cq.List(spanObs),
		crossListNat(in.Perms[0]), cq.List(hist))

	distinct := map[string]bool{}
	for _, a := range in.Peers {
		distinct[a] = true
	}
	permsDiffer := false
	for k := 1; k < len(perms); k++ {
		if strings.Join(perms[k], "\x01") != strings.Join(perms[0], "\x01") {
			permsDiffer = true
		}
	}
	n := len(in.Peers)
	tags := []string{fmt.Sprintf("instances:%d", len(perms))}
	switch {
	case n == 1:
		tags = append(tags, "peers:1")
	case n <= 3:
		tags = append(tags, "peers:2-3")
	case n <= 12:
		tags = append(tags, "peers:4-12")
	default:
		tags = append(tags, "peers:>12")
	}
	if n == 50 || n == 51 || n == 49 || n == 25 {
		tags = append(tags, "partition-count-boundary")
	}
	if len(distinct) < n {
		tags = append(tags, "duplicate-address")
	}
	if collision {
		tags = append(tags, "uhash-collision-between-addresses")
	}
	if in.Cluster {
		tags = append(tags, "cluster")
		if forwarded > 0 {
			tags = append(tags, "cluster-forwarded-span")
		}
	}
	if permsDiffer {
		tags = append(tags, "perms-differ")
	}
	if histChanges > 0 {
		tags = append(tags, "membership-change-history")
	}
	own0 := obsOwnerStr[0]
	if len(own0) > 6 {
		own0 = own0[:6]
	}
	key, _ := json.Marshal([]any{in.Peers, in.Perms, in.Tids, in.Cluster, in.Spans, in.History})
	return Case{Coq: coq, Key: string(key), Nontriv: permsDiffer && len(distinct) >= 2, Tags: tags,
		Summary: map[string]any{"peers": in.Peers, "perms": in.Perms, "tids": in.Tids, "owners_instance0": own0,
			"cluster": in.Cluster, "spans": spanSum, "history": histSum}}, nil
}

func c17Shrink(raw json.RawMessage) []json.RawMessage {
	var in c17Input
	if json.Unmarshal(raw, &in) != nil {
		return nil
	}
	var out []json.RawMessage
	emit := func(c c17Input) {
		b, _ := json.Marshal(c)
		out = append(out, b)
	}
	// fewer extra ids
	if in.Extra > 0 {
		c := in
		c.Extra = in.Extra / 2
		emit(c)
	}
	// drop one history step
	for i := range in.History {
		c := in
		c.History = append(append([]c17Hist{}, in.History[:i]...), in.History[i+1:]...)
		emit(c)
	}
	if len(in.History) > 0 {
		return out // keep indices of the history valid: shrink only the history (and the extras) of such a case
	}
	// drop one span
	for i := range in.Spans {
		c := in
		c.Spans = append(append([]c17Span{}, in.Spans[:i]...), in.Spans[i+1:]...)
		emit(c)
	}
	// drop one instance (non-cluster)
	if !in.Cluster && len(in.Perms) > 2 {
		for i := range in.Perms {
			c := in
			c.Perms = append(append([][]int{}, in.Perms[:i]...), in.Perms[i+1:]...)
			emit(c)
		}
	}
	// drop one peer (non-cluster)
	if !in.Cluster && len(in.Peers) > 1 {
		for i := range in.Peers {
			c := in
			c.Peers = append(append([]string{}, in.Peers[:i]...), in.Peers[i+1:]...)
			c.Perms = nil
			for _, p := range in.Perms {
				var q []int
				for _, ix := range p {
					if ix == i {
						continue
					}
					if ix > i {
						ix--
					}
					q = append(q, ix)
				}
				c.Perms = append(c.Perms, q)
			}
			emit(c)
		}
	}
	// drop one trace id not used by a span
	if len(in.Tids) > 1 {
		for i := range in.Tids {
			used := false
			for _, s := range in.Spans {
				if s.Tid == i {
					used = true
				}
			}
			if used {
				continue
			}
			c := in
			c.Tids = append(append([]string{}, in.Tids[:i]...), in.Tids[i+1:]...)
			c.Spans = nil
			for _, s := range in.Spans {
				if s.Tid > i {
					s.Tid--
				}
				c.Spans = append(c.Spans, s)
			}
			emit(c)
		}
	}
	return out
}
