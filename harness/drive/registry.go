// Package drive holds one driver per property. A driver generates structured inputs from a single
// PRNG, runs the REAL refinery code on them, and prints the input together with the projected
// observables as a Gallina term of the property's Monitor.Cxx.case type.
package drive

import (
	"encoding/json"
	"math/rand"
	"sort"
)

// Case is one correspondence case.
type Case struct {
	Input   json.RawMessage `json:"input"`      // replayable input (fed back through Run)
	Coq     string          `json:"coq"`        // Gallina term : Monitor.Cxx.case
	Key     string          `json:"key"`        // canonical text used to count distinct cases
	Nontriv bool            `json:"nontrivial"` // exercised the property's non-trivial branch
	Tags    []string        `json:"tags"`       // input-distribution tags counted into the evidence
	Summary any             `json:"summary"`    // human-readable, for evidence samples / replays
}

// Driver is what each property registers.
type Driver struct {
	ID string
	// Gen draws the i-th input. All randomness must come from r.
	Gen func(r *rand.Rand, tier string, i int) any
	// Run executes the real code on a (JSON) input and reports the observation.
	Run func(input json.RawMessage) (Case, error)
	// Shrink (optional) proposes strictly smaller inputs.
	Shrink func(input json.RawMessage) []json.RawMessage
}

var registry = map[string]*Driver{}

func Register(d *Driver) { registry[d.ID] = d }
func Lookup(id string) *Driver { return registry[id] }
func IDs() []string {
	out := make([]string, 0, len(registry))
	for k := range registry {
		out = append(out, k)
	}
	sort.Strings(out)
	return out
}
