package drive

import (
	"context"
	"sync"
	"time"

	"github.com/honeycombio/refinery/pubsub"
	"github.com/jonboulle/clockwork"
)

// Shared helpers of the "sm" (small timed state machines) property family: C30 C15 C18 C34 C33.

// smChunkRemovals returns index sets to KEEP for delta-debugging an op list of length n:
// first large chunks removed (halves, quarters, eighths), then single ops. The check driver takes
// the first candidate that still shows the violation, so big cuts are tried first.
func smChunkRemovals(n int) [][]int {
	var out [][]int
	seen := map[[2]int]bool{}
	add := func(lo, hi int) { // remove [lo,hi)
		if lo < 0 {
			lo = 0
		}
		if hi > n {
			hi = n
		}
		if hi <= lo || (lo == 0 && hi == n) || seen[[2]int{lo, hi}] {
			return
		}
		seen[[2]int{lo, hi}] = true
		keep := make([]int, 0, n-(hi-lo))
		for i := 0; i < n; i++ {
			if i < lo || i >= hi {
				keep = append(keep, i)
			}
		}
		out = append(out, keep)
	}
	// Every shrink round costs one harness run plus one Coq evaluation of all candidates, and the
	// check driver spends up to two minutes per violation code on it: keep rounds few and small.
	// Long lists: big chunks only (at most 14 candidates); short lists: single removals.
	if n <= 4 {
		return out // short enough to read; further rounds are not worth their cost
	}
	if n > 8 {
		for parts := 2; parts <= 8; parts *= 2 {
			sz := (n + parts - 1) / parts
			for lo := 0; lo < n; lo += sz {
				add(lo, lo+sz)
			}
		}
	} else {
		for i := 0; i < n; i++ {
			add(i, i+1)
		}
	}
	return out
}

func smKeep[T any](xs []T, keep []int) []T {
	out := make([]T, 0, len(keep))
	for _, i := range keep {
		out = append(out, xs[i])
	}
	return out
}

// ---- test doubles shared by the sm family ----

// smSyncPubSub is a pubsub.PubSub that delivers every message synchronously, in subscription
// order, on the publisher's goroutine (the repo's LocalPubSub delivers on fresh goroutines, which
// makes single-run observations racy). It records what was published.
type smSyncPubSub struct {
	mu     sync.Mutex
	subs   map[string][]*smSub
	Sent   []smMsg
	Closed bool
}
type smMsg struct{ Topic, Msg string }
type smSub struct {
	cb     pubsub.SubscriptionCallback
	closed bool
}

func (s *smSub) Close() { s.closed = true }

func newSmSyncPubSub() *smSyncPubSub { return &smSyncPubSub{subs: map[string][]*smSub{}} }

func (p *smSyncPubSub) Start() error { return nil }
func (p *smSyncPubSub) Stop() error  { p.Close(); return nil }
func (p *smSyncPubSub) Close() {
	p.mu.Lock()
	defer p.mu.Unlock()
	p.Closed = true
	p.subs = map[string][]*smSub{}
}
func (p *smSyncPubSub) FormatTopic(topic string) string { return topic }
func (p *smSyncPubSub) Publish(ctx context.Context, topic, message string) error {
	p.mu.Lock()
	p.Sent = append(p.Sent, smMsg{topic, message})
	subs := append([]*smSub{}, p.subs[topic]...)
	p.mu.Unlock()
	for _, s := range subs {
		if !s.closed {
			s.cb(ctx, message)
		}
	}
	return nil
}
func (p *smSyncPubSub) Subscribe(ctx context.Context, topic string, cb pubsub.SubscriptionCallback) pubsub.Subscription {
	p.mu.Lock()
	defer p.mu.Unlock()
	s := &smSub{cb: cb}
	p.subs[topic] = append(p.subs[topic], s)
	return s
}

// smNoHealth is a health.Recorder that ignores everything.
type smNoHealth struct{}

func (smNoHealth) Register(string, time.Duration) {}
func (smNoHealth) Unregister(string)              {}
func (smNoHealth) Ready(string, bool)             {}

// smIdleTickerClock is a FakeClock whose tickers never fire: periodic background loops of the
// component under test stay parked while the driver calls the loop body's exported functions.
type smIdleTickerClock struct{ clockwork.Clock }
type smIdleTicker struct{ c chan time.Time }

func (t smIdleTicker) Chan() <-chan time.Time { return t.c }
func (t smIdleTicker) Reset(time.Duration)    {}
func (t smIdleTicker) Stop()                  {}
func (c smIdleTickerClock) NewTicker(time.Duration) clockwork.Ticker {
	return smIdleTicker{c: make(chan time.Time)}
}
