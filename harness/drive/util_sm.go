package drive

// Shared helpers of the "sm" (small timed state machines) property family: C30 C15 C18 C34 C33.

// smChunkRemovals returns index sets to KEEP for delta-debugging an op list of length n:
// first large chunks removed (halves, quarters, eighths), then single ops. The check driver takes
// the first candidate that still shows the violation, so big cuts are tried first.
func smChunkRemovals(n int) [][]int {
	var out [][]int
	seen := map[[2]int]bool{}
	add := func(lo, hi int) { // remove [lo,hi)
		if lo < 0 {
			lo = 0
		}
		if hi > n {
			hi = n
		}
		if hi <= lo || (lo == 0 && hi == n) || seen[[2]int{lo, hi}] {
			return
		}
		seen[[2]int{lo, hi}] = true
		keep := make([]int, 0, n-(hi-lo))
		for i := 0; i < n; i++ {
			if i < lo || i >= hi {
				keep = append(keep, i)
			}
		}
		out = append(out, keep)
	}
	for parts := 2; parts <= 8 && parts <= n; parts *= 2 {
		sz := (n + parts - 1) / parts
		for lo := 0; lo < n; lo += sz {
			add(lo, lo+sz)
		}
	}
	for i := 0; i < n; i++ {
		add(i, i+1)
	}
	return out
}

func smKeep[T any](xs []T, keep []int) []T {
	out := make([]T, 0, len(keep))
	for _, i := range keep {
		out = append(out, xs[i])
	}
	return out
}
