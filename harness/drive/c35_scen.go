package drive

import (
	"context"
	"encoding/json"
	"fmt"
	"io"
	"math/rand"
	"net/http"
	"net/http/httptest"
	"os"
	"path/filepath"
	"sync"
	"sync/atomic"
	"time"

	"github.com/jonboulle/clockwork"
	"go.opentelemetry.io/otel/trace/noop"

	"github.com/honeycombio/refinery/collect"
	"github.com/honeycombio/refinery/collect/cache"
	"github.com/honeycombio/refinery/config"
	"github.com/honeycombio/refinery/internal/configwatcher"
	"github.com/honeycombio/refinery/internal/health"
	"github.com/honeycombio/refinery/internal/peer"
	"github.com/honeycombio/refinery/logger"
	"github.com/honeycombio/refinery/metrics"
	"github.com/honeycombio/refinery/pubsub"
	"github.com/honeycombio/refinery/sample"
	"github.com/honeycombio/refinery/sharder"
	"github.com/honeycombio/refinery/transmit"
	"github.com/honeycombio/refinery/types"
)

// Inner mode: the scenarios. Everything here runs inside the -race build of the harness.
// The harness's own bookkeeping uses only atomics / WaitGroups so that it cannot race itself.

const c35LegacyKey = "c9945edf5d245834089a1bd6cc9ad01e"

type c35Rec struct {
	mu   sync.Mutex
	acts map[string]*c35Act
}
type c35Act struct {
	ops        atomic.Int64
	start, end atomic.Int64
}

func (r *c35Rec) act(name string) *c35Act {
	r.mu.Lock()
	defer r.mu.Unlock()
	if r.acts == nil {
		r.acts = map[string]*c35Act{}
	}
	a, ok := r.acts[name]
	if !ok {
		a = &c35Act{}
		r.acts[name] = a
	}
	return a
}

// run starts g goroutines for the activity, each performing ops iterations of f.
func (r *c35Rec) run(wg *sync.WaitGroup, name string, g, ops int, f func(worker, i int)) {
	a := r.act(name)
	for w := 0; w < g; w++ {
		wg.Add(1)
		go func(w int) {
			defer wg.Done()
			a.start.CompareAndSwap(0, time.Now().UnixNano())
			for i := 0; i < ops; i++ {
				f(w, i)
				a.ops.Add(1)
			}
			now := time.Now().UnixNano()
			for {
				old := a.end.Load()
				if old >= now || a.end.CompareAndSwap(old, now) {
					break
				}
			}
		}(w)
	}
}

// runUntil starts g goroutines that repeat f (at least minOps times) until stop is set.
func (r *c35Rec) runUntil(wg *sync.WaitGroup, name string, g, minOps int, stop *atomic.Bool, pause time.Duration, f func(worker, i int)) {
	a := r.act(name)
	for w := 0; w < g; w++ {
		wg.Add(1)
		go func(w int) {
			defer wg.Done()
			a.start.CompareAndSwap(0, time.Now().UnixNano())
			for i := 0; i < minOps || !stop.Load(); i++ {
				f(w, i)
				a.ops.Add(1)
				if pause > 0 && i >= minOps {
					time.Sleep(pause)
				}
			}
			now := time.Now().UnixNano()
			for {
				old := a.end.Load()
				if old >= now || a.end.CompareAndSwap(old, now) {
					break
				}
			}
		}(w)
	}
}

func c35Has(in c35Input, act string) bool {
	for _, a := range in.Acts {
		if a == act {
			return true
		}
	}
	return false
}

func c35RunInner(in c35Input) (res c35Inner) {
	rec := &c35Rec{}
	done := make(chan string, 1)
	go func() {
		defer func() {
			if p := recover(); p != nil {
				done <- fmt.Sprintf("panic: %v", p)
			}
		}()
		switch in.Scn {
		case "sentcache":
			c35SentCache(in, rec)
		case "fileconfig":
			c35FileConfig(in, rec)
		case "watcher":
			c35Watcher(in, rec)
		case "collector":
			c35Collector(in, rec, false)
		case "collector_start":
			c35Collector(in, rec, true)
		case "stress":
			c35Stress(in, rec)
		case "peers":
			c35Peers(in, rec)
		case "transmit":
			c35Transmit(in, rec)
		case "router":
			c35Router(in, rec)
		}
		done <- ""
	}()
	select {
	case e := <-done:
		res.Completed = e == ""
		res.Error = e
	case <-time.After(90 * time.Second):
		res.Completed = false
		res.Error = "scenario did not finish within 90s (deadlock?)"
	}
	res.Acts = map[string]c35Stat{}
	rec.mu.Lock()
	for n, a := range rec.acts {
		res.Acts[n] = c35Stat{Ops: a.ops.Load(), Start: a.start.Load(), End: a.end.Load()}
	}
	rec.mu.Unlock()
	return res
}

func c35Sizes(in c35Input) []int {
	if len(in.Sizes) == 0 {
		return []int{10, 3}
	}
	return in.Sizes
}

func c35Span(conf config.Config, traceID string, root bool, n int) *types.Span {
	return &types.Span{
		TraceID: traceID, IsRoot: root,
		Event: &types.Event{
			Context: context.Background(), APIHost: "http://api.test", APIKey: c35LegacyKey,
			Dataset: "ds", SampleRate: 1, Timestamp: time.Now(),
			Data: types.NewPayload(conf, map[string]any{"trace.parent_id": "p", "service.name": "svc", "n": n}),
		},
		ArrivalTime: time.Now(),
	}
}

// ---- sent cache: CheckSpan / Record / CheckTrace (router + worker side) vs Resize (reload) --------
func c35SentCache(in c35Input, rec *c35Rec) {
	met := &metrics.MockMetrics{}
	met.Start()
	sizes := c35Sizes(in)
	mk := func(k int) config.SampleCacheConfig {
		return config.SampleCacheConfig{KeptSize: uint(k), DroppedSize: 1000, SizeCheckInterval: config.Duration(3 * time.Millisecond)}
	}
	c, err := cache.NewCuckooSentCache(mk(50), met)
	if err != nil {
		panic(err)
	}
	conf := &config.MockConfig{}
	var wg sync.WaitGroup
	ids := func(w, i int) string { return fmt.Sprintf("t-%d-%d", w%2, (int(in.Seed)+i)%97) }
	if c35Has(in, "check") {
		rec.run(&wg, "check", in.G, in.Ops, func(w, i int) { c.CheckSpan(c35Span(conf, ids(w, i), false, i)) })
	}
	if c35Has(in, "record") {
		rec.run(&wg, "record", in.G, in.Ops, func(w, i int) {
			tr := &types.Trace{TraceID: ids(w, i), APIKey: c35LegacyKey, Dataset: "ds"}
			tr.SetSampleRate(uint(1 + i%5))
			c.Record(tr, i%3 != 0, "reason")
		})
	}
	if c35Has(in, "checktrace") {
		rec.run(&wg, "checktrace", in.G, in.Ops, func(w, i int) { c.CheckTrace(ids(w, i)) })
	}
	if c35Has(in, "resize") {
		// one resizer: in the product Resize is only called from the owning worker goroutine
		rec.run(&wg, "resize", 1, max(20, in.Ops/8), func(w, i int) {
			c.Resize(mk(sizes[i%len(sizes)]))
		})
	}
	wg.Wait()
	c.Stop()
}

// ---- file config: Reload vs readers vs callback registration ------------------------------------
func c35FileConfig(in c35Input, rec *c35Rec) {
	dir, err := os.MkdirTemp(".", "c35cfg")
	if err != nil {
		panic(err)
	}
	defer os.RemoveAll(dir)
	cfgPath, rulesPath := filepath.Join(dir, "cfg.yaml"), filepath.Join(dir, "rules.yaml")
	writeCfg := func(port int, tag string) {
		tmp := filepath.Join(dir, "cfg."+tag+".tmp")
		os.WriteFile(tmp, []byte(fmt.Sprintf("General:\n  ConfigurationVersion: 2\n  ConfigReloadInterval: 1s\nNetwork:\n  ListenAddr: 127.0.0.1:%d\n", port)), 0o644)
		os.Rename(tmp, cfgPath)
	}
	writeCfg(8080, "init")
	os.WriteFile(rulesPath, []byte("RulesVersion: 2\nSamplers:\n  __default__:\n    DeterministicSampler:\n      SampleRate: 1\n"), 0o644)
	opts := &config.CmdEnv{ConfigLocations: []string{cfgPath}, RulesLocations: []string{rulesPath}}
	c, err := config.NewConfig(opts)
	if c == nil {
		panic(err)
	}
	var calls atomic.Int64
	c.RegisterReloadCallback(func(a, b string) { calls.Add(1) })
	// the readers keep going until the (slow: parse + validate) reloads are over
	var wg, rwg sync.WaitGroup
	var reloadsDone atomic.Bool
	if c35Has(in, "reload") {
		rec.run(&rwg, "reload", min(in.G, 2), max(4, in.Ops/50), func(w, i int) {
			writeCfg(9000+(w*1000+i)%5000, fmt.Sprint(w))
			c.Reload()
		})
	}
	pause := 300 * time.Microsecond
	if c35Has(in, "metadata") {
		rec.runUntil(&wg, "metadata", in.G, in.Ops, &reloadsDone, pause, func(w, i int) { c.GetConfigMetadata() })
	}
	if c35Has(in, "hashes") {
		rec.runUntil(&wg, "hashes", in.G, in.Ops, &reloadsDone, pause, func(w, i int) { c.GetHashes() })
	}
	if c35Has(in, "getters") {
		rec.runUntil(&wg, "getters", in.G, in.Ops, &reloadsDone, pause, func(w, i int) {
			c.GetListenAddr()
			c.GetTracesConfig()
			c.GetCollectionConfig()
			c.GetSamplerConfigForDestName("x")
			c.GetAllSamplerRules()
		})
	}
	if c35Has(in, "register") {
		rec.runUntil(&wg, "register", 1, max(5, in.Ops/20), &reloadsDone, 20*time.Millisecond, func(w, i int) {
			c.RegisterReloadCallback(func(a, b string) { calls.Add(1) })
		})
	}
	rwg.Wait()
	reloadsDone.Store(true)
	wg.Wait()
}

// ---- config watcher: Start / Stop / callbacks ---------------------------------------------------
func c35Watcher(in c35Input, rec *c35Rec) {
	// the production combination: real fileConfig (whose Reload runs the callbacks outside its lock),
	// LocalPubSub and the watcher's own monitor goroutine
	dir, err := os.MkdirTemp(".", "c35w")
	if err != nil {
		panic(err)
	}
	defer os.RemoveAll(dir)
	cfgPath, rulesPath := filepath.Join(dir, "cfg.yaml"), filepath.Join(dir, "rules.yaml")
	var ver atomic.Int64
	writeCfg := func() {
		tmp := filepath.Join(dir, fmt.Sprintf("cfg.%d.tmp", ver.Add(1)))
		os.WriteFile(tmp, []byte(fmt.Sprintf("General:\n  ConfigurationVersion: 2\n  ConfigReloadInterval: 20ms\nNetwork:\n  ListenAddr: 127.0.0.1:%d\n", 8000+ver.Load()%1000)), 0o644)
		os.Rename(tmp, cfgPath)
	}
	writeCfg()
	os.WriteFile(rulesPath, []byte("RulesVersion: 2\nSamplers:\n  __default__:\n    DeterministicSampler:\n      SampleRate: 1\n"), 0o644)
	conf, err := config.NewConfig(&config.CmdEnv{ConfigLocations: []string{cfgPath}, RulesLocations: []string{rulesPath}, NoValidate: true})
	if conf == nil {
		panic(err)
	}
	ps := &pubsub.LocalPubSub{Config: conf}
	ps.Start()
	defer ps.Stop()
	var wg sync.WaitGroup
	n := max(4, in.Ops/60)
	rec.run(&wg, "startstop", min(in.G, 2), n, func(w, i int) {
		cw := &configwatcher.ConfigWatcher{Config: conf, PubSub: ps, Logger: &logger.NullLogger{}}
		if err := cw.Start(); err != nil {
			panic(err)
		}
		if i%3 == 0 {
			writeCfg() // the next tick of some monitor goroutine will see a changed file
		}
		if c35Has(in, "callback") {
			cw.ReloadCallback("a", "b")
		}
		if c35Has(in, "listener") && i%2 == 1 {
			cw.SubscriptionListener(context.Background(), time.Now().Format(time.RFC3339))
		}
		if i%2 == 0 {
			time.Sleep(time.Duration(i%5) * 5 * time.Millisecond)
		}
		cw.Stop()
	})
	wg.Wait()
	time.Sleep(30 * time.Millisecond)
}

// ---- collector: ingest + peer spans + stress path + reloads + shutdown --------------------------
func c35CollectorConf(in c35Input) *config.MockConfig {
	sizes := c35Sizes(in)
	return &config.MockConfig{
		GetTracesConfigVal: config.TracesConfig{
			SendTicker: config.Duration(2 * time.Millisecond), SendDelay: config.Duration(time.Millisecond),
			TraceTimeout: config.Duration(20 * time.Millisecond), MaxBatchSize: 500},
		SampleCache:        config.SampleCacheConfig{KeptSize: uint(sizes[0]), DroppedSize: 1000, SizeCheckInterval: config.Duration(5 * time.Millisecond)},
		GetSamplerTypeVal:  &config.DeterministicSamplerConfig{SampleRate: 2},
		TraceIdFieldNames:  []string{"trace.trace_id", "traceId"},
		ParentIdFieldNames: []string{"trace.parent_id", "parentId"},
		GetCollectionConfigVal: config.CollectionConfig{
			WorkerCount: max(1, in.Workers), ShutdownDelay: config.Duration(time.Millisecond),
			IncomingQueueSize: 30000, PeerQueueSize: 30000, HealthCheckTimeout: config.Duration(time.Second)},
		StressRelief:         config.StressReliefConfig{Mode: "monitor", ActivationLevel: 75, DeactivationLevel: 25, SamplingRate: 3},
		AddRuleReasonToTrace: true,
	}
}

func c35Collector(in c35Input, rec *c35Rec, startStorm bool) {
	conf := c35CollectorConf(in)
	clock := clockwork.NewRealClock()
	tx := &transmit.MockTransmission{Capacity: 1000}
	tx.Start()
	ptx := &transmit.MockTransmission{Capacity: 1000}
	ptx.Start()
	drainDone := make(chan struct{})
	var drainWG sync.WaitGroup
	for _, t := range []*transmit.MockTransmission{tx, ptx} {
		drainWG.Add(1)
		go func(t *transmit.MockTransmission) {
			defer drainWG.Done()
			for {
				select {
				case <-t.Events:
				case <-drainDone:
					return
				}
			}
		}(t)
	}
	m := &metrics.MockMetrics{}
	m.Start()
	h := &health.Health{Clock: clock}
	h.Start()
	ps := &pubsub.LocalPubSub{Config: conf, Metrics: m}
	ps.Start()
	sf := &sample.SamplerFactory{Config: conf, Metrics: m, Logger: &logger.NullLogger{}}
	sf.Start()
	sr := &collect.MockStressReliever{IsStressed: true, SampleDeterministically: true, ShouldKeep: true, SampleRate: 2}
	coll := &collect.InMemCollector{
		Config: conf, Clock: clock, Logger: &logger.NullLogger{},
		Tracer: noop.NewTracerProvider().Tracer("test"),
		Health: h, Transmission: tx, PeerTransmission: ptx, PubSub: ps, Metrics: m,
		StressRelief: sr, SamplerFactory: sf,
		Peers:   peer.NewMockPeers([]string{"api1", "api2"}, "api1"),
		Sharder: &sharder.MockSharder{Self: &sharder.TestShard{Addr: "api1"}, Other: &sharder.TestShard{Addr: "api2"}},
	}
	var wg sync.WaitGroup
	sizes := c35Sizes(in)
	reload := func(i int) {
		conf.Mux.Lock()
		conf.SampleCache.KeptSize = uint(sizes[i%len(sizes)])
		conf.Mux.Unlock()
		conf.Reload()
	}
	if startStorm {
		// configuration reloads arriving while the collector is still starting
		stop := make(chan struct{})
		a := rec.act("reloadstorm")
		var swg sync.WaitGroup
		swg.Add(1)
		go func() {
			defer swg.Done()
			a.start.Store(time.Now().UnixNano())
			for i := 0; ; i++ {
				select {
				case <-stop:
					a.end.Store(time.Now().UnixNano())
					return
				default:
				}
				reload(i)
				a.ops.Add(1)
				time.Sleep(50 * time.Microsecond)
			}
		}()
		time.Sleep(2 * time.Millisecond)
		st := rec.act("start")
		st.start.Store(time.Now().UnixNano())
		if err := coll.Start(); err != nil {
			panic(err)
		}
		st.ops.Add(1)
		time.Sleep(5 * time.Millisecond)
		st.end.Store(time.Now().UnixNano())
		close(stop)
		swg.Wait()
	} else if err := coll.Start(); err != nil {
		panic(err)
	}
	if !startStorm {
		tid := func(w, i int) string { return fmt.Sprintf("tr-%d-%d", w, (int(in.Seed)+i)%61) }
		if c35Has(in, "ingest") {
			rec.run(&wg, "ingest", in.G, in.Ops, func(w, i int) {
				coll.AddSpan(c35Span(conf, tid(w, i), i%4 == 0, i))
			})
		}
		if c35Has(in, "peer") {
			rec.run(&wg, "peer", in.G, in.Ops, func(w, i int) {
				coll.AddSpanFromPeer(c35Span(conf, tid(w+100, i), i%5 == 0, i))
			})
		}
		if c35Has(in, "immediate") {
			// the router's stress-relief path: ProcessSpanImmediately on the caller's goroutine
			rec.run(&wg, "immediate", in.G, in.Ops, func(w, i int) {
				coll.ProcessSpanImmediately(c35Span(conf, tid(w%2, i), false, i))
			})
		}
		if c35Has(in, "reload") {
			rec.run(&wg, "reload", 1, max(10, in.Ops/10), func(w, i int) {
				reload(i)
				time.Sleep(300 * time.Microsecond)
			})
		}
		if c35Has(in, "stress") {
			rec.run(&wg, "stress", in.G, in.Ops, func(w, i int) {
				coll.Stressed()
				coll.GetStressedSampleRate(tid(w, i))
			})
		}
		wg.Wait()
		time.Sleep(30 * time.Millisecond)
	}
	coll.Stop()
	close(drainDone)
	drainWG.Wait()
	tx.Stop()
	ptx.Stop()
	h.Stop()
	sf.Stop()
	ps.Stop()
}

// ---- stress relief: Recalc ticker vs readers vs config updates vs peer messages ------------------
func c35Stress(in c35Input, rec *c35Rec) {
	clock := clockwork.NewRealClock()
	m := &metrics.MockMetrics{}
	m.Start()
	ps := &pubsub.LocalPubSub{Metrics: m}
	ps.Start()
	h := &health.Health{Clock: clock, Metrics: m, Logger: &logger.NullLogger{}}
	h.Start()
	p := peer.NewMockPeers([]string{"a", "b"}, "a")
	p.Start()
	conf := &config.MockConfig{StressRelief: config.StressReliefConfig{
		Mode: "monitor", ActivationLevel: 80, DeactivationLevel: 50, SamplingRate: 2,
		MinimumActivationDuration: config.Duration(5 * time.Millisecond)}}
	sr := &collect.StressRelief{Clock: clock, Done: make(chan struct{}), Logger: &logger.NullLogger{},
		RefineryMetrics: m, PubSub: ps, Health: h, Peer: p, Config: conf}
	if err := sr.Start(); err != nil {
		panic(err)
	}
	sr.UpdateFromConfig()
	m.Register(metrics.Metadata{Name: collect.NUMERATOR_INCOMING_QUEUE, Type: metrics.Gauge})
	m.Store(collect.DENOMINATOR_INCOMING_CAP, 1200)
	var wg sync.WaitGroup
	if c35Has(in, "readers") {
		rec.run(&wg, "readers", in.G, in.Ops, func(w, i int) {
			sr.Stressed()
			sr.GetSampleRate(fmt.Sprintf("t%d", i))
			if i%50 == 0 {
				time.Sleep(time.Millisecond)
			}
		})
	}
	if c35Has(in, "update") {
		rec.run(&wg, "update", 1, max(10, in.Ops/10), func(w, i int) {
			conf.Mux.Lock()
			conf.StressRelief.SamplingRate = uint64(2 + i%5)
			conf.Mux.Unlock()
			sr.UpdateFromConfig()
			time.Sleep(time.Millisecond)
		})
	}
	if c35Has(in, "gauges") {
		rec.run(&wg, "gauges", 1, max(10, in.Ops/5), func(w, i int) {
			m.Gauge(collect.NUMERATOR_INCOMING_QUEUE, float64([]int{1000, 100, 1150, 10}[i%4]))
			time.Sleep(2 * time.Millisecond)
		})
	}
	if c35Has(in, "peermsg") {
		topic := ps.FormatTopic("refinery-stress-relief")
		rec.run(&wg, "peermsg", in.G, max(10, in.Ops/5), func(w, i int) {
			ps.Publish(context.Background(), topic, fmt.Sprintf("peer%d|%d", w, (i*37)%100))
			if i%10 == 0 {
				time.Sleep(time.Millisecond)
			}
		})
	}
	wg.Wait()
	time.Sleep(130 * time.Millisecond) // let the 100ms Recalc ticker run against the above at least once more
	close(sr.Done)
	time.Sleep(20 * time.Millisecond)
	h.Stop()
	ps.Stop()
}

// ---- peer membership over pubsub ---------------------------------------------------------------
func c35Peers(in c35Input, rec *c35Rec) {
	m := &metrics.MockMetrics{}
	m.Start()
	ps := &pubsub.LocalPubSub{Metrics: m}
	ps.Start()
	cfg := &config.MockConfig{GetPeerListenAddrVal: "127.0.0.1:8081", RedisIdentifier: "node-a", PeerTimeout: time.Second, PeerManagementType: "redis"}
	done := make(chan struct{})
	p := &peer.RedisPubsubPeers{Config: cfg, PubSub: ps, Clock: clockwork.NewRealClock(), Metrics: m,
		Logger: &logger.NullLogger{}, InstanceID: "self", Done: done}
	if err := p.Start(); err != nil {
		panic(err)
	}
	if err := p.Ready(); err != nil {
		panic(err)
	}
	var cbs atomic.Int64
	p.RegisterUpdatedPeersCallback(func() { cbs.Add(1) })
	topic := ps.FormatTopic("peers")
	var wg sync.WaitGroup
	if c35Has(in, "messages") {
		rec.run(&wg, "messages", in.G, in.Ops, func(w, i int) {
			act := "R"
			if i%3 == 2 {
				act = "U"
			}
			ps.Publish(context.Background(), topic, fmt.Sprintf("%shttp://n%d:8081,id%d", act, (w*7+i)%9, (w*7+i)%9))
			if i%20 == 0 {
				time.Sleep(500 * time.Microsecond)
			}
		})
	}
	if c35Has(in, "getpeers") {
		rec.run(&wg, "getpeers", in.G, in.Ops, func(w, i int) { p.GetPeers() })
	}
	if c35Has(in, "register") {
		rec.run(&wg, "register", 1, max(5, in.Ops/20), func(w, i int) {
			p.RegisterUpdatedPeersCallback(func() { cbs.Add(1) })
			time.Sleep(200 * time.Microsecond)
		})
	}
	wg.Wait()
	time.Sleep(30 * time.Millisecond)
	close(done)
	time.Sleep(30 * time.Millisecond)
	ps.Stop()
}

// ---- direct transmission: concurrent enqueue for several destinations, then Stop ---------------
func c35Transmit(in c35Input, rec *c35Rec) {
	srv := httptest.NewServer(http.HandlerFunc(func(w http.ResponseWriter, r *http.Request) {
		io.Copy(io.Discard, r.Body)
		w.Header().Set("Content-Type", "application/json")
		w.WriteHeader(200)
		json.NewEncoder(w).Encode([]map[string]int{})
	}))
	defer srv.Close()
	m := &metrics.MockMetrics{}
	m.Start()
	dt := transmit.NewDirectTransmission(types.TransmitTypeUpstream, http.DefaultTransport.(*http.Transport),
		5, 4*time.Millisecond, 2*time.Second, false, nil)
	dt.Logger = &logger.NullLogger{}
	dt.Version = "test"
	dt.Metrics = m
	if err := dt.Start(); err != nil {
		panic(err)
	}
	conf := &config.MockConfig{}
	r := rand.New(rand.NewSource(in.Seed))
	keys := 1 + r.Intn(3)
	var wg sync.WaitGroup
	mk := func(w, i int, ds string) *types.Event {
		pl := types.NewPayload(conf, map[string]any{"event_id": i, "w": w})
		pl.ExtractMetadata()
		return &types.Event{Context: context.Background(), APIHost: srv.URL, APIKey: "k", Dataset: ds,
			Environment: "test", SampleRate: 1, Timestamp: time.Now().UTC(), Data: pl}
	}
	if c35Has(in, "enqueue") {
		rec.run(&wg, "enqueue", in.G, in.Ops, func(w, i int) {
			dt.EnqueueEvent(mk(w, i, "ds0"))
			if i%40 == 0 {
				time.Sleep(time.Millisecond)
			}
		})
	}
	if c35Has(in, "multi") {
		rec.run(&wg, "multi", in.G, in.Ops, func(w, i int) {
			dt.EnqueueEvent(mk(w, i, fmt.Sprintf("ds%d", 1+(w+i)%keys)))
			if i%40 == 0 {
				time.Sleep(time.Millisecond)
			}
		})
	}
	wg.Wait()
	time.Sleep(15 * time.Millisecond)
	dt.Stop()
}
