package drive

import (
	"encoding/json"
	"fmt"
	"math/rand"
	"net/http"
	"net/http/httptest"
	"net/url"
	"path"
	"regexp"
	"sort"
	"strings"

	"github.com/honeycombio/refinery/config"
	"github.com/gorilla/mux"
	cq "github.com/honeycombio/refinery/verifharness/coqfmt"
)

// C25: the /query/ endpoints answer with data only for the exact configured token.
// Real router (LnS mux, queryTokenChecker, the four handlers over a config holding planted markers),
// everything else on the path falls through to the real proxy handler in front of a fake Honeycomb API.

type c25Input struct {
	Router   string `json:"router"`   // incoming peer
	Required string `json:"required"` // configured QueryAuthToken
	Method   string `json:"method"`
	Path     string `json:"path"` // request target (may contain %-escapes)
	Tok      string `json:"tok"`  // absent empty exact prefix extended upper lower padleft padright other
	Dup      bool   `json:"dup,omitempty"` // send a wrong value first, then the exact one (Header.Get sees the first)
}

func init() {
	Register(&Driver{ID: "C25", Gen: c25Gen, Run: c25Run, Shrink: c25Shrink})
}

var c25Paths = []string{
	"/query/trace/%s", "/query/rules/%s/%s", "/query/allrules/%s", "/query/configmetadata",
}
var c25Near = []string{
	"/query/configmetadata/", "/query/trace/", "/query/rules/json", "/query/allrules", "/query/", "/query",
	"/Query/configmetadata", "/query/CONFIGMETADATA", "/query/unknown/x", "/queryx/configmetadata",
	"//query/configmetadata", "/query//configmetadata", "/query/trace/a/b", "/query/./configmetadata",
	"/1/../query/configmetadata", "/query/rules/json/prod/extra", "/query/allrules/json/", "/query/trace/ab%2Fcd",
}
var c25Methods = []string{"GET", "HEAD", "POST", "PUT", "DELETE", "OPTIONS", "PATCH", "FOO", "get", "CONNECT", "TRACE"}
var c25Toks = []string{"absent", "empty", "exact", "exact", "exact", "prefix", "extended", "upper", "lower", "padleft", "padright", "other"}
var c25Required = []string{"", "s3cr3t-Tok3n", "s3cr3t-Tok3n", "s3cr3t-Tok3n", "T", "tok en"}

// c25Sweep enumerates documented endpoints x methods x token variants x configured/unconfigured.
func c25Sweep(i int) c25Input {
	eps := []string{"/query/trace/abc123", "/query/trace/bb11", "/query/rules/json/prod", "/query/rules/yaml/dataset1",
		"/query/allrules/json", "/query/allrules/toml", "/query/configmetadata"}
	toks := []string{"absent", "empty", "exact", "prefix", "upper", "other"}
	in := c25Input{Router: "incoming"}
	in.Path = eps[i%len(eps)]
	i /= len(eps)
	in.Method = c25Methods[i%len(c25Methods)]
	i /= len(c25Methods)
	in.Tok = toks[i%len(toks)]
	i /= len(toks)
	in.Required = []string{"s3cr3t-Tok3n", ""}[i%2]
	i /= 2
	if i%2 == 1 {
		in.Router = "peer"
	}
	return in
}

const c25SweepSize = 7 * 11 * 6 * 2 * 2

func c25Gen(r *rand.Rand, tier string, i int) any {
	// the first third of a quick run (all of it, twice over, in a thorough run) is the systematic sweep
	if (tier == "thorough" && i < 2*c25SweepSize) || (tier != "thorough" && i%3 == 0) {
		if tier == "thorough" {
			return c25Sweep(i % c25SweepSize)
		}
		return c25Sweep(r.Intn(c25SweepSize))
	}
	// every route the REAL mux holds (whatever router it was registered on) is probed too, so a revealing handler
	// reachable outside the token-checked /query/ sub-router becomes a concrete failing request
	if walked := c25WalkRoutes(); len(walked) > 0 && (i%8 == 1 || (tier == "thorough" && i%3 == 1)) {
		wr := walked[r.Intn(len(walked))]
		in := c25Input{Router: "incoming", Path: wr.path, Method: "GET"}
		if len(wr.methods) > 0 {
			in.Method = wr.methods[r.Intn(len(wr.methods))]
		}
		if r.Intn(4) == 0 {
			in.Method = c25Methods[r.Intn(len(c25Methods))]
		}
		in.Required = c25Required[r.Intn(len(c25Required))]
		in.Tok = []string{"absent", "absent", "empty", "other", "prefix", "exact"}[r.Intn(6)]
		return in
	}
	in := c25Input{Router: "incoming", Method: "GET"}
	if r.Intn(6) == 0 {
		in.Router = "peer"
	}
	in.Required = c25Required[r.Intn(len(c25Required))]
	in.Tok = c25Toks[r.Intn(len(c25Toks))]
	// every query path is tried with every method: 40% GET, the rest uniform over the others
	if r.Intn(10) < 6 {
		in.Method = c25Methods[1+r.Intn(len(c25Methods)-1)]
	}
	if r.Intn(5) == 0 {
		in.Path = c25Near[r.Intn(len(c25Near))]
	} else {
		fmts := []string{"json", "yaml", "toml", "JSON", "Yaml", "xml"}
		ids := []string{"abc123", "aa00", "bb11", "%41bc", "0"}
		dss := []string{"prod", "dataset1", "__default__"}
		switch t := c25Paths[r.Intn(len(c25Paths))]; strings.Count(t, "%s") {
		case 0:
			in.Path = t
		case 1:
			if strings.Contains(t, "trace") {
				in.Path = fmt.Sprintf(t, ids[r.Intn(len(ids))])
			} else {
				in.Path = fmt.Sprintf(t, fmts[r.Intn(len(fmts))])
			}
		default:
			in.Path = fmt.Sprintf(t, fmts[r.Intn(len(fmts))], dss[r.Intn(len(dss))])
		}
	}
	if in.Required != "" && r.Intn(12) == 0 {
		in.Dup = true
	}
	return in
}

type c25Walked struct {
	path    string
	methods []string
}

var c25WalkCache []c25Walked

// c25WalkRoutes lists every route template of the real mux (variables filled in) with its methods.
func c25WalkRoutes() []c25Walked {
	if c25WalkCache != nil {
		return c25WalkCache
	}
	g, err := respGetRigEnv("incoming", true)
	if err != nil {
		return nil
	}
	root, ok := g.handler.(*mux.Router)
	if !ok {
		return nil
	}
	fill := strings.NewReplacer("{traceID}", "abc123", "{format}", "json", "{dataset}", "prod", "{datasetName}", "ds")
	varRe := regexp.MustCompile(`\{[^}]*\}`)
	seen := map[string]bool{}
	root.Walk(func(rt *mux.Route, _ *mux.Router, _ []*mux.Route) error {
		if rt.GetHandler() == nil { // a sub-router entry, not an endpoint
			return nil
		}
		tpl, err := rt.GetPathTemplate()
		if err != nil || tpl == "" || tpl == "/" {
			return nil
		}
		p := varRe.ReplaceAllString(fill.Replace(tpl), "x")
		if strings.HasPrefix(p, "/panic") { // the intentional-panic endpoint is not a subject here
			return nil
		}
		ms, _ := rt.GetMethods()
		key := p + "|" + strings.Join(ms, ",")
		if !seen[key] {
			seen[key] = true
			c25WalkCache = append(c25WalkCache, c25Walked{path: p, methods: ms})
		}
		return nil
	})
	sort.Slice(c25WalkCache, func(a, b int) bool { return c25WalkCache[a].path < c25WalkCache[b].path })
	return c25WalkCache
}

func c25Token(required, variant string) (string, bool) {
	switch variant {
	case "absent":
		return "", false
	case "empty":
		return "", true
	case "exact":
		return required, true
	case "prefix":
		if len(required) > 0 {
			return required[:len(required)-1], true
		}
		return "", true
	case "extended":
		return required + "x", true
	case "upper":
		return strings.ToUpper(required), true
	case "lower":
		return strings.ToLower(required), true
	case "padleft":
		return " " + required, true
	case "padright":
		return required + " ", true
	}
	return "some-other-token", true
}

func c25MuxClean(p string) string {
	if p == "" {
		return "/"
	}
	if p[0] != '/' {
		p = "/" + p
	}
	np := path.Clean(p)
	if p[len(p)-1] == '/' && np != "/" {
		np += "/"
	}
	return np
}

func c25Run(raw json.RawMessage) (Case, error) {
	var in c25Input
	if err := json.Unmarshal(raw, &in); err != nil {
		return Case{}, err
	}
	if in.Router != "peer" {
		in.Router = "incoming"
	}
	if in.Method == "" {
		in.Method = "GET"
	}
	u, err := url.ParseRequestURI(in.Path)
	if err != nil || !strings.HasPrefix(in.Path, "/") {
		in.Path = "/query/configmetadata"
		u, _ = url.ParseRequestURI(in.Path)
	}
	g, err := respGetRigEnv(in.Router, true)
	if err != nil {
		return Case{}, err
	}
	g.cfg.Mux.Lock()
	g.cfg.QueryAuthToken = in.Required
	g.cfg.GetSamplerTypeVal = &config.DynamicSamplerConfig{SampleRate: 7, FieldList: []string{"SECRET-RULE-FIELD"}}
	g.cfg.GetSamplerTypeName = "SECRET-RULE-NAME"
	g.cfg.CfgMetadata = []config.ConfigMetadata{{Type: "config", ID: "SECRET-META-ID", Hash: "SECRET-META-HASH", LoadedAt: "now"}}
	g.cfg.Mux.Unlock()
	g.api.mu.Lock()
	g.api.reply = func(w http.ResponseWriter, r *http.Request, body []byte) {
		w.Header().Set("Content-Type", "text/plain")
		w.WriteHeader(200)
		w.Write([]byte("upstream-ok"))
	}
	g.api.mu.Unlock()

	req := httptest.NewRequest(in.Method, in.Path, nil)
	tok, present := c25Token(in.Required, in.Tok)
	hdr := ""
	if in.Dup {
		req.Header.Add("X-Honeycomb-Refinery-Query", "wrong-first-value")
		req.Header.Add("X-Honeycomb-Refinery-Query", in.Required)
		hdr = "wrong-first-value"
	} else if present {
		req.Header.Set("X-Honeycomb-Refinery-Query", tok)
		hdr = tok
	}
	w := newRespWriter()
	g.handler.ServeHTTP(w, req)
	status := w.effStatus()
	body := string(w.body)
	g.api.mu.Lock()
	proxied := len(g.api.seen) > 0
	g.api.mu.Unlock()

	leak := false
	for _, m := range []string{"SECRET-RULE", "SECRET-META", "self.invalid", "peer.invalid"} {
		if strings.Contains(body, m) {
			leak = true
		}
	}
	if in.Required != "" && strings.Contains(body, in.Required) && !strings.Contains(hdr, in.Required) {
		leak = true
	}
	decoded := u.Path
	segs := strings.Split(strings.TrimPrefix(decoded, "/"), "/")
	marker, formatOK := false, true
	if len(segs) >= 2 && segs[0] == "query" {
		switch segs[1] {
		case "trace":
			marker = strings.Contains(body, ".invalid")
		case "rules", "allrules":
			marker = strings.Contains(body, "SECRET-RULE-FIELD")
			if len(segs) >= 3 {
				f := strings.ToLower(segs[2])
				formatOK = f == "json" || f == "yaml" || f == "toml"
			}
		case "configmetadata":
			marker = strings.Contains(body, "SECRET-META-ID")
		}
	}
	if !(len(segs) >= 2 && segs[0] == "query") && leak {
		marker = true // a revealing handler answered on a path outside /query/
	}
	clean := c25MuxClean(decoded) == decoded
	if len(body) > 600 {
		body = body[:600]
	}
	coq := fmt.Sprintf("{| c_required := %s; c_method := %s; c_path := %s; c_clean := %s; c_hdr := %s; c_format_ok := %s; "+
		"o_status := %s; o_body := %s; o_proxied := %s; o_leak := %s; o_marker := %s |}",
		cq.Str(in.Required), cq.Str(in.Method), cq.Str(decoded), cq.Bool(clean), cq.Str(hdr), cq.Bool(formatOK),
		cq.N(uint64(status)), cq.Str(body), cq.Bool(proxied), cq.Bool(leak), cq.Bool(marker))
	b, _ := json.Marshal(in)
	exact := in.Required != "" && hdr == in.Required
	tags := []string{"router:" + in.Router, "method:" + in.Method, "tok:" + in.Tok, fmt.Sprintf("configured:%v", in.Required != ""),
		fmt.Sprintf("status:%d", status), fmt.Sprintf("proxied:%v", proxied), fmt.Sprintf("clean:%v", clean)}
	if len(segs) >= 2 && segs[0] == "query" {
		tags = append(tags, "endpoint:"+segs[1])
	}
	return Case{Input: b, Coq: coq, Key: string(b), Nontriv: !exact && strings.HasPrefix(decoded, "/query/"), Tags: tags,
		Summary: map[string]any{"router": in.Router, "configured_token": in.Required, "method": in.Method, "path": in.Path,
			"header": hdr, "header_present": present || in.Dup, "status": status, "body": body, "proxied": proxied, "leak": leak, "data_marker": marker}}, nil
}

func c25Shrink(raw json.RawMessage) []json.RawMessage {
	var in c25Input
	if json.Unmarshal(raw, &in) != nil {
		return nil
	}
	var out []json.RawMessage
	try := func(c c25Input) {
		b, _ := json.Marshal(c)
		if string(b) != string(raw) {
			out = append(out, b)
		}
	}
	if in.Dup {
		c := in
		c.Dup = false
		try(c)
	}
	if in.Router == "peer" {
		c := in
		c.Router = "incoming"
		try(c)
	}
	if in.Path != "/query/configmetadata" {
		c := in
		c.Path = "/query/configmetadata"
		try(c)
	}
	if in.Required != "T" && in.Required != "" {
		c := in
		c.Required = "T"
		try(c)
	}
	return out
}
