package drive

import (
	"encoding/json"
	"fmt"
	"math/rand"
	"runtime"
	"sort"
	"strings"
	"sync"
	"sync/atomic"
	"time"

	"github.com/honeycombio/refinery/generics"
	cq "github.com/honeycombio/refinery/verifharness/coqfmt"
	"github.com/jonboulle/clockwork"
)

// C32: generics.SetWithTTL / generics.MapWithTTL on a FakeClock.

type c32Op struct {
	Op string `json:"op"` // put del get keys vals len adv
	K  uint64 `json:"k,omitempty"`
	V  uint64 `json:"v,omitempty"`
	D  int64  `json:"d,omitempty"`
}
type c32Input struct {
	Kind string  `json:"kind"` // set | map
	TTL  int64   `json:"ttl"`
	T0   int64   `json:"t0"`
	Ops  []c32Op `json:"ops"`
	// Rounds > 0 selects the concurrent scenario: per round, an expired entry is re-added by one
	// goroutine while another goroutine queries it; afterwards every query must see the entry.
	Rounds int `json:"rounds,omitempty"`
}

func init() {
	Register(&Driver{ID: "C32", Gen: c32Gen, Run: c32Run, Shrink: c32Shrink})
}

func c32Gen(r *rand.Rand, tier string, i int) any {
	if i%8 == 7 {
		rounds := 1500
		if tier == "thorough" {
			rounds = 6000
		}
		return c32Input{Kind: []string{"set", "map"}[r.Intn(2)], T0: 1_000_000_000 + int64(r.Intn(1000)),
			TTL: []int64{1, 5, 1000}[r.Intn(3)], Rounds: rounds}
	}
	in := c32Input{Kind: []string{"set", "map"}[r.Intn(2)], T0: 1_000_000_000 + int64(r.Intn(1000))}
	in.TTL = []int64{0, 1, 5, 10, 1000, 10_000_000_000}[r.Intn(6)]
	nops := 3 + r.Intn(18)
	if tier == "thorough" {
		nops = 3 + r.Intn(40)
	}
	now := in.T0
	exp := map[uint64]int64{}
	for j := 0; j < nops; j++ {
		k := uint64(1 + r.Intn(4))
		switch x := r.Intn(100); {
		case x < 25:
			in.Ops = append(in.Ops, c32Op{Op: "put", K: k, V: uint64(r.Intn(50))})
			exp[k] = now + in.TTL
		case x < 32:
			in.Ops = append(in.Ops, c32Op{Op: "del", K: k})
			delete(exp, k)
		case x < 50:
			in.Ops = append(in.Ops, c32Op{Op: "get", K: k})
		case x < 60:
			in.Ops = append(in.Ops, c32Op{Op: "keys"})
		case x < 66:
			in.Ops = append(in.Ops, c32Op{Op: "vals"})
		case x < 74:
			in.Ops = append(in.Ops, c32Op{Op: "len"})
		default:
			// advance: aim at an expiry instant (exactly, one before, one after) most of the time
			var d int64
			var targets []int64
			for _, e := range exp {
				if e >= now {
					targets = append(targets, e)
				}
			}
			sort.Slice(targets, func(a, b int) bool { return targets[a] < targets[b] })
			if len(targets) > 0 && r.Intn(10) < 8 {
				t := targets[r.Intn(len(targets))]
				d = t - now + []int64{0, 0, 0, -1, 1}[r.Intn(5)]
				if d < 0 {
					d = 0
				}
			} else {
				d = int64(r.Intn(12))
			}
			in.Ops = append(in.Ops, c32Op{Op: "adv", D: d})
			now += d
			// after advancing, query immediately so the boundary is observed
			if r.Intn(10) < 7 {
				in.Ops = append(in.Ops, c32Op{Op: []string{"get", "keys", "len", "vals"}[r.Intn(4)], K: k})
			}
		}
	}
	return in
}

func c32Run(raw json.RawMessage) (Case, error) {
	var in c32Input
	if err := json.Unmarshal(raw, &in); err != nil {
		return Case{}, err
	}
	if in.Rounds > 0 {
		return c32RunRace(in)
	}
	clock := clockwork.NewFakeClockAt(time.Unix(0, in.T0))
	ttl := time.Duration(in.TTL)
	var set *generics.SetWithTTL[uint64]
	var mp *generics.MapWithTTL[uint64, uint64]
	if in.Kind == "set" {
		set = generics.NewSetWithTTL[uint64](ttl)
		set.Clock = clock
	} else {
		mp = generics.NewMapWithTTL[uint64, uint64](ttl, nil)
		mp.Clock = clock
	}
	var ops, obs, human []string
	now := in.T0
	expiry := map[uint64]int64{}
	atExpiryQuery := false
	for _, o := range in.Ops {
		hit := false
		for _, e := range expiry {
			if e == now {
				hit = true
			}
		}
		switch o.Op {
		case "put":
			v := o.V
			if set != nil {
				v = 0
				set.Add(o.K)
			} else {
				mp.Set(o.K, o.V)
			}
			expiry[o.K] = now + in.TTL
			ops = append(ops, cq.App("Put", cq.N(o.K), cq.N(v)))
			obs = append(obs, "ONone")
		case "del":
			if set != nil {
				set.Remove(o.K)
			} else {
				mp.Delete(o.K)
			}
			delete(expiry, o.K)
			ops = append(ops, cq.App("Del", cq.N(o.K)))
			obs = append(obs, "ONone")
		case "get":
			var v uint64
			var ok bool
			if set != nil {
				ok = set.Contains(o.K)
			} else {
				v, ok = mp.Get(o.K)
			}
			ops = append(ops, cq.App("Get", cq.N(o.K)))
			if ok {
				obs = append(obs, cq.App("OGet", cq.Some(cq.N(v))))
			} else {
				obs = append(obs, cq.App("OGet", cq.None()))
			}
			atExpiryQuery = atExpiryQuery || hit
		case "keys":
			var ks []uint64
			if set != nil {
				ks = set.Members()
			} else {
				ks = mp.Keys()
			}
			sort.Slice(ks, func(a, b int) bool { return ks[a] < ks[b] })
			ops = append(ops, "Keys")
			obs = append(obs, cq.App("OKeys", cq.ListN(ks)))
			atExpiryQuery = atExpiryQuery || hit
		case "vals":
			ops = append(ops, "Vals")
			var ps []string
			if set != nil {
				for _, k := range set.Members() {
					ps = append(ps, cq.Pair(cq.N(k), cq.N(0)))
				}
			} else {
				ks := mp.SortedKeys()
				vs := mp.SortedValues()
				if len(ks) != len(vs) {
					return Case{}, fmt.Errorf("SortedKeys/SortedValues length differ")
				}
				for i := range ks {
					ps = append(ps, cq.Pair(cq.N(ks[i]), cq.N(vs[i])))
				}
			}
			obs = append(obs, cq.App("OVals", cq.List(ps)))
			atExpiryQuery = atExpiryQuery || hit
		case "len":
			var n int
			if set != nil {
				n = set.Length()
			} else {
				n = mp.Length()
			}
			ops = append(ops, "Len")
			obs = append(obs, cq.App("OLen", cq.N(uint64(n))))
			atExpiryQuery = atExpiryQuery || hit
		case "adv":
			clock.Advance(time.Duration(o.D))
			now += o.D
			ops = append(ops, cq.App("Advance", cq.Z(o.D)))
			obs = append(obs, "ONone")
		default:
			return Case{}, fmt.Errorf("bad op %q", o.Op)
		}
		human = append(human, fmt.Sprintf("%s -> %s", ops[len(ops)-1], obs[len(obs)-1]))
	}
	coq := fmt.Sprintf("{| c_ttl := %s; c_t0 := %s; c_ops := %s; c_obs := %s |}",
		cq.Z(in.TTL), cq.Z(in.T0), cq.List(ops), cq.List(obs))
	tags := []string{"kind:" + in.Kind, fmt.Sprintf("ttl:%d", in.TTL)}
	if atExpiryQuery {
		tags = append(tags, "query-at-expiry-instant")
	}
	return Case{Coq: coq, Key: in.Kind + "|" + fmt.Sprint(in.TTL) + "|" + strings.Join(ops, ";"),
		Nontriv: atExpiryQuery, Tags: tags,
		Summary: map[string]any{"kind": in.Kind, "ttl": in.TTL, "history": human}}, nil
}

func c32Shrink(raw json.RawMessage) []json.RawMessage {
	var in c32Input
	if json.Unmarshal(raw, &in) != nil || in.Rounds > 0 {
		return nil
	}
	var out []json.RawMessage
	for i := range in.Ops {
		c := in
		c.Ops = append(append([]c32Op{}, in.Ops[:i]...), in.Ops[i+1:]...)
		b, _ := json.Marshal(c)
		out = append(out, b)
	}
	return out
}

// c32RunRace: Add/Set(k); advance past the expiry; then Add/Set(k) again concurrently with queries of k.
// Whatever the interleaving, the re-add happened, so afterwards (same instant) every query must see k.
// The emitted case is the sequential history Put; Advance; Put; Get; Keys; Len with the observations made
// AFTER the concurrent phase of the first deviating round (or of the last round when none deviates).
func c32RunRace(in c32Input) (Case, error) {
	const k = uint64(1)
	ttl := time.Duration(in.TTL)
	var obs []string
	bad := -1
	for round := 0; round < in.Rounds; round++ {
		clock := clockwork.NewFakeClockAt(time.Unix(0, in.T0))
		var set *generics.SetWithTTL[uint64]
		var mp *generics.MapWithTTL[uint64, uint64]
		if in.Kind == "set" {
			set = generics.NewSetWithTTL[uint64](ttl)
			set.Clock = clock
			set.Add(k)
		} else {
			mp = generics.NewMapWithTTL[uint64, uint64](ttl, nil)
			mp.Clock = clock
			mp.Set(k, 7)
		}
		clock.Advance(ttl + 1)
		start := make(chan struct{})
		var wg sync.WaitGroup
		wg.Add(2)
		var added atomic.Bool
		go func() {
			defer wg.Done()
			<-start
			for j := 0; j < round%5; j++ {
				runtime.Gosched()
			}
			if set != nil {
				set.Add(k)
			} else {
				mp.Set(k, 7)
			}
			added.Store(true)
		}()
		go func() {
			// query continuously until the re-add has completed, so that the re-add falls inside
			// (or right next to) a query whatever the scheduling
			defer wg.Done()
			<-start
			for j := 0; j < 4 || (!added.Load() && j < 100000); j++ {
				if set != nil {
					set.Contains(k)
				} else {
					mp.Get(k)
				}
			}
		}()
		close(start)
		wg.Wait()
		var got, keys, n string
		if set != nil {
			if set.Contains(k) {
				got = cq.App("OGet", cq.Some(cq.N(0)))
			} else {
				got = cq.App("OGet", cq.None())
			}
			keys = cq.App("OKeys", cq.ListN(set.Members()))
			n = cq.App("OLen", cq.N(uint64(set.Length())))
		} else {
			if v, ok := mp.Get(k); ok {
				got = cq.App("OGet", cq.Some(cq.N(v)))
			} else {
				got = cq.App("OGet", cq.None())
			}
			keys = cq.App("OKeys", cq.ListN(mp.SortedKeys()))
			n = cq.App("OLen", cq.N(uint64(mp.Length())))
		}
		obs = []string{"ONone", "ONone", "ONone", got, keys, n}
		if !strings.Contains(got, "Some") || !strings.Contains(n, "1%N") {
			bad = round
			break
		}
	}
	v := uint64(7)
	if in.Kind == "set" {
		v = 0
	}
	ops := []string{cq.App("Put", cq.N(k), cq.N(v)), cq.App("Advance", cq.Z(in.TTL+1)), cq.App("Put", cq.N(k), cq.N(v)),
		cq.App("Get", cq.N(k)), "Keys", "Len"}
	coq := fmt.Sprintf("{| c_ttl := %s; c_t0 := %s; c_ops := %s; c_obs := %s |}",
		cq.Z(in.TTL), cq.Z(in.T0), cq.List(ops), cq.List(obs))
	return Case{Coq: coq, Key: fmt.Sprintf("race|%s|%d|%d", in.Kind, in.TTL, in.Rounds), Nontriv: true,
		Tags: []string{"kind:" + in.Kind, "concurrent-readd-vs-query"},
		Summary: map[string]any{"kind": in.Kind, "ttl": in.TTL, "rounds": in.Rounds, "first_deviating_round": bad,
			"history": []string{"Put k", "Advance ttl+1", "Put k  ||  Get k repeatedly until the Put has completed   (concurrently)", "Get k -> " + obs[3], "Keys -> " + obs[4], "Len -> " + obs[5]}}}, nil
}
