package drive

import (
	"encoding/json"
	"fmt"
	"math/rand"
	"os"
	"path/filepath"
	"sort"
	"strings"

	"github.com/honeycombio/refinery/config"
	"github.com/honeycombio/refinery/logger"
	"github.com/honeycombio/refinery/metrics"
	"github.com/honeycombio/refinery/sample"
	"github.com/honeycombio/refinery/types"
	cq "github.com/honeycombio/refinery/verifharness/coqfmt"
	"github.com/vmihailenco/msgpack/v5"
)

// C14: real config loaded from generated YAML files (config.NewConfig), real IsLegacyAPIKey,
// DetermineSamplerKey, GetSamplerConfigForDestName, GetSamplingKeyFieldsForDestName,
// types.NewCoreFieldsUnmarshaler (+ UnmarshalMsgpEvent of a msgpack event), and the sampler the real
// SamplerFactory returns for the sampler key makeDecision computes from the trace.

type c14Def struct {
	Name   string   `json:"name"`
	Type   int      `json:"type"`             // 1 det 2 rules 3 dynamic 4 emadynamic 5 emathroughput 6 windowed 7 totalthroughput
	Fields []string `json:"fields,omitempty"` // FieldList, or (rules) the condition fields
	Down   []string `json:"down,omitempty"`   // rules: FieldList of a downstream DynamicSampler
}
type c14Dest struct {
	Key     string `json:"key"`
	Env     string `json:"env"`
	Dataset string `json:"dataset"`
}
type c14Input struct {
	Prefix string    `json:"prefix"`
	Rules  []c14Def  `json:"rules,omitempty"`
	Events []c14Dest `json:"events,omitempty"`
	// collector level: names of the rules-file entries (each a rules sampler that names itself in the
	// decision reason) and the traces driven, in this order, through one collector worker
	CollNames  []string  `json:"coll_names,omitempty"`
	CollTraces []c14Dest `json:"coll_traces,omitempty"`
	// route level: encoded {datasetName} path segments posted with a classic key through the real router
	RouteSegments []string `json:"route_segments,omitempty"`
}

func init() {
	Register(&Driver{ID: "C14", Gen: c14Gen, Run: c14Run, Shrink: c14Shrink})
}

// ---------------------------------------------------------------- generator
const c14Hex = "0123456789abcdef"
const c14Alnum = "0123456789abcdefghijklmnopqrstuvwxyz"

func c14RandFrom(r *rand.Rand, alphabet string, n int) string {
	b := make([]byte, n)
	for i := range b {
		b[i] = alphabet[r.Intn(len(alphabet))]
	}
	return string(b)
}

// a key of one of the documented shapes, or a one-edit mutant of one
func c14Key(r *rand.Rand) (string, string) {
	var k, shape string
	switch r.Intn(5) {
	case 0:
		k, shape = c14RandFrom(r, c14Hex, 32), "classic-config"
	case 1:
		k, shape = "hc"+c14RandFrom(r, "abcdefghijklmnopqrstuvwxyz", 1)+"ic_"+c14RandFrom(r, c14Alnum, 58), "classic-ingest"
	case 2:
		k, shape = c14RandFrom(r, c14Alnum+"ABCDEFGHIJKLMNOPQRSTUVWXYZ", 22), "env-config"
	case 3:
		k, shape = "hc"+c14RandFrom(r, "abcdefghijklmnopqrstuvwxyz", 1)+"ik_"+c14RandFrom(r, c14Alnum, 58), "env-ingest"
	default:
		k, shape = []string{"", "abc", strings.Repeat("a", 31), strings.Repeat("f", 33), strings.Repeat("0", 63), strings.Repeat("z", 65)}[r.Intn(6)], "malformed"
	}
	if len(k) > 0 && r.Intn(100) < 45 {
		shape += "-mutant"
		b := []byte(k)
		switch r.Intn(6) {
		case 0: // drop a byte
			i := r.Intn(len(b))
			b = append(b[:i], b[i+1:]...)
		case 1: // insert a byte
			i := r.Intn(len(b) + 1)
			b = append(b[:i], append([]byte{c14Alnum[r.Intn(36)]}, b[i:]...)...)
		case 2: // upper-case one position
			i := r.Intn(len(b))
			if b[i] >= 'a' && b[i] <= 'z' {
				b[i] -= 32
			} else {
				b[i] = 'G'
			}
		case 3: // a character just outside the allowed ranges, biased to the prefix positions
			i := r.Intn(len(b))
			if r.Intn(2) == 0 && len(b) > 6 {
				i = r.Intn(7)
			}
			b[i] = []byte{'g', 'z', '/', ':', '`', '{', '_', '-', 'A', 'F', '@', ' ', 0x7f}[r.Intn(13)]
		case 4: // swap two adjacent bytes near the prefix
			if len(b) > 7 {
				i := r.Intn(6)
				b[i], b[i+1] = b[i+1], b[i]
			}
		case 5: // a two-byte UTF-8 character (length counts bytes)
			i := r.Intn(len(b))
			b = append(b[:i], append([]byte("é"), b[i+1:]...)...)
		}
		k = string(b)
	}
	return k, shape
}

var c14Names = []string{"prod", "dev", "ds1", "ds2", "pfx.ds1", "pfx.ds2", "my env", "prod.ds1"}
var c14FieldPool = []string{"a", "b", "status", "root.svc", "root.a", "root.b", "?.NUM_DESCENDANTS", "http.route", "svc"}

// a well-formed key of the given class
func c14GoodKey(r *rand.Rand, classic bool) string {
	switch {
	case classic && r.Intn(2) == 0:
		return c14RandFrom(r, c14Hex, 32)
	case classic:
		return "hc" + c14RandFrom(r, "abcdefghijklmnopqrstuvwxyz", 1) + "ic_" + c14RandFrom(r, c14Alnum, 58)
	case r.Intn(2) == 0:
		return c14RandFrom(r, c14Alnum, 22)
	}
	return "hc" + c14RandFrom(r, "abcdefghijklmnopqrstuvwxyz", 1) + "ik_" + c14RandFrom(r, c14Alnum, 58)
}

// collector-level case: few names, equal bare names reachable through a classic-key dataset (with
// DatasetPrefix: selector "pfx.X") and through an environment key (selector "X"), both arrival orders
func c14GenColl(r *rand.Rand) c14Input {
	in := c14Input{Prefix: []string{"pfx", "pfx", "pfx", "", "X"}[r.Intn(5)]}
	pool := []string{"X", "Y", "pfx.X", "pfx.Y", "X.X"}
	in.CollNames = []string{"__default__"}
	for _, j := range r.Perm(len(pool))[:1+r.Intn(4)] {
		in.CollNames = append(in.CollNames, pool[j])
	}
	bare := []string{"X", "Y", "pfx.X", "other"}
	n := 2 + r.Intn(4)
	for k := 0; k < n; k++ {
		name := bare[r.Intn(len(bare))]
		classic := r.Intn(2) == 0
		d := c14Dest{Key: c14GoodKey(r, classic), Env: name, Dataset: name}
		if r.Intn(3) == 0 { // the field the key class does not use carries another name
			if classic {
				d.Env = bare[r.Intn(len(bare))]
			} else {
				d.Dataset = bare[r.Intn(len(bare))]
			}
		}
		in.CollTraces = append(in.CollTraces, d)
		if r.Intn(2) == 0 { // the same bare name through the other key class, right after
			in.CollTraces = append(in.CollTraces, c14Dest{Key: c14GoodKey(r, !classic), Env: name, Dataset: name})
		}
	}
	return in
}

func c14Gen(r *rand.Rand, tier string, i int) any {
	if i%4 == 1 {
		return c14GenColl(r)
	}
	if i%8 == 3 {
		return c14GenRoute(r)
	}
	in := c14Input{Prefix: []string{"", "", "pfx", "prod", "x"}[r.Intn(5)]}
	in.Rules = append(in.Rules, c14Def{Name: "__default__", Type: 1 + r.Intn(7)})
	perm := r.Perm(len(c14Names))
	for _, j := range perm[:r.Intn(5)] {
		in.Rules = append(in.Rules, c14Def{Name: c14Names[j], Type: 1 + r.Intn(7)})
	}
	for k := range in.Rules {
		d := &in.Rules[k]
		if d.Type != 1 {
			n := 1 + r.Intn(4)
			for _, j := range r.Perm(len(c14FieldPool))[:n] {
				d.Fields = append(d.Fields, c14FieldPool[j])
			}
			if r.Intn(6) == 0 { // a repeated field
				d.Fields = append(d.Fields, d.Fields[0])
			}
		}
		if d.Type == 2 && r.Intn(2) == 0 {
			d.Down = []string{c14FieldPool[r.Intn(len(c14FieldPool))], c14FieldPool[r.Intn(len(c14FieldPool))]}
		}
	}
	ne := 2 + r.Intn(4)
	for k := 0; k < ne; k++ {
		key, _ := c14Key(r)
		pool := append([]string{"", "unknown", "__default__"}, c14Names...)
		in.Events = append(in.Events, c14Dest{Key: key, Env: pool[r.Intn(len(pool))], Dataset: pool[r.Intn(len(pool))]})
	}
	return in
}

// ---------------------------------------------------------------- YAML
func c14Q(s string) string { return fmt.Sprintf("%q", s) }

func c14FieldList(fs []string) string {
	var q []string
	for _, f := range fs {
		q = append(q, c14Q(f))
	}
	return "[" + strings.Join(q, ", ") + "]"
}

func c14RulesYAML(rules []c14Def) string {
	var b strings.Builder
	b.WriteString("RulesVersion: 2\nSamplers:\n")
	for _, d := range rules {
		fmt.Fprintf(&b, "  %s:\n", c14Q(d.Name))
		fl := c14FieldList(d.Fields)
		switch d.Type {
		case 1:
			b.WriteString("    DeterministicSampler:\n      SampleRate: 2\n")
		case 2:
			b.WriteString("    RulesBasedSampler:\n      Rules:\n")
			for j, f := range d.Fields {
				fmt.Fprintf(&b, "        - Name: r%d\n          SampleRate: 1\n          Conditions:\n            - Field: %s\n              Operator: exists\n", j, c14Q(f))
			}
			if len(d.Down) > 0 {
				fmt.Fprintf(&b, "        - Name: down\n          Sampler:\n            DynamicSampler:\n              SampleRate: 2\n              FieldList: %s\n", c14FieldList(d.Down))
			}
			b.WriteString("        - Name: rest\n          SampleRate: 3\n")
		case 3:
			fmt.Fprintf(&b, "    DynamicSampler:\n      SampleRate: 2\n      FieldList: %s\n", fl)
		case 4:
			fmt.Fprintf(&b, "    EMADynamicSampler:\n      GoalSampleRate: 2\n      FieldList: %s\n", fl)
		case 5:
			fmt.Fprintf(&b, "    EMAThroughputSampler:\n      GoalThroughputPerSec: 10\n      FieldList: %s\n", fl)
		case 6:
			fmt.Fprintf(&b, "    WindowedThroughputSampler:\n      GoalThroughputPerSec: 10\n      FieldList: %s\n", fl)
		case 7:
			fmt.Fprintf(&b, "    TotalThroughputSampler:\n      GoalThroughputPerSec: 10\n      FieldList: %s\n", fl)
		}
	}
	return b.String()
}

func c14LoadConfig(in c14Input) (config.Config, func(), error) {
	dir, err := os.MkdirTemp(".", "c14cfg")
	if err != nil {
		return nil, nil, err
	}
	cleanup := func() { os.RemoveAll(dir) }
	main := "General:\n  ConfigurationVersion: 2\n"
	if in.Prefix != "" {
		main += "  DatasetPrefix: " + c14Q(in.Prefix) + "\n"
	}
	cf, rf := filepath.Join(dir, "config.yaml"), filepath.Join(dir, "rules.yaml")
	if err := os.WriteFile(cf, []byte(main), 0o644); err != nil {
		cleanup()
		return nil, nil, err
	}
	if err := os.WriteFile(rf, []byte(c14RulesYAML(in.Rules)), 0o644); err != nil {
		cleanup()
		return nil, nil, err
	}
	cfg, err := config.NewConfig(&config.CmdEnv{ConfigLocations: []string{cf}, RulesLocations: []string{rf}})
	if cfg == nil {
		cleanup()
		return nil, nil, fmt.Errorf("config not loaded: %v\n%s", err, c14RulesYAML(in.Rules))
	}
	return cfg, cleanup, nil
}

// ---------------------------------------------------------------- observation
// bytes as a Gallina str: printable ASCII literally, other bytes escaped for Model.TraceKey.ue
func c14Bytes(s string) string {
	var b strings.Builder
	esc := false
	for i := 0; i < len(s); i++ {
		c := s[i]
		if c < 32 || c > 126 || c == '\\' {
			fmt.Fprintf(&b, "\\%d;", c)
			esc = true
		} else {
			b.WriteByte(c)
		}
	}
	if esc {
		return "(ue " + cq.Str(b.String()) + ")"
	}
	return "(u " + cq.Str(s) + ")"
}

func c14BytesList(xs []string) string {
	var s []string
	for _, x := range xs {
		s = append(s, c14Bytes(x))
	}
	return cq.List(s)
}

func c14TypeTag(name string) uint64 {
	switch name {
	case "DeterministicSampler":
		return 1
	case "RulesBasedSampler":
		return 2
	case "DynamicSampler":
		return 3
	case "EMADynamicSampler":
		return 4
	case "EMAThroughputSampler":
		return 5
	case "WindowedThroughputSampler":
		return 6
	case "TotalThroughputSampler":
		return 7
	}
	return 0
}

func c14ImplTag(s sample.Sampler) uint64 {
	switch s.(type) {
	case *sample.DeterministicSampler:
		return 1
	case *sample.RulesBasedSampler:
		return 2
	case *sample.DynamicSampler:
		return 3
	case *sample.EMADynamicSampler:
		return 4
	case *sample.EMAThroughputSampler:
		return 5
	case *sample.WindowedThroughputSampler:
		return 6
	case *sample.TotalThroughputSampler:
		return 7
	}
	return 0
}

// GetSamplingFields of a definition, computed by the harness from its own description of the rules
func c14DefFields(d c14Def) []string {
	if d.Type == 1 {
		return nil
	}
	return append(append([]string{}, d.Fields...), d.Down...)
}

func c14Run(raw json.RawMessage) (Case, error) {
	var in c14Input
	if err := json.Unmarshal(raw, &in); err != nil {
		return Case{}, err
	}
	if len(in.CollTraces) > 0 {
		return c14RunColl(in)
	}
	if len(in.RouteSegments) > 0 {
		return c14RunRoute(in)
	}
	// Go map semantics: one definition per name (the first wins here, the YAML gets the same list)
	seen := map[string]bool{}
	var rules []c14Def
	for _, d := range in.Rules {
		if !seen[d.Name] && d.Type >= 1 && d.Type <= 7 {
			seen[d.Name] = true
			rules = append(rules, d)
		}
	}
	in.Rules = rules
	if !seen["__default__"] {
		in.Rules = append(in.Rules, c14Def{Name: "__default__", Type: 1})
	}
	cfg, cleanup, err := c14LoadConfig(in)
	if err != nil {
		return Case{}, err
	}
	defer cleanup()
	factory := &sample.SamplerFactory{Config: cfg, Logger: &logger.NullLogger{}, Metrics: &metrics.NullMetrics{}}
	factory.Start()
	defer factory.Stop()

	// an event carrying every bare field name of the rules file plus two others
	ev := map[string]any{"other1": 1, "zz": "x"}
	for _, d := range in.Rules {
		for _, f := range c14DefFields(d) {
			ev[strings.TrimPrefix(f, "root.")] = "v"
			ev[f] = "w"
		}
	}
	evBytes, err := msgpack.Marshal(ev)
	if err != nil {
		return Case{}, err
	}

	var rs []string
	for _, d := range in.Rules {
		rs = append(rs, fmt.Sprintf("(%s, Build_sdef %s %s)", c14Bytes(d.Name), cq.N(uint64(d.Type)), c14BytesList(c14DefFields(d))))
	}
	var es, human, tags []string
	nontriv := false
	for _, e := range in.Events {
		legacy := config.IsLegacyAPIKey(e.Key)
		skey := cfg.DetermineSamplerKey(e.Key, e.Env, e.Dataset)
		_, cfgName := cfg.GetSamplerConfigForDestName(skey)
		cfgFields := cfg.GetSamplingKeyFieldsForDestName(skey)
		cu := types.NewCoreFieldsUnmarshaler(types.CoreFieldsUnmarshalerOptions{Config: cfg, APIKey: e.Key, Env: e.Env, Dataset: e.Dataset})
		ingest := types.VerifC14SamplingKeyFields(cu)
		payload := types.NewPayload(cfg, nil)
		if err := cu.UnmarshalMsgpEvent(evBytes, &payload); err != nil {
			return Case{}, err
		}
		var memo []string
		for k := range payload.GetMemoizedFields() {
			memo = append(memo, k)
		}
		sort.Strings(memo)
		// decision time: processSpan copies the first span's destination into the trace, makeDecision
		// derives the sampler key from the trace and asks the factory
		sp := &types.Span{TraceID: "t", Event: &types.Event{APIKey: e.Key, Environment: e.Env, Dataset: e.Dataset, Data: payload}}
		tr := &types.Trace{APIHost: sp.APIHost, APIKey: sp.APIKey, Dataset: sp.Dataset, Environment: sp.Environment, TraceID: sp.TraceID}
		sel := cfg.DetermineSamplerKey(tr.APIKey, tr.Environment, tr.Dataset)
		smp := factory.GetSamplerImplementationForKey(sel)
		if smp == nil {
			return Case{}, fmt.Errorf("no sampler for %q", sel)
		}
		all, nonroot := smp.GetKeyFields()
		es = append(es, fmt.Sprintf("(Build_eobs (Build_dest %s %s %s) %s %s %s %s %s %s %s %s %s)",
			c14Bytes(e.Key), c14Bytes(e.Env), c14Bytes(e.Dataset), cq.Bool(legacy), c14Bytes(skey), cq.N(c14TypeTag(cfgName)),
			c14BytesList(cfgFields), c14BytesList(ingest), cq.N(c14ImplTag(smp)), c14BytesList(all), c14BytesList(nonroot), c14BytesList(memo)))
		human = append(human, fmt.Sprintf("key=%q(len %d) env=%q dataset=%q -> classic=%v name=%q sampler=%s ingest=%v reads=%v/%v", e.Key, len(e.Key), e.Env, e.Dataset, legacy, skey, cfgName, ingest, all, nonroot))
		if legacy {
			tags = append(tags, "classic-key")
		} else {
			tags = append(tags, "env-key")
		}
		if len(e.Key) == 32 || len(e.Key) == 64 {
			tags = append(tags, fmt.Sprintf("len%d-classic=%v", len(e.Key), legacy))
		}
		if seen[skey] {
			tags = append(tags, "named-sampler")
			nontriv = true
		} else {
			tags = append(tags, "fallback-default")
		}
	}
	if in.Prefix != "" {
		tags = append(tags, "dataset-prefix")
	}
	coq := fmt.Sprintf("(Build_case %s %s %s [] [])", c14Bytes(in.Prefix), cq.List(rs), cq.List(es))
	b, _ := json.Marshal(in)
	return Case{Coq: coq, Key: string(b), Nontriv: nontriv, Tags: sampDedupTags(tags),
		Summary: map[string]any{"prefix": in.Prefix, "rules": in.Rules, "events": human}}, nil
}

func c14RunColl(in c14Input) (Case, error) {
	seen := map[string]bool{}
	var names []string
	for _, n := range append([]string{"__default__"}, in.CollNames...) {
		if !seen[n] {
			seen[n] = true
			names = append(names, n)
		}
	}
	tagsOut, err := c14RunCollector(in.Prefix, names, in.CollTraces)
	if err != nil {
		return Case{}, err
	}
	var rs, cs, human, tags []string
	for i, n := range names {
		rs = append(rs, fmt.Sprintf("(%s, Build_sdef %s [])", c14Bytes(n), cq.N(uint64(i+1))))
	}
	nontriv := false
	bareSeen := map[string]map[bool]bool{}
	for i, d := range in.CollTraces {
		cs = append(cs, fmt.Sprintf("(Build_cobs (Build_dest %s %s %s) %s)", c14Bytes(d.Key), c14Bytes(d.Env), c14Bytes(d.Dataset), cq.N(tagsOut[i])))
		classic := config.IsLegacyAPIKey(d.Key)
		bare := d.Env
		if classic {
			bare = d.Dataset
		}
		decided := "none"
		if tagsOut[i] >= 1 && int(tagsOut[i]) <= len(names) {
			decided = names[tagsOut[i]-1]
		}
		human = append(human, fmt.Sprintf("trace %d classic=%v env=%q dataset=%q -> decided by the sampler of %q", i, classic, d.Env, d.Dataset, decided))
		if bareSeen[bare] == nil {
			bareSeen[bare] = map[bool]bool{}
		}
		bareSeen[bare][classic] = true
		if len(bareSeen[bare]) == 2 {
			nontriv = true
		}
	}
	tags = append(tags, "collector-level")
	if nontriv {
		tags = append(tags, "same-bare-name-both-key-classes")
	}
	if in.Prefix != "" {
		tags = append(tags, "dataset-prefix")
	}
	coq := fmt.Sprintf("(Build_case %s %s [] %s [])", c14Bytes(in.Prefix), cq.List(rs), cq.List(cs))
	b, _ := json.Marshal(in)
	return Case{Coq: coq, Key: string(b), Nontriv: nontriv, Tags: tags,
		Summary: map[string]any{"prefix": in.Prefix, "rules_entries": names, "collector": human}}, nil
}

func c14Shrink(raw json.RawMessage) []json.RawMessage {
	var in c14Input
	if json.Unmarshal(raw, &in) != nil {
		return nil
	}
	var out []json.RawMessage
	emit := func(c c14Input) {
		b, _ := json.Marshal(c)
		out = append(out, b)
	}
	if len(in.CollTraces) > 0 {
		if len(in.CollTraces) > 1 {
			for i := range in.CollTraces {
				c := in
				c.CollTraces = append(append([]c14Dest{}, in.CollTraces[:i]...), in.CollTraces[i+1:]...)
				emit(c)
			}
		}
		for i, n := range in.CollNames {
			if n != "__default__" {
				c := in
				c.CollNames = append(append([]string{}, in.CollNames[:i]...), in.CollNames[i+1:]...)
				emit(c)
			}
		}
		return out
	}
	if len(in.Events) > 1 {
		for i := range in.Events {
			c := in
			c.Events = append(append([]c14Dest{}, in.Events[:i]...), in.Events[i+1:]...)
			emit(c)
		}
	}
	for i, d := range in.Rules {
		if d.Name == "__default__" {
			continue
		}
		c := in
		c.Rules = append(append([]c14Def{}, in.Rules[:i]...), in.Rules[i+1:]...)
		emit(c)
	}
	for i, d := range in.Rules {
		for j := range d.Fields {
			if len(d.Fields) == 1 {
				continue
			}
			c := in
			c.Rules = append([]c14Def{}, in.Rules...)
			nd := d
			nd.Fields = append(append([]string{}, d.Fields[:j]...), d.Fields[j+1:]...)
			c.Rules[i] = nd
			emit(c)
		}
		if len(d.Down) > 0 {
			c := in
			c.Rules = append([]c14Def{}, in.Rules...)
			nd := d
			nd.Down = nil
			c.Rules[i] = nd
			emit(c)
		}
	}
	if in.Prefix != "" {
		c := in
		c.Prefix = ""
		emit(c)
	}
	return out
}
