package drive

import (
	"bytes"
	"encoding/json"
	"fmt"
	"io"
	"math/rand"
	"net/http"
	"net/http/httptest"
	"net/textproto"
	"sort"
	"strings"

	cq "github.com/honeycombio/refinery/verifharness/coqfmt"
)

// C37: requests Refinery does not handle are relayed to the Honeycomb API and the answer is relayed back.
// Real router (mux catch-all -> Router.proxy behind the real middlewares), real http.Client/Transport, a fake
// upstream on a local socket that records what it sees and answers from a script.

type c37Hdr struct {
	Name   string   `json:"name"`
	Values []string `json:"values"`
}
type c37Input struct {
	Method   string   `json:"method"`
	Target   string   `json:"target"` // escaped path + optional ?query
	Body     string   `json:"body,omitempty"`
	Headers  []c37Hdr `json:"headers,omitempty"`
	Remote   string   `json:"remote"`
	Via      string   `json:"via,omitempty"`       // direct (handler called with a recorder) | wire (real HTTP client -> real net/http server in front of the router's handler)
	BodyMode string   `json:"body_mode,omitempty"` // sized | unknown (length hidden: ContentLength -1 / chunked transfer encoding) | zero (no body at all)
	UpStatus int      `json:"up_status"`
	UpHdrs   []c37Hdr `json:"up_headers,omitempty"`
	UpBody   string   `json:"up_body,omitempty"`
}

func init() {
	Register(&Driver{ID: "C37", Gen: c37Gen, Run: c37Run, Shrink: c37Shrink})
}

var c37Targets = []string{"/", "/1/markers/ds", "/1/markers/my%20ds", "/1/boards", "/2/teams/t/environments", "/1/events",
	"/v1/metrics", "/query/unknown", "/alive/x", "/a%2Fb/c", "/%C3%BC", "/a+b", "/a;b=c", "/1/auth", "/1/batch", "/1/columns/ds/x.y-z_~"}
var c37Queries = []string{"", "", "?x=1", "?x=1&x=2&y=%20z", "?a=b=c&&", "?q=%2F%3F", "?k", "?sp=a+b"}
var c37ReqNames = []string{"X-Honeycomb-Team", "X-Honeycomb-Dataset", "Authorization", "Content-Type", "Accept", "User-Agent",
	"X-Custom-A", "x-custom-b", "Cookie", "X-Forwarded-For", "X-Request-Id", "Accept-Language"}
var c37RespNames = []string{"Content-Type", "Access-Control-Allow-Origin", "X-Upstream", "Set-Cookie", "Cache-Control", "Etag",
	"Retry-After", "Location", "X-Ratelimit-Remaining", "Vary", "Www-Authenticate"}
var c37Vals = []string{"a", "b,c", "text/plain; charset=utf-8", "application/json", "*", "k=v; Path=/", "10.0.0.1", "10.0.0.2, 10.0.0.3",
	"Bearer abc.def", "x y z", "1", "no-store", "\"tag\"", "gzip", "en-US,en;q=0.5"}
var c37Bodies = []string{"", "{}", "{\"message\":\"hi\"}", "plain text body", "\x00\x01\xfe\xffbinary", "[1,2,3]", strings.Repeat("z", 90)}

func c37GenHdrs(r *rand.Rand, pool []string, max int) []c37Hdr {
	n := r.Intn(max + 1)
	var out []c37Hdr
	used := map[string]bool{}
	for i := 0; i < n; i++ {
		name := pool[r.Intn(len(pool))]
		canon := textproto.CanonicalMIMEHeaderKey(name)
		if used[canon] {
			continue
		}
		used[canon] = true
		k := 1
		if r.Intn(3) == 0 {
			k = 2 + r.Intn(2) // repeated header
		}
		var vs []string
		for j := 0; j < k; j++ {
			vs = append(vs, c37Vals[r.Intn(len(c37Vals))])
		}
		out = append(out, c37Hdr{Name: name, Values: vs})
	}
	return out
}

func c37Gen(r *rand.Rand, tier string, i int) any {
	in := c37Input{Remote: []string{"192.0.2.1:1234", "[2001:db8::1]:443", "10.1.2.3:55555"}[r.Intn(3)]}
	in.Method = []string{"GET", "GET", "POST", "PUT", "PATCH", "DELETE", "HEAD", "OPTIONS"}[r.Intn(8)]
	in.Target = c37Targets[r.Intn(len(c37Targets))] + c37Queries[r.Intn(len(c37Queries))]
	if in.Method != "GET" && in.Method != "HEAD" && in.Method != "OPTIONS" {
		in.Body = c37Bodies[r.Intn(len(c37Bodies))]
	} else if in.Method != "HEAD" && r.Intn(4) == 0 {
		in.Body = c37Bodies[1+r.Intn(len(c37Bodies)-1)] // a body on a method that rarely carries one
	}
	in.Via, in.BodyMode = "direct", "sized"
	if r.Intn(10) < 3 {
		in.Via = "wire"
	}
	switch x := r.Intn(10); {
	case x < 4:
		in.BodyMode = "unknown" // also with an empty body: unknown length, nothing to read
	case x == 4:
		in.BodyMode = "zero"
		in.Body = ""
	}
	in.Headers = c37GenHdrs(r, c37ReqNames, 5)
	if r.Intn(4) == 0 { // X-Forwarded-For chains are the interesting header: force one, often multi-valued
		vs := []string{"10.0.0.1"}
		if r.Intn(2) == 0 {
			vs = append(vs, "10.0.0.2")
		}
		var hs []c37Hdr
		for _, h := range in.Headers {
			if textproto.CanonicalMIMEHeaderKey(h.Name) != "X-Forwarded-For" {
				hs = append(hs, h)
			}
		}
		in.Headers = append(hs, c37Hdr{Name: "X-Forwarded-For", Values: vs})
	}
	in.UpStatus = []int{200, 200, 200, 201, 202, 204, 301, 302, 307, 400, 401, 404, 429, 500, 503}[r.Intn(15)]
	in.UpHdrs = c37GenHdrs(r, c37RespNames, 5)
	if in.UpStatus/100 == 3 {
		var hs []c37Hdr
		for _, h := range in.UpHdrs {
			if textproto.CanonicalMIMEHeaderKey(h.Name) != "Location" {
				hs = append(hs, h)
			}
		}
		in.UpHdrs = append(hs, c37Hdr{Name: "Location", Values: []string{"/redirect-target"}})
	}
	if in.UpStatus != 204 && in.Method != "HEAD" {
		in.UpBody = c37Bodies[r.Intn(len(c37Bodies))]
	}
	return in
}

func c37Canon(hs []c37Hdr) []c37Hdr {
	m := map[string][]string{}
	var order []string
	for _, h := range hs {
		k := textproto.CanonicalMIMEHeaderKey(h.Name)
		if _, ok := m[k]; !ok {
			order = append(order, k)
		}
		m[k] = append(m[k], h.Values...)
	}
	out := make([]c37Hdr, 0, len(order))
	for _, k := range order {
		out = append(out, c37Hdr{Name: k, Values: m[k]})
	}
	return out
}

func c37CoqHdrs(hs []c37Hdr) string {
	sort.SliceStable(hs, func(a, b int) bool { return hs[a].Name < hs[b].Name })
	var xs []string
	for _, h := range hs {
		xs = append(xs, cq.Pair(cq.Str(h.Name), cq.ListStr(h.Values)))
	}
	return cq.List(xs)
}

func c37FromHeader(h http.Header, drop map[string]bool) []c37Hdr {
	var out []c37Hdr
	for k, vs := range h {
		if drop[k] {
			continue
		}
		out = append(out, c37Hdr{Name: k, Values: append([]string(nil), vs...)})
	}
	return out
}

func c37Run(raw json.RawMessage) (Case, error) {
	var in c37Input
	if err := json.Unmarshal(raw, &in); err != nil {
		return Case{}, err
	}
	if in.Method == "" {
		in.Method = "GET"
	}
	if !strings.HasPrefix(in.Target, "/") {
		in.Target = "/"
	}
	if in.Remote == "" {
		in.Remote = "192.0.2.1:1234"
	}
	if in.UpStatus < 200 || in.UpStatus > 599 {
		in.UpStatus = 200
	}
	if in.UpStatus == 204 || in.UpStatus == 304 || in.Method == "HEAD" {
		in.UpBody = ""
	}
	in.Headers, in.UpHdrs = c37Canon(in.Headers), c37Canon(in.UpHdrs)
	g, err := respGetRigEnv("incoming", true)
	if err != nil {
		return Case{}, err
	}
	g.api.mu.Lock()
	first := true
	g.api.reply = func(w http.ResponseWriter, r *http.Request, body []byte) {
		w.Header()["Date"] = nil // keep net/http from adding headers of its own
		if !first {
			w.Header()["Content-Type"] = nil
			w.WriteHeader(200)
			io.WriteString(w, "redirect-target-body")
			return
		}
		first = false
		hasCT := false
		for _, h := range in.UpHdrs {
			for _, v := range h.Values {
				w.Header().Add(h.Name, v)
			}
			if h.Name == "Content-Type" {
				hasCT = true
			}
		}
		if !hasCT {
			w.Header()["Content-Type"] = nil
		}
		w.WriteHeader(in.UpStatus)
		io.WriteString(w, in.UpBody)
	}
	g.api.mu.Unlock()

	if in.Via != "wire" {
		in.Via = "direct"
	}
	if in.BodyMode != "unknown" && in.BodyMode != "zero" {
		in.BodyMode = "sized"
	}
	if in.BodyMode == "zero" || in.Method == "HEAD" {
		in.Body = ""
	}
	var rd io.Reader
	switch {
	case in.BodyMode == "zero":
		rd = nil
	case in.BodyMode == "unknown":
		rd = struct{ io.Reader }{bytes.NewReader([]byte(in.Body))} // hides the length: ContentLength -1, chunked on the wire
	case in.Body != "":
		rd = bytes.NewReader([]byte(in.Body))
	}
	if in.Via == "wire" { // Go's client transport writes only the first User-Agent value: keep the input honest
		for i := range in.Headers {
			if in.Headers[i].Name == "User-Agent" && len(in.Headers[i].Values) > 1 {
				in.Headers[i].Values = in.Headers[i].Values[:1]
			}
		}
	}
	clientSent := map[string]bool{}
	for _, h := range in.Headers {
		clientSent[h.Name] = true
	}
	var gotStatus int
	var gotHeader http.Header
	var gotBody []byte
	if in.Via == "wire" {
		srv := c37WireServer(g)
		req, err := http.NewRequest(in.Method, srv.URL+in.Target, rd)
		if err != nil {
			return Case{}, err
		}
		for _, h := range in.Headers {
			for _, v := range h.Values {
				req.Header.Add(h.Name, v)
			}
		}
		req.Header.Set("X-Verif-Proxied", "1")
		resp, err := c37WireClient.Do(req)
		if err != nil {
			return Case{}, fmt.Errorf("wire request: %w", err)
		}
		gotBody, _ = io.ReadAll(resp.Body)
		resp.Body.Close()
		gotStatus, gotHeader = resp.StatusCode, resp.Header
		in.Remote = c37WireRemote // the peer address the router saw
	} else {
		req := httptest.NewRequest(in.Method, in.Target, rd)
		req.RemoteAddr = in.Remote
		for _, h := range in.Headers {
			for _, v := range h.Values {
				req.Header.Add(h.Name, v)
			}
		}
		req.Header.Set("X-Verif-Proxied", "1")
		w := newRespWriter()
		g.handler.ServeHTTP(w, req)
		gotStatus, gotHeader, gotBody = w.effStatus(), w.hdr, w.body
	}

	g.api.mu.Lock()
	seen := append([]respSeen(nil), g.api.seen...)
	g.api.mu.Unlock()
	var up respSeen
	if len(seen) > 0 {
		up = seen[0]
	}
	dropReq := map[string]bool{"X-Verif-Proxied": true, "Content-Length": true}
	if !clientSent["Accept-Encoding"] {
		dropReq["Accept-Encoding"] = true
	}
	if !clientSent["User-Agent"] {
		dropReq["User-Agent"] = true
	}
	upHdrs := c37FromHeader(up.Header, dropReq)
	gotHdrs := c37FromHeader(gotHeader, map[string]bool{"Date": true, "Content-Length": true})
	coqReq := func(method, target, body string, hs []c37Hdr, remote string) string {
		return fmt.Sprintf("{| q_method := %s; q_target := %s; q_body := %s; q_hdrs := %s; q_remote := %s |}",
			cq.Str(method), cq.Str(target), cq.Str(body), c37CoqHdrs(hs), cq.Str(remote))
	}
	coqResp := func(status int, hs []c37Hdr, body string) string {
		return fmt.Sprintf("{| s_status := %s; s_hdrs := %s; s_body := %s |}", cq.N(uint64(status)), c37CoqHdrs(hs), cq.Str(body))
	}
	coq := fmt.Sprintf("{| c_req := %s; c_up := %s; o_up_req := %s; o_up_count := %s; o_resp := %s; c_unusual_body := %s |}",
		coqReq(in.Method, in.Target, in.Body, append([]c37Hdr(nil), in.Headers...), in.Remote),
		coqResp(in.UpStatus, append([]c37Hdr(nil), in.UpHdrs...), in.UpBody),
		coqReq(up.Method, up.RequestURI, string(up.Body), upHdrs, in.Remote),
		cq.N(uint64(len(seen))),
		coqResp(gotStatus, gotHdrs, string(gotBody)),
		cq.Bool(in.BodyMode != "sized" || (in.Method != "POST" && in.Method != "PUT" && in.Method != "PATCH")))
	b, _ := json.Marshal(in)
	multi := false
	for _, h := range append(append([]c37Hdr{}, in.Headers...), in.UpHdrs...) {
		if len(h.Values) > 1 {
			multi = true
		}
	}
	tags := []string{"method:" + in.Method, fmt.Sprintf("up_status:%d", in.UpStatus), fmt.Sprintf("req_headers:%d", len(in.Headers)),
		fmt.Sprintf("resp_headers:%d", len(in.UpHdrs)), fmt.Sprintf("multi_valued:%v", multi), fmt.Sprintf("query:%v", strings.Contains(in.Target, "?")),
		fmt.Sprintf("body:%v", in.Body != ""), "via:" + in.Via, "body_mode:" + in.BodyMode}
	if in.Body != "" && (in.Method == "GET" || in.Method == "DELETE" || in.Method == "OPTIONS") {
		tags = append(tags, "body-on-unusual-method")
	}
	if clientSent["X-Forwarded-For"] {
		tags = append(tags, "client-xff")
	}
	return Case{Input: b, Coq: coq, Key: string(b), Nontriv: multi || clientSent["X-Forwarded-For"] || in.UpStatus >= 300 || in.Body != "", Tags: tags,
		Summary: map[string]any{"request": in, "upstream_saw": map[string]any{"count": len(seen), "method": up.Method, "uri": up.RequestURI,
			"headers": upHdrs, "body_len": len(up.Body)}, "client_got": map[string]any{"status": gotStatus, "headers": gotHdrs, "body_len": len(gotBody)}}}, nil
}

// a real net/http server in front of the router's handler, and a real client that neither follows redirects
// nor negotiates compression
var c37Wire *httptest.Server
var c37WireRemote string
var c37WireClient = &http.Client{
	CheckRedirect: func(*http.Request, []*http.Request) error { return http.ErrUseLastResponse },
	Transport:     &http.Transport{DisableCompression: true},
}

func c37WireServer(g *respRig) *httptest.Server {
	if c37Wire == nil {
		c37Wire = httptest.NewServer(http.HandlerFunc(func(w http.ResponseWriter, r *http.Request) {
			c37WireRemote = r.RemoteAddr
			g.handler.ServeHTTP(w, r)
		}))
	}
	return c37Wire
}

func c37Shrink(raw json.RawMessage) []json.RawMessage {
	var in c37Input
	if json.Unmarshal(raw, &in) != nil {
		return nil
	}
	var out []json.RawMessage
	try := func(c c37Input) {
		b, _ := json.Marshal(c)
		if string(b) != string(raw) {
			out = append(out, b)
		}
	}
	for i := range in.Headers {
		c := in
		c.Headers = append(append([]c37Hdr{}, in.Headers[:i]...), in.Headers[i+1:]...)
		try(c)
	}
	for i := range in.UpHdrs {
		c := in
		c.UpHdrs = append(append([]c37Hdr{}, in.UpHdrs[:i]...), in.UpHdrs[i+1:]...)
		try(c)
	}
	if in.Body != "" {
		c := in
		c.Body = ""
		try(c)
	}
	if in.UpBody != "" {
		c := in
		c.UpBody = ""
		try(c)
	}
	if in.Target != "/1/markers/ds" {
		c := in
		c.Target = "/1/markers/ds"
		try(c)
	}
	if in.Via == "wire" {
		c := in
		c.Via = "direct"
		try(c)
	}
	if in.BodyMode != "sized" && in.BodyMode != "" {
		c := in
		c.BodyMode = "sized"
		try(c)
	}
	if in.Method != "GET" {
		c := in
		c.Method = "GET"
		c.Body = ""
		try(c)
	}
	return out
}
