package drive

import (
	"context"
	"encoding/json"
	"errors"
	"fmt"
	"io"
	"math/rand"
	"net"
	"net/http"
	"net/http/httptest"
	"net/url"
	"sort"
	"strconv"
	"strings"
	"sync"
	"time"

	"github.com/jonboulle/clockwork"
	"github.com/klauspost/compress/zstd"
	"github.com/vmihailenco/msgpack/v5"

	"github.com/honeycombio/refinery/config"
	"github.com/honeycombio/refinery/logger"
	"github.com/honeycombio/refinery/metrics"
	"github.com/honeycombio/refinery/transmit"
	"github.com/honeycombio/refinery/types"
	cq "github.com/honeycombio/refinery/verifharness/coqfmt"
)

// C26: the real transmit.DirectTransmission on a FakeClock against a scripted fake HTTP server.
//
// Determinism: server behaviour is keyed by request CONTENT (id of the first event in the body and
// the attempt number), never by arrival order; transport errors are injected in Transport.Proxy
// (it sees the request and its error is returned by http.Client.Do unchanged, so a value with
// Timeout()==true takes the code's timeout branch without any real waiting); Clock.Sleep records
// the duration and returns (sends of different batches are independent); the clock is advanced
// tick by tick and only after the previous tick has been processed and all sends have finished,
// so the fake time at which a request is first seen is the dispatch instant.

type c26Op struct {
	Op   string `json:"op"` // enq adv sync burst
	N    int    `json:"n,omitempty"` // burst: number of goroutines, ids ID..ID+N-1, destination (host 0, key 0, dataset "bds<D>")
	ID   uint64 `json:"id,omitempty"`
	H    int    `json:"h,omitempty"`
	K    int    `json:"k,omitempty"`
	D    int    `json:"d,omitempty"`
	Size int    `json:"size,omitempty"`
	Dur  int64  `json:"dur,omitempty"`
}
type c26Beh struct {
	Kind     string `json:"kind"`           // ok timeout neterr http
	Code     int    `json:"code,omitempty"` // for http
	RA       string `json:"ra,omitempty"`   // none | secs:N | frac:MS | date:N | text:XXX
	Statuses []int  `json:"st,omitempty"`   // for code 200: per-event statuses, in order (may be short)
	CT       string `json:"ct,omitempty"`   // json | msgpack
	Garbage  bool   `json:"garbage,omitempty"`
}
type c26Input struct {
	Max      int                 `json:"max"`
	BT       int64               `json:"bt"`
	Compress bool                `json:"compress,omitempty"`
	Ops      []c26Op             `json:"ops"`
	Beh      map[string][]c26Beh `json:"beh,omitempty"` // key: first event id of the batch
}

var c26Hosts = []string{"http://api-a.example", "http://api-b.example:8080", "http://api-c.example", "http://bad host", "", "%zz"}
var c26Keys = []string{"key-one", "key-two", "key/3"}
var c26Datasets = []string{"ds1", "data set", "a/b", "x%20y"}

const c26FirstBadHost = 3

func c26Dest(h, k, d int) uint64 { return uint64(h*100 + k*10 + d) }

func init() {
	Register(&Driver{ID: "C26", Gen: c26Gen, Run: c26Run, Shrink: c26Shrink})
}

// ---------------------------------------------------------------- generator
func c26Gen(r *rand.Rand, tier string, i int) any {
	in := c26Input{Beh: map[string][]c26Beh{}}
	in.Max = []int{1, 2, 3, 3, 5, 8, 50}[r.Intn(7)]
	in.BT = []int64{4, 8, 1000, 1000, 1_000_003, 100_000_000}[r.Intn(6)]
	in.Compress = r.Intn(4) == 0
	q := in.BT / 4
	big := r.Intn(100) < 7     // 5 MB boundary case
	medium := r.Intn(100) < 12 // 1 MB boundary events
	nops := 4 + r.Intn(22)
	if tier == "thorough" {
		nops = 4 + r.Intn(60)
	}
	splitfail := !big && r.Intn(100) < 7 // a batch split into >= 2 requests whose first / middle request fails in transport
	concurrent := !big && !splitfail && r.Intn(100) < 10
	nh, nk, nd := 1+r.Intn(3), 1+r.Intn(2), 1+r.Intn(3)
	badHosts := r.Intn(100) < 10
	id := uint64(0)
	newEv := func(size int) c26Op {
		id++
		h := r.Intn(nh)
		if badHosts && r.Intn(4) == 0 {
			h = c26FirstBadHost + r.Intn(len(c26Hosts)-c26FirstBadHost)
		}
		return c26Op{Op: "enq", ID: id, H: h, K: r.Intn(nk), D: r.Intn(nd), Size: size}
	}
	if big {
		// five events to ONE destination whose packed sizes add up to the 5 MB limit +- 1
		in.Max = 6 + r.Intn(3)
		last := []int{999_994, 999_995, 999_996, 1_000_000, 1_000_001, 500}[r.Intn(6)]
		sizes := []int{1_000_000, 1_000_000, 1_000_000, 1_000_000, last}
		if r.Intn(3) == 0 {
			sizes = []int{999_999, 999_999, 999_999, 999_999, 999_999, 1 + r.Intn(3)*100}
		}
		r.Shuffle(len(sizes), func(a, b int) { sizes[a], sizes[b] = sizes[b], sizes[a] })
		for _, s := range sizes {
			e := newEv(s)
			e.H, e.K, e.D = 0, 0, 0
			in.Ops = append(in.Ops, e)
			if r.Intn(6) == 0 {
				in.Ops = append(in.Ops, newEv(60+r.Intn(200)))
			}
		}
		nops = r.Intn(6)
	}
	if splitfail {
		// k events of exactly 1 000 000 bytes to one destination: 4 per request, so k in 6..11 gives 2-3 requests;
		// the request starting at event 1+4p fails (network error, two timeouts, timeout then error, 429 then error)
		in.Max = 12 + r.Intn(4)
		k := 6 + r.Intn(6)
		first := id + 1
		for e := 0; e < k; e++ {
			ev := newEv(1_000_000)
			ev.H, ev.K, ev.D = 0, 0, 0
			in.Ops = append(in.Ops, ev)
		}
		parts := (k + 3) / 4
		p := r.Intn(parts - 1) // never the last one only: a non-final part fails
		fail := [][]c26Beh{{{Kind: "neterr"}}, {{Kind: "timeout"}, {Kind: "timeout"}}, {{Kind: "timeout"}, {Kind: "neterr"}},
			{{Kind: "http", Code: 429, RA: "secs:1"}, {Kind: "neterr"}}}[r.Intn(4)]
		in.Beh[strconv.FormatUint(first+uint64(4*p), 10)] = fail
		if parts > 2 && r.Intn(2) == 0 {
			in.Beh[strconv.FormatUint(first+uint64(4*((p+1)%(parts-1))), 10)] = []c26Beh{{Kind: "neterr"}}
		}
		nops = r.Intn(5)
	}
	burstNo := 0
	if concurrent {
		in.Max = 50
	}
	for j := 0; j < nops; j++ {
		if concurrent && r.Intn(3) == 0 {
			// many rounds: N goroutines released together enqueue the first events of a brand-new destination
			rounds := 10 + r.Intn(20)
			for k := 0; k < rounds; k++ {
				n := 2 + r.Intn(10)
				in.Ops = append(in.Ops, c26Op{Op: "burst", ID: id + 1, N: n, D: burstNo, Size: 80})
				id += uint64(n)
				burstNo++
			}
			continue
		}
		switch x := r.Intn(100); {
		case x < 62:
			size := 60 + r.Intn(300)
			if medium && r.Intn(4) == 0 {
				size = []int{999_999, 1_000_000, 1_000_001, 1_000_002, 1_200_000}[r.Intn(5)]
			}
			in.Ops = append(in.Ops, newEv(size))
		case x < 90:
			var d int64
			switch r.Intn(9) {
			case 0:
				d = 0
			case 1:
				d = 1
			case 2:
				d = q
			case 3:
				d = q - 1
			case 4:
				d = q + 1
			case 5:
				d = in.BT
			case 6:
				d = in.BT + q
			case 7:
				d = 5*q + int64(r.Intn(3))
			default:
				d = int64(r.Intn(int(2*in.BT + 1)))
			}
			if d < 0 {
				d = 0
			}
			if d > 40*q+40 { // keep the number of tick hops small
				d = 40 * q
			}
			in.Ops = append(in.Ops, c26Op{Op: "adv", Dur: d})
		default:
			in.Ops = append(in.Ops, c26Op{Op: "sync"})
		}
	}
	// scripted server behaviour for about half of the ids (used when the id is first in a batch)
	burstIDs := map[uint64]bool{}
	for _, o := range in.Ops {
		if o.Op == "burst" {
			for x := 0; x < o.N; x++ {
				burstIDs[o.ID+uint64(x)] = true
			}
		}
	}
	for k := uint64(1); k <= id; k++ {
		if r.Intn(100) < 50 || burstIDs[k] || (splitfail && k <= 12) {
			continue
		}
		if _, scripted := in.Beh[strconv.FormatUint(k, 10)]; scripted {
			continue
		}
		n := 1 + r.Intn(2)
		var bs []c26Beh
		for a := 0; a < n; a++ {
			bs = append(bs, c26GenBeh(r))
		}
		in.Beh[strconv.FormatUint(k, 10)] = bs
	}
	return in
}

func c26GenBeh(r *rand.Rand) c26Beh {
	ras := []string{"none", "secs:0", "secs:1", "secs:59", "secs:60", "secs:61", "secs:3600", "secs:-5", "frac:500", "frac:59999",
		"frac:60000", "date:5", "date:59", "date:61", "date:120", "date:-10", "date:0", "text:soon", "text:1m", "text:"}
	switch x := r.Intn(100); {
	case x < 14:
		return c26Beh{Kind: "timeout"}
	case x < 20:
		return c26Beh{Kind: "neterr"}
	case x < 32:
		return c26Beh{Kind: "http", Code: 429, RA: ras[r.Intn(len(ras))]}
	case x < 44:
		return c26Beh{Kind: "http", Code: 503, RA: ras[r.Intn(len(ras))]}
	case x < 56:
		return c26Beh{Kind: "http", Code: []int{400, 401, 403, 404, 413, 500, 502, 504, 201, 202, 204}[r.Intn(11)],
			RA: ras[r.Intn(len(ras))], CT: []string{"json", "msgpack"}[r.Intn(2)], Garbage: r.Intn(4) == 0}
	case x < 90:
		b := c26Beh{Kind: "http", Code: 200, CT: []string{"json", "msgpack"}[r.Intn(2)], Garbage: r.Intn(7) == 0}
		n := r.Intn(7)
		for j := 0; j < n; j++ {
			b.Statuses = append(b.Statuses, []int{202, 202, 202, 400, 429, 500, 200, 0}[r.Intn(8)])
		}
		return b
	default:
		return c26Beh{Kind: "ok"}
	}
}

// ---------------------------------------------------------------- test doubles
type c26Metrics struct {
	mu     sync.Mutex
	counts map[string]int64
	hist   map[string]int64
	ups    int64
	downs  int64
}

func (m *c26Metrics) Register(metrics.Metadata) {}
func (m *c26Metrics) Increment(name string)     { m.Count(name, 1) }
func (m *c26Metrics) Gauge(string, float64)     {}
func (m *c26Metrics) Count(name string, n int64) {
	m.mu.Lock()
	m.counts[name] += n
	m.mu.Unlock()
}
func (m *c26Metrics) Histogram(name string, _ float64) {
	m.mu.Lock()
	m.hist[name]++
	m.mu.Unlock()
}
func (m *c26Metrics) Up(name string) {
	if strings.HasSuffix(name, "_queued_items") {
		m.mu.Lock()
		m.ups++
		m.mu.Unlock()
	}
}
func (m *c26Metrics) Down(name string) {
	if strings.HasSuffix(name, "_queued_items") {
		m.mu.Lock()
		m.downs++
		m.mu.Unlock()
	}
}
func (m *c26Metrics) Get(string) (float64, bool) { return 0, false }
func (m *c26Metrics) Store(string, float64)      {}
func (m *c26Metrics) gauge() int64 {
	m.mu.Lock()
	defer m.mu.Unlock()
	return m.ups - m.downs
}
func (m *c26Metrics) histCount(suffix string) int64 {
	m.mu.Lock()
	defer m.mu.Unlock()
	var n int64
	for k, v := range m.hist {
		if strings.HasSuffix(k, suffix) {
			n += v
		}
	}
	return n
}
func (m *c26Metrics) count(suffix string) int64 {
	m.mu.Lock()
	defer m.mu.Unlock()
	var n int64
	for k, v := range m.counts {
		if strings.HasSuffix(k, suffix) {
			n += v
		}
	}
	return n
}

// FakeClock whose Sleep records the requested duration and returns at once.
type c26Clock struct {
	*clockwork.FakeClock
	mu      sync.Mutex
	sleeps  []int64
	tickers []int64 // periods requested through NewTicker, in order
}

func (c *c26Clock) NewTicker(d time.Duration) clockwork.Ticker {
	c.mu.Lock()
	c.tickers = append(c.tickers, int64(d))
	c.mu.Unlock()
	return c.FakeClock.NewTicker(d)
}

func (c *c26Clock) Sleep(d time.Duration) {
	c.mu.Lock()
	c.sleeps = append(c.sleeps, int64(d))
	c.mu.Unlock()
	// While a batch waits out its Retry-After other batches use the shared buffer pool. Play that part here, on
	// the sleeping goroutine itself: take the buffers that are in the pool right now, fill them completely, put them
	// back. A batch that still owns its buffers is unaffected; one that returned them early re-sends overwritten bytes.
	pool := transmit.VerifC26BatchBufferPool()
	var held []*[]byte
	for i := 0; i < 6; i++ {
		b := pool.Get().(*[]byte)
		full := (*b)[:cap(*b)]
		for j := range full {
			full[j] = 0xC1 // never a valid msgpack or zstd stream
		}
		held = append(held, b)
	}
	for _, b := range held {
		*b = (*b)[:0]
		pool.Put(b)
	}
}

type c26TimeoutErr struct{ timeout bool }

func (e c26TimeoutErr) Error() string   { return "verif: injected transport error" }
func (e c26TimeoutErr) Timeout() bool   { return e.timeout }
func (e c26TimeoutErr) Temporary() bool { return false }

type c26Req struct {
	first    uint64
	dest     uint64
	ids      []uint64
	size     int
	wire     int
	time     int64
	attempts int
	resps    []string // Gallina resp terms, per attempt
}

type c26Server struct {
	mu    sync.Mutex
	in    *c26Input
	clock *c26Clock
	reqs  map[uint64]*c26Req
	extra []*c26Req // requests that re-used a first id with different content
	errs  []string
	badBodies int // attempts whose body is not the serialized events of a batch
	zdec  *zstd.Decoder
}

func c26Index(xs []string, s string) int {
	for i, x := range xs {
		if x == s {
			return i
		}
	}
	return 9
}

// proxy is installed as Transport.Proxy: it identifies the batch and injects transport errors.
func (s *c26Server) proxy(req *http.Request) (*url.URL, error) {
	rc, err := req.GetBody()
	if err != nil {
		return nil, err
	}
	wire, _ := io.ReadAll(rc)
	body := wire
	if req.Header.Get("Content-Encoding") == "zstd" {
		body, err = s.zdec.DecodeAll(wire, nil)
		if err != nil {
			s.mu.Lock()
			s.badBodies++
			s.mu.Unlock()
			return nil, c26TimeoutErr{timeout: false}
		}
	}
	var evs []map[string]any
	if err := msgpack.Unmarshal(body, &evs); err != nil {
		s.mu.Lock()
		s.badBodies++
		s.mu.Unlock()
		return nil, c26TimeoutErr{timeout: false}
	}
	var ids []uint64
	for _, e := range evs {
		data, _ := e["data"].(map[string]any)
		switch v := data["id"].(type) {
		case int64:
			ids = append(ids, uint64(v))
		case uint64:
			ids = append(ids, v)
		case int8:
			ids = append(ids, uint64(v))
		case int16:
			ids = append(ids, uint64(v))
		case int32:
			ids = append(ids, uint64(v))
		case uint8:
			ids = append(ids, uint64(v))
		case uint16:
			ids = append(ids, uint64(v))
		case uint32:
			ids = append(ids, uint64(v))
		default:
			ids = append(ids, 0)
		}
	}
	if len(ids) == 0 {
		ids = []uint64{0}
	}
	// destination as the server would see it
	host := req.URL.Scheme + "://" + req.URL.Host
	ds := ""
	if p := req.URL.EscapedPath(); strings.HasPrefix(p, "/1/batch/") {
		ds, _ = url.PathUnescape(strings.TrimPrefix(p, "/1/batch/"))
	} else {
		ds = "?" + p
	}
	dest := c26Dest(c26Index(c26Hosts, host), c26Index(c26Keys, req.Header.Get("X-Honeycomb-Team")), c26Index(c26Datasets, ds))
	if strings.HasPrefix(ds, "bds") { // destinations of the concurrent first-event bursts
		if n, err := strconv.Atoi(strings.TrimPrefix(ds, "bds")); err == nil && c26Index(c26Hosts, host) == 0 && c26Index(c26Keys, req.Header.Get("X-Honeycomb-Team")) == 0 {
			dest = uint64(1000 + n)
		}
	}

	s.mu.Lock()
	defer s.mu.Unlock()
	first := ids[0]
	rq := s.reqs[first]
	same := rq != nil && len(rq.ids) == len(ids) && rq.dest == dest
	if same {
		for i := range ids {
			same = same && ids[i] == rq.ids[i]
		}
	}
	if rq == nil {
		rq = &c26Req{first: first, dest: dest, ids: ids, size: len(body), wire: len(wire), time: s.clock.Now().UnixNano()}
		s.reqs[first] = rq
	} else if !same {
		rq = &c26Req{first: first, dest: dest, ids: ids, size: len(body), wire: len(wire), time: s.clock.Now().UnixNano()}
		s.extra = append(s.extra, rq)
	}
	attempt := rq.attempts
	rq.attempts++
	beh := c26Beh{Kind: "ok"}
	if sc := s.in.Beh[strconv.FormatUint(first, 10)]; attempt < len(sc) {
		beh = sc[attempt]
	}
	switch beh.Kind {
	case "timeout":
		rq.resps = append(rq.resps, "RTimeout")
		return nil, c26TimeoutErr{timeout: true}
	case "neterr":
		rq.resps = append(rq.resps, "RNetErr")
		return nil, c26TimeoutErr{timeout: false}
	}
	req.Header.Set("X-Verif-Batch", fmt.Sprintf("%d:%d:%d", first, attempt, len(ids)))
	return nil, nil
}

func (s *c26Server) ServeHTTP(w http.ResponseWriter, r *http.Request) {
	io.Copy(io.Discard, r.Body)
	var first uint64
	var attempt, n int
	if _, err := fmt.Sscanf(r.Header.Get("X-Verif-Batch"), "%d:%d:%d", &first, &attempt, &n); err != nil {
		s.mu.Lock()
		s.errs = append(s.errs, "request without batch mark")
		s.mu.Unlock()
		w.WriteHeader(500)
		return
	}
	s.mu.Lock()
	beh := c26Beh{Kind: "ok"}
	if sc := s.in.Beh[strconv.FormatUint(first, 10)]; attempt < len(sc) {
		beh = sc[attempt]
	}
	now := s.clock.Now()
	s.mu.Unlock()

	code := 200
	statuses := make([]int, n)
	for i := range statuses {
		statuses[i] = 202
	}
	ct := "json"
	garbage := false
	sleep := int64(0)
	if beh.Kind == "http" {
		code = beh.Code
		if code == 200 {
			statuses = beh.Statuses
		} else {
			statuses = nil
		}
		if beh.CT != "" {
			ct = beh.CT
		}
		garbage = beh.Garbage
		if code == 429 || code == 503 {
			sleep = int64(time.Second)
		}
		cls, val, _ := strings.Cut(beh.RA, ":")
		switch cls {
		case "secs":
			w.Header().Set("Retry-After", val)
			v, _ := strconv.ParseInt(val, 10, 64)
			sleep = v * int64(time.Second)
		case "frac":
			v, _ := strconv.ParseInt(val, 10, 64)
			w.Header().Set("Retry-After", fmt.Sprintf("%d.%03d", v/1000, v%1000))
			sleep = v * int64(time.Millisecond)
		case "date":
			v, _ := strconv.ParseInt(val, 10, 64)
			t := now.Add(time.Duration(v) * time.Second).UTC()
			hdr := t.Format(http.TimeFormat)
			w.Header().Set("Retry-After", hdr)
			pt, _ := http.ParseTime(hdr)
			sleep = int64(pt.Sub(now))
		case "text":
			if val != "" {
				w.Header().Set("Retry-After", val)
			}
			if val == "1m" { // "1m"+"s" parses as one millisecond
				sleep = int64(time.Millisecond)
			}
		}
		if code != 429 && code != 503 {
			sleep = 0
		}
	}
	var body []byte
	if code == 200 {
		rs := make([]map[string]any, len(statuses))
		for i, st := range statuses {
			rs[i] = map[string]any{"status": st}
		}
		if ct == "msgpack" {
			body, _ = msgpack.Marshal(rs)
		} else {
			body, _ = json.Marshal(rs)
		}
		if garbage {
			statuses = nil
			if ct == "msgpack" {
				body = []byte{0xc1, 0xc1}
			} else {
				body = []byte("}{ not json")
			}
		}
	} else if garbage {
		body = []byte{0xc1, 0x00}
	} else if ct == "msgpack" {
		body, _ = msgpack.Marshal(map[string]any{"error": "scripted"})
	} else {
		body = []byte(`{"error":"scripted"}`)
	}
	if ct == "msgpack" {
		w.Header().Set("Content-Type", "application/msgpack")
	} else {
		w.Header().Set("Content-Type", "application/json")
	}
	sts := make([]int64, len(statuses))
	for i, st := range statuses {
		sts[i] = int64(st)
	}
	term := cq.App("RHttp", cq.Z(int64(code)), cq.Z(sleep), cq.ListZ(sts))
	s.mu.Lock()
	if rq := s.reqs[first]; rq != nil {
		rq.resps = append(rq.resps, term)
	}
	s.mu.Unlock()
	w.WriteHeader(code)
	w.Write(body)
}

// ---------------------------------------------------------------- run
var c26Cfg = &config.MockConfig{}

func c26MakeEvent(op c26Op) (*types.Event, int, error) {
	host := "http://unknown"
	if op.H >= 0 && op.H < len(c26Hosts) {
		host = c26Hosts[op.H]
	}
	mk := func(pad int) *types.Event {
		return &types.Event{
			Context: context.Background(), APIHost: host, APIKey: c26Keys[op.K%len(c26Keys)], Dataset: c26Datasets[op.D%len(c26Datasets)],
			SampleRate: 1, Timestamp: time.Unix(1_700_000_000, 0),
			Data: types.NewPayload(c26Cfg, map[string]any{"id": int64(op.ID), "p": strings.Repeat("x", pad)}),
		}
	}
	pad := 0
	ev := mk(pad)
	size, err := transmit.VerifC26PackedSize(ev)
	if err != nil {
		return nil, 0, err
	}
	for iter := 0; iter < 5 && size != op.Size && op.Size > 0; iter++ {
		pad += op.Size - size
		if pad < 0 {
			pad = 0
		}
		ev = mk(pad)
		if size, err = transmit.VerifC26PackedSize(ev); err != nil {
			return nil, 0, err
		}
		if pad == 0 && size > op.Size {
			break
		}
	}
	return ev, size, nil
}

func c26Run(raw json.RawMessage) (Case, error) {
	var in c26Input
	if err := json.Unmarshal(raw, &in); err != nil {
		return Case{}, err
	}
	if in.Max < 1 || in.BT < 4 {
		return Case{}, fmt.Errorf("C26: input outside the property's premise (MaxBatchSize >= 1, BatchTimeout >= 4ns)")
	}
	clock := &c26Clock{FakeClock: clockwork.NewFakeClockAt(time.Unix(1_700_000_100, 250_000_000))}
	zdec, _ := zstd.NewReader(nil)
	defer zdec.Close()
	srv := &c26Server{in: &in, clock: clock, reqs: map[uint64]*c26Req{}, zdec: zdec}
	hs := httptest.NewServer(srv)
	defer hs.Close()
	addr := hs.Listener.Addr().String()
	tr := &http.Transport{
		Proxy: srv.proxy,
		DialContext: func(ctx context.Context, network, _ string) (net.Conn, error) {
			return (&net.Dialer{}).DialContext(ctx, network, addr)
		},
		MaxIdleConnsPerHost: 8,
	}
	defer tr.CloseIdleConnections()
	m := &c26Metrics{counts: map[string]int64{}, hist: map[string]int64{}}
	dt := transmit.NewDirectTransmission(types.TransmitTypeUpstream, tr, in.Max, time.Duration(in.BT), 30*time.Second, in.Compress, nil)
	dt.Config = c26Cfg
	dt.Logger = &logger.NullLogger{}
	dt.Version = "verif"
	dt.Metrics = m
	dt.Clock = clock
	if err := dt.Start(); err != nil {
		return Case{}, err
	}
	ctx, cancel := context.WithTimeout(context.Background(), 10*time.Second)
	defer cancel()
	if err := clock.BlockUntilContext(ctx, 2); err != nil { // both tickers exist
		return Case{}, errors.New("C26: tickers were not created")
	}
	t0 := clock.Now().UnixNano()
	// the period the stale-batch ticker was really created with (the first ticker of dispatchStaleBatches)
	clock.mu.Lock()
	q := int64(0)
	if len(clock.tickers) > 0 {
		q = clock.tickers[0]
	}
	clock.mu.Unlock()
	if q <= 0 {
		return Case{}, errors.New("C26: stale-batch ticker period not observed")
	}
	now, nextTick := t0, t0+q

	syncTimeouts := 0
	syncWait := func() (int64, int64) {
		limit := 3 * time.Second
		if syncTimeouts > 0 {
			limit = 50 * time.Millisecond
		}
		deadline := time.Now().Add(limit)
		for {
			g, p := m.gauge(), int64(dt.VerifC26Pending())
			if g == p {
				return g, p
			}
			if time.Now().After(deadline) {
				syncTimeouts++
				return g, p
			}
			time.Sleep(20 * time.Microsecond)
		}
	}

	var ops, syncs, human []string
	var burstIDs []uint64
	burstDests := map[uint64]bool{}
	var bad = map[uint64]bool{}
	tags := map[string]bool{}
	for _, o := range in.Ops {
		switch o.Op {
		case "enq":
			ev, size, err := c26MakeEvent(o)
			if err != nil {
				return Case{}, err
			}
			dest := c26Dest(o.H, o.K%len(c26Keys), o.D%len(c26Datasets))
			if o.H >= c26FirstBadHost {
				bad[dest] = true
				tags["bad-host"] = true
			}
			if size > 1_000_000 {
				tags["oversize-event"] = true
			} else if size >= 999_990 {
				tags["event-at-1MB-limit"] = true
			}
			dt.EnqueueEvent(ev)
			ops = append(ops, fmt.Sprintf("Enq {| eid := %s; edest := %s; esize := %s |}", cq.N(o.ID), cq.N(dest), cq.Z(int64(size))))
			human = append(human, fmt.Sprintf("enq id=%d dest=%d size=%d", o.ID, dest, size))
		case "adv":
			if o.Dur < 0 {
				return Case{}, fmt.Errorf("C26: negative advance")
			}
			target := now + o.Dur
			for nextTick <= target {
				syncWait()
				before := m.histCount("_stale_dispatch_time")
				clock.Advance(time.Duration(nextTick - now))
				now = nextTick
				nextTick += q
				deadline := time.Now().Add(10 * time.Second)
				for m.histCount("_stale_dispatch_time") == before {
					if time.Now().After(deadline) {
						return Case{}, errors.New("C26: stale-batch tick was not processed")
					}
					time.Sleep(10 * time.Microsecond)
				}
			}
			if target > now {
				syncWait()
				clock.Advance(time.Duration(target - now))
				now = target
			}
			ops = append(ops, cq.App("Adv", cq.Z(o.Dur)))
			human = append(human, fmt.Sprintf("adv %d", o.Dur))
		case "burst":
			if o.N < 1 || o.N > 64 {
				return Case{}, fmt.Errorf("C26: bad burst size")
			}
			dest := uint64(1000 + o.D)
			burstDests[dest] = true
			evs := make([]*types.Event, o.N)
			for x := 0; x < o.N; x++ {
				ev, size, err := c26MakeEvent(c26Op{ID: o.ID + uint64(x), Size: 80})
				if err != nil {
					return Case{}, err
				}
				ev.Dataset = fmt.Sprintf("bds%d", o.D)
				evs[x] = ev
				burstIDs = append(burstIDs, o.ID+uint64(x))
				ops = append(ops, fmt.Sprintf("Enq {| eid := %s; edest := %s; esize := %s |}", cq.N(o.ID+uint64(x)), cq.N(dest), cq.Z(int64(size))))
			}
			start := make(chan struct{})
			var wg sync.WaitGroup
			for x := range evs {
				wg.Add(1)
				go func(ev *types.Event) {
					defer wg.Done()
					<-start
					dt.EnqueueEvent(ev)
				}(evs[x])
			}
			close(start)
			wg.Wait()
			tags["concurrent-first-events"] = true
			human = append(human, fmt.Sprintf("burst of %d goroutines, ids %d.., new destination %d", o.N, o.ID, dest))
		case "sync":
			g, p := syncWait()
			ops = append(ops, "Sync")
			syncs = append(syncs, cq.Pair(cq.Z(g), cq.Z(p)))
			human = append(human, fmt.Sprintf("sync gauge=%d pending=%d", g, p))
		default:
			return Case{}, fmt.Errorf("bad op %q", o.Op)
		}
	}
	syncWait()
	if err := dt.Stop(); err != nil {
		return Case{}, err
	}
	ops = append(ops, "Stop")
	gauge := m.gauge()

	srv.mu.Lock()
	defer srv.mu.Unlock()
	if len(srv.errs) > 0 {
		return Case{}, fmt.Errorf("C26 fake server: %s", strings.Join(srv.errs, "; "))
	}
	var reqs []*c26Req
	for _, rq := range srv.reqs {
		reqs = append(reqs, rq)
	}
	reqs = append(reqs, srv.extra...)
	sort.SliceStable(reqs, func(a, b int) bool { return reqs[a].first < reqs[b].first })
	var reqTerms, behTerms []string
	seenBeh := map[uint64]bool{}
	for _, rq := range reqs {
		if burstDests[rq.dest] {
			// the order in which concurrently enqueued events entered the batch is a scheduling choice
			sort.Slice(rq.ids, func(a, b int) bool { return rq.ids[a] < rq.ids[b] })
			rq.first = rq.ids[0]
		}
	}
	sort.SliceStable(reqs, func(a, b int) bool { return reqs[a].first < reqs[b].first })
	for _, rq := range reqs {
		reqTerms = append(reqTerms, fmt.Sprintf("{| o_first := %s; o_dest := %s; o_ids := %s; o_size := %s; o_wire := %s; o_attempts := %s; o_time := %s |}",
			cq.N(rq.first), cq.N(rq.dest), cq.ListN(rq.ids), cq.Z(int64(rq.size)), cq.Z(int64(rq.wire)), cq.N(uint64(rq.attempts)), cq.Z(rq.time)))
		if !seenBeh[rq.first] {
			seenBeh[rq.first] = true
			behTerms = append(behTerms, cq.Pair(cq.N(rq.first), cq.List(rq.resps)))
		}
		human = append(human, fmt.Sprintf("request first=%d dest=%d ids=%v size=%d attempts=%d t=+%d resps=%v", rq.first, rq.dest, rq.ids, rq.size, rq.attempts, rq.time-t0, rq.resps))
		if rq.attempts > 1 {
			tags["retried"] = true
		}
		if rq.size > 4_000_000 {
			tags["body-near-5MB"] = true
		}
		if rq.time > t0 && (rq.time-t0)%q == 0 {
			tags["dispatch-at-tick-instant"] = true
		}
		if len(rq.ids) == in.Max {
			tags["full-batch"] = true
		}
	}
	clock.mu.Lock()
	sleeps := append([]int64{}, clock.sleeps...)
	clock.mu.Unlock()
	sort.Slice(sleeps, func(a, b int) bool { return sleeps[a] < sleeps[b] })
	var badList []uint64
	for d := range bad {
		badList = append(badList, d)
	}
	sort.Slice(badList, func(a, b int) bool { return badList[a] < badList[b] })
	cnt := []int64{m.count("_response_20x"), m.count("_response_errors"), m.count("_send_errors"), m.count("_send_retries"),
		m.count("_batches_sent"), m.count("_messages_sent")}
	human = append(human, fmt.Sprintf("final gauge=%d counters[20x,resp_err,send_err,retries,batches,msgs]=%v sleeps=%v", gauge, cnt, sleeps))
	if len(sleeps) > 0 {
		tags["retry-after-sleep"] = true
	}
	if in.Compress {
		tags["zstd"] = true
	}
	tags[fmt.Sprintf("max:%d", in.Max)] = true
	tags[fmt.Sprintf("bt:%d", in.BT)] = true
	coq := fmt.Sprintf("{| c_max := %s; c_bt := %s; c_t0 := %s; c_ops := %s; c_beh := %s; c_bad := %s; c_reqs := %s; c_sleeps := %s; c_syncs := %s; c_sync_timeouts := %s; c_gauge := %s; c_cnt := %s; c_burst := %s; c_bad_bodies := %s |}",
		cq.Z(int64(in.Max)), cq.Z(in.BT), cq.Z(t0), cq.List(ops), cq.List(behTerms), cq.ListN(badList), cq.List(reqTerms),
		cq.ListZ(sleeps), cq.List(syncs), cq.N(uint64(syncTimeouts)), cq.Z(gauge), cq.ListZ(cnt), cq.ListN(burstIDs), cq.N(uint64(srv.badBodies)))
	var tl []string
	nontriv := false
	for t := range tags {
		tl = append(tl, t)
		if t == "retried" || t == "oversize-event" || t == "body-near-5MB" || t == "dispatch-at-tick-instant" || t == "concurrent-first-events" {
			nontriv = true
		}
	}
	sort.Strings(tl)
	return Case{Coq: coq, Key: strings.Join(ops, ";") + "|" + strings.Join(behTerms, ";"), Nontriv: nontriv, Tags: tl,
		Summary: map[string]any{"max": in.Max, "bt": in.BT, "compress": in.Compress, "history": human}}, nil
}

// ---------------------------------------------------------------- shrink
func c26Shrink(raw json.RawMessage) []json.RawMessage {
	var in c26Input
	if json.Unmarshal(raw, &in) != nil {
		return nil
	}
	var out []json.RawMessage
	emit := func(c c26Input) {
		b, _ := json.Marshal(c)
		out = append(out, b)
	}
	for i := range in.Ops {
		c := in
		c.Ops = append(append([]c26Op{}, in.Ops[:i]...), in.Ops[i+1:]...)
		emit(c)
	}
	var bkeys []string
	for k := range in.Beh {
		bkeys = append(bkeys, k)
	}
	sort.Strings(bkeys)
	for _, k := range bkeys {
		c := in
		c.Beh = map[string][]c26Beh{}
		for k2, v := range in.Beh {
			if k2 != k {
				c.Beh[k2] = v
			}
		}
		emit(c)
	}
	for i, o := range in.Ops {
		if o.Op == "enq" && o.Size > 100 && o.Size < 900_000 {
			c := in
			c.Ops = append([]c26Op{}, in.Ops...)
			c.Ops[i].Size = 60
			emit(c)
		}
	}
	if in.Compress {
		c := in
		c.Compress = false
		emit(c)
	}
	return out
}
