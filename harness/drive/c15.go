package drive

import (
	"context"
	"encoding/json"
	"fmt"
	"math/rand"
	"strings"
	"time"

	"github.com/honeycombio/refinery/collect"
	"github.com/honeycombio/refinery/config"
	"github.com/honeycombio/refinery/internal/peer"
	"github.com/honeycombio/refinery/logger"
	"github.com/honeycombio/refinery/metrics"
	cq "github.com/honeycombio/refinery/verifharness/coqfmt"
	"github.com/jonboulle/clockwork"
)

// C15: the real collect.StressRelief on a FakeClock. Metric readings go in through MockMetrics,
// peer reports through the real subscription callback (synchronous pubsub double, real message
// codec), reloads through MockConfig + UpdateFromConfig, recalculations by calling Recalc().
// The background loop of Start() is parked on a ticker that never fires.

type c15Cfg struct {
	Mode  string `json:"mode"`
	Act   uint   `json:"act"`
	Deact uint   `json:"deact"`
	MinD  int64  `json:"mind"`
}
type c15Op struct {
	Op string `json:"op"` // recalc peer adv config
	// recalc: metric readings (numerators; the capacities are fixed below)
	IQ  float64 `json:"iq,omitempty"`
	PQ  float64 `json:"pq,omitempty"`
	Mem float64 `json:"mem,omitempty"`
	// peer
	K   uint64 `json:"k,omitempty"`
	Lvl uint64 `json:"lvl,omitempty"`
	// adv
	D int64 `json:"d,omitempty"`
	// config
	Cfg *c15Cfg `json:"cfg,omitempty"`
}
type c15Input struct {
	T0   int64   `json:"t0"`
	Cfg0 c15Cfg  `json:"cfg0"`
	Ops  []c15Op `json:"ops"`
}

const (
	c15Cap      = 10000.0 // INCOMING_CAP and PEER_CAP
	c15MaxAlloc = 1000000.0
	c15PT       = int64(10 * time.Second)
)

func init() {
	Register(&Driver{ID: "C15", Gen: c15Gen, Run: c15Run, Shrink: c15Shrink})
}

// readings that make the incoming-queue sqrt algorithm yield exactly level l (0..100):
// l*l+l lies strictly between the squares, so float rounding cannot move the truncation.
func c15IQ(l uint64) float64 {
	if l == 0 {
		return 0
	}
	return float64(l*l + l)
}

func c15GenCfg(r *rand.Rand) c15Cfg {
	modes := []string{"monitor", "monitor", "monitor", "monitor", "never", "always", "", "bogus"}
	acts := []uint{90, 80, 50, 100, 1, 0}
	c := c15Cfg{Mode: modes[r.Intn(len(modes))], Act: acts[r.Intn(len(acts))]}
	switch x := r.Intn(10); {
	case x < 6: // documented: deact <= act
		if c.Act > 0 {
			c.Deact = uint(r.Intn(int(c.Act) + 1))
		}
		if r.Intn(3) == 0 {
			c.Deact = c.Act
		}
	case x < 8:
		c.Deact = []uint{75, 65, 10, 0}[r.Intn(4)]
	default: // inverted
		c.Deact = c.Act + uint(1+r.Intn(10))
	}
	c.MinD = []int64{10_000_000_000, 5_000_000_000, 1_000_000_000, 0, 1, 3_000_000_000}[r.Intn(6)]
	return c
}

func c15Gen(r *rand.Rand, tier string, i int) any {
	in := c15Input{T0: 1_000_000_000 + int64(r.Intn(1000)), Cfg0: c15GenCfg(r)}
	if r.Intn(4) > 0 {
		in.Cfg0.Mode = "monitor"
	}
	nops := 6 + r.Intn(26)
	if tier == "thorough" {
		nops = 6 + r.Intn(70)
	}
	cur := in.Cfg0
	now := in.T0
	var lastAbove int64 = -1 // instant of the last recalc generated with a level aimed >= deact
	peerTs := map[uint64]int64{}
	big := r.Intn(12) == 0 // some cases leave the [0,100] range (still inside the validated float range)
	level := func() uint64 {
		cands := []uint64{0, 100, uint64(cur.Act), uint64(cur.Deact)}
		if cur.Act > 0 {
			cands = append(cands, uint64(cur.Act)-1)
		}
		if cur.Deact > 0 {
			cands = append(cands, uint64(cur.Deact)-1)
		}
		cands = append(cands, uint64(cur.Act)+1, uint64(cur.Deact)+1)
		var l uint64
		if r.Intn(10) < 7 {
			l = cands[r.Intn(len(cands))]
		} else {
			l = uint64(r.Intn(101))
		}
		if l > 100 {
			l = 100
		}
		return l
	}
	for j := 0; j < nops; j++ {
		switch x := r.Intn(100); {
		case x < 38:
			op := c15Op{Op: "recalc"}
			l := level()
			switch y := r.Intn(10); {
			case y < 7:
				op.IQ = c15IQ(l)
			case y < 8:
				op.PQ = c15IQ(l)
				op.IQ = float64(r.Intn(50))
			default:
				op.Mem = float64(r.Intn(1_200_000))
				op.IQ = c15IQ(uint64(r.Intn(60)))
			}
			in.Ops = append(in.Ops, op)
			if l >= uint64(cur.Deact) {
				lastAbove = now
			}
		case x < 56:
			k := uint64(r.Intn(4)) // 0 = a message carrying the node's own id
			if k == 0 && r.Intn(3) > 0 {
				k = 1
			}
			l := level()
			if r.Intn(4) == 0 {
				l = 0
			}
			if big && r.Intn(2) == 0 {
				l = []uint64{101, 150, 1000, 65535, 1000000}[r.Intn(5)]
			}
			in.Ops = append(in.Ops, c15Op{Op: "peer", K: k, Lvl: l})
			peerTs[k] = now
		case x < 64:
			c := c15GenCfg(r)
			if r.Intn(2) == 0 { // change one thing only
				c2 := cur
				switch r.Intn(4) {
				case 0:
					c2.Mode = c.Mode
				case 1:
					c2.Act = c.Act
				case 2:
					c2.Deact = c.Deact
				default:
					c2.MinD = c.MinD
				}
				c = c2
			}
			cur = c
			in.Ops = append(in.Ops, c15Op{Op: "config", Cfg: &c})
		default:
			var targets []int64
			if lastAbove >= 0 {
				for _, dd := range []int64{-1, 0, 1} {
					targets = append(targets, lastAbove+cur.MinD+dd)
				}
			}
			for _, ts := range peerTs {
				for _, dd := range []int64{-1, 0, 1} {
					targets = append(targets, ts+c15PT+dd)
				}
			}
			var d int64
			var ok []int64
			for _, t := range targets {
				if t > now {
					ok = append(ok, t)
				}
			}
			if len(ok) > 0 && r.Intn(10) < 7 {
				d = ok[r.Intn(len(ok))] - now
			} else {
				d = []int64{1, 100_000_000, 1_000_000_000, 2_500_000_000, 5_000_000_000, 10_000_000_000}[r.Intn(6)]
			}
			in.Ops = append(in.Ops, c15Op{Op: "adv", D: d})
			now += d
			if r.Intn(10) < 8 {
				l := level()
				if r.Intn(2) == 0 && cur.Deact > 0 {
					l = uint64(r.Intn(int(cur.Deact))) // below deact: is the hold over?
				}
				in.Ops = append(in.Ops, c15Op{Op: "recalc", IQ: c15IQ(l)})
				if l >= uint64(cur.Deact) {
					lastAbove = now
				}
			}
		}
	}
	in.Ops = append(in.Ops, c15Op{Op: "recalc", IQ: c15IQ(level())})
	return in
}

func c15CoqCfg(c c15Cfg) string {
	m := "MNever"
	switch c.Mode {
	case "monitor":
		m = "MMonitor"
	case "always":
		m = "MAlways"
	}
	return fmt.Sprintf("{| c_mode := %s; c_act := %s; c_deact := %s; c_mind := %s |}", m, cq.N(uint64(c.Act)), cq.N(uint64(c.Deact)), cq.Z(c.MinD))
}

func c15Run(raw json.RawMessage) (Case, error) {
	var in c15Input
	if err := json.Unmarshal(raw, &in); err != nil {
		return Case{}, err
	}
	fc := clockwork.NewFakeClockAt(time.Unix(0, in.T0))
	mm := &metrics.MockMetrics{}
	mm.Start()
	ps := newSmSyncPubSub()
	mkCfg := func(c c15Cfg) *config.MockConfig {
		return &config.MockConfig{StressRelief: config.StressReliefConfig{
			Mode: c.Mode, ActivationLevel: c.Act, DeactivationLevel: c.Deact, SamplingRate: 2,
			MinimumActivationDuration: config.Duration(c.MinD)}}
	}
	sr := &collect.StressRelief{
		Clock: smIdleTickerClock{fc}, Done: make(chan struct{}), Logger: &logger.NullLogger{},
		RefineryMetrics: mm, PubSub: ps, Health: smNoHealth{}, Peer: peer.NewMockPeers(nil, "host0"),
		Config: mkCfg(in.Cfg0),
	}
	if err := sr.Start(); err != nil {
		return Case{}, err
	}
	defer close(sr.Done)
	sr.UpdateFromConfig()
	mm.Store(collect.DENOMINATOR_INCOMING_CAP, c15Cap)
	mm.Store(collect.DENOMINATOR_PEER_CAP, c15Cap)
	mm.Store(collect.DENOMINATOR_MEMORY_MAX_ALLOC, c15MaxAlloc)
	topic := ps.FormatTopic("refinery-stress-relief")
	if len(ps.subs[topic]) != 1 {
		return Case{}, fmt.Errorf("StressRelief.Start did not subscribe to %q", topic)
	}

	var ops, obs, human []string
	now := in.T0
	cur := in.Cfg0
	nontriv := false
	tags := map[string]bool{}
	var lastOn bool
	holdDeadline := int64(-1)
	gauge := func(name string) (uint64, error) {
		v, ok := mm.Get(name)
		if !ok || v < 0 || v != float64(uint64(v)) {
			return 0, fmt.Errorf("gauge %s = %v (present %v) is not a natural number", name, v, ok)
		}
		return uint64(v), nil
	}
	for _, o := range in.Ops {
		switch o.Op {
		case "recalc":
			mm.Gauge(collect.NUMERATOR_INCOMING_QUEUE, o.IQ)
			mm.Gauge(collect.NUMERATOR_PEER_QUEUE, o.PQ)
			mm.Gauge(collect.NUMERATOR_MEMORY_HEAP_ALLOC, o.Mem)
			local := sr.Recalc()
			cl, err := gauge("cluster_stress_level")
			if err != nil {
				return Case{}, err
			}
			lv, err := gauge("stress_level")
			if err != nil {
				return Case{}, err
			}
			on := sr.Stressed()
			ops = append(ops, cq.App("SRecalc", cq.N(uint64(local))))
			obs = append(obs, cq.Pair(cq.Pair(cq.N(cl), cq.N(lv)), cq.Bool(on)))
			human = append(human, fmt.Sprintf("t=%d Recalc own=%d -> cluster=%d level=%d stressed=%v", now-in.T0, local, cl, lv, on))
			if cur.Mode == "monitor" {
				if lastOn && lv < uint64(cur.Deact) {
					nontriv = true // the hold decides
					if holdDeadline >= 0 && (now == holdDeadline || now == holdDeadline+1 || now == holdDeadline-1) {
						tags["recalc-at-hold-deadline(+-1ns)"] = true
					}
				}
				if lv == uint64(cur.Act) || lv == uint64(cur.Deact) || lv+1 == uint64(cur.Act) || lv+1 == uint64(cur.Deact) {
					tags["level-at-threshold(-1/0)"] = true
				}
				if on && lv >= uint64(cur.Deact) {
					holdDeadline = now + cur.MinD
				}
				if lastOn && !on {
					tags["switched-off"] = true
				}
				if !lastOn && on {
					tags["switched-on"] = true
				}
			}
			if cl > uint64(local) {
				tags["cluster-above-own"] = true
			}
			if lv > 100 {
				tags["level>100"] = true
			}
			lastOn = on
		case "peer":
			id := fmt.Sprintf("peer%d", o.K)
			if o.K == 0 {
				id = "host0"
			}
			if err := ps.Publish(context.Background(), topic, fmt.Sprintf("%s|%d", id, o.Lvl)); err != nil {
				return Case{}, err
			}
			ops = append(ops, cq.App("SPeer", cq.N(o.K), cq.N(o.Lvl)))
			human = append(human, fmt.Sprintf("t=%d peer %s reports %d", now-in.T0, id, o.Lvl))
			tags["peer-report"] = true
		case "adv":
			if o.D < 0 {
				return Case{}, fmt.Errorf("negative advance")
			}
			fc.Advance(time.Duration(o.D))
			now += o.D
			ops = append(ops, cq.App("SAdv", cq.Z(o.D)))
			human = append(human, fmt.Sprintf("t=%d (advanced %d)", now-in.T0, o.D))
		case "config":
			if o.Cfg == nil {
				return Case{}, fmt.Errorf("config op without cfg")
			}
			cur = *o.Cfg
			sr.Config = mkCfg(cur)
			sr.UpdateFromConfig()
			ops = append(ops, cq.App("SConfig", c15CoqCfg(cur)))
			human = append(human, fmt.Sprintf("t=%d reload %+v", now-in.T0, cur))
			tags["reload"] = true
		default:
			return Case{}, fmt.Errorf("bad op %q", o.Op)
		}
	}
	coq := fmt.Sprintf("{| c_t0 := %s; c_cfg0 := %s; c_ops := %s; c_obs := %s |}",
		cq.Z(in.T0), c15CoqCfg(in.Cfg0), cq.List(ops), cq.List(obs))
	var tl []string
	for t := range tags {
		tl = append(tl, t)
	}
	if nontriv {
		tl = append(tl, "hold-decides(on, level<deact)")
	}
	return Case{Coq: coq, Key: c15CoqCfg(in.Cfg0) + "|" + strings.Join(ops, ";"), Nontriv: nontriv, Tags: tl,
		Summary: map[string]any{"cfg0": in.Cfg0, "history": human}}, nil
}

func c15Shrink(raw json.RawMessage) []json.RawMessage {
	var in c15Input
	if json.Unmarshal(raw, &in) != nil {
		return nil
	}
	var out []json.RawMessage
	for _, keep := range smChunkRemovals(len(in.Ops)) {
		c := in
		c.Ops = smKeep(in.Ops, keep)
		b, _ := json.Marshal(c)
		out = append(out, b)
	}
	return out
}
