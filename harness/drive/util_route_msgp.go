package drive

// Family "route": an independent msgpack AST encoder/decoder for the harness.
// It is deliberately NOT built on tinylib/msgp or vmihailenco/msgpack: it is the "client" that
// produces wire bytes (every width, str/bin keys, ext types) and the "fake Honeycomb" that reads
// what refinery forwards, so a codec quirk in refinery's libraries cannot hide on both sides.

import (
	"encoding/binary"
	"fmt"
	"math"
)

// MV is one msgpack value.
//
//	K: nil | bool | int (signed family) | uint (unsigned family) | f32 | f64 | str | bin | arr | map | ext
//	W: encoded width class. ints: 0 = fixint, 1,2,4,8 bytes; str: 0 = fixstr, 1,2,4 = str8/16/32;
//	   bin: 1,2,4; arr/map: 0 = fix, 2, 4; ext: 0 = fixext (len 1,2,4,8,16), 1,2,4 = ext8/16/32.
//	   -1 on input = "pick the smallest".
type MV struct {
	K  string  `json:"k"`
	B  bool    `json:"b,omitempty"`
	I  int64   `json:"i,omitempty"`
	U  uint64  `json:"u,omitempty"`
	F  float64 `json:"f,omitempty"`
	FB uint64  `json:"fb,omitempty"` // raw IEEE bits of F (f32: low 32 bits) so NaN payloads survive JSON
	S  []byte  `json:"s,omitempty"`
	A  []MV    `json:"a,omitempty"`
	M  []MKV   `json:"m,omitempty"`
	ET int8    `json:"et,omitempty"`
	W  int     `json:"w,omitempty"`
}

type MKV struct {
	Key MV `json:"key"`
	Val MV `json:"val"`
}

func mvNil() MV             { return MV{K: "nil"} }
func mvBool(b bool) MV      { return MV{K: "bool", B: b} }
func mvInt(i int64) MV      { return MV{K: "int", I: i, W: -1} }
func mvUint(u uint64) MV    { return MV{K: "uint", U: u, W: -1} }
func mvF64(f float64) MV    { return MV{K: "f64", F: f, FB: math.Float64bits(f)} }
func mvF32(f float32) MV    { return MV{K: "f32", F: float64(f), FB: uint64(math.Float32bits(f))} }
func mvStr(s string) MV     { return MV{K: "str", S: []byte(s), W: -1} }
func mvBin(s []byte) MV     { return MV{K: "bin", S: s, W: -1} }
func mvArr(a ...MV) MV      { return MV{K: "arr", A: a, W: -1} }
func mvMap(m ...MKV) MV     { return MV{K: "map", M: m, W: -1} }
func mvExt(t int8, b []byte) MV { return MV{K: "ext", ET: t, S: b, W: -1} }
func mkv(k string, v MV) MKV { return MKV{Key: mvStr(k), Val: v} }

func (v MV) get(key string) (MV, bool) {
	for _, kv := range v.M {
		if (kv.Key.K == "str" || kv.Key.K == "bin") && string(kv.Key.S) == key {
			return kv.Val, true
		}
	}
	return MV{}, false
}

// ---------------------------------------------------------------- encoder
func mvAppend(b []byte, v MV) []byte {
	switch v.K {
	case "nil":
		return append(b, 0xc0)
	case "bool":
		if v.B {
			return append(b, 0xc3)
		}
		return append(b, 0xc2)
	case "int":
		return mvAppendInt(b, v.I, v.W)
	case "uint":
		return mvAppendUint(b, v.U, v.W)
	case "f32":
		b = append(b, 0xca)
		return binary.BigEndian.AppendUint32(b, uint32(v.FB))
	case "f64":
		b = append(b, 0xcb)
		return binary.BigEndian.AppendUint64(b, v.FB)
	case "str":
		n := len(v.S)
		w := v.W
		if w < 0 || (w == 0 && n > 31) || (w == 1 && n > 255) || (w == 2 && n > 65535) {
			switch {
			case n <= 31:
				w = 0
			case n <= 255:
				w = 1
			case n <= 65535:
				w = 2
			default:
				w = 4
			}
		}
		switch w {
		case 0:
			b = append(b, 0xa0|byte(n))
		case 1:
			b = append(b, 0xd9, byte(n))
		case 2:
			b = append(b, 0xda, byte(n>>8), byte(n))
		default:
			b = append(b, 0xdb)
			b = binary.BigEndian.AppendUint32(b, uint32(n))
		}
		return append(b, v.S...)
	case "bin":
		n := len(v.S)
		w := v.W
		if w <= 0 || (w == 1 && n > 255) || (w == 2 && n > 65535) {
			switch {
			case n <= 255:
				w = 1
			case n <= 65535:
				w = 2
			default:
				w = 4
			}
		}
		switch w {
		case 1:
			b = append(b, 0xc4, byte(n))
		case 2:
			b = append(b, 0xc5, byte(n>>8), byte(n))
		default:
			b = append(b, 0xc6)
			b = binary.BigEndian.AppendUint32(b, uint32(n))
		}
		return append(b, v.S...)
	case "arr":
		n := len(v.A)
		w := v.W
		if w < 0 || (w == 0 && n > 15) || (w == 2 && n > 65535) || (w != 0 && w != 2 && w != 4) {
			switch {
			case n <= 15:
				w = 0
			case n <= 65535:
				w = 2
			default:
				w = 4
			}
		}
		switch w {
		case 0:
			b = append(b, 0x90|byte(n))
		case 2:
			b = append(b, 0xdc, byte(n>>8), byte(n))
		default:
			b = append(b, 0xdd)
			b = binary.BigEndian.AppendUint32(b, uint32(n))
		}
		for _, e := range v.A {
			b = mvAppend(b, e)
		}
		return b
	case "map":
		n := len(v.M)
		w := v.W
		if w < 0 || (w == 0 && n > 15) || (w == 2 && n > 65535) || (w != 0 && w != 2 && w != 4) {
			switch {
			case n <= 15:
				w = 0
			case n <= 65535:
				w = 2
			default:
				w = 4
			}
		}
		switch w {
		case 0:
			b = append(b, 0x80|byte(n))
		case 2:
			b = append(b, 0xde, byte(n>>8), byte(n))
		default:
			b = append(b, 0xdf)
			b = binary.BigEndian.AppendUint32(b, uint32(n))
		}
		for _, kv := range v.M {
			b = mvAppend(b, kv.Key)
			b = mvAppend(b, kv.Val)
		}
		return b
	case "ext":
		n := len(v.S)
		w := v.W
		fix := n == 1 || n == 2 || n == 4 || n == 8 || n == 16
		if w < 0 || (w == 0 && !fix) || (w == 1 && n > 255) || (w == 2 && n > 65535) {
			switch {
			case fix:
				w = 0
			case n <= 255:
				w = 1
			case n <= 65535:
				w = 2
			default:
				w = 4
			}
		}
		switch w {
		case 0:
			b = append(b, map[int]byte{1: 0xd4, 2: 0xd5, 4: 0xd6, 8: 0xd7, 16: 0xd8}[n])
		case 1:
			b = append(b, 0xc7, byte(n))
		case 2:
			b = append(b, 0xc8, byte(n>>8), byte(n))
		default:
			b = append(b, 0xc9)
			b = binary.BigEndian.AppendUint32(b, uint32(n))
		}
		b = append(b, byte(v.ET))
		return append(b, v.S...)
	}
	panic("mvAppend: bad kind " + v.K)
}

// signed family: negative fixint, int8..int64; non-negative values may also use the signed family.
func mvAppendInt(b []byte, i int64, w int) []byte {
	fits := func(w int) bool {
		switch w {
		case 0:
			return i >= -32 && i <= 127
		case 1:
			return i >= math.MinInt8 && i <= math.MaxInt8
		case 2:
			return i >= math.MinInt16 && i <= math.MaxInt16
		case 4:
			return i >= math.MinInt32 && i <= math.MaxInt32
		case 8:
			return true
		}
		return false
	}
	if !fits(w) {
		for _, c := range []int{0, 1, 2, 4, 8} {
			if fits(c) {
				w = c
				break
			}
		}
	}
	switch w {
	case 0:
		return append(b, byte(int8(i)))
	case 1:
		return append(b, 0xd0, byte(int8(i)))
	case 2:
		return binary.BigEndian.AppendUint16(append(b, 0xd1), uint16(int16(i)))
	case 4:
		return binary.BigEndian.AppendUint32(append(b, 0xd2), uint32(int32(i)))
	}
	return binary.BigEndian.AppendUint64(append(b, 0xd3), uint64(i))
}

func mvAppendUint(b []byte, u uint64, w int) []byte {
	fits := func(w int) bool {
		switch w {
		case 0:
			return u <= 127
		case 1:
			return u <= math.MaxUint8
		case 2:
			return u <= math.MaxUint16
		case 4:
			return u <= math.MaxUint32
		case 8:
			return true
		}
		return false
	}
	if !fits(w) {
		for _, c := range []int{0, 1, 2, 4, 8} {
			if fits(c) {
				w = c
				break
			}
		}
	}
	switch w {
	case 0:
		return append(b, byte(u))
	case 1:
		return append(b, 0xcc, byte(u))
	case 2:
		return binary.BigEndian.AppendUint16(append(b, 0xcd), uint16(u))
	case 4:
		return binary.BigEndian.AppendUint32(append(b, 0xce), uint32(u))
	}
	return binary.BigEndian.AppendUint64(append(b, 0xcf), u)
}

// ---------------------------------------------------------------- decoder
func mvDecode(b []byte) (MV, []byte, error) {
	return mvDecodeDepth(b, 0)
}

func mvDecodeDepth(b []byte, depth int) (MV, []byte, error) {
	if depth > 200 {
		return MV{}, nil, fmt.Errorf("msgpack: too deep")
	}
	if len(b) == 0 {
		return MV{}, nil, fmt.Errorf("msgpack: short")
	}
	c := b[0]
	need := func(n int) error {
		if len(b) < 1+n {
			return fmt.Errorf("msgpack: short (%d needed after 0x%02x)", n, c)
		}
		return nil
	}
	switch {
	case c <= 0x7f:
		// positive fixint: the wire does not say signed or unsigned; report as uint width 0
		return MV{K: "uint", U: uint64(c), W: 0}, b[1:], nil
	case c >= 0xe0:
		return MV{K: "int", I: int64(int8(c)), W: 0}, b[1:], nil
	case c >= 0xa0 && c <= 0xbf:
		n := int(c & 0x1f)
		if err := need(n); err != nil {
			return MV{}, nil, err
		}
		return MV{K: "str", S: append([]byte{}, b[1:1+n]...), W: 0}, b[1+n:], nil
	case c >= 0x90 && c <= 0x9f:
		return mvDecodeArr(b[1:], int(c&0x0f), 0, depth)
	case c >= 0x80 && c <= 0x8f:
		return mvDecodeMap(b[1:], int(c&0x0f), 0, depth)
	}
	switch c {
	case 0xc0:
		return MV{K: "nil"}, b[1:], nil
	case 0xc2:
		return MV{K: "bool", B: false}, b[1:], nil
	case 0xc3:
		return MV{K: "bool", B: true}, b[1:], nil
	case 0xc4, 0xc5, 0xc6, 0xd9, 0xda, 0xdb:
		w := map[byte]int{0xc4: 1, 0xc5: 2, 0xc6: 4, 0xd9: 1, 0xda: 2, 0xdb: 4}[c]
		if err := need(w); err != nil {
			return MV{}, nil, err
		}
		n := int(beUint(b[1 : 1+w]))
		if len(b) < 1+w+n {
			return MV{}, nil, fmt.Errorf("msgpack: short str/bin")
		}
		k := "str"
		if c <= 0xc6 {
			k = "bin"
		}
		return MV{K: k, S: append([]byte{}, b[1+w:1+w+n]...), W: w}, b[1+w+n:], nil
	case 0xc7, 0xc8, 0xc9:
		w := map[byte]int{0xc7: 1, 0xc8: 2, 0xc9: 4}[c]
		if err := need(w + 1); err != nil {
			return MV{}, nil, err
		}
		n := int(beUint(b[1 : 1+w]))
		if len(b) < 2+w+n {
			return MV{}, nil, fmt.Errorf("msgpack: short ext")
		}
		return MV{K: "ext", ET: int8(b[1+w]), S: append([]byte{}, b[2+w:2+w+n]...), W: w}, b[2+w+n:], nil
	case 0xd4, 0xd5, 0xd6, 0xd7, 0xd8:
		n := map[byte]int{0xd4: 1, 0xd5: 2, 0xd6: 4, 0xd7: 8, 0xd8: 16}[c]
		if err := need(1 + n); err != nil {
			return MV{}, nil, err
		}
		return MV{K: "ext", ET: int8(b[1]), S: append([]byte{}, b[2:2+n]...), W: 0}, b[2+n:], nil
	case 0xca:
		if err := need(4); err != nil {
			return MV{}, nil, err
		}
		bits := binary.BigEndian.Uint32(b[1:5])
		return MV{K: "f32", F: float64(math.Float32frombits(bits)), FB: uint64(bits)}, b[5:], nil
	case 0xcb:
		if err := need(8); err != nil {
			return MV{}, nil, err
		}
		bits := binary.BigEndian.Uint64(b[1:9])
		return MV{K: "f64", F: math.Float64frombits(bits), FB: bits}, b[9:], nil
	case 0xcc, 0xcd, 0xce, 0xcf:
		w := 1 << (c - 0xcc)
		if err := need(w); err != nil {
			return MV{}, nil, err
		}
		return MV{K: "uint", U: beUint(b[1 : 1+w]), W: w}, b[1+w:], nil
	case 0xd0, 0xd1, 0xd2, 0xd3:
		w := 1 << (c - 0xd0)
		if err := need(w); err != nil {
			return MV{}, nil, err
		}
		u := beUint(b[1 : 1+w])
		shift := uint(64 - 8*w)
		return MV{K: "int", I: int64(u<<shift) >> shift, W: w}, b[1+w:], nil
	case 0xdc, 0xdd:
		w := 2
		if c == 0xdd {
			w = 4
		}
		if err := need(w); err != nil {
			return MV{}, nil, err
		}
		return mvDecodeArr(b[1+w:], int(beUint(b[1:1+w])), w, depth)
	case 0xde, 0xdf:
		w := 2
		if c == 0xdf {
			w = 4
		}
		if err := need(w); err != nil {
			return MV{}, nil, err
		}
		return mvDecodeMap(b[1+w:], int(beUint(b[1:1+w])), w, depth)
	}
	return MV{}, nil, fmt.Errorf("msgpack: unknown lead byte 0x%02x", c)
}

func beUint(b []byte) uint64 {
	var u uint64
	for _, x := range b {
		u = u<<8 | uint64(x)
	}
	return u
}

func mvDecodeArr(b []byte, n, w, depth int) (MV, []byte, error) {
	out := MV{K: "arr", W: w, A: []MV{}}
	for i := 0; i < n; i++ {
		var e MV
		var err error
		e, b, err = mvDecodeDepth(b, depth+1)
		if err != nil {
			return MV{}, nil, err
		}
		out.A = append(out.A, e)
	}
	return out, b, nil
}

func mvDecodeMap(b []byte, n, w, depth int) (MV, []byte, error) {
	out := MV{K: "map", W: w, M: []MKV{}}
	for i := 0; i < n; i++ {
		var k, v MV
		var err error
		k, b, err = mvDecodeDepth(b, depth+1)
		if err != nil {
			return MV{}, nil, err
		}
		v, b, err = mvDecodeDepth(b, depth+1)
		if err != nil {
			return MV{}, nil, err
		}
		out.M = append(out.M, MKV{Key: k, Val: v})
	}
	return out, b, nil
}

// ---------------------------------------------------------------- msgpack timestamp (ext -1)
// mvTimestamp builds the standard timestamp extension in the requested format (32, 64 or 96).
func mvTimestamp(format int, sec int64, nsec uint32) MV {
	switch format {
	case 32:
		return MV{K: "ext", ET: -1, S: binary.BigEndian.AppendUint32(nil, uint32(sec)), W: 0}
	case 64:
		return MV{K: "ext", ET: -1, S: binary.BigEndian.AppendUint64(nil, uint64(nsec)<<34|uint64(sec)), W: 0}
	}
	b := binary.BigEndian.AppendUint32(nil, nsec)
	b = binary.BigEndian.AppendUint64(b, uint64(sec))
	return MV{K: "ext", ET: -1, S: b, W: 1}
}

// mvReadTimestamp decodes ext -1 independently of tinylib. ok=false if not a valid timestamp ext.
func mvReadTimestamp(v MV) (format int, sec int64, nsec uint32, ok bool) {
	if v.K != "ext" || v.ET != -1 {
		return 0, 0, 0, false
	}
	switch len(v.S) {
	case 4:
		return 32, int64(binary.BigEndian.Uint32(v.S)), 0, true
	case 8:
		u := binary.BigEndian.Uint64(v.S)
		return 64, int64(u & (1<<34 - 1)), uint32(u >> 34), true
	case 12:
		return 96, int64(binary.BigEndian.Uint64(v.S[4:])), binary.BigEndian.Uint32(v.S), true
	}
	return 0, 0, 0, false
}
