package drive

import (
	"bytes"
	"encoding/json"
	"fmt"
	"math/rand"
	"os"
	"os/exec"
	"path/filepath"
	"runtime"
	"sort"
	"strings"
	"sync"
	"time"

	cq "github.com/honeycombio/refinery/verifharness/coqfmt"
)

// C35: concurrent scenarios of the real in-process components under the Go race detector.
//
// The harness binary `vh` is built without -race. For C35 the driver (outer mode) rebuilds the very
// same harness module with `go build -race` (os/exec, against the repository the harness module's
// go.mod points to, i.e. $VERIF_REPO) and re-executes it once per case with VERIF_C35_INNER=1; in
// inner mode Run executes the scenario in-process. Race reports (GORACE log_path) are parsed by the
// outer process and each report is resolved to (struct, field, function, function) by looking at
// the source lines of the two accesses.

type c35Input struct {
	Scn     string   `json:"scn"`               // sentcache | fileconfig | watcher | collector | collector_start | stress | peers | transmit | router
	Seed    int64    `json:"seed"`              // PRNG seed of the scenario's own choices (trace ids, sizes)
	G       int      `json:"g"`                 // goroutines per activity
	Ops     int      `json:"ops"`               // operations per goroutine
	Acts    []string `json:"acts"`              // enabled activities (scenario specific)
	Sizes   []int    `json:"sizes,omitempty"`   // cache sizes cycled through by resize / reload
	Workers int      `json:"workers,omitempty"` // collector workers
}

func init() {
	Register(&Driver{ID: "C35", Gen: c35Gen, Run: c35Run, Shrink: c35Shrink})
}

var c35Scenarios = map[string][]string{
	"sentcache":       {"check", "record", "resize", "checktrace"},
	"fileconfig":      {"reload", "metadata", "hashes", "getters", "register"},
	"watcher":         {"startstop", "callback", "listener"},
	"collector":       {"ingest", "peer", "immediate", "reload", "stress"},
	"collector_start": {"reloadstorm"},
	"stress":          {"readers", "update", "gauges", "peermsg"},
	"peers":           {"messages", "getpeers", "register"},
	"transmit":        {"enqueue", "multi"},
	"router":          {"batch", "event", "query", "health"},
}

func c35Gen(r *rand.Rand, tier string, i int) any {
	// scenario kinds round-robin; the kinds that have no corpus witness come first so that the quick
	// tier (5 generated cases + the corpus) visits every kind
	kinds := []string{"stress", "transmit", "router", "collector", "sentcache", "peers", "fileconfig", "watcher", "collector_start"}
	scn := kinds[i%len(kinds)]
	in := c35Input{Scn: scn, Seed: r.Int63n(1 << 30)}
	in.G = 2 + r.Intn(3)
	in.Ops = 100 + r.Intn(120)
	if tier == "thorough" {
		in.G = 2 + r.Intn(6)
		in.Ops = 500 + r.Intn(3000)
	}
	// activities: all of them most of the time, otherwise a random subset that keeps the first one
	all := c35Scenarios[scn]
	if r.Intn(4) == 0 && len(all) > 2 {
		in.Acts = []string{all[0]}
		for _, a := range all[1:] {
			if r.Intn(2) == 0 {
				in.Acts = append(in.Acts, a)
			}
		}
		if len(in.Acts) == 1 {
			in.Acts = append(in.Acts, all[1+r.Intn(len(all)-1)])
		}
	} else {
		in.Acts = append([]string{}, all...)
	}
	// boundary-biased sizes: 1, equal sizes (no-op resize), shrink below the population, grow
	pool := []int{1, 1, 2, 3, 7, 50, 50, 100, 1000}
	n := 2 + r.Intn(4)
	for k := 0; k < n; k++ {
		in.Sizes = append(in.Sizes, pool[r.Intn(len(pool))])
	}
	in.Workers = []int{1, 2, 2, 4}[r.Intn(4)]
	return in
}

func c35Shrink(raw json.RawMessage) []json.RawMessage {
	var in c35Input
	if json.Unmarshal(raw, &in) != nil {
		return nil
	}
	var out []json.RawMessage
	add := func(c c35Input) {
		b, _ := json.Marshal(c)
		out = append(out, b)
	}
	for i := range in.Acts {
		if len(in.Acts) <= 1 {
			break
		}
		c := in
		c.Acts = append(append([]string{}, in.Acts[:i]...), in.Acts[i+1:]...)
		add(c)
	}
	if in.G > 1 {
		c := in
		c.G = in.G - 1
		add(c)
	}
	if in.Ops > 40 {
		c := in
		c.Ops = in.Ops / 2
		add(c)
	}
	if len(in.Sizes) > 1 {
		c := in
		c.Sizes = in.Sizes[:len(in.Sizes)-1]
		add(c)
	}
	if in.Workers > 1 {
		c := in
		c.Workers = in.Workers - 1
		add(c)
	}
	return out
}

// ---------------------------------------------------------------- outer mode

var (
	c35BuildOnce sync.Once
	c35RaceExe   string
	c35BuildErr  error
)

func c35ModuleDir() string {
	if d := os.Getenv("VERIF_HARNESS_DIR"); d != "" {
		return d
	}
	_, file, _, ok := runtime.Caller(0)
	if ok && filepath.IsAbs(file) {
		return filepath.Dir(filepath.Dir(file))
	}
	return ""
}

func c35BuildRace() (string, error) {
	c35BuildOnce.Do(func() {
		dir := c35ModuleDir()
		if dir == "" {
			c35BuildErr = fmt.Errorf("cannot locate the harness module directory")
			return
		}
		tags := "verif,verif_c35"
		if b, err := os.ReadFile(filepath.Join(dir, "resolved.json")); err == nil {
			var r struct {
				Tags []string `json:"tags"`
			}
			if json.Unmarshal(b, &r) == nil && len(r.Tags) > 0 {
				tags = strings.Join(r.Tags, ",")
			}
		}
		exe, err := os.Executable()
		if err != nil {
			c35BuildErr = err
			return
		}
		out := exe + "-race"
		cmd := exec.Command("go", "build", "-race", "-tags", tags, "-o", out, ".")
		cmd.Dir = dir
		env := os.Environ()
		env = append(env, "GOFLAGS=-mod=mod", "GOPROXY=off")
		cmd.Env = env
		var buf bytes.Buffer
		cmd.Stdout, cmd.Stderr = &buf, &buf
		if err := cmd.Run(); err != nil {
			c35BuildErr = fmt.Errorf("go build -race failed: %v\n%s", err, tail(buf.String(), 3000))
			return
		}
		c35RaceExe = out
	})
	return c35RaceExe, c35BuildErr
}

func tail(s string, n int) string {
	if len(s) > n {
		return s[len(s)-n:]
	}
	return s
}

type c35Inner struct {
	Completed bool               `json:"completed"`
	Error     string             `json:"error,omitempty"`
	Acts      map[string]c35Stat `json:"acts"`
}
type c35Stat struct {
	Ops   int64 `json:"ops"`
	Start int64 `json:"start"`
	End   int64 `json:"end"`
}

func c35Run(raw json.RawMessage) (Case, error) {
	var in c35Input
	if err := json.Unmarshal(raw, &in); err != nil {
		return Case{}, err
	}
	if _, ok := c35Scenarios[in.Scn]; !ok {
		return Case{}, fmt.Errorf("unknown scenario %q", in.Scn)
	}
	if os.Getenv("VERIF_C35_INNER") == "1" {
		res := c35RunInner(in)
		return Case{Coq: "inner", Key: "inner", Summary: res}, nil
	}
	exe, err := c35BuildRace()
	if err != nil {
		return Case{}, err
	}
	tmp, err := os.MkdirTemp(".", "c35run")
	if err != nil {
		return Case{}, err
	}
	tmp, _ = filepath.Abs(tmp)
	defer os.RemoveAll(tmp)
	inFile := filepath.Join(tmp, "in.json")
	os.WriteFile(inFile, raw, 0o644)
	outFile := filepath.Join(tmp, "out.jsonl")
	cmd := exec.Command(exe, "C35", "--replay", inFile, "--out", outFile)
	cmd.Dir = tmp
	cmd.Env = append(os.Environ(), "VERIF_C35_INNER=1",
		"GORACE=log_path="+filepath.Join(tmp, "race")+" halt_on_error=0 exitcode=0 history_size=3")
	var buf bytes.Buffer
	cmd.Stdout, cmd.Stderr = &buf, &buf
	done := make(chan error, 1)
	if err := cmd.Start(); err != nil {
		return Case{}, err
	}
	go func() { done <- cmd.Wait() }()
	var inner c35Inner
	select {
	case werr := <-done:
		if b, err := os.ReadFile(outFile); err == nil {
			var line struct {
				Summary c35Inner `json:"summary"`
			}
			if json.Unmarshal(bytes.TrimSpace(b), &line) == nil {
				inner = line.Summary
			}
		}
		if werr != nil && inner.Error == "" {
			inner.Completed = false
			inner.Error = fmt.Sprintf("scenario process failed: %v: %s", werr, tail(buf.String(), 1500))
		}
	case <-time.After(120 * time.Second):
		cmd.Process.Kill()
		<-done
		inner.Completed = false
		inner.Error = "scenario process timed out (deadlock?)"
	}
	// race reports
	var reports []c35Race
	logs, _ := filepath.Glob(filepath.Join(tmp, "race.*"))
	sort.Strings(logs)
	for _, l := range logs {
		b, _ := os.ReadFile(l)
		reports = append(reports, c35ParseRaces(string(b))...)
	}
	reports = append(reports, c35ParseRaces(buf.String())...)
	// resolve and deduplicate
	type obs struct{ st, field, fa, fb string }
	seen := map[obs]bool{}
	var obsList []obs
	var human []any
	for _, rp := range reports {
		st, field, fa, fb := c35Resolve(rp)
		if fb < fa {
			fa, fb = fb, fa
		}
		o := obs{st, field, fa, fb}
		if !seen[o] {
			seen[o] = true
			obsList = append(obsList, o)
			human = append(human, map[string]any{"struct": st, "field": field, "func_a": fa, "func_b": fb,
				"access_a": rp.A.Header, "at_a": rp.A.where(), "access_b": rp.B.Header, "at_b": rp.B.where()})
		}
	}
	sort.Slice(obsList, func(i, j int) bool {
		return fmt.Sprint(obsList[i]) < fmt.Sprint(obsList[j])
	})
	var rs []string
	for _, o := range obsList {
		rs = append(rs, fmt.Sprintf("{| r_struct := %s; r_field := %s; r_fa := %s; r_fb := %s |}",
			cq.Str(o.st), cq.Str(o.field), cq.Str(o.fa), cq.Str(o.fb)))
	}
	coq := fmt.Sprintf("{| c_scn := %s; c_completed := %s; c_races := %s |}", cq.Str(in.Scn), cq.Bool(inner.Completed), cq.List(rs))
	// non-trivial: at least two activities really overlapped in time and both did work
	type iv struct {
		name string
		s    c35Stat
	}
	var ivs []iv
	for n, s := range inner.Acts {
		if s.Ops > 0 {
			ivs = append(ivs, iv{n, s})
		}
	}
	overlap := false
	for i := range ivs {
		for j := i + 1; j < len(ivs); j++ {
			if ivs[i].s.Start < ivs[j].s.End && ivs[j].s.Start < ivs[i].s.End {
				overlap = true
			}
		}
	}
	tags := []string{"scn:" + in.Scn, fmt.Sprintf("g:%d", in.G), fmt.Sprintf("acts:%d", len(in.Acts))}
	for _, a := range in.Acts {
		tags = append(tags, "act:"+in.Scn+"/"+a)
	}
	if overlap {
		tags = append(tags, "overlapping-activities")
	}
	if len(obsList) > 0 {
		tags = append(tags, "race-reported")
	}
	for _, s := range in.Sizes {
		if s == 1 {
			tags = append(tags, "size-1")
			break
		}
	}
	acts := append([]string{}, in.Acts...)
	sort.Strings(acts)
	return Case{Coq: coq, Key: fmt.Sprintf("%s|%d|%d|%v|%v|%d|%d", in.Scn, in.G, in.Ops, acts, in.Sizes, in.Workers, in.Seed),
		Nontriv: overlap && inner.Completed, Tags: tags,
		Summary: map[string]any{"scenario": in.Scn, "completed": inner.Completed, "error": inner.Error,
			"activities": inner.Acts, "races": human}}, nil
}
