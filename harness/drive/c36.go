package drive

import (
	"context"
	"encoding/json"
	"fmt"
	"math/rand"
	"os"
	"os/exec"
	"path/filepath"
	"strings"
	"time"
)

func init() {
	Register(&Driver{ID: "C36", Gen: c36Gen, Run: c36Run, Shrink: c36Shrink})
}

func c36Shrink(raw json.RawMessage) []json.RawMessage {
	var probe struct {
		Kind string `json:"kind"`
	}
	if json.Unmarshal(raw, &probe) == nil && probe.Kind == "shutdown" {
		var in c36sInput
		if json.Unmarshal(raw, &in) != nil {
			return nil
		}
		return c36sShrink(in)
	}
	return collShrink(raw)
}

// C36: a collector history cut by Stop at a random point (crash point = any prefix), with buffered
// traces, pending late spans, ticks and ejections before it.
func c36Gen(r *rand.Rand, tier string, i int) any {
	if i%12 == 4 { // shutdown while the workers are deciding (run in a child process: a crash is a finding)
		in := collInput{Workers: 1 + r.Intn(3), T0: 1_700_000_000 * collSec, Inflight: true, ShrinkMax: 1}
		one := 1
		in.Tables = [][]collRule{{{Cls: &one, Drop: true}}}
		in.Cfg = collCfg{TT: collSec, SD: collMs, SL: 0, ME: 0}
		n := 60 + r.Intn(60)
		for k := 0; k < n; k++ {
			in.Ops = append(in.Ops, collOp{Op: "span", Span: &collSpan{Tid: k, Sid: k, Cls: []int{1, 1, 0}[r.Intn(3)], Pad: r.Intn(40)}})
		}
		in.Ops = append(in.Ops, collOp{Op: "stop", Inflight: true})
		return in
	}
	if i%2 == 1 { // the whole shutdown sequence: collector + real transmissions + scripted API
		return c36sGen(r, tier)
	}
	in := collGen(r, tier, collBias{Tick: 18, Eject: 6, Reload: 5, Stop: true})
	if len(in.Ops) == 0 || in.Ops[len(in.Ops)-1].Op != "stop" {
		in.Ops = append(in.Ops, collOp{Op: "stop", Stall: r.Intn(2) == 0})
	}
	if i%4 == 0 { // drained before shutdown: the part of the property that holds
		stop := in.Ops[len(in.Ops)-1]
		in.Ops = in.Ops[:len(in.Ops)-1]
		for w := 0; w < in.Workers; w++ {
			for k := 0; k < 8; k++ {
				in.Ops = append(in.Ops, collOp{Op: "tick", W: w, D: 1 << 48})
			}
		}
		in.Cfg.ME = 0
		for j := range in.Ops {
			if in.Ops[j].Cfg != nil {
				in.Ops[j].Cfg.ME = 0
			}
		}
		in.Ops = append(in.Ops, stop)
	}
	return in
}

func c36Run(raw json.RawMessage) (Case, error) {
	var probe struct {
		Kind string `json:"kind"`
	}
	if json.Unmarshal(raw, &probe) == nil && probe.Kind == "shutdown" {
		var sin c36sInput
		if err := json.Unmarshal(raw, &sin); err != nil {
			return Case{}, err
		}
		return c36sRun(sin)
	}
	var in collInput
	if err := json.Unmarshal(raw, &in); err != nil {
		return Case{}, err
	}
	if in.Inflight {
		return c36Inflight(raw, in)
	}
	res, err := collRun(in)
	if err != nil {
		return Case{}, err
	}
	if len(res.Obs) == 0 {
		return Case{Coq: "(CColl " + collEmptyCase + ")", Key: "empty"}, nil
	}
	tags := collTags(res)
	last := res.Obs[len(res.Obs)-1]
	buffered := 0
	if res.Stopped {
		for _, b := range last.Bufs {
			buffered += len(b)
		}
		if buffered > 0 {
			tags = append(tags, "stop-with-buffered-traces")
		} else {
			tags = append(tags, "stop-with-empty-buffers")
		}
	}
	return Case{Coq: "(CColl " + collCoq(res) + ")", Key: string(raw), Nontriv: res.Stopped && len(res.Obs) > 1,
		Tags: tags, Summary: collSummary(res)}, nil
}

// c36Inflight runs the scenario in a child process (the same binary): a panic in a collector goroutine
// ("send on closed channel" from a decision cache stopped too early, ...) kills the child, not the driver.
func c36Inflight(raw json.RawMessage, in collInput) (Case, error) {
	tags := []string{"scenario:stop-while-workers-are-deciding", fmt.Sprintf("workers:%d", in.Workers)}
	if os.Getenv("VERIF_C36_CHILD") != "" {
		res, err := collRun(in)
		if err != nil {
			return Case{}, err
		}
		if res.StopErr != "" {
			return Case{}, fmt.Errorf("stop: %s", res.StopErr)
		}
		return Case{Coq: "(CColl " + collEmptyCase + ")", Key: "child"}, nil
	}
	dir, err := os.MkdirTemp(".", "c36child")
	if err != nil {
		return Case{}, err
	}
	defer os.RemoveAll(dir)
	inF := filepath.Join(dir, "in.json")
	os.WriteFile(inF, []byte(`{"input": `+string(raw)+`}`), 0o644)
	exe, _ := os.Executable()
	ctx, cancel := context.WithTimeout(context.Background(), 40*time.Second)
	defer cancel()
	cmd := exec.CommandContext(ctx, exe, "C36", "--replay", inF, "--out", filepath.Join(dir, "out.jsonl"))
	cmd.Env = append(os.Environ(), "VERIF_C36_CHILD=1")
	out, runErr := cmd.CombinedOutput()
	if runErr == nil {
		return Case{Coq: "(CColl " + collEmptyCase + ")", Key: string(raw), Nontriv: true, Tags: tags,
			Summary: map[string]any{"scenario": "Stop while every worker is inside its send tick", "spans": len(in.Ops) - 1, "child": "clean exit"}}, nil
	}
	kind := 2 // Stop failed / hung / other error
	txt := string(out)
	if strings.Contains(txt, "panic:") || strings.Contains(txt, "fatal error:") {
		kind = 1
	}
	if len(txt) > 1500 {
		txt = txt[:1500]
	}
	return Case{Coq: fmt.Sprintf("(CCrash %d%%N)", kind), Key: string(raw), Nontriv: true, Tags: append(tags, "child-crashed"),
		Summary: map[string]any{"scenario": "Stop while every worker is inside its send tick", "child_output": txt}}, nil
}
