package drive

import (
	"encoding/json"
	"math/rand"
)

func init() {
	Register(&Driver{ID: "C36", Gen: c36Gen, Run: c36Run, Shrink: c36Shrink})
}

func c36Shrink(raw json.RawMessage) []json.RawMessage {
	var probe struct {
		Kind string `json:"kind"`
	}
	if json.Unmarshal(raw, &probe) == nil && probe.Kind == "shutdown" {
		var in c36sInput
		if json.Unmarshal(raw, &in) != nil {
			return nil
		}
		return c36sShrink(in)
	}
	return collShrink(raw)
}

// C36: a collector history cut by Stop at a random point (crash point = any prefix), with buffered
// traces, pending late spans, ticks and ejections before it.
func c36Gen(r *rand.Rand, tier string, i int) any {
	if i%2 == 1 { // the whole shutdown sequence: collector + real transmissions + scripted API
		return c36sGen(r, tier)
	}
	in := collGen(r, tier, collBias{Tick: 18, Eject: 6, Reload: 5, Stop: true})
	if len(in.Ops) == 0 || in.Ops[len(in.Ops)-1].Op != "stop" {
		in.Ops = append(in.Ops, collOp{Op: "stop", Stall: r.Intn(2) == 0})
	}
	if i%4 == 0 { // drained before shutdown: the part of the property that holds
		stop := in.Ops[len(in.Ops)-1]
		in.Ops = in.Ops[:len(in.Ops)-1]
		for w := 0; w < in.Workers; w++ {
			for k := 0; k < 8; k++ {
				in.Ops = append(in.Ops, collOp{Op: "tick", W: w, D: 1 << 48})
			}
		}
		in.Cfg.ME = 0
		for j := range in.Ops {
			if in.Ops[j].Cfg != nil {
				in.Ops[j].Cfg.ME = 0
			}
		}
		in.Ops = append(in.Ops, stop)
	}
	return in
}

func c36Run(raw json.RawMessage) (Case, error) {
	var probe struct {
		Kind string `json:"kind"`
	}
	if json.Unmarshal(raw, &probe) == nil && probe.Kind == "shutdown" {
		var sin c36sInput
		if err := json.Unmarshal(raw, &sin); err != nil {
			return Case{}, err
		}
		return c36sRun(sin)
	}
	var in collInput
	if err := json.Unmarshal(raw, &in); err != nil {
		return Case{}, err
	}
	res, err := collRun(in)
	if err != nil {
		return Case{}, err
	}
	if len(res.Obs) == 0 {
		return Case{Coq: "(CColl " + collEmptyCase + ")", Key: "empty"}, nil
	}
	tags := collTags(res)
	last := res.Obs[len(res.Obs)-1]
	buffered := 0
	if res.Stopped {
		for _, b := range last.Bufs {
			buffered += len(b)
		}
		if buffered > 0 {
			tags = append(tags, "stop-with-buffered-traces")
		} else {
			tags = append(tags, "stop-with-empty-buffers")
		}
	}
	return Case{Coq: "(CColl " + collCoq(res) + ")", Key: string(raw), Nontriv: res.Stopped && len(res.Obs) > 1,
		Tags: tags, Summary: collSummary(res)}, nil
}
