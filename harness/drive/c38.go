package drive

import (
	"crypto/sha1"
	"encoding/hex"
	"encoding/json"
	"fmt"
	"math/rand"
	"os"
	"os/exec"
	"path/filepath"
	"reflect"
	"sort"
	"strconv"
	"strings"
	"time"

	"gopkg.in/yaml.v3"

	"github.com/honeycombio/refinery/config"
	cq "github.com/honeycombio/refinery/verifharness/coqfmt"
)

// C38: the REAL converter binary (tools/convert, built from the repo under test) on generated v1 config and
// rules files, its output loaded by the REAL v2 loader/validator (config.NewConfig). Observed: acceptance,
// the effective value of every generated v1 setting at its v2 location, and every sampler with its parameters.

type c38Setting struct {
	V1Key string `json:"k"` // v1 location: "Name" or "Group.Name"
	Val   string `json:"v"` // text written into the v1 TOML (already quoted/typed per Typ)
}
type c38Sampler struct {
	Name     string            `json:"name"`              // "" = default section
	Type     string            `json:"type,omitempty"`    // "" = no Sampler key in the section
	Params   map[string]int64  `json:"params,omitempty"`  // v1 parameter names (canonical case), integer valued
	Fields   []string          `json:"fields,omitempty"`  // FieldList
	KeyCase  int               `json:"case,omitempty"`    // 0 as documented, 1 lower, 2 upper
}
type c38Input struct {
	Settings []c38Setting `json:"settings"`
	Samplers []c38Sampler `json:"samplers"`
}

type c38Field struct {
	v1key, v2path, typ string
}

var c38Fields []c38Field
var c38Convert string

func init() {
	Register(&Driver{ID: "C38", Gen: c38Gen, Run: c38Run, Shrink: c38Shrink})
}

func c38Init() error {
	if c38Fields != nil {
		return nil
	}
	meta, err := config.LoadConfigMetadata()
	if err != nil {
		return err
	}
	// configMeta.yaml spells the key both "firstversion" and "firstVersion"; the struct tag only sees the
	// former, so read the key case-insensitively from the raw file (as the translator does)
	repoDir := os.Getenv("VERIF_REPO")
	if repoDir == "" {
		repoDir = "/repo"
	}
	if rawMeta, err := os.ReadFile(filepath.Join(repoDir, "config/metadata/configMeta.yaml")); err == nil {
		var generic struct {
			Groups []struct {
				Name   string           `yaml:"name"`
				Fields []map[string]any `yaml:"fields"`
			} `yaml:"groups"`
		}
		if yaml.Unmarshal(rawMeta, &generic) == nil {
			first := map[string]string{}
			for _, g := range generic.Groups {
				for _, f := range g.Fields {
					for k, v := range f {
						if strings.EqualFold(k, "firstversion") {
							first[g.Name+"."+fmt.Sprint(f["name"])] = fmt.Sprint(v)
						}
					}
				}
			}
			for gi := range meta.Groups {
				for fi := range meta.Groups[gi].Fields {
					if v, ok := first[meta.Groups[gi].Name+"."+meta.Groups[gi].Fields[fi].Name]; ok {
						meta.Groups[gi].Fields[fi].FirstVersion = v
					}
				}
			}
		}
	}
	sameName := map[string]int{}
	for _, g := range meta.Groups {
		for _, f := range g.Fields {
			if f.V1Name == "" && f.FirstVersion == "" {
				sameName[f.Name]++
			}
		}
	}
	for _, g := range meta.Groups {
		if g.LastVersion != "" {
			continue
		}
		for _, f := range g.Fields {
			if f.LastVersion != "" {
				continue
			}
			if f.V1Name == "" {
				// exists since v1 under the same top-level name (templates/genfield.tmpl); ambiguous names left out
				if f.FirstVersion != "" || sameName[f.Name] != 1 {
					continue
				}
				f.V1Name = f.Name
			}
			// "valid v1 file": free-text values are only generated for settings without a format / choice constraint
			if f.ValueType == "conditional" || f.ValueType == "assigndefault" {
				continue // derived from other v1 settings / fixed by the converter, not read from the v1 file
			}
			if g.Name+"."+f.Name == "Collection.MaxMemoryPercentage" {
				continue // introduced together with AvailableMemory in v2; the metadata carries no firstversion for it
			}
			constrained := len(f.Choices) > 0 || f.ValueType == "choice"
			for _, v := range f.Validations {
				if v.Type == "format" || v.Type == "choice" || v.Type == "requiredWith" || v.Type == "requiredInGroup" {
					constrained = true
				}
			}
			if constrained && f.Type == "string" {
				continue
			}
			k := f.V1Name
			if f.V1Group != "" {
				k = strings.Split(f.V1Group, "/")[0] + "." + f.V1Name
			}
			c38Fields = append(c38Fields, c38Field{v1key: k, v2path: g.Name + "." + f.Name, typ: f.Type})
		}
	}
	// build the converter of the repository under test (cached by source content)
	repo := os.Getenv("VERIF_REPO")
	if repo == "" {
		repo = "/repo"
	}
	h := sha1.New()
	for _, pat := range []string{"tools/convert/*.go", "tools/convert/templates/*", "config/metadata/*.yaml", "config/*.go"} {
		files, _ := filepath.Glob(filepath.Join(repo, pat))
		sort.Strings(files)
		for _, f := range files {
			if strings.HasSuffix(f, "_test.go") {
				continue
			}
			b, err := os.ReadFile(f)
			if err == nil {
				h.Write([]byte(f))
				h.Write(b)
			}
		}
	}
	cwd, _ := os.Getwd()
	binDir := filepath.Join(cwd, "..", "bin")
	if st, err := os.Stat(binDir); err != nil || !st.IsDir() {
		binDir = cwd
	}
	exe := filepath.Join(binDir, "convert-"+hex.EncodeToString(h.Sum(nil))[:16])
	if _, err := os.Stat(exe); err != nil {
		old, _ := filepath.Glob(filepath.Join(binDir, "convert-*"))
		for _, o := range old {
			os.Remove(o)
		}
		cmd := exec.Command("go", "build", "-o", exe, "./tools/convert")
		cmd.Dir = repo
		cmd.Env = append(os.Environ(), "GOFLAGS=-mod=mod", "GOPROXY=off")
		if out, err := cmd.CombinedOutput(); err != nil {
			return fmt.Errorf("C38: building tools/convert failed: %v\n%s", err, out)
		}
	}
	c38Convert = exe
	return nil
}

// value text for the v1 TOML by metadata type; ok=false: type not generated
func c38GenValue(r *rand.Rand, f c38Field) (string, bool) {
	switch f.typ {
	case "hostport":
		return fmt.Sprintf("%q", fmt.Sprintf("0.0.0.0:%d", 7000+r.Intn(900))), true
	case "url":
		return fmt.Sprintf("%q", fmt.Sprintf("https://h%d.example.com", r.Intn(90))), true
	case "int":
		return strconv.Itoa(1100 + r.Intn(800)), true
	case "bool":
		return []string{"true", "false"}[r.Intn(2)], true
	case "duration":
		return fmt.Sprintf("%q", fmt.Sprintf("%dm", 16+r.Intn(30))), true
	case "string":
		return fmt.Sprintf("%q", fmt.Sprintf("val%d", r.Intn(90))), true
	}
	return "", false
}

// settings whose v1 -> v2 relation is not "same value" (documented transforms), kept out of the generator
var c38Skip = map[string]string{}

func c38Gen(r *rand.Rand, tier string, i int) any {
	if err := c38Init(); err != nil {
		panic(err)
	}
	in := c38Input{}
	n := 3 + r.Intn(8)
	perm := r.Perm(len(c38Fields))
	for _, pi := range perm {
		if len(in.Settings) >= n {
			break
		}
		f := c38Fields[pi]
		if _, skip := c38Skip[f.v1key]; skip {
			continue
		}
		if v, ok := c38GenValue(r, f); ok {
			in.Settings = append(in.Settings, c38Setting{V1Key: f.v1key, Val: v})
		}
	}
	if r.Intn(10) < 7 { // nearly every v1 file has it; deprecated in v2
		in.Settings = append(in.Settings, c38Setting{V1Key: "InMemCollector.CacheCapacity", Val: strconv.Itoa(1000 + r.Intn(9000))})
	}
	sort.Slice(in.Settings, func(a, b int) bool { return in.Settings[a].V1Key < in.Settings[b].V1Key })
	in.Samplers = append(in.Samplers, c38GenSampler(r, ""))
	nds := r.Intn(4)
	for d := 0; d < nds; d++ {
		s := c38GenSampler(r, fmt.Sprintf("dataset%d", d+1))
		if r.Intn(8) == 0 {
			s.Type = "" // a section with only a SampleRate
			s.Params = map[string]int64{"SampleRate": int64(2 + r.Intn(50))}
			s.Fields = nil
		}
		in.Samplers = append(in.Samplers, s)
	}
	return in
}

func c38GenSampler(r *rand.Rand, name string) c38Sampler {
	s := c38Sampler{Name: name, Params: map[string]int64{}, KeyCase: r.Intn(3)}
	fields := func() []string {
		var l []string
		for i := 0; i < 1+r.Intn(3); i++ {
			l = append(l, []string{"http.method", "status_code", "service.name", "request.path"}[r.Intn(4)])
		}
		return l
	}
	switch r.Intn(4) {
	case 0:
		s.Type = "DeterministicSampler"
		s.Params["SampleRate"] = int64(1 + r.Intn(100))
	case 1:
		s.Type = "DynamicSampler"
		s.Params["SampleRate"] = int64(2 + r.Intn(100))
		if r.Intn(2) == 0 {
			s.Params["ClearFrequencySec"] = int64(10 + r.Intn(100))
		}
		s.Fields = fields()
	case 2:
		s.Type = "EMADynamicSampler"
		s.Params["GoalSampleRate"] = int64(2 + r.Intn(100))
		if r.Intn(2) == 0 {
			s.Params["AdjustmentInterval"] = int64(5 + r.Intn(60))
		}
		if r.Intn(2) == 0 {
			s.Params["BurstDetectionDelay"] = int64(2 + r.Intn(8))
		}
		s.Fields = fields()
	default:
		s.Type = "TotalThroughputSampler"
		s.Params["GoalThroughputPerSec"] = int64(10 + r.Intn(500))
		if r.Intn(2) == 0 {
			s.Params["ClearFrequencySec"] = int64(10 + r.Intn(100))
		}
		s.Fields = fields()
	}
	return s
}

func c38Key(k string, mode int) string {
	switch mode {
	case 1:
		return strings.ToLower(k)
	case 2:
		return strings.ToUpper(k)
	}
	return k
}

func c38RulesTOML(ss []c38Sampler) string {
	var b strings.Builder
	for _, s := range ss {
		ind := ""
		if s.Name != "" {
			fmt.Fprintf(&b, "\n[%s]\n", s.Name)
			ind = "  "
		}
		if s.Type != "" {
			fmt.Fprintf(&b, "%s%s = %q\n", ind, c38Key("Sampler", s.KeyCase), s.Type)
		}
		keys := make([]string, 0, len(s.Params))
		for k := range s.Params {
			keys = append(keys, k)
		}
		sort.Strings(keys)
		for _, k := range keys {
			fmt.Fprintf(&b, "%s%s = %d\n", ind, c38Key(k, s.KeyCase), s.Params[k])
		}
		if len(s.Fields) > 0 {
			q := make([]string, len(s.Fields))
			for i, f := range s.Fields {
				q[i] = fmt.Sprintf("%q", f)
			}
			fmt.Fprintf(&b, "%s%s = [%s]\n", ind, c38Key("FieldList", s.KeyCase), strings.Join(q, ", "))
		}
	}
	return b.String()
}

func c38ConfigTOML(ss []c38Setting) string {
	var top, groups strings.Builder
	byGroup := map[string][]string{}
	var gnames []string
	for _, s := range ss {
		g, n, ok := strings.Cut(s.V1Key, ".")
		if !ok {
			fmt.Fprintf(&top, "%s = %s\n", s.V1Key, s.Val)
			continue
		}
		if _, seen := byGroup[g]; !seen {
			gnames = append(gnames, g)
		}
		byGroup[g] = append(byGroup[g], fmt.Sprintf("%s = %s\n", n, s.Val))
	}
	for _, g := range gnames {
		fmt.Fprintf(&groups, "\n[%s]\n%s", g, strings.Join(byGroup[g], ""))
	}
	return top.String() + groups.String()
}

// canonical text of a value: durations as nanoseconds, everything else as printed
func c38CanonV1(typ, text string) string {
	t := strings.Trim(text, `"`)
	if typ == "duration" {
		if d, err := time.ParseDuration(t); err == nil {
			return strconv.FormatInt(int64(d), 10)
		}
	}
	return t
}
func c38CanonV2(v reflect.Value) string {
	switch x := v.Interface().(type) {
	case config.Duration:
		return strconv.FormatInt(int64(x), 10)
	case *config.DefaultTrue:
		return strconv.FormatBool(x.Get())
	case []string:
		return strings.Join(x, "\x1f")
	}
	return fmt.Sprint(v.Interface())
}

func c38Lookup(c config.Config, path string) (reflect.Value, bool) {
	v := reflect.ValueOf(config.VerifC29MainConfig(c)).Elem()
	for _, part := range strings.Split(path, ".") {
		t := v.Type()
		found := false
		for i := 0; i < t.NumField(); i++ {
			name := strings.Split(t.Field(i).Tag.Get("yaml"), ",")[0]
			if name == "" {
				name = t.Field(i).Name
			}
			if name == part {
				v = v.Field(i)
				found = true
				break
			}
		}
		if !found {
			return reflect.Value{}, false
		}
	}
	return v, true
}

func c38Run(raw json.RawMessage) (Case, error) {
	if err := c38Init(); err != nil {
		return Case{}, err
	}
	var in c38Input
	if err := json.Unmarshal(raw, &in); err != nil {
		return Case{}, err
	}
	dir, err := os.MkdirTemp(".", "c38-")
	if err != nil {
		return Case{}, err
	}
	defer os.RemoveAll(dir)
	p := func(n string) string { return filepath.Join(dir, n) }
	if err := os.WriteFile(p("v1.toml"), []byte(c38ConfigTOML(in.Settings)), 0o644); err != nil {
		return Case{}, err
	}
	if err := os.WriteFile(p("rules1.toml"), []byte(c38RulesTOML(in.Samplers)), 0o644); err != nil {
		return Case{}, err
	}
	run := func(args ...string) (string, bool) {
		out, err := exec.Command(c38Convert, args...).CombinedOutput()
		return string(out), err == nil
	}
	out1, ok1 := run("config", "--input", p("v1.toml"), "--output", p("v2.yaml"))
	out2, ok2 := run("rules", "--input", p("rules1.toml"), "--output", p("rules2.yaml"))
	converted := ok1 && ok2
	accepted := false
	var cfg config.Config
	loadErr := ""
	if converted {
		c, err := config.NewConfig(&config.CmdEnv{ConfigLocations: []string{p("v2.yaml")}, RulesLocations: []string{p("rules2.yaml")}})
		if c != nil {
			cfg, accepted = c, true
		} else {
			loadErr = fmt.Sprint(err)
		}
	} else {
		loadErr = "converter failed: " + out1 + out2
	}
	typOf := map[string]c38Field{}
	for _, f := range c38Fields {
		typOf[f.v1key] = f
	}
	var setTerms, human []string
	tags := map[string]bool{}
	for _, s := range in.Settings {
		f, known := typOf[s.V1Key]
		if !known {
			tags["deprecated-v1-setting-present"] = true
			continue // a v1 setting that no longer exists in v2 (e.g. CacheCapacity)
		}
		want := c38CanonV1(f.typ, s.Val)
		got := "<rejected>"
		if accepted {
			if v, ok := c38Lookup(cfg, f.v2path); ok {
				got = c38CanonV2(v)
			} else {
				got = "<no such v2 setting>"
			}
		}
		setTerms = append(setTerms, fmt.Sprintf("(%s, %s, %s, %s)", cq.Str(s.V1Key), cq.Str(f.v2path), cq.Str(want), cq.Str(got)))
		human = append(human, fmt.Sprintf("%s=%s -> %s=%s", s.V1Key, want, f.v2path, got))
		tags["type:"+f.typ] = true
	}
	// samplers
	var sampTerms []string
	for _, s := range in.Samplers {
		name := s.Name
		if name == "" {
			name = "__default__"
		}
		var ps []string
		keys := make([]string, 0, len(s.Params))
		for k := range s.Params {
			keys = append(keys, k)
		}
		sort.Strings(keys)
		for _, k := range keys {
			ps = append(ps, cq.Pair(cq.Str(k), cq.Z(s.Params[k])))
		}
		obsType, obsParams, obsFields := "<rejected>", []string{}, []string{}
		if accepted {
			rules := cfg.GetAllSamplerRules()
			if ch, ok := rules.Samplers[name]; ok && ch != nil {
				sc, tn := ch.Sampler()
				obsType = tn
				b, _ := yaml.Marshal(sc)
				var m map[string]any
				yaml.Unmarshal(b, &m)
				mk := make([]string, 0, len(m))
				for k := range m {
					mk = append(mk, k)
				}
				sort.Strings(mk)
				for _, k := range mk {
					switch x := m[k].(type) {
					case int:
						obsParams = append(obsParams, cq.Pair(cq.Str(k), cq.Z(int64(x))))
					case string:
						if d, err := time.ParseDuration(x); err == nil {
							obsParams = append(obsParams, cq.Pair(cq.Str(k), cq.Z(int64(d))))
						}
					case []any:
						if k == "FieldList" {
							for _, e := range x {
								obsFields = append(obsFields, fmt.Sprint(e))
							}
						}
					}
				}
			} else {
				obsType = "<absent>"
			}
		}
		sampTerms = append(sampTerms, fmt.Sprintf("{| sm_name := %s; sm_type := %s; sm_params := %s; sm_fields := %s; sm_obs_type := %s; sm_obs_params := %s; sm_obs_fields := %s |}",
			cq.Str(name), cq.Str(s.Type), cq.List(ps), cq.ListStr(s.Fields), cq.Str(obsType), cq.List(obsParams), cq.ListStr(obsFields)))
		human = append(human, fmt.Sprintf("sampler %s: v1 %s %v %v -> v2 %s %v %v", name, s.Type, s.Params, s.Fields, obsType, obsParams, obsFields))
		if s.Type == "" {
			tags["section-with-only-samplerate"] = true
		} else {
			tags["sampler:"+s.Type] = true
		}
		if s.KeyCase != 0 {
			tags["non-canonical-key-case"] = true
		}
	}
	nsam := 0
	if accepted {
		nsam = len(cfg.GetAllSamplerRules().Samplers)
	}
	coq := fmt.Sprintf("{| c_converted := %s; c_accepted := %s; c_settings := %s; c_samplers := %s; c_nsamplers := %s |}",
		cq.Bool(converted), cq.Bool(accepted), cq.List(setTerms), cq.List(sampTerms), cq.N(uint64(nsam)))
	var tl []string
	for t := range tags {
		tl = append(tl, t)
	}
	sort.Strings(tl)
	if loadErr != "" {
		if len(loadErr) > 600 {
			loadErr = loadErr[:600]
		}
		human = append(human, "load error: "+loadErr)
	}
	return Case{Coq: coq, Key: string(raw), Nontriv: len(in.Settings) > 0 && len(in.Samplers) > 1, Tags: tl,
		Summary: map[string]any{"converted": converted, "accepted": accepted, "observations": human}}, nil
}

func c38Shrink(raw json.RawMessage) []json.RawMessage {
	var in c38Input
	if json.Unmarshal(raw, &in) != nil {
		return nil
	}
	var out []json.RawMessage
	emit := func(c c38Input) {
		b, _ := json.Marshal(c)
		out = append(out, b)
	}
	for i := range in.Settings {
		c := in
		c.Settings = append(append([]c38Setting{}, in.Settings[:i]...), in.Settings[i+1:]...)
		emit(c)
	}
	for i := range in.Samplers {
		if in.Samplers[i].Name == "" {
			continue
		}
		c := in
		c.Samplers = append(append([]c38Sampler{}, in.Samplers[:i]...), in.Samplers[i+1:]...)
		emit(c)
	}
	return out
}
