package drive

import (
	"crypto/sha1"
	"encoding/hex"
	"encoding/json"
	"fmt"
	"math/rand"
	"os"
	"os/exec"
	"path/filepath"
	"reflect"
	"sort"
	"strconv"
	"strings"
	"time"

	"github.com/pelletier/go-toml/v2"
	"gopkg.in/yaml.v3"

	"github.com/honeycombio/refinery/config"
	cq "github.com/honeycombio/refinery/verifharness/coqfmt"
)

// C38: the REAL converter binary (tools/convert, built from the repo under test) on generated v1 config and
// rules files, its output loaded by the REAL v2 loader/validator (config.NewConfig). Observed: acceptance,
// the effective value of every generated v1 setting at its v2 location, and every sampler with its parameters.

type c38Setting struct {
	V1Key string `json:"k"` // v1 location: "Name" or "Group.Name"
	Val   string `json:"v"` // TOML literal written into the v1 file
	Class string `json:"c,omitempty"` // D = the documented default, Z = zero value, N = non-default non-zero
}
type c38Cond struct {
	Field string `json:"f"`
	Op    string `json:"o"`
	Value string `json:"v,omitempty"` // TOML literal; empty for exists / not-exists
}
type c38Rule struct {
	Name       string    `json:"name"`
	SampleRate int64     `json:"rate,omitempty"`
	Drop       bool      `json:"drop,omitempty"`
	Conds      []c38Cond `json:"conds,omitempty"`
	Sub        string    `json:"sub,omitempty"` // nested sampler type ("" = none)
	SubRate    int64     `json:"subrate,omitempty"`
	SubSecs    int64     `json:"subsecs,omitempty"`  // nested legacy parameter in SECONDS: ClearFrequencySec (Dynamic, TotalThroughput) / AdjustmentInterval (EMADynamic)
	SubDelay   int64     `json:"subdelay,omitempty"` // nested EMADynamic BurstDetectionDelay
	SubUTL     bool      `json:"subutl,omitempty"`   // nested UseTraceLength
}
type c38Sampler struct {
	Name    string           `json:"name"`             // "" = default section
	Type    string           `json:"type,omitempty"`   // "" = no Sampler key in the section
	Params  map[string]int64 `json:"params,omitempty"` // v1 parameter names (canonical case), integer valued
	Fields  []string         `json:"fields,omitempty"` // FieldList
	KeyCase int              `json:"case,omitempty"`   // 0 as documented, 1 lower, 2 upper
	Rules   []c38Rule        `json:"rules,omitempty"`  // RulesBasedSampler
}
type c38Input struct {
	Settings []c38Setting `json:"settings"`
	Samplers []c38Sampler `json:"samplers"`
}

type c38Field struct {
	v1key, v2path, typ, vtype string
	mdef                      string // documented default, printed as the converter compares it
	hasDef                    bool
	choices                   []string
	min, max                  float64 // canonical units (ns, bytes, plain)
	hasMin, hasMax, zeroOK    bool
	elem                      string
	valueMap                  map[string]string // curated rows only: v1 value -> v2 value
	curated                   bool
}
type c38Default struct {
	canon string
	ptr   bool
	isInt bool // the Go field is an integer although the metadata may call the setting a float
}

var c38Fields []c38Field
var c38Defaults = map[string]c38Default{}
var c38Convert string

func init() {
	Register(&Driver{ID: "C38", Gen: c38Gen, Run: c38Run, Shrink: c38Shrink})
}

func c38ParseBound(typ string, arg any) (float64, bool) {
	switch x := arg.(type) {
	case int:
		return float64(x), true
	case float64:
		return x, true
	case string:
		t := strings.ReplaceAll(x, "_", "")
		if typ == "duration" {
			if d, err := time.ParseDuration(t); err == nil {
				return float64(d), true
			}
		}
		if typ == "memorysize" {
			var m config.MemorySize
			if m.UnmarshalText([]byte(t)) == nil {
				return float64(m), true
			}
		}
		if f, err := strconv.ParseFloat(t, 64); err == nil {
			return f, true
		}
	}
	return 0, false
}

func c38Init() error {
	if c38Fields != nil {
		return nil
	}
	meta, err := config.LoadConfigMetadata()
	if err != nil {
		return err
	}
	// configMeta.yaml spells the key both "firstversion" and "firstVersion"; the struct tag only sees the
	// former, so read the key case-insensitively from the raw file (as the translator does)
	repoDir := os.Getenv("VERIF_REPO")
	if repoDir == "" {
		repoDir = "/repo"
	}
	if rawMeta, err := os.ReadFile(filepath.Join(repoDir, "config/metadata/configMeta.yaml")); err == nil {
		var generic struct {
			Groups []struct {
				Name   string           `yaml:"name"`
				Fields []map[string]any `yaml:"fields"`
			} `yaml:"groups"`
		}
		if yaml.Unmarshal(rawMeta, &generic) == nil {
			first := map[string]string{}
			for _, g := range generic.Groups {
				for _, f := range g.Fields {
					for k, v := range f {
						if strings.EqualFold(k, "firstversion") {
							first[g.Name+"."+fmt.Sprint(f["name"])] = fmt.Sprint(v)
						}
					}
				}
			}
			for gi := range meta.Groups {
				for fi := range meta.Groups[gi].Fields {
					if v, ok := first[meta.Groups[gi].Name+"."+meta.Groups[gi].Fields[fi].Name]; ok {
						meta.Groups[gi].Fields[fi].FirstVersion = v
					}
				}
			}
		}
	}
	sameName := map[string]int{}
	for _, g := range meta.Groups {
		for _, f := range g.Fields {
			if f.V1Name == "" && f.FirstVersion == "" {
				sameName[f.Name]++
			}
		}
	}
	for _, g := range meta.Groups {
		if g.LastVersion != "" {
			continue
		}
		for _, f := range g.Fields {
			if f.LastVersion != "" {
				continue
			}
			if f.V1Name == "" {
				// exists since v1 under the same top-level name (templates/genfield.tmpl); ambiguous names left out
				if f.FirstVersion != "" || sameName[f.Name] != 1 {
					continue
				}
				f.V1Name = f.Name
			}
			if f.ValueType == "conditional" || f.ValueType == "assigndefault" || f.ValueType == "map" {
				continue // derived from other v1 settings / fixed by the converter / v2-only maps
			}
			if g.Name+"."+f.Name == "Collection.MaxMemoryPercentage" {
				continue // introduced together with AvailableMemory in v2; the metadata carries no firstversion for it
			}
			k := f.V1Name
			if f.V1Group != "" {
				k = strings.Split(f.V1Group, "/")[0] + "." + f.V1Name
			}
			cf := c38Field{v1key: k, v2path: g.Name + "." + f.Name, typ: f.Type, vtype: f.ValueType, choices: f.Choices, zeroOK: true}
			if f.Default != nil {
				cf.mdef, cf.hasDef = fmt.Sprint(f.Default), true
			}
			constrained := false
			for _, v := range f.Validations {
				switch v.Type {
				case "minimum":
					if b, ok := c38ParseBound(f.Type, v.Arg); ok {
						cf.min, cf.hasMin = b, true
						if b > 0 {
							cf.zeroOK = false
						}
					}
				case "maximum":
					if b, ok := c38ParseBound(f.Type, v.Arg); ok {
						cf.max, cf.hasMax = b, true
					}
				case "minOrZero":
					if b, ok := c38ParseBound(f.Type, v.Arg); ok {
						cf.min, cf.hasMin = b, true
					}
				case "notempty", "required":
					cf.zeroOK = false
				case "elementType":
					cf.elem = fmt.Sprint(v.Arg)
				case "format", "requiredWith", "requiredInGroup", "conflictsWith":
					constrained = true
				}
			}
			// "valid v1 file": free text only where no format / cross-field constraint applies
			if constrained && (f.Type == "string" && len(f.Choices) == 0) {
				continue
			}
			if constrained {
				cf.zeroOK = false
			}
			c38Fields = append(c38Fields, cf)
		}
	}
	// genuine v1 settings that the metadata may not (or not fully) map: kept here independently of the metadata
	c38Fields = append(c38Fields,
		c38Field{v1key: "LoggingLevel", v2path: "Logger.Level", typ: "string", vtype: "choice", mdef: "warn", hasDef: true,
			choices: []string{"debug", "info", "warn", "error"}, curated: true},
		c38Field{v1key: "Logger", v2path: "Logger.Type", typ: "string", vtype: "v1logger", mdef: "", choices: []string{"logrus", "honeycomb"},
			valueMap: map[string]string{"logrus": "stdout", "honeycomb": "honeycomb"}, curated: true})
	// a curated row yields to a metadata row with the same v1 key (the metadata maps it now); a metadata row that
	// only exists through the same-name heuristic yields to a curated row for the same v2 setting (v1 had no
	// top-level "Type": the v1 name of Logger.Type is "Logger")
	metaKeys, curatedPaths := map[string]bool{}, map[string]bool{}
	for _, f := range c38Fields {
		if !f.curated {
			metaKeys[f.v1key] = true
		}
	}
	for _, f := range c38Fields {
		if f.curated && !metaKeys[f.v1key] {
			curatedPaths[f.v2path] = true
		}
	}
	var kept []c38Field
	for _, f := range c38Fields {
		if f.curated && metaKeys[f.v1key] {
			continue
		}
		if !f.curated && curatedPaths[f.v2path] && !strings.Contains(f.v1key, ".") && f.v1key == f.v2path[strings.Index(f.v2path, ".")+1:] {
			continue
		}
		kept = append(kept, f)
	}
	c38Fields = kept

	// what the v2 loader uses when a setting is not named, and whether the struct can hold an explicit zero
	dir, err := os.MkdirTemp(".", "c38init-")
	if err != nil {
		return err
	}
	defer os.RemoveAll(dir)
	os.WriteFile(filepath.Join(dir, "c.yaml"), []byte("General:\n  ConfigurationVersion: 2\n"), 0o644)
	os.WriteFile(filepath.Join(dir, "r.yaml"), []byte("RulesVersion: 2\nSamplers:\n  __default__:\n    DeterministicSampler:\n      SampleRate: 1\n"), 0o644)
	dc, err := config.NewConfig(&config.CmdEnv{ConfigLocations: []string{filepath.Join(dir, "c.yaml")}, RulesLocations: []string{filepath.Join(dir, "r.yaml")}})
	if dc == nil {
		return fmt.Errorf("C38: minimal v2 config rejected: %v", err)
	}
	for _, f := range c38Fields {
		if v, ok := c38Lookup(dc, f.v2path); ok {
			c38Defaults[f.v2path] = c38Default{canon: c38CanonV2(v), ptr: v.Kind() == reflect.Ptr, isInt: v.Kind() >= reflect.Int && v.Kind() <= reflect.Uint64}
		}
	}
	// build the converter of the repository under test (cached by source content)
	repo := repoDir
	h := sha1.New()
	for _, pat := range []string{"tools/convert/*.go", "tools/convert/templates/*", "config/metadata/*.yaml", "config/*.go"} {
		files, _ := filepath.Glob(filepath.Join(repo, pat))
		sort.Strings(files)
		for _, f := range files {
			if strings.HasSuffix(f, "_test.go") {
				continue
			}
			b, err := os.ReadFile(f)
			if err == nil {
				h.Write([]byte(f))
				h.Write(b)
			}
		}
	}
	cwd, _ := os.Getwd()
	binDir := filepath.Join(cwd, "..", "bin")
	if st, err := os.Stat(binDir); err != nil || !st.IsDir() {
		binDir = cwd
	}
	exe := filepath.Join(binDir, "convert-"+hex.EncodeToString(h.Sum(nil))[:16])
	if _, err := os.Stat(exe); err != nil {
		old, _ := filepath.Glob(filepath.Join(binDir, "convert-*"))
		for _, o := range old {
			os.Remove(o)
		}
		cmd := exec.Command("go", "build", "-o", exe, "./tools/convert")
		cmd.Dir = repo
		cmd.Env = append(os.Environ(), "GOFLAGS=-mod=mod", "GOPROXY=off")
		if out, err := cmd.CombinedOutput(); err != nil {
			return fmt.Errorf("C38: building tools/convert failed: %v\n%s", err, out)
		}
	}
	c38Convert = exe
	return nil
}

// string values that need care when they are written into YAML
func c38Special(r *rand.Rand) string {
	specials := []string{`back\\slash`, `C:\\dir\\name`, `say "hi"`, `it's`, `both " and '`, `#hash first`, `a #comment`, `key: value`, `colon:`,
		` leading space`, `trailing space `, "line1\nline2", "tab\there", `{brace}`, `[bracket]`, `*star`, `&amp`, `!bang`, `%percent`, `@at`, "`backtick`",
		`~tilde`, `-dash`, `? q`, `| pipe`, `> gt`, `end\\`, `"quoted"`, `'single'`, `\\"mix'`}
	return specials[r.Intn(len(specials))] + strconv.Itoa(r.Intn(9))
}

func c38Clamp(f c38Field, v float64) float64 {
	if f.hasMax && v > f.max {
		v = f.max
	}
	if f.hasMin && v < f.min {
		v = f.min
	}
	return v
}

// TOML literal for a setting: class D = documented default, Z = zero value, N = non-default non-zero
func c38GenValue(r *rand.Rand, f c38Field, class string) (string, bool) {
	if class == "Z" && !f.zeroOK {
		class = "N"
	}
	if class == "D" && !f.hasDef {
		class = "N"
	}
	q := func(s string) string { return fmt.Sprintf("%q", s) }
	if f.vtype == "v1logger" {
		return q(f.choices[r.Intn(len(f.choices))]), true
	}
	if len(f.choices) > 0 {
		if class == "D" {
			return q(f.mdef), true
		}
		return q(f.choices[r.Intn(len(f.choices))]), true
	}
	switch f.typ {
	case "bool", "defaulttrue":
		switch class {
		case "Z":
			return "false", true
		case "D":
			return f.mdef, f.mdef == "true" || f.mdef == "false"
		}
		return []string{"true", "false"}[r.Intn(2)], true
	case "int", "percentage":
		switch class {
		case "Z":
			return "0", true
		case "D":
			if _, err := strconv.Atoi(f.mdef); err == nil {
				return f.mdef, true
			}
		}
		v := 1100 + float64(r.Intn(800))
		if f.typ == "percentage" {
			v = float64(11 + r.Intn(80))
		}
		return strconv.Itoa(int(c38Clamp(f, v))), true
	case "float":
		switch class {
		case "Z":
			return "0.0", true
		case "D":
			if x, err := strconv.ParseFloat(f.mdef, 64); err == nil {
				return strconv.FormatFloat(x, 'f', 1, 64), true
			}
		}
		frac := 0.5
		if c38Defaults[f.v2path].isInt {
			frac = 0 // v1 and v2 hold an integer here
		}
		return strconv.FormatFloat(c38Clamp(f, float64(2+r.Intn(40))+frac), 'f', 1, 64), true
	case "duration":
		if f.vtype == "secondstoduration" {
			if class == "Z" {
				return "0", true
			}
			return strconv.Itoa(20 + r.Intn(100)), true
		}
		switch class {
		case "Z":
			return q("0s"), true
		case "D":
			if _, err := time.ParseDuration(f.mdef); err == nil {
				return q(f.mdef), true
			}
		}
		d := time.Duration(c38Clamp(f, float64(time.Duration(16+r.Intn(30))*time.Minute)))
		return q(d.String()), true
	case "memorysize":
		if class == "Z" {
			return "0", true
		}
		return strconv.Itoa(int(c38Clamp(f, float64((50+r.Intn(50))*1_000_000)))), true
	case "hostport":
		switch class {
		case "Z":
			return q(""), true
		case "D":
			return q(f.mdef), true
		}
		return q(fmt.Sprintf("0.0.0.0:%d", 7000+r.Intn(900))), true
	case "url":
		switch class {
		case "Z": // a blank URL is not a valid value
			return q(fmt.Sprintf("https://h%d.example.com", r.Intn(90))), true
		case "D":
			return q(f.mdef), true
		}
		return q(fmt.Sprintf("https://h%d.example.com", r.Intn(90))), true
	case "string":
		switch class {
		case "Z":
			return q(""), true
		case "D":
			return q(f.mdef), true
		}
		if r.Intn(100) < 45 {
			return q(c38Special(r)), true
		}
		return q(fmt.Sprintf("val%d", r.Intn(90))), true
	case "stringarray":
		if class == "Z" {
			return "[]", true
		}
		n := 1 + r.Intn(3)
		var es []string
		for i := 0; i < n; i++ {
			switch f.elem {
			case "hostport":
				es = append(es, q(fmt.Sprintf("host%d:%d", r.Intn(9), 6000+i)))
			case "url":
				es = append(es, q(fmt.Sprintf("http://peer%d.example.com:8081", r.Intn(9))))
			default:
				if f.elem != "" && r.Intn(100) < 30 {
					es = append(es, q(c38Special(r)))
				} else {
					es = append(es, q(fmt.Sprintf("item%d", r.Intn(90))))
				}
			}
		}
		return "[" + strings.Join(es, ", ") + "]", true
	}
	return "", false
}

func c38Gen(r *rand.Rand, tier string, i int) any {
	if err := c38Init(); err != nil {
		panic(err)
	}
	in := c38Input{}
	n := 4 + r.Intn(9)
	perm := r.Perm(len(c38Fields))
	for _, pi := range perm {
		if len(in.Settings) >= n {
			break
		}
		f := c38Fields[pi]
		class := []string{"D", "Z", "Z", "N", "N"}[r.Intn(5)]
		if v, ok := c38GenValue(r, f, class); ok {
			in.Settings = append(in.Settings, c38Setting{V1Key: f.v1key, Val: v, Class: class})
		}
	}
	// most files carry at least one free-text setting whose value needs escaping when written into YAML
	if r.Intn(10) < 7 {
		var free []c38Field
		have := map[string]bool{}
		for _, st := range in.Settings {
			have[st.V1Key] = true
		}
		for _, f := range c38Fields {
			if f.typ == "string" && len(f.choices) == 0 && !f.curated && !have[f.v1key] {
				free = append(free, f)
			}
		}
		if len(free) > 0 {
			f := free[r.Intn(len(free))]
			hard := []string{`back\\slash`, `C:\\dir\\name`, `both " and '`, `\\"mix'`, `end\\`, "line1\nline2", "tab\there", `it's "quoted"`}
			v := hard[r.Intn(len(hard))] + strconv.Itoa(r.Intn(9))
			if r.Intn(3) == 0 {
				v = c38Special(r)
			}
			in.Settings = append(in.Settings, c38Setting{V1Key: f.v1key, Val: fmt.Sprintf("%q", v), Class: "N"})
		}
	}
	if r.Intn(10) < 7 { // nearly every v1 file has it; deprecated in v2
		in.Settings = append(in.Settings, c38Setting{V1Key: "InMemCollector.CacheCapacity", Val: strconv.Itoa(1000 + r.Intn(9000))})
	}
	sort.Slice(in.Settings, func(a, b int) bool { return in.Settings[a].V1Key < in.Settings[b].V1Key })
	in.Samplers = append(in.Samplers, c38GenSampler(r, ""))
	nds := r.Intn(4)
	for d := 0; d < nds; d++ {
		s := c38GenSampler(r, fmt.Sprintf("dataset%d", d+1))
		if r.Intn(8) == 0 {
			s.Type = "" // a section with only a SampleRate
			s.Params = map[string]int64{"SampleRate": int64(2 + r.Intn(50))}
			s.Fields = nil
			s.Rules = nil
		}
		in.Samplers = append(in.Samplers, s)
	}
	return in
}

func c38GenSampler(r *rand.Rand, name string) c38Sampler {
	s := c38Sampler{Name: name, Params: map[string]int64{}, KeyCase: r.Intn(3)}
	fields := func() []string {
		var l []string
		for i := 0; i < 1+r.Intn(3); i++ {
			l = append(l, []string{"http.method", "status_code", "service.name", "request.path"}[r.Intn(4)])
		}
		return l
	}
	switch r.Intn(5) {
	case 0:
		s.Type = "DeterministicSampler"
		s.Params["SampleRate"] = int64(1 + r.Intn(100))
	case 1:
		s.Type = "DynamicSampler"
		s.Params["SampleRate"] = int64(2 + r.Intn(100))
		if r.Intn(2) == 0 {
			s.Params["ClearFrequencySec"] = int64(10 + r.Intn(100))
		}
		s.Fields = fields()
	case 2:
		s.Type = "EMADynamicSampler"
		s.Params["GoalSampleRate"] = int64(2 + r.Intn(100))
		if r.Intn(2) == 0 {
			s.Params["AdjustmentInterval"] = int64(5 + r.Intn(60))
		}
		if r.Intn(2) == 0 {
			s.Params["BurstDetectionDelay"] = int64(2 + r.Intn(8))
		}
		s.Fields = fields()
	case 3:
		s.Type = "TotalThroughputSampler"
		s.Params["GoalThroughputPerSec"] = int64(10 + r.Intn(500))
		if r.Intn(2) == 0 {
			s.Params["ClearFrequencySec"] = int64(10 + r.Intn(100))
		}
		s.Fields = fields()
	default:
		s.Type = "RulesBasedSampler"
		s.KeyCase = 0 // rule trees are written with the documented key spelling
		n := 1 + r.Intn(4)
		for i := 0; i < n; i++ {
			ru := c38Rule{Name: fmt.Sprintf("rule %d-%d", i, r.Intn(90))}
			switch r.Intn(4) {
			case 0:
				ru.Drop = true
			case 1:
				ru.Sub = []string{"EMADynamicSampler", "DynamicSampler", "TotalThroughputSampler"}[r.Intn(3)]
				ru.SubRate = int64(2 + r.Intn(50))
				ru.SubSecs = int64(5 + r.Intn(120))
				ru.SubUTL = r.Intn(2) == 0
				if ru.Sub == "EMADynamicSampler" {
					ru.SubDelay = int64(2 + r.Intn(8))
				}
			default:
				ru.SampleRate = int64(1 + r.Intn(200))
			}
			nc := r.Intn(3)
			for j := 0; j < nc; j++ {
				c := c38Cond{Field: []string{"status_code", "http.method", "duration_ms", "error"}[r.Intn(4)]}
				switch r.Intn(5) {
				case 0:
					c.Op, c.Value = "=", fmt.Sprintf("%d", 200+r.Intn(400))
				case 1:
					c.Op, c.Value = ">=", fmt.Sprintf("%d", r.Intn(1000))
				case 2:
					c.Op, c.Value = "!=", fmt.Sprintf("%q", []string{"GET", "POST", "x y"}[r.Intn(3)])
				case 3:
					c.Op, c.Value = "contains", fmt.Sprintf("%q", []string{"err", "time out"}[r.Intn(2)])
				default:
					c.Op = []string{"exists", "not-exists"}[r.Intn(2)]
				}
				ru.Conds = append(ru.Conds, c)
			}
			s.Rules = append(s.Rules, ru)
		}
	}
	return s
}

func c38Key(k string, mode int) string {
	switch mode {
	case 1:
		return strings.ToLower(k)
	case 2:
		return strings.ToUpper(k)
	}
	return k
}

func c38RulesTOML(ss []c38Sampler) string {
	var b strings.Builder
	for _, s := range ss {
		ind, pre := "", ""
		if s.Name != "" {
			fmt.Fprintf(&b, "\n[%s]\n", s.Name)
			ind, pre = "  ", s.Name+"."
		}
		if s.Type != "" {
			fmt.Fprintf(&b, "%s%s = %q\n", ind, c38Key("Sampler", s.KeyCase), s.Type)
		}
		keys := make([]string, 0, len(s.Params))
		for k := range s.Params {
			keys = append(keys, k)
		}
		sort.Strings(keys)
		for _, k := range keys {
			fmt.Fprintf(&b, "%s%s = %d\n", ind, c38Key(k, s.KeyCase), s.Params[k])
		}
		if len(s.Fields) > 0 {
			q := make([]string, len(s.Fields))
			for i, f := range s.Fields {
				q[i] = fmt.Sprintf("%q", f)
			}
			fmt.Fprintf(&b, "%s%s = [%s]\n", ind, c38Key("FieldList", s.KeyCase), strings.Join(q, ", "))
		}
		for _, ru := range s.Rules {
			fmt.Fprintf(&b, "\n%s[[%srule]]\n%s  name = %q\n", ind, pre, ind, ru.Name)
			if ru.Drop {
				fmt.Fprintf(&b, "%s  drop = true\n", ind)
			}
			if ru.SampleRate != 0 {
				fmt.Fprintf(&b, "%s  SampleRate = %d\n", ind, ru.SampleRate)
			}
			for _, c := range ru.Conds {
				fmt.Fprintf(&b, "%s  [[%srule.condition]]\n%s    field = %q\n%s    operator = %q\n", ind, pre, ind, c.Field, ind, c.Op)
				if c.Value != "" {
					fmt.Fprintf(&b, "%s    value = %s\n", ind, c.Value)
				}
			}
			if ru.Sub != "" {
				rate, secs := "GoalSampleRate", "AdjustmentInterval"
				switch ru.Sub {
				case "DynamicSampler":
					rate, secs = "SampleRate", "ClearFrequencySec"
				case "TotalThroughputSampler":
					rate, secs = "GoalThroughputPerSec", "ClearFrequencySec"
				}
				fmt.Fprintf(&b, "%s  [%srule.sampler.%s]\n%s    %s = %d\n%s    FieldList = [\"status_code\"]\n", ind, pre, ru.Sub, ind, rate, ru.SubRate, ind)
				if ru.SubSecs != 0 {
					fmt.Fprintf(&b, "%s    %s = %d\n", ind, secs, ru.SubSecs)
				}
				if ru.SubDelay != 0 {
					fmt.Fprintf(&b, "%s    BurstDetectionDelay = %d\n", ind, ru.SubDelay)
				}
				if ru.SubUTL {
					fmt.Fprintf(&b, "%s    UseTraceLength = true\n", ind)
				}
			}
		}
	}
	return b.String()
}

func c38ConfigTOML(ss []c38Setting) string {
	var top, groups strings.Builder
	byGroup := map[string][]string{}
	var gnames []string
	for _, s := range ss {
		g, n, ok := strings.Cut(s.V1Key, ".")
		if !ok {
			fmt.Fprintf(&top, "%s = %s\n", s.V1Key, s.Val)
			continue
		}
		if _, seen := byGroup[g]; !seen {
			gnames = append(gnames, g)
		}
		byGroup[g] = append(byGroup[g], fmt.Sprintf("%s = %s\n", n, s.Val))
	}
	for _, g := range gnames {
		fmt.Fprintf(&groups, "\n[%s]\n%s", g, strings.Join(byGroup[g], ""))
	}
	return top.String() + groups.String()
}

func c38Float(x float64) string { return strconv.FormatFloat(x, 'g', -1, 64) }

// the v1 value as the converter prints it for comparisons (fmt %v of the decoded TOML value) and its canonical
// form (durations in ns, memory sizes in bytes, lists joined)
func c38V1Forms(f c38Field, v any) (text, canon string) {
	text = fmt.Sprint(v)
	switch x := v.(type) {
	case []any:
		parts := make([]string, len(x))
		for i, e := range x {
			parts[i] = fmt.Sprint(e)
		}
		text = strings.Join(parts, "\x1f")
		return text, text
	case bool:
		return text, strconv.FormatBool(x)
	case int64:
		switch {
		case f.typ == "duration":
			return text, strconv.FormatInt(x*int64(time.Second), 10)
		case f.typ == "float":
			return text, c38Float(float64(x))
		}
		return text, strconv.FormatInt(x, 10)
	case float64:
		return text, c38Float(x)
	case string:
		if f.typ == "duration" {
			if d, err := time.ParseDuration(x); err == nil {
				return text, strconv.FormatInt(int64(d), 10)
			}
		}
		if f.valueMap != nil {
			if m, ok := f.valueMap[x]; ok {
				return text, m
			}
		}
		return text, x
	}
	return text, text
}
func c38CanonV2(v reflect.Value) string {
	switch x := v.Interface().(type) {
	case config.Duration:
		return strconv.FormatInt(int64(x), 10)
	case config.MemorySize:
		return strconv.FormatUint(uint64(x), 10)
	case *config.DefaultTrue:
		return strconv.FormatBool(x.Get())
	case []string:
		return strings.Join(x, "\x1f")
	case float64:
		return c38Float(x)
	case float32:
		return c38Float(float64(x))
	case config.Level:
		return x.String()
	}
	return fmt.Sprint(v.Interface())
}

func c38Lookup(c config.Config, path string) (reflect.Value, bool) {
	v := reflect.ValueOf(config.VerifC29MainConfig(c)).Elem()
	for _, part := range strings.Split(path, ".") {
		t := v.Type()
		found := false
		for i := 0; i < t.NumField(); i++ {
			name := strings.Split(t.Field(i).Tag.Get("yaml"), ",")[0]
			if name == "" {
				name = t.Field(i).Name
			}
			if name == part {
				v = v.Field(i)
				found = true
				break
			}
		}
		if !found {
			return reflect.Value{}, false
		}
	}
	return v, true
}

// one rule as a Gallina record: text = name / rate / drop / conditions, nested sampler type and integer parameters
func c38RuleTerm(text, subType string, params [][2]string) string {
	ps := make([]string, len(params))
	for i, p := range params {
		ps[i] = cq.Pair(cq.Str(p[0]), p[1])
	}
	return fmt.Sprintf("{| ru_text := %s; ru_sub_type := %s; ru_sub_params := %s |}", cq.Str(text), cq.Str(subType), cq.List(ps))
}
func c38B2Z(b bool) string {
	if b {
		return cq.Z(1)
	}
	return cq.Z(0)
}
func c38RuleV1(ru c38Rule) string {
	var cs []string
	for _, c := range ru.Conds {
		cs = append(cs, c.Field+" "+c.Op+" "+strings.Trim(c.Value, `"`))
	}
	text := fmt.Sprintf("%s|rate=%d|drop=%v|%s", ru.Name, ru.SampleRate, ru.Drop, strings.Join(cs, ";"))
	var ps [][2]string
	if ru.Sub != "" {
		rate, secs := "GoalSampleRate", "AdjustmentInterval"
		switch ru.Sub {
		case "DynamicSampler":
			rate, secs = "SampleRate", "ClearFrequencySec"
		case "TotalThroughputSampler":
			rate, secs = "GoalThroughputPerSec", "ClearFrequencySec"
		}
		ps = append(ps, [2]string{rate, cq.Z(ru.SubRate)})
		if ru.SubSecs != 0 {
			ps = append(ps, [2]string{secs, cq.Z(ru.SubSecs)})
		}
		if ru.SubDelay != 0 {
			ps = append(ps, [2]string{"BurstDetectionDelay", cq.Z(ru.SubDelay)})
		}
		ps = append(ps, [2]string{"UseTraceLength", c38B2Z(ru.SubUTL)})
	}
	return c38RuleTerm(text, ru.Sub, ps)
}
func c38RuleV2(ru *config.RulesBasedSamplerRule) string {
	var cs []string
	for _, c := range ru.Conditions {
		val := ""
		if c.Value != nil {
			val = fmt.Sprint(c.Value)
		}
		cs = append(cs, c.Field+" "+c.Operator+" "+val)
	}
	text := fmt.Sprintf("%s|rate=%d|drop=%v|%s", ru.Name, ru.SampleRate, ru.Drop, strings.Join(cs, ";"))
	sub := ""
	var ps [][2]string
	if ru.Sampler != nil {
		switch {
		case ru.Sampler.EMADynamicSampler != nil:
			x := ru.Sampler.EMADynamicSampler
			sub = "EMADynamicSampler"
			ps = [][2]string{{"GoalSampleRate", cq.Z(int64(x.GoalSampleRate))}, {"AdjustmentInterval", cq.Z(int64(x.AdjustmentInterval))},
				{"BurstDetectionDelay", cq.Z(int64(x.BurstDetectionDelay))}, {"UseTraceLength", c38B2Z(x.UseTraceLength)}}
		case ru.Sampler.DynamicSampler != nil:
			x := ru.Sampler.DynamicSampler
			sub = "DynamicSampler"
			ps = [][2]string{{"SampleRate", cq.Z(x.SampleRate)}, {"ClearFrequency", cq.Z(int64(x.ClearFrequency))}, {"UseTraceLength", c38B2Z(x.UseTraceLength)}}
		case ru.Sampler.TotalThroughputSampler != nil:
			x := ru.Sampler.TotalThroughputSampler
			sub = "TotalThroughputSampler"
			ps = [][2]string{{"GoalThroughputPerSec", cq.Z(int64(x.GoalThroughputPerSec))}, {"ClearFrequency", cq.Z(int64(x.ClearFrequency))}, {"UseTraceLength", c38B2Z(x.UseTraceLength)}}
		default:
			sub = "other"
		}
	}
	return c38RuleTerm(text, sub, ps)
}

func c38Run(raw json.RawMessage) (Case, error) {
	if err := c38Init(); err != nil {
		return Case{}, err
	}
	var in c38Input
	if err := json.Unmarshal(raw, &in); err != nil {
		return Case{}, err
	}
	dir, err := os.MkdirTemp(".", "c38-")
	if err != nil {
		return Case{}, err
	}
	defer os.RemoveAll(dir)
	p := func(n string) string { return filepath.Join(dir, n) }
	v1text := c38ConfigTOML(in.Settings)
	if err := os.WriteFile(p("v1.toml"), []byte(v1text), 0o644); err != nil {
		return Case{}, err
	}
	var v1data map[string]any
	if err := toml.Unmarshal([]byte(v1text), &v1data); err != nil {
		return Case{}, fmt.Errorf("C38: generated v1 file is not TOML: %v", err)
	}
	if err := os.WriteFile(p("rules1.toml"), []byte(c38RulesTOML(in.Samplers)), 0o644); err != nil {
		return Case{}, err
	}
	run := func(args ...string) (string, bool) {
		out, err := exec.Command(c38Convert, args...).CombinedOutput()
		return string(out), err == nil
	}
	out1, ok1 := run("config", "--input", p("v1.toml"), "--output", p("v2.yaml"))
	out2, ok2 := run("rules", "--input", p("rules1.toml"), "--output", p("rules2.yaml"))
	converted := ok1 && ok2
	crashed := strings.Contains(out1, "panic:") || strings.Contains(out2, "panic:") || strings.Contains(out1, "goroutine 1 [") || strings.Contains(out2, "goroutine 1 [")
	accepted := false
	var cfg config.Config
	loadErr := ""
	if converted {
		c, err := config.NewConfig(&config.CmdEnv{ConfigLocations: []string{p("v2.yaml")}, RulesLocations: []string{p("rules2.yaml")}})
		if c != nil {
			cfg, accepted = c, true
		} else {
			loadErr = fmt.Sprint(err)
		}
	} else {
		loadErr = "converter failed: " + out1 + out2
	}
	fieldOf := map[string]c38Field{}
	for _, f := range c38Fields {
		fieldOf[f.v1key] = f
	}
	var setTerms, human []string
	tags := map[string]bool{}
	for _, s := range in.Settings {
		f, known := fieldOf[s.V1Key]
		if !known {
			tags["deprecated-v1-setting-present"] = true
			continue // a v1 setting that no longer exists in v2 (e.g. CacheCapacity)
		}
		var v1val any
		if g, n, ok := strings.Cut(s.V1Key, "."); ok {
			if m, ok := v1data[g].(map[string]any); ok {
				v1val = m[n]
			}
		} else {
			v1val = v1data[s.V1Key]
		}
		text, want := c38V1Forms(f, v1val)
		got := "<rejected>"
		if accepted {
			if v, ok := c38Lookup(cfg, f.v2path); ok {
				got = c38CanonV2(v)
			} else {
				got = "<no such v2 setting>"
			}
		}
		d := c38Defaults[f.v2path]
		mdef := f.mdef
		if f.typ == "float" { // the converter compares printed forms: a float default prints as the TOML float does
			if x, err := strconv.ParseFloat(f.mdef, 64); err == nil {
				mdef = fmt.Sprint(x)
			}
		}
		setTerms = append(setTerms, fmt.Sprintf("{| oc_v1key := %s; oc_v2path := %s; oc_vt := %s; oc_v1text := %s; oc_mdefault := %s; oc_choices := %s; oc_v1 := %s; oc_sdefault := %s; oc_ptr := %s; oc_obs := %s |}",
			cq.Str(s.V1Key), cq.Str(f.v2path), cq.Str(f.vtype), cq.Str(text), cq.Str(mdef), cq.ListStr(f.choices), cq.Str(want), cq.Str(d.canon), cq.Bool(d.ptr), cq.Str(got)))
		human = append(human, fmt.Sprintf("%s=%s [%s %s] -> %s=%s (v2 default %s)", s.V1Key, want, f.vtype, s.Class, f.v2path, got, d.canon))
		tags["type:"+f.typ] = true
		tags["valuetype:"+f.vtype] = true
		if want == "" || want == "0" || want == "false" {
			tags["explicit-zero-or-false"] = true
			if want != d.canon {
				tags["explicit-zero-differs-from-v2-default"] = true
			}
		}
	}
	// samplers
	var sampTerms []string
	for _, s := range in.Samplers {
		name := s.Name
		if name == "" {
			name = "__default__"
		}
		var ps []string
		keys := make([]string, 0, len(s.Params))
		for k := range s.Params {
			keys = append(keys, k)
		}
		sort.Strings(keys)
		for _, k := range keys {
			ps = append(ps, cq.Pair(cq.Str(k), cq.Z(s.Params[k])))
		}
		var v1rules []string
		for _, ru := range s.Rules {
			v1rules = append(v1rules, c38RuleV1(ru))
		}
		obsType, obsParams, obsFields, obsRules := "<rejected>", []string{}, []string{}, []string{}
		if accepted {
			rules := cfg.GetAllSamplerRules()
			if ch, ok := rules.Samplers[name]; ok && ch != nil {
				sc, tn := ch.Sampler()
				obsType = tn
				if ch.RulesBasedSampler != nil {
					for _, ru := range ch.RulesBasedSampler.Rules {
						obsRules = append(obsRules, c38RuleV2(ru))
					}
				} else {
					b, _ := yaml.Marshal(sc)
					var m map[string]any
					yaml.Unmarshal(b, &m)
					mk := make([]string, 0, len(m))
					for k := range m {
						mk = append(mk, k)
					}
					sort.Strings(mk)
					for _, k := range mk {
						switch x := m[k].(type) {
						case int:
							obsParams = append(obsParams, cq.Pair(cq.Str(k), cq.Z(int64(x))))
						case string:
							if d, err := time.ParseDuration(x); err == nil {
								obsParams = append(obsParams, cq.Pair(cq.Str(k), cq.Z(int64(d))))
							}
						case []any:
							if k == "FieldList" {
								for _, e := range x {
									obsFields = append(obsFields, fmt.Sprint(e))
								}
							}
						}
					}
				}
			} else {
				obsType = "<absent>"
			}
		}
		sampTerms = append(sampTerms, fmt.Sprintf("{| sm_name := %s; sm_type := %s; sm_params := %s; sm_fields := %s; sm_rules := %s; sm_obs_type := %s; sm_obs_params := %s; sm_obs_fields := %s; sm_obs_rules := %s |}",
			cq.Str(name), cq.Str(s.Type), cq.List(ps), cq.ListStr(s.Fields), cq.List(v1rules), cq.Str(obsType), cq.List(obsParams), cq.ListStr(obsFields), cq.List(obsRules)))
		human = append(human, fmt.Sprintf("sampler %s: v1 %s %v %v %v -> v2 %s %v %v %v", name, s.Type, s.Params, s.Fields, v1rules, obsType, obsParams, obsFields, obsRules))
		if s.Type == "" {
			tags["section-with-only-samplerate"] = true
		} else {
			tags["sampler:"+s.Type] = true
		}
		if s.KeyCase != 0 {
			tags["non-canonical-key-case"] = true
		}
	}
	nsam := 0
	if accepted {
		nsam = len(cfg.GetAllSamplerRules().Samplers)
	}
	if crashed {
		tags["converter-crashed"] = true
	}
	coq := fmt.Sprintf("{| c_crashed := %s; c_converted := %s; c_accepted := %s; c_settings := %s; c_samplers := %s; c_nsamplers := %s |}",
		cq.Bool(crashed), cq.Bool(converted), cq.Bool(accepted), cq.List(setTerms), cq.List(sampTerms), cq.N(uint64(nsam)))
	var tl []string
	for t := range tags {
		tl = append(tl, t)
	}
	sort.Strings(tl)
	if loadErr != "" {
		if len(loadErr) > 600 {
			loadErr = loadErr[:600]
		}
		human = append(human, "load error: "+loadErr)
	}
	return Case{Coq: coq, Key: string(raw), Nontriv: len(in.Settings) > 0 && len(in.Samplers) > 1, Tags: tl,
		Summary: map[string]any{"converted": converted, "accepted": accepted, "observations": human}}, nil
}

func c38Shrink(raw json.RawMessage) []json.RawMessage {
	var in c38Input
	if json.Unmarshal(raw, &in) != nil {
		return nil
	}
	var out []json.RawMessage
	emit := func(c c38Input) {
		b, _ := json.Marshal(c)
		out = append(out, b)
	}
	for i := range in.Settings {
		c := in
		c.Settings = append(append([]c38Setting{}, in.Settings[:i]...), in.Settings[i+1:]...)
		emit(c)
	}
	for i := range in.Samplers {
		if in.Samplers[i].Name == "" {
			continue
		}
		c := in
		c.Samplers = append(append([]c38Sampler{}, in.Samplers[:i]...), in.Samplers[i+1:]...)
		emit(c)
	}
	for i := range in.Samplers {
		for j := range in.Samplers[i].Rules {
			if len(in.Samplers[i].Rules) < 2 {
				continue
			}
			c := in
			c.Samplers = append([]c38Sampler{}, in.Samplers...)
			sm := in.Samplers[i]
			sm.Rules = append(append([]c38Rule{}, sm.Rules[:j]...), sm.Rules[j+1:]...)
			c.Samplers[i] = sm
			emit(c)
		}
	}
	return out
}
