package drive

// Family "route": one in-process refinery "node" shared by the C19..C22 drivers.
//
// The node is made of the REAL route.Router (both the incoming and the peer listener, started
// with the real LnS(), reached over real HTTP on loopback ports), the REAL
// transmit.DirectTransmission for upstream and peer traffic, a fake Honeycomb API and a fake peer
// (httptest servers that decode what arrives with the harness's own msgpack reader), a recording
// collector and a table-driven sharder. Nothing of refinery's request path is re-implemented.

import (
	"bytes"
	"fmt"
	"io"
	"net"
	"net/http"
	"net/http/httptest"
	"net/url"
	"strings"
	"sync"
	"time"

	"github.com/honeycombio/refinery/collect"
	"github.com/honeycombio/refinery/config"
	"github.com/honeycombio/refinery/internal/health"
	"github.com/honeycombio/refinery/logger"
	"github.com/honeycombio/refinery/metrics"
	"github.com/honeycombio/refinery/route"
	"github.com/honeycombio/refinery/sharder"
	"github.com/honeycombio/refinery/transmit"
	"github.com/honeycombio/refinery/types"
	"go.opentelemetry.io/otel/trace/noop"
)

// ---------------------------------------------------------------- fake HTTP endpoints
type rtEvent struct {
	Sink    string // "api" | "peer"
	APIKey  string
	Dataset string
	Ev      MV // the batch element as received: map{time, samplerate, data}
}

type rtSink struct {
	name string
	srv  *httptest.Server
	mu   sync.Mutex
	evs  []rtEvent
	errs []string
}

func newRtSink(name string) *rtSink {
	s := &rtSink{name: name}
	s.srv = httptest.NewServer(http.HandlerFunc(s.handle))
	return s
}

func (s *rtSink) handle(w http.ResponseWriter, req *http.Request) {
	body, _ := io.ReadAll(req.Body)
	req.Body.Close()
	s.mu.Lock()
	defer s.mu.Unlock()
	p := req.URL.EscapedPath()
	if !strings.HasPrefix(p, "/1/batch/") {
		s.errs = append(s.errs, "unexpected path "+p)
		w.WriteHeader(404)
		return
	}
	ds, err := url.PathUnescape(strings.TrimPrefix(p, "/1/batch/"))
	if err != nil {
		s.errs = append(s.errs, "bad dataset escape "+p)
	}
	if ce := req.Header.Get("Content-Encoding"); ce != "" {
		s.errs = append(s.errs, "unexpected content-encoding "+ce)
	}
	v, rest, err := mvDecode(body)
	if err != nil || len(rest) != 0 || v.K != "arr" {
		s.errs = append(s.errs, fmt.Sprintf("undecodable batch body: %v (rest %d)", err, len(rest)))
		w.WriteHeader(400)
		return
	}
	var sb strings.Builder
	sb.WriteString("[")
	for i, e := range v.A {
		s.evs = append(s.evs, rtEvent{Sink: s.name, APIKey: req.Header.Get("X-Honeycomb-Team"), Dataset: ds, Ev: e})
		if i > 0 {
			sb.WriteString(",")
		}
		sb.WriteString(`{"status":202}`)
	}
	sb.WriteString("]")
	w.Header().Set("Content-Type", "application/json")
	w.WriteHeader(200)
	w.Write([]byte(sb.String()))
}

func (s *rtSink) take() ([]rtEvent, []string) {
	s.mu.Lock()
	defer s.mu.Unlock()
	e, x := s.evs, s.errs
	s.evs, s.errs = nil, nil
	return e, x
}

// ---------------------------------------------------------------- recording collector
type rtSpanRec struct {
	Call       string // AddSpan | AddSpanFromPeer | ProcessSpanImmediately
	TraceID    string
	IsRoot     bool
	APIHost    string
	APIKey     string
	Dataset    string
	SampleRate uint
	TsSec      int64
	TsNsec     int64
	TsZero     bool
	Data       MV // payload as MarshalMsg renders it at the time of the call
	DataErr    string
}

type rtCollector struct {
	mu       sync.Mutex
	recs     []rtSpanRec
	stressed bool
	// stress decision per trace id: processed, kept
	decide func(traceID string) (bool, bool)
	// addErr: AddSpan / AddSpanFromPeer return collect.ErrWouldBlock for these trace ids
	full map[string]bool
}

func (c *rtCollector) record(call string, sp *types.Span) {
	r := rtSpanRec{Call: call, TraceID: sp.TraceID, IsRoot: sp.IsRoot, APIHost: sp.APIHost, APIKey: sp.APIKey,
		Dataset: sp.Dataset, SampleRate: sp.SampleRate, TsZero: sp.Timestamp.IsZero()}
	if !r.TsZero {
		r.TsSec, r.TsNsec = sp.Timestamp.Unix(), int64(sp.Timestamp.Nanosecond())
	}
	b, err := sp.Data.MarshalMsg(nil)
	if err != nil {
		r.DataErr = err.Error()
	} else if v, rest, err := mvDecode(b); err != nil || len(rest) != 0 {
		r.DataErr = fmt.Sprintf("undecodable payload: %v", err)
	} else {
		r.Data = v
	}
	c.recs = append(c.recs, r)
}

func (c *rtCollector) AddSpan(sp *types.Span) error {
	c.mu.Lock()
	defer c.mu.Unlock()
	if c.full[sp.TraceID] {
		return collect.ErrWouldBlock
	}
	c.record("AddSpan", sp)
	return nil
}

func (c *rtCollector) AddSpanFromPeer(sp *types.Span) error {
	c.mu.Lock()
	defer c.mu.Unlock()
	if c.full[sp.TraceID] {
		return collect.ErrWouldBlock
	}
	c.record("AddSpanFromPeer", sp)
	return nil
}

func (c *rtCollector) Stressed() bool {
	c.mu.Lock()
	defer c.mu.Unlock()
	return c.stressed
}

func (c *rtCollector) GetStressedSampleRate(traceID string) (uint, bool, string) { return 1, true, "" }

func (c *rtCollector) ProcessSpanImmediately(sp *types.Span) (bool, bool) {
	c.mu.Lock()
	defer c.mu.Unlock()
	c.record("ProcessSpanImmediately", sp)
	if c.decide == nil {
		return false, false
	}
	return c.decide(sp.TraceID)
}

func (c *rtCollector) take() []rtSpanRec {
	c.mu.Lock()
	defer c.mu.Unlock()
	r := c.recs
	c.recs = nil
	return r
}

// ---------------------------------------------------------------- table sharder
type rtShard struct{ addr string }

func (s *rtShard) Equals(o sharder.Shard) bool { return s.addr == o.GetAddress() }
func (s *rtShard) GetAddress() string          { return s.addr }

type rtSharder struct {
	mu    sync.Mutex
	self  *rtShard
	other *rtShard
	// trace ids owned by the other node
	remote map[string]bool
}

func (s *rtSharder) MyShard() sharder.Shard { return s.self }
func (s *rtSharder) WhichShard(id string) sharder.Shard {
	s.mu.Lock()
	defer s.mu.Unlock()
	if s.remote[id] {
		return s.other
	}
	return s.self
}

// ---------------------------------------------------------------- transmission interceptor
// rtHookTx forwards to the real transmission; `before` runs first, on the router's handler
// goroutine, so a driver can park a request at a known point of its handling.
type rtHookTx struct {
	inner  transmit.Transmission
	before func(ev *types.Event)
}

func (h *rtHookTx) EnqueueEvent(ev *types.Event) {
	if h.before != nil {
		h.before(ev)
	}
	h.inner.EnqueueEvent(ev)
}
func (h *rtHookTx) EnqueueSpan(sp *types.Span) {
	if h.before != nil {
		h.before(sp.Event)
	}
	h.inner.EnqueueSpan(sp)
}

// ---------------------------------------------------------------- the node
type rtNode struct {
	cfg      *config.MockConfig
	coll     *rtCollector
	shard    *rtSharder
	api      *rtSink
	peerSink *rtSink
	inc      *route.Router
	peer     *route.Router
	incURL   string
	peerURL  string
	up       *transmit.DirectTransmission
	pr       *transmit.DirectTransmission
	client   *http.Client
}

var (
	rtNodeOnce sync.Once
	rtTheNode  *rtNode
	rtNodeErr  error
)

// a 32-hex "classic" key: no environment lookup is made for it.
const rtLegacyKey = "c0ffee00c0ffee00c0ffee00c0ffee00"

func rtFreeAddr() (string, error) {
	l, err := net.Listen("tcp", "127.0.0.1:0")
	if err != nil {
		return "", err
	}
	a := l.Addr().String()
	l.Close()
	return a, nil
}

func rtWaitUp(addr string) error {
	for i := 0; i < 400; i++ {
		c, err := net.DialTimeout("tcp", addr, 200*time.Millisecond)
		if err == nil {
			c.Close()
			return nil
		}
		time.Sleep(5 * time.Millisecond)
	}
	return fmt.Errorf("router did not start listening on %s", addr)
}

func rtGetNode() (*rtNode, error) {
	rtNodeOnce.Do(func() {
		n := &rtNode{}
		n.api = newRtSink("api")
		n.peerSink = newRtSink("peer")
		incAddr, err := rtFreeAddr()
		if err != nil {
			rtNodeErr = err
			return
		}
		peerAddr, err := rtFreeAddr()
		if err != nil {
			rtNodeErr = err
			return
		}
		n.cfg = &config.MockConfig{
			GetHoneycombAPIVal:    n.api.srv.URL,
			GetListenAddrVal:      incAddr,
			GetPeerListenAddrVal:  peerAddr,
			GetHTTPIdleTimeoutVal: time.Minute,
			EnvironmentCacheTTL:   time.Hour,
			TraceIdFieldNames:     []string{"trace.trace_id", "traceId"},
			ParentIdFieldNames:    []string{"trace.parent_id", "parentId"},
			GetAccessKeyConfigVal: config.AccessKeyConfig{AcceptOnlyListedKeys: false},
		}
		n.coll = &rtCollector{}
		n.shard = &rtSharder{self: &rtShard{addr: "http://self.invalid:8081"}, other: &rtShard{addr: n.peerSink.srv.URL}, remote: map[string]bool{}}
		mk := func(rt types.RouterType) *route.Router {
			hr := &health.MockHealthReporter{}
			hr.SetAlive(true)
			hr.SetReady(true)
			r := &route.Router{
				Config:        n.cfg,
				Logger:        &logger.NullLogger{},
				Health:        hr,
				HTTPTransport: &http.Transport{},
				Sharder:       n.shard,
				Collector:     n.coll,
				Metrics:       &metrics.NullMetrics{},
				Tracer:        noop.Tracer{},
			}
			r.SetType(rt)
			r.SetVersion("verif")
			return r
		}
		n.inc = mk(types.RouterTypeIncoming)
		n.peer = mk(types.RouterTypePeer)
		n.inc.LnS()
		n.peer.LnS()
		if err := rtWaitUp(incAddr); err != nil {
			rtNodeErr = err
			return
		}
		if err := rtWaitUp(peerAddr); err != nil {
			rtNodeErr = err
			return
		}
		n.incURL, n.peerURL = "http://"+incAddr, "http://"+peerAddr
		n.client = &http.Client{Timeout: 20 * time.Second}
		rtTheNode = n
	})
	return rtTheNode, rtNodeErr
}

// begin installs fresh transmissions (a DirectTransmission is single-use after Stop) and clears
// every recorder. No request is in flight between cases, so swapping the exported fields is safe.
func (n *rtNode) begin() {
	mkT := func(tt types.TransmitType) *transmit.DirectTransmission {
		d := transmit.NewDirectTransmission(tt, &http.Transport{}, 10000, time.Hour, 10*time.Second, false, nil)
		d.Config = n.cfg
		d.Logger = &logger.NullLogger{}
		d.Metrics = &metrics.NullMetrics{}
		d.Version = "verif"
		d.Start()
		return d
	}
	n.up = mkT(types.TransmitTypeUpstream)
	n.pr = mkT(types.TransmitTypePeer)
	for _, r := range []*route.Router{n.inc, n.peer} {
		r.UpstreamTransmission = n.up
		r.PeerTransmission = n.pr
	}
	n.api.take()
	n.peerSink.take()
	n.coll.mu.Lock()
	n.coll.recs, n.coll.stressed, n.coll.decide, n.coll.full = nil, false, nil, map[string]bool{}
	n.coll.mu.Unlock()
	n.shard.mu.Lock()
	n.shard.remote = map[string]bool{}
	n.shard.mu.Unlock()
}

// flush stops both transmissions, which synchronously sends everything that was enqueued.
func (n *rtNode) flush() {
	n.up.Stop()
	n.pr.Stop()
	n.up.Transport.CloseIdleConnections()
	n.pr.Transport.CloseIdleConnections()
}

type rtResp struct {
	Status int
	Body   []byte
}

// post sends one request to the incoming (peer=false) or peer listener.
func (n *rtNode) post(peer bool, path string, contentType string, hdr map[string]string, body []byte) (rtResp, error) {
	base := n.incURL
	if peer {
		base = n.peerURL
	}
	req, err := http.NewRequest("POST", base+path, bytes.NewReader(body))
	if err != nil {
		return rtResp{}, err
	}
	if contentType != "" {
		req.Header.Set("Content-Type", contentType)
	}
	for k, v := range hdr {
		req.Header.Set(k, v)
	}
	resp, err := n.client.Do(req)
	if err != nil {
		return rtResp{}, err
	}
	defer resp.Body.Close()
	b, _ := io.ReadAll(resp.Body)
	return rtResp{Status: resp.StatusCode, Body: b}, nil
}
