package drive

// C36, whole documented shutdown sequence as far as the in-process components allow:
// the real InMemCollector (manual driver of collector_drv_coll.go) in front of a REAL upstream
// transmit.DirectTransmission and a real peer DirectTransmission, both on fake clocks against scripted
// fake Honeycomb APIs (the content-keyed fake server of harness/drive/c26.go, family txcfg).
// Ingestion history (spans, ticks, ejections, reloads) -> kept spans reach the real transmission, full
// batches leave during ingestion, the others are PENDING (BatchTimeout is 100 s and the transmission
// clocks are never advanced) -> shutdown in cmd/refinery's order: collector Stop, then the
// transmissions' Stop, whose flush meets scripted 200 / 429 / 503 (+Retry-After) / timeouts / errors.

import (
	"context"
	"encoding/json"
	"errors"
	"fmt"
	"math/rand"
	"net"
	"net/http"
	"net/http/httptest"
	"runtime"
	"sort"
	"strconv"
	"sync"
	"time"

	"github.com/jonboulle/clockwork"
	"github.com/klauspost/compress/zstd"

	"github.com/honeycombio/refinery/logger"
	"github.com/honeycombio/refinery/transmit"
	"github.com/honeycombio/refinery/types"
	cq "github.com/honeycombio/refinery/verifharness/coqfmt"
)

type c36PeerEv struct {
	ID   uint64 `json:"id"`
	H    int    `json:"h"`
	Size int    `json:"size"`
}

type c36sInput struct {
	Kind string              `json:"kind"` // "shutdown"
	Coll collInput           `json:"coll"`
	Max  int                 `json:"max"`            // MaxBatchSize of both transmissions
	Beh  map[string][]c26Beh `json:"beh,omitempty"`  // fake API behaviour per batch (first event id) and attempt
	Peer []c36PeerEv         `json:"peer,omitempty"` // events handed to the peer transmission before shutdown
	Stall bool               `json:"stall,omitempty"` // Stop while decided traces are still in the collector's outgoing queue
}

const c36BT = int64(100 * time.Second)

// one real DirectTransmission with its fake API
type c36Side struct {
	dt    *transmit.DirectTransmission
	clock *c26Clock
	srv   *c26Server
	hs    *httptest.Server
	tr    *http.Transport
	m     *c26Metrics
	zdec  *zstd.Decoder
	t0    int64
	mu    sync.Mutex
	ops   []string // Gallina ops (Enq ...), in enqueue order
	n     int
}

func c36NewSide(kind types.TransmitType, max int, beh map[string][]c26Beh) (*c36Side, error) {
	s := &c36Side{}
	s.clock = &c26Clock{FakeClock: clockwork.NewFakeClockAt(time.Unix(1_700_000_100, 250_000_000))}
	s.zdec, _ = zstd.NewReader(nil)
	in := &c26Input{Max: max, BT: c36BT, Beh: beh}
	s.srv = &c26Server{in: in, clock: s.clock, reqs: map[uint64]*c26Req{}, zdec: s.zdec}
	s.hs = httptest.NewServer(s.srv)
	addr := s.hs.Listener.Addr().String()
	s.tr = &http.Transport{
		Proxy: s.srv.proxy,
		DialContext: func(ctx context.Context, network, _ string) (net.Conn, error) {
			return (&net.Dialer{}).DialContext(ctx, network, addr)
		},
		MaxIdleConnsPerHost: 8,
	}
	s.m = &c26Metrics{counts: map[string]int64{}, hist: map[string]int64{}}
	s.dt = transmit.NewDirectTransmission(kind, s.tr, max, time.Duration(c36BT), 30*time.Second, false, nil)
	s.dt.Config = c26Cfg
	s.dt.Logger = &logger.NullLogger{}
	s.dt.Version = "verif"
	s.dt.Metrics = s.m
	s.dt.Clock = s.clock
	if err := s.dt.Start(); err != nil {
		return nil, err
	}
	ctx, cancel := context.WithTimeout(context.Background(), 10*time.Second)
	defer cancel()
	if err := s.clock.BlockUntilContext(ctx, 2); err != nil {
		return nil, errors.New("C36: transmission tickers were not created")
	}
	s.t0 = s.clock.Now().UnixNano()
	return s, nil
}

// record an event as the model's Enq op, measured with the real encoder, just before it is enqueued
func (s *c36Side) note(ev *types.Event, id uint64) error {
	size, err := transmit.VerifC26PackedSize(ev)
	if err != nil {
		return err
	}
	dest := c26Dest(c26Index(c26Hosts, ev.APIHost), c26Index(c26Keys, ev.APIKey), c26Index(c26Datasets, ev.Dataset))
	s.ops = append(s.ops, fmt.Sprintf("Enq {| eid := %s; edest := %s; esize := %s |}", cq.N(id), cq.N(dest), cq.Z(int64(size))))
	s.n++
	return nil
}

func (s *c36Side) close() {
	s.tr.CloseIdleConnections()
	s.hs.Close()
	s.zdec.Close()
}

// the side as a term of Monitor.C26.case (ops end with Stop)
func (s *c36Side) term(max int) (string, []string, bool, error) {
	s.srv.mu.Lock()
	defer s.srv.mu.Unlock()
	if len(s.srv.errs) > 0 {
		return "", nil, false, fmt.Errorf("C36 fake server: %v", s.srv.errs)
	}
	var reqs []*c26Req
	for _, rq := range s.srv.reqs {
		reqs = append(reqs, rq)
	}
	reqs = append(reqs, s.srv.extra...)
	sort.SliceStable(reqs, func(a, b int) bool { return reqs[a].first < reqs[b].first })
	var reqTerms, behTerms, human []string
	seen := map[uint64]bool{}
	retriedFlush := false
	for _, rq := range reqs {
		reqTerms = append(reqTerms, fmt.Sprintf("{| o_first := %s; o_dest := %s; o_ids := %s; o_size := %s; o_wire := %s; o_attempts := %s; o_time := %s |}",
			cq.N(rq.first), cq.N(rq.dest), cq.ListN(rq.ids), cq.Z(int64(rq.size)), cq.Z(int64(rq.wire)), cq.N(uint64(rq.attempts)), cq.Z(rq.time)))
		if !seen[rq.first] {
			seen[rq.first] = true
			behTerms = append(behTerms, cq.Pair(cq.N(rq.first), cq.List(rq.resps)))
		}
		human = append(human, fmt.Sprintf("request first=%d dest=%d ids=%v attempts=%d resps=%v", rq.first, rq.dest, rq.ids, rq.attempts, rq.resps))
		if rq.attempts > 1 && len(rq.ids) < max {
			retriedFlush = true
		}
	}
	s.clock.mu.Lock()
	sleeps := append([]int64{}, s.clock.sleeps...)
	s.clock.mu.Unlock()
	sort.Slice(sleeps, func(a, b int) bool { return sleeps[a] < sleeps[b] })
	cnt := []int64{s.m.count("_response_20x"), s.m.count("_response_errors"), s.m.count("_send_errors"), s.m.count("_send_retries"),
		s.m.count("_batches_sent"), s.m.count("_messages_sent")}
	ops := append(append([]string{}, s.ops...), "Stop")
	human = append(human, fmt.Sprintf("gauge=%d counters[20x,resp_err,send_err,retries,batches,msgs]=%v sleeps=%v", s.m.gauge(), cnt, sleeps))
	return fmt.Sprintf("{| c_max := %s; c_bt := %s; c_t0 := %s; c_ops := %s; c_beh := %s; c_bad := []; c_reqs := %s; c_sleeps := %s; c_syncs := []; c_sync_timeouts := 0%%N; c_gauge := %s; c_cnt := %s; c_burst := []; c_bad_bodies := 0%%N |}",
		cq.Z(int64(max)), cq.Z(c36BT), cq.Z(s.t0), cq.List(ops), cq.List(behTerms), cq.List(reqTerms),
		cq.ListZ(sleeps), cq.Z(s.m.gauge()), cq.ListZ(cnt)), human, retriedFlush, nil
}

// recorder in front of the real upstream transmission
type c36Up struct {
	side *c36Side
	err  error
}

func (u *c36Up) EnqueueEvent(ev *types.Event) { u.side.dt.EnqueueEvent(ev) }
func (u *c36Up) EnqueueSpan(sp *types.Span) {
	id := uint64(0)
	if v, ok := sp.Data.Get("id").(int64); ok {
		id = uint64(v)
	}
	// late spans (driver goroutine) and decided traces (sendTraces goroutine) can arrive concurrently:
	// record and enqueue atomically so that the model sees the order the transmission saw
	u.side.mu.Lock()
	defer u.side.mu.Unlock()
	if err := u.side.note(sp.Event, id); err != nil && u.err == nil {
		u.err = err
	}
	u.side.dt.EnqueueSpan(sp)
}

func c36sGen(r *rand.Rand, tier string) c36sInput {
	in := c36sInput{Kind: "shutdown", Beh: map[string][]c26Beh{}}
	in.Coll = collGen(r, tier, collBias{Tick: 24, Eject: 6, Reload: 4})
	in.Coll.ShrinkMax = 2
	in.Stall = r.Intn(2) == 0
	in.Max = []int{1, 2, 3, 3, 5, 8}[r.Intn(6)]
	// mostly kept traces so that batches are pending at shutdown
	if r.Intn(3) > 0 {
		in.Coll.Tables = [][]collRule{{}}
		in.Coll.Cfg.Ver = 0
		for i := range in.Coll.Ops {
			if in.Coll.Ops[i].Cfg != nil {
				in.Coll.Ops[i].Cfg.Ver = 0
			}
		}
	}
	// shutdown at a random point: cut the history
	n := len(in.Coll.Ops)
	if n > 0 {
		in.Coll.Ops = in.Coll.Ops[:1+r.Intn(n)]
	}
	// a few late ticks before shutdown in half of the cases, so that decided traces sit in pending batches
	if r.Intn(2) == 0 {
		for w := 0; w < in.Coll.Workers; w++ {
			in.Coll.Ops = append(in.Coll.Ops, collOp{Op: "tick", W: w, D: 1 << 40})
		}
	}
	flushBeh := func() []c26Beh {
		switch x := r.Intn(100); {
		case x < 35:
			return nil // 200 / 202
		case x < 65: // retryable with a small Retry-After, then fine (or a second failure)
			code := []int{429, 503}[r.Intn(2)]
			ra := []string{"secs:1", "secs:2", "secs:59", "frac:500", "frac:1", "none", "date:3"}[r.Intn(7)]
			b := []c26Beh{{Kind: "http", Code: code, RA: ra}}
			if r.Intn(4) == 0 {
				b = append(b, c26Beh{Kind: "http", Code: []int{429, 500, 503}[r.Intn(3)], RA: "secs:1"})
			}
			return b
		case x < 75:
			return []c26Beh{{Kind: "timeout"}}
		case x < 80:
			return []c26Beh{{Kind: "timeout"}, {Kind: "timeout"}}
		case x < 86:
			return []c26Beh{{Kind: "neterr"}}
		case x < 92: // not retryable: Retry-After out of range or plain error
			return []c26Beh{{Kind: "http", Code: []int{429, 503, 500, 400}[r.Intn(4)], RA: []string{"secs:60", "secs:0", "secs:3600", "text:soon"}[r.Intn(4)]}}
		default:
			return []c26Beh{{Kind: "http", Code: 200, Statuses: []int{202, 400, 202, 500, 202, 202, 202, 202}}}
		}
	}
	for _, op := range in.Coll.Ops {
		if op.Span != nil {
			if b := flushBeh(); b != nil {
				in.Beh[strconv.Itoa(op.Span.Sid)] = b
			}
		}
	}
	for k, np := 0, r.Intn(7); k < np; k++ {
		id := uint64(100000 + k)
		in.Peer = append(in.Peer, c36PeerEv{ID: id, H: r.Intn(2), Size: 80 + r.Intn(200)})
		if b := flushBeh(); b != nil {
			in.Beh[strconv.FormatUint(id, 10)] = b
		}
	}
	return in
}

func c36sRun(in c36sInput) (Case, error) {
	goBefore := runtime.NumGoroutine()
	if in.Max < 1 {
		in.Max = 1
	}
	up, err := c36NewSide(types.TransmitTypeUpstream, in.Max, in.Beh)
	if err != nil {
		return Case{}, err
	}
	peer, err := c36NewSide(types.TransmitTypePeer, in.Max, in.Beh)
	if err != nil {
		return Case{}, err
	}
	upTx := &c36Up{side: up}
	// peer traffic waiting in the peer transmission
	for _, pe := range in.Peer {
		ev, _, err := c26MakeEvent(c26Op{Op: "enq", ID: pe.ID, H: pe.H % 2, K: 0, D: 0, Size: pe.Size})
		if err != nil {
			return Case{}, err
		}
		if err := peer.note(ev, pe.ID); err != nil {
			return Case{}, err
		}
		peer.dt.EnqueueEvent(ev)
	}
	// no explicit stop op inside: shutdown is the end of the history
	cin := in.Coll
	var ops []collOp
	for _, o := range cin.Ops {
		if o.Op != "stop" {
			ops = append(ops, o)
		}
	}
	cin.Ops = append(ops, collOp{Op: "stop", Stall: in.Stall})
	cin.Flush = false
	var stopErr error
	res, err := collRunOpts(cin, collOpts{
		GoBefore: goBefore, Next: upTx, Peer: peer.dt,
		MkEvent: func(s *collSpan, data map[string]any) *types.Event {
			data["id"] = int64(s.Sid)
			return &types.Event{Context: context.Background(), APIHost: c26Hosts[s.Tid%2], APIKey: c26Keys[s.Tid%2],
				Dataset: c26Datasets[(s.Sid+s.Tid)%len(c26Datasets)], Environment: "env", SampleRate: 1, Timestamp: time.Unix(1_700_000_000, 0)}
		},
		// cmd/refinery: the collector stops first (it depends on the transmissions), then the transmissions
		Finish: func() {
			done := make(chan error, 1)
			go func() {
				defer func() {
					if r := recover(); r != nil {
						done <- fmt.Errorf("transmission Stop panicked: %v", r)
					}
				}()
				if err := up.dt.Stop(); err != nil {
					done <- err
					return
				}
				done <- peer.dt.Stop()
			}()
			select {
			case stopErr = <-done:
			case <-time.After(15 * time.Second):
				stopErr = errors.New("transmission Stop did not return within 15s")
			}
			up.close()
			peer.close()
		},
	})
	if err != nil {
		return Case{}, err
	}
	if upTx.err != nil {
		return Case{}, upTx.err
	}
	if stopErr != nil {
		res.StopErr = stopErr.Error()
	}
	upTerm, h1, rf1, err := up.term(in.Max)
	if err != nil {
		return Case{}, err
	}
	peerTerm, h2, rf2, err := peer.term(in.Max)
	if err != nil {
		return Case{}, err
	}
	tags := collTags(res)
	tags = append(tags, "scenario:shutdown-sequence", fmt.Sprintf("max:%d", in.Max))
	pendingAtStop := up.n > 0 || peer.n > 0
	if rf1 || rf2 {
		tags = append(tags, "flush-batch-retried")
	}
	if up.n > 0 {
		tags = append(tags, "upstream-events")
	}
	if peer.n > 0 {
		tags = append(tags, "peer-events")
	}
	sum := map[string]any{"collector": collSummary(res), "upstream": h1, "peer": h2, "max": in.Max}
	coq := fmt.Sprintf("(CShut {| s_coll := %s; s_up := %s; s_peer := %s |})", collCoq(res), upTerm, peerTerm)
	raw, _ := json.Marshal(in)
	return Case{Coq: coq, Key: string(raw), Nontriv: pendingAtStop, Tags: tags, Summary: sum}, nil
}

func c36sShrink(in c36sInput) []json.RawMessage {
	var out []json.RawMessage
	for _, cand := range collShrink(mustJSON(in.Coll)) {
		c := in
		if json.Unmarshal(cand, &c.Coll) == nil {
			out = append(out, mustJSON(c))
		}
	}
	for i := range in.Peer {
		c := in
		c.Peer = append(append([]c36PeerEv{}, in.Peer[:i]...), in.Peer[i+1:]...)
		out = append(out, mustJSON(c))
	}
	var keys []string
	for k := range in.Beh {
		keys = append(keys, k)
	}
	sort.Strings(keys)
	for _, k := range keys {
		c := in
		c.Beh = map[string][]c26Beh{}
		for k2, v := range in.Beh {
			if k2 != k {
				c.Beh[k2] = v
			}
		}
		out = append(out, mustJSON(c))
	}
	return out
}

func mustJSON(v any) json.RawMessage {
	b, _ := json.Marshal(v)
	return b
}
