package drive

// Helpers shared by the drivers of the "rules" family (C08, C09): a JSON-serialisable value
// type, its Go realisation, and its Gallina printing (Model/Values.v).

import (
	"fmt"
	"math"
	"math/big"
	"sort"
	"strconv"

	cq "github.com/honeycombio/refinery/verifharness/coqfmt"
)

// rvVal is one value in a replayable input.
//
//	K = "int"  : I (int64 in span data; Go int in a condition value)
//	    "i64"  : I (int64 in a condition value)
//	    "f"    : F (float64, finite, not -0)
//	    "u"    : I >= 0 as uint64, "f32" : F as float32   (span data only: what a msgpack decoder yields;
//	             Payload.Get hands them to the samplers as int64 / float64)
//	    "s"    : S
//	    "b"    : B
//	    "nil"
//	    "map"  : map[string]any{"k": I}      (FieldTypeOther; only its %v text matters)
//	    "arr"  : []any{I, S}                 (span value of kind "other")
//	    "list" : L (condition value: list of scalars)
type rvVal struct {
	K string  `json:"k"`
	I int64   `json:"i,omitempty"`
	F float64 `json:"f,omitempty"`
	S string  `json:"s,omitempty"`
	B bool    `json:"b,omitempty"`
	L []rvVal `json:"l,omitempty"`
}

// goSpan: the Go value as it sits in span data.
func (v rvVal) goSpan() any {
	switch v.K {
	case "int", "i64":
		return v.I
	case "f":
		return v.F
	case "u": // an integer that arrived in an unsigned msgpack encoding
		return uint64(v.I)
	case "f32": // a float that arrived in 32 bits
		return float32(v.F)
	case "s":
		return v.S
	case "b":
		return v.B
	case "nil":
		return nil
	case "map":
		return map[string]any{"k": v.I}
	case "arr":
		return []any{v.I, v.S}
	}
	return nil
}

// goCond: the Go value as a YAML-loaded condition Value.
func (v rvVal) goCond() any {
	switch v.K {
	case "int":
		return int(v.I)
	case "i64":
		return v.I
	case "list":
		out := make([]any, len(v.L))
		for i, x := range v.L {
			out[i] = x.goCond()
		}
		return out
	}
	return v.goSpan()
}

// dyadic: canonical (m, e) with f = m * 2^e, m odd or (0,0).
func dyadic(f float64) (*big.Int, int) {
	if f == 0 {
		return big.NewInt(0), 0
	}
	frac, exp := math.Frexp(f) // f = frac * 2^exp, |frac| in [0.5,1)
	m := int64(frac * (1 << 53))
	e := exp - 53
	for m%2 == 0 {
		m /= 2
		e++
	}
	return big.NewInt(m), e
}

func cqBig(z *big.Int) string {
	if z.Sign() < 0 {
		return "(" + z.String() + ")%Z"
	}
	return z.String() + "%Z"
}

func cqDy(f float64) string {
	m, e := dyadic(f)
	return fmt.Sprintf("(Dy %s %s)", cqBig(m), cq.Z(int64(e)))
}

// oracleTabs collects the floats and strings of a case so that the real fmt / strconv results
// can be handed to the model as tables.
type oracleTabs struct {
	floats  map[float64]bool
	strings map[string]bool
}

func newOracleTabs() *oracleTabs {
	return &oracleTabs{floats: map[float64]bool{}, strings: map[string]bool{}}
}

func (o *oracleTabs) note(v rvVal) {
	switch v.K {
	case "f":
		o.floats[v.F] = true
	case "f32":
		o.floats[float64(float32(v.F))] = true
	case "s":
		o.strings[v.S] = true
	case "arr":
		o.strings[v.S] = true
	case "list":
		for _, x := range v.L {
			o.note(x)
		}
	}
}

func finite(f float64) bool { return !math.IsNaN(f) && !math.IsInf(f, 0) }

// fmtTable: [(Dy m e, "%v text")], parseTable: [(s, Some dy | None)] — from the REAL functions.
func (o *oracleTabs) fmtTable() string {
	fs := make([]float64, 0, len(o.floats))
	for f := range o.floats {
		fs = append(fs, f)
	}
	sort.Float64s(fs)
	rows := make([]string, len(fs))
	for i, f := range fs {
		rows[i] = cq.Pair(cqDy(f), cq.Str(fmt.Sprintf("%v", f)))
	}
	return cq.List(rows)
}

func (o *oracleTabs) parseTable() string {
	ss := make([]string, 0, len(o.strings))
	for s := range o.strings {
		ss = append(ss, s)
	}
	sort.Strings(ss)
	rows := make([]string, len(ss))
	for i, s := range ss {
		f, err := strconv.ParseFloat(s, 64)
		if err == nil && finite(f) {
			rows[i] = cq.Pair(cq.Str(s), cq.Some(cqDy(f)))
		} else {
			rows[i] = cq.Pair(cq.Str(s), cq.None())
		}
	}
	return cq.List(rows)
}

// cqSval prints the value a sampler reads from span data (Model/Values.v sval).
func cqSval(x any) string {
	switch t := x.(type) {
	case int64:
		return cq.App("SInt", cq.Z(t))
	case int:
		return cq.App("SInt", cq.Z(int64(t)))
	case float64:
		return cq.App("SF64", cqDy(t))
	case uint64: // Payload.Get normalises (values above MaxInt64 are not generated here)
		return cq.App("SInt", cq.Z(int64(t)))
	case float32:
		return cq.App("SF64", cqDy(float64(t)))
	case string:
		return cq.App("SStr", cq.Str(t))
	case bool:
		return cq.App("SBool", cq.Bool(t))
	case nil:
		return "SNil"
	default:
		return cq.App("SOther", cq.Str(fmt.Sprintf("%v", t)))
	}
}

func cqCscalar(v rvVal) string {
	switch v.K {
	case "int":
		return cq.App("CInt", cq.Z(v.I))
	case "i64":
		return cq.App("CInt64", cq.Z(v.I))
	case "f":
		return cq.App("CF64", cqDy(v.F))
	case "s":
		return cq.App("CStr", cq.Str(v.S))
	case "b":
		return cq.App("CBool", cq.Bool(v.B))
	case "nil":
		return "CNil"
	default:
		return cq.App("COther", cq.Str(fmt.Sprintf("%v", v.goCond())))
	}
}

func cqCval(v rvVal) string {
	if v.K == "list" {
		xs := make([]string, len(v.L))
		for i, x := range v.L {
			xs[i] = cqCscalar(x)
		}
		return cq.App("CList", cq.List(xs))
	}
	return cq.App("CScalar", cqCscalar(v))
}

func cqOutcome(rate uint64, keep bool, reason, key string) string {
	return fmt.Sprintf("{| o_rate := %s; o_keep := %s; o_reason := %s; o_key := %s |}",
		cqBig(new(big.Int).SetUint64(rate)), cq.Bool(keep), cq.Str(reason), cq.Str(key))
}
