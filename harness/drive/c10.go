package drive

import (
	"crypto/sha1"
	"encoding/binary"
	"encoding/json"
	"fmt"
	"math"
	"math/rand"
	"strings"

	"github.com/dgryski/go-wyhash"
	"github.com/honeycombio/refinery/collect"
	"github.com/honeycombio/refinery/config"
	"github.com/honeycombio/refinery/logger"
	"github.com/honeycombio/refinery/metrics"
	"github.com/honeycombio/refinery/sample"
	"github.com/honeycombio/refinery/types"
	cq "github.com/honeycombio/refinery/verifharness/coqfmt"
)

// C10: sample.DeterministicSampler and collect.StressRelief.GetSampleRate.
//
// The harness computes the hash of each trace ID itself (sha1(id+salt)[:4] big endian / wyhash(id, seed))
// with its own copy of the salt / seed; Monitor.C10 checks that copy against the constants the
// translator extracted from the source, and evaluates the model on (rate, hash).

const c10Salt = "5VQ8l2jE5aJLPVqk"
const c10Seed = 34527861234

type c10Stat struct {
	Rate   uint64 `json:"rate"`
	N      int    `json:"n"`
	Prefix string `json:"prefix"`
}
type c10Input struct {
	Kind        string   `json:"kind"` // det | stress
	IDs         []string `json:"ids"`
	DetRates    []int64  `json:"det_rates,omitempty"`
	StressRates []uint64 `json:"stress_rates,omitempty"`
	Stat        *c10Stat `json:"stat,omitempty"`
}

func init() {
	Register(&Driver{ID: "C10", Gen: c10Gen, Run: c10Run, Shrink: c10Shrink})
}

func c10DetHash(id string) uint32 {
	sum := sha1.Sum([]byte(id + c10Salt))
	return binary.BigEndian.Uint32(sum[:4])
}
func c10StressHash(id string) uint64 { return wyhash.Hash([]byte(id), c10Seed) }

func c10RandID(r *rand.Rand) string {
	switch r.Intn(12) {
	case 0:
		return ""
	case 1:
		return strings.Repeat("f", 1+r.Intn(64))
	case 2: // non-ASCII / odd bytes
		b := make([]byte, 1+r.Intn(20))
		r.Read(b)
		return string(b)
	case 3: // 16-hex (b3 / 64-bit ids)
		return fmt.Sprintf("%016x", r.Uint64())
	case 4:
		return fmt.Sprintf("trace-%d", r.Intn(1000))
	default:
		return fmt.Sprintf("%016x%016x", r.Uint64(), r.Uint64())
	}
}

// an ID whose 32-bit hash is below 2^16: for such a hash h every value is the exact quotient
// floor((2^32-1)/rate) of some rate, so the "hash == bound" instant can be hit.
func c10SmallHashID(r *rand.Rand) string {
	base := r.Int63()
	for i := int64(0); ; i++ {
		id := fmt.Sprintf("%016x", uint64(base+i))
		if c10DetHash(id) < 1<<16 {
			return id
		}
	}
}

var c10DetPool = []int64{1, 1, 2, 2, 3, 10, 100, 1000, 65535, 65536, 65537, 1 << 20, 1<<31 - 1, 1 << 31,
	1<<31 + 1, 1<<32 - 1, 1 << 32, 1<<32 + 1, 3 << 32, 1<<33 + 7, 0, -1, -5, -(1 << 32), math.MaxInt64}
var c10StressPool = []uint64{0, 1, 1, 2, 2, 3, 10, 100, 1000, 1 << 16, 1<<31 - 1, 1 << 31, 1<<32 - 1, 1 << 32,
	1<<32 + 1, 1 << 40, 1<<63 - 1, 1 << 63, 1<<63 + 1, math.MaxUint64 - 1, math.MaxUint64}

func c10Gen(r *rand.Rand, tier string, i int) any {
	in := c10Input{Kind: []string{"det", "stress"}[r.Intn(2)]}
	nid := 1 + r.Intn(4)
	small := in.Kind == "det" && r.Intn(10) < 4
	for j := 0; j < nid; j++ {
		if small && j == 0 {
			in.IDs = append(in.IDs, c10SmallHashID(r))
		} else {
			in.IDs = append(in.IDs, c10RandID(r))
		}
	}
	nr := 2 + r.Intn(5)
	if in.Kind == "det" {
		for j := 0; j < nr; j++ {
			if r.Intn(4) == 0 {
				in.DetRates = append(in.DetRates, 1+r.Int63n(1<<uint(1+r.Intn(32))))
			} else {
				in.DetRates = append(in.DetRates, c10DetPool[r.Intn(len(c10DetPool))])
			}
		}
		// rates around the largest rate that still keeps one of the IDs: floor(MAX/h) and neighbours
		h := int64(c10DetHash(in.IDs[r.Intn(len(in.IDs))]))
		if h > 0 {
			rs := int64(math.MaxUint32) / h
			for _, d := range []int64{-1, 0, 1} {
				if rs+d >= 1 && r.Intn(4) > 0 {
					in.DetRates = append(in.DetRates, rs+d)
				}
			}
		}
	} else {
		for j := 0; j < nr; j++ {
			if r.Intn(4) == 0 {
				in.StressRates = append(in.StressRates, 1+r.Uint64()>>uint(r.Intn(64)))
			} else {
				in.StressRates = append(in.StressRates, c10StressPool[r.Intn(len(c10StressPool))])
			}
		}
		h := c10StressHash(in.IDs[r.Intn(len(in.IDs))])
		if h > 0 {
			rs := uint64(math.MaxUint64) / h
			for _, d := range []int64{-1, 0, 1} {
				v := rs + uint64(d)
				if v >= 1 && r.Intn(4) > 0 {
					in.StressRates = append(in.StressRates, v)
				}
			}
		}
	}
	// statistical batch: in every 8th case (all of them larger in the thorough tier)
	if i%8 == 0 || (tier == "thorough" && i%3 == 0) {
		rates := []uint64{1, 2, 3, 7, 10, 50, 100}
		n := 4000 + r.Intn(4000)
		if tier == "thorough" {
			n *= 8
			rates = append(rates, 500, 1000)
		}
		in.Stat = &c10Stat{Rate: rates[r.Intn(len(rates))], N: n, Prefix: fmt.Sprintf("%08x-", r.Uint32())}
	}
	return in
}

type c10Obs struct {
	crash bool
	rates []uint64
	keeps []bool
}

// runs the real deterministic sampler: two instances, two traces with the same ID but different
// content, and a repeated call.
func c10RunDet(rate int64, id string) (o c10Obs) {
	defer func() {
		if e := recover(); e != nil {
			o = c10Obs{crash: true}
		}
	}()
	mk := func() (*sample.DeterministicSampler, error) {
		d := &sample.DeterministicSampler{
			Config:  &config.DeterministicSamplerConfig{SampleRate: int(rate)},
			Logger:  &logger.NullLogger{},
			Metrics: &metrics.NullMetrics{},
		}
		return d, d.Start()
	}
	d1, err := mk()
	if err != nil {
		return c10Obs{crash: true}
	}
	d2, err := mk()
	if err != nil {
		return c10Obs{crash: true}
	}
	cfg := &config.MockConfig{}
	trA := &types.Trace{TraceID: id}
	trB := &types.Trace{TraceID: id, Dataset: "other-dataset", APIKey: "k", Environment: "prod"}
	root := &types.Span{TraceID: id, IsRoot: true, Event: &types.Event{Dataset: "other-dataset", SampleRate: 7,
		Data: types.NewPayload(cfg, map[string]any{"http.status_code": 500, "trace.trace_id": "zzz", "a": "b"})}}
	trB.AddSpan(root)
	trB.RootSpan = root
	trB.AddSpan(&types.Span{TraceID: id, Event: &types.Event{Data: types.NewPayload(cfg, map[string]any{"x": 1.5})}})
	for _, c := range []struct {
		d *sample.DeterministicSampler
		t *types.Trace
	}{{d1, trA}, {d1, trB}, {d2, trA}, {d2, trB}, {d1, trA}} {
		rt, keep, _, _ := c.d.GetSampleRate(c.t)
		o.rates = append(o.rates, uint64(rt))
		o.keeps = append(o.keeps, keep)
	}
	return o
}

func c10NewStress(rate uint64) *collect.StressRelief {
	s := &collect.StressRelief{
		Config: &config.MockConfig{StressRelief: config.StressReliefConfig{Mode: "always", ActivationLevel: 90,
			DeactivationLevel: 75, SamplingRate: rate}},
		Logger: &logger.NullLogger{},
	}
	s.UpdateFromConfig()
	return s
}

func c10RunStress(rate uint64, id string) (o c10Obs) {
	defer func() {
		if e := recover(); e != nil {
			o = c10Obs{crash: true}
		}
	}()
	s1 := c10NewStress(rate)
	s2 := c10NewStress(rate)
	// a reload to another rate and back must not leave anything behind
	s2.Config.(*config.MockConfig).StressRelief.SamplingRate = rate/2 + 3
	s2.UpdateFromConfig()
	s2.Config.(*config.MockConfig).StressRelief.SamplingRate = rate
	s2.UpdateFromConfig()
	for _, s := range []*collect.StressRelief{s1, s2, s1} {
		rt, keep, _ := s.GetSampleRate(id)
		o.rates = append(o.rates, uint64(rt))
		o.keeps = append(o.keeps, keep)
	}
	return o
}

func c10Zu(v uint64) string { return fmt.Sprintf("%d%%Z", v) }

func c10Run(raw json.RawMessage) (Case, error) {
	var in c10Input
	if err := json.Unmarshal(raw, &in); err != nil {
		return Case{}, err
	}
	det := in.Kind == "det"
	var rates []string
	n := len(in.DetRates)
	if !det {
		n = len(in.StressRates)
	}
	for j := 0; j < n; j++ {
		if det {
			rates = append(rates, cq.Z(in.DetRates[j]))
		} else {
			rates = append(rates, c10Zu(in.StressRates[j]))
		}
	}
	var rows []string
	var human []string
	tags := []string{"kind:" + in.Kind}
	straddle := false
	for _, id := range in.IDs {
		var h uint64
		if det {
			h = uint64(c10DetHash(id))
		} else {
			h = c10StressHash(id)
		}
		var obs []string
		kept, dropped := false, false
		for j := 0; j < n; j++ {
			var o c10Obs
			inRange := false
			if det {
				o = c10RunDet(in.DetRates[j], id)
				inRange = in.DetRates[j] > 1 && in.DetRates[j] <= 1<<31
				if h != 0 && uint64(in.DetRates[j]) == math.MaxUint32/h && math.MaxUint32/uint64(in.DetRates[j]) == h {
					tags = append(tags, "hash-equals-bound")
				}
			} else {
				o = c10RunStress(in.StressRates[j], id)
				inRange = in.StressRates[j] > 1
			}
			var rs, ks []string
			for k := range o.keeps {
				rs = append(rs, c10Zu(o.rates[k]))
				ks = append(ks, cq.Bool(o.keeps[k]))
			}
			if inRange && !o.crash && len(o.keeps) > 0 {
				if o.keeps[0] {
					kept = true
				} else {
					dropped = true
				}
			}
			if o.crash {
				tags = append(tags, "crash")
			}
			obs = append(obs, fmt.Sprintf("{| o_crash := %s; o_rates := %s; o_keeps := %s |}", cq.Bool(o.crash), cq.List(rs), cq.List(ks)))
			human = append(human, fmt.Sprintf("id=%q h=%d rate=%s crash=%v keeps=%v rates=%v", id, h, strings.TrimSuffix(rates[j], "%Z"), o.crash, o.keeps, o.rates))
		}
		if kept && dropped {
			straddle = true
		}
		rows = append(rows, fmt.Sprintf("{| r_h := %s; r_obs := %s |}", c10Zu(h), cq.List(obs)))
	}
	stat := "None"
	if in.Stat != nil {
		keptN := 0
		if det {
			d := &sample.DeterministicSampler{Config: &config.DeterministicSamplerConfig{SampleRate: int(in.Stat.Rate)},
				Logger: &logger.NullLogger{}, Metrics: &metrics.NullMetrics{}}
			if err := d.Start(); err != nil {
				return Case{}, err
			}
			for k := 0; k < in.Stat.N; k++ {
				if _, keep, _, _ := d.GetSampleRate(&types.Trace{TraceID: fmt.Sprintf("%s%d", in.Stat.Prefix, k)}); keep {
					keptN++
				}
			}
		} else {
			s := c10NewStress(in.Stat.Rate)
			for k := 0; k < in.Stat.N; k++ {
				if _, keep, _ := s.GetSampleRate(fmt.Sprintf("%s%d", in.Stat.Prefix, k)); keep {
					keptN++
				}
			}
		}
		stat = cq.Some(fmt.Sprintf("(%s, %s, %s)", c10Zu(in.Stat.Rate), cq.Z(int64(in.Stat.N)), cq.Z(int64(keptN))))
		tags = append(tags, "stat-batch")
		human = append(human, fmt.Sprintf("stat rate=%d n=%d kept=%d", in.Stat.Rate, in.Stat.N, keptN))
	}
	if straddle {
		tags = append(tags, "straddles-threshold")
	}
	coq := fmt.Sprintf("{| c_kind := %s; c_salt := %s; c_seed := %s; c_rates := %s; c_rows := %s; c_stat := %s |}",
		map[bool]string{true: "KDet", false: "KStress"}[det], cq.Str(c10Salt), cq.N(c10Seed), cq.List(rates), cq.List(rows), stat)
	return Case{Coq: coq, Key: in.Kind + "|" + strings.Join(in.IDs, ",") + "|" + strings.Join(rates, ","),
		Nontriv: straddle, Tags: sampDedupTags(tags), Summary: map[string]any{"kind": in.Kind, "observations": human}}, nil
}

func c10Shrink(raw json.RawMessage) []json.RawMessage {
	var in c10Input
	if json.Unmarshal(raw, &in) != nil {
		return nil
	}
	var out []json.RawMessage
	emit := func(c c10Input) {
		b, _ := json.Marshal(c)
		out = append(out, b)
	}
	if in.Stat != nil && (len(in.IDs) > 0) {
		c := in
		c.Stat = nil
		emit(c)
		c = in
		c.IDs = nil
		emit(c)
	}
	if len(in.IDs) > 1 {
		for i := range in.IDs {
			c := in
			c.IDs = append(append([]string{}, in.IDs[:i]...), in.IDs[i+1:]...)
			emit(c)
		}
	}
	for i := range in.DetRates {
		c := in
		c.DetRates = append(append([]int64{}, in.DetRates[:i]...), in.DetRates[i+1:]...)
		emit(c)
	}
	for i := range in.StressRates {
		c := in
		c.StressRates = append(append([]uint64{}, in.StressRates[:i]...), in.StressRates[i+1:]...)
		emit(c)
	}
	return out
}
