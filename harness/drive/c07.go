package drive

import (
	"encoding/json"
	"math/rand"
)

func init() {
	Register(&Driver{ID: "C07", Gen: c07Gen, Run: c07Run, Shrink: collShrink})
}

// C07: ejections with byte targets around the buffered sizes, spans with real-clock ages (impact
// multipliers 1..6), impact ties with different sizes; every 5th case drives the real checkAlloc with
// MaxAlloc set just below / far below / above the measured heap and spans of 1 KB .. 1 MB.
func c07Gen(r *rand.Rand, tier string, i int) any {
	in := c07GenInner(r, tier, i)
	in.ShrinkMax = 1 // keep a failing quick run short: one round of big cuts
	return in
}

func c07GenInner(r *rand.Rand, tier string, i int) collInput {
	if i%5 == 1 || i%5 == 3 {
		return collGenEjectGrow(r, tier)
	}
	if i%5 == 4 {
		in := collGen(r, tier, collBias{Tick: 8, Eject: 5, Reload: 3, Alloc: 22, BigPads: true})
		if len(in.Ops) > 14 {
			in.Ops = in.Ops[:14]
		}
		return in
	}
	return collGen(r, tier, collBias{Tick: 10, Eject: 28, Reload: 6, Ages: i%2 == 0, Flush: 10})
}

func c07Run(raw json.RawMessage) (Case, error) {
	var in collInput
	if err := json.Unmarshal(raw, &in); err != nil {
		return Case{}, err
	}
	res, err := collRun(in)
	if err != nil {
		return Case{}, err
	}
	if len(res.Obs) == 0 {
		return Case{Coq: collEmptyCase, Key: "empty"}, nil
	}
	tags := collTags(res)
	nontriv := false
	var prev [][]collBufEntry
	for _, o := range res.Obs {
		switch o.Kind {
		case "eject":
			if prev != nil && len(o.Left) > 0 {
				if len(o.Bufs[o.W]) > 0 {
					tags = appendOnce(tags, "eject-partial")
					nontriv = true
				} else {
					tags = appendOnce(tags, "eject-everything")
				}
			}
		case "alloc":
			n := 0
			for _, l := range o.LeftW {
				n += len(l)
			}
			if o.Alloc >= o.Max {
				tags = appendOnce(tags, "alloc-over-limit")
				if n > 0 {
					nontriv = true
					rest := 0
					for _, b := range o.Bufs {
						rest += len(b)
					}
					if rest > 0 {
						tags = appendOnce(tags, "alloc-eject-partial")
					}
				}
			} else {
				tags = appendOnce(tags, "alloc-under-limit")
			}
		}
		prev = o.Bufs
	}
	// second ejection pass on a buffer whose survivors grew since the previous pass
	grown, passes := map[int]bool{}, 0
	for _, o := range res.Obs {
		switch o.Kind {
		case "eject", "alloc":
			if passes > 0 && len(grown) > 0 && (len(o.Left) > 0) {
				tags = appendOnce(tags, "eject-after-survivors-grew")
			}
			passes++
			grown = map[int]bool{}
		case "span":
			if passes > 0 && len(o.Fwd) == 0 {
				for _, e := range o.Bufs[o.W] {
					if len(e.Sids) > 1 {
						grown[e.Tid] = true
					}
				}
			}
		}
	}
	for _, op := range in.Ops {
		if op.Span != nil && op.Span.Age > 0 {
			tags = appendOnce(tags, "aged-spans")
		}
	}
	return Case{Coq: collCoq(res), Key: string(raw), Nontriv: nontriv, Tags: tags, Summary: collSummary(res)}, nil
}
