package drive

import (
	"encoding/json"
	"fmt"
	"math/rand"
)

// C04 / C05 / C06 share the collector driver of colldrv_coll2.go; they differ in the generator's bias.

func init() {
	Register(&Driver{ID: "C04", Gen: func(r *rand.Rand, tier string, i int) any { return c2Gen(r, tier, "c04") }, Run: c04Run, Shrink: c2Shrink})
}

var c2ClientRates = []uint64{0, 0, 1, 2, 7, 1000, 1<<31 - 1}
var c2StressRates = []uint64{0, 1, 2, 100, 1<<32 - 1, 1 << 32, 1<<32 + 5}
var c2Classes = []string{"keep1", "drop", "bare", "bare", "det2", "det10", "det100", "det65536", "other"}

func c2RandCfg(r *rand.Rand, mode string) c2Cfg {
	c := c2Cfg{Reason: r.Intn(2) == 0, SpanCount: r.Intn(2) == 0, Counts: r.Intn(2) == 0, HostMeta: r.Intn(2) == 0}
	switch mode {
	case "c04":
		c.Dry = r.Intn(10) == 0
	case "c05":
		c.Dry = r.Intn(10) < 7 // DryRun is reloadable: it is switched on and off by live reloads
	default:
		c.Dry = r.Intn(6) == 0
	}
	for k := 0; k < 3; k++ {
		if r.Intn(3) == 0 {
			c.Attrs = append(c.Attrs, [2]int{k, r.Intn(3)})
		}
	}
	return c
}

func c2Gen(r *rand.Rand, tier string, mode string) any {
	in := c2Input{Workers: 1 + r.Intn(3), Cfg: c2RandCfg(r, mode)}
	in.StressRate = c2StressRates[r.Intn(len(c2StressRates))]
	if mode != "c04" && r.Intn(2) == 0 {
		in.StressRate = []uint64{1, 2, 100}[r.Intn(3)]
	}
	nt := 2 + r.Intn(4)
	preNext := 1
	for i := 0; i < nt; i++ {
		t := c2Trace{Class: c2Classes[r.Intn(len(c2Classes))]}
		if _, det := c2DetRates[t.Class]; det {
			t.Want = []string{"keep", "keep", "drop"}[r.Intn(3)]
		}
		switch {
		case in.StressRate >= 1<<31:
			if preNext <= 3 && r.Intn(2) == 0 {
				t.Pre = preNext
				preNext++
				t.Want = ""
			}
		case in.StressRate > 1 && in.StressRate <= 100:
			t.Stress = []string{"keep", "keep", "drop"}[r.Intn(3)]
			if t.Class == "det65536" && t.Want == "keep" {
				t.Stress = "" // both constraints together would need ~10^7 candidate ids
			}
		}
		in.Traces = append(in.Traces, t)
	}
	sid := 1
	span := func(tid int) *c2Span {
		s := &c2Span{ID: sid, Tid: tid, Rate: c2ClientRates[r.Intn(len(c2ClientRates))], Ann: []int{0, 0, 0, 1, 2}[r.Intn(5)]}
		s.Root = r.Intn(5) == 0
		sid++
		return s
	}
	nops := 8 + r.Intn(22)
	if tier == "thorough" {
		nops = 8 + r.Intn(50)
	}
	stressBias := 12
	if mode == "c04" {
		stressBias = 22
	}
	reloadBias := 5
	if mode == "c05" {
		reloadBias = 12
		in.Cfg.Dry = r.Intn(2) == 0 // half of the histories start with DryRun off
	}
	if mode == "c06" {
		reloadBias = 16
	}
	for j := 0; j < nops; j++ {
		x := r.Intn(100)
		switch {
		case x < stressBias:
			in.Ops = append(in.Ops, c2Op{Op: "stress", S: span(r.Intn(nt))})
		case x < stressBias+reloadBias:
			c := c2RandCfg(r, mode)
			in.Ops = append(in.Ops, c2Op{Op: "reload", C: &c})
		case x < stressBias+reloadBias+12:
			in.Ops = append(in.Ops, c2Op{Op: []string{"decide", "decide", "eject"}[r.Intn(3)]})
		default:
			in.Ops = append(in.Ops, c2Op{Op: "span", S: span(r.Intn(nt))})
		}
	}
	// make sure decisions happen and late spans (including a late root) follow
	in.Ops = append(in.Ops, c2Op{Op: "decide"})
	for i := 0; i < nt; i++ {
		if r.Intn(3) > 0 {
			s := span(i)
			s.Root = r.Intn(2) == 0
			in.Ops = append(in.Ops, c2Op{Op: "span", S: s})
		}
		// a span of an already decided trace arriving while stress relief is active (record present),
		// and - for traces never seen before - with no record at all
		if r.Intn(3) == 0 || (mode == "c04" && r.Intn(2) == 0) {
			in.Ops = append(in.Ops, c2Op{Op: "stress", S: span(i)})
		}
	}
	return in
}

func c2RunAs(raw json.RawMessage, nontriv func(in *c2Input, res *c2Result) bool) (Case, error) {
	var in c2Input
	if err := json.Unmarshal(raw, &in); err != nil {
		return Case{}, err
	}
	res, err := c2RunInput(&in)
	if err != nil {
		return Case{}, err
	}
	var tags []string
	for t := range res.Tags {
		tags = append(tags, t)
	}
	if in.Cfg.Dry {
		tags = append(tags, "dryrun-at-start")
	}
	if res.Late > 0 {
		tags = append(tags, "late-forwarded")
	}
	if res.StressOut > 0 {
		tags = append(tags, "stress-forwarded")
	}
	if res.OnTime > 0 {
		tags = append(tags, "ontime-forwarded")
	}
	tags = append(tags, fmt.Sprintf("stress-rate:%d", in.StressRate), fmt.Sprintf("workers:%d", in.Workers))
	return Case{Coq: res.Coq, Key: c2Key(&in, res), Nontriv: nontriv(&in, res), Tags: tags,
		Summary: map[string]any{"config": in.Cfg, "stress_rate": in.StressRate, "traces": in.Traces, "history": res.Human}}, nil
}

func c04Run(raw json.RawMessage) (Case, error) {
	return c2RunAs(raw, func(in *c2Input, res *c2Result) bool {
		return res.Late+res.StressOut > 0 && res.OnTime > 0
	})
}
