package drive

// C19: every received event takes exactly one route.
//
// One case = one node state (listener, stress state, answer of ProcessSpanImmediately, collector
// queue full or not, trace ownership) and one request of 1-4 events sent to the REAL Router handlers
// (/1/batch msgpack or JSON, /1/events msgpack or JSON).  The real processEvent decides; the sinks are
// a scripted collector and the two real DirectTransmissions posting to a fake Honeycomb / peer
// endpoint.  Observed per event: the ordered list of sink calls (collector: snapshot of the span
// inside the call; transmissions: the event as received by the fake endpoint) and whether the client
// was told the event was accepted.

import (
	"encoding/json"
	"fmt"
	"math/rand"
	"sort"
	"strconv"
	"strings"

	"github.com/honeycombio/refinery/config"
	cq "github.com/honeycombio/refinery/verifharness/coqfmt"
)

type c19Event struct {
	Fields []mpField `json:"fields"`
	Rate   int64     `json:"rate,omitempty"`
	Nsec   uint32    `json:"nsec,omitempty"`
}

type c19Input struct {
	Path        string     `json:"path"`
	TraceNames  []string   `json:"trace_names"`
	ParentNames []string   `json:"parent_names"`
	KeyFields   []string   `json:"key_fields"`
	UA          string     `json:"ua,omitempty"`
	Incoming    bool       `json:"incoming"`
	Stressed    bool       `json:"stressed,omitempty"`
	Processed   bool       `json:"processed,omitempty"`
	Kept        bool       `json:"kept,omitempty"`
	Full        bool       `json:"full,omitempty"`
	PeerTrace   []string   `json:"peer_trace"`
	APIKey      string     `json:"api_key"`
	Dataset     string     `json:"dataset"`
	Events      []c19Event `json:"events"`
	Deliv       string     `json:"deliv,omitempty"` // delivery scenario on the real DirectTransmission instead of a request
	DelivSeed   int64      `json:"deliv_seed,omitempty"`
}

func init() {
	Register(&Driver{ID: "C19", Gen: c19Gen, Run: c19Run, Shrink: c19Shrink})
}

func c19Gen(r *rand.Rand, tier string, i int) any {
	if k := r2DelivSchedule(i); k != "" {
		return c19Input{Path: "batch-msgp", Deliv: k, DelivSeed: r.Int63n(1 << 30)}
	}
	in := c19Input{Path: []string{"batch-msgp", "batch-msgp", "batch-json", "event-json", "event-msgp"}[r.Intn(5)],
		Incoming: r.Intn(3) > 0, PeerTrace: []string{"peer-trace-1", "peer-trace-2"},
		APIKey:  c20Pick(r, []string{"0123456789abcdef0123456789abcdef", "hcaik_01hqk4k20cjeh63wca8vva5stw70nft6m5n8wr8f5mjx3762s8269j50wc", "shortkey"}),
		Dataset: c20Pick(r, []string{"ds", "my dataset", "a/b", "prod.api"})}
	mode := "msgp"
	if strings.HasSuffix(in.Path, "json") {
		mode = "json"
	}
	isEvent := strings.HasPrefix(in.Path, "event")
	in.TraceNames = c20Pick(r, [][]string{{"trace.trace_id"}, {"trace.trace_id", "traceId"}, {"trace.trace_id"}, {}})
	in.ParentNames = c20Pick(r, [][]string{{"trace.parent_id"}, {"trace.parent_id", "parentId"}, {}})
	if r.Intn(3) == 0 {
		in.KeyFields = []string{c20Pick(r, []string{"a", "name", "http.status"})}
	}
	if r.Intn(3) == 0 {
		in.UA = "verif-agent/1.0"
	}
	// stress state: half of the cases are stressed, with every answer of ProcessSpanImmediately
	if r.Intn(2) == 0 {
		in.Stressed, in.Processed, in.Kept = true, r.Intn(4) > 0, r.Intn(2) == 0
	} else {
		in.Processed, in.Kept = r.Intn(2) == 0, r.Intn(2) == 0 // irrelevant when not stressed
	}
	in.Full = r.Intn(6) == 0
	nev := 1 + r.Intn(4)
	for e := 0; e < nev; e++ {
		ev := c19Event{Rate: []int64{0, 1, 2, 10, 1000}[r.Intn(5)]}
		if mode == "msgp" && !isEvent {
			ev.Nsec = []uint32{0, 0, 1, 999999999, 123456789}[r.Intn(5)]
		}
		// identity class of the event
		kind := r.Intn(100)
		tid := ""
		switch {
		case kind < 22: // no trace id at all
		case kind < 30: // trace id field present but blank / not a string
			tid = "-blank-"
		case kind < 55:
			tid = c20Pick(r, []string{"own-trace-1", "own-trace-2"})
		case kind < 85:
			tid = c20Pick(r, in.PeerTrace)
		default:
			tid = c20Pick(r, []string{"own-trace-1", "peer-trace-1"})
		}
		probe := r.Intn(8) == 0
		rejecting := false
		seen := map[string]bool{}
		add := func(k string, v mpVal) {
			if !seen[k] {
				seen[k] = true
				ev.Fields = append(ev.Fields, mpField{K: []byte(k), Bin: mode == "msgp" && r.Intn(8) == 0, V: v})
			}
		}
		if tid != "" {
			names := in.TraceNames
			if r.Intn(5) == 0 || len(names) == 0 {
				names = []string{"meta.trace_id"}
			}
			for _, n := range names {
				switch {
				case tid == "-blank-" && r.Intn(2) == 0:
					add(n, mpVal{T: "str"})
				case tid == "-blank-":
					// (a bin value under the reserved name meta.trace_id makes the reader reject the whole request)
					add(n, c20NonString(r, mode, isEvent || n == "meta.trace_id"))
				case r.Intn(4) > 0 || n == names[0]:
					add(n, mpVal{T: "str", S: []byte(tid)})
				}
			}
		}
		if probe {
			switch x := r.Intn(10); {
			case x < 7:
				add("meta.refinery.probe", mpVal{T: "bool", B: true})
			case x < 8:
				add("meta.refinery.probe", mpVal{T: "bool", B: false})
			default:
				add("meta.refinery.probe", mpVal{T: "str", S: []byte("true")}) // wrong type: not a probe
			}
		}
		if r.Intn(2) == 0 && len(in.ParentNames) > 0 {
			add(in.ParentNames[0], c20Pick(r, []mpVal{{T: "str", S: []byte("p1")}, {T: "str"}}))
		}
		if r.Intn(8) == 0 {
			add("meta.signal_type", mpVal{T: "str", S: []byte(c20Pick(r, []string{"log", "trace"}))})
		}
		if r.Intn(60) == 0 && mode == "msgp" && !isEvent {
			add("meta.annotation_type", mpVal{T: "bin", S: []byte("link")}) // the reader rejects the request
			rejecting = true
		}
		nplain := r.Intn(4)
		if r.Intn(25) == 0 {
			ev.Fields, nplain = nil, 0 // empty event
			seen = map[string]bool{}
		}
		for j := 0; j < nplain; j++ {
			add(c20Pick(r, []string{"a", "b", "name", "http.status", "duration_ms", "", "ключ", "meta.custom"}), c20Val(r, mode, 2))
		}
		r.Shuffle(len(ev.Fields), func(a, b int) { ev.Fields[a], ev.Fields[b] = ev.Fields[b], ev.Fields[a] })
		in.Events = append(in.Events, ev)
		if rejecting || (len(ev.Fields) == 0 && false) {
			in.Events = []c19Event{ev}
			break
		}
	}
	return in
}

func c19SinkCoq(s string) string {
	return map[string]string{"upstream": "SUpstream", "peer": "SPeer", "collector": "SCollector",
		"collector-peer": "SCollectorPeer", "stress": "SStress"}[s]
}

func c19Run(raw json.RawMessage) (Case, error) {
	var in c19Input
	if err := json.Unmarshal(raw, &in); err != nil {
		return Case{}, err
	}
	if in.Deliv != "" {
		res, err := r2DelivRun(in.Deliv, in.DelivSeed)
		if err != nil {
			return Case{}, err
		}
		coq := fmt.Sprintf("{| c_path := PBatchMsgp; c_cfg := {| trace_names := []; parent_names := []; key_fields := [] |}; c_ua := \"\"; c_widen := []; "+
			"c_incoming := true; c_stressed := false; c_processed := false; c_kept := false; c_full := false; c_remote := []; c_peer := \"\"; c_events := []; c_deliv := %s |}", r2DelivCoq(res))
		return Case{Coq: coq, Key: string(raw), Nontriv: true, Tags: []string{"delivery:" + in.Deliv},
			Summary: map[string]any{"delivery": in.Deliv, "events": len(res.Expected), "arrived": len(res.Arrived), "notes": res.Human}}, nil
	}
	env, err := r2NewEnv(r2Options{TraceNames: in.TraceNames, ParentNames: in.ParentNames, KeyFields: in.KeyFields,
		Incoming: in.Incoming, PeerTraceIDs: in.PeerTrace, Stressed: in.Stressed, Processed: in.Processed, Kept: in.Kept, Full: in.Full})
	if err != nil {
		return Case{}, err
	}
	// requests: reuse the C20 request builders
	c20in := c20Input{Path: in.Path, Events: make([]c20Event, len(in.Events))}
	for i, ev := range in.Events {
		c20in.Events[i] = c20Event{Fields: ev.Fields, Rate: ev.Rate}
	}
	accepted := make([]bool, len(in.Events))
	var statuses []int
	batchAccepted := func(code int, body []byte) {
		statuses = append(statuses, code)
		var resp []struct {
			Status int `json:"status"`
		}
		if code == 200 && json.Unmarshal(body, &resp) == nil {
			for i := range resp {
				if i < len(accepted) {
					accepted[i] = resp[i].Status == 202
				}
			}
		}
	}
	escDataset := strings.ReplaceAll(strings.ReplaceAll(in.Dataset, "/", "%2F"), " ", "%20")
	switch in.Path {
	case "batch-msgp":
		body := c19BuildBatchMsgp(&in)
		code, resp := env.Post("batch", escDataset, "application/msgpack", in.APIKey, in.UA, nil, body)
		batchAccepted(code, resp)
	case "batch-json":
		code, resp := env.Post("batch", escDataset, "application/json", in.APIKey, in.UA, nil, c20BuildBatchJSON(&c20in))
		batchAccepted(code, resp)
	case "event-json", "event-msgp":
		for i, ev := range in.Events {
			hdr := map[string]string{"X-Honeycomb-Event-Time": c20TimeString(i)}
			if ev.Rate > 0 {
				hdr["X-Honeycomb-Samplerate"] = strconv.FormatInt(ev.Rate, 10)
			}
			var body []byte
			ct := "application/json"
			if in.Path == "event-json" {
				var sb strings.Builder
				jsonEncode(&sb, mpVal{T: "map", M: ev.Fields})
				body = []byte(sb.String())
			} else {
				ct = "application/msgpack"
				body = mpEncodeMap(nil, ev.Fields, 0)
			}
			code, _ := env.Post("events", escDataset, ct, in.APIKey, in.UA, hdr, body)
			statuses = append(statuses, code)
			accepted[i] = code == 200
		}
	default:
		return Case{}, fmt.Errorf("bad path %q", in.Path)
	}
	log := append([]r2Sunk{}, env.Log...)
	recv, err := r2DecodeBatches(env.Finish())
	if err != nil {
		return Case{}, err
	}
	type recvKey struct {
		prefix string
		idx    int
	}
	received := map[recvKey][]r2Received{}
	for _, rc := range recv {
		idx := int(rc.TimeSec - c20BaseTime)
		if !rc.HasTime || idx < 0 || idx >= len(in.Events) {
			return Case{}, fmt.Errorf("received event with unexpected time %d", rc.TimeSec)
		}
		received[recvKey{rc.Prefix, idx}] = append(received[recvKey{rc.Prefix, idx}], rc)
	}
	perEvent := make([][]string, len(in.Events))
	perEventHuman := make([][]string, len(in.Events))
	used := map[recvKey]int{}
	for _, s := range log {
		idx := int(s.Snap.TimeSec - c20BaseTime)
		if idx < 0 || idx >= len(in.Events) {
			return Case{}, fmt.Errorf("event with unexpected timestamp %d reached sink %s", s.Snap.TimeSec, s.Sink)
		}
		host, key, ds := s.Snap.APIHost, s.Snap.APIKey, s.Snap.Dataset
		rate, sec, nsec := int64(s.Snap.SampleRate), s.Snap.TimeSec, uint64(s.Snap.TimeNsec)
		var data []mpField
		if s.Sink == "upstream" || s.Sink == "peer" {
			prefix := map[string]string{"upstream": "hny", "peer": "peer"}[s.Sink]
			rk := recvKey{prefix, idx}
			if used[rk] >= len(received[rk]) {
				// not where this transmission normally delivers: it may have been addressed to the other endpoint
				rk = recvKey{map[string]string{"hny": "peer", "peer": "hny"}[prefix], idx}
			}
			if used[rk] >= len(received[rk]) {
				return Case{}, fmt.Errorf("event %d enqueued on %s transmission never arrived at any endpoint", idx, s.Sink)
			}
			rc := received[rk][used[rk]]
			used[rk]++
			// what actually arrived; the host is the one the request was sent to
			host = map[string]string{"hny": env.HnyURL, "peer": env.PeerURL}[rc.Prefix]
			key, ds = rc.APIKey, rc.Dataset
			if d, err := urlUnescape(ds); err == nil {
				ds = d
			}
			sec, nsec, data = rc.TimeSec, uint64(rc.TimeNsec), rc.Data
			switch rc.SampleRate.T {
			case "int":
				rate = rc.SampleRate.I
			case "uint":
				rate = int64(rc.SampleRate.U)
			default:
				rate = -1
			}
		} else {
			v, rest, err := mpDecode(s.Snap.Data)
			if err != nil || len(rest) != 0 || v.T != "map" {
				return Case{}, fmt.Errorf("span payload at %s does not marshal to one msgpack map: %v", s.Sink, err)
			}
			data = v.M
		}
		perEvent[idx] = append(perEvent[idx], fmt.Sprintf(
			"{| o_sink := %s; o_host := %s; o_key := %s; o_dataset := %s; o_rate := %s; o_sec := %s; o_nsec := %s; o_data := %s; o_trace := %s; o_root := %s |}",
			c19SinkCoq(s.Sink), cq.Str(host), cq.Str(key), cq.Str(ds), cq.Z(rate), cq.Z(sec), cq.N(nsec), mpCoqFields(data),
			cq.Str(s.Snap.TraceID), cq.Bool(s.Snap.IsRoot)))
		perEventHuman[idx] = append(perEventHuman[idx], fmt.Sprintf("%s(host=%s key=%s ds=%s rate=%d t=%d.%09d %s)",
			s.Sink, strings.TrimPrefix(host, r2Server.URL), trunc(key), ds, rate, sec, nsec, mpShowFields(data)))
	}
	for rk, n := range used {
		if n != len(received[rk]) {
			return Case{}, fmt.Errorf("endpoint %s received event %d more often than it was enqueued", rk.prefix, rk.idx)
		}
	}
	for rk := range received {
		if _, ok := used[rk]; !ok {
			return Case{}, fmt.Errorf("endpoint %s received event %d that no transmission call accounts for", rk.prefix, rk.idx)
		}
	}

	keyFields, _ := config.GetKeyFields(in.KeyFields)
	widen := map[uint64]uint64{}
	var evs, human []string
	tags := []string{"path:" + in.Path, fmt.Sprintf("listener:%s", map[bool]string{true: "incoming", false: "peer"}[in.Incoming]),
		fmt.Sprintf("stress:%v/%v/%v", in.Stressed, in.Processed, in.Kept), fmt.Sprintf("full:%v", in.Full)}
	classes := map[string]bool{}
	for i, ev := range in.Events {
		for _, f := range ev.Fields {
			mpCollectF32(f.V, widen)
		}
		rate := ev.Rate
		if rate == 0 {
			rate = 1
		}
		envCoq := fmt.Sprintf("{| v_apihost := %s; v_apikey := %s; v_dataset := %s; v_rate := %s; v_sec := %s; v_nsec := %s |}",
			cq.Str(env.HnyURL), cq.Str(in.APIKey), cq.Str(in.Dataset), cq.Z(rate), cq.Z(c20BaseTime+int64(i)), cq.N(uint64(ev.Nsec)))
		evs = append(evs, fmt.Sprintf("{| e_env := %s; e_fields := %s; e_accepted := %s; e_obs := %s |}",
			envCoq, mpCoqFields(ev.Fields), cq.Bool(accepted[i]), cq.List(perEvent[i])))
		var sinks []string
		for _, h := range perEventHuman[i] {
			sinks = append(sinks, h[:strings.Index(h, "(")])
		}
		cls := strings.Join(sinks, "+")
		if cls == "" {
			cls = "none"
		}
		classes[cls] = true
		tags = append(tags, "sinks:"+cls)
		human = append(human, fmt.Sprintf("event %d %s accepted=%v -> %s", i, mpShowFields(ev.Fields), accepted[i], strings.Join(perEventHuman[i], " ; ")))
	}
	sort.Strings(tags)
	coq := fmt.Sprintf("{| c_path := %s; c_cfg := {| trace_names := %s; parent_names := %s; key_fields := %s |}; c_ua := %s; c_widen := %s; "+
		"c_incoming := %s; c_stressed := %s; c_processed := %s; c_kept := %s; c_full := %s; c_remote := %s; c_peer := %s; c_events := %s; c_deliv := [] |}",
		c20PathCoq(in.Path), cq.ListStr(in.TraceNames), cq.ListStr(in.ParentNames), cq.ListStr(keyFields), cq.Str(in.UA), mpWidenCoq(widen),
		cq.Bool(in.Incoming), cq.Bool(in.Stressed), cq.Bool(in.Processed), cq.Bool(in.Kept), cq.Bool(in.Full),
		cq.ListStr(in.PeerTrace), cq.Str(env.PeerURL), cq.List(evs))
	// the printed addresses contain a per-run id: normalise so that distinct-counting and replays are stable
	coq = strings.ReplaceAll(coq, r2Server.URL+"/"+env.Run, "http://node")
	key, _ := json.Marshal(in)
	// non-trivial: at least two different routes taken within the request, or a stress / probe / refusal case
	nontriv := len(classes) >= 2 || in.Stressed || in.Full
	return Case{Coq: coq, Key: string(key), Nontriv: nontriv, Tags: tags,
		Summary: map[string]any{"path": in.Path, "incoming": in.Incoming, "stressed": in.Stressed, "processed": in.Processed,
			"kept": in.Kept, "full": in.Full, "http_status": statuses, "events": human}}, nil
}

func urlUnescape(s string) (string, error) {
	s = strings.ReplaceAll(s, "%2F", "/")
	s = strings.ReplaceAll(s, "%20", " ")
	return s, nil
}

// msgpack batch with per-event nanoseconds in the timestamp
func c19BuildBatchMsgp(in *c19Input) []byte {
	b := mpAppendCountHdr(nil, len(in.Events), false, 0)
	for i, ev := range in.Events {
		b = mpAppendCountHdr(b, 3, true, 0)
		b = append(mpAppendStrHdr(b, 4, false, 0), "data"...)
		b = mpEncodeMap(b, ev.Fields, 0)
		b = append(mpAppendStrHdr(b, 4, false, 0), "time"...)
		b = mpEncode(b, mpVal{T: "time", Sec: c20BaseTime + int64(i), Nsec: ev.Nsec, W: []int{0, 8, 12}[i%3]})
		b = append(mpAppendStrHdr(b, 10, false, 0), "samplerate"...)
		b = mpEncode(b, mpVal{T: "int", I: ev.Rate})
	}
	return b
}

func c19Shrink(raw json.RawMessage) []json.RawMessage {
	var in c19Input
	if json.Unmarshal(raw, &in) != nil {
		return nil
	}
	var out []json.RawMessage
	clone := func() c19Input {
		var c c19Input
		b, _ := json.Marshal(in)
		json.Unmarshal(b, &c)
		return c
	}
	emit := func(c c19Input) {
		b, _ := json.Marshal(c)
		out = append(out, b)
	}
	if len(in.Events) > 1 {
		for i := range in.Events {
			c := clone()
			c.Events = append(c.Events[:i], c.Events[i+1:]...)
			emit(c)
		}
	}
	for i, ev := range in.Events {
		if len(ev.Fields) > 1 {
			for j := range ev.Fields {
				c := clone()
				c.Events[i].Fields = append(c.Events[i].Fields[:j], c.Events[i].Fields[j+1:]...)
				emit(c)
			}
		}
		for j, f := range ev.Fields {
			if f.V.T == "arr" || f.V.T == "map" {
				c := clone()
				c.Events[i].Fields[j].V = mpVal{T: "nil"}
				emit(c)
			}
		}
	}
	if in.UA != "" {
		c := clone()
		c.UA = ""
		emit(c)
	}
	if len(in.KeyFields) > 0 {
		c := clone()
		c.KeyFields = nil
		emit(c)
	}
	if in.Full {
		c := clone()
		c.Full = false
		emit(c)
	}
	return out
}
