package drive

import (
	"encoding/json"
	"fmt"
	"math/rand"
	"os"
	"path/filepath"
	"reflect"
	"sort"
	"strings"

	"github.com/honeycombio/refinery/config"
	cq "github.com/honeycombio/refinery/verifharness/coqfmt"
)

// C29: the real config.NewCmdEnvOptions + config.NewConfig on generated combinations of command-line
// flags, environment variables, one to three config files and defaults, for the string-valued settings of
// the main config (string, []string, map[string]string), with ${VAR} references anywhere in the values.
// The effective value of every chosen setting is read by reflection from the real main config struct.

type c29Val struct {
	S *string            `json:"s,omitempty"`
	L []string           `json:"l,omitempty"`
	M map[string]string  `json:"m,omitempty"`
}
type c29Input struct {
	Kind  string                `json:"kind"` // resolve | doc | choice
	Vars  map[string]string     `json:"vars,omitempty"`
	Flags map[string][]string   `json:"flags,omitempty"` // CmdEnv field name -> flag values (more than one only for list options)
	Envs  map[string][]string   `json:"envs,omitempty"`  // CmdEnv field name -> env value (elements joined with the option's delimiter)
	Files []map[string]c29Val   `json:"files,omitempty"` // per file: setting path -> value
	Paths []string              `json:"paths,omitempty"` // settings to observe
	// doc
	DocPath string `json:"doc_path,omitempty"`
	DocEnv  string `json:"doc_env,omitempty"`
	// choice
	ChoicePath string `json:"choice_path,omitempty"`
	ChoiceRaw  string `json:"choice_raw,omitempty"`
}

type c29Setting struct {
	path, typ, def string
	tags           []string
}
type c29Opt struct {
	name, long, env, delim string
	isList                 bool
}

var c29Settings []c29Setting
var c29Opts = map[string]c29Opt{}

func c29Init() error {
	if c29Settings != nil {
		return nil
	}
	dir, err := os.MkdirTemp(".", "c29init-")
	if err != nil {
		return err
	}
	defer os.RemoveAll(dir)
	c, err := c29Load(dir, []string{"General:\n  ConfigurationVersion: 2\n"}, nil)
	if c == nil {
		return fmt.Errorf("C29: minimal config rejected: %v", err)
	}
	var walk func(t reflect.Type, prefix string)
	walk = func(t reflect.Type, prefix string) {
		for i := 0; i < t.NumField(); i++ {
			f := t.Field(i)
			name := strings.Split(f.Tag.Get("yaml"), ",")[0]
			if name == "-" {
				continue
			}
			if name == "" {
				name = f.Name
			}
			p := name
			if prefix != "" {
				p = prefix + "." + name
			}
			if f.Type.Kind() == reflect.Struct {
				walk(f.Type, p)
				continue
			}
			var tags []string
			if tg := f.Tag.Get("cmdenv"); tg != "" {
				tags = strings.Split(tg, ",")
			}
			c29Settings = append(c29Settings, c29Setting{path: p, typ: strings.ReplaceAll(f.Type.String(), "config.", ""), def: f.Tag.Get("default"), tags: tags})
		}
	}
	walk(reflect.TypeOf(config.VerifC29MainConfig(c)).Elem(), "")
	ot := reflect.TypeOf(config.CmdEnv{})
	for i := 0; i < ot.NumField(); i++ {
		f := ot.Field(i)
		c29Opts[f.Name] = c29Opt{name: f.Name, long: f.Tag.Get("long"), env: f.Tag.Get("env"), delim: f.Tag.Get("env-delim"), isList: f.Type.Kind() == reflect.Slice}
	}
	return nil
}

const c29Rules = "RulesVersion: 2\nSamplers:\n  __default__:\n    DeterministicSampler:\n      SampleRate: 1\n"

func c29Load(dir string, files []string, extraArgs []string) (config.Config, error) {
	args := []string{"refinery"}
	for i, body := range files {
		p := filepath.Join(dir, fmt.Sprintf("config%d.yaml", i))
		if err := os.WriteFile(p, []byte(body), 0o644); err != nil {
			return nil, err
		}
		args = append(args, "-c", p)
	}
	rp := filepath.Join(dir, "rules.yaml")
	if err := os.WriteFile(rp, []byte(c29Rules), 0o644); err != nil {
		return nil, err
	}
	args = append(args, "-r", rp)
	args = append(args, extraArgs...)
	opts, err := config.NewCmdEnvOptions(args)
	if err != nil {
		return nil, err
	}
	return config.NewConfig(opts)
}

func c29Find(path string) *c29Setting {
	for i := range c29Settings {
		if c29Settings[i].path == path {
			return &c29Settings[i]
		}
	}
	return nil
}

// ---- value pools (values that the validator accepts once expanded)
type c29Pool struct {
	path string
	gen  func(r *rand.Rand, ref func() string) c29Val
}

func c29Str(s string) c29Val { return c29Val{S: &s} }

// a value that is a valid Honeycomb API key (20-23 alphanumerics) once ${C29_K} (always "kp") is expanded
func c29Key(prefix string, r *rand.Rand) string {
	base := fmt.Sprintf("%s%dxxxxxxxxxxxxxxxxx", prefix, r.Intn(9))
	switch r.Intn(4) {
	case 0:
		return base + "${C29_K}"
	case 1:
		return "${C29_K}" + base
	default:
		return base + "zz"
	}
}

var c29Pools = []c29Pool{
	{"Network.ListenAddr", func(r *rand.Rand, ref func() string) c29Val { return c29Str(fmt.Sprintf("0.0.0.0:%d", 8000+r.Intn(90))) }},
	{"Network.PeerListenAddr", func(r *rand.Rand, ref func() string) c29Val { return c29Str(fmt.Sprintf("0.0.0.0:%d", 9000+r.Intn(90))) }},
	{"Network.HoneycombAPI", func(r *rand.Rand, ref func() string) c29Val { return c29Str(fmt.Sprintf("https://api%d.example.com/%s", r.Intn(9), ref())) }},
	{"OpAMP.Endpoint", func(r *rand.Rand, ref func() string) c29Val { return c29Str(fmt.Sprintf("wss://opamp%d.example.com:4320/v1/opamp%s", r.Intn(9), ref())) }},
	{"AccessKeys.SendKey", func(r *rand.Rand, ref func() string) c29Val { return c29Str(c29Key("sk", r)) }},
	{"Debugging.QueryAuthToken", func(r *rand.Rand, ref func() string) c29Val { return c29Str(fmt.Sprintf("tok%d%s$", r.Intn(9), ref())) }},
	{"HoneycombLogger.APIHost", func(r *rand.Rand, ref func() string) c29Val { return c29Str(fmt.Sprintf("https://tel%d.example.com/%s", r.Intn(9), ref())) }},
	{"OTelMetrics.APIHost", func(r *rand.Rand, ref func() string) c29Val { return c29Str(fmt.Sprintf("https://tel%d.example.com/%s", r.Intn(9), ref())) }},
	{"OTelTracing.APIHost", func(r *rand.Rand, ref func() string) c29Val { return c29Str(fmt.Sprintf("https://tel%d.example.com/%s", r.Intn(9), ref())) }},
	{"HoneycombLogger.APIKey", func(r *rand.Rand, ref func() string) c29Val { return c29Str(c29Key("lk", r)) }},
	{"OTelMetrics.APIKey", func(r *rand.Rand, ref func() string) c29Val { return c29Str(c29Key("mk", r)) }},
	{"OTelTracing.APIKey", func(r *rand.Rand, ref func() string) c29Val { return c29Str(c29Key("tk", r)) }},
	{"RedisPeerManagement.Host", func(r *rand.Rand, ref func() string) c29Val { return c29Str(fmt.Sprintf("redis%d:6379", r.Intn(9))) }},
	{"RedisPeerManagement.Username", func(r *rand.Rand, ref func() string) c29Val { return c29Str(fmt.Sprintf("user%d%s", r.Intn(9), ref())) }},
	{"RedisPeerManagement.Password", func(r *rand.Rand, ref func() string) c29Val { return c29Str(fmt.Sprintf("pw%d%s}", r.Intn(9), ref())) }},
	{"RedisPeerManagement.AuthCode", func(r *rand.Rand, ref func() string) c29Val { return c29Str(fmt.Sprintf("auth%d%s", r.Intn(9), ref())) }},
	{"RedisPeerManagement.ClusterHosts", func(r *rand.Rand, ref func() string) c29Val {
		n := 1 + r.Intn(3)
		var l []string
		for i := 0; i < n; i++ {
			l = append(l, fmt.Sprintf("rc%d:%d", r.Intn(9), 6379+i))
		}
		return c29Val{L: l}
	}},
	{"GRPCServerParameters.ListenAddr", func(r *rand.Rand, ref func() string) c29Val { return c29Str(fmt.Sprintf("0.0.0.0:%d", 4300+r.Intn(90))) }},
	{"General.DatasetPrefix", func(r *rand.Rand, ref func() string) c29Val { return c29Str(c29Key("pre", r)) }},
	{"PeerManagement.Identifier", func(r *rand.Rand, ref func() string) c29Val { return c29Str(fmt.Sprintf("node%d%s", r.Intn(9), ref())) }},
	{"RedisPeerManagement.Prefix", func(r *rand.Rand, ref func() string) c29Val { return c29Str(fmt.Sprintf("rp%d%s", r.Intn(9), ref())) }},
	{"AccessKeys.ReceiveKeys", func(r *rand.Rand, ref func() string) c29Val {
		n := 1 + r.Intn(3)
		var l []string
		for i := 0; i < n; i++ {
			l = append(l, fmt.Sprintf("rk%d%s", r.Intn(9), ref()))
		}
		return c29Val{L: l}
	}},
	{"HoneycombLogger.AdditionalAttributes", func(r *rand.Rand, ref func() string) c29Val {
		m := map[string]string{}
		for i := 0; i < 1+r.Intn(3); i++ {
			m[fmt.Sprintf("attr%d", r.Intn(4))] = fmt.Sprintf("v%d%s", r.Intn(9), ref())
		}
		return c29Val{M: m}
	}},
	{"Network.AdditionalHeaders", func(r *rand.Rand, ref func() string) c29Val {
		m := map[string]string{}
		for i := 0; i < 1+r.Intn(3); i++ {
			m[fmt.Sprintf("X-Extra-%d", r.Intn(4))] = fmt.Sprintf("h%d%s", r.Intn(9), ref())
		}
		return c29Val{M: m}
	}},
}

var c29VarNames = []string{"C29_A", "C29_B", "C29_EMPTYISH", "C29_UNSET", "C29 odd name"}

func init() {
	Register(&Driver{ID: "C29", Gen: c29Gen, Run: c29Run, Shrink: c29Shrink})
}

func c29Gen(r *rand.Rand, tier string, i int) any {
	if err := c29Init(); err != nil {
		panic(err)
	}
	switch x := r.Intn(100); {
	case x < 8:
		docs := [][2]string{{"Network.ListenAddr", "REFINERY_HTTP_LISTEN_ADDRESS"}, {"Network.PeerListenAddr", "REFINERY_PEER_LISTEN_ADDRESS"},
			{"Network.HoneycombAPI", "REFINERY_HONEYCOMB_API"}, {"AccessKeys.SendKey", "REFINERY_SEND_KEY"}, {"Debugging.QueryAuthToken", "REFINERY_QUERY_AUTH_TOKEN"},
			{"HoneycombLogger.APIKey", "REFINERY_HONEYCOMB_LOGGER_API_KEY"}, {"HoneycombLogger.APIKey", "REFINERY_HONEYCOMB_API_KEY"},
			{"OTelMetrics.APIKey", "REFINERY_OTEL_METRICS_API_KEY"}, {"OTelMetrics.APIKey", "REFINERY_HONEYCOMB_API_KEY"},
			{"OTelTracing.APIKey", "REFINERY_HONEYCOMB_API_KEY"}, {"OTelTracing.APIKey", "REFINERY_HONEYCOMB_TRACES_API_KEY"}, {"RedisPeerManagement.Host", "REFINERY_REDIS_HOST"},
			{"RedisPeerManagement.Username", "REFINERY_REDIS_USERNAME"}, {"RedisPeerManagement.Password", "REFINERY_REDIS_PASSWORD"},
			{"RedisPeerManagement.AuthCode", "REFINERY_REDIS_AUTH_CODE"}, {"GRPCServerParameters.ListenAddr", "REFINERY_GRPC_LISTEN_ADDRESS"}}
		d := docs[r.Intn(len(docs))]
		return c29Input{Kind: "doc", DocPath: d[0], DocEnv: d[1]}
	case x < 20:
		in := c29Input{Kind: "choice", Vars: map[string]string{}}
		choices := map[string][]string{"Logger.Type": {"stdout", "none", "bogus", "STDOUT"},
			"PeerManagement.Type": {"file", "redis", "bogus", "File"}}
		in.ChoicePath = []string{"Logger.Type", "PeerManagement.Type"}[r.Intn(2)]
		v := choices[in.ChoicePath][r.Intn(len(choices[in.ChoicePath]))]
		switch r.Intn(3) {
		case 0:
			in.ChoiceRaw = v
		case 1:
			in.ChoiceRaw = "${C29_A}"
			if v != "" {
				in.Vars["C29_A"] = v
			}
		default:
			if len(v) > 1 {
				in.ChoiceRaw = v[:1] + "${C29_B}"
				in.Vars["C29_B"] = v[1:]
			} else {
				in.ChoiceRaw = v
			}
		}
		return in
	}
	in := c29Input{Kind: "resolve", Vars: map[string]string{"C29_K": "kp"}, Flags: map[string][]string{}, Envs: map[string][]string{}}
	if r.Intn(10) < 8 {
		in.Vars["C29_A"] = []string{"alpha", "a b", "x}y", "${C29_B}", "$"}[r.Intn(5)]
	}
	if r.Intn(10) < 5 {
		in.Vars["C29_B"] = []string{"beta", "b-2"}[r.Intn(2)]
	}
	if r.Intn(10) < 3 {
		in.Vars["C29 odd name"] = "odd"
	}
	ref := func() string {
		switch x := r.Intn(100); {
		case x < 55:
			return ""
		case x < 70:
			return "${C29_A}"
		case x < 78:
			return "${C29_B}"
		case x < 84:
			return "${C29_UNSET}"
		case x < 88:
			return "${C29 odd name}"
		case x < 91:
			return "${}"
		case x < 94:
			return "$${C29_A}"
		case x < 97:
			return "${C29_A"
		default:
			return "${C29_A}${C29_B}"
		}
	}
	nfiles := 1 + r.Intn(3)
	for f := 0; f < nfiles; f++ {
		in.Files = append(in.Files, map[string]c29Val{})
	}
	perm := r.Perm(len(c29Pools))
	n := 3 + r.Intn(5)
	for _, pi := range perm[:n] {
		p := c29Pools[pi]
		s := c29Find(p.path)
		if s == nil {
			continue
		}
		in.Paths = append(in.Paths, p.path)
		for f := 0; f < nfiles; f++ {
			if r.Intn(100) < 45 {
				in.Files[f][p.path] = p.gen(r, ref)
			}
		}
		for _, tag := range s.tags {
			o := c29Opts[tag]
			vals := func() []string {
				v := p.gen(r, ref)
				if v.S != nil {
					return []string{*v.S}
				}
				return v.L
			}
			if v := vals(); len(v) > 0 && r.Intn(100) < 30 {
				if _, ok := in.Flags[tag]; !ok {
					if !o.isList {
						v = v[:1]
					}
					in.Flags[tag] = v
				}
			}
			if v := vals(); len(v) > 0 && r.Intn(100) < 35 {
				if _, ok := in.Envs[tag]; !ok {
					in.Envs[tag] = v
				}
			}
		}
	}
	sort.Strings(in.Paths)
	return in
}

func c29Yaml(file map[string]c29Val) string {
	groups := map[string][]string{}
	var gnames []string
	paths := make([]string, 0, len(file))
	for p := range file {
		paths = append(paths, p)
	}
	sort.Strings(paths)
	q := func(s string) string { b, _ := json.Marshal(s); return string(b) }
	for _, p := range paths {
		g, f, _ := strings.Cut(p, ".")
		if _, ok := groups[g]; !ok {
			gnames = append(gnames, g)
		}
		v := file[p]
		switch {
		case v.S != nil:
			groups[g] = append(groups[g], fmt.Sprintf("  %s: %s\n", f, q(*v.S)))
		case v.M != nil:
			s := fmt.Sprintf("  %s:\n", f)
			keys := make([]string, 0, len(v.M))
			for k := range v.M {
				keys = append(keys, k)
			}
			sort.Strings(keys)
			for _, k := range keys {
				s += fmt.Sprintf("    %s: %s\n", q(k), q(v.M[k]))
			}
			groups[g] = append(groups[g], s)
		default:
			s := fmt.Sprintf("  %s:\n", f)
			for _, e := range v.L {
				s += fmt.Sprintf("    - %s\n", q(e))
			}
			groups[g] = append(groups[g], s)
		}
	}
	out := ""
	if _, ok := groups["General"]; !ok {
		out = "General:\n  ConfigurationVersion: 2\n"
	}
	for _, g := range gnames {
		out += g + ":\n"
		if g == "General" {
			out += "  ConfigurationVersion: 2\n"
		}
		out += strings.Join(groups[g], "")
	}
	return out
}

func c29CoqVal(v c29Val) string {
	switch {
	case v.S != nil:
		return cq.App("VStr", cq.Str(*v.S))
	case v.M != nil:
		keys := make([]string, 0, len(v.M))
		for k := range v.M {
			keys = append(keys, k)
		}
		sort.Strings(keys)
		var ps []string
		for _, k := range keys {
			ps = append(ps, cq.Pair(cq.Str(k), cq.Str(v.M[k])))
		}
		return cq.App("VMap", cq.List(ps))
	default:
		return cq.App("VList", cq.ListStr(v.L))
	}
}

func c29Observe(c config.Config, path string) (c29Val, error) {
	v := reflect.ValueOf(config.VerifC29MainConfig(c)).Elem()
	t := v.Type()
	for _, part := range strings.Split(path, ".") {
		found := false
		for i := 0; i < t.NumField(); i++ {
			name := strings.Split(t.Field(i).Tag.Get("yaml"), ",")[0]
			if name == "" {
				name = t.Field(i).Name
			}
			if name == part {
				v = v.Field(i)
				t = v.Type()
				found = true
				break
			}
		}
		if !found {
			return c29Val{}, fmt.Errorf("C29: no setting %s", path)
		}
	}
	switch x := v.Interface().(type) {
	case string:
		return c29Str(x), nil
	case []string:
		if x == nil {
			x = []string{}
		}
		return c29Val{L: append([]string{}, x...)}, nil
	case map[string]string:
		m := map[string]string{}
		for k, e := range x {
			m[k] = e
		}
		return c29Val{M: m}, nil
	}
	return c29Val{}, fmt.Errorf("C29: setting %s has unsupported type %s", path, t)
}

func c29Run(raw json.RawMessage) (Case, error) {
	if err := c29Init(); err != nil {
		return Case{}, err
	}
	var in c29Input
	if err := json.Unmarshal(raw, &in); err != nil {
		return Case{}, err
	}
	dir, err := os.MkdirTemp(".", "c29-")
	if err != nil {
		return Case{}, err
	}
	defer os.RemoveAll(dir)
	var setEnv []string
	setenv := func(k, v string) {
		os.Setenv(k, v)
		setEnv = append(setEnv, k)
	}
	defer func() {
		for _, k := range setEnv {
			os.Unsetenv(k)
		}
	}()
	for k, v := range in.Vars {
		setenv(k, v)
	}
	var varTerms []string
	vkeys := make([]string, 0, len(in.Vars))
	for k := range in.Vars {
		vkeys = append(vkeys, k)
	}
	sort.Strings(vkeys)
	for _, k := range vkeys {
		varTerms = append(varTerms, cq.Pair(cq.Str(k), cq.Str(in.Vars[k])))
	}
	emptySettings := "[]"
	noDoc := `("", "", false)`
	noChoice := `([], "", false)`
	mk := func(kind int, settings, doc, choice string) string {
		return fmt.Sprintf("{| c_kind := %s; c_vars := %s; c_settings := %s; c_doc := %s; c_choice := %s |}", cq.N(uint64(kind)), cq.List(varTerms), settings, doc, choice)
	}

	switch in.Kind {
	case "doc":
		s := c29Find(in.DocPath)
		if s == nil {
			return Case{}, fmt.Errorf("C29: unknown setting %s", in.DocPath)
		}
		val := "0.0.0.0:7777"
		if !strings.Contains(in.DocPath, "ListenAddr") {
			val = "docvalue7xxxxxxxxxxxxx"
			if strings.Contains(in.DocPath, "HoneycombAPI") {
				val = "https://doc.example.com"
			}
			if strings.Contains(in.DocPath, "Host") {
				val = "dochost:6379"
			}
		}
		setenv(in.DocEnv, val)
		c, err := c29Load(dir, []string{c29Yaml(map[string]c29Val{})}, nil)
		if c == nil {
			return Case{}, fmt.Errorf("C29: doc case rejected: %v", err)
		}
		got, err := c29Observe(c, in.DocPath)
		if err != nil {
			return Case{}, err
		}
		applied := got.S != nil && *got.S == val
		coq := mk(1, emptySettings, fmt.Sprintf("(%s, %s, %s)", cq.Str(in.DocPath), cq.Str(in.DocEnv), cq.Bool(applied)), noChoice)
		return Case{Coq: coq, Key: "doc|" + in.DocPath + "|" + in.DocEnv, Nontriv: true, Tags: []string{"kind:doc", "doc-env:" + in.DocEnv},
			Summary: map[string]any{"kind": "doc", "setting": in.DocPath, "env": in.DocEnv, "applied": applied}}, nil

	case "choice":
		meta, err := config.LoadConfigMetadata()
		if err != nil {
			return Case{}, err
		}
		var choices []string
		g, f, _ := strings.Cut(in.ChoicePath, ".")
		for _, grp := range meta.Groups {
			if grp.Name == g {
				for _, fld := range grp.Fields {
					if fld.Name == f {
						choices = fld.Choices
					}
				}
			}
		}
		if len(choices) == 0 {
			return Case{}, fmt.Errorf("C29: %s has no choices in the metadata", in.ChoicePath)
		}
		file := map[string]c29Val{in.ChoicePath: c29Str(in.ChoiceRaw)}
		if g == "AccessKeys" {
			file["AccessKeys.SendKey"] = c29Str("sendkey1xxxxxxxxxxxxxx")
		}
		c, _ := c29Load(dir, []string{c29Yaml(file)}, nil)
		accepted := c != nil
		applied := ""
		if accepted {
			got, err := c29Observe(c, in.ChoicePath)
			if err != nil {
				return Case{}, err
			}
			applied = *got.S
		}
		coq := mk(2, cq.List([]string{fmt.Sprintf("{| os_path := %s; os_cmd := []; os_files := [Some %s]; os_observed := %s |}",
			cq.Str(in.ChoicePath), c29CoqVal(c29Str(in.ChoiceRaw)), c29CoqVal(c29Str(applied)))}), noDoc,
			fmt.Sprintf("(%s, %s, %s)", cq.ListStr(choices), cq.Str(in.ChoiceRaw), cq.Bool(accepted)))
		tags := []string{"kind:choice", "choice:" + in.ChoicePath}
		if strings.Contains(in.ChoiceRaw, "${") {
			tags = append(tags, "choice-through-env-var")
		}
		return Case{Coq: coq, Key: "choice|" + in.ChoicePath + "|" + in.ChoiceRaw + fmt.Sprint(in.Vars), Nontriv: strings.Contains(in.ChoiceRaw, "${"), Tags: tags,
			Summary: map[string]any{"kind": "choice", "setting": in.ChoicePath, "raw": in.ChoiceRaw, "vars": in.Vars, "accepted": accepted, "applied": applied}}, nil
	}

	// resolve
	var files []string
	for _, f := range in.Files {
		files = append(files, c29Yaml(f))
	}
	var args []string
	fkeys := make([]string, 0, len(in.Flags))
	for k := range in.Flags {
		fkeys = append(fkeys, k)
	}
	sort.Strings(fkeys)
	for _, k := range fkeys {
		o, ok := c29Opts[k]
		if !ok {
			return Case{}, fmt.Errorf("C29: unknown option %s", k)
		}
		for _, v := range in.Flags[k] {
			args = append(args, "--"+o.long+"="+v)
		}
	}
	for k, vs := range in.Envs {
		o, ok := c29Opts[k]
		if !ok {
			return Case{}, fmt.Errorf("C29: unknown option %s", k)
		}
		d := o.delim
		if d == "" {
			d = ","
		}
		setenv(o.env, strings.Join(vs, d))
	}
	c, err := c29Load(dir, files, args)
	if c == nil {
		// the generated combination is not a valid configuration: nothing to observe
		coq := mk(0, emptySettings, noDoc, noChoice)
		return Case{Coq: coq, Key: "rejected|" + string(raw), Nontriv: false, Tags: []string{"kind:resolve", "rejected-by-validation"},
			Summary: map[string]any{"kind": "resolve", "rejected": fmt.Sprint(err)}}, nil
	}
	tags := map[string]bool{"kind:resolve": true, fmt.Sprintf("files:%d", len(in.Files)): true}
	var settings []string
	var human []string
	nontriv := false
	for _, p := range in.Paths {
		s := c29Find(p)
		if s == nil {
			return Case{}, fmt.Errorf("C29: unknown setting %s", p)
		}
		got, err := c29Observe(c, p)
		if err != nil {
			return Case{}, err
		}
		var cmd []string
		srcs := 0
		for _, tag := range s.tags {
			fl, en := "None", "None"
			o := c29Opts[tag]
			if v, ok := in.Flags[tag]; ok {
				if o.isList {
					fl = cq.Some(c29CoqVal(c29Val{L: v}))
				} else {
					fl = cq.Some(c29CoqVal(c29Str(v[0])))
				}
				tags["source:flag"] = true
				srcs++
			}
			if v, ok := in.Envs[tag]; ok {
				if o.isList {
					en = cq.Some(c29CoqVal(c29Val{L: v}))
				} else {
					en = cq.Some(c29CoqVal(c29Str(v[0])))
				}
				tags["source:env"] = true
				srcs++
			}
			cmd = append(cmd, cq.Pair(fl, en))
		}
		var fs []string
		for _, f := range in.Files {
			if v, ok := f[p]; ok {
				fs = append(fs, cq.Some(c29CoqVal(v)))
				tags["source:file"] = true
				srcs++
			} else {
				fs = append(fs, "None")
			}
		}
		if srcs == 0 {
			tags["source:default-only"] = true
		}
		if srcs > 1 {
			nontriv = true
			tags["competing-sources"] = true
		}
		settings = append(settings, fmt.Sprintf("{| os_path := %s; os_cmd := %s; os_files := %s; os_observed := %s |}", cq.Str(p), cq.List(cmd), cq.List(fs), c29CoqVal(got)))
		human = append(human, fmt.Sprintf("%s = %s (sources: cmd %v files %v)", p, c29CoqVal(got), cmd, fs))
	}
	if strings.Contains(string(raw), "${") {
		tags["env-reference"] = true
		nontriv = true
	}
	var tl []string
	for t := range tags {
		tl = append(tl, t)
	}
	sort.Strings(tl)
	return Case{Coq: mk(0, cq.List(settings), noDoc, noChoice), Key: string(raw), Nontriv: nontriv, Tags: tl,
		Summary: map[string]any{"kind": "resolve", "vars": in.Vars, "flags": in.Flags, "envs": in.Envs, "settings": human}}, nil
}

func c29Shrink(raw json.RawMessage) []json.RawMessage {
	var in c29Input
	if json.Unmarshal(raw, &in) != nil || in.Kind != "resolve" {
		return nil
	}
	var out []json.RawMessage
	emit := func(c c29Input) {
		b, _ := json.Marshal(c)
		out = append(out, b)
	}
	for i := range in.Paths {
		c := in
		c.Paths = append(append([]string{}, in.Paths[:i]...), in.Paths[i+1:]...)
		emit(c)
	}
	for k := range in.Flags {
		c := in
		c.Flags = map[string][]string{}
		for k2, v := range in.Flags {
			if k2 != k {
				c.Flags[k2] = v
			}
		}
		emit(c)
	}
	for k := range in.Envs {
		c := in
		c.Envs = map[string][]string{}
		for k2, v := range in.Envs {
			if k2 != k {
				c.Envs[k2] = v
			}
		}
		emit(c)
	}
	for i := range in.Files {
		for p := range in.Files[i] {
			c := in
			c.Files = nil
			for j, f := range in.Files {
				nf := map[string]c29Val{}
				for p2, v := range f {
					if !(j == i && p2 == p) {
						nf[p2] = v
					}
				}
				c.Files = append(c.Files, nf)
			}
			emit(c)
		}
	}
	return out
}
