package drive

// Family route2: a msgpack / JSON value AST with an encoder that can pick every legal width, an
// independent strict decoder (it does NOT use tinylib/msgp or vmihailenco, the libraries under test
// conflate ext 5 and ext -1), and the Gallina printer for Model/Payload.v's [value].

import (
	"encoding/binary"
	"fmt"
	"math"
	"sort"
	"strconv"
	"strings"
	"unicode/utf8"

	cq "github.com/honeycombio/refinery/verifharness/coqfmt"
)

// mpVal is one value. T: nil bool int uint f32 f64 str bin time ext arr map.
type mpVal struct {
	T    string    `json:"t"`
	B    bool      `json:"b,omitempty"`
	I    int64     `json:"i,omitempty"`    // int value; ext type
	U    uint64    `json:"u,omitempty"`    // uint value; f32 / f64 bit pattern
	S    []byte    `json:"s,omitempty"`    // str / bin / ext bytes
	Sec  int64     `json:"sec,omitempty"`  // time
	Nsec uint32    `json:"nsec,omitempty"` // time
	W    int       `json:"w,omitempty"`    // width hint for the msgpack encoder (0 = smallest)
	Num  string    `json:"num,omitempty"`  // JSON paths: the number text sent (U holds the expected f64 bits)
	Esc  int       `json:"esc,omitempty"`  // JSON paths: escaping style of strings
	A    []mpVal   `json:"a,omitempty"`
	M    []mpField `json:"m,omitempty"`
}

type mpField struct {
	K   []byte `json:"k"`
	Bin bool   `json:"bin,omitempty"` // key written as bin instead of str (msgpack only)
	V   mpVal  `json:"v"`
}

// ---------------------------------------------------------------- msgpack encoder
func mpAppendStrHdr(b []byte, n int, bin bool, w int) []byte {
	if bin {
		switch {
		case n <= 0xff && w <= 1:
			return append(b, 0xc4, byte(n))
		case n <= 0xffff && w <= 2:
			return append(b, 0xc5, byte(n>>8), byte(n))
		default:
			return append(b, 0xc6, byte(n>>24), byte(n>>16), byte(n>>8), byte(n))
		}
	}
	switch {
	case n <= 31 && w == 0:
		return append(b, 0xa0|byte(n))
	case n <= 0xff && w <= 1:
		return append(b, 0xd9, byte(n))
	case n <= 0xffff && w <= 2:
		return append(b, 0xda, byte(n>>8), byte(n))
	default:
		return append(b, 0xdb, byte(n>>24), byte(n>>16), byte(n>>8), byte(n))
	}
}

func mpAppendCountHdr(b []byte, n int, isMap bool, w int) []byte {
	fix, c16, c32 := byte(0x90), byte(0xdc), byte(0xdd)
	if isMap {
		fix, c16, c32 = 0x80, 0xde, 0xdf
	}
	switch {
	case n <= 15 && w == 0:
		return append(b, fix|byte(n))
	case n <= 0xffff && w <= 2:
		return append(b, c16, byte(n>>8), byte(n))
	default:
		return append(b, c32, byte(n>>24), byte(n>>16), byte(n>>8), byte(n))
	}
}

func mpEncode(b []byte, v mpVal) []byte {
	switch v.T {
	case "nil":
		return append(b, 0xc0)
	case "bool":
		if v.B {
			return append(b, 0xc3)
		}
		return append(b, 0xc2)
	case "int":
		i := v.I
		switch {
		case v.W == 0 && i >= -32 && i <= 127:
			return append(b, byte(int8(i)))
		case v.W <= 1 && i >= math.MinInt8 && i <= math.MaxInt8:
			return append(b, 0xd0, byte(int8(i)))
		case v.W <= 2 && i >= math.MinInt16 && i <= math.MaxInt16:
			return append(b, 0xd1, byte(i>>8), byte(i))
		case v.W <= 4 && i >= math.MinInt32 && i <= math.MaxInt32:
			return append(b, 0xd2, byte(i>>24), byte(i>>16), byte(i>>8), byte(i))
		default:
			b = append(b, 0xd3)
			return binary.BigEndian.AppendUint64(b, uint64(i))
		}
	case "uint":
		u := v.U
		switch {
		case v.W <= 1 && u <= math.MaxUint8:
			return append(b, 0xcc, byte(u))
		case v.W <= 2 && u <= math.MaxUint16:
			return append(b, 0xcd, byte(u>>8), byte(u))
		case v.W <= 4 && u <= math.MaxUint32:
			return append(b, 0xce, byte(u>>24), byte(u>>16), byte(u>>8), byte(u))
		default:
			b = append(b, 0xcf)
			return binary.BigEndian.AppendUint64(b, u)
		}
	case "f32":
		b = append(b, 0xca)
		return binary.BigEndian.AppendUint32(b, uint32(v.U))
	case "f64":
		b = append(b, 0xcb)
		return binary.BigEndian.AppendUint64(b, v.U)
	case "str":
		b = mpAppendStrHdr(b, len(v.S), false, v.W)
		return append(b, v.S...)
	case "bin":
		b = mpAppendStrHdr(b, len(v.S), true, v.W)
		return append(b, v.S...)
	case "time":
		switch {
		case v.W <= 4 && v.Nsec == 0 && v.Sec >= 0 && v.Sec <= math.MaxUint32:
			b = append(b, 0xd6, 0xff)
			return binary.BigEndian.AppendUint32(b, uint32(v.Sec))
		case v.W <= 8 && v.Sec >= 0 && v.Sec < 1<<34:
			b = append(b, 0xd7, 0xff)
			return binary.BigEndian.AppendUint64(b, uint64(v.Nsec)<<34|uint64(v.Sec))
		default:
			b = append(b, 0xc7, 12, 0xff)
			b = binary.BigEndian.AppendUint32(b, v.Nsec)
			return binary.BigEndian.AppendUint64(b, uint64(v.Sec))
		}
	case "ext":
		n := len(v.S)
		switch n {
		case 1:
			b = append(b, 0xd4, byte(int8(v.I)))
		case 2:
			b = append(b, 0xd5, byte(int8(v.I)))
		case 4:
			b = append(b, 0xd6, byte(int8(v.I)))
		case 8:
			b = append(b, 0xd7, byte(int8(v.I)))
		case 16:
			b = append(b, 0xd8, byte(int8(v.I)))
		default:
			b = append(b, 0xc7, byte(n), byte(int8(v.I)))
		}
		return append(b, v.S...)
	case "arr":
		b = mpAppendCountHdr(b, len(v.A), false, v.W)
		for _, e := range v.A {
			b = mpEncode(b, e)
		}
		return b
	case "map":
		return mpEncodeMap(b, v.M, v.W)
	}
	panic("mpEncode: bad type " + v.T)
}

func mpEncodeMap(b []byte, m []mpField, w int) []byte {
	b = mpAppendCountHdr(b, len(m), true, w)
	for _, f := range m {
		b = mpAppendStrHdr(b, len(f.K), f.Bin, 0)
		b = append(b, f.K...)
		b = mpEncode(b, f.V)
	}
	return b
}

// ---------------------------------------------------------------- strict msgpack decoder
type mpDecErr struct{ msg string }

func (e mpDecErr) Error() string { return e.msg }

func mpNeed(b []byte, n int) error {
	if len(b) < n {
		return mpDecErr{"short input"}
	}
	return nil
}

// mpDecode reads one value and returns the rest.
func mpDecode(b []byte) (mpVal, []byte, error) {
	if len(b) == 0 {
		return mpVal{}, nil, mpDecErr{"empty"}
	}
	c := b[0]
	rd := func(n int) (uint64, error) {
		if err := mpNeed(b, 1+n); err != nil {
			return 0, err
		}
		var u uint64
		for i := 0; i < n; i++ {
			u = u<<8 | uint64(b[1+i])
		}
		return u, nil
	}
	bytesOf := func(hdr, n int, t string) (mpVal, []byte, error) {
		if err := mpNeed(b, hdr+n); err != nil {
			return mpVal{}, nil, err
		}
		return mpVal{T: t, S: append([]byte{}, b[hdr:hdr+n]...)}, b[hdr+n:], nil
	}
	ext := func(hdr, n int, ty int8) (mpVal, []byte, error) {
		if err := mpNeed(b, hdr+n); err != nil {
			return mpVal{}, nil, err
		}
		d := b[hdr : hdr+n]
		rest := b[hdr+n:]
		if ty == -1 {
			switch n {
			case 4:
				return mpVal{T: "time", Sec: int64(binary.BigEndian.Uint32(d))}, rest, nil
			case 8:
				u := binary.BigEndian.Uint64(d)
				return mpVal{T: "time", Sec: int64(u & (1<<34 - 1)), Nsec: uint32(u >> 34)}, rest, nil
			case 12:
				return mpVal{T: "time", Nsec: binary.BigEndian.Uint32(d), Sec: int64(binary.BigEndian.Uint64(d[4:]))}, rest, nil
			}
		}
		return mpVal{T: "ext", I: int64(ty), S: append([]byte{}, d...)}, rest, nil
	}
	seq := func(n int, rest []byte, isMap bool) (mpVal, []byte, error) {
		if isMap {
			out := mpVal{T: "map"}
			for i := 0; i < n; i++ {
				k, r, err := mpDecode(rest)
				if err != nil {
					return mpVal{}, nil, err
				}
				if k.T != "str" && k.T != "bin" {
					return mpVal{}, nil, mpDecErr{"map key is " + k.T}
				}
				v, r2, err := mpDecode(r)
				if err != nil {
					return mpVal{}, nil, err
				}
				out.M = append(out.M, mpField{K: k.S, Bin: k.T == "bin", V: v})
				rest = r2
			}
			return out, rest, nil
		}
		out := mpVal{T: "arr"}
		for i := 0; i < n; i++ {
			v, r, err := mpDecode(rest)
			if err != nil {
				return mpVal{}, nil, err
			}
			out.A = append(out.A, v)
			rest = r
		}
		return out, rest, nil
	}
	switch {
	case c <= 0x7f:
		return mpVal{T: "int", I: int64(c)}, b[1:], nil
	case c >= 0xe0:
		return mpVal{T: "int", I: int64(int8(c))}, b[1:], nil
	case c >= 0xa0 && c <= 0xbf:
		return bytesOf(1, int(c&0x1f), "str")
	case c >= 0x90 && c <= 0x9f:
		return seq(int(c&0x0f), b[1:], false)
	case c >= 0x80 && c <= 0x8f:
		return seq(int(c&0x0f), b[1:], true)
	}
	switch c {
	case 0xc0:
		return mpVal{T: "nil"}, b[1:], nil
	case 0xc2:
		return mpVal{T: "bool"}, b[1:], nil
	case 0xc3:
		return mpVal{T: "bool", B: true}, b[1:], nil
	case 0xc4, 0xc5, 0xc6, 0xd9, 0xda, 0xdb:
		w := map[byte]int{0xc4: 1, 0xc5: 2, 0xc6: 4, 0xd9: 1, 0xda: 2, 0xdb: 4}[c]
		n, err := rd(w)
		if err != nil {
			return mpVal{}, nil, err
		}
		t := "str"
		if c <= 0xc6 {
			t = "bin"
		}
		return bytesOf(1+w, int(n), t)
	case 0xca:
		u, err := rd(4)
		if err != nil {
			return mpVal{}, nil, err
		}
		return mpVal{T: "f32", U: u}, b[5:], nil
	case 0xcb:
		u, err := rd(8)
		if err != nil {
			return mpVal{}, nil, err
		}
		return mpVal{T: "f64", U: u}, b[9:], nil
	case 0xcc, 0xcd, 0xce, 0xcf:
		w := 1 << (c - 0xcc)
		u, err := rd(w)
		if err != nil {
			return mpVal{}, nil, err
		}
		return mpVal{T: "uint", U: u}, b[1+w:], nil
	case 0xd0, 0xd1, 0xd2, 0xd3:
		w := 1 << (c - 0xd0)
		u, err := rd(w)
		if err != nil {
			return mpVal{}, nil, err
		}
		var i int64
		switch w {
		case 1:
			i = int64(int8(u))
		case 2:
			i = int64(int16(u))
		case 4:
			i = int64(int32(u))
		default:
			i = int64(u)
		}
		return mpVal{T: "int", I: i}, b[1+w:], nil
	case 0xd4, 0xd5, 0xd6, 0xd7, 0xd8:
		n := 1 << (c - 0xd4)
		if err := mpNeed(b, 2); err != nil {
			return mpVal{}, nil, err
		}
		return ext(2, n, int8(b[1]))
	case 0xc7, 0xc8, 0xc9:
		w := 1 << (c - 0xc7)
		n, err := rd(w)
		if err != nil {
			return mpVal{}, nil, err
		}
		if err := mpNeed(b, 2+w); err != nil {
			return mpVal{}, nil, err
		}
		return ext(2+w, int(n), int8(b[1+w]))
	case 0xdc, 0xdd:
		w := 2 << (c - 0xdc)
		n, err := rd(w)
		if err != nil {
			return mpVal{}, nil, err
		}
		return seq(int(n), b[1+w:], false)
	case 0xde, 0xdf:
		w := 2 << (c - 0xde)
		n, err := rd(w)
		if err != nil {
			return mpVal{}, nil, err
		}
		return seq(int(n), b[1+w:], true)
	}
	return mpVal{}, nil, mpDecErr{fmt.Sprintf("bad code %#x", c)}
}

// ---------------------------------------------------------------- JSON encoder (client side)
func jsonEscape(s []byte, style int) string {
	var sb strings.Builder
	sb.WriteByte('"')
	for i := 0; i < len(s); {
		r, n := utf8.DecodeRune(s[i:])
		switch {
		case r == '"' || r == '\\':
			sb.WriteByte('\\')
			sb.WriteRune(r)
		case r == '/' && style == 2:
			sb.WriteString(`\/`)
		case r == '\n' && style != 1:
			sb.WriteString(`\n`)
		case r == '\t' && style != 1:
			sb.WriteString(`\t`)
		case r < 0x20 || r == 0x7f:
			fmt.Fprintf(&sb, `\u%04x`, r)
		case style == 1 && r < 0x10000 && (r > 0x7e || r == '<'):
			fmt.Fprintf(&sb, `\u%04X`, r)
		case style == 2 && r >= 0x10000:
			r1, r2 := (r-0x10000)>>10+0xd800, (r-0x10000)&0x3ff+0xdc00
			fmt.Fprintf(&sb, `\u%04x\u%04x`, r1, r2)
		default:
			sb.Write(s[i : i+n])
		}
		i += n
	}
	sb.WriteByte('"')
	return sb.String()
}

func jsonEncode(sb *strings.Builder, v mpVal) {
	switch v.T {
	case "nil":
		sb.WriteString("null")
	case "bool":
		sb.WriteString(strconv.FormatBool(v.B))
	case "f64":
		sb.WriteString(v.Num)
	case "str":
		sb.WriteString(jsonEscape(v.S, v.Esc))
	case "arr":
		sb.WriteByte('[')
		for i, e := range v.A {
			if i > 0 {
				sb.WriteByte(',')
			}
			jsonEncode(sb, e)
		}
		sb.WriteByte(']')
	case "map":
		sb.WriteByte('{')
		for i, f := range v.M {
			if i > 0 {
				sb.WriteString(", ")
			}
			sb.WriteString(jsonEscape(f.K, v.Esc))
			sb.WriteString(": ")
			jsonEncode(sb, f.V)
		}
		sb.WriteByte('}')
	default:
		panic("jsonEncode: value of type " + v.T + " has no JSON form")
	}
}

// ---------------------------------------------------------------- Gallina printer
func mpCoq(v mpVal) string {
	switch v.T {
	case "nil":
		return "VNil"
	case "bool":
		return cq.App("VBool", cq.Bool(v.B))
	case "int":
		return cq.App("VInt", cq.Z(v.I))
	case "uint":
		return cq.App("VUint", cq.N(v.U))
	case "f32":
		return cq.App("VF32", cq.N(v.U))
	case "f64":
		return cq.App("VF64", cq.N(v.U))
	case "str":
		return cq.App("VStr", cq.Str(string(v.S)))
	case "bin":
		return cq.App("VBin", cq.Str(string(v.S)))
	case "time":
		return cq.App("VTime", cq.Z(v.Sec), cq.N(uint64(v.Nsec)))
	case "ext":
		return cq.App("VExt", cq.Z(v.I), cq.Str(string(v.S)))
	case "arr":
		xs := make([]string, len(v.A))
		for i, e := range v.A {
			xs[i] = mpCoq(e)
		}
		return cq.App("VArr", cq.List(xs))
	case "map":
		return cq.App("VMap", mpCoqFields(v.M))
	}
	panic("mpCoq: bad type " + v.T)
}

func mpCoqFields(m []mpField) string {
	xs := make([]string, len(m))
	for i, f := range m {
		xs[i] = cq.Pair(cq.Str(string(f.K)), mpCoq(f.V))
	}
	return cq.List(xs)
}

// float32 bit patterns occurring anywhere in v, with Go's exact widening
func mpCollectF32(v mpVal, out map[uint64]uint64) {
	switch v.T {
	case "f32":
		out[v.U] = math.Float64bits(float64(math.Float32frombits(uint32(v.U))))
	case "arr":
		for _, e := range v.A {
			mpCollectF32(e, out)
		}
	case "map":
		for _, f := range v.M {
			mpCollectF32(f.V, out)
		}
	}
}

func mpWidenCoq(t map[uint64]uint64) string {
	ks := make([]uint64, 0, len(t))
	for k := range t {
		ks = append(ks, k)
	}
	sort.Slice(ks, func(i, j int) bool { return ks[i] < ks[j] })
	xs := make([]string, len(ks))
	for i, k := range ks {
		xs[i] = cq.Pair(cq.N(k), cq.N(t[k]))
	}
	return cq.List(xs)
}

// short human-readable rendering for evidence samples / replays
func mpShow(v mpVal) string {
	switch v.T {
	case "nil":
		return "nil"
	case "bool":
		return strconv.FormatBool(v.B)
	case "int":
		return fmt.Sprintf("int(%d)", v.I)
	case "uint":
		return fmt.Sprintf("uint(%d)", v.U)
	case "f32":
		return fmt.Sprintf("f32(%v)", math.Float32frombits(uint32(v.U)))
	case "f64":
		if v.Num != "" {
			return "num(" + v.Num + ")"
		}
		return fmt.Sprintf("f64(%v)", math.Float64frombits(v.U))
	case "str":
		return fmt.Sprintf("str(%q)", trunc(string(v.S)))
	case "bin":
		return fmt.Sprintf("bin(%q)", trunc(string(v.S)))
	case "time":
		return fmt.Sprintf("time(%d,%d)", v.Sec, v.Nsec)
	case "ext":
		return fmt.Sprintf("ext(%d,%x)", v.I, v.S)
	case "arr":
		xs := make([]string, len(v.A))
		for i, e := range v.A {
			xs[i] = mpShow(e)
		}
		return "[" + strings.Join(xs, ",") + "]"
	case "map":
		return mpShowFields(v.M)
	}
	return "?"
}

func mpShowFields(m []mpField) string {
	xs := make([]string, len(m))
	for i, f := range m {
		xs[i] = fmt.Sprintf("%q:%s", trunc(string(f.K)), mpShow(f.V))
	}
	return "{" + strings.Join(xs, ", ") + "}"
}

func trunc(s string) string {
	if len(s) > 40 {
		return s[:37] + "..."
	}
	return s
}
