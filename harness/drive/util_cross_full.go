package drive

// A full in-process refinery node for the "cross" family: real routers, sharder, InMemCollector,
// StressRelief, upstream and peer DirectTransmission, wired with the same inject graph the
// application uses. Transmissions run on FakeClocks so batch dispatch is an explicit step.

import (
	"bytes"
	"fmt"
	"io"
	"net/http"
	"strings"
	"sync"
	"time"

	"github.com/facebookgo/inject"
	"github.com/facebookgo/startstop"
	"github.com/jonboulle/clockwork"
	"github.com/vmihailenco/msgpack/v5"
	"go.opentelemetry.io/otel/trace/noop"

	"github.com/honeycombio/refinery/collect"
	"github.com/honeycombio/refinery/config"
	"github.com/honeycombio/refinery/internal/health"
	"github.com/honeycombio/refinery/internal/peer"
	"github.com/honeycombio/refinery/logger"
	"github.com/honeycombio/refinery/metrics"
	"github.com/honeycombio/refinery/pubsub"
	"github.com/honeycombio/refinery/route"
	"github.com/honeycombio/refinery/sample"
	"github.com/honeycombio/refinery/sharder"
	"github.com/honeycombio/refinery/transmit"
	"github.com/honeycombio/refinery/types"
)

const crossLegacyKey2 = "abcdef0123456789abcdef0123456789"

type crossFullNode struct {
	Addr      string
	Cfg       *config.MockConfig
	Metrics   *metrics.MockMetrics
	Collector *collect.InMemCollector
	Stress    *collect.StressRelief
	Sharder   *sharder.DeterministicSharder
	UpTx      *transmit.DirectTransmission
	PeerTx    *transmit.DirectTransmission
	UpClock   *clockwork.FakeClock
	PeerClock *clockwork.FakeClock
	CollClock *clockwork.FakeClock
	UpLog     []crossHop
	PeerLog   []crossHop
	Mu        sync.Mutex
	Incoming  *route.Router
	PeerR     *route.Router
	inH       http.Handler
	peerH     http.Handler
	objs      []*inject.Object
	stops     []func()
}

type crossFullOpts struct {
	Addr         string
	PeerList     []string
	Net          *crossMemNet
	Cfg          *config.MockConfig
	CfgAny       config.Config // a real (file) configuration instead of the mock; SetStress is then unavailable
	Origin       string        // value prefix of the X-Verif-Origin header on outgoing batches
	BatchTimeout time.Duration
	MaxBatch     int
	RealClocks   bool // transmissions on the real clock (batches go out by themselves)
}

func crossFullCfg() *config.MockConfig {
	c := crossDefaultCfg()
	c.GetCollectionConfigVal = config.CollectionConfig{
		WorkerCount: 2, ShutdownDelay: config.Duration(100 * time.Millisecond),
		HealthCheckTimeout: config.Duration(3 * time.Second), IncomingQueueSize: 3000, PeerQueueSize: 3000,
	}
	c.SampleCache = config.SampleCacheConfig{KeptSize: 1000, DroppedSize: 10000, SizeCheckInterval: config.Duration(10 * time.Second)}
	c.GetSamplerTypeVal = &config.DeterministicSamplerConfig{SampleRate: 1}
	c.AddRuleReasonToTrace = true
	c.StressRelief = config.StressReliefConfig{Mode: "never", ActivationLevel: 90, DeactivationLevel: 75, SamplingRate: 2,
		MinimumActivationDuration: config.Duration(time.Second)}
	return c
}

func crossStartFullNode(o crossFullOpts) (*crossFullNode, error) {
	n := &crossFullNode{Addr: o.Addr, Cfg: o.Cfg}
	if n.Cfg == nil {
		n.Cfg = crossFullCfg()
	}
	bt := o.BatchTimeout
	if bt == 0 {
		bt = time.Second
	}
	mb := o.MaxBatch
	if mb == 0 {
		mb = 500
	}
	var cfgObj any = n.Cfg
	if o.CfgAny != nil {
		cfgObj = o.CfgAny
	}
	n.Metrics = &metrics.MockMetrics{}
	n.Metrics.Start()
	t0 := time.Unix(1_700_000_000, 0)
	n.UpClock, n.PeerClock, n.CollClock = clockwork.NewFakeClockAt(t0), clockwork.NewFakeClockAt(t0), clockwork.NewFakeClockAt(t0)
	n.UpTx = transmit.NewDirectTransmission(types.TransmitTypeUpstream, o.Net.Transport(), mb, bt, 2*time.Second, false,
		map[string]string{"X-Verif-Origin": o.Origin + "/upstream"})
	n.PeerTx = transmit.NewDirectTransmission(types.TransmitTypePeer, o.Net.Transport(), mb, bt, 2*time.Second, false,
		map[string]string{"X-Verif-Origin": o.Origin + "/peer"})
	if !o.RealClocks {
		n.UpTx.Clock, n.PeerTx.Clock = n.UpClock, n.PeerClock
	}
	upRec := &crossRecTx{Node: o.Addr, Inner: n.UpTx, mu: &n.Mu, log: &n.UpLog}
	peerRec := &crossRecTx{Node: o.Addr, Inner: n.PeerTx, mu: &n.Mu, log: &n.PeerLog}
	n.Collector = &collect.InMemCollector{}
	n.Stress = &collect.StressRelief{Done: make(chan struct{})}
	n.Sharder = &sharder.DeterministicSharder{}
	n.Incoming, n.PeerR = &route.Router{}, &route.Router{}
	var clk clockwork.Clock = n.CollClock
	objs := []*inject.Object{
		{Value: cfgObj},
		{Value: peer.NewMockPeers(o.PeerList, o.Addr)},
		{Value: &logger.NullLogger{}},
		{Value: o.Net.Transport(), Name: "upstreamTransport"},
		{Value: upRec, Name: "upstreamTransmission"},
		{Value: peerRec, Name: "peerTransmission"},
		{Value: n.UpTx, Name: "verifUpstreamInner"},
		{Value: n.PeerTx, Name: "verifPeerInner"},
		{Value: n.Sharder},
		{Value: noop.NewTracerProvider().Tracer("verif"), Name: "tracer"},
		{Value: n.Collector},
		{Value: &pubsub.LocalPubSub{}},
		{Value: n.Metrics, Name: "metrics"},
		{Value: "verif", Name: "version"},
		{Value: &sample.SamplerFactory{}},
		{Value: &health.Health{}},
		{Value: clk},
		{Value: n.Stress, Name: "stressRelief"},
		{Value: n.Incoming, Name: "verifIncomingRouter"},
		{Value: n.PeerR, Name: "verifPeerRouter"},
	}
	var g inject.Graph
	if err := g.Provide(objs...); err != nil {
		return nil, fmt.Errorf("inject provide: %w", err)
	}
	if err := g.Populate(); err != nil {
		return nil, fmt.Errorf("inject populate: %w", err)
	}
	n.objs = g.Objects()
	if err := startstop.Start(n.objs, nil); err != nil {
		return nil, fmt.Errorf("start: %w", err)
	}
	n.stops = append(n.stops, func() { close(n.Stress.Done); startstop.Stop(n.objs, nil) })
	n.Incoming.SetType(types.RouterTypeIncoming)
	n.PeerR.SetType(types.RouterTypePeer)
	n.Incoming.LnS()
	n.PeerR.LnS()
	n.inH = route.VerifC17Handler(n.Incoming)
	ph := route.VerifC17Handler(n.PeerR)
	if n.inH == nil || ph == nil {
		n.Stop()
		return nil, fmt.Errorf("router handler not built")
	}
	n.peerH = ph
	stop, err := o.Net.Serve(o.Addr, ph)
	if err != nil {
		n.Stop()
		return nil, err
	}
	n.stops = append(n.stops, stop)
	return n, nil
}

// PostPeerBatch sends a JSON batch to the node's PEER router handler (as another refinery node would).
func (n *crossFullNode) PostPeerBatch(dataset, apiKey string, evs []crossBatchEvent) (int, string) {
	return crossPostBatch(n.peerH, dataset, apiKey, evs)
}

func (n *crossFullNode) Stop() {
	for i := len(n.stops) - 1; i >= 0; i-- {
		n.stops[i]()
	}
	n.stops = nil
}

func (n *crossFullNode) PostBatch(dataset, apiKey string, evs []crossBatchEvent) (int, string) {
	return crossPostBatch(n.inH, dataset, apiKey, evs)
}

// SetStress switches the REAL StressRelief through its configuration (mode always / never).
func (n *crossFullNode) SetStress(on bool, rate uint64) {
	n.Cfg.Mux.Lock()
	if on {
		n.Cfg.StressRelief.Mode = "always"
	} else {
		n.Cfg.StressRelief.Mode = "never"
	}
	n.Cfg.StressRelief.SamplingRate = rate
	n.Cfg.Mux.Unlock()
	n.Stress.UpdateFromConfig()
	n.Stress.Recalc()
}

func (n *crossFullNode) WaitIdle(timeout time.Duration) bool {
	deadline := time.Now().Add(timeout)
	for time.Now().Before(deadline) {
		if collect.VerifC16SpansWaiting(n.Collector) == 0 {
			return true
		}
		time.Sleep(200 * time.Microsecond)
	}
	return false
}

func (n *crossFullNode) Counter(name string) int64 {
	v, _ := n.Metrics.Get(name)
	return int64(v)
}

// ---------------------------------------------------------------- receiving side

type crossRecvEvent struct {
	Sid      int64
	TraceID  string
	Probe    bool
	Stressed bool
	Late     bool
	Fields   map[string]any // non-meta fields as decoded
}
type crossRecvReq struct {
	Receiver string // who got it
	Origin   string // X-Verif-Origin
	APIKey   string
	Dataset  string
	Events   []crossRecvEvent
	Done     bool
}

type crossRecorder struct {
	mu   sync.Mutex
	reqs []*crossRecvReq
}

func (r *crossRecorder) snapshot() []crossRecvReq {
	r.mu.Lock()
	defer r.mu.Unlock()
	out := make([]crossRecvReq, 0, len(r.reqs))
	for _, q := range r.reqs {
		out = append(out, *q)
	}
	return out
}

// doneEvents counts events of completed requests with the given origin.
func (r *crossRecorder) doneEvents(origin string) int {
	r.mu.Lock()
	defer r.mu.Unlock()
	n := 0
	for _, q := range r.reqs {
		if q.Done && q.Origin == origin {
			n += len(q.Events)
		}
	}
	return n
}

func crossToInt(v any) (int64, bool) {
	switch x := v.(type) {
	case int64:
		return x, true
	case int8:
		return int64(x), true
	case int16:
		return int64(x), true
	case int32:
		return int64(x), true
	case int:
		return int64(x), true
	case uint8:
		return int64(x), true
	case uint16:
		return int64(x), true
	case uint32:
		return int64(x), true
	case uint64:
		return int64(x), true
	case float64:
		return int64(x), true
	}
	return 0, false
}

func crossDecodeBatch(body []byte) ([]crossRecvEvent, error) {
	var raw []map[string]any
	dec := msgpack.NewDecoder(bytes.NewReader(body))
	dec.UseLooseInterfaceDecoding(true)
	if err := dec.Decode(&raw); err != nil {
		return nil, err
	}
	var out []crossRecvEvent
	for _, e := range raw {
		ev := crossRecvEvent{Sid: -1, Fields: map[string]any{}}
		data, _ := e["data"].(map[string]any)
		for k, v := range data {
			switch {
			case k == "sid":
				if i, ok := crossToInt(v); ok {
					ev.Sid = i
				}
				ev.Fields[k] = v
			case k == "trace.trace_id":
				ev.TraceID, _ = v.(string)
				ev.Fields[k] = v
			case k == "meta.refinery.probe":
				ev.Probe, _ = v.(bool)
			case k == "meta.stressed":
				ev.Stressed, _ = v.(bool)
			case k == "meta.refinery.send_reason":
				s, _ := v.(string)
				ev.Late = s == "trace_send_late_span"
			case strings.HasPrefix(k, "meta."):
			default:
				ev.Fields[k] = v
			}
		}
		out = append(out, ev)
	}
	return out, nil
}

// Wrap records every batch request, then lets next handle it (next == nil: answer like the Honeycomb API).
func (r *crossRecorder) Wrap(receiver string, next http.Handler) http.Handler {
	return http.HandlerFunc(func(w http.ResponseWriter, req *http.Request) {
		body, _ := io.ReadAll(req.Body)
		req.Body.Close()
		q := &crossRecvReq{Receiver: receiver, Origin: req.Header.Get("X-Verif-Origin"), APIKey: req.Header.Get("X-Honeycomb-Team")}
		if i := strings.Index(req.URL.Path, "/1/batch/"); i >= 0 {
			q.Dataset = req.URL.Path[i+len("/1/batch/"):]
		}
		evs, err := crossDecodeBatch(body)
		if err == nil {
			q.Events = evs
		}
		r.mu.Lock()
		r.reqs = append(r.reqs, q)
		r.mu.Unlock()
		if next != nil {
			req.Body = io.NopCloser(bytes.NewReader(body))
			next.ServeHTTP(w, req)
		} else {
			w.Header().Set("Content-Type", "application/json")
			w.WriteHeader(200)
			var sb strings.Builder
			sb.WriteString("[")
			for i := range evs {
				if i > 0 {
					sb.WriteString(",")
				}
				sb.WriteString(`{"status":202}`)
			}
			sb.WriteString("]")
			io.WriteString(w, sb.String())
		}
		r.mu.Lock()
		q.Done = true
		r.mu.Unlock()
	})
}

// crossFlush advances the transmission's fake clock until every event enqueued so far (want) has
// arrived, in completed requests, at some recorder.
func crossFlush(clk *clockwork.FakeClock, step time.Duration, want int, got func() int, timeout time.Duration) bool {
	deadline := time.Now().Add(timeout)
	for {
		clk.Advance(step)
		for i := 0; i < 20; i++ {
			if got() >= want {
				return true
			}
			time.Sleep(500 * time.Microsecond)
		}
		if time.Now().After(deadline) {
			return got() >= want
		}
	}
}
