package drive

// C08: the real sample.RulesBasedSampler (Start + GetSampleRate) on generated rule sets and traces.
//
// rand.Intn inside GetSampleRate is made predictable by re-seeding the global source before every
// call (GODEBUG=randseednop=0 re-enables rand.Seed); the value it is going to return for every
// rule's SampleRate is computed with an identically seeded private source and handed to the model
// as the "draw" oracle.  Downstream samplers are DeterministicSamplers; the oracle value for a rule
// is obtained by running an identically configured DeterministicSampler directly on the trace.

import (
	"encoding/json"
	"fmt"
	"math"
	"math/rand"
	"os"
	"strconv"
	"strings"

	"github.com/honeycombio/refinery/config"
	"github.com/honeycombio/refinery/logger"
	"github.com/honeycombio/refinery/metrics"
	"github.com/honeycombio/refinery/sample"
	"github.com/honeycombio/refinery/types"
	cq "github.com/honeycombio/refinery/verifharness/coqfmt"
)

type c08Cond struct {
	Field  string   `json:"field,omitempty"`
	Fields []string `json:"fields,omitempty"`
	Op     string   `json:"op"`
	Val    rvVal    `json:"val"`
	Dt     string   `json:"dt,omitempty"`
}
type c08Rule struct {
	Name    string    `json:"name"`
	Rate    int       `json:"rate"`
	Drop    bool      `json:"drop,omitempty"`
	Scope   string    `json:"scope,omitempty"`
	Conds   []c08Cond `json:"conds,omitempty"`
	Sampler int       `json:"sampler,omitempty"` // 0: none; N>0: downstream DeterministicSampler rate N
}
type c08Field struct {
	K string `json:"k"`
	V rvVal  `json:"v"`
}
type c08Input struct {
	Rules   []c08Rule    `json:"rules"`
	Spans   [][]c08Field `json:"spans"`
	Root    int          `json:"root"` // index of the root span, -1: the trace has no root span
	Seed    int64        `json:"seed"`
	TraceID string       `json:"trace_id"`
}

func init() {
	Register(&Driver{ID: "C08", Gen: c08Gen, Run: c08Run, Shrink: c08Shrink})
}

// ---------------------------------------------------------------- generator
var (
	c08SpanFields = []string{"a", "b", "c", "http.status", "d"}
	c08CondFields = []string{"a", "b", "c", "http.status", "d", "zz", "root.a", "root.b", "root.http.status", "root.zz"}
	c08Ints       = []int64{0, 1, -1, 2, 3, 10, 200, 404, 500, 1 << 53, 1<<53 + 1, 1<<63 - 1, -1 << 63, 1<<62 + 1}
	c08Floats     = []float64{0.5, 1.5, -2.5, 200, 200.5, 1, 0, 3, 1e21, 1e-7, 0.1, 9007199254740992, 9223372036854775808, -9223372036854775808, 1.7976931348623157e308, 404}
	c08Strings    = []string{"", "200", "404", "1.5", "abc", "ab", "b", "true", "false", "1", "0", "t", "<nil>", "007", "+5", "-3", " 5", "1e2", "0x10", "health", "/health/x", "[1 2]", "200.0", "9223372036854775808", "map[k:1]", "T", "a,b", "TrUe", "tRUE", "False"}
	c08Ops        = []string{"=", "!=", ">", "<", ">=", "<=", "starts-with", "contains", "does-not-contain", "exists", "not-exists", "has-root-span", "matches", "in", "not-in"}
	c08Dts        = []string{"", "", "string", "int", "float", "bool"}
	c08Patterns   = []string{"abc", "^ab", "b$", "^200$", "", "^", "health", "^/health", "0", "(", "[a", "*a", "^1", "nil"}
)

func c08PickScalar(r *rand.Rand, forCond bool) rvVal {
	switch x := r.Intn(100); {
	case x < 30:
		if r.Intn(4) == 0 {
			return rvVal{K: "int", I: int64(r.Intn(7)) - 2}
		}
		return rvVal{K: "int", I: c08Ints[r.Intn(len(c08Ints))]}
	case x < 50:
		return rvVal{K: "f", F: c08Floats[r.Intn(len(c08Floats))]}
	case x < 80:
		return rvVal{K: "s", S: c08Strings[r.Intn(len(c08Strings))]}
	case x < 88:
		return rvVal{K: "b", B: r.Intn(2) == 0}
	case x < 94:
		return rvVal{K: "nil"}
	case x < 97:
		if forCond {
			return rvVal{K: "i64", I: c08Ints[r.Intn(len(c08Ints))]}
		}
		switch r.Intn(3) {
		case 0:
			return rvVal{K: "u", I: []int64{0, 1, 2, 200, 404, 1 << 53, 1<<63 - 1}[r.Intn(7)]}
		case 1:
			return rvVal{K: "f32", F: []float64{0, 1, 0.5, 1.5, 200, 0.1, 16777216}[r.Intn(7)]}
		}
		return rvVal{K: "arr", I: 1, S: "2"}
	default:
		return rvVal{K: "map", I: 1}
	}
}

// c08Kin: the same or a neighbouring numeric value in another representation (int <-> float <->
// decimal text), so that cross-type comparisons hit their equality and off-by-one boundaries.
func c08Kin(r *rand.Rand, v rvVal) rvVal {
	x := r.Intn(100)
	if v.K == "u" {
		v = rvVal{K: "int", I: v.I}
	}
	if x < 45 && v.K != "f32" {
		return v
	}
	if v.K == "f32" {
		v = rvVal{K: "f", F: float64(float32(v.F))}
	}
	var n int64
	switch v.K {
	case "int", "i64", "u":
		n = v.I
	case "f":
		if v.F != math.Trunc(v.F) || math.Abs(v.F) > 1<<62 {
			if x < 60 {
				return rvVal{K: "s", S: fmt.Sprintf("%v", v.F)}
			}
			if x < 80 && math.Abs(v.F) < 1<<62 {
				// the integers around it: int(1.5) must be 1, not 2
				return rvVal{K: "int", I: int64(math.Floor(v.F)) + int64(r.Intn(2))}
			}
			return rvVal{K: "f", F: v.F + []float64{0.5, -0.5, 1, -1}[r.Intn(4)]}
		}
		n = int64(v.F)
	case "s":
		k, err := strconv.ParseInt(v.S, 10, 64)
		if err != nil {
			return v
		}
		n = k
	default:
		return v
	}
	if n > -1<<51 && n < 1<<51 && r.Intn(4) == 0 {
		// a non-integral float next to the integer: an int64 field against `< n+0.5`
		return rvVal{K: "f", F: float64(n) + []float64{0.5, -0.5, 1.5, 1e-9, -1e-9, 0.25}[r.Intn(6)]}
	}
	if n > -1<<62 && n < 1<<62 {
		n += []int64{0, 0, 0, 1, -1}[r.Intn(5)]
	}
	switch r.Intn(3) {
	case 0:
		return rvVal{K: "int", I: n}
	case 1:
		if f := float64(n); f != 0 || n == 0 {
			return rvVal{K: "f", F: f}
		}
		return rvVal{K: "int", I: n}
	default:
		return rvVal{K: "s", S: strconv.FormatInt(n, 10)}
	}
}

type c08Pooled struct {
	F string
	V rvVal
}

func c08GenCond(r *rand.Rand, pool []c08Pooled) c08Cond {
	c := c08Cond{Op: c08Ops[r.Intn(len(c08Ops))], Dt: c08Dts[r.Intn(len(c08Dts))]}
	if r.Intn(40) == 0 {
		c.Op = "~="
	}
	if r.Intn(40) == 0 && c.Op != "in" && c.Op != "not-in" {
		c.Dt = "weird" // with in / not-in the Go code panics (nil closure); not a C08 matter
	}
	pickField := func() string {
		if r.Intn(12) == 0 {
			return []string{"?.NUM_DESCENDANTS", "?.OTHER"}[r.Intn(2)]
		}
		return c08CondFields[r.Intn(len(c08CondFields))]
	}
	switch x := r.Intn(100); {
	case x < 55:
		c.Field = pickField()
	case x < 90:
		n := 1 + r.Intn(3)
		for i := 0; i < n; i++ {
			c.Fields = append(c.Fields, pickField())
		}
	case x < 94:
		c.Field = pickField()
		c.Fields = []string{pickField()}
	default: // neither
	}
	if c.Op == "has-root-span" {
		c.Field, c.Fields = "", nil
		switch r.Intn(6) {
		case 0:
			c.Val = rvVal{K: "s", S: []string{"true", "1", "yes", "false", "T", "TrUe", "True"}[r.Intn(7)]}
		case 1:
			c.Val = rvVal{K: "int", I: int64(r.Intn(2))}
		default:
			c.Val = rvVal{K: "b", B: r.Intn(2) == 0}
		}
		return c
	}
	// the condition value: often a value that occurs in the trace, so that rules do match
	aimed := false
	pick := func() rvVal {
		if len(pool) > 0 && r.Intn(100) < 60 {
			pv := pool[r.Intn(len(pool))]
			// aim the condition at the field that holds this value (directly, through root., or
			// as the last of several Fields) so that the comparison is really evaluated
			if !aimed && c.Field != "?.NUM_DESCENDANTS" && r.Intn(100) < 75 {
				aimed = true
				f := pv.F
				if r.Intn(4) == 0 {
					f = "root." + f
				}
				if c.Field != "" && len(c.Fields) == 0 {
					c.Field = f
				} else if len(c.Fields) > 0 && c.Field == "" {
					c.Fields[r.Intn(len(c.Fields))] = f
				}
			}
			v := pv.V
			if v.K == "arr" {
				return rvVal{K: "s", S: "[1 2]"}
			}
			return c08Kin(r, v)
		}
		return c08PickScalar(r, true)
	}
	switch c.Op {
	case "matches":
		c.Val = rvVal{K: "s", S: c08Patterns[r.Intn(len(c08Patterns))]}
		if r.Intn(8) == 0 {
			c.Val = rvVal{K: "int", I: int64([]int{200, 0, 1}[r.Intn(3)])}
		}
	case "in", "not-in":
		if r.Intn(5) == 0 {
			c.Val = pick()
		} else {
			n := r.Intn(4)
			l := rvVal{K: "list", L: []rvVal{}}
			for i := 0; i < n; i++ {
				l.L = append(l.L, pick())
			}
			c.Val = l
		}
	case "?.NUM":
	default:
		c.Val = pick()
		if r.Intn(30) == 0 {
			c.Val = rvVal{K: "list", L: []rvVal{pick(), pick()}}
		}
	}
	if c.Field == "?.NUM_DESCENDANTS" && r.Intn(3) != 0 {
		c.Val = rvVal{K: "int", I: int64(1 + r.Intn(4))}
	}
	return c
}

// c08GenFocused: one condition aimed at one field whose value is known; the condition value is
// chosen RELATIVE to the span value as coerced by the datatype (equal / just below / just above,
// in a random representation), so that every (datatype, operator) arm is exercised at its
// boundary.  One third of all cases.
// c08GenVirtual: the virtual field ?.NUM_DESCENDANTS compared with the span count itself and its
// neighbours, in every representation and datatype; also named inside Fields, where it is NOT
// virtual (GetComputedField only looks at Field).
func c08GenVirtual(r *rand.Rand) c08Input {
	in := c08Input{Seed: int64(1 + r.Intn(1_000_000)), TraceID: fmt.Sprintf("trace-%d", r.Intn(1000)), Root: -1}
	n := 1 + r.Intn(5)
	for k := 0; k < n; k++ {
		var sp []c08Field
		if r.Intn(2) == 0 {
			sp = append(sp, c08Field{K: "a", V: c08PickScalar(r, false)})
		}
		in.Spans = append(in.Spans, sp)
	}
	if r.Intn(2) == 0 {
		in.Root = r.Intn(n)
	}
	want := int64(n + r.Intn(3) - 1)
	var cv rvVal
	switch r.Intn(3) {
	case 0:
		cv = rvVal{K: "int", I: want}
	case 1:
		cv = rvVal{K: "f", F: float64(want)}
	default:
		cv = rvVal{K: "s", S: strconv.FormatInt(want, 10)}
	}
	c := c08Cond{Field: "?.NUM_DESCENDANTS", Op: []string{"=", "!=", ">", "<", ">=", "<=", "=", ">=", "in", "not-in"}[r.Intn(10)],
		Dt: []string{"int", "int", "", "float", "string"}[r.Intn(5)], Val: cv}
	if c.Op == "in" || c.Op == "not-in" {
		c.Val = rvVal{K: "list", L: []rvVal{cv, {K: "int", I: 77}}}
	}
	if r.Intn(6) == 0 {
		c.Field, c.Fields = "", []string{"?.NUM_DESCENDANTS", "a"}
	}
	ru := c08Rule{Name: "size", Rate: 1, Drop: r.Intn(2) == 0, Scope: []string{"", "span", "trace"}[r.Intn(3)], Conds: []c08Cond{c}}
	if r.Intn(3) == 0 {
		ru.Conds = append(ru.Conds, c08Cond{Op: "has-root-span", Val: rvVal{K: "b", B: r.Intn(2) == 0}})
	}
	in.Rules = []c08Rule{ru}
	return in
}

// c08Tricky: numeric- and bool-looking texts whose reading depends on exactly which strconv
// function is used (Atoi: base 10, optional sign, nothing else; ParseFloat: decimal / exponent /
// hex-with-p, no blanks; ParseBool: the twelve literal spellings), each with the integers a LAXER
// parser would read them as (octal / hex / binary prefixes, underscores, trimming, exponents).
var c08Tricky = []struct {
	S  string
	Ns []int64
}{
	{"010", []int64{10, 8}}, {"0x10", []int64{16, 10, 0}}, {"0X1f", []int64{31, 0}}, {"0b11", []int64{3, 11}},
	{"0o17", []int64{15, 17}}, {"1_0", []int64{10, 1}}, {"1_000", []int64{1000, 1}}, {"+5", []int64{5}}, {"-5", []int64{-5, 5}},
	{" 5", []int64{5}}, {"5 ", []int64{5}}, {"1e3", []int64{1000, 1}}, {"1E2", []int64{100, 1}}, {"0.50", []int64{0, 1}},
	{"1.0", []int64{1}}, {"5.", []int64{5}}, {".5", []int64{0, 5}}, {"007", []int64{7}}, {"-0", []int64{0}}, {"+0", []int64{0}},
	{"0x1p4", []int64{16, 1}}, {"TRUE", []int64{1}}, {"t", []int64{1}}, {"T", []int64{1}}, {"True", []int64{1}}, {"tRue", []int64{1}},
	{"F", []int64{0}}, {"false", []int64{0}}, {"1", []int64{1}}, {"0", []int64{0}}, {"yes", []int64{1}}, {"on", []int64{1}},
	{"", []int64{0}}, {"९", []int64{9}}, {"9223372036854775807", []int64{9223372036854775807}}, {"9223372036854775808", []int64{9223372036854775807}},
	{"-9223372036854775808", []int64{-9223372036854775808}}, {"00", []int64{0}}, {"0x", []int64{0}}, {"1e", []int64{1}},
	{" 7", []int64{7}}, {"7 ", []int64{7}}, {"\t7", []int64{7}}, {"7\n", []int64{7}}, {" 1.5", []int64{1, 2}}, {"1.5 ", []int64{1, 2}},
	{" true", []int64{1}}, {"true ", []int64{1}}, {"1,5", []int64{1, 15}}, {"1.5e0", []int64{1}}, {"0x8", []int64{8}}, {"08", []int64{8}},
}

// c08GenTricky: such a text as FIELD value against a numeric / bool / text rule value, or as RULE
// value against a numeric field value, under every Datatype and comparison / membership operator.
// c08Boolish: values of every kind that the to-bool coercion (ParseBool of the %v text) has to
// classify: numbers of every wire kind (int64, float64, unsigned, float32), bools, texts.
func c08Boolish(r *rand.Rand, forCond bool) rvVal {
	vals := []rvVal{
		{K: "int", I: 1}, {K: "int", I: 0}, {K: "int", I: 2}, {K: "int", I: -1},
		{K: "f", F: 1}, {K: "f", F: 0}, {K: "f", F: 2}, {K: "f", F: -1}, {K: "f", F: 0.5}, {K: "f", F: 1.5},
		{K: "f", F: 1}, {K: "f", F: 1}, {K: "int", I: 1},
		{K: "b", B: true}, {K: "b", B: false},
		{K: "s", S: "1"}, {K: "s", S: "0"}, {K: "s", S: "true"}, {K: "s", S: "false"}, {K: "s", S: "t"}, {K: "s", S: "T"},
		{K: "s", S: "TRUE"}, {K: "s", S: "1.0"}, {K: "s", S: "yes"}, {K: "s", S: ""}, {K: "nil"},
	}
	if !forCond {
		vals = append(vals, rvVal{K: "u", I: 1}, rvVal{K: "u", I: 0}, rvVal{K: "u", I: 2}, rvVal{K: "f32", F: 1}, rvVal{K: "f32", F: 0}, rvVal{K: "f32", F: 0.5})
	} else {
		vals = append(vals, rvVal{K: "i64", I: 1}, rvVal{K: "i64", I: 0})
	}
	return vals[r.Intn(len(vals))]
}

// c08GenBool: Datatype bool (and has-root-span, which reads its Value the same way) with boolish
// values on both sides, every operator.
func c08GenBool(r *rand.Rand) c08Input {
	in := c08Input{Seed: int64(1 + r.Intn(1_000_000)), TraceID: fmt.Sprintf("trace-%d", r.Intn(1000)), Root: -1}
	sv := c08Boolish(r, false)
	c := c08Cond{Field: "a", Dt: "bool", Val: c08Boolish(r, true),
		Op: []string{"=", "!=", "=", "!=", "=", "!=", ">", "<", ">=", "<=", "in", "not-in", "exists", "contains"}[r.Intn(14)]}
	if r.Intn(8) == 0 {
		c.Dt = []string{"", "string", "int", "float"}[r.Intn(4)]
	}
	if (c.Op == "in" || c.Op == "not-in") && r.Intn(2) == 0 {
		c.Val = rvVal{K: "list", L: []rvVal{c.Val, c08Boolish(r, true)}}
	}
	in.Spans = [][]c08Field{{{K: "a", V: sv}}}
	if r.Intn(3) == 0 {
		in.Spans = append(in.Spans, []c08Field{{K: "a", V: c08Boolish(r, false)}})
	}
	if r.Intn(2) == 0 {
		in.Root = r.Intn(len(in.Spans))
	}
	ru := c08Rule{Name: "bool", Rate: 1, Drop: r.Intn(2) == 0, Scope: []string{"", "span"}[r.Intn(2)], Conds: []c08Cond{c}}
	if r.Intn(4) == 0 {
		ru.Conds = append(ru.Conds, c08Cond{Op: "has-root-span", Val: c08Boolish(r, true)})
	}
	in.Rules = []c08Rule{ru}
	return in
}

func c08GenTricky(r *rand.Rand) c08Input {
	if r.Intn(3) == 0 {
		return c08GenBool(r)
	}
	in := c08Input{Seed: int64(1 + r.Intn(1_000_000)), TraceID: fmt.Sprintf("trace-%d", r.Intn(1000)), Root: -1}
	t := c08Tricky[r.Intn(len(c08Tricky))]
	n := t.Ns[r.Intn(len(t.Ns))]
	if n > -1<<62 && n < 1<<62 && r.Intn(4) == 0 {
		n += int64(r.Intn(3)) - 1
	}
	var num rvVal
	switch r.Intn(5) {
	case 0, 1:
		num = rvVal{K: "int", I: n}
	case 2:
		num = rvVal{K: "f", F: float64(n)}
		if r.Intn(3) == 0 {
			num.F += 0.5
		}
	case 3:
		num = rvVal{K: "s", S: strconv.FormatInt(n, 10)}
	default:
		num = rvVal{K: "b", B: n != 0}
	}
	text := rvVal{K: "s", S: t.S}
	sv, cv := text, num
	switch r.Intn(5) {
	case 0, 1: // the text sits in the rule
		sv, cv = num, text
	case 2: // text against another tricky text
		cv = rvVal{K: "s", S: c08Tricky[r.Intn(len(c08Tricky))].S}
	}
	if sv.K == "b" && r.Intn(2) == 0 {
		sv = rvVal{K: "int", I: n}
	}
	c := c08Cond{Field: "a",
		Op:  []string{"=", "!=", ">", "<", ">=", "<=", "=", "!=", ">=", "<=", "in", "not-in"}[r.Intn(12)],
		Dt:  []string{"int", "int", "int", "float", "float", "bool", "string", ""}[r.Intn(8)],
		Val: cv}
	if c.Op == "in" || c.Op == "not-in" {
		if c.Dt == "bool" {
			c.Dt = "int"
		}
		if r.Intn(3) != 0 || cv.K == "b" {
			c.Val = rvVal{K: "list", L: []rvVal{{K: "s", S: "zz"}, cv}}
		}
	}
	in.Spans = [][]c08Field{{{K: "a", V: sv}}}
	if r.Intn(3) == 0 {
		in.Spans = append(in.Spans, []c08Field{{K: "b", V: c08PickScalar(r, false)}})
	}
	ru := c08Rule{Name: "tricky", Rate: 1, Drop: r.Intn(2) == 0, Scope: []string{"", "span"}[r.Intn(2)], Conds: []c08Cond{c}}
	if r.Intn(6) == 0 { // has-root-span reads its Value through ParseBool as well
		ru.Conds = append(ru.Conds, c08Cond{Op: "has-root-span", Val: text})
	}
	in.Rules = []c08Rule{ru}
	return in
}

func c08GenFocused(r *rand.Rand) c08Input {
	if r.Intn(8) == 0 {
		return c08GenVirtual(r)
	}
	if r.Intn(2) == 0 {
		return c08GenTricky(r)
	}
	in := c08Input{Seed: int64(1 + r.Intn(1_000_000)), TraceID: fmt.Sprintf("trace-%d", r.Intn(1000)), Root: -1}
	sv := c08PickScalar(r, false)
	dt := []string{"", "string", "int", "float", "bool"}[r.Intn(5)]
	op := []string{"=", "!=", ">", "<", ">=", "<=", "=", "!=", ">", "<", ">=", "<=", "in", "not-in", "starts-with", "contains", "does-not-contain", "matches"}[r.Intn(18)]
	repr := func(n int64) rvVal {
		switch r.Intn(3) {
		case 0:
			return rvVal{K: "int", I: n}
		case 1:
			return rvVal{K: "f", F: float64(n)}
		}
		return rvVal{K: "s", S: strconv.FormatInt(n, 10)}
	}
	reprF := func(f float64) rvVal {
		if f == 0 {
			f = 0 // no negative zero
		}
		switch {
		case r.Intn(3) == 0:
			return rvVal{K: "s", S: fmt.Sprintf("%v", f)}
		case f == math.Trunc(f) && math.Abs(f) < 1<<62 && r.Intn(2) == 0:
			return rvVal{K: "int", I: int64(f)}
		}
		return rvVal{K: "f", F: f}
	}
	var cv rvVal
	gv := sv.goSpan()
	switch dt {
	case "int":
		var n int64
		ok := true
		switch t := gv.(type) {
		case int64:
			n = t
		case float64:
			if math.Abs(t) < 1<<62 {
				n = int64(t)
			} else {
				ok = false
			}
		case string:
			k, err := strconv.ParseInt(t, 10, 64)
			n, ok = k, err == nil
		default:
			ok = false
		}
		if ok && n > -1<<62 && n < 1<<62 {
			cv = repr(n + int64(r.Intn(3)) - 1)
		} else {
			cv = c08PickScalar(r, true)
		}
	case "float", "":
		var f float64
		ok := true
		switch t := gv.(type) {
		case int64:
			f = float64(t)
		case float64:
			f = t
		case string:
			k, err := strconv.ParseFloat(t, 64)
			f, ok = k, err == nil && dt == "float"
		default:
			ok = false
		}
		if ok && math.Abs(f) < 1e300 {
			switch r.Intn(5) {
			case 0:
				cv = reprF(math.Nextafter(f, math.Inf(1)))
			case 1:
				cv = reprF(math.Nextafter(f, math.Inf(-1)))
			case 2:
				cv = reprF(f + 1)
			default:
				cv = reprF(f)
			}
		} else if s, isStr := gv.(string); isStr && dt == "" {
			cv = rvVal{K: "s", S: []string{s, s + "a", "", "a"}[r.Intn(4)]}
		} else {
			cv = c08Kin(r, sv)
		}
	case "string":
		s := fmt.Sprintf("%v", gv)
		switch r.Intn(5) {
		case 0:
			cv = rvVal{K: "s", S: s + "0"}
		case 1:
			if len(s) > 0 {
				cv = rvVal{K: "s", S: s[:len(s)-1]}
			} else {
				cv = rvVal{K: "s", S: s}
			}
		case 2:
			cv = c08Kin(r, sv)
		default:
			cv = rvVal{K: "s", S: s}
		}
	default: // bool
		cv = []rvVal{{K: "b", B: true}, {K: "b", B: false}, {K: "s", S: "true"}, {K: "s", S: "1"}, {K: "int", I: 1}, {K: "int", I: 0}, {K: "s", S: "yes"}, {K: "f", F: 1}, {K: "s", S: "TrUe"}, {K: "s", S: "TRUE"}}[r.Intn(10)]
	}
	if op == "matches" {
		cv = rvVal{K: "s", S: c08Patterns[r.Intn(len(c08Patterns))]}
	}
	if (op == "in" || op == "not-in") && r.Intn(2) == 0 && (cv.K == "s" || cv.K == "int" || cv.K == "f" || cv.K == "b") {
		// a single scalar instead of a list (string / int / float64 are accepted, anything else is an error)
	} else if op == "in" || op == "not-in" {
		l := rvVal{K: "list", L: []rvVal{}}
		for k, n := 0, r.Intn(3); k < n; k++ {
			l.L = append(l.L, c08PickScalar(r, true))
		}
		l.L = append(l.L, cv)
		if r.Intn(2) == 0 {
			l.L[0], l.L[len(l.L)-1] = l.L[len(l.L)-1], l.L[0]
		}
		cv = l
	}
	c := c08Cond{Op: op, Dt: dt, Val: cv}
	other := c08PickScalar(r, false)
	switch r.Intn(4) {
	case 0: // plain field
		c.Field = "a"
		in.Spans = [][]c08Field{{{K: "a", V: sv}}}
	case 1: // first-present among several Fields
		c.Fields = []string{"zz", "a", "b"}
		in.Spans = [][]c08Field{{{K: "a", V: sv}, {K: "b", V: other}}}
	case 2: // root prefix; the evaluated span carries another value
		c.Field = "root.a"
		in.Spans = [][]c08Field{{{K: "a", V: other}}, {{K: "a", V: sv}}}
		in.Root = 1
	default: // several spans
		c.Field = "a"
		in.Spans = [][]c08Field{{{K: "b", V: other}}, {{K: "a", V: sv}}}
		in.Root = r.Intn(3) - 1
	}
	ru := c08Rule{Name: "focus", Rate: []int{1, 1, 3}[r.Intn(3)], Drop: r.Intn(2) == 0, Scope: []string{"", "span", "trace"}[r.Intn(3)], Conds: []c08Cond{c}}
	in.Rules = []c08Rule{ru}
	return in
}

// c08GenMixedFields: a Fields list that mixes plain and root.-prefixed names, on a trace where
// some spans lack the plain field (so the value falls back to the root span and does NOT match)
// while another span carries the plain field with a matching value.  This is the shape on which
// the checkedOnlyRoot bookkeeping of extractValueFromSpan decides whether the span loops may stop
// early; it has to be cumulative over the Fields already looked at.  One sixth of all cases.
// c08GenShapes: two further shapes straight from the property text.
//
//	first-present: Fields [a, b] where ONE span carries both, a with a non-matching and b with a
//	               matching value — the first present field decides, the rule must not match
//	               (unless another span helps);
//	split:         two conditions each satisfied by a DIFFERENT span — matches in trace scope,
//	               must not match in span scope.
func c08GenShapes(r *rand.Rand) c08Input {
	in := c08Input{Seed: int64(1 + r.Intn(1_000_000)), TraceID: fmt.Sprintf("trace-%d", r.Intn(1000)), Root: -1}
	good := c08PickScalar(r, false)
	for good.K == "nil" || good.K == "map" || good.K == "arr" {
		good = c08PickScalar(r, false)
	}
	bad := c08PickScalar(r, false)
	for fmt.Sprint(bad.goSpan()) == fmt.Sprint(good.goSpan()) {
		bad = c08PickScalar(r, false)
	}
	eq := func(field string, fields []string) c08Cond {
		c := c08Cond{Field: field, Fields: fields, Op: "=", Val: good}
		if r.Intn(3) == 0 {
			c.Dt = "string"
			c.Val = rvVal{K: "s", S: fmt.Sprintf("%v", good.goSpan())}
		}
		return c
	}
	scope := []string{"", "trace", "span", "span"}[r.Intn(4)]
	if r.Intn(2) == 0 {
		// first-present
		first, second := "a", "b"
		if r.Intn(4) == 0 {
			first, second = "root.a", "b"
		}
		sp := []c08Field{{K: "a", V: bad}, {K: "b", V: good}}
		in.Spans = [][]c08Field{sp}
		if r.Intn(2) == 0 {
			in.Spans = append(in.Spans, []c08Field{{K: "c", V: good}})
		}
		if r.Intn(3) == 0 { // a second span where the first field is absent and the second matches
			in.Spans = append(in.Spans, []c08Field{{K: "b", V: good}})
		}
		if first == "root.a" || r.Intn(2) == 0 {
			in.Root = 0
		}
		in.Rules = []c08Rule{{Name: "first-present", Rate: 1, Drop: r.Intn(2) == 0, Scope: scope, Conds: []c08Cond{eq("", []string{first, second})}}}
	} else {
		// split
		s1 := []c08Field{{K: "a", V: good}, {K: "b", V: bad}}
		s2 := []c08Field{{K: "a", V: bad}, {K: "b", V: good}}
		in.Spans = [][]c08Field{s1, s2}
		if r.Intn(3) == 0 {
			in.Spans = [][]c08Field{s2, {}, s1}
		}
		if r.Intn(4) == 0 { // sometimes one span does satisfy both
			in.Spans = append(in.Spans, []c08Field{{K: "a", V: good}, {K: "b", V: good}})
		}
		in.Root = r.Intn(len(in.Spans)+1) - 1
		conds := []c08Cond{eq("a", nil), eq("b", nil)}
		if r.Intn(4) == 0 {
			conds = append(conds, c08Cond{Field: "c", Op: "not-exists", Val: rvVal{K: "nil"}})
		}
		in.Rules = []c08Rule{{Name: "split", Rate: 1, Drop: r.Intn(2) == 0, Scope: scope, Conds: conds}}
	}
	if r.Intn(2) == 0 {
		in.Rules = append(in.Rules, c08Rule{Name: "later", Rate: 5})
	}
	return in
}

func c08GenMixedFields(r *rand.Rand) c08Input {
	if r.Intn(3) == 0 {
		return c08GenShapes(r)
	}
	in := c08Input{Seed: int64(1 + r.Intn(1_000_000)), TraceID: fmt.Sprintf("trace-%d", r.Intn(1000))}
	match := c08PickScalar(r, false)
	for match.K == "nil" || match.K == "map" || match.K == "arr" {
		match = c08PickScalar(r, false)
	}
	other := c08PickScalar(r, false)
	for other.K == match.K && fmt.Sprint(other.goSpan()) == fmt.Sprint(match.goSpan()) {
		other = c08PickScalar(r, false)
	}
	// the Fields list: plain "x" and root-prefixed "root.y" in either order, sometimes with a
	// third name (absent, or a second root-prefixed one) in front, between or behind
	fields := []string{"x", "root.y"}
	if r.Intn(3) == 0 {
		fields = []string{"root.y", "x"}
	}
	if r.Intn(3) == 0 {
		extra := []string{"zz", "root.zz", "root.x", "y"}[r.Intn(4)]
		pos := r.Intn(len(fields) + 1)
		fields = append(fields[:pos:pos], append([]string{extra}, fields[pos:]...)...)
	}
	cond := c08Cond{Fields: fields, Op: "=", Val: c08Kin(r, match)}
	switch r.Intn(6) {
	case 0:
		cond.Op = "in"
		cond.Val = rvVal{K: "list", L: []rvVal{match}}
	case 1:
		cond.Op = "!="
		cond.Val = other
	case 2:
		cond.Dt = "string"
		cond.Val = rvVal{K: "s", S: fmt.Sprintf("%v", match.goSpan())}
	}
	// spans: some lack x (they fall back to root.y), one carries x = match; the root carries
	// y = other (non-matching) and may itself be any of them, first or last, or missing
	n := 2 + r.Intn(3)
	carrier := r.Intn(n)
	if r.Intn(2) == 0 {
		carrier = n - 1 // the matching span comes last: every earlier span must not stop the loop
	}
	for k := 0; k < n; k++ {
		var sp []c08Field
		if k == carrier {
			sp = append(sp, c08Field{K: "x", V: match})
		} else if r.Intn(5) == 0 {
			sp = append(sp, c08Field{K: "x", V: other})
		}
		if r.Intn(3) == 0 {
			sp = append(sp, c08Field{K: "b", V: c08PickScalar(r, false)})
		}
		in.Spans = append(in.Spans, sp)
	}
	in.Root = r.Intn(n+1) - 1
	if in.Root >= 0 {
		rootY := other
		if r.Intn(6) == 0 {
			rootY = match
		}
		if r.Intn(8) != 0 {
			in.Spans[in.Root] = append(in.Spans[in.Root], c08Field{K: "y", V: rootY})
		}
	}
	ru := c08Rule{Name: "mixed", Rate: 1, Drop: r.Intn(2) == 0, Scope: []string{"", "trace", "span", "span"}[r.Intn(4)], Conds: []c08Cond{cond}}
	// neighbours: further conditions before / after (on the same or other fields)
	if r.Intn(3) == 0 {
		extra := c08Cond{Field: []string{"b", "x", "root.y", "root.b"}[r.Intn(4)], Op: []string{"exists", "not-exists", "exists"}[r.Intn(3)], Val: rvVal{K: "nil"}}
		if r.Intn(2) == 0 {
			ru.Conds = append([]c08Cond{extra}, ru.Conds...)
		} else {
			ru.Conds = append(ru.Conds, extra)
		}
	}
	if r.Intn(4) == 0 {
		ru.Conds = append(ru.Conds, c08Cond{Op: "has-root-span", Val: rvVal{K: "b", B: in.Root >= 0}})
	}
	in.Rules = []c08Rule{ru}
	if r.Intn(3) == 0 {
		in.Rules = append(in.Rules, c08Rule{Name: "fallback", Rate: 2, Conds: []c08Cond{{Field: "root.y", Op: "exists", Val: rvVal{K: "nil"}}}})
	}
	return in
}

func c08Gen(r *rand.Rand, tier string, i int) any {
	if i%3 == 1 {
		return c08GenFocused(r)
	}
	if i%6 == 2 {
		return c08GenMixedFields(r)
	}
	in := c08Input{Seed: int64(1 + r.Intn(1_000_000)), TraceID: fmt.Sprintf("trace-%d", r.Intn(1000))}
	nspans := 1 + r.Intn(4)
	var pool []c08Pooled
	for s := 0; s < nspans; s++ {
		var sp []c08Field
		for _, f := range c08SpanFields {
			if r.Intn(100) < 45 {
				v := c08PickScalar(r, false)
				sp = append(sp, c08Field{K: f, V: v})
				pool = append(pool, c08Pooled{F: f, V: v})
			}
		}
		in.Spans = append(in.Spans, sp)
	}
	in.Root = -1
	if r.Intn(100) < 70 {
		in.Root = r.Intn(nspans)
	}
	nrules := 1 + r.Intn(4)
	for k := 0; k < nrules; k++ {
		ru := c08Rule{Name: fmt.Sprintf("r%d", k), Scope: []string{"", "trace", "span", "span", "trace"}[r.Intn(5)]}
		if r.Intn(50) == 0 {
			ru.Scope = "bogus"
		}
		if r.Intn(25) == 0 {
			ru.Name = []string{"", "r0", "x y"}[r.Intn(3)]
		}
		switch x := r.Intn(100); {
		case x < 35:
			ru.Drop = true
			ru.Rate = []int{0, 0, 1, 5}[r.Intn(4)]
		case x < 80:
			ru.Rate = []int{1, 1, 2, 3, 10, 1000, 0, -1}[r.Intn(8)]
			if ru.Rate <= 0 && r.Intn(3) != 0 {
				ru.Rate = 2
			}
		default:
			ru.Sampler = []int{1, 2, 10, 1000}[r.Intn(4)]
			ru.Rate = r.Intn(3)
			ru.Drop = r.Intn(4) == 0
		}
		nc := []int{0, 1, 1, 1, 2, 2, 3}[r.Intn(7)]
		if k == nrules-1 && r.Intn(3) == 0 {
			nc = 0
		}
		for j := 0; j < nc; j++ {
			ru.Conds = append(ru.Conds, c08GenCond(r, pool))
		}
		in.Rules = append(in.Rules, ru)
	}
	return in
}

// ---------------------------------------------------------------- run
func c08BuildTrace(spans [][]c08Field, root int, traceID string) (*types.Trace, []string, string, *oracleTabs) {
	tabs := newOracleTabs()
	cfg := &config.MockConfig{}
	tr := &types.Trace{TraceID: traceID}
	var cqSpans []string
	cqRoot := cq.None()
	for i, sp := range spans {
		data := map[string]any{}
		var fs []string
		seen := map[string]bool{}
		for _, f := range sp {
			if seen[f.K] {
				continue
			}
			seen[f.K] = true
			data[f.K] = f.V.goSpan()
			tabs.note(f.V)
			fs = append(fs, cq.Pair(cq.Str(f.K), cqSval(f.V.goSpan())))
		}
		s := &types.Span{TraceID: traceID, Event: &types.Event{Data: types.NewPayload(cfg, data)}}
		tr.AddSpan(s)
		cqSpans = append(cqSpans, cq.List(fs))
		if i == root {
			tr.RootSpan = s
			cqRoot = cq.Some(cq.List(fs))
		}
	}
	return tr, cqSpans, cqRoot, tabs
}

// c08Built is a started RulesBasedSampler together with the Gallina text of its configuration and
// of the oracle values (downstream sampler outcome, rand.Intn draw) of every rule.
type c08Built struct {
	s                     *sample.RulesBasedSampler
	cqRules, cqDs, cqDraw []string
	tags                  map[string]bool
	nconds                int
	stop                  func()
}

func c08BuildSampler(rules []c08Rule, seed int64, tr *types.Trace, tabs *oracleTabs) (*c08Built, error) {
	in := struct {
		Rules []c08Rule
		Seed  int64
	}{rules, seed}
	rcfg := &config.RulesBasedSamplerConfig{}
	var cqRules, cqDs, cqDraw []string
	tags := map[string]bool{}
	nconds := 0
	for _, ru := range in.Rules {
		gr := &config.RulesBasedSamplerRule{Name: ru.Name, SampleRate: ru.Rate, Drop: ru.Drop, Scope: ru.Scope}
		var cqConds []string
		for _, c := range ru.Conds {
			gr.Conditions = append(gr.Conditions, &config.RulesBasedSamplerCondition{
				Field: c.Field, Fields: c.Fields, Operator: c.Op, Value: c.Val.goCond(), Datatype: c.Dt})
			tabs.note(c.Val)
			cqConds = append(cqConds, fmt.Sprintf("{| c_field := %s; c_fields := %s; c_opname := %s; c_val := %s; c_dtname := %s |}",
				cq.Str(c.Field), cq.ListStr(c.Fields), cq.Str(c.Op), cqCval(c.Val), cq.Str(c.Dt)))
			tags["op:"+c.Op] = true
			tags["dt:"+c.Dt] = true
			nconds++
		}
		ds := cq.None()
		if ru.Sampler > 0 {
			gr.Sampler = &config.RulesBasedDownstreamSampler{DeterministicSampler: &config.DeterministicSamplerConfig{SampleRate: ru.Sampler}}
			d := &sample.DeterministicSampler{Config: &config.DeterministicSamplerConfig{SampleRate: ru.Sampler},
				Logger: &logger.NullLogger{}, Metrics: &metrics.NullMetrics{}}
			if err := d.Start(); err != nil {
				return nil, err
			}
			rate, keep, reason, key := d.GetSampleRate(tr)
			ds = cq.Some(cqOutcome(uint64(rate), keep, reason, key))
			tags["outcome:sampler"] = true
		}
		rcfg.Rules = append(rcfg.Rules, gr)
		draw := int64(1)
		if ru.Rate > 0 {
			draw = int64(rand.New(rand.NewSource(in.Seed)).Intn(ru.Rate))
		}
		cqDs = append(cqDs, ds)
		cqDraw = append(cqDraw, cq.Z(draw))
		cqRules = append(cqRules, fmt.Sprintf("{| r_name := %s; r_rate := %s; r_drop := %s; r_scope := %s; r_conds := %s; r_sampler := %s |}",
			cq.Str(ru.Name), cq.Z(int64(ru.Rate)), cq.Bool(ru.Drop), cq.Str(ru.Scope), cq.List(cqConds), cq.Bool(ru.Sampler > 0)))
		tags["scope:"+ru.Scope] = true
	}

	mm := &metrics.MockMetrics{}
	mm.Start()
	factory := &sample.SamplerFactory{Logger: &logger.NullLogger{}, Metrics: mm}
	if err := factory.Start(); err != nil {
		return nil, err
	}
	s := &sample.RulesBasedSampler{Config: rcfg, Logger: &logger.NullLogger{}, Metrics: mm, SamplerFactory: factory}
	if err := s.Start(); err != nil {
		return nil, err
	}
	return &c08Built{s: s, cqRules: cqRules, cqDs: cqDs, cqDraw: cqDraw, tags: tags, nconds: nconds, stop: factory.Stop}, nil
}

func c08Run(raw json.RawMessage) (Case, error) {
	var in c08Input
	if err := json.Unmarshal(raw, &in); err != nil {
		return Case{}, err
	}
	os.Setenv("GODEBUG", "randseednop=0")
	tr, cqSpans, cqRoot, tabs := c08BuildTrace(in.Spans, in.Root, in.TraceID)

	built, err := c08BuildSampler(in.Rules, in.Seed, tr, tabs)
	if err != nil {
		return Case{}, err
	}
	defer built.stop()
	s, cqRules, cqDs, cqDraw, tags, nconds := built.s, built.cqRules, built.cqDs, built.cqDraw, built.tags, built.nconds
	rand.Seed(in.Seed)
	rate, keep, reason, key := s.GetSampleRate(tr)

	coq := fmt.Sprintf("{| k_rules := %s; k_trace := {| t_spans := %s; t_root := %s |}; k_fmt := %s; k_parse := %s; k_ds := %s; k_draw := %s; k_obs := %s |}",
		cq.List(cqRules), cq.List(cqSpans), cqRoot, tabs.fmtTable(), tabs.parseTable(), cq.List(cqDs), cq.List(cqDraw),
		cqOutcome(uint64(rate), keep, reason, key))
	var tl []string
	for t := range tags {
		tl = append(tl, t)
	}
	if in.Root < 0 {
		tl = append(tl, "no-root")
	}
	if reason == "no rule matched" {
		tl = append(tl, "result:no-rule")
	} else {
		tl = append(tl, "result:"+strings.SplitN(reason, "/", 3)[1])
	}
	b, _ := json.Marshal(in)
	return Case{Coq: coq, Key: string(b), Nontriv: nconds > 0, Tags: tl,
		Summary: map[string]any{"rules": in.Rules, "spans": in.Spans, "root": in.Root,
			"observed": map[string]any{"rate": rate, "keep": keep, "reason": reason, "key": key}}}, nil
}

// ---------------------------------------------------------------- shrink
func c08Shrink(raw json.RawMessage) []json.RawMessage {
	var in c08Input
	if json.Unmarshal(raw, &in) != nil {
		return nil
	}
	var out []json.RawMessage
	emit := func(c c08Input) {
		b, _ := json.Marshal(c)
		out = append(out, b)
	}
	clone := func() c08Input {
		var c c08Input
		b, _ := json.Marshal(in)
		json.Unmarshal(b, &c)
		return c
	}
	for i := range in.Rules {
		if len(in.Rules) > 1 {
			c := clone()
			c.Rules = append(c.Rules[:i], c.Rules[i+1:]...)
			emit(c)
		}
		for j := range in.Rules[i].Conds {
			c := clone()
			c.Rules[i].Conds = append(c.Rules[i].Conds[:j], c.Rules[i].Conds[j+1:]...)
			emit(c)
			if len(in.Rules[i].Conds[j].Fields) > 1 {
				for k := range in.Rules[i].Conds[j].Fields {
					c := clone()
					f := c.Rules[i].Conds[j].Fields
					c.Rules[i].Conds[j].Fields = append(f[:k:k], f[k+1:]...)
					emit(c)
				}
			}
		}
	}
	for i := range in.Spans {
		if len(in.Spans) > 1 {
			c := clone()
			c.Spans = append(c.Spans[:i], c.Spans[i+1:]...)
			if c.Root == i {
				c.Root = -1
			} else if c.Root > i {
				c.Root--
			}
			emit(c)
		}
		for j := range in.Spans[i] {
			c := clone()
			c.Spans[i] = append(c.Spans[i][:j], c.Spans[i][j+1:]...)
			emit(c)
		}
	}
	if in.Root >= 0 {
		c := clone()
		c.Root = -1
		emit(c)
	}
	return out
}
