package drive

import (
	"encoding/json"
	"fmt"
	"math/rand"
	"net/http"
	"net/http/httptest"
	"strings"
	"time"

	"github.com/honeycombio/refinery/internal/health"
	"github.com/honeycombio/refinery/logger"
	"github.com/honeycombio/refinery/metrics"
	"github.com/honeycombio/refinery/route"
	cq "github.com/honeycombio/refinery/verifharness/coqfmt"
	"github.com/jonboulle/clockwork"
)

// C30: the real health.Health (with its real ticker goroutine) on a controlled clock, and the real
// /alive and /ready handlers of route.Router.
//
// The clock handed to Health is a FakeClock whose NewTicker is replaced: the ticker goroutine of
// Health evaluates tick.Chan() every time it re-enters its select, so the replacement ticker
// handshakes on that call. Delivering a tick = blocking send on the tick channel (the goroutine is
// in its select) followed by waiting for the next Chan() call (the goroutine has finished the tick
// body and released the mutex). No sleeps, no races: every tick is processed exactly when the
// driver says, including before or after other operations at the same instant.

type c30Op struct {
	Op   string `json:"op"` // reg unreg ready adv tick alive isready
	K    uint64 `json:"k,omitempty"`
	To   int64  `json:"to,omitempty"`
	B    bool   `json:"b,omitempty"`
	D    int64  `json:"d,omitempty"`
	HTTP bool   `json:"http,omitempty"` // query through the Router handler instead of the method
}
type c30Input struct {
	T0  int64   `json:"t0"`
	Ops []c30Op `json:"ops"`
}

type c30Ticker struct {
	c     chan time.Time
	calls chan struct{}
	d     time.Duration
}

func (t *c30Ticker) Chan() <-chan time.Time { t.calls <- struct{}{}; return t.c }
func (t *c30Ticker) Reset(d time.Duration)  { t.d = d }
func (t *c30Ticker) Stop()                  {}

type c30Clock struct {
	clockwork.Clock
	made chan *c30Ticker
}

func (c *c30Clock) NewTicker(d time.Duration) clockwork.Ticker {
	t := &c30Ticker{c: make(chan time.Time), calls: make(chan struct{}), d: d}
	c.made <- t
	return t
}

func init() {
	Register(&Driver{ID: "C30", Gen: c30Gen, Run: c30Run, Shrink: c30Shrink})
}

const c30T = int64(500 * time.Millisecond) // generator's idea of the tick; the driver uses the real one

func c30Gen(r *rand.Rand, tier string, i int) any {
	in := c30Input{T0: 1_000_000_000 + int64(r.Intn(1000))}
	nops := 6 + r.Intn(30)
	if tier == "thorough" {
		nops = 6 + r.Intn(80)
	}
	timeouts := []int64{1_500_000_000, 1_000_000_000, 500_000_000, 1_700_000_000, 2_000_000_000,
		5_000_000_000, 300_000_000, 1, 0, -1, 15_000_000_000}
	now, nt := in.T0, in.T0+c30T
	to := map[uint64]int64{}
	rep := map[uint64]int64{}
	nk := 1 + r.Intn(3)
	query := func() {
		op := c30Op{Op: []string{"alive", "isready"}[r.Intn(2)], HTTP: r.Intn(4) == 0}
		in.Ops = append(in.Ops, op)
	}
	adv := func(d int64) {
		if d < 0 {
			d = 0
		}
		in.Ops = append(in.Ops, c30Op{Op: "adv", D: d})
		for d > 0 {
			if now == nt {
				nt += c30T
			}
			st := d
			if st > nt-now {
				st = nt - now
			}
			now += st
			d -= st
		}
	}
	for j := 0; j < nops; j++ {
		k := uint64(1 + r.Intn(nk))
		switch x := r.Intn(100); {
		case x < 12:
			t := timeouts[r.Intn(len(timeouts))]
			if r.Intn(3) > 0 {
				t = timeouts[r.Intn(6)]
			}
			in.Ops = append(in.Ops, c30Op{Op: "reg", K: k, To: t})
			to[k] = t
			delete(rep, k)
		case x < 16:
			in.Ops = append(in.Ops, c30Op{Op: "unreg", K: k})
			delete(to, k)
			delete(rep, k)
		case x < 40:
			in.Ops = append(in.Ops, c30Op{Op: "ready", K: k, B: r.Intn(5) > 0})
			if _, ok := to[k]; ok {
				rep[k] = now
			}
		case x < 58:
			query()
		case x < 64:
			in.Ops = append(in.Ops, c30Op{Op: "tick"})
			if now == nt {
				nt += c30T
			}
		default:
			// advance: aim at the instants where the property's bounds switch
			var targets []int64
			for kk, rr := range rep {
				t := to[kk]
				for _, e := range []int64{rr + t - c30T, rr + t, rr + t + c30T} {
					for _, dd := range []int64{-1, 0, 1} {
						if e+dd > now {
							targets = append(targets, e+dd)
						}
					}
				}
			}
			var d int64
			switch y := r.Intn(10); {
			case y < 4 && len(targets) > 0:
				d = targets[r.Intn(len(targets))] - now
			case y < 7:
				d = nt - now + []int64{0, 0, -1, 1}[r.Intn(4)]
			default:
				d = []int64{1, 250_000_000, 499_999_999, 500_000_000, 500_000_001, 1_000_000_000, 1_500_000_000, 3_000_000_000}[r.Intn(8)]
			}
			adv(d)
			if now == nt && r.Intn(2) == 0 {
				in.Ops = append(in.Ops, c30Op{Op: "tick"})
				nt += c30T
			}
			if r.Intn(10) < 7 {
				query()
			}
		}
	}
	query()
	return in
}

func c30Run(raw json.RawMessage) (Case, error) {
	var in c30Input
	if err := json.Unmarshal(raw, &in); err != nil {
		return Case{}, err
	}
	fc := clockwork.NewFakeClockAt(time.Unix(0, in.T0))
	clk := &c30Clock{Clock: fc, made: make(chan *c30Ticker, 1)}
	h := &health.Health{Clock: clk}
	if err := h.Start(); err != nil {
		return Case{}, err
	}
	wait := func(ch <-chan struct{}) error {
		select {
		case <-ch:
			return nil
		case <-time.After(10 * time.Second):
			return fmt.Errorf("health ticker goroutine did not come back to its select")
		}
	}
	var tk *c30Ticker
	select {
	case tk = <-clk.made:
	case <-time.After(10 * time.Second):
		return Case{}, fmt.Errorf("Health.Start did not create a ticker")
	}
	if err := wait(tk.calls); err != nil {
		return Case{}, err
	}
	defer h.Stop()
	T := int64(tk.d)
	if T <= 0 {
		return Case{}, fmt.Errorf("ticker period %d", T)
	}
	rt := &route.Router{Health: h, Metrics: &metrics.NullMetrics{}, Logger: &logger.NullLogger{}}
	aliveH, readyH := route.VerifC30Handlers(rt)

	now, nt := in.T0, in.T0+T
	var ops, obs, human []string
	emit := func(o, x string) {
		ops = append(ops, o)
		obs = append(obs, x)
		human = append(human, fmt.Sprintf("t=%d %s -> %s", now-in.T0, o, x))
	}
	tick := func() error {
		select {
		case tk.c <- time.Unix(0, now):
		case <-time.After(10 * time.Second):
			return fmt.Errorf("health ticker goroutine not receiving")
		}
		if err := wait(tk.calls); err != nil {
			return err
		}
		nt += T
		emit("HTick", "HNone")
		return nil
	}
	to := map[uint64]int64{}
	rep := map[uint64]int64{}
	nontriv, nTicks, nHTTP, boundaryQ, tickInstantOps := false, 0, 0, 0, 0
	name := func(k uint64) string { return fmt.Sprintf("sub%d", k) }
	for _, o := range in.Ops {
		switch o.Op {
		case "reg":
			h.Register(name(o.K), time.Duration(o.To))
			to[o.K] = o.To
			delete(rep, o.K)
			emit(cq.App("HReg", cq.N(o.K), cq.Z(o.To)), "HNone")
		case "unreg":
			h.Unregister(name(o.K))
			delete(to, o.K)
			delete(rep, o.K)
			emit(cq.App("HUnreg", cq.N(o.K)), "HNone")
		case "ready":
			h.Ready(name(o.K), o.B)
			if _, ok := to[o.K]; ok {
				rep[o.K] = now
			}
			emit(cq.App("HReady", cq.N(o.K), cq.Bool(o.B)), "HNone")
		case "tick":
			if now == nt {
				if err := tick(); err != nil {
					return Case{}, err
				}
				nTicks++
			}
		case "adv":
			d := o.D
			for d > 0 {
				if now == nt {
					if err := tick(); err != nil {
						return Case{}, err
					}
					nTicks++
				}
				st := d
				if st > nt-now {
					st = nt - now
				}
				fc.Advance(time.Duration(st))
				now += st
				d -= st
				emit(cq.App("HAdv", cq.Z(st)), "HNone")
			}
		case "alive", "isready":
			var b bool
			x := ""
			if o.HTTP {
				nHTTP++
				w := httptest.NewRecorder()
				req := httptest.NewRequest("GET", "/"+map[string]string{"alive": "alive", "isready": "ready"}[o.Op], nil)
				if o.Op == "alive" {
					aliveH(w, req)
				} else {
					readyH(w, req)
				}
				body := w.Body.String()
				word := map[string]string{"alive": "alive", "isready": "ready"}[o.Op]
				switch {
				case w.Code == http.StatusOK && strings.Contains(body, `"`+word+`":"yes"`):
					b = true
				case w.Code == http.StatusServiceUnavailable && strings.Contains(body, `"`+word+`":"no"`):
					b = false
				default:
					x = "HNone" // neither a clean yes nor a clean no: the monitor flags it
				}
			} else if o.Op == "alive" {
				b = h.IsAlive()
			} else {
				b = h.IsReady()
			}
			if x == "" {
				x = cq.App("HBool", cq.Bool(b))
			}
			for kk, rr := range rep {
				g := now - rr - to[kk]
				if g >= -T-1 && g <= T+1 {
					nontriv = true
					if g == -T || g == -T-1 || g == -T+1 || g == T || g == T+1 || g == T-1 {
						boundaryQ++
					}
				}
			}
			if now == nt {
				tickInstantOps++
			}
			emit(map[string]string{"alive": "HAlive", "isready": "HIsReady"}[o.Op], x)
		default:
			return Case{}, fmt.Errorf("bad op %q", o.Op)
		}
	}
	coq := fmt.Sprintf("{| c_t0 := %s; c_tick := %s; c_ops := %s; c_obs := %s |}",
		cq.Z(in.T0), cq.Z(T), cq.List(ops), cq.List(obs))
	tags := []string{}
	if nontriv {
		tags = append(tags, "query-within-one-tick-of-timeout")
	}
	if boundaryQ > 0 {
		tags = append(tags, "query-at-bound-instant(+-1ns)")
	}
	if tickInstantOps > 0 {
		tags = append(tags, "query-at-tick-instant-before-tick")
	}
	if nHTTP > 0 {
		tags = append(tags, "http-handler-query")
	}
	if nTicks > 0 {
		tags = append(tags, "ticks>0")
	}
	return Case{Coq: coq, Key: strings.Join(ops, ";"), Nontriv: nontriv, Tags: tags,
		Summary: map[string]any{"tick_ns": T, "history": human}}, nil
}

func c30Shrink(raw json.RawMessage) []json.RawMessage {
	var in c30Input
	if json.Unmarshal(raw, &in) != nil {
		return nil
	}
	var out []json.RawMessage
	for _, keep := range smChunkRemovals(len(in.Ops)) {
		c := in
		c.Ops = smKeep(in.Ops, keep)
		b, _ := json.Marshal(c)
		out = append(out, b)
	}
	for i, o := range in.Ops {
		if len(in.Ops) > 6 || len(out) > 24 {
			break // polish values only once the history is short
		}
		if o.Op == "adv" && o.D > 1 {
			for _, nd := range []int64{o.D / 2, o.D - 1} {
				c := in
				c.Ops = append([]c30Op{}, in.Ops...)
				c.Ops[i].D = nd
				b, _ := json.Marshal(c)
				out = append(out, b)
			}
		}
		if o.HTTP {
			c := in
			c.Ops = append([]c30Op{}, in.Ops...)
			c.Ops[i].HTTP = false
			b, _ := json.Marshal(c)
			out = append(out, b)
		}
	}
	return out
}
