package drive

import (
	"fmt"
	"math"
	"math/rand"
	"reflect"

	"github.com/honeycombio/refinery/config"
	cq "github.com/honeycombio/refinery/verifharness/coqfmt"
)

// helpers shared by the samp family drivers (C10, C11, C12, C13, C14)

func sampDedupTags(t []string) []string {
	seen := map[string]bool{}
	var out []string
	for _, x := range t {
		if !seen[x] {
			seen[x] = true
			out = append(out, x)
		}
	}
	return out
}

// ---- sampler definitions shared by the C12 and C13 drivers ----

// sampDef describes one dynsampler-backed sampler definition: the sampler type tag used by the Coq
// models (3 dynamic, 4 emadynamic, 5 emathroughput, 6 windowedthroughput, 7 totalthroughput),
// integer-like parameters by Go field name (ints, uints, durations in ns, bools as 0/1), float
// parameters by field name, and the FieldList. Unnamed parameters keep their zero value.
type sampDef struct {
	Type   int                `json:"type"`
	P      map[string]int64   `json:"p,omitempty"`
	F      map[string]float64 `json:"f,omitempty"`
	Fields []string           `json:"fields,omitempty"`
}

func sampNewConfig(typ int) any {
	switch typ {
	case 3:
		return &config.DynamicSamplerConfig{}
	case 4:
		return &config.EMADynamicSamplerConfig{}
	case 5:
		return &config.EMAThroughputSamplerConfig{}
	case 6:
		return &config.WindowedThroughputSamplerConfig{}
	case 7:
		return &config.TotalThroughputSamplerConfig{}
	}
	return nil
}

// sampBuild fills the real configuration struct by reflection and returns it together with the
// parameter vector the models use: every field except FieldList, in declaration order.
func sampBuild(d sampDef) (cfg any, params []int64, err error) {
	cfg = sampNewConfig(d.Type)
	if cfg == nil {
		return nil, nil, fmt.Errorf("bad sampler type %d", d.Type)
	}
	v := reflect.ValueOf(cfg).Elem()
	t := v.Type()
	for i := 0; i < t.NumField(); i++ {
		name := t.Field(i).Name
		f := v.Field(i)
		if name == "FieldList" {
			f.Set(reflect.ValueOf(append([]string{}, d.Fields...)))
			continue
		}
		switch f.Kind() {
		case reflect.Int, reflect.Int64:
			f.SetInt(d.P[name])
			params = append(params, f.Int())
		case reflect.Uint:
			f.SetUint(uint64(d.P[name]))
			params = append(params, int64(f.Uint()))
		case reflect.Bool:
			f.SetBool(d.P[name] != 0)
			if f.Bool() {
				params = append(params, 1)
			} else {
				params = append(params, 0)
			}
		case reflect.Float64:
			f.SetFloat(d.F[name])
			params = append(params, int64(math.Float64bits(f.Float())))
		default:
			return nil, nil, fmt.Errorf("unsupported field %s of kind %s", name, f.Kind())
		}
	}
	return cfg, params, nil
}

func sampDefCoq(d sampDef) (string, error) {
	_, params, err := sampBuild(d)
	if err != nil {
		return "", err
	}
	var fs []string
	for _, f := range d.Fields {
		fs = append(fs, c11Str(f))
	}
	return fmt.Sprintf("(Build_ddef %s %s %s)", cq.N(uint64(d.Type)), cq.ListZ(params), cq.List(fs)), nil
}

var sampFieldLists = [][]string{{"a"}, {"a", "b"}, {"b", "a"}, {"a b"}, {"svc", "status"}, {}}

// one tuning parameter per sampler type that the pinned tree's registry key did not cover
var sampTuning = map[int][]string{
	3: {"ClearFrequency", "MaxKeys", "UseTraceLength"},
	4: {"AdjustmentInterval", "Weight", "AgeOutValue", "BurstMultiple", "BurstDetectionDelay", "MaxKeys", "UseTraceLength"},
	5: {"UseClusterSize", "InitialSampleRate", "AdjustmentInterval", "Weight", "AgeOutValue", "BurstMultiple", "BurstDetectionDelay", "MaxKeys", "UseTraceLength"},
	6: {"UpdateFrequency", "LookbackFrequency", "UseClusterSize", "MaxKeys", "UseTraceLength"},
	7: {"UseClusterSize", "ClearFrequency", "MaxKeys", "UseTraceLength"},
}
var sampRateName = map[int]string{3: "SampleRate", 4: "GoalSampleRate", 5: "GoalThroughputPerSec", 6: "GoalThroughputPerSec", 7: "GoalThroughputPerSec"}
var sampFloatParams = map[string]bool{"Weight": true, "AgeOutValue": true, "BurstMultiple": true}
var sampBoolParams = map[string]bool{"UseClusterSize": true, "UseTraceLength": true}

func sampBaseDef(r *rand.Rand, typ int) sampDef {
	d := sampDef{Type: typ, P: map[string]int64{}, F: map[string]float64{}}
	d.P[sampRateName[typ]] = []int64{10, 10, 10, 100, 7}[r.Intn(5)]
	if typ == 6 {
		d.P["UpdateFrequency"] = 1e9
		d.P["LookbackFrequency"] = 30e9
	}
	if typ == 4 {
		d.F["Weight"] = 0.5
	}
	d.Fields = append([]string{}, sampFieldLists[r.Intn(len(sampFieldLists))]...)
	return d
}

// sampMutate returns a copy of d that differs in exactly one tuning parameter
func sampMutate(r *rand.Rand, d sampDef) sampDef {
	c := sampDef{Type: d.Type, P: map[string]int64{}, F: map[string]float64{}, Fields: append([]string{}, d.Fields...)}
	for k, v := range d.P {
		c.P[k] = v
	}
	for k, v := range d.F {
		c.F[k] = v
	}
	names := sampTuning[d.Type]
	n := names[r.Intn(len(names))]
	switch {
	case sampFloatParams[n]:
		c.F[n] = c.F[n] + 0.25
	case sampBoolParams[n]:
		c.P[n] = 1 - c.P[n]
	case n == "UpdateFrequency" || n == "LookbackFrequency" || n == "ClearFrequency" || n == "AdjustmentInterval":
		c.P[n] = c.P[n] + 1e9
	default:
		c.P[n] = c.P[n] + 1 + int64(r.Intn(5))
	}
	return c
}
