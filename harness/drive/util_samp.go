package drive

// helpers shared by the samp family drivers (C10, C11, C12, C13, C14)

func sampDedupTags(t []string) []string {
	seen := map[string]bool{}
	var out []string
	for _, x := range t {
		if !seen[x] {
			seen[x] = true
			out = append(out, x)
		}
	}
	return out
}
