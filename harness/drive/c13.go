package drive

import (
	"encoding/json"
	"errors"
	"fmt"
	"math/rand"
	"sort"
	"sync"
	"time"

	"github.com/honeycombio/refinery/config"
	"github.com/honeycombio/refinery/logger"
	"github.com/honeycombio/refinery/metrics"
	"github.com/honeycombio/refinery/sample"
	cq "github.com/honeycombio/refinery/verifharness/coqfmt"
)

// C13: the real sample.SamplerFactory with a peer source the driver controls (peer.Peers with
// synchronous callbacks, an error result and an empty result), histories of membership changes,
// lazy creation of top-level and downstream throughput samplers, and ClearDynsamplers (reload).
// Observed after every step: GoalThroughputPerSec of every instance created since the last
// clear and the factory's peer count (verif hooks).

type c13Op struct {
	Op    string   `json:"op"`              // create | clear | peers | create_race
	Down  bool     `json:"down,omitempty"`  // create: downstream sampler of a rules sampler
	Name  string   `json:"name,omitempty"`  // create: sampler key (environment / dataset)
	Def   *sampDef `json:"def,omitempty"`   // create
	Peers int      `json:"peers,omitempty"` // peers: number of peers GetPeers returns from now on
	Err   bool     `json:"err,omitempty"`   // peers: GetPeers fails from now on
	Fire  bool     `json:"fire,omitempty"`  // peers: the registered callback runs
	// create_race: a creation during which the membership changes to Peers / Err and the callback is
	// delivered while the creation is inside GetPeers (see c13Peers.GetPeers)
}
type c13Input struct {
	Ops []c13Op `json:"ops"`
}

func init() {
	Register(&Driver{ID: "C13", Gen: c13Gen, Run: c13Run, Shrink: c13Shrink})
}

// ---------------------------------------------------------------- controllable peers
type c13Peers struct {
	mu        sync.Mutex
	n         int
	err       bool
	callbacks []func()
	// one-shot: during the next GetPeers call the membership changes to (raceN, raceErr) and the
	// notification is delivered on another goroutine; the call itself still answers with the OLD
	// membership (it started before the change). raceDone is closed when the notification's
	// callbacks have returned.
	race     bool
	raceN    int
	raceErr  bool
	raceDone chan struct{}
	// whether the notification completed while GetPeers was still being held (i.e. it did not have
	// to wait for the caller of GetPeers): recorded for the evidence only
	raceOvertook bool
}

func (p *c13Peers) answer(n int, err bool) ([]string, error) {
	if err {
		return nil, errors.New("peer lookup failed")
	}
	out := make([]string, n)
	for i := range out {
		out[i] = fmt.Sprintf("http://peer%d:8081", i)
	}
	return out, nil
}

func (p *c13Peers) GetPeers() ([]string, error) {
	p.mu.Lock()
	if !p.race {
		n, e := p.n, p.err
		p.mu.Unlock()
		return p.answer(n, e)
	}
	// the racing call: answer with the old membership, but first let the change and its
	// notification happen
	p.race = false
	oldN, oldErr := p.n, p.err
	p.n, p.err = p.raceN, p.raceErr
	cbs := append([]func(){}, p.callbacks...)
	done := make(chan struct{})
	p.raceDone = done
	p.mu.Unlock()
	go func() {
		for _, cb := range cbs {
			cb()
		}
		close(done)
	}()
	// If the caller holds the factory lock (as the source does), the notification cannot finish
	// before we return; give it a moment to show whether it can.
	select {
	case <-done:
		p.mu.Lock()
		p.raceOvertook = true
		p.mu.Unlock()
	case <-time.After(30 * time.Millisecond):
	}
	return p.answer(oldN, oldErr)
}
func (p *c13Peers) GetInstanceID() (string, error) { return "http://peer0:8081", nil }
func (p *c13Peers) RegisterUpdatedPeersCallback(cb func()) {
	p.mu.Lock()
	defer p.mu.Unlock()
	p.callbacks = append(p.callbacks, cb)
}
func (p *c13Peers) Ready() error { return nil }
func (p *c13Peers) Start() error { return nil }

// ---------------------------------------------------------------- generator
func c13GenDef(r *rand.Rand, peers []int) sampDef {
	typ := []int{5, 6, 7, 7, 5, 6, 3, 4}[r.Intn(8)]
	d := sampBaseDef(r, typ)
	if typ >= 5 {
		n := int64(peers[r.Intn(len(peers))])
		goals := []int64{1, 2, 7, 100, 1000, n - 1, n, n + 1, 2*n - 1, 2 * n, 0}
		g := goals[r.Intn(len(goals))]
		if g < 0 {
			g = 1
		}
		d.P["GoalThroughputPerSec"] = g
		d.P["UseClusterSize"] = int64(r.Intn(2))
		if g == 0 && r.Intn(2) == 0 {
			d.P["UseClusterSize"] = 1
		}
	}
	return d
}

func c13Gen(r *rand.Rand, tier string, i int) any {
	var in c13Input
	peerCounts := []int{1, 2, 3, 5, 8, 100}
	names := []string{"prod", "dev", "pfx.ds"}
	var pool []sampDef
	for k := 0; k < 3; k++ {
		d := c13GenDef(r, peerCounts)
		pool = append(pool, d)
		if d.Type >= 5 { // the same definition with UseClusterSize flipped: "mixtures"
			f := sampMutate(r, d)
			f.P = map[string]int64{}
			for a, b := range d.P {
				f.P[a] = b
			}
			f.F = d.F
			f.P["UseClusterSize"] = 1 - d.P["UseClusterSize"]
			pool = append(pool, f)
		}
	}
	nops := 4 + r.Intn(10)
	if tier == "thorough" {
		nops += r.Intn(25)
	}
	for k := 0; k < nops; k++ {
		switch x := r.Intn(100); {
		case x < 8 && i%3 == 0: // a creation racing with a membership change (at most a few per case: each waits 30 ms)
			d := pool[r.Intn(len(pool))]
			o := c13Op{Op: "create_race", Down: r.Intn(2) == 0, Name: names[r.Intn(len(names))], Def: &d, Peers: peerCounts[r.Intn(len(peerCounts))]}
			if r.Intn(10) == 0 {
				o.Err = true
			}
			in.Ops = append(in.Ops, o)
		case x < 45:
			d := pool[r.Intn(len(pool))]
			in.Ops = append(in.Ops, c13Op{Op: "create", Down: r.Intn(2) == 0, Name: names[r.Intn(len(names))], Def: &d})
		case x < 55:
			in.Ops = append(in.Ops, c13Op{Op: "clear"})
		default:
			o := c13Op{Op: "peers", Peers: peerCounts[r.Intn(len(peerCounts))], Fire: r.Intn(10) < 8}
			switch r.Intn(8) {
			case 0:
				o.Err = true
			case 1:
				o.Peers = 0
			}
			in.Ops = append(in.Ops, o)
		}
	}
	// the reload pattern: several peers, a UseClusterSize definition is created, the configuration is
	// reloaded (ClearDynsamplers) and the same definition is created again with the membership unchanged
	if r.Intn(3) == 0 {
		var ucs []sampDef
		for _, d := range pool {
			if d.Type >= 5 && d.P["UseClusterSize"] != 0 {
				ucs = append(ucs, d)
			}
		}
		if len(ucs) > 0 {
			d := ucs[r.Intn(len(ucs))]
			if d.P["GoalThroughputPerSec"] < 2 {
				d.P["GoalThroughputPerSec"] = 100
			}
			down, name := r.Intn(2) == 0, names[r.Intn(len(names))]
			in.Ops = append(in.Ops,
				c13Op{Op: "peers", Peers: []int{2, 3, 4, 5, 8}[r.Intn(5)], Fire: true},
				c13Op{Op: "create", Down: down, Name: name, Def: &d},
				c13Op{Op: "clear"},
				c13Op{Op: "create", Down: down, Name: name, Def: &d})
		}
	}
	return in
}

// ---------------------------------------------------------------- run
func c13Choice(d sampDef) (*config.V2SamplerChoice, *config.RulesBasedDownstreamSampler, error) {
	cfg, _, err := sampBuild(d)
	if err != nil {
		return nil, nil, err
	}
	ch := &config.V2SamplerChoice{}
	ds := &config.RulesBasedDownstreamSampler{}
	switch c := cfg.(type) {
	case *config.DynamicSamplerConfig:
		ch.DynamicSampler, ds.DynamicSampler = c, c
	case *config.EMADynamicSamplerConfig:
		ch.EMADynamicSampler, ds.EMADynamicSampler = c, c
	case *config.EMAThroughputSamplerConfig:
		ch.EMAThroughputSampler, ds.EMAThroughputSampler = c, c
	case *config.WindowedThroughputSamplerConfig:
		ch.WindowedThroughputSampler, ds.WindowedThroughputSampler = c, c
	case *config.TotalThroughputSamplerConfig:
		ch.TotalThroughputSampler, ds.TotalThroughputSampler = c, c
	}
	return ch, ds, nil
}

func c13Run(raw json.RawMessage) (Case, error) {
	var in c13Input
	if err := json.Unmarshal(raw, &in); err != nil {
		return Case{}, err
	}
	peers := &c13Peers{n: 1}
	mc := &config.MockConfig{Samplers: map[string]*config.V2SamplerChoice{
		"__default__": {DeterministicSampler: &config.DeterministicSamplerConfig{SampleRate: 1}}}}
	factory := &sample.SamplerFactory{Config: mc, Logger: &logger.NullLogger{}, Metrics: &metrics.NullMetrics{}, Peers: peers}
	factory.Start()
	defer factory.Stop()

	ids := map[any]uint64{}
	type live struct {
		id uint64
		s  sample.Sampler
	}
	var alive []live
	var ops, obs, human, tags []string
	sawUCS, sawPlain, sawChange, sawRace := false, false, false, false
	for _, o := range in.Ops {
		created := "None"
		switch o.Op {
		case "create", "create_race":
			if o.Def == nil {
				return Case{}, fmt.Errorf("create without def")
			}
			ch, ds, err := c13Choice(*o.Def)
			if err != nil {
				return Case{}, err
			}
			if o.Op == "create_race" {
				peers.mu.Lock()
				peers.race, peers.raceN, peers.raceErr, peers.raceDone = true, o.Peers, o.Err, nil
				peers.mu.Unlock()
			}
			var s sample.Sampler
			if o.Down {
				s = factory.GetDownstreamSampler(o.Name, ds)
			} else {
				mc.Mux.Lock()
				mc.Samplers[o.Name] = ch
				mc.Mux.Unlock()
				s = factory.GetSamplerImplementationForKey(o.Name)
			}
			if s == nil {
				return Case{}, fmt.Errorf("sampler not created")
			}
			p := sample.VerifC12Dynsampler(s)
			n, ok := ids[p]
			if !ok {
				n = uint64(len(ids))
				ids[p] = n
			}
			known := false
			for _, l := range alive {
				if l.id == n {
					known = true
				}
			}
			if !known {
				alive = append(alive, live{n, s})
			}
			created = cq.Some(cq.N(n))
			dc, err := sampDefCoq(*o.Def)
			if err != nil {
				return Case{}, err
			}
			sc := "Top"
			if o.Down {
				sc = "Down"
			}
			if o.Op == "create_race" {
				// wait for the notification that was delivered during the creation
				peers.mu.Lock()
				done, armed := peers.raceDone, peers.race
				peers.mu.Unlock()
				if armed || done == nil {
					return Case{}, fmt.Errorf("the creation did not call GetPeers")
				}
				select {
				case <-done:
				case <-time.After(20 * time.Second):
					return Case{}, fmt.Errorf("the notification delivered during a creation never returned")
				}
				src := cq.Some(cq.Z(int64(o.Peers)))
				if o.Err {
					src = "None"
				}
				ops = append(ops, fmt.Sprintf("(FCreateRace %s %s %s %s)", sc, c11Str(o.Name), dc, src))
				sawRace = true
				if !o.Err && o.Peers > 1 {
					sawChange = true
				}
			} else {
				ops = append(ops, fmt.Sprintf("(FCreate %s %s %s)", sc, c11Str(o.Name), dc))
			}
			if o.Def.Type >= 5 {
				if o.Def.P["UseClusterSize"] != 0 {
					sawUCS = true
				} else {
					sawPlain = true
				}
			}
		case "clear":
			factory.ClearDynsamplers()
			alive = nil
			ops = append(ops, "FClear")
		case "peers":
			peers.mu.Lock()
			peers.n, peers.err = o.Peers, o.Err
			cbs := append([]func(){}, peers.callbacks...)
			peers.mu.Unlock()
			if o.Fire {
				for _, cb := range cbs {
					cb()
				}
			}
			src := cq.Some(cq.Z(int64(o.Peers)))
			if o.Err {
				src = "None"
			}
			ops = append(ops, fmt.Sprintf("(FPeers %s %s)", src, cq.Bool(o.Fire)))
			if !o.Err && o.Peers > 1 {
				sawChange = true
			}
		default:
			return Case{}, fmt.Errorf("bad op %q", o.Op)
		}
		sort.Slice(alive, func(a, b int) bool { return alive[a].id < alive[b].id })
		var gs, hg []string
		for _, l := range alive {
			g, _ := sample.VerifC13Goal(l.s)
			gs = append(gs, cq.Pair(cq.N(l.id), cq.Z(int64(g))))
			hg = append(hg, fmt.Sprintf("#%d=%d", l.id, g))
		}
		pc := sample.VerifC13PeerCount(factory)
		obs = append(obs, fmt.Sprintf("(Build_obs %s %s %s)", created, cq.List(gs), cq.Z(int64(pc))))
		human = append(human, fmt.Sprintf("%s -> created %s goals %v peerCount %d", ops[len(ops)-1], created, hg, pc))
	}
	if sawUCS {
		tags = append(tags, "use-cluster-size")
	}
	if sawPlain {
		tags = append(tags, "plain-throughput")
	}
	if sawUCS && sawPlain {
		tags = append(tags, "mixture")
	}
	if sawChange {
		tags = append(tags, "membership-change")
	}
	if sawRace {
		tags = append(tags, "creation-racing-with-membership-change")
	}
	coq := fmt.Sprintf("(Build_case %s %s)", cq.List(ops), cq.List(obs))
	b, _ := json.Marshal(in)
	return Case{Coq: coq, Key: string(b), Nontriv: sawUCS && sawChange, Tags: sampDedupTags(tags),
		Summary: map[string]any{"history": human}}, nil
}

func c13Shrink(raw json.RawMessage) []json.RawMessage {
	var in c13Input
	if json.Unmarshal(raw, &in) != nil {
		return nil
	}
	var out []json.RawMessage
	for i := range in.Ops {
		c := c13Input{Ops: append(append([]c13Op{}, in.Ops[:i]...), in.Ops[i+1:]...)}
		b, _ := json.Marshal(c)
		out = append(out, b)
	}
	return out
}
