package drive

import (
	"fmt"
	"io"
	"net"
	"net/http"
	"strings"
	"sync"
	"time"

	"github.com/jonboulle/clockwork"
	"go.opentelemetry.io/otel/trace/noop"

	"github.com/honeycombio/refinery/collect"
	"github.com/honeycombio/refinery/config"
	"github.com/honeycombio/refinery/internal/health"
	"github.com/honeycombio/refinery/logger"
	"github.com/honeycombio/refinery/metrics"
	"github.com/honeycombio/refinery/route"
	"github.com/honeycombio/refinery/sharder"
	"github.com/honeycombio/refinery/transmit"
	"github.com/honeycombio/refinery/types"
)

// ---- router: HTTP ingestion + query endpoints + health endpoints on a real listener, then Stop ----
func c35FreePort() int {
	l, err := net.Listen("tcp", "127.0.0.1:0")
	if err != nil {
		panic(err)
	}
	defer l.Close()
	return l.Addr().(*net.TCPAddr).Port
}

func c35Router(in c35Input, rec *c35Rec) {
	var r *route.Router
	var base string
	mc := collect.NewMockCollector()
	drain := make(chan struct{})
	var dwg sync.WaitGroup
	dwg.Add(1)
	go func() {
		defer dwg.Done()
		for {
			select {
			case <-mc.Spans:
			case <-drain:
				return
			}
		}
	}()
	m := &metrics.MockMetrics{}
	m.Start()
	utx := &transmit.MockTransmission{Capacity: 10000}
	utx.Start()
	ptx := &transmit.MockTransmission{Capacity: 10000}
	ptx.Start()
	h := &health.Health{Clock: clockwork.NewRealClock()}
	h.Start()
	ok := false
	for attempt := 0; attempt < 5 && !ok; attempt++ {
		port, pport := c35FreePort(), c35FreePort()
		conf := &config.MockConfig{
			GetListenAddrVal: fmt.Sprintf("127.0.0.1:%d", port), GetPeerListenAddrVal: fmt.Sprintf("127.0.0.1:%d", pport),
			TraceIdFieldNames: []string{"trace.trace_id"}, ParentIdFieldNames: []string{"trace.parent_id"},
			QueryAuthToken: "tok", CfgMetadata: []config.ConfigMetadata{{Type: "config", ID: "x", Hash: "h"}},
			GetSamplerTypeVal: &config.DeterministicSamplerConfig{SampleRate: 1},
		}
		r = &route.Router{
			Config: conf, Logger: &logger.NullLogger{}, Health: h, HTTPTransport: http.DefaultTransport.(*http.Transport),
			UpstreamTransmission: utx, PeerTransmission: ptx,
			Sharder:   &sharder.MockSharder{Self: &sharder.TestShard{Addr: fmt.Sprintf("http://localhost:%d", pport)}},
			Collector: mc, Metrics: m, Tracer: noop.NewTracerProvider().Tracer("test"),
		}
		r.SetVersion("test")
		r.SetType(types.RouterTypeIncoming)
		r.LnS()
		base = fmt.Sprintf("http://127.0.0.1:%d", port)
		for k := 0; k < 100; k++ {
			c, err := net.DialTimeout("tcp", conf.GetListenAddrVal, 50*time.Millisecond)
			if err == nil {
				c.Close()
				ok = true
				break
			}
			time.Sleep(10 * time.Millisecond)
		}
		if !ok {
			r.Stop()
		}
	}
	if !ok {
		panic("router did not start listening")
	}
	client := &http.Client{Timeout: 5 * time.Second}
	do := func(method, path, body string, hdr map[string]string) {
		req, _ := http.NewRequest(method, base+path, strings.NewReader(body))
		for k, v := range hdr {
			req.Header.Set(k, v)
		}
		resp, err := client.Do(req)
		if err == nil {
			io.Copy(io.Discard, resp.Body)
			resp.Body.Close()
		}
	}
	var wg sync.WaitGroup
	ops := max(20, in.Ops/5)
	if c35Has(in, "batch") {
		rec.run(&wg, "batch", in.G, ops, func(w, i int) {
			do("POST", "/1/batch/ds", fmt.Sprintf(`[{"data":{"trace.trace_id":"t%d-%d","foo":"bar"}},{"data":{"x":%d}}]`, w, i%17, i),
				map[string]string{"X-Honeycomb-Team": c35LegacyKey, "Content-Type": "application/json"})
		})
	}
	if c35Has(in, "event") {
		rec.run(&wg, "event", in.G, ops, func(w, i int) {
			do("POST", "/1/events/ds", fmt.Sprintf(`{"trace.trace_id":"e%d-%d","n":%d}`, w, i%13, i),
				map[string]string{"X-Honeycomb-Team": c35LegacyKey, "Content-Type": "application/json"})
		})
	}
	if c35Has(in, "query") {
		rec.run(&wg, "query", in.G, ops, func(w, i int) {
			hdr := map[string]string{"X-Honeycomb-Refinery-Query": "tok"}
			switch i % 3 {
			case 0:
				do("GET", "/query/configmetadata", "", hdr)
			case 1:
				do("GET", "/query/allrules/json", "", hdr)
			default:
				do("GET", "/query/rules/yaml/ds", "", hdr)
			}
		})
	}
	if c35Has(in, "health") {
		rec.run(&wg, "health", 1, ops, func(w, i int) {
			do("GET", []string{"/alive", "/ready", "/version"}[i%3], "", nil)
		})
	}
	wg.Wait()
	r.Stop()
	close(drain)
	dwg.Wait()
	utx.Stop()
	ptx.Stop()
	h.Stop()
}
