package drive

// Shared helpers of the "cross" family (C17, C16, C28, C35): an in-memory network and in-process
// refinery nodes built from the REAL routers / sharder / transmissions.

import (
	"bytes"
	"context"
	"encoding/json"
	"fmt"
	"net"
	"net/http"
	"net/http/httptest"
	"net/url"
	"sync"
	"time"

	"github.com/honeycombio/refinery/collect"
	"github.com/honeycombio/refinery/config"
	"github.com/honeycombio/refinery/internal/health"
	"github.com/honeycombio/refinery/internal/peer"
	"github.com/honeycombio/refinery/logger"
	"github.com/honeycombio/refinery/metrics"
	"github.com/honeycombio/refinery/route"
	"github.com/honeycombio/refinery/sharder"
	"github.com/honeycombio/refinery/transmit"
	"github.com/honeycombio/refinery/types"
	"go.opentelemetry.io/otel/trace/noop"
)

// ---------------------------------------------------------------- in-memory network

type crossMemListener struct {
	addr   string
	ch     chan net.Conn
	closed chan struct{}
	once   sync.Once
}

type crossMemAddr string

func (a crossMemAddr) Network() string { return "mem" }
func (a crossMemAddr) String() string  { return string(a) }

func (l *crossMemListener) Accept() (net.Conn, error) {
	select {
	case c := <-l.ch:
		return c, nil
	case <-l.closed:
		return nil, fmt.Errorf("listener closed")
	}
}
func (l *crossMemListener) Close() error   { l.once.Do(func() { close(l.closed) }); return nil }
func (l *crossMemListener) Addr() net.Addr { return crossMemAddr(l.addr) }

// crossMemNet maps "host:port" to in-memory listeners; its Transport dials them.
type crossMemNet struct {
	mu sync.Mutex
	ls map[string]*crossMemListener
}

func newCrossMemNet() *crossMemNet { return &crossMemNet{ls: map[string]*crossMemListener{}} }

func (n *crossMemNet) Listen(hostport string) *crossMemListener {
	n.mu.Lock()
	defer n.mu.Unlock()
	l := &crossMemListener{addr: hostport, ch: make(chan net.Conn), closed: make(chan struct{})}
	n.ls[hostport] = l
	return l
}

func (n *crossMemNet) DialContext(ctx context.Context, network, addr string) (net.Conn, error) {
	n.mu.Lock()
	l := n.ls[addr]
	n.mu.Unlock()
	if l == nil {
		return nil, fmt.Errorf("memnet: no listener at %q", addr)
	}
	c1, c2 := net.Pipe()
	select {
	case l.ch <- c2:
		return c1, nil
	case <-l.closed:
		return nil, fmt.Errorf("memnet: listener at %q closed", addr)
	case <-ctx.Done():
		return nil, ctx.Err()
	}
}

func (n *crossMemNet) Transport() *http.Transport {
	return &http.Transport{DialContext: n.DialContext, MaxIdleConnsPerHost: 4}
}

// Serve h at the host:port of rawURL ("http://host:port"). Returns a stop function.
func (n *crossMemNet) Serve(rawURL string, h http.Handler) (func(), error) {
	u, err := url.Parse(rawURL)
	if err != nil || u.Host == "" {
		return nil, fmt.Errorf("memnet: bad url %q", rawURL)
	}
	hp := u.Host
	if u.Port() == "" {
		hp = u.Host + ":80"
	}
	l := n.Listen(hp)
	srv := &http.Server{Handler: h}
	go srv.Serve(l)
	return func() { srv.Close(); l.Close() }, nil
}

// ---------------------------------------------------------------- recording doubles

type transmitT = transmit.Transmission
type httpHandler = http.Handler

type crossHop struct {
	From, To string
	TraceID  string
	Sid      int64
}

// crossRecTx records every enqueue (node, destination host at enqueue time) and delegates.
type crossRecTx struct {
	Node  string
	Inner transmit.Transmission
	mu    *sync.Mutex
	log   *[]crossHop
}

func crossSid(ev *types.Event) int64 {
	v := ev.Data.Get("sid")
	switch x := v.(type) {
	case int64:
		return x
	case float64:
		return int64(x)
	case int:
		return int64(x)
	case uint64:
		return int64(x)
	}
	return -1
}

func (t *crossRecTx) EnqueueEvent(ev *types.Event) {
	t.mu.Lock()
	*t.log = append(*t.log, crossHop{From: t.Node, To: ev.APIHost, TraceID: ev.Data.MetaTraceID, Sid: crossSid(ev)})
	t.mu.Unlock()
	if t.Inner != nil {
		t.Inner.EnqueueEvent(ev)
	}
}
func (t *crossRecTx) EnqueueSpan(sp *types.Span) { t.EnqueueEvent(sp.Event) }

type crossCollected struct {
	Node    string
	TraceID string
	Sid     int64
	Via     string // incoming | peer
}

// crossRecCollector is a collect.Collector that only records which node's collector got which span.
type crossRecCollector struct {
	Node string
	mu   *sync.Mutex
	log  *[]crossCollected
}

func (c *crossRecCollector) add(sp *types.Span, via string) error {
	c.mu.Lock()
	*c.log = append(*c.log, crossCollected{Node: c.Node, TraceID: sp.TraceID, Sid: crossSid(sp.Event), Via: via})
	c.mu.Unlock()
	return nil
}
func (c *crossRecCollector) AddSpan(sp *types.Span) error         { return c.add(sp, "incoming") }
func (c *crossRecCollector) AddSpanFromPeer(sp *types.Span) error { return c.add(sp, "peer") }
func (c *crossRecCollector) Stressed() bool                       { return false }
func (c *crossRecCollector) GetStressedSampleRate(string) (uint, bool, string) {
	return 0, false, ""
}
func (c *crossRecCollector) ProcessSpanImmediately(*types.Span) (bool, bool) { return false, false }

var _ collect.Collector = (*crossRecCollector)(nil)

// ---------------------------------------------------------------- nodes

const crossLegacyKey = "c9945edf5d245834089a1bd6cc9ad01e" // 32 hex chars: "classic" key, no environment lookup

type crossNode struct {
	Addr     string
	Cfg      *config.MockConfig
	Sharder  *sharder.DeterministicSharder
	Peers    *peer.MockPeers
	Incoming *route.Router
	PeerR    *route.Router
	PeerTx   *transmit.DirectTransmission
	inH      http.Handler
	peerH    http.Handler
	stops    []func()
}

type crossNodeOpts struct {
	Addr       string
	PeerList   []string
	Net        *crossMemNet
	Cfg        *config.MockConfig // optional; defaults filled in
	Collector  collect.Collector
	Upstream   transmit.Transmission
	WrapPeerTx func(inner transmit.Transmission) transmit.Transmission // optional recorder
	WrapPeerH  func(h http.Handler) http.Handler                       // optional recorder around the peer router's handler
	RouterLog  logger.Logger                                           // optional logger for the two routers (default: NullLogger)
	BatchDelay time.Duration
}

func crossDefaultCfg() *config.MockConfig {
	return &config.MockConfig{
		GetListenAddrVal:     "127.0.0.1:0",
		GetPeerListenAddrVal: "127.0.0.1:0",
		GetHoneycombAPIVal:   "http://honeycomb.test:80",
		TraceIdFieldNames:    []string{"trace.trace_id"},
		ParentIdFieldNames:   []string{"trace.parent_id"},
		GetTracesConfigVal: config.TracesConfig{
			SendTicker:   config.Duration(2 * time.Millisecond),
			SendDelay:    config.Duration(1 * time.Millisecond),
			TraceTimeout: config.Duration(10 * time.Millisecond),
			MaxBatchSize: 500,
		},
	}
}

// crossStartNode assembles the real sharder, peer transmission and both routers of one node.
func crossStartNode(o crossNodeOpts) (*crossNode, error) {
	n := &crossNode{Addr: o.Addr, Cfg: o.Cfg}
	if n.Cfg == nil {
		n.Cfg = crossDefaultCfg()
	}
	lg := &logger.NullLogger{}
	met := &metrics.NullMetrics{}
	n.Peers = peer.NewMockPeers(o.PeerList, o.Addr)
	n.Sharder = &sharder.DeterministicSharder{Config: n.Cfg, Logger: lg, Peers: n.Peers}
	if err := n.Sharder.Start(); err != nil {
		return nil, err
	}
	bd := o.BatchDelay
	if bd == 0 {
		bd = 4 * time.Millisecond
	}
	n.PeerTx = transmit.NewDirectTransmission(types.TransmitTypePeer, o.Net.Transport(), 500, bd, 2*time.Second, false, nil)
	n.PeerTx.Config, n.PeerTx.Logger, n.PeerTx.Metrics, n.PeerTx.Version = n.Cfg, lg, met, "verif"
	if err := n.PeerTx.Start(); err != nil {
		return nil, err
	}
	n.stops = append(n.stops, func() { n.PeerTx.Stop() })
	var ptx transmit.Transmission = n.PeerTx
	if o.WrapPeerTx != nil {
		ptx = o.WrapPeerTx(n.PeerTx)
	}
	mk := func(t types.RouterType) *route.Router {
		var rl logger.Logger = lg
		if o.RouterLog != nil {
			rl = o.RouterLog
		}
		r := &route.Router{
			Config: n.Cfg, Logger: rl, HTTPTransport: o.Net.Transport(),
			UpstreamTransmission: o.Upstream, PeerTransmission: ptx,
			Sharder: n.Sharder, Collector: o.Collector, Metrics: met,
			Tracer: noop.NewTracerProvider().Tracer("verif"),
			Health: &health.MockHealthReporter{},
		}
		r.SetType(t)
		r.LnS()
		n.stops = append(n.stops, func() { r.Stop() })
		return r
	}
	n.Incoming = mk(types.RouterTypeIncoming)
	n.PeerR = mk(types.RouterTypePeer)
	n.inH = route.VerifC17Handler(n.Incoming)
	ph := route.VerifC17Handler(n.PeerR)
	if n.inH == nil || ph == nil {
		n.Stop()
		return nil, fmt.Errorf("router handler not built")
	}
	n.peerH = ph
	if o.WrapPeerH != nil {
		ph = o.WrapPeerH(ph)
	}
	stop, err := o.Net.Serve(o.Addr, ph)
	if err != nil {
		n.Stop()
		return nil, err
	}
	n.stops = append(n.stops, stop)
	return n, nil
}

func (n *crossNode) Stop() {
	for i := len(n.stops) - 1; i >= 0; i-- {
		n.stops[i]()
	}
	n.stops = nil
}

type crossBatchEvent struct {
	Time       string         `json:"time,omitempty"`
	SampleRate int            `json:"samplerate,omitempty"`
	Data       map[string]any `json:"data"`
}

// PostBatch sends a JSON batch to the node's INCOMING router handler (as a client would) and
// returns status code and body.
func (n *crossNode) PostBatch(dataset, apiKey string, evs []crossBatchEvent) (int, string) {
	return crossPostBatch(n.inH, dataset, apiKey, evs)
}

func crossPostBatch(h http.Handler, dataset, apiKey string, evs []crossBatchEvent) (int, string) {
	body, _ := json.Marshal(evs)
	req := httptest.NewRequest("POST", "/1/batch/"+url.PathEscape(dataset), bytes.NewReader(body))
	req.Header.Set("Content-Type", "application/json")
	req.Header.Set("X-Honeycomb-Team", apiKey)
	req.Header.Set("User-Agent", "verif-client")
	w := httptest.NewRecorder()
	h.ServeHTTP(w, req)
	return w.Code, w.Body.String()
}

// crossWaitStable polls count() until it reaches want (or timeout), then waits settle and re-reads.
func crossWaitStable(count func() int, want int, timeout, settle time.Duration) int {
	deadline := time.Now().Add(timeout)
	for time.Now().Before(deadline) {
		if count() >= want {
			break
		}
		time.Sleep(2 * time.Millisecond)
	}
	time.Sleep(settle)
	return count()
}
