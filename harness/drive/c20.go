package drive

// C20: forwarded events carry exactly the client's fields.
//
// One case = one client request (a /1/batch body with 1-3 events, or /1/events requests) sent to the
// REAL route.Router handlers, routed by the real processEvent to the real DirectTransmission
// (upstream or peer) or to a scripted collector which applies sampler-style MemoizeFields / Set calls
// and then hands the span to the real upstream transmission.  The observation is the data map of each
// event in the msgpack bodies received by a fake Honeycomb / peer endpoint, decoded by the harness's
// own msgpack decoder.  Events are matched to inputs through their (exact) timestamps.

import (
	"encoding/json"
	"fmt"
	"math"
	"math/rand"
	"sort"
	"strconv"
	"strings"
	"time"

	"github.com/honeycombio/refinery/config"
	cq "github.com/honeycombio/refinery/verifharness/coqfmt"
)

type c20Op struct {
	Op   string   `json:"op"` // memoize | set
	Keys []string `json:"keys,omitempty"`
	K    string   `json:"k,omitempty"`
	V    *mpVal   `json:"v,omitempty"`
}

type c20Event struct {
	Fields []mpField `json:"fields"`
	Ops    []c20Op   `json:"ops,omitempty"`
	W      int       `json:"w,omitempty"` // width hint of the data map header
	Rate   int64     `json:"rate,omitempty"`
}

type c20Input struct {
	Path        string     `json:"path"` // batch-msgp | batch-json | event-json | event-msgp | otlp-msgp
	TraceNames  []string   `json:"trace_names"`
	ParentNames []string   `json:"parent_names"`
	KeyFields   []string   `json:"key_fields"`
	UA          string     `json:"ua,omitempty"`
	PeerTrace   []string   `json:"peer_trace,omitempty"`
	Events      []c20Event `json:"events"`
	Deliv       string     `json:"deliv,omitempty"` // delivery scenario on the real DirectTransmission instead of a request
	DelivSeed   int64      `json:"deliv_seed,omitempty"`
}

func init() {
	Register(&Driver{ID: "C20", Gen: c20Gen, Run: c20Run, Shrink: c20Shrink})
}

const c20BaseTime = 1_700_000_000

// ------------------------------------------------------------------ generator
var c20Plain = []string{"a", "b", "c", "d", "name", "http.status", "duration_ms", "service.name", "", "x y",
	"ключ", "q\"uote\\", "meta.custom", "meta.dryrun.sample_rate", "meta.trace_id ", "Meta.trace_id", "meta.", "time", "data"}
var c20Reserved = []string{"meta.signal_type", "meta.trace_id", "meta.annotation_type", "meta.refinery.probe", "meta.refinery.root",
	"meta.refinery.incoming_user_agent", "meta.refinery.local_hostname", "meta.stressed", "meta.refinery.reason",
	"meta.refinery.send_reason", "meta.span_event_count", "meta.span_link_count", "meta.span_count", "meta.event_count",
	"meta.refinery.original_sample_rate", "meta.refinery.final_sample_rate", "meta.refinery.sample_key"}
var c20ReservedType = map[string]string{"meta.refinery.probe": "bool", "meta.refinery.root": "bool", "meta.stressed": "bool",
	"meta.span_event_count": "int", "meta.span_link_count": "int", "meta.span_count": "int", "meta.event_count": "int",
	"meta.refinery.original_sample_rate": "int", "meta.refinery.final_sample_rate": "int"}

var c20Ints = []int64{0, 1, -1, 5, 127, 128, 255, 256, -32, -33, -128, -129, 32767, 32768, -32768, -32769, 65535, 65536,
	2147483647, 2147483648, -2147483648, -2147483649, 4294967295, 4294967296, math.MaxInt64, math.MinInt64, 1700000000}
var c20Uints = []uint64{0, 1, 127, 128, 255, 256, 65535, 65536, 4294967295, 4294967296, math.MaxInt64, math.MaxInt64 + 1, math.MaxUint64}
var c20F64 = []float64{0, math.Copysign(0, -1), 1, -1, 1.5, 0.1, 1e308, 5e-324, math.Inf(1), math.Inf(-1), 3.141592653589793, 1 << 53, 200, 1e15}
var c20F32 = []float32{0, 1, -1, 1.5, 0.1, 3.4028235e38, 1e-45, float32(math.Inf(1)), 16777216, 200}
var c20Strs = []string{"", "a", "hello", "GET", "t1", "é世\U0001F600", "line\nbreak\ttab", "null", "1.5", "true", "/api/v1/users", "200"}
var c20LongStrs = []string{strings.Repeat("s", 31), strings.Repeat("s", 32), strings.Repeat("L", 255), strings.Repeat("M", 256)}

func c20Str(r *rand.Rand) string {
	if r.Intn(20) == 0 {
		return c20Pick(r, c20LongStrs)
	}
	return c20Pick(r, c20Strs)
}
var c20Times = [][2]int64{{0, 0}, {1, 0}, {1700000000, 0}, {1700000000, 123456789}, {4294967295, 0}, {4294967296, 0}, {4294967295, 1},
	{1<<34 - 1, 999999999}, {1 << 34, 0}, {-1, 0}, {-1, 999999999}, {-62135596800, 0}, {253402300799, 999999999}, {0, 1}}
var c20Nums = []string{"0", "-0", "1", "-1", "1.5", "200", "1e3", "1E+3", "1e-3", "0.1", "0.30000000000000004", "123456789012345678901234567890",
	"9007199254740993", "9.007199254740993", "4.9e-324", "5e-324", "1e-400", "1.7976931348623157e308", "2.2250738585072011e-308",
	"123456789.123456789123456789", "7e-5", "3e-5", "1.1e-5", "12345.678e-7", "1e22", "1e23", "8.41e21", "0.000001", "100000000000000000000",
	"-12.5e+2", "4503599627370497.5", "1.0000000000000002", "6.02214076e23", "0.1e1", "17", "42.0"}

func c20Pick[T any](r *rand.Rand, xs []T) T { return xs[r.Intn(len(xs))] }

func c20NumVal(r *rand.Rand) mpVal {
	var s string
	if r.Intn(4) == 0 {
		// random decimal with exponent
		s = strconv.FormatInt(int64(r.Intn(2000000))-1000000, 10)
		if r.Intn(2) == 0 {
			s += "." + strconv.Itoa(r.Intn(1000000))
		}
		if r.Intn(2) == 0 {
			s += "e" + strconv.Itoa(r.Intn(60)-30)
		}
	} else {
		s = c20Pick(r, c20Nums)
	}
	f, _ := strconv.ParseFloat(s, 64)
	return mpVal{T: "f64", Num: s, U: math.Float64bits(f)}
}

// a value for the given wire format ("msgp" or "json")
func c20Val(r *rand.Rand, mode string, depth int) mpVal {
	w := []int{0, 0, 0, 1, 2, 4, 8}[r.Intn(7)]
	if mode == "json" {
		switch x := r.Intn(100); {
		case x < 8:
			return mpVal{T: "nil"}
		case x < 18:
			return mpVal{T: "bool", B: r.Intn(2) == 0}
		case x < 48:
			return c20NumVal(r)
		case x < 78 || depth >= 3:
			return mpVal{T: "str", S: []byte(c20Str(r)), Esc: r.Intn(3)}
		case x < 89:
			return mpVal{T: "arr", A: c20Vals(r, mode, depth+1)}
		default:
			return mpVal{T: "map", M: c20NestedMap(r, mode, depth+1), Esc: r.Intn(3)}
		}
	}
	switch x := r.Intn(100); {
	case x < 5:
		return mpVal{T: "nil"}
	case x < 12:
		return mpVal{T: "bool", B: r.Intn(2) == 0}
	case x < 27:
		return mpVal{T: "int", I: c20Pick(r, c20Ints), W: w}
	case x < 36:
		return mpVal{T: "uint", U: c20Pick(r, c20Uints), W: w}
	case x < 43:
		f := c20Pick(r, c20F64)
		u := math.Float64bits(f)
		if r.Intn(8) == 0 {
			u = 0x7ff8000000000001 // a NaN with payload
		}
		return mpVal{T: "f64", U: u}
	case x < 49:
		return mpVal{T: "f32", U: uint64(math.Float32bits(c20Pick(r, c20F32)))}
	case x < 62:
		s := c20Str(r)
		if r.Intn(10) == 0 {
			s = "\xff\xfe\x00bad"
		}
		return mpVal{T: "str", S: []byte(s), W: w}
	case x < 69:
		return mpVal{T: "bin", S: []byte(c20Pick(r, []string{"", "\x00\x01\x02", "bin", "bin", "\xff", strings.Repeat("B", 256)})), W: w}
	case x < 84 || depth >= 3:
		t := c20Pick(r, c20Times)
		return mpVal{T: "time", Sec: t[0], Nsec: uint32(t[1]), W: []int{0, 0, 4, 8, 12}[r.Intn(5)]}
	case x < 92:
		return mpVal{T: "arr", A: c20Vals(r, mode, depth+1), W: []int{0, 0, 2, 4}[r.Intn(4)]}
	default:
		return mpVal{T: "map", M: c20NestedMap(r, mode, depth+1), W: []int{0, 0, 2, 4}[r.Intn(4)]}
	}
}

func c20Vals(r *rand.Rand, mode string, depth int) []mpVal {
	n := r.Intn(4)
	if r.Intn(40) == 0 {
		n = 15 + r.Intn(2) // fixarray / array16 boundary
	}
	out := make([]mpVal, n)
	for i := range out {
		out[i] = c20Val(r, mode, depth)
	}
	return out
}

func c20NestedMap(r *rand.Rand, mode string, depth int) []mpField {
	n := r.Intn(4)
	if r.Intn(40) == 0 {
		n = 15 + r.Intn(2)
	}
	var out []mpField
	seen := map[string]bool{}
	for i := 0; i < n; i++ {
		k := c20Pick(r, []string{"k", "k2", "x", "", "nested.key", "ü", "z", "meta.trace_id"})
		if i >= 7 {
			k = fmt.Sprintf("k%d", i)
		}
		if seen[k] {
			continue
		}
		seen[k] = true
		out = append(out, mpField{K: []byte(k), Bin: mode == "msgp" && r.Intn(6) == 0, V: c20Val(r, mode, depth)})
	}
	return out
}

func c20Gen(r *rand.Rand, tier string, i int) any {
	if k := r2DelivSchedule(i); k != "" {
		return c20Input{Path: "batch-msgp", Deliv: k, DelivSeed: r.Int63n(1 << 30)}
	}
	in := c20Input{Path: []string{"batch-msgp", "batch-msgp", "batch-json", "event-json", "event-msgp", "otlp-msgp"}[r.Intn(6)]}
	mode := "msgp"
	if strings.HasSuffix(in.Path, "json") {
		mode = "json"
	}
	isEvent := strings.HasPrefix(in.Path, "event")
	in.TraceNames = c20Pick(r, [][]string{{"trace.trace_id"}, {"trace.trace_id", "traceId"}, {}})
	in.ParentNames = c20Pick(r, [][]string{{"trace.parent_id"}, {"trace.parent_id", "parentId"}, {}})
	// sampler key fields
	kfPool := []string{"a", "b", "name", "http.status", "service.name", "x y", "ключ", "trace.trace_id", "missing.field", "meta.custom"}
	for n := r.Intn(4); n > 0; n-- {
		k := c20Pick(r, kfPool)
		switch r.Intn(12) {
		case 0:
			k = "root." + k
		case 1:
			k = "?.NUM_DESCENDANTS"
		case 2:
			k = "meta.span_count"
		}
		in.KeyFields = append(in.KeyFields, k)
	}
	if r.Intn(3) == 0 {
		in.UA = "verif-agent/1.0"
	}
	in.PeerTrace = []string{"peer-trace-1", "peer-trace-2"}
	nev := 1 + r.Intn(3)
	for e := 0; e < nev; e++ {
		ev := c20Event{Rate: []int64{0, 1, 2, 10}[r.Intn(4)], W: []int{0, 0, 0, 2, 4}[r.Intn(5)]}
		nf := 1 + r.Intn(8)
		switch r.Intn(40) {
		case 0:
			nf = 0
		case 1:
			nf = 15 + r.Intn(3)
		}
		// trace identity of this event
		tid := c20Pick(r, []string{"", "", "own-trace-1", "own-trace-2", "peer-trace-1", "peer-trace-2"})
		hasParent := r.Intn(2) == 0
		seen := map[string]bool{}
		var names []string
		if tid != "" {
			for _, n := range in.TraceNames {
				if r.Intn(3) > 0 {
					names = append(names, n)
				}
			}
		}
		if hasParent {
			for _, n := range in.ParentNames {
				if r.Intn(2) == 0 {
					names = append(names, n)
				}
			}
		}
		for _, k := range in.KeyFields {
			if r.Intn(3) > 0 && !strings.HasPrefix(k, "?.") {
				names = append(names, strings.TrimPrefix(k, "root."))
			}
		}
		for len(names) < nf {
			switch x := r.Intn(100); {
			case x < 70:
				names = append(names, c20Pick(r, c20Plain))
			case x < 82:
				names = append(names, c20Pick(r, c20Reserved))
			case x < 88:
				names = append(names, "traceId", "parentId", "trace.trace_id", "trace.parent_id")
			case x < 92 && mode == "msgp":
				names = append(names, "\xff\xfe-key")
			case x < 94:
				names = append(names, strings.Repeat("k", []int{31, 32, 32, 255, 256, 300}[r.Intn(6)]))
			default:
				names = append(names, fmt.Sprintf("f%d", r.Intn(40)))
			}
		}
		r.Shuffle(len(names), func(a, b int) { names[a], names[b] = names[b], names[a] })
		rejecting := false
		for _, k := range names {
			if seen[k] || (nf == 0) {
				continue
			}
			seen[k] = true
			f := mpField{K: []byte(k), Bin: mode == "msgp" && r.Intn(6) == 0}
			isTrace, isParent := false, false
			for _, n := range in.TraceNames {
				isTrace = isTrace || n == k
			}
			for _, n := range in.ParentNames {
				isParent = isParent || n == k
			}
			_, isRes := c20ReservedType[k]
			isRes = isRes || (strings.HasPrefix(k, "meta.") && contains(c20Reserved, k))
			switch {
			case isTrace:
				switch x := r.Intn(10); {
				case x < 7:
					f.V = mpVal{T: "str", S: []byte(tid)}
				case x < 8:
					f.V = mpVal{T: "str"}
				default:
					f.V = c20NonString(r, mode, isEvent)
				}
			case isParent:
				switch x := r.Intn(10); {
				case x < 6:
					f.V = mpVal{T: "str", S: []byte("parent-1")}
				case x < 8:
					f.V = mpVal{T: "str"}
				default:
					f.V = c20NonString(r, mode, isEvent)
				}
				if isEvent && seen["meta.refinery.root"] {
					f.V = mpVal{T: "str"} // keep root status independent of map order on the /1/events paths
				}
			case isRes:
				f.V = c20ReservedVal(r, k, mode, isEvent, tid, &rejecting)
				if isEvent && k == "meta.refinery.root" {
					for j := range ev.Fields {
						if contains(in.ParentNames, string(ev.Fields[j].K)) {
							ev.Fields[j].V = mpVal{T: "str"}
						}
					}
				}
			default:
				f.V = c20Val(r, mode, 0)
			}
			ev.Fields = append(ev.Fields, f)
		}
		// what the collector would do to this span if it ends up there
		for n := r.Intn(4); n > 0; n-- {
			switch r.Intn(3) {
			case 0:
				var ks []string
				for _, k := range in.KeyFields {
					if !strings.HasPrefix(k, "?.") && r.Intn(4) > 0 {
						ks = append(ks, strings.TrimPrefix(k, "root."))
					}
				}
				for m := r.Intn(3); m > 0; m-- {
					ks = append(ks, c20Pick(r, append(c20Plain[:8:8], "absent", "meta.span_count", "trace.trace_id")))
				}
				ev.Ops = append(ev.Ops, c20Op{Op: "memoize", Keys: ks})
			case 1:
				k := c20Pick(r, c20Reserved)
				var v mpVal
				switch c20ReservedType[k] {
				case "bool":
					v = mpVal{T: "bool", B: r.Intn(2) == 0}
				case "int":
					v = mpVal{T: "int", I: int64(r.Intn(5))}
				default:
					v = mpVal{T: "str", S: []byte(c20Pick(r, []string{"", "rules/trace/x", "host-1", "deterministic/always"}))}
				}
				ev.Ops = append(ev.Ops, c20Op{Op: "set", K: k, V: &v})
			default:
				k := c20Pick(r, []string{"meta.refinery.dryrun.kept", "meta.dryrun.sample_rate", "environment", "cluster", "a", "name"})
				v := c20Pick(r, []mpVal{{T: "bool", B: true}, {T: "uint", U: 10}, {T: "uint", U: 300}, {T: "str", S: []byte("prod")}, {T: "int", I: -4}})
				ev.Ops = append(ev.Ops, c20Op{Op: "set", K: k, V: &v})
			}
		}
		in.Events = append(in.Events, ev)
		if rejecting {
			// an event the decoder rejects fails its whole request: keep it alone
			in.Events = []c20Event{ev}
			break
		}
	}
	return in
}

func contains(xs []string, s string) bool {
	for _, x := range xs {
		if x == s {
			return true
		}
	}
	return false
}

// a value that is not a string for the decoder of the path (on the loose msgpack /1/events path a bin
// value IS a string, so it is not offered there: it would be a second trace id candidate)
func c20NonString(r *rand.Rand, mode string, isEvent bool) mpVal {
	if mode == "json" {
		return c20Pick(r, []mpVal{{T: "nil"}, {T: "bool", B: true}, c20NumVal(r)})
	}
	if isEvent {
		return c20Pick(r, []mpVal{{T: "nil"}, {T: "int", I: 7}, {T: "f64", U: math.Float64bits(2.5)}})
	}
	return c20Pick(r, []mpVal{{T: "nil"}, {T: "int", I: 7}, {T: "bin", S: []byte("own-trace-1")}, {T: "f64", U: math.Float64bits(2.5)}})
}

// a value for a reserved name: mostly of the expected type, sometimes not
func c20ReservedVal(r *rand.Rand, k, mode string, isEvent bool, tid string, rejecting *bool) mpVal {
	ty := c20ReservedType[k]
	right := r.Intn(10) < 7
	switch ty {
	case "bool":
		if right {
			b := r.Intn(2) == 0
			if k == "meta.refinery.probe" {
				b = r.Intn(4) == 0
			}
			return mpVal{T: "bool", B: b}
		}
		return mpVal{T: "str", S: []byte("true")}
	case "int":
		if mode == "json" {
			if isEvent || !right {
				return mpVal{T: "str", S: []byte("3")} // (int64(float64) of the JSON /1/events path is not modelled)
			}
			return c20NumVal(r) // JSON batch: a float64 never matches the int64 guard
		}
		if right {
			if r.Intn(5) == 0 {
				u := c20Pick(r, []uint64{0, 3, 200, math.MaxInt64})
				return mpVal{T: "uint", U: u}
			}
			if !isEvent && r.Intn(25) == 0 {
				*rejecting = true
				return mpVal{T: "uint", U: math.MaxInt64 + 1}
			}
			return mpVal{T: "int", I: c20Pick(r, []int64{0, 1, 3, -2, 70000})}
		}
		return mpVal{T: "str", S: []byte("3")}
	default: // string-typed
		if right {
			s := c20Pick(r, []string{"", "log", "span_event", "link", "custom-agent", "x"})
			if k == "meta.trace_id" {
				s = c20Pick(r, []string{"own-trace-1", "peer-trace-1", "meta-trace"})
			}
			return mpVal{T: "str", S: []byte(s)}
		}
		if mode == "msgp" && !isEvent && r.Intn(6) == 0 {
			*rejecting = true
			return mpVal{T: "bin", S: []byte("log")}
		}
		if mode == "json" {
			return c20Pick(r, []mpVal{{T: "nil"}, {T: "bool", B: true}})
		}
		return c20Pick(r, []mpVal{{T: "nil"}, {T: "int", I: 7}, {T: "bool", B: true}})
	}
}

// ------------------------------------------------------------------ running the real code
func c20GoValue(v mpVal) any {
	switch v.T {
	case "bool":
		return v.B
	case "int":
		return v.I
	case "uint":
		return uint(v.U)
	case "str":
		return string(v.S)
	}
	return nil
}

func c20PathCoq(p string) string {
	return map[string]string{"batch-msgp": "PBatchMsgp", "batch-json": "PBatchJson", "event-json": "PEventJson", "event-msgp": "PEventMsgp",
		"otlp-msgp": "PMetaOnly"}[p]
}

func c20BuildBatchMsgp(in *c20Input) []byte {
	b := mpAppendCountHdr(nil, len(in.Events), false, 0)
	for i, ev := range in.Events {
		tm := mpVal{T: "time", Sec: c20BaseTime + int64(i), W: []int{0, 8, 12}[i%3]}
		type kv struct {
			k string
			f func([]byte) []byte
		}
		parts := []kv{
			{"time", func(b []byte) []byte { return mpEncode(b, tm) }},
			{"samplerate", func(b []byte) []byte { return mpEncode(b, mpVal{T: "int", I: ev.Rate}) }},
			{"data", func(b []byte) []byte { return mpEncodeMap(b, ev.Fields, ev.W) }},
		}
		// vary the order of the envelope keys, and add a key the decoder has to skip
		switch i % 3 {
		case 1:
			parts[0], parts[2] = parts[2], parts[0]
		case 2:
			parts = append([]kv{{"extra", func(b []byte) []byte { return mpEncode(b, mpVal{T: "arr", A: []mpVal{{T: "int", I: 1}, {T: "str", S: []byte("skip")}}}) }}}, parts...)
		}
		b = mpAppendCountHdr(b, len(parts), true, 0)
		for _, p := range parts {
			b = mpAppendStrHdr(b, len(p.k), false, 0)
			b = append(b, p.k...)
			b = p.f(b)
		}
	}
	return b
}

func c20TimeString(i int) string {
	return time.Unix(c20BaseTime+int64(i), 0).UTC().Format(time.RFC3339Nano)
}

func c20BuildBatchJSON(in *c20Input) []byte {
	var sb strings.Builder
	sb.WriteByte('[')
	for i, ev := range in.Events {
		if i > 0 {
			sb.WriteByte(',')
		}
		fmt.Fprintf(&sb, `{"time":%q,"samplerate":%d,"data":`, c20TimeString(i), ev.Rate)
		jsonEncode(&sb, mpVal{T: "map", M: ev.Fields})
		sb.WriteByte('}')
	}
	sb.WriteByte(']')
	return []byte(sb.String())
}

func c20Run(raw json.RawMessage) (Case, error) {
	var in c20Input
	if err := json.Unmarshal(raw, &in); err != nil {
		return Case{}, err
	}
	if in.Deliv != "" {
		res, err := r2DelivRun(in.Deliv, in.DelivSeed)
		if err != nil {
			return Case{}, err
		}
		coq := fmt.Sprintf("{| c_path := PBatchMsgp; c_cfg := {| trace_names := []; parent_names := []; key_fields := [] |}; c_ua := \"\"; c_widen := []; c_events := []; c_deliv := %s |}", r2DelivCoq(res))
		return Case{Coq: coq, Key: string(raw), Nontriv: true, Tags: []string{"delivery:" + in.Deliv},
			Summary: map[string]any{"delivery": in.Deliv, "events": len(res.Expected), "arrived": len(res.Arrived), "notes": res.Human}}, nil
	}
	env, err := r2NewEnv(r2Options{TraceNames: in.TraceNames, ParentNames: in.ParentNames, KeyFields: in.KeyFields,
		Incoming: true, PeerTraceIDs: in.PeerTrace})
	if err != nil {
		return Case{}, err
	}
	const apiKey = "0123456789abcdef0123456789abcdef" // legacy-style key: no environment lookup
	const dataset = "verif-ds"
	var statuses []int
	switch in.Path {
	case "batch-msgp":
		code, _ := env.Post("batch", dataset, "application/msgpack", apiKey, in.UA, nil, c20BuildBatchMsgp(&in))
		statuses = append(statuses, code)
	case "batch-json":
		code, _ := env.Post("batch", dataset, "application/json", apiKey, in.UA, nil, c20BuildBatchJSON(&in))
		statuses = append(statuses, code)
	case "event-json", "event-msgp":
		for i, ev := range in.Events {
			hdr := map[string]string{"X-Honeycomb-Event-Time": c20TimeString(i)}
			if ev.Rate > 0 {
				hdr["X-Honeycomb-Samplerate"] = strconv.FormatInt(ev.Rate, 10)
			}
			var body []byte
			ct := "application/json"
			if in.Path == "event-json" {
				var sb strings.Builder
				jsonEncode(&sb, mpVal{T: "map", M: ev.Fields})
				body = []byte(sb.String())
			} else {
				ct = "application/msgpack"
				body = mpEncodeMap(nil, ev.Fields, ev.W)
			}
			code, _ := env.Post("events", dataset, ct, apiKey, in.UA, hdr, body)
			statuses = append(statuses, code)
		}
	case "otlp-msgp":
		// after husky's translation: msgpack attribute maps handed to processOTLPRequestBatchMsgp
		var attrs [][]byte
		var times []time.Time
		var rates []int32
		for i, ev := range in.Events {
			attrs = append(attrs, mpEncodeMap(nil, ev.Fields, ev.W))
			times = append(times, time.Unix(c20BaseTime+int64(i), 0).UTC())
			rates = append(rates, int32(ev.Rate))
		}
		if err := env.PostOTLPMsgp(dataset, apiKey, in.UA, attrs, times, rates); err != nil {
			return Case{}, err
		}
		statuses = append(statuses, 200)
	default:
		return Case{}, fmt.Errorf("bad path %q", in.Path)
	}
	// play the collector: sampler-style field access, annotations, then transmit
	atCollector := map[int]bool{}
	route := map[int]string{}
	n0 := len(env.Log)
	for li := 0; li < n0; li++ {
		s := env.Log[li]
		idx := int(s.Snap.TimeSec - c20BaseTime)
		if idx < 0 || idx >= len(in.Events) {
			return Case{}, fmt.Errorf("event with unexpected timestamp %d reached sink %s", s.Snap.TimeSec, s.Sink)
		}
		route[idx] = s.Sink
		if s.Sink != "collector" {
			continue
		}
		atCollector[idx] = true
		for _, o := range in.Events[idx].Ops {
			switch o.Op {
			case "memoize":
				s.Span.Data.MemoizeFields(o.Keys...)
			case "set":
				s.Span.Data.Set(o.K, c20GoValue(*o.V))
			}
		}
		env.Upstream.EnqueueSpan(s.Span)
	}
	reqs := env.Finish()
	// second hop: what arrived at the peer endpoint is posted, byte for byte and with the headers the
	// peer transmission sent, to the batch handler of a second node (peer listener) that owns every
	// trace; its collector applies the event's ops and transmits upstream
	hop2 := map[int]string{}
	var firstHop []r2Request
	var peerReqs []r2Request
	for _, rq := range reqs {
		if rq.Prefix == "peer" {
			peerReqs = append(peerReqs, rq)
		} else {
			firstHop = append(firstHop, rq)
		}
	}
	if len(peerReqs) > 0 {
		env2, err := r2NewEnv(r2Options{TraceNames: in.TraceNames, ParentNames: in.ParentNames, KeyFields: in.KeyFields, Incoming: false})
		if err != nil {
			return Case{}, err
		}
		for _, rq := range peerReqs {
			ua2 := rq.Headers.Get("User-Agent")
			code, _ := env2.Post("batch", strings.TrimPrefix(rq.Path, "/1/batch/"), rq.Headers.Get("Content-Type"), rq.APIKey, ua2, nil, rq.Body)
			statuses = append(statuses, code)
			if v, _, err := mpDecode(rq.Body); err == nil && v.T == "arr" {
				for _, evv := range v.A {
					for _, f := range evv.M {
						if string(f.K) == "time" && f.V.T == "time" {
							hop2[int(f.V.Sec-c20BaseTime)] = ua2
						}
					}
				}
			}
		}
		n2 := len(env2.Log)
		for li := 0; li < n2; li++ {
			s := env2.Log[li]
			idx := int(s.Snap.TimeSec - c20BaseTime)
			if idx < 0 || idx >= len(in.Events) {
				return Case{}, fmt.Errorf("second hop: unexpected timestamp %d at sink %s", s.Snap.TimeSec, s.Sink)
			}
			route[idx] = "peer>" + s.Sink
			if s.Sink != "collector-peer" {
				continue
			}
			atCollector[idx] = true
			for _, o := range in.Events[idx].Ops {
				switch o.Op {
				case "memoize":
					s.Span.Data.MemoizeFields(o.Keys...)
				case "set":
					s.Span.Data.Set(o.K, c20GoValue(*o.V))
				}
			}
			env2.Upstream.EnqueueSpan(s.Span)
		}
		firstHop = append(firstHop, env2.Finish()...)
	}
	recv, err := r2DecodeBatches(firstHop)
	if err != nil {
		return Case{}, err
	}
	obs := map[int][]mpField{}
	got := map[int]bool{}
	for _, rc := range recv {
		idx := int(rc.TimeSec - c20BaseTime)
		if !rc.HasTime || idx < 0 || idx >= len(in.Events) {
			return Case{}, fmt.Errorf("received event with unexpected time %d", rc.TimeSec)
		}
		obs[idx] = append(obs[idx], rc.Data...) // an event received twice shows up as duplicated keys
		got[idx] = true
	}

	keyFields, _ := config.GetKeyFields(in.KeyFields)
	widen := map[uint64]uint64{}
	var evs, human []string
	tags := []string{"path:" + in.Path}
	nontriv := false
	types := map[string]bool{}
	for i, ev := range in.Events {
		for _, f := range ev.Fields {
			mpCollectF32(f.V, widen)
			types[f.V.T] = true
		}
		var ops []string
		if atCollector[i] {
			for _, o := range ev.Ops {
				if o.Op == "memoize" {
					ops = append(ops, cq.App("OMemoize", cq.ListStr(o.Keys)))
				} else {
					ops = append(ops, cq.App("OSet", cq.Str(o.K), mpCoq(*o.V)))
				}
			}
		}
		o := cq.None()
		if got[i] {
			o = cq.Some(mpCoqFields(obs[i]))
		}
		h2 := cq.None()
		if ua2, ok := hop2[i]; ok {
			h2 = cq.Some(cq.Str(ua2))
		}
		evs = append(evs, fmt.Sprintf("{| e_fields := %s; e_ops := %s; e_hop2 := %s; e_obs := %s |}", mpCoqFields(ev.Fields), cq.List(ops), h2, o))
		rt := route[i]
		if rt == "" {
			rt = "none"
		}
		tags = append(tags, "route:"+rt)
		// non-trivial: forwarded, and some client field went through decode + re-encode
		memo := strings.HasPrefix(in.Path, "event")
		for _, f := range ev.Fields {
			if contains(keyFields, string(f.K)) && in.Path != "otlp-msgp" {
				memo = true
			}
			if atCollector[i] {
				for _, op := range ev.Ops {
					if op.Op == "memoize" && contains(op.Keys, string(f.K)) {
						memo = true
					}
				}
			}
		}
		if got[i] && memo {
			nontriv = true
		}
		human = append(human, fmt.Sprintf("event %d %s route=%s -> %s", i, mpShowFields(ev.Fields), rt,
			map[bool]string{true: mpShowFields(obs[i]), false: "(nothing forwarded)"}[got[i]]))
	}
	for t := range types {
		tags = append(tags, "value:"+t)
	}
	sort.Strings(tags)
	coq := fmt.Sprintf("{| c_path := %s; c_cfg := {| trace_names := %s; parent_names := %s; key_fields := %s |}; c_ua := %s; c_widen := %s; c_events := %s; c_deliv := [] |}",
		c20PathCoq(in.Path), cq.ListStr(in.TraceNames), cq.ListStr(in.ParentNames), cq.ListStr(keyFields), cq.Str(in.UA), mpWidenCoq(widen), cq.List(evs))
	key, _ := json.Marshal(in)
	return Case{Coq: coq, Key: string(key), Nontriv: nontriv, Tags: tags,
		Summary: map[string]any{"path": in.Path, "key_fields": keyFields, "trace_names": in.TraceNames, "http_status": statuses, "events": human}}, nil
}

// ------------------------------------------------------------------ shrinking
func c20Shrink(raw json.RawMessage) []json.RawMessage {
	var in c20Input
	if json.Unmarshal(raw, &in) != nil {
		return nil
	}
	var out []json.RawMessage
	emit := func(c c20Input) {
		b, _ := json.Marshal(c)
		out = append(out, b)
	}
	clone := func() c20Input {
		var c c20Input
		b, _ := json.Marshal(in)
		json.Unmarshal(b, &c)
		return c
	}
	if len(in.Events) > 1 {
		for i := range in.Events {
			c := clone()
			c.Events = append(c.Events[:i], c.Events[i+1:]...)
			emit(c)
		}
	}
	for i, ev := range in.Events {
		if len(ev.Fields) > 1 {
			for j := range ev.Fields {
				c := clone()
				c.Events[i].Fields = append(c.Events[i].Fields[:j], c.Events[i].Fields[j+1:]...)
				emit(c)
			}
		}
		for j := range ev.Ops {
			c := clone()
			c.Events[i].Ops = append(c.Events[i].Ops[:j], c.Events[i].Ops[j+1:]...)
			emit(c)
		}
		for j, f := range ev.Fields {
			// replace a container by one of its elements
			var subs []mpVal
			if f.V.T == "arr" {
				subs = f.V.A
			}
			if f.V.T == "map" {
				for _, m := range f.V.M {
					subs = append(subs, m.V)
				}
			}
			for _, s := range subs {
				c := clone()
				c.Events[i].Fields[j].V = s
				emit(c)
			}
			if f.Bin || f.V.W != 0 {
				c := clone()
				c.Events[i].Fields[j].Bin = false
				c.Events[i].Fields[j].V.W = 0
				emit(c)
			}
		}
	}
	for i := range in.KeyFields {
		c := clone()
		c.KeyFields = append(c.KeyFields[:i], c.KeyFields[i+1:]...)
		emit(c)
	}
	if in.UA != "" {
		c := clone()
		c.UA = ""
		emit(c)
	}
	return out
}
