package drive

import (
	"fmt"
	"strings"
)

// Cheap Gallina literals decoded by coq/Lib/Prim_cross.v (w64 / pstr).

func crossW64(v uint64) string {
	return fmt.Sprintf("(w64 %d%%uint63 %d%%uint63)", v>>32, v&0xffffffff)
}

func crossPstr(s string) string {
	var cs []string
	for i := 0; i < len(s); i += 7 {
		j := i + 7
		if j > len(s) {
			j = len(s)
		}
		var v uint64
		for k := i; k < j; k++ {
			v |= uint64(s[k]) << (8 * uint(k-i))
		}
		v |= uint64(j-i) << 56
		cs = append(cs, fmt.Sprintf("%d%%uint63", v))
	}
	return "(pstr [" + strings.Join(cs, "; ") + "])"
}

func crossListPstr(xs []string) string {
	out := make([]string, len(xs))
	for i, x := range xs {
		out[i] = crossPstr(x)
	}
	return "[" + strings.Join(out, "; ") + "]"
}

func crossListNat(xs []int) string {
	out := make([]string, len(xs))
	for i, x := range xs {
		out[i] = fmt.Sprintf("%d%%nat", x)
	}
	return "[" + strings.Join(out, "; ") + "]"
}
