package drive

import (
	"encoding/json"
	"math/rand"
)

// C05: dry run. Same collector driver as C04; DryRun starts on or off and is toggled by reloads between operations.

func init() {
	Register(&Driver{ID: "C05", Gen: func(r *rand.Rand, tier string, i int) any { return c2Gen(r, tier, "c05") },
		Run: func(raw json.RawMessage) (Case, error) {
			return c2RunAs(raw, func(in *c2Input, res *c2Result) bool {
				// non-trivial: a would-be-dropped trace exists and spans were forwarded on time and late
				hasDrop := false
				for _, t := range in.Traces {
					if t.Class == "drop" || t.Want == "drop" {
						hasDrop = true
					}
				}
				return hasDrop && res.OnTime > 0 && res.Late > 0 && (in.Cfg.Dry || res.Tags["dryrun-toggled-by-reload"])
			})
		}, Shrink: c2Shrink})
}
