package drive

import (
	"fmt"
	"os"
	"path/filepath"
	"strconv"
	"strings"
	"sync"
	"time"

	"github.com/honeycombio/refinery/collect"
	"github.com/honeycombio/refinery/config"
	"github.com/honeycombio/refinery/internal/health"
	"github.com/honeycombio/refinery/internal/peer"
	"github.com/honeycombio/refinery/logger"
	"github.com/honeycombio/refinery/metrics"
	"github.com/honeycombio/refinery/pubsub"
	"github.com/honeycombio/refinery/sample"
	"github.com/honeycombio/refinery/sharder"
	"github.com/honeycombio/refinery/types"
	"github.com/jonboulle/clockwork"
	"go.opentelemetry.io/otel/trace/noop"
)

// C14, collector level: the real InMemCollector with ONE worker on the real fileConfig (rules and
// DatasetPrefix loaded from generated YAML). The worker goroutine is parked through its own pause
// channel (hook VerifC04Park); processSpan and sendExpiredTracesInCache are then called one at a
// time, so traces are decided in arrival order on the same worker and its sampler cache
// (datasetSamplers) is exercised by destinations that share a bare name. Every entry of the rules file
// is a rules sampler with one always-matching rule named after the entry, so the forwarded span's
// meta.refinery.reason tells which entry's sampler decided the trace.

const c14MarkerID = "verif-c14-marker"

type c14Tx struct {
	mu     sync.Mutex
	spans  []*types.Span
	marker chan struct{}
}

func (t *c14Tx) EnqueueEvent(ev *types.Event) {}
func (t *c14Tx) EnqueueSpan(sp *types.Span) {
	if sp.TraceID == c14MarkerID {
		t.marker <- struct{}{}
		return
	}
	t.mu.Lock()
	t.spans = append(t.spans, sp)
	t.mu.Unlock()
}
func (t *c14Tx) take() []*types.Span {
	t.mu.Lock()
	defer t.mu.Unlock()
	s := t.spans
	t.spans = nil
	return s
}

// rules file for the collector part: entry i answers with the reason "rules/trace/S<i>"
func c14CollRulesYAML(names []string) string {
	var b strings.Builder
	b.WriteString("RulesVersion: 2\nSamplers:\n")
	for i, n := range names {
		fmt.Fprintf(&b, "  %s:\n    RulesBasedSampler:\n      Rules:\n        - Name: S%d\n          SampleRate: 1\n", c14Q(n), i+1)
	}
	return b.String()
}

// c14RunCollector drives the traces (one root span each) through the collector in order and returns,
// for each, the number of the rules entry whose sampler decided it (0: not forwarded / unknown reason).
func c14RunCollector(prefix string, names []string, traces []c14Dest) ([]uint64, error) {
	dir, err := os.MkdirTemp(".", "c14coll")
	if err != nil {
		return nil, err
	}
	defer os.RemoveAll(dir)
	main := "General:\n  ConfigurationVersion: 2\n"
	if prefix != "" {
		main += "  DatasetPrefix: " + c14Q(prefix) + "\n"
	}
	main += "Collection:\n  WorkerCount: 1\nRefineryTelemetry:\n  AddRuleReasonToTrace: true\n"
	cf, rf := filepath.Join(dir, "config.yaml"), filepath.Join(dir, "rules.yaml")
	if err := os.WriteFile(cf, []byte(main), 0o644); err != nil {
		return nil, err
	}
	if err := os.WriteFile(rf, []byte(c14CollRulesYAML(names)), 0o644); err != nil {
		return nil, err
	}
	cfg, err := config.NewConfig(&config.CmdEnv{ConfigLocations: []string{cf}, RulesLocations: []string{rf}})
	if cfg == nil {
		return nil, fmt.Errorf("collector config not loaded: %v", err)
	}

	clock := clockwork.NewFakeClockAt(time.Unix(1_700_000_000, 0))
	met := &metrics.MockMetrics{}
	met.Start()
	hr := &health.Health{Clock: clock}
	hr.Start()
	defer hr.Stop()
	ps := &pubsub.LocalPubSub{Config: cfg, Metrics: met}
	ps.Start()
	defer ps.Stop()
	sf := &sample.SamplerFactory{Config: cfg, Metrics: met, Logger: &logger.NullLogger{}}
	if err := sf.Start(); err != nil {
		return nil, err
	}
	defer sf.Stop()
	sr := &collect.StressRelief{Config: cfg, Logger: &logger.NullLogger{}, RefineryMetrics: met, Health: hr}
	tx := &c14Tx{marker: make(chan struct{}, 4)}
	coll := &collect.InMemCollector{
		TestMode: true, Config: cfg, Clock: clock, Logger: &logger.NullLogger{},
		Tracer: noop.NewTracerProvider().Tracer("verif"), Health: hr,
		Transmission: tx, PeerTransmission: &c14Tx{marker: make(chan struct{}, 4)},
		PubSub: ps, Metrics: met, StressRelief: sr, SamplerFactory: sf,
		Peers:   peer.NewMockPeers([]string{"api1"}, "api1"),
		Sharder: &sharder.MockSharder{Self: &sharder.TestShard{Addr: "api1"}},
	}
	if err := coll.Start(); err != nil {
		return nil, err
	}
	resume := coll.VerifC04Park()
	defer func() {
		resume()
		coll.Stop()
	}()

	out := make([]uint64, len(traces))
	for i, d := range traces {
		id := fmt.Sprintf("c14-trace-%d", i)
		sp := &types.Span{TraceID: id, IsRoot: true, Event: &types.Event{
			APIHost: "http://api", APIKey: d.Key, Environment: d.Env, Dataset: d.Dataset,
			Data: types.NewPayload(cfg, map[string]any{"n": int64(i)})}}
		coll.VerifC04ProcessSpan(sp)
		coll.VerifC04Tick(clock.Now().Add(24 * time.Hour))
		m := &types.Span{TraceID: c14MarkerID, Event: &types.Event{Data: types.NewPayload(cfg, map[string]any{"m": int64(i)})}}
		coll.VerifC04Marker(m)
		select {
		case <-tx.marker:
		case <-time.After(20 * time.Second):
			return nil, fmt.Errorf("sendTraces goroutine did not reach the marker")
		}
		for _, fs := range tx.take() {
			if fs.TraceID != id {
				continue
			}
			reason, _ := fs.Data.Get(types.MetaRefineryReason).(string)
			if k := strings.LastIndex(reason, "/S"); k >= 0 {
				if n, err := strconv.ParseUint(reason[k+2:], 10, 64); err == nil {
					out[i] = n
				}
			}
		}
	}
	return out, nil
}
