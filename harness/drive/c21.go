package drive

import (
	"encoding/json"
	"fmt"
	"math/rand"
	"sort"
	"strings"

	cq "github.com/honeycombio/refinery/verifharness/coqfmt"
)

// C21: trace identity and root status follow the ID-field configuration.
// A case is a TraceNames / ParentNames configuration and a few events; every event is a list of
// fields in a chosen order, sent in a chosen encoding (msgpack batch, JSON batch, JSON event,
// msgpack event) to the incoming or the peer listener of the real router. The observable is
// what the router did with it: handed to the collector as a span (trace id, root flag), sent
// upstream as a non-trace event, or rejected.

type c21Val struct {
	K string `json:"k"`           // str | bin | int | float | bool | nil | map | arr
	S string `json:"s,omitempty"` // str / bin payload
	B bool   `json:"b,omitempty"`
}

type c21Field struct {
	Name string `json:"name"`
	Val  c21Val `json:"val"`
}

type c21Event struct {
	Enc    string     `json:"enc"`  // msgp-batch | json-batch | json-event | msgp-event | otlp-trace | otlp-log
	Peer   bool       `json:"peer"` // send to the peer listener (not for OTLP)
	Fields []c21Field `json:"fields"`
	// OTLP only: the span's / log record's own identifiers (hex; "" = absent). husky turns them into
	// trace.trace_id / trace.parent_id; Fields are the client's attributes.
	TraceHex  string `json:"trace_hex,omitempty"`
	ParentHex string `json:"parent_hex,omitempty"`
}

type c21Input struct {
	TraceNames  []string   `json:"trace_names"`
	ParentNames []string   `json:"parent_names"`
	Events      []c21Event `json:"events"`
}

func init() {
	Register(&Driver{ID: "C21", Gen: c21Gen, Run: c21Run, Shrink: c21Shrink})
}

var (
	c21TracePool  = []string{"trace.trace_id", "traceId", "tid", "trace_id"}
	c21ParentPool = []string{"trace.parent_id", "parentId", "pid"}
	c21OtherPool  = []string{"x", "name", "meta.note", "duration_ms"}
	c21IDs        = []string{"a", "b", "c", "0af7651916cd43dd", "log"}
)

func c21Pick(r *rand.Rand, pool []string, n int) []string {
	p := r.Perm(len(pool))
	out := []string{}
	for i := 0; i < n && i < len(p); i++ {
		out = append(out, pool[p[i]])
	}
	return out
}

// a value for an ID-like field: mostly a non-empty string, sometimes empty or of another type
func c21IDVal(r *rand.Rand, isJSON bool) c21Val {
	switch x := r.Intn(20); {
	case x < 12:
		return c21Val{K: "str", S: c21IDs[r.Intn(len(c21IDs))]}
	case x < 15:
		return c21Val{K: "str", S: ""}
	case x == 15:
		if isJSON {
			return c21Val{K: "float"}
		}
		return c21Val{K: "bin", S: c21IDs[r.Intn(3)]}
	case x == 16:
		if isJSON {
			return c21Val{K: "float"}
		}
		return c21Val{K: "int"}
	case x == 17:
		return c21Val{K: "bool", B: r.Intn(2) == 0}
	case x == 18:
		return c21Val{K: "nil"}
	default:
		return c21Val{K: []string{"map", "arr", "float"}[r.Intn(3)]}
	}
}

func c21GenEvent(r *rand.Rand, in *c21Input) c21Event {
	ev := c21Event{Enc: []string{"msgp-batch", "msgp-batch", "json-batch", "json-event", "msgp-event"}[r.Intn(5)], Peer: r.Intn(5) == 0}
	isJSON := strings.HasPrefix(ev.Enc, "json")
	used := map[string]bool{}
	add := func(name string, v c21Val) {
		if !used[name] {
			used[name] = true
			ev.Fields = append(ev.Fields, c21Field{Name: name, Val: v})
		}
	}
	// configured trace-ID fields: each present with probability 0.6; also names of the pool that are NOT configured
	for _, n := range c21TracePool {
		configured := false
		for _, c := range in.TraceNames {
			configured = configured || c == n
		}
		if (configured && r.Intn(10) < 6) || (!configured && r.Intn(10) < 2) {
			add(n, c21IDVal(r, isJSON))
		}
	}
	for _, n := range c21ParentPool {
		if r.Intn(10) < 3 {
			add(n, c21IDVal(r, isJSON))
		}
	}
	if r.Intn(10) < 3 {
		v := c21IDVal(r, isJSON)
		if v.K == "bin" { // a binary value under a reserved string name makes the whole request fail: out of scope here
			v = c21Val{K: "str", S: ""}
		}
		add("meta.trace_id", v)
	}
	if r.Intn(10) < 3 {
		v := c21Val{K: "str", S: []string{"log", "log", "trace", "", "LOG"}[r.Intn(5)]}
		if r.Intn(8) == 0 {
			v = c21Val{K: []string{"bool", "nil", "float"}[r.Intn(3)]}
		}
		add("meta.signal_type", v)
	}
	for _, n := range c21OtherPool {
		if r.Intn(10) < 3 {
			add(n, c21IDVal(r, isJSON))
		}
	}
	r.Shuffle(len(ev.Fields), func(a, b int) { ev.Fields[a], ev.Fields[b] = ev.Fields[b], ev.Fields[a] })
	return ev
}

var c21Hex = []string{"a1b2c3d4e5f60718293a4b5c6d7e8f90", "0af7651916cd43dd8448eb211c80319c", "ff000000000000000000000000000001"}

// an OTLP span or log record: attributes named like configured / unconfigured ID fields, plus its own IDs
func c21GenOTLP(r *rand.Rand, in *c21Input) c21Event {
	ev := c21Event{Enc: []string{"otlp-trace", "otlp-trace", "otlp-log"}[r.Intn(3)]}
	if ev.Enc == "otlp-trace" || r.Intn(3) > 0 {
		ev.TraceHex = c21Hex[r.Intn(len(c21Hex))]
	}
	if r.Intn(2) == 0 {
		ev.ParentHex = "00f067aa0ba902b7"
	}
	val := func() c21Val {
		switch x := r.Intn(10); {
		case x < 6:
			return c21Val{K: "str", S: c21IDs[r.Intn(len(c21IDs))]}
		case x < 8:
			return c21Val{K: "str", S: ""}
		case x == 8:
			return c21Val{K: "int"}
		default:
			return c21Val{K: "bool", B: true}
		}
	}
	for _, n := range []string{"traceId", "tid", "trace_id", "parentId", "pid", "x", "meta.note"} {
		if r.Intn(10) < 4 {
			ev.Fields = append(ev.Fields, c21Field{Name: n, Val: val()})
		}
	}
	r.Shuffle(len(ev.Fields), func(a, b int) { ev.Fields[a], ev.Fields[b] = ev.Fields[b], ev.Fields[a] })
	return ev
}

func c21Gen(r *rand.Rand, tier string, i int) any {
	in := c21Input{}
	in.TraceNames = c21Pick(r, c21TracePool, []int{0, 1, 2, 2, 2, 3, 3, 4}[r.Intn(8)])
	in.ParentNames = c21Pick(r, c21ParentPool, []int{0, 1, 1, 2, 2, 3}[r.Intn(6)])
	n := 3 + r.Intn(5)
	if tier == "thorough" {
		n = 4 + r.Intn(12)
	}
	for j := 0; j < n; j++ {
		if r.Intn(5) == 0 {
			in.Events = append(in.Events, c21GenOTLP(r, &in))
			continue
		}
		ev := c21GenEvent(r, &in)
		in.Events = append(in.Events, ev)
		// often follow an event with the same fields in another order and encoding
		if len(ev.Fields) > 1 && r.Intn(10) < 4 {
			e2 := c21Event{Enc: []string{"msgp-batch", "json-batch", "json-event", "msgp-event"}[r.Intn(4)], Peer: ev.Peer}
			e2.Fields = append([]c21Field{}, ev.Fields...)
			r.Shuffle(len(e2.Fields), func(a, b int) { e2.Fields[a], e2.Fields[b] = e2.Fields[b], e2.Fields[a] })
			if strings.HasPrefix(e2.Enc, "json") {
				for k := range e2.Fields {
					if e2.Fields[k].Val.K == "bin" || e2.Fields[k].Val.K == "int" {
						e2.Fields[k].Val = c21Val{K: "float"}
					}
				}
			}
			in.Events = append(in.Events, e2)
		}
	}
	return in
}

func c21MV(v c21Val) MV {
	switch v.K {
	case "str":
		return mvStr(v.S)
	case "bin":
		return mvBin([]byte(v.S))
	case "int":
		return mvInt(7)
	case "float":
		return mvF64(1.5)
	case "bool":
		return mvBool(v.B)
	case "nil":
		return mvNil()
	case "map":
		return mvMap(mkv("k", mvStr("v")))
	}
	return mvArr(mvStr("e"))
}

func c21JSON(v c21Val) string {
	switch v.K {
	case "str":
		b, _ := json.Marshal(v.S)
		return string(b)
	case "bool":
		if v.B {
			return "true"
		}
		return "false"
	case "nil":
		return "null"
	case "map":
		return `{"k":"v"}`
	case "arr":
		return `["e"]`
	}
	return "1.5"
}

// strings that have a short name in Monitor/C21.v
var c21Abbrev = map[string]string{"trace.trace_id": "q_tt", "traceId": "q_ti", "tid": "q_tid", "trace_id": "q_t_",
	"trace.parent_id": "q_pp", "parentId": "q_pi", "pid": "q_pid", "meta.trace_id": "q_mt", "meta.signal_type": "q_ms",
	"meta.note": "q_mn", "duration_ms": "q_du", "name": "q_na", "0af7651916cd43dd": "q_hex", "log": "q_log"}

func c21Str(s string) string {
	if a, ok := c21Abbrev[s]; ok {
		return a
	}
	return cq.Str(s)
}

func c21StrList(xs []string) string {
	out := make([]string, len(xs))
	for i, x := range xs {
		out[i] = c21Str(x)
	}
	return cq.List(out)
}

func c21Coq(v c21Val, isJSON bool) string {
	switch v.K {
	case "str":
		return cq.App("VStr", c21Str(v.S))
	case "bin":
		return cq.App("VBin", c21Str(v.S))
	case "int":
		return "VInt"
	case "float":
		return "VFloat"
	case "bool":
		return cq.App("VBool", cq.Bool(v.B))
	case "nil":
		return "VNil"
	}
	return "VOther"
}

func c21Marker(v MV) (int, bool) {
	iv, ok := v.get("i")
	if !ok {
		return 0, false
	}
	switch iv.K {
	case "uint":
		return int(iv.U), true
	case "int":
		return int(iv.I), true
	case "f64", "f32":
		return int(iv.F), true
	}
	return 0, false
}

func c21Run(raw json.RawMessage) (Case, error) {
	var in c21Input
	if err := json.Unmarshal(raw, &in); err != nil {
		return Case{}, err
	}
	n, err := rtGetNode()
	if err != nil {
		return Case{}, err
	}
	n.begin()
	// the operator's lists go through the real configuration loader; the node gets what it delivers
	loadedT, loadedP, err := c21LoadIDFields(in.TraceNames, in.ParentNames)
	if err != nil {
		return Case{}, err
	}
	// what the operator configured: his list, or the documented default when he gave none
	wantT, wantP := in.TraceNames, in.ParentNames
	if len(wantT) == 0 {
		wantT = c21DefaultTrace
	}
	if len(wantP) == 0 {
		wantP = c21DefaultParent
	}
	n.cfg.Mux.Lock()
	n.cfg.TraceIdFieldNames = loadedT
	n.cfg.ParentIdFieldNames = loadedP
	n.cfg.Mux.Unlock()
	hdr := map[string]string{"X-Honeycomb-Team": rtLegacyKey}
	// group batch events per (encoding, listener); single events go one request each
	type group struct {
		enc  string
		peer bool
	}
	msgpB := map[group][]MV{}
	jsonB := map[group][]string{}
	var statuses []string
	otlpIdx := map[string][]int{}
	for i, ev := range in.Events {
		if strings.HasPrefix(ev.Enc, "otlp") {
			if ev.Peer {
				return Case{}, fmt.Errorf("event %d: OTLP is accepted on the incoming listener only", i)
			}
			otlpIdx[ev.Enc] = append(otlpIdx[ev.Enc], i)
			continue
		}
		isJSON := strings.HasPrefix(ev.Enc, "json")
		seen := map[string]bool{"i": true}
		var kvs []MKV
		var js []string
		for _, f := range ev.Fields {
			if seen[f.Name] {
				return Case{}, fmt.Errorf("event %d: duplicate field %q", i, f.Name)
			}
			seen[f.Name] = true
			if isJSON && (f.Val.K == "bin" || f.Val.K == "int") {
				return Case{}, fmt.Errorf("event %d: %s not expressible in JSON", i, f.Val.K)
			}
			kvs = append(kvs, mkv(f.Name, c21MV(f.Val)))
			kb, _ := json.Marshal(f.Name)
			js = append(js, string(kb)+":"+c21JSON(f.Val))
		}
		// the marker goes last so that it never changes the relative order of the ID fields
		kvs = append(kvs, mkv("i", mvInt(int64(i))))
		js = append(js, fmt.Sprintf(`"i":%d`, i))
		g := group{ev.Enc, ev.Peer}
		switch ev.Enc {
		case "msgp-batch":
			msgpB[g] = append(msgpB[g], mvMap(mkv("samplerate", mvInt(1)), mkv("data", mvMap(kvs...))))
		case "json-batch":
			jsonB[g] = append(jsonB[g], `{"samplerate":1,"data":{`+strings.Join(js, ",")+`}}`)
		case "json-event":
			resp, err := n.post(ev.Peer, "/1/events/ds", "application/json", hdr, []byte("{"+strings.Join(js, ",")+"}"))
			if err != nil {
				return Case{}, err
			}
			statuses = append(statuses, fmt.Sprintf("%d:json-event:%d", i, resp.Status))
		case "msgp-event":
			resp, err := n.post(ev.Peer, "/1/events/ds", "application/msgpack", hdr, mvAppend(nil, mvMap(kvs...)))
			if err != nil {
				return Case{}, err
			}
			statuses = append(statuses, fmt.Sprintf("%d:msgp-event:%d", i, resp.Status))
		default:
			return Case{}, fmt.Errorf("bad encoding %q", ev.Enc)
		}
	}
	var groups []group
	for g := range msgpB {
		groups = append(groups, g)
	}
	for g := range jsonB {
		groups = append(groups, g)
	}
	sort.Slice(groups, func(a, b int) bool {
		if groups[a].enc != groups[b].enc {
			return groups[a].enc < groups[b].enc
		}
		return !groups[a].peer && groups[b].peer
	})
	for _, g := range groups {
		var resp rtResp
		var err error
		if g.enc == "msgp-batch" {
			resp, err = n.post(g.peer, "/1/batch/ds", "application/msgpack", hdr, mvAppend(nil, mvArr(msgpB[g]...)))
		} else {
			resp, err = n.post(g.peer, "/1/batch/ds", "application/json", hdr, []byte("["+strings.Join(jsonB[g], ",")+"]"))
		}
		if err != nil {
			return Case{}, err
		}
		statuses = append(statuses, fmt.Sprintf("%s(peer=%v):%d %s", g.enc, g.peer, resp.Status, strings.TrimSpace(string(resp.Body))))
	}
	for _, enc := range []string{"otlp-log", "otlp-trace"} {
		idx := otlpIdx[enc]
		if len(idx) == 0 {
			continue
		}
		var evs []c21Event
		for _, i := range idx {
			evs = append(evs, in.Events[i])
		}
		body, err := c21OTLPBody(enc, idx, evs)
		if err != nil {
			return Case{}, err
		}
		path := map[string]string{"otlp-trace": "/v1/traces", "otlp-log": "/v1/logs"}[enc]
		oh := map[string]string{"X-Honeycomb-Team": rtLegacyKey, "X-Honeycomb-Dataset": "ds"}
		resp, err := n.post(false, path, "application/protobuf", oh, body)
		if err != nil {
			return Case{}, err
		}
		statuses = append(statuses, fmt.Sprintf("%s:%d", enc, resp.Status))
	}
	n.flush()
	apiEvs, errs := n.api.take()
	peerEvs, errs2 := n.peerSink.take()
	if len(errs)+len(errs2) > 0 {
		return Case{}, fmt.Errorf("fake endpoints: %v %v", errs, errs2)
	}
	if len(peerEvs) > 0 {
		return Case{}, fmt.Errorf("unexpected peer traffic (%d events): every trace is owned by this node in C21", len(peerEvs))
	}
	obs := make([][]string, len(in.Events))
	human := make([][]string, len(in.Events))
	for _, sp := range n.coll.take() {
		if sp.DataErr != "" {
			return Case{}, fmt.Errorf("collector span payload: %s", sp.DataErr)
		}
		if i, ok := c21Marker(sp.Data); ok && i >= 0 && i < len(obs) {
			want := "AddSpan"
			if in.Events[i].Peer {
				want = "AddSpanFromPeer"
			}
			if sp.Call != want {
				return Case{}, fmt.Errorf("event %d reached the collector through %s", i, sp.Call)
			}
			obs[i] = append(obs[i], cq.App("OSpan", c21Str(sp.TraceID), cq.Bool(sp.IsRoot)))
			human[i] = append(human[i], fmt.Sprintf("span trace=%q root=%v", sp.TraceID, sp.IsRoot))
		}
	}
	for _, e := range apiEvs {
		d, ok := e.Ev.get("data")
		if !ok {
			continue
		}
		if i, ok := c21Marker(d); ok && i >= 0 && i < len(obs) {
			obs[i] = append(obs[i], "ONoTrace")
			human[i] = append(human[i], "upstream (no trace)")
		}
	}
	var evs, hs, tags []string
	nontriv := false
	for i, ev := range in.Events {
		isJSON := strings.HasPrefix(ev.Enc, "json")
		var fs []string
		nIDs := 0
		evFields := ev.Fields
		if strings.HasPrefix(ev.Enc, "otlp") {
			evFields = c21OTLPFields(ev)
		}
		for _, f := range evFields {
			fs = append(fs, cq.Pair(c21Str(f.Name), c21Coq(f.Val, isJSON)))
			if f.Val.K == "str" && f.Val.S != "" {
				for _, t := range wantT {
					if t == f.Name {
						nIDs++
					}
				}
				if f.Name == "meta.trace_id" {
					nIDs++
				}
			}
		}
		o := "ORejected"
		switch len(obs[i]) {
		case 0:
			human[i] = []string{"rejected / lost"}
		case 1:
			o = obs[i][0]
		default:
			o = "ODup"
		}
		// wire order is an order only for the batch encodings; the /1/events paths iterate a Go map
		path := map[string]uint64{"msgp-batch": 0, "json-batch": 0, "json-event": 1, "msgp-event": 2, "otlp-trace": 0, "otlp-log": 1}[ev.Enc]
		evs = append(evs, cq.App("Build_cev", cq.N(path), cq.List(fs), o))
		hs = append(hs, fmt.Sprintf("%d %s peer=%v %v -> %s", i, ev.Enc, ev.Peer, evFields, strings.Join(human[i], " + ")))
		tags = append(tags, "enc:"+ev.Enc, fmt.Sprintf("id-fields:%d", nIDs))
		if ev.Peer {
			tags = append(tags, "listener:peer")
		}
		nontriv = nontriv || nIDs >= 2
	}
	coq := cq.App("Build_case", c21StrList(wantT), c21StrList(wantP), c21StrList(loadedT), c21StrList(loadedP), cq.List(evs))
	if len(in.TraceNames) == 0 {
		tags = append(tags, "trace-names:default")
	} else {
		tags = append(tags, fmt.Sprintf("trace-names:custom-%d", len(in.TraceNames)))
		if !sort.StringsAreSorted(in.TraceNames) {
			tags = append(tags, "trace-names:non-alphabetical")
		}
	}
	key, _ := json.Marshal(in)
	return Case{Coq: coq, Key: string(key), Nontriv: nontriv, Tags: tags,
		Summary: map[string]any{"trace_names": in.TraceNames, "parent_names": in.ParentNames, "loaded_trace_names": loadedT, "loaded_parent_names": loadedP, "events": hs, "responses": statuses}}, nil
}

func c21Shrink(raw json.RawMessage) []json.RawMessage {
	var in c21Input
	if json.Unmarshal(raw, &in) != nil {
		return nil
	}
	var out []json.RawMessage
	emit := func(c c21Input) {
		b, _ := json.Marshal(c)
		out = append(out, b)
	}
	for i := range in.Events {
		if len(in.Events) > 1 {
			c := in
			c.Events = append(append([]c21Event{}, in.Events[:i]...), in.Events[i+1:]...)
			emit(c)
		}
	}
	for i, ev := range in.Events {
		for j := range ev.Fields {
			c := in
			c.Events = append([]c21Event{}, in.Events...)
			e := ev
			e.Fields = append(append([]c21Field{}, ev.Fields[:j]...), ev.Fields[j+1:]...)
			c.Events[i] = e
			emit(c)
		}
	}
	for i := range in.TraceNames {
		c := in
		c.TraceNames = append(append([]string{}, in.TraceNames[:i]...), in.TraceNames[i+1:]...)
		emit(c)
	}
	for i := range in.ParentNames {
		c := in
		c.ParentNames = append(append([]string{}, in.ParentNames[:i]...), in.ParentNames[i+1:]...)
		emit(c)
	}
	return out
}
