package drive

import (
	"encoding/json"
	"fmt"
	"math"
	"math/rand"
	"os"
	"strconv"
	"strings"

	dynsampler "github.com/honeycombio/dynsampler-go"
	"github.com/honeycombio/refinery/config"
	"github.com/honeycombio/refinery/logger"
	"github.com/honeycombio/refinery/metrics"
	"github.com/honeycombio/refinery/sample"
	"github.com/honeycombio/refinery/types"
	cq "github.com/honeycombio/refinery/verifharness/coqfmt"
)

// C11: sample.traceKey.build (through the verif hook) and the five dynsampler-backed samplers.

type c11Val struct {
	T string  `json:"t"` // s i i64 f b nil u
	S string  `json:"s,omitempty"`
	I int64   `json:"i,omitempty"`
	F float64 `json:"f,omitempty"`
	B bool    `json:"b,omitempty"`
}
type c11KV struct {
	K string `json:"k"`
	V c11Val `json:"v"`
}
type c11Trace struct {
	Spans [][]c11KV `json:"spans"`
	Root  int       `json:"root"` // index into Spans, -1 = no root span
}
type c11Stub struct {
	Dyn   int64 `json:"dyn"`
	Calls int   `json:"calls"`
}
type c11Input struct {
	Fields   []string  `json:"fields"`
	UseLen   bool      `json:"uselen"`
	Trace    c11Trace  `json:"trace"`
	Vars     [][]int   `json:"vars,omitempty"`
	Other    *c11Trace `json:"other,omitempty"`
	Samplers bool      `json:"samplers,omitempty"`
	Stub     *c11Stub  `json:"stub,omitempty"`
}

func init() {
	Register(&Driver{ID: "C11", Gen: c11Gen, Run: c11Run, Shrink: c11Shrink})
}

// ---------------------------------------------------------------- generator
var c11FieldPool = []string{"f", "g", "h", "http.status_code", "root.svc", "root.f", "root.g", "roo", "é", "root.", "a,b"}
var c11StrPool = []string{"", "", "a", "b", "ab", "A", "a•", "x,y", "•", ",", "é", "200", "true", "<nil>", "1.5", "z"}

// long values (65-300 bytes) that share a prefix of 64 bytes or more: duplicate detection must look
// at the whole value, not at a prefix of it
var c11LongPool = []string{
	strings.Repeat("x", 64), strings.Repeat("x", 64) + "a", strings.Repeat("x", 64) + "b", strings.Repeat("x", 65),
	strings.Repeat("/api/v1/resource", 6) + "/1", strings.Repeat("/api/v1/resource", 6) + "/2",
	strings.Repeat("y", 200) + "left", strings.Repeat("y", 200) + "right", strings.Repeat("z", 299) + "1", strings.Repeat("z", 299) + "2",
	strings.Repeat("é", 40) + "1", strings.Repeat("é", 40) + "2",
}

func c11RandVal(r *rand.Rand) c11Val {
	switch x := r.Intn(100); {
	case x < 14:
		return c11Val{T: "s", S: c11LongPool[r.Intn(len(c11LongPool))]}
	case x < 55:
		return c11Val{T: "s", S: c11StrPool[r.Intn(len(c11StrPool))]}
	case x < 70:
		return c11Val{T: []string{"i", "i64"}[r.Intn(2)], I: []int64{0, 1, -1, 200, 404, 1 << 40}[r.Intn(6)]}
	case x < 82:
		return c11Val{T: "f", F: []float64{1.5, 2, 0.1, 1e21, 200, -3.25, 1000000, -0.0, 9223372036854775807, 9223372036854775808, -9223372036854775808, 1152921504606846976, 0.5, 1e-7, 4503599627370497.5}[r.Intn(15)]}
	case x < 90:
		return c11Val{T: "b", B: r.Intn(2) == 0}
	case x < 96:
		return c11Val{T: "nil"}
	default:
		return c11Val{T: "u", I: int64(r.Intn(9))}
	}
}

func c11BareFields(fields []string) []string {
	seen := map[string]bool{}
	var out []string
	for _, f := range fields {
		b := strings.TrimPrefix(f, "root.")
		for _, x := range []string{f, b} {
			if x != "" && !seen[x] {
				seen[x] = true
				out = append(out, x)
			}
		}
	}
	return out
}

func c11GenSpan(r *rand.Rand, names []string, p int) []c11KV {
	var sp []c11KV
	for _, n := range names {
		if r.Intn(100) < p {
			sp = append(sp, c11KV{K: n, V: c11RandVal(r)})
		}
	}
	return sp
}

func c11CopyTrace(t c11Trace) c11Trace {
	c := c11Trace{Root: t.Root}
	for _, s := range t.Spans {
		c.Spans = append(c.Spans, append([]c11KV{}, s...))
	}
	return c
}

func c11Gen(r *rand.Rand, tier string, i int) any {
	in := c11Input{UseLen: r.Intn(3) == 0}
	nf := 1 + r.Intn(4)
	for j := 0; j < nf; j++ {
		in.Fields = append(in.Fields, c11FieldPool[r.Intn(len(c11FieldPool))])
	}
	names := c11BareFields(in.Fields)
	big := r.Intn(14) == 0
	if big {
		// around the cap: d distinct values of the first non-root field (or of whatever comes first)
		d := []int{97, 98, 99, 100, 101, 120}[r.Intn(6)]
		for k := 0; k < d; k++ {
			sp := []c11KV{{K: names[0], V: c11Val{T: "i", I: int64(1000 + k)}}}
			if len(names) > 1 && r.Intn(20) == 0 {
				sp = append(sp, c11KV{K: names[1], V: c11RandVal(r)})
			}
			in.Trace.Spans = append(in.Trace.Spans, sp)
		}
	} else {
		ns := r.Intn(7)
		p := []int{40, 70, 100}[r.Intn(3)]
		for k := 0; k < ns; k++ {
			in.Trace.Spans = append(in.Trace.Spans, c11GenSpan(r, names, p))
		}
	}
	in.Trace.Root = -1
	if len(in.Trace.Spans) > 0 && r.Intn(10) < 7 {
		in.Trace.Root = r.Intn(len(in.Trace.Spans))
	}
	n := len(in.Trace.Spans)
	// variants: reversed or a random permutation, one span duplicated (shuffled), sometimes every span twice
	if n > 0 {
		rev := make([]int, n)
		for k := range rev {
			rev[k] = n - 1 - k
		}
		if big {
			in.Vars = append(in.Vars, rev)
		} else {
			in.Vars = append(in.Vars, [][]int{rev, r.Perm(n)}[r.Intn(2)])
			dup := r.Perm(n)
			dup = append(dup, r.Intn(n))
			in.Vars = append(in.Vars, dup)
			if r.Intn(2) == 0 {
				in.Vars = append(in.Vars, append(r.Perm(n), r.Perm(n)...))
			}
		}
	}
	// a second trace, one mutation away from the first
	if !big && r.Intn(10) < 7 {
		o := c11CopyTrace(in.Trace)
		switch r.Intn(7) {
		case 0: // add a span carrying an empty string for one field
			o.Spans = append(o.Spans, []c11KV{{K: names[r.Intn(len(names))], V: c11Val{T: "s", S: ""}}})
		case 1: // remove a span
			if len(o.Spans) > 0 {
				k := r.Intn(len(o.Spans))
				o.Spans = append(o.Spans[:k], o.Spans[k+1:]...)
				if o.Root == k {
					o.Root = -1
				} else if o.Root > k {
					o.Root--
				}
			}
		case 2, 3: // change one value
			if len(o.Spans) > 0 {
				k := r.Intn(len(o.Spans))
				if len(o.Spans[k]) > 0 {
					o.Spans[k][r.Intn(len(o.Spans[k]))].V = c11RandVal(r)
				}
			}
		case 4: // replace one value by the empty string
			if len(o.Spans) > 0 {
				k := r.Intn(len(o.Spans))
				if len(o.Spans[k]) > 0 {
					o.Spans[k][r.Intn(len(o.Spans[k]))].V = c11Val{T: "s", S: ""}
				}
			}
		case 5: // add a span with fresh values
			o.Spans = append(o.Spans, c11GenSpan(r, names, 100))
		case 6: // same spans, shuffled: same sets
			p := r.Perm(len(o.Spans))
			sp := make([][]c11KV, len(p))
			for a, b := range p {
				sp[a] = o.Spans[b]
				if in.Trace.Root == b {
					o.Root = a
				}
			}
			o.Spans = sp
		}
		in.Other = &o
	}
	in.Samplers = i%4 == 0
	if i%5 == 0 {
		in.Stub = &c11Stub{Dyn: []int64{0, 1, 1, 2, 3, 5, 10, 50}[r.Intn(8)], Calls: 3000}
	}
	return in
}

// ---------------------------------------------------------------- running the real code
func (v c11Val) goValue() any {
	switch v.T {
	case "s":
		return v.S
	case "i":
		return int(v.I)
	case "i64":
		return v.I
	case "f":
		return v.F
	case "b":
		return v.B
	case "u":
		return uint64(v.I)
	}
	return nil
}

func c11Str(s string) string {
	var b strings.Builder
	esc := false
	for _, c := range s {
		if c < 32 || c > 126 || c == '\\' {
			fmt.Fprintf(&b, "\\%d;", c)
			esc = true
		} else {
			b.WriteRune(c)
		}
	}
	if esc {
		return "(ue " + cq.Str(b.String()) + ")"
	}
	return "(u " + cq.Str(s) + ")"
}

func (v c11Val) coq() string {
	switch v.T {
	case "s":
		return "(VStr " + c11Str(v.S) + ")"
	case "i", "i64":
		return "(VInt " + cq.Z(v.I) + ")"
	case "f":
		// exact value: (-1)^neg * mant * 2^exp; the 'f' text of non-whole values is an oracle
		bits := math.Float64bits(v.F)
		neg := bits>>63 == 1
		e := int64((bits >> 52) & 0x7ff)
		mant := bits & (1<<52 - 1)
		if e == 0 {
			e = -1074
		} else {
			mant |= 1 << 52
			e -= 1075
		}
		return fmt.Sprintf("(VFloat %s %s %s %s)", cq.Bool(neg), cq.N(mant), cq.Z(e), c11Str(strconv.FormatFloat(v.F, 'f', -1, 64)))
	case "b":
		return "(VBool " + cq.Bool(v.B) + ")"
	case "u":
		return "(VOracle " + c11Str(fmt.Sprintf("%v", uint64(v.I))) + ")"
	}
	return "VNil"
}

type c11Built struct {
	spans []*types.Span
	root  *types.Span
}

func c11BuildSpans(t c11Trace) c11Built {
	cfg := &config.MockConfig{}
	var b c11Built
	for i, sp := range t.Spans {
		m := map[string]any{}
		for _, kv := range sp {
			m[kv.K] = kv.V.goValue()
		}
		s := &types.Span{TraceID: "t", IsRoot: i == t.Root, Event: &types.Event{Data: types.NewPayload(cfg, m)}}
		b.spans = append(b.spans, s)
		if i == t.Root {
			b.root = s
		}
	}
	return b
}

func (b c11Built) trace(idx []int) *types.Trace {
	tr := &types.Trace{TraceID: "t"}
	if idx == nil {
		for _, s := range b.spans {
			tr.AddSpan(s)
		}
	} else {
		for _, i := range idx {
			if i >= 0 && i < len(b.spans) {
				tr.AddSpan(b.spans[i])
			}
		}
	}
	tr.RootSpan = b.root
	return tr
}

// a span as a Gallina association list; later duplicates of a key are dropped (Go map semantics:
// the generator never emits them, a shrunk or hand-written input might)
func c11SpanCoq(sp []c11KV) string {
	seen := map[string]bool{}
	var kvs []string
	for i := len(sp) - 1; i >= 0; i-- { // the last assignment wins in the Go map
		if seen[sp[i].K] {
			continue
		}
		seen[sp[i].K] = true
		kvs = append([]string{cq.Pair(c11Str(sp[i].K), sp[i].V.coq())}, kvs...)
	}
	return cq.List(kvs)
}

func c11TraceCoq(t c11Trace) string {
	var sps []string
	for _, sp := range t.Spans {
		sps = append(sps, c11SpanCoq(sp))
	}
	root := "None"
	if t.Root >= 0 && t.Root < len(t.Spans) {
		root = cq.Some(c11SpanCoq(t.Spans[t.Root]))
	}
	return fmt.Sprintf("(Build_trace %s %s)", cq.List(sps), root)
}

type c11StubDyn struct {
	ret  int
	keys map[string]bool
}

func (s *c11StubDyn) Start() error { return nil }
func (s *c11StubDyn) Stop() error  { return nil }
func (s *c11StubDyn) GetSampleRate(key string) int {
	s.keys[key] = true
	return s.ret
}
func (s *c11StubDyn) GetSampleRateMulti(key string, count int) int {
	s.keys[key] = true
	return s.ret
}
func (s *c11StubDyn) SaveState() ([]byte, error)        { return nil, nil }
func (s *c11StubDyn) LoadState(state []byte) error      { return nil }
func (s *c11StubDyn) GetMetrics(prefix string) map[string]int64 { return map[string]int64{} }

var _ dynsampler.Sampler = (*c11StubDyn)(nil)

func c11Run(raw json.RawMessage) (Case, error) {
	var in c11Input
	if err := json.Unmarshal(raw, &in); err != nil {
		return Case{}, err
	}
	if in.Trace.Root >= len(in.Trace.Spans) {
		in.Trace.Root = -1
	}
	tk := sample.VerifC11NewTraceKey(in.Fields, in.UseLen)
	base := c11BuildSpans(in.Trace)
	key, n := tk.Build(base.trace(nil))
	tags := []string{fmt.Sprintf("fields:%d", len(in.Fields)), fmt.Sprintf("uselen:%v", in.UseLen)}
	if in.Trace.Root >= 0 {
		tags = append(tags, "root-span")
	}
	switch {
	case n >= sample.VerifC11MaxKeyLength-1:
		tags = append(tags, "at-or-over-cap")
	case len(in.Trace.Spans) == 0:
		tags = append(tags, "no-spans")
	}
	human := map[string]any{"fields": in.Fields, "uselen": in.UseLen, "key": key, "n": n}

	var vars []string
	varChanged := false
	for _, idx := range in.Vars {
		k, m := tk.Build(base.trace(idx))
		if k != key {
			varChanged = true
		}
		var is []string
		for _, i := range idx {
			is = append(is, cq.Nat(i))
		}
		vars = append(vars, fmt.Sprintf("(%s, %s, %s)", cq.List(is), c11Str(k), cq.N(uint64(m))))
	}
	if len(in.Vars) > 0 {
		tags = append(tags, "variants")
	}
	if varChanged {
		tags = append(tags, "variant-key-differs")
	}

	other := "None"
	if in.Other != nil {
		if in.Other.Root >= len(in.Other.Spans) {
			in.Other.Root = -1
		}
		ob := c11BuildSpans(*in.Other)
		ok, om := tk.Build(ob.trace(nil))
		other = cq.Some(fmt.Sprintf("(Build_other %s %s %s)", c11TraceCoq(*in.Other), c11Str(ok), cq.N(uint64(om))))
		human["other_key"] = ok
		if ok == key {
			tags = append(tags, "other-same-key")
		} else {
			tags = append(tags, "other-different-key")
		}
	}

	var sobs []string
	fieldsOK := len(in.Fields) > 0
	for _, f := range in.Fields {
		if f == "" {
			fieldsOK = false // config.GetKeyFields indexes field[0] (C28's finding); not this property's subject
		}
	}
	if in.Samplers && fieldsOK {
		tr := base.trace(nil)
		cfgs := []struct {
			name string
			c    any
		}{
			{"dynamic", &config.DynamicSamplerConfig{SampleRate: 3, FieldList: in.Fields, UseTraceLength: in.UseLen}},
			{"emadynamic", &config.EMADynamicSamplerConfig{GoalSampleRate: 3, FieldList: in.Fields, UseTraceLength: in.UseLen}},
			{"emathroughput", &config.EMAThroughputSamplerConfig{GoalThroughputPerSec: 10, FieldList: in.Fields, UseTraceLength: in.UseLen}},
			{"windowedthroughput", &config.WindowedThroughputSamplerConfig{GoalThroughputPerSec: 10, FieldList: in.Fields, UseTraceLength: in.UseLen,
				UpdateFrequency: config.Duration(1e9), LookbackFrequency: config.Duration(30e9)}},
			{"totalthroughput", &config.TotalThroughputSamplerConfig{GoalThroughputPerSec: 10, FieldList: in.Fields, UseTraceLength: in.UseLen}},
		}
		for _, sc := range cfgs {
			f := &sample.SamplerFactory{Config: &config.MockConfig{GetSamplerTypeVal: sc.c}, Logger: &logger.NullLogger{}, Metrics: &metrics.NullMetrics{}}
			f.Start()
			s := f.GetSamplerImplementationForKey("env")
			if s == nil {
				f.Stop()
				return Case{}, fmt.Errorf("sampler %s not created", sc.name)
			}
			rate, keep, reason, k := s.GetSampleRate(tr)
			f.Stop()
			if reason != sc.name {
				return Case{}, fmt.Errorf("sampler %s answered with reason %q", sc.name, reason)
			}
			sobs = append(sobs, fmt.Sprintf("(Build_sobs %s %s %s %s)", cq.Str(sc.name), c11Str(k), cq.Z(int64(rate)), cq.Bool(keep)))
		}
		tags = append(tags, "five-samplers")
	}

	stub := "None"
	if in.Stub != nil && fieldsOK && in.Stub.Dyn >= 0 {
		// deterministic global math/rand for the keep draws
		os.Setenv("GODEBUG", "randseednop=0")
		rand.Seed(int64(in.Stub.Dyn)*7919 + int64(len(key)))
		sd := &c11StubDyn{ret: int(in.Stub.Dyn), keys: map[string]bool{}}
		ds := &sample.DynamicSampler{Config: &config.DynamicSamplerConfig{SampleRate: 3, FieldList: in.Fields, UseTraceLength: in.UseLen},
			Logger: &logger.NullLogger{}, Metrics: &metrics.NullMetrics{}}
		sample.VerifC11SetDynsampler(ds, sd)
		if err := ds.Start(); err != nil {
			return Case{}, err
		}
		tr := base.trace(nil)
		kept := 0
		rmin, rmax := uint(0), uint(0)
		func() {
			// a panic inside GetSampleRate (rand.Intn(0) when the floor is missing) is reported as rate 0
			defer func() {
				if recover() != nil {
					rmin = 0
				}
			}()
			for c := 0; c < in.Stub.Calls; c++ {
				rate, keep, _, _ := ds.GetSampleRate(tr)
				if c == 0 || rate < rmin {
					rmin = rate
				}
				if c == 0 || rate > rmax {
					rmax = rate
				}
				if keep {
					kept++
				}
			}
		}()
		seen := key
		if len(sd.keys) != 1 || !sd.keys[key] {
			for k := range sd.keys {
				if k != key {
					seen = k
				}
			}
		}
		stub = cq.Some(fmt.Sprintf("(Build_stub %s %s %s %s %s %s)",
			cq.Z(in.Stub.Dyn), cq.Z(int64(rmin)), cq.Z(int64(rmax)), cq.Z(int64(in.Stub.Calls)), cq.Z(int64(kept)), c11Str(seen)))
		tags = append(tags, "stub-dynsampler")
		human["stub"] = fmt.Sprintf("dyn=%d rate=%d..%d kept=%d/%d", in.Stub.Dyn, rmin, rmax, kept, in.Stub.Calls)
	}

	var fs []string
	for _, f := range in.Fields {
		fs = append(fs, c11Str(f))
	}
	coq := fmt.Sprintf("(Build_case %s %s %s %s %s %s %s %s %s)",
		cq.List(fs), cq.Bool(in.UseLen), c11TraceCoq(in.Trace), c11Str(key), cq.N(uint64(n)), cq.List(vars), other, cq.List(sobs), stub)
	b, _ := json.Marshal(struct {
		F []string
		U bool
		T c11Trace
	}{in.Fields, in.UseLen, in.Trace})
	nontriv := n >= 2 && len(in.Vars) > 0
	return Case{Coq: coq, Key: string(b), Nontriv: nontriv, Tags: sampDedupTags(tags), Summary: human}, nil
}

// ---------------------------------------------------------------- shrinking
func c11Shrink(raw json.RawMessage) []json.RawMessage {
	var in c11Input
	if json.Unmarshal(raw, &in) != nil {
		return nil
	}
	var out []json.RawMessage
	emit := func(c c11Input) {
		b, _ := json.Marshal(c)
		out = append(out, b)
	}
	if in.Samplers {
		c := in
		c.Samplers = false
		emit(c)
	}
	if in.Stub != nil {
		c := in
		c.Stub = nil
		emit(c)
	}
	if in.Other != nil {
		c := in
		c.Other = nil
		emit(c)
	}
	for i := range in.Vars {
		c := in
		c.Vars = append(append([][]int{}, in.Vars[:i]...), in.Vars[i+1:]...)
		emit(c)
	}
	dropSpan := func(t c11Trace, k int) c11Trace {
		o := c11Trace{Root: t.Root}
		o.Spans = append(append([][]c11KV{}, t.Spans[:k]...), t.Spans[k+1:]...)
		if t.Root == k {
			o.Root = -1
		} else if t.Root > k {
			o.Root--
		}
		return o
	}
	remap := func(vars [][]int, k int) [][]int {
		var o [][]int
		for _, idx := range vars {
			var n []int
			for _, i := range idx {
				if i < k {
					n = append(n, i)
				} else if i > k {
					n = append(n, i-1)
				}
			}
			o = append(o, n)
		}
		return o
	}
	for k := range in.Trace.Spans {
		c := in
		c.Trace = dropSpan(in.Trace, k)
		c.Vars = remap(in.Vars, k)
		emit(c)
	}
	if in.Other != nil {
		for k := range in.Other.Spans {
			c := in
			o := dropSpan(*in.Other, k)
			c.Other = &o
			emit(c)
		}
	}
	if len(in.Fields) > 1 {
		for k := range in.Fields {
			c := in
			c.Fields = append(append([]string{}, in.Fields[:k]...), in.Fields[k+1:]...)
			emit(c)
		}
	}
	for k, sp := range in.Trace.Spans {
		for j := range sp {
			c := in
			c.Trace = c11CopyTrace(in.Trace)
			c.Trace.Spans[k] = append(append([]c11KV{}, sp[:j]...), sp[j+1:]...)
			emit(c)
		}
	}
	if in.Other != nil {
		for k, sp := range in.Other.Spans {
			for j := range sp {
				c := in
				o := c11CopyTrace(*in.Other)
				o.Spans[k] = append(append([]c11KV{}, sp[:j]...), sp[j+1:]...)
				c.Other = &o
				emit(c)
			}
		}
	}
	return out
}
