package drive

import (
	"fmt"
	"go/ast"
	"go/parser"
	"go/token"
	"os"
	"path/filepath"
	"regexp"
	"strconv"
	"strings"
)

// Parsing of Go race detector reports and resolution of the two racing accesses to a struct field.

type c35Frame struct {
	Func string
	File string
	Line int
}
type c35Access struct {
	Header string
	Frames []c35Frame
}

func (a c35Access) where() string {
	if f, ok := a.refineryFrame(); ok {
		return fmt.Sprintf("%s (%s:%d)", f.Func, filepath.Base(f.File), f.Line)
	}
	if len(a.Frames) > 0 {
		return a.Frames[0].Func
	}
	return "?"
}

type c35Race struct{ A, B c35Access }

var c35LocRe = regexp.MustCompile(`^\s+(\S+\.go):(\d+)(?:\s|$)`)

func c35ParseRaces(text string) []c35Race {
	var out []c35Race
	parts := strings.Split(text, "WARNING: DATA RACE")
	for _, blk := range parts[1:] {
		if i := strings.Index(blk, "=================="); i >= 0 {
			blk = blk[:i]
		}
		var accs []c35Access
		var cur *c35Access
		lines := strings.Split(blk, "\n")
		for i := 0; i < len(lines); i++ {
			l := lines[i]
			t := strings.TrimSpace(l)
			if t == "" {
				cur = nil
				continue
			}
			if !strings.HasPrefix(l, " ") {
				// section header
				low := strings.ToLower(t)
				if (strings.Contains(low, "read at") || strings.Contains(low, "write at")) && strings.Contains(low, "by ") {
					accs = append(accs, c35Access{Header: t})
					cur = &accs[len(accs)-1]
				} else {
					cur = nil
				}
				continue
			}
			if cur == nil {
				continue
			}
			// function line followed by a location line
			if i+1 < len(lines) {
				if m := c35LocRe.FindStringSubmatch(lines[i+1]); m != nil {
					ln, _ := strconv.Atoi(m[2])
					fn := strings.TrimSuffix(t, "()")
					if k := strings.Index(fn, "("); k > 0 && strings.HasSuffix(fn, ")") && !strings.Contains(fn[k:], "*") {
						fn = fn[:k]
					}
					cur.Frames = append(cur.Frames, c35Frame{Func: fn, File: m[1], Line: ln})
					i++
				}
			}
		}
		if len(accs) >= 2 {
			out = append(out, c35Race{A: accs[0], B: accs[1]})
		} else if len(accs) == 1 {
			out = append(out, c35Race{A: accs[0], B: c35Access{Header: "unknown (stack not available)"}})
		}
	}
	return out
}

const c35ModPrefix = "github.com/honeycombio/refinery/"

// refineryFrame: the innermost frame that lies in the refinery module proper (not the harness, not
// a dependency, not the runtime).
func (a c35Access) refineryFrame() (c35Frame, bool) {
	for _, f := range a.Frames {
		if strings.HasPrefix(f.Func, c35ModPrefix) && !strings.HasPrefix(f.Func, c35ModPrefix+"verifharness") {
			return f, true
		}
	}
	return c35Frame{}, false
}

// "github.com/honeycombio/refinery/collect/cache.(*cuckooSentCache).Resize" -> "cuckooSentCache.Resize"
func c35ShortFunc(full string) (short string, recv string) {
	s := full
	if i := strings.LastIndex(s, "/"); i >= 0 {
		s = s[i+1:]
	}
	if i := strings.Index(s, "."); i >= 0 {
		s = s[i+1:] // drop the package name
	}
	// drop closure suffixes .func1, .func1.2, .gowrap1, .deferwrap1
	parts := strings.Split(s, ".")
	var keep []string
	for _, p := range parts {
		if strings.HasPrefix(p, "func") || strings.HasPrefix(p, "gowrap") || strings.HasPrefix(p, "deferwrap") || (len(p) > 0 && p[0] >= '0' && p[0] <= '9') {
			break
		}
		keep = append(keep, p)
	}
	s = strings.Join(keep, ".")
	s = strings.ReplaceAll(s, "(*", "")
	s = strings.ReplaceAll(s, ")", "")
	s = strings.ReplaceAll(s, "(", "")
	if i := strings.Index(s, "["); i >= 0 { // generic instantiation
		if j := strings.Index(s[i:], "]"); j >= 0 {
			s = s[:i] + s[i+j+1:]
		}
	}
	if i := strings.Index(s, "."); i >= 0 {
		recv = s[:i]
	}
	return s, recv
}

type c35PkgFields map[string]map[string]bool // struct -> field set

var c35PkgCache = map[string]c35PkgFields{}

func c35StructFields(dir string) c35PkgFields {
	if p, ok := c35PkgCache[dir]; ok {
		return p
	}
	out := c35PkgFields{}
	ents, _ := os.ReadDir(dir)
	fset := token.NewFileSet()
	for _, e := range ents {
		n := e.Name()
		if e.IsDir() || !strings.HasSuffix(n, ".go") || strings.HasSuffix(n, "_test.go") {
			continue
		}
		f, err := parser.ParseFile(fset, filepath.Join(dir, n), nil, parser.SkipObjectResolution)
		if err != nil {
			continue
		}
		ast.Inspect(f, func(nd ast.Node) bool {
			ts, ok := nd.(*ast.TypeSpec)
			if !ok {
				return true
			}
			st, ok := ts.Type.(*ast.StructType)
			if !ok {
				return true
			}
			m := map[string]bool{}
			for _, fl := range st.Fields.List {
				for _, nm := range fl.Names {
					m[nm.Name] = true
				}
			}
			out[ts.Name.Name] = m
			return true
		})
	}
	c35PkgCache[dir] = out
	return out
}

// candidates: (struct, field) pairs that the source line of the frame may be touching.
func c35Candidates(f c35Frame) [][2]string {
	fset := token.NewFileSet()
	file, err := parser.ParseFile(fset, f.File, nil, parser.SkipObjectResolution)
	if err != nil {
		return nil
	}
	pf := c35StructFields(filepath.Dir(f.File))
	_, recv := c35ShortFunc(f.Func)
	// receiver variable name of the enclosing function
	recvVar := ""
	for _, d := range file.Decls {
		fd, ok := d.(*ast.FuncDecl)
		if !ok || fd.Body == nil {
			continue
		}
		if fset.Position(fd.Pos()).Line <= f.Line && f.Line <= fset.Position(fd.End()).Line {
			if fd.Recv != nil && len(fd.Recv.List) > 0 && len(fd.Recv.List[0].Names) > 0 {
				recvVar = fd.Recv.List[0].Names[0].Name
			}
		}
	}
	var out [][2]string
	seen := map[[2]string]bool{}
	add := func(st, fl string) {
		k := [2]string{st, fl}
		if !seen[k] {
			seen[k] = true
			out = append(out, k)
		}
	}
	ast.Inspect(file, func(nd ast.Node) bool {
		switch x := nd.(type) {
		case *ast.SelectorExpr:
			if fset.Position(x.Sel.Pos()).Line != f.Line {
				return true
			}
			name := x.Sel.Name
			if id, ok := x.X.(*ast.Ident); ok && id.Name == recvVar && recv != "" && pf[recv][name] {
				add(recv, name)
				return true
			}
			for st, fields := range pf {
				if fields[name] {
					add(st, name)
				}
			}
		case *ast.KeyValueExpr:
			if id, ok := x.Key.(*ast.Ident); ok && fset.Position(id.Pos()).Line == f.Line {
				for st, fields := range pf {
					if fields[id.Name] {
						add(st, id.Name)
					}
				}
			}
		}
		return true
	})
	return out
}

// c35Resolve names the raced field: the (struct, field) candidates common to the source lines of
// both accesses, preferring the receiver's own fields; falls back to the first access's candidates.
func c35Resolve(r c35Race) (st, field, fa, fb string) {
	fA, okA := r.A.refineryFrame()
	fB, okB := r.B.refineryFrame()
	if okA {
		fa, _ = c35ShortFunc(fA.Func)
	} else if len(r.A.Frames) > 0 {
		fa = r.A.Frames[0].Func
	}
	if okB {
		fb, _ = c35ShortFunc(fB.Func)
	} else if len(r.B.Frames) > 0 {
		fb = r.B.Frames[0].Func
	}
	var ca, cb [][2]string
	if okA {
		ca = c35Candidates(fA)
	}
	if okB {
		cb = c35Candidates(fB)
	}
	for _, x := range ca {
		for _, y := range cb {
			if x == y {
				return x[0], x[1], fa, fb
			}
		}
	}
	// the racing memory may be reached through different fields on the two sides (aliasing) or one
	// side has no source frame: name what the first resolvable side touches
	if len(ca) > 0 {
		return ca[0][0], ca[0][1], fa, fb
	}
	if len(cb) > 0 {
		return cb[0][0], cb[0][1], fa, fb
	}
	if okA || okB {
		return "?", "?", fa, fb
	}
	return "", "", fa, fb
}
