package drive

// Boundary-biased generator of collector histories (shared by C01, C02, C03, C07, C36).

import (
	"math/rand"
	"sort"
)

type collBias struct {
	Eject   int  // weight of eject ops (percent points)
	Reload  int  // weight of reload ops
	Alloc   int  // weight of checkAlloc ops
	Tick    int  // weight of tick ops
	Ages    bool // give spans real-clock ages (then TraceTimeout stays fixed)
	BigPads bool // large spans (for checkAlloc cases)
	Stop    bool // end with a stop op at a random point
	Flush   int  // percent of cases that end with the flush phase
	Forget  int  // percent of cases with a tiny kept-decision cache
}

const (
	collMs  = int64(1_000_000)
	collSec = int64(1_000_000_000)
)

type collGenTrace struct {
	first   int64
	sendBy  int64
	count   int
	hasRoot bool
	live    bool
	decided bool
	size    int
}

func collPick64(r *rand.Rand, xs ...int64) int64 { return xs[r.Intn(len(xs))] }

func collGenCfg(r *rand.Rand, ntab int, ages bool) collCfg {
	c := collCfg{Ver: r.Intn(ntab)}
	c.TT = collPick64(r, 0, collSec, 10*collSec, 10*collSec, 100*collSec)
	c.SD = collPick64(r, 0, collMs, 500*collMs, 2*collSec, 5*collSec, 20*collSec)
	c.SL = []uint64{0, 0, 1, 2, 3, 5, 1<<32 + 1, 1<<32 + 2}[r.Intn(8)]
	c.ME = []uint64{0, 1, 1, 2, 3, 3000}[r.Intn(6)]
	return c
}

func collEff(c collCfg) (tt, sd int64) {
	tt, sd = c.TT, c.SD
	if tt == 0 {
		tt = 60 * collSec
	}
	if sd == 0 {
		sd = 2 * collSec
	}
	return
}

func collGen(r *rand.Rand, tier string, b collBias) collInput {
	in := collInput{Workers: []int{1, 1, 2, 3, 7}[r.Intn(5)], T0: 1_700_000_000 * collSec, Dry: r.Intn(100) < 15}
	ntab := 1 + r.Intn(3)
	for t := 0; t < ntab; t++ {
		var tab []collRule
		for k, nr := 0, r.Intn(4); k < nr; k++ {
			rule := collRule{Drop: r.Intn(100) < 60}
			if r.Intn(100) < 60 {
				c := r.Intn(3)
				rule.Cls = &c
			}
			if r.Intn(100) < 35 {
				m := 1 + r.Intn(4)
				rule.MinSpans = &m
			}
			if r.Intn(100) < 30 {
				rb := r.Intn(2) == 0
				rule.Root = &rb
			}
			tab = append(tab, rule)
		}
		in.Tables = append(in.Tables, tab)
	}
	in.Cfg = collGenCfg(r, ntab, b.Ages)
	cfg := in.Cfg
	if r.Intn(100) < b.Forget {
		in.KeptSize = uint(1 + r.Intn(2))
	}
	in.Flush = r.Intn(100) < b.Flush
	ntr := 1 + r.Intn(6)
	nops := 6 + r.Intn(22)
	if tier == "thorough" {
		ntr = 1 + r.Intn(9)
		nops = 6 + r.Intn(50)
	}
	trs := make([]collGenTrace, ntr)
	now := in.T0
	sid := 0
	stopAt := -1
	if b.Stop {
		stopAt = r.Intn(nops + 1)
	}
	// advance: mostly aim at a pending deadline (exactly / 1ns before / 1ns after)
	advance := func() int64 {
		var targets []int64
		for _, t := range trs {
			if t.live && t.sendBy >= now {
				targets = append(targets, t.sendBy)
			}
		}
		sort.Slice(targets, func(a, c int) bool { return targets[a] < targets[c] })
		if len(targets) > 0 && r.Intn(100) < 70 {
			t := targets[r.Intn(len(targets))]
			d := t - now + collPick64(r, 0, 0, 0, -1, 1, 1)
			if d < 0 {
				d = 0
			}
			return d
		}
		return collPick64(r, 0, 0, 1, collMs, 100*collMs, collSec, 3*collSec, 30*collSec)
	}
	for j := 0; j < nops; j++ {
		if j == stopAt {
			in.Ops = append(in.Ops, collOp{Op: "stop", Stall: r.Intn(2) == 0})
			break
		}
		x := r.Intn(100)
		wSpan := 100 - b.Tick - b.Eject - b.Reload - b.Alloc
		switch {
		case x < wSpan:
			ti := r.Intn(ntr)
			t := &trs[ti]
			d := int64(0)
			if r.Intn(100) < 40 {
				d = advance()
			}
			now += d
			s := &collSpan{Tid: ti, Sid: sid, Cls: r.Intn(3), Kind: []int{0, 0, 0, 1, 2}[r.Intn(5)]}
			sid++
			s.Pad = []int{0, 1, 7, 20, 64, 200}[r.Intn(6)]
			if b.BigPads {
				s.Pad = []int{1000, 50_000, 200_000, 400_000, 1_000_000}[r.Intn(5)]
			}
			s.Root = r.Intn(100) < 22
			s.Via = []int{0, 0, 1, 1, 2}[r.Intn(5)]
			if b.Ages && r.Intn(100) < 50 {
				tt, _ := collEff(cfg)
				s.Age = []int64{tt * 3 / 10, tt * 55 / 100, tt * 8 / 10, tt * 13 / 10}[r.Intn(4)]
			}
			in.Ops = append(in.Ops, collOp{Op: "span", D: d, Span: s})
			// light simulation (bias only)
			tt, sd := collEff(cfg)
			if !t.live && !t.decided {
				*t = collGenTrace{first: now, sendBy: now + tt, live: true}
			}
			if t.live {
				t.count++
				t.size += s.Pad + 25
				mark, to := false, sd
				if s.Root {
					mark, t.hasRoot = true, true
				}
				if cfg.SL > 0 && uint64(t.count) > cfg.SL {
					mark, to = true, 0
				}
				if mark && now+to < t.sendBy {
					t.sendBy = now + to
				}
			}
		case x < wSpan+b.Tick:
			d := advance()
			live := r.Intn(3) == 0
			if live && d == 0 {
				d = 1
			}
			now += d
			if !live && r.Intn(3) == 0 {
				// tick immediately followed by a span of a trace that tick has just decided
				ts := &collSpan{Tid: r.Intn(8), Sid: sid, Cls: r.Intn(3), Pad: []int{0, 7, 64}[r.Intn(3)], Root: r.Intn(4) == 0}
				sid++
				in.Ops = append(in.Ops, collOp{Op: "tickspan", D: d, W: r.Intn(8), Span: ts})
			} else if live {
				in.Ops = append(in.Ops, collOp{Op: "ltick", D: d})
			} else {
				in.Ops = append(in.Ops, collOp{Op: "tick", D: d, W: r.Intn(8)})
			}
			// simulation: everything expired is (probably) gone; ME may keep some, good enough
			n := 0
			for i := range trs {
				if trs[i].live && trs[i].sendBy <= now && (cfg.ME == 0 || uint64(n) < cfg.ME) {
					trs[i].live, trs[i].decided = false, true
					n++
				}
			}
		case x < wSpan+b.Tick+b.Eject:
			var sizes []int
			tot := 0
			for _, t := range trs {
				if t.live {
					sizes = append(sizes, t.size)
					tot += t.size
				}
			}
			var bytes int64
			switch r.Intn(6) {
			case 0:
				bytes = 0
			case 1:
				bytes = int64(tot) + collPick64(r, -1, 0, 1)
			case 2:
				if len(sizes) > 0 {
					bytes = int64(sizes[r.Intn(len(sizes))]) + collPick64(r, -1, 0, 1)
				}
			default:
				if tot > 0 {
					bytes = int64(r.Intn(tot + 1))
				}
			}
			if bytes < 0 {
				bytes = 0
			}
			in.Ops = append(in.Ops, collOp{Op: "eject", W: r.Intn(8), Bytes: bytes})
			if r.Intn(2) == 0 { // bias only: assume roughly half left
				for i := range trs {
					if trs[i].live && r.Intn(2) == 0 {
						trs[i].live, trs[i].decided = false, true
					}
				}
			}
		case x < wSpan+b.Tick+b.Eject+b.Reload:
			nc := cfg
			switch r.Intn(4) {
			case 0:
				nc.Ver = r.Intn(ntab)
			case 1:
				nc = collGenCfg(r, ntab, b.Ages)
			case 2:
				nc.ME = []uint64{0, 1, 2, 3000}[r.Intn(4)]
				nc.Ver = r.Intn(ntab)
			default:
				nc.SL = []uint64{0, 1, 2, 3}[r.Intn(4)]
				nc.SD = collPick64(r, 0, collMs, 2*collSec)
			}
			if b.Ages {
				nc.TT = cfg.TT // ages are fractions of the trace timeout: keep it fixed
			}
			cfg = nc
			c := nc
			in.Ops = append(in.Ops, collOp{Op: "reload", Cfg: &c})
		default:
			tot := 0
			for _, t := range trs {
				if t.live {
					tot += t.size
				}
			}
			var bytes int64
			switch r.Intn(4) {
			case 0:
				bytes = -1 // below the limit: nothing may happen
			case 1:
				bytes = int64(tot)*int64(in.Workers) + 1_000_000
			default:
				bytes = int64(r.Intn(tot*in.Workers+1)) + 1
			}
			in.Ops = append(in.Ops, collOp{Op: "alloc", Bytes: bytes})
		}
	}
	return in
}

// collGenEjectGrow: the lifetime of the impact estimate. Several traces with distinct sizes in one
// buffer; an ejection pass whose byte target separates the heaviest from the next (exactly one trace
// leaves, the survivors' impact has been computed by the sort); then survivors GROW by spans of
// different sizes so that the impact order changes (typically the lightest becomes the heaviest);
// then a second (and sometimes third) partial pass whose target again separates the new heaviest
// from the next. A stale per-trace impact makes the later pass pick a lighter trace first.
func collGenEjectGrow(r *rand.Rand, tier string) collInput {
	in := collInput{Workers: []int{1, 1, 1, 2, 3}[r.Intn(5)], T0: 1_700_000_000 * collSec, Dry: r.Intn(100) < 15}
	in.Tables = [][]collRule{{}}
	if r.Intn(3) == 0 {
		c := r.Intn(3)
		in.Tables = [][]collRule{{{Cls: &c, Drop: true}}}
	}
	in.Cfg = collCfg{TT: 100 * collSec, SD: 20 * collSec, SL: 0, ME: 0}
	ntr := 3 + r.Intn(3)
	if in.Workers > 1 {
		ntr = 6 + r.Intn(4)
	}
	size := make([]int, ntr)
	live := make([]bool, ntr)
	sid := 0
	addSpan := func(t, pad int, age int64) {
		s := &collSpan{Tid: t, Sid: sid, Cls: r.Intn(3), Pad: pad, Age: age, Via: []int{0, 1, 2}[r.Intn(3)], Kind: []int{0, 0, 1, 2}[r.Intn(4)]}
		sid++
		in.Ops = append(in.Ops, collOp{Op: "span", D: int64(r.Intn(3)) * collMs, Span: s})
		size[t] += pad + 25
		live[t] = true
	}
	pads := r.Perm(12)
	for t := 0; t < ntr; t++ {
		addSpan(t, 10+pads[t%12]*37, 0)
		if r.Intn(3) == 0 {
			addSpan(t, r.Intn(9), 0)
		}
	}
	// byte target that lets exactly the heaviest `k` live traces go (single worker view; with
	// several workers it is only a bias)
	target := func(k int) int64 {
		var ss []int
		for t := 0; t < ntr; t++ {
			if live[t] {
				ss = append(ss, size[t])
			}
		}
		sort.Sort(sort.Reverse(sort.IntSlice(ss)))
		if len(ss) == 0 {
			return 0
		}
		if k > len(ss) {
			k = len(ss)
		}
		sum := 0
		for i := 0; i < k-1; i++ {
			sum += ss[i]
		}
		// released after k-1 traces <= target < released after k traces; sits at the next trace's size when possible
		lo, hi := sum, sum+ss[k-1]-1
		tgt := lo
		if k < len(ss) && sum+ss[k] >= lo && sum+ss[k] <= hi {
			tgt = sum + ss[k]
		} else if hi > lo {
			tgt = lo + r.Intn(hi-lo+1)
		}
		// bias bookkeeping: the k heaviest leave
		for i := 0; i < k; i++ {
			for t := 0; t < ntr; t++ {
				if live[t] && size[t] == ss[i] {
					live[t] = false
					break
				}
			}
		}
		return int64(tgt)
	}
	passes := 2 + r.Intn(2)
	for p := 0; p < passes; p++ {
		k := 1
		if r.Intn(4) == 0 {
			k = 2
		}
		for w := 0; w < in.Workers; w++ {
			if w == 0 || r.Intn(2) == 0 {
				in.Ops = append(in.Ops, collOp{Op: "eject", W: w, Bytes: target(k)})
			}
		}
		// survivors grow: the lightest live trace gets big spans, another one a small span
		var liveIdx []int
		for t := 0; t < ntr; t++ {
			if live[t] {
				liveIdx = append(liveIdx, t)
			}
		}
		if len(liveIdx) == 0 {
			break
		}
		sort.Slice(liveIdx, func(a, b int) bool { return size[liveIdx[a]] < size[liveIdx[b]] })
		grow := liveIdx[0]
		if r.Intn(4) == 0 {
			grow = liveIdx[r.Intn(len(liveIdx))]
		}
		maxSize := size[liveIdx[len(liveIdx)-1]]
		for n := 1 + r.Intn(2); n > 0; n-- {
			var age int64
			if r.Intn(5) == 0 {
				age = 30 * collSec // multiplier 2
			}
			addSpan(grow, maxSize/2+50+r.Intn(300), age)
		}
		if len(liveIdx) > 1 && r.Intn(2) == 0 {
			addSpan(liveIdx[1+r.Intn(len(liveIdx)-1)], r.Intn(30), 0)
		}
	}
	if r.Intn(3) == 0 {
		in.Flush = true
	}
	return in
}
