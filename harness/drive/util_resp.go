package drive

// Shared rig of family "resp" (C23 C24 C25 C37): a REAL route.Router started with the real LnS()
// (real gorilla mux, real middlewares, real handlers), wired to recording doubles for the collector,
// the two transmissions and the sharder, plus a recording http.ResponseWriter and an in-memory gRPC
// connection to the router's real OTLP services.

import (
	"context"
	"encoding/json"
	"fmt"
	"io"
	"net"
	"net/http"
	"net/http/httptest"
	"strings"
	"sync"
	"time"

	"github.com/honeycombio/refinery/collect"
	"github.com/honeycombio/refinery/config"
	"github.com/honeycombio/refinery/logger"
	"github.com/honeycombio/refinery/metrics"
	"github.com/honeycombio/refinery/route"
	"github.com/honeycombio/refinery/sharder"
	"github.com/honeycombio/refinery/types"
	"go.opentelemetry.io/otel/trace/noop"
	collectorlogs "go.opentelemetry.io/proto/otlp/collector/logs/v1"
	"google.golang.org/grpc"
	"google.golang.org/grpc/credentials/insecure"
	"google.golang.org/grpc/test/bufconn"
)

// ---- recording collector -------------------------------------------------------------------

type respAttempt struct {
	ID       int64
	OK       bool
	FromPeer bool
	APIKey   string
	Dataset  string
	Env      string
}

// respCollector answers AddSpan from a script (i-th call accepted?), like the bounded incoming
// queue of the real collector (non-blocking send; ErrWouldBlock when full).
type respCollector struct {
	mu       sync.Mutex
	admit    []bool
	attempts []respAttempt
}

func respEvID(p *types.Payload) int64 {
	switch v := p.Get("evid").(type) {
	case int64:
		return v
	case int:
		return int64(v)
	case uint64:
		return int64(v)
	case float64:
		return int64(v)
	case int8:
		return int64(v)
	case int16:
		return int64(v)
	case int32:
		return int64(v)
	case uint8:
		return int64(v)
	case uint16:
		return int64(v)
	case uint32:
		return int64(v)
	}
	return -1
}

func (c *respCollector) add(sp *types.Span, fromPeer bool) error {
	c.mu.Lock()
	defer c.mu.Unlock()
	ok := true
	if n := len(c.attempts); n < len(c.admit) {
		ok = c.admit[n]
	}
	c.attempts = append(c.attempts, respAttempt{ID: respEvID(&sp.Data), OK: ok, FromPeer: fromPeer,
		APIKey: sp.APIKey, Dataset: sp.Dataset, Env: sp.Environment})
	if !ok {
		return collect.ErrWouldBlock
	}
	return nil
}
func (c *respCollector) AddSpan(sp *types.Span) error         { return c.add(sp, false) }
func (c *respCollector) AddSpanFromPeer(sp *types.Span) error { return c.add(sp, true) }
func (c *respCollector) Stressed() bool                       { return false }
func (c *respCollector) GetStressedSampleRate(string) (uint, bool, string) {
	return 0, false, ""
}
func (c *respCollector) ProcessSpanImmediately(*types.Span) (bool, bool) { return false, false }

var _ collect.Collector = (*respCollector)(nil)

// ---- recording transmission ----------------------------------------------------------------

type respSent struct {
	ID      int64
	APIHost string
	APIKey  string
	Dataset string
	Env     string
}
type respTransmission struct {
	mu   sync.Mutex
	sent []respSent
}

func (t *respTransmission) EnqueueEvent(ev *types.Event) {
	t.mu.Lock()
	defer t.mu.Unlock()
	t.sent = append(t.sent, respSent{ID: respEvID(&ev.Data), APIHost: ev.APIHost, APIKey: ev.APIKey,
		Dataset: ev.Dataset, Env: ev.Environment})
}
func (t *respTransmission) EnqueueSpan(sp *types.Span) { t.EnqueueEvent(sp.Event) }
func (t *respTransmission) RegisterMetrics()           {}

// ---- sharder: trace ids starting with "bb" belong to the peer --------------------------------

type respSharder struct{ self, other *sharder.TestShard }

func (s *respSharder) MyShard() sharder.Shard { return s.self }
func (s *respSharder) WhichShard(tid string) sharder.Shard {
	if strings.HasPrefix(tid, "bb") {
		return s.other
	}
	return s.self
}

const respPeerAddr = "http://peer.invalid:8081"
const respAPIHost = "http://api.invalid"

// ---- recording response writer ---------------------------------------------------------------

type respWriter struct {
	hdr      http.Header
	hdrCalls []int  // every WriteHeader call, in order
	status   int    // status in effect (first WriteHeader, or 200 at the first Write), 0 = nothing written
	body     []byte // all body bytes
	lateHdr  bool   // a WriteHeader call arrived after the status was already fixed
	implicit int    // 1 when the first body write happened without a WriteHeader (implicit 200)
}

func newRespWriter() *respWriter { return &respWriter{hdr: http.Header{}} }
func (w *respWriter) Header() http.Header { return w.hdr }
func (w *respWriter) WriteHeader(code int) {
	w.hdrCalls = append(w.hdrCalls, code)
	if w.status == 0 {
		w.status = code
	} else {
		w.lateHdr = true
	}
}
func (w *respWriter) Write(b []byte) (int, error) {
	if w.status == 0 {
		w.status = 200
		w.implicit = 1
	}
	w.body = append(w.body, b...)
	return len(b), nil
}

// statusWrites counts how many times the handler chain set a status: every WriteHeader call, plus
// the implicit 200 of a first body write without one (otelhttp's wrapper makes that one explicit;
// counting both ways keeps "direct" and "mux" calls comparable).
func (w *respWriter) statusWrites() int { return len(w.hdrCalls) + w.implicit }

// effective status as a client sees it (net/http sends 200 when the handler wrote nothing)
func (w *respWriter) effStatus() int {
	if w.status == 0 {
		return 200
	}
	return w.status
}

// ---- the rig ---------------------------------------------------------------------------------

type respRig struct {
	router    *route.Router
	cfg       *config.MockConfig
	coll      *respCollector
	up, peer  *respTransmission
	handler   http.Handler
	envCalls  []string
	envFail   bool
	envKeyID  map[string]string // not used by SetEnvironmentCache (key IDs need the real lookup)
	grpcSrv   *grpc.Server
	grpcConn  *grpc.ClientConn
	transport *http.Transport
	realEnv   bool        // keep LnS's real environment cache (lookups go to the fake Honeycomb API over HTTP)
	api       *respFakeAPI // fake Honeycomb API (only for realEnv rigs)
}

var respRigs = map[string]*respRig{}

// respGetRig returns the (cached) rig for a router type; all mutable state is reset.
func respGetRig(routerType string) (*respRig, error) { return respGetRigEnv(routerType, false) }

// respGetRigEnv: with realEnv the router keeps the environment cache LnS built (real lookupEnvironment
// against a fake Honeycomb API on a local socket), so key IDs work; otherwise the cache is replaced
// through SetEnvironmentCache on every reset (fault injection, no network).
func respGetRigEnv(routerType string, realEnv bool) (*respRig, error) {
	name := routerType
	if realEnv {
		name += "/realenv"
	}
	if g, ok := respRigs[name]; ok {
		g.reset()
		return g, nil
	}
	g := &respRig{realEnv: realEnv}
	if realEnv {
		g.api = newRespFakeAPI()
	}
	g.cfg = &config.MockConfig{
		GetListenAddrVal:     "127.0.0.1:0",
		GetPeerListenAddrVal: "127.0.0.1:0",
		GetHoneycombAPIVal:   respAPIHost,
		TraceIdFieldNames:    []string{"trace.trace_id", "traceId"},
		ParentIdFieldNames:   []string{"trace.parent_id", "parentId"},
		EnvironmentCacheTTL:  time.Hour,
		GetAccessKeyConfigVal: config.AccessKeyConfig{
			SendKeyMode: "none",
		},
	}
	g.coll = &respCollector{}
	g.up = &respTransmission{}
	g.peer = &respTransmission{}
	g.transport = &http.Transport{}
	r := &route.Router{
		Config:               g.cfg,
		Logger:               &logger.NullLogger{},
		HTTPTransport:        g.transport,
		UpstreamTransmission: g.up,
		PeerTransmission:     g.peer,
		Sharder: &respSharder{self: &sharder.TestShard{Addr: "http://self.invalid:8081"},
			other: &sharder.TestShard{Addr: respPeerAddr}},
		Collector: g.coll,
		Metrics:   &metrics.NullMetrics{},
		Tracer:    noop.Tracer{},
	}
	if routerType == "peer" {
		r.SetType(types.RouterTypePeer)
	} else {
		r.SetType(types.RouterTypeIncoming)
	}
	r.LnS() // the real setup: mux, middlewares, routes, environment cache
	g.router = r
	g.handler = r.VerifC23Handler()
	if g.handler == nil {
		return nil, fmt.Errorf("router has no handler after LnS")
	}
	respRigs[name] = g
	g.reset()
	return g, nil
}

func (g *respRig) reset() {
	g.coll.mu.Lock()
	g.coll.admit, g.coll.attempts = nil, nil
	g.coll.mu.Unlock()
	g.up.mu.Lock()
	g.up.sent = nil
	g.up.mu.Unlock()
	g.peer.mu.Lock()
	g.peer.sent = nil
	g.peer.mu.Unlock()
	g.envCalls = nil
	g.envFail = false
	g.cfg.Mux.Lock()
	g.cfg.GetAccessKeyConfigVal = config.AccessKeyConfig{SendKeyMode: "none"}
	g.cfg.QueryAuthToken = ""
	g.cfg.GetHoneycombAPIVal = respAPIHost
	if g.api != nil {
		g.cfg.GetHoneycombAPIVal = g.api.srv.URL
		g.api.reset()
	}
	g.cfg.Mux.Unlock()
	if g.realEnv {
		return
	}
	// fresh environment cache: every case starts with nothing cached
	g.router.SetEnvironmentCache(time.Hour, func(key string) (string, error) {
		g.envCalls = append(g.envCalls, key)
		if g.envFail {
			return "", fmt.Errorf("injected environment lookup failure")
		}
		return "env-of-" + key, nil
	})
}

func (g *respRig) setAccessKeys(a config.AccessKeyConfig) {
	g.cfg.Mux.Lock()
	g.cfg.GetAccessKeyConfigVal = a
	g.cfg.Mux.Unlock()
}

// grpc returns a client connection to the router's real OTLP gRPC services over an in-memory pipe.
func (g *respRig) grpc() (*grpc.ClientConn, error) {
	if g.grpcConn != nil {
		return g.grpcConn, nil
	}
	lis := bufconn.Listen(1 << 20)
	g.grpcSrv = grpc.NewServer()
	g.router.VerifC23RegisterGRPC(g.grpcSrv)
	collectorlogs.RegisterLogsServiceServer(g.grpcSrv, route.NewLogsServer(g.router))
	go g.grpcSrv.Serve(lis)
	conn, err := grpc.NewClient("passthrough:///bufnet",
		grpc.WithContextDialer(func(ctx context.Context, _ string) (net.Conn, error) { return lis.DialContext(ctx) }),
		grpc.WithTransportCredentials(insecure.NewCredentials()))
	if err != nil {
		return nil, err
	}
	g.grpcConn = conn
	return conn, nil
}

// raw bytes codec: lets the driver send arbitrary (also malformed) protobuf bodies over real gRPC.
type respRawCodec struct{}

func (respRawCodec) Marshal(v any) ([]byte, error) {
	if b, ok := v.(*[]byte); ok {
		return *b, nil
	}
	return nil, fmt.Errorf("respRawCodec: want *[]byte, got %T", v)
}
func (respRawCodec) Unmarshal(data []byte, v any) error {
	if b, ok := v.(*[]byte); ok {
		*b = append((*b)[:0], data...)
		return nil
	}
	return fmt.Errorf("respRawCodec: want *[]byte, got %T", v)
}
func (respRawCodec) Name() string { return "proto" }

// failing body reader: yields `data`, then a non-EOF error.
type respErrReader struct {
	data []byte
	off  int
}

func (r *respErrReader) Read(p []byte) (int, error) {
	if r.off < len(r.data) {
		n := copy(p, r.data[r.off:])
		r.off += n
		return n, nil
	}
	return 0, fmt.Errorf("injected body read failure")
}
func (r *respErrReader) Close() error { return nil }

// ---- fake Honeycomb API ---------------------------------------------------------------------------

// respKeyID is the key ID the fake /1/auth reports: a pure function of the key (so the router's
// environment cache can never hold a stale answer): "" is never asked for, classic keys have none.
func respKeyID(key string) string {
	if key == "" || config.IsLegacyAPIKey(key) {
		return ""
	}
	n := 4
	if len(key) < n {
		n = len(key)
	}
	return "kid-" + key[:n]
}

type respSeen struct {
	Method, Path, RawQuery, Host, RequestURI string
	Header                       http.Header
	Body                         []byte
}

// respFakeAPI answers /1/auth like Honeycomb and records / scripts everything else (the proxy's upstream).
type respFakeAPI struct {
	srv   *httptest.Server
	mu    sync.Mutex
	seen  []respSeen
	reply func(w http.ResponseWriter, r *http.Request, body []byte)
}

func newRespFakeAPI() *respFakeAPI {
	a := &respFakeAPI{}
	a.srv = httptest.NewServer(http.HandlerFunc(func(w http.ResponseWriter, r *http.Request) {
		body, _ := io.ReadAll(r.Body)
		if r.URL.Path == "/1/auth" && r.Method == "GET" && r.Header.Get("X-Verif-Proxied") == "" {
			key := r.Header.Get("X-Honeycomb-Team")
			w.Header().Set("Content-Type", "application/json")
			json.NewEncoder(w).Encode(map[string]any{
				"id":             respKeyID(key),
				"api_key_access": map[string]bool{"events": true},
				"team":           map[string]string{"slug": "team"},
				"environment":    map[string]string{"slug": "env", "name": "env-of-" + key},
			})
			return
		}
		a.mu.Lock()
		a.seen = append(a.seen, respSeen{Method: r.Method, Path: r.URL.Path, RawQuery: r.URL.RawQuery, Host: r.Host, RequestURI: r.RequestURI,
			Header: r.Header.Clone(), Body: body})
		reply := a.reply
		a.mu.Unlock()
		if reply != nil {
			reply(w, r, body)
		}
	}))
	return a
}

func (a *respFakeAPI) reset() {
	a.mu.Lock()
	a.seen, a.reply = nil, nil
	a.mu.Unlock()
}
