package drive

import (
	"encoding/json"
	"math/rand"
)

func init() {
	Register(&Driver{ID: "C02", Gen: c02Gen, Run: c02Run, Shrink: collShrink})
}

// C02: most histories end with the flush phase (late ticks until every buffer is empty) so that
// "no accepted span of a kept trace is lost" is observable; re-arrival after a decision, ejection
// during a backlog, MaxExpiredTraces in {0,1,2,3,3000}.
func c02Gen(r *rand.Rand, tier string, i int) any {
	return collGen(r, tier, collBias{Tick: 20, Eject: 10, Reload: 6, Flush: 85, Forget: 8})
}

func c02Run(raw json.RawMessage) (Case, error) {
	var in collInput
	if err := json.Unmarshal(raw, &in); err != nil {
		return Case{}, err
	}
	res, err := collRun(in)
	if err != nil {
		return Case{}, err
	}
	if len(res.Obs) == 0 {
		return Case{Coq: collEmptyCase, Key: "empty"}, nil
	}
	late, bulk := false, false
	for _, o := range res.Obs {
		if len(o.Fwd) > 0 {
			if o.Kind == "span" {
				late = true
			} else {
				bulk = true
			}
		}
	}
	tags := collTags(res)
	if in.Flush {
		tags = append(tags, "flushed")
	}
	return Case{Coq: collCoq(res), Key: string(raw), Nontriv: late && bulk,
		Tags: tags, Summary: collSummary(res)}, nil
}
