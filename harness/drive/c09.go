package drive

// C09: one logical trace is sent several ways (span order, ingestion path, numeric wire types) and
// each variant goes through the REAL decoding code of that path (route.unmarshal / batchedEvents via
// the verif hooks, types.Payload), then through the real RulesBasedSampler and the real trace-key
// builder.  The case carries, for every variant, the wire values and the observed outcome and key.

import (
	"encoding/binary"
	"encoding/json"
	"fmt"
	"math"
	"math/rand"
	"os"
	"sort"
	"strconv"

	"github.com/honeycombio/refinery/config"
	"github.com/honeycombio/refinery/route"
	"github.com/honeycombio/refinery/sample"
	"github.com/honeycombio/refinery/types"
	cq "github.com/honeycombio/refinery/verifharness/coqfmt"
	"github.com/tinylib/msgp/msgp"
)

// variant classes (the single dimension in which a variant differs from the reference)
const (
	c09Perm      = 0 // span order only
	c09Unsigned  = 1 // non-negative integers in unsigned msgpack encodings
	c09Float32   = 2 // floats that fit in 32-bit msgpack floats
	c09JSONEvent = 3 // every span as a JSON /1/event body
	c09JSONBatch = 4 // every span as a JSON /1/batch body
	c09Loose     = 5 // every span as a msgpack /1/event body (vmihailenco decoder)
	c09OTLP      = 6 // every span as an OTLP-style attribute map (int64 / float64)
	c09Peer      = 7 // every span re-marshalled by Payload.MarshalMsg as for a peer
	c09IntFloat  = 8 // integers sent as msgpack float64
	c09Mixed     = 9 // everything at random, per span and per value
)

type c09Variant struct {
	Class int        `json:"class"`
	Order []int      `json:"order"` // Order[k] = logical index of the k-th span sent
	Paths []string   `json:"paths"` // per logical span: msgp | json_event | json_batch | loose | otlp | peer
	Enc   [][]string `json:"enc"`   // per logical span, per field: s s64 u u64 f64 f32 ("" = default)
}
type c09Input struct {
	Rules    []c08Rule    `json:"rules"`
	Fields   []string     `json:"fields"` // dynamic sampler FieldList
	UseLen   bool         `json:"use_len"`
	Spans    [][]c08Field `json:"spans"`
	Root     int          `json:"root"`
	Seed     int64        `json:"seed"`
	TraceID  string       `json:"trace_id"`
	Variants []c09Variant `json:"variants"` // Variants[0] is the reference
}

func init() {
	Register(&Driver{ID: "C09", Gen: c09Gen, Run: c09Run, Shrink: c09Shrink})
}

// ---------------------------------------------------------------- numeric helpers
const c09Safe = int64(1) << 53

// c09Num: the logical numeric value as (isInt, n) or float f; integer-valued floats count as both.
func c09IntOf(v rvVal) (int64, bool) {
	switch v.K {
	case "int":
		return v.I, true
	case "f":
		if v.F == math.Trunc(v.F) && math.Abs(v.F) < 9.2e18 {
			return int64(v.F), true
		}
	}
	return 0, false
}
func c09FloatOf(v rvVal) (float64, bool) {
	switch v.K {
	case "int":
		f := float64(v.I)
		return f, int64(f) == v.I && math.Abs(f) < 9.2e18
	case "f":
		return v.F, true
	}
	return 0, false
}
func c09Fits32(f float64) bool { return float64(float32(f)) == f }

// the encodings that carry v exactly
func c09Encodings(v rvVal) []string {
	var out []string
	if n, ok := c09IntOf(v); ok {
		out = append(out, "s", "s64")
		if n >= 0 {
			out = append(out, "u", "u64")
		}
	}
	if f, ok := c09FloatOf(v); ok {
		out = append(out, "f64")
		if c09Fits32(f) {
			out = append(out, "f32")
		}
	}
	if v.K == "f" && v.F == math.Trunc(v.F) && v.F >= 9.2e18 && v.F < 1.8e19 {
		out = append(out, "u64") // 2^63 .. 2^64: only uint64 or float64
	}
	return out
}
func c09Default(v rvVal) string {
	if v.K == "int" {
		return "s"
	}
	if v.K == "f" {
		return "f64"
	}
	return ""
}

// ---------------------------------------------------------------- encoders
func c09AppendMsgp(b []byte, v rvVal, enc string) []byte {
	switch v.K {
	case "s":
		return msgp.AppendString(b, v.S)
	case "b":
		return msgp.AppendBool(b, v.B)
	case "nil":
		return msgp.AppendNil(b)
	}
	n, _ := c09IntOf(v)
	f, _ := c09FloatOf(v)
	var u uint64
	if v.K == "f" && v.F >= 9.2e18 {
		u = uint64(v.F)
	} else {
		u = uint64(n)
	}
	switch enc {
	case "s":
		return msgp.AppendInt64(b, n)
	case "s64":
		b = append(b, 0xd3)
		return binary.BigEndian.AppendUint64(b, uint64(n))
	case "u":
		return msgp.AppendUint64(b, u)
	case "u64":
		b = append(b, 0xcf)
		return binary.BigEndian.AppendUint64(b, u)
	case "f32":
		b = append(b, 0xca)
		return binary.BigEndian.AppendUint32(b, math.Float32bits(float32(f)))
	default: // f64
		b = append(b, 0xcb)
		return binary.BigEndian.AppendUint64(b, math.Float64bits(f))
	}
}

func c09MsgpMap(sp []c08Field, enc []string) []byte {
	b := msgp.AppendMapHeader(nil, uint32(len(sp)))
	for i, f := range sp {
		b = msgp.AppendString(b, f.K)
		b = c09AppendMsgp(b, f.V, enc[i])
	}
	return b
}

func c09JSONMap(sp []c08Field) []byte {
	b := []byte{'{'}
	for i, f := range sp {
		if i > 0 {
			b = append(b, ',')
		}
		k, _ := json.Marshal(f.K)
		b = append(b, k...)
		b = append(b, ':')
		switch f.V.K {
		case "int":
			b = strconv.AppendInt(b, f.V.I, 10)
		case "f":
			x, _ := json.Marshal(f.V.F)
			b = append(b, x...)
		case "s":
			x, _ := json.Marshal(f.V.S)
			b = append(b, x...)
		case "b":
			b = strconv.AppendBool(b, f.V.B)
		default:
			b = append(b, "null"...)
		}
	}
	return append(b, '}')
}

// ---------------------------------------------------------------- decoding through the real code
func c09Decode(cfg config.Config, opts types.CoreFieldsUnmarshalerOptions, path string, sp []c08Field, enc []string) (types.Payload, error) {
	batchMsgp := func(data []byte) (types.Payload, error) {
		body := msgp.AppendArrayHeader(nil, 1)
		body = msgp.AppendMapHeader(body, 1)
		body = msgp.AppendString(body, "data")
		body = append(body, data...)
		ps, err := route.VerifC09DecodeBatch(opts, "application/msgpack", body)
		if err != nil || len(ps) != 1 {
			return types.Payload{}, fmt.Errorf("msgpack batch decode: %v (%d events)", err, len(ps))
		}
		return ps[0], nil
	}
	var p types.Payload
	var err error
	switch path {
	case "msgp":
		p, err = batchMsgp(c09MsgpMap(sp, enc))
	case "peer":
		p, err = batchMsgp(c09MsgpMap(sp, enc))
		if err == nil {
			var re []byte
			re, err = p.MarshalMsg(nil)
			if err == nil {
				p, err = batchMsgp(re)
			}
		}
	case "json_batch":
		body := append([]byte(`[{"data":`), c09JSONMap(sp)...)
		body = append(body, "}]"...)
		var ps []types.Payload
		ps, err = route.VerifC09DecodeBatch(opts, "application/json", body)
		if err == nil && len(ps) == 1 {
			p = ps[0]
		} else if err == nil {
			err = fmt.Errorf("json batch decode: %d events", len(ps))
		}
	case "json_event":
		data := map[string]any{}
		err = route.VerifC09Unmarshal("application/json", c09JSONMap(sp), &data)
		p = types.NewPayload(cfg, data)
	case "loose":
		data := map[string]any{}
		err = route.VerifC09Unmarshal("application/msgpack", c09MsgpMap(sp, enc), &data)
		p = types.NewPayload(cfg, data)
	case "otlp":
		data := map[string]any{}
		for _, f := range sp {
			data[f.K] = f.V.goSpan()
		}
		p = types.NewPayload(cfg, data)
	default:
		err = fmt.Errorf("unknown path %q", path)
	}
	if err != nil {
		return p, err
	}
	return p, p.ExtractMetadata()
}

func c09CqPath(path string) string {
	switch path {
	case "json_event", "json_batch":
		return "PJson"
	case "loose":
		return "PLoose"
	case "otlp":
		return "PMap"
	}
	return "PMsgp"
}

// the wire value as Model/Wire.v sees it
func c09CqWire(v rvVal, path, enc string) string {
	switch v.K {
	case "s":
		return cq.App("WStr", cq.Str(v.S))
	case "b":
		return cq.App("WBool", cq.Bool(v.B))
	case "nil":
		return "WNil"
	}
	if path == "json_event" || path == "json_batch" || path == "otlp" {
		if v.K == "int" {
			return cq.App("WInt", cq.Z(v.I))
		}
		return cq.App("WF64", cqDy(v.F))
	}
	n, _ := c09IntOf(v)
	f, _ := c09FloatOf(v)
	switch enc {
	case "s", "s64":
		return cq.App("WInt", cq.Z(n))
	case "u", "u64":
		if v.K == "f" && v.F >= 9.2e18 {
			return cq.App("WUint", strconv.FormatUint(uint64(v.F), 10)+"%Z")
		}
		return cq.App("WUint", cq.Z(n))
	case "f32":
		return cq.App("WF32", cqDy(f))
	}
	return cq.App("WF64", cqDy(f))
}

// ---------------------------------------------------------------- run
func c09Run(raw json.RawMessage) (Case, error) {
	var in c09Input
	if err := json.Unmarshal(raw, &in); err != nil {
		return Case{}, err
	}
	os.Setenv("GODEBUG", "randseednop=0")
	if len(in.Variants) == 0 {
		return Case{}, fmt.Errorf("no variants")
	}
	cfg := &config.MockConfig{Samplers: map[string]*config.V2SamplerChoice{
		"env": {DynamicSampler: &config.DynamicSamplerConfig{SampleRate: 1, FieldList: in.Fields}}}}
	opts := types.CoreFieldsUnmarshalerOptions{Config: cfg, APIKey: "", Env: "env", Dataset: "env"}

	tabs := newOracleTabs()
	for _, sp := range in.Spans {
		for _, f := range sp {
			tabs.note(f.V)
			if x, ok := c09FloatOf(f.V); ok {
				tabs.floats[x] = true
			}
			if f.V.K == "int" {
				tabs.floats[float64(f.V.I)] = true // what a JSON path makes of it
			}
		}
	}

	var built *c08Built
	var cqVars []string
	tags := map[string]bool{}
	numeric := false
	for vi, va := range in.Variants {
		if len(va.Order) != len(in.Spans) || len(va.Paths) != len(in.Spans) || len(va.Enc) != len(in.Spans) {
			return Case{}, fmt.Errorf("variant %d: shape mismatch", vi)
		}
		tr := &types.Trace{TraceID: in.TraceID}
		var cqSpans []string
		cqRoot := cq.None()
		for _, li := range va.Order {
			sp := in.Spans[li]
			enc := make([]string, len(sp))
			for k := range sp {
				if k < len(va.Enc[li]) && va.Enc[li][k] != "" {
					enc[k] = va.Enc[li][k]
				} else {
					enc[k] = c09Default(sp[k].V)
				}
				if sp[k].V.K == "int" || sp[k].V.K == "f" {
					numeric = true
				}
			}
			p, err := c09Decode(cfg, opts, va.Paths[li], sp, enc)
			if err != nil {
				return Case{}, fmt.Errorf("variant %d span %d (%s): %v", vi, li, va.Paths[li], err)
			}
			s := &types.Span{TraceID: in.TraceID, Event: &types.Event{Data: p}}
			tr.AddSpan(s)
			var fs []string
			for k, f := range sp {
				fs = append(fs, cq.Pair(cq.Str(f.K), c09CqWire(f.V, va.Paths[li], enc[k])))
			}
			w := fmt.Sprintf("{| w_path := %s; w_fields := %s |}", c09CqPath(va.Paths[li]), cq.List(fs))
			cqSpans = append(cqSpans, w)
			if li == in.Root {
				tr.RootSpan = s
				cqRoot = cq.Some(w)
			}
			tags["path:"+va.Paths[li]] = true
		}
		if built == nil {
			b, err := c08BuildSampler(in.Rules, in.Seed, tr, tabs)
			if err != nil {
				return Case{}, err
			}
			built = b
			defer b.stop()
		}
		rand.Seed(in.Seed)
		rate, keep, reason, key := built.s.GetSampleRate(tr)
		tkey, _ := sample.VerifC09TraceKey(in.Fields, in.UseLen, tr)
		cqVars = append(cqVars, fmt.Sprintf("{| v_class := %s; v_trace := {| wt_spans := %s; wt_root := %s |}; v_out := %s; v_key := %s |}",
			cq.N(uint64(va.Class)), cq.List(cqSpans), cqRoot, cqOutcome(uint64(rate), keep, reason, key), cq.Str(tkey)))
		tags[fmt.Sprintf("class:%d", va.Class)] = true
	}
	// 'f' -1 table
	fs := make([]float64, 0, len(tabs.floats))
	for f := range tabs.floats {
		fs = append(fs, f)
	}
	sort.Float64s(fs)
	rows := make([]string, len(fs))
	for i, f := range fs {
		rows[i] = cq.Pair(cqDy(f), cq.Str(strconv.FormatFloat(f, 'f', -1, 64)))
	}
	coq := fmt.Sprintf("{| q_rules := %s; q_fields := %s; q_uselen := %s; q_fmt := %s; q_fmtf := %s; q_parse := %s; q_ds := %s; q_draw := %s; q_vars := %s |}",
		cq.List(built.cqRules), cq.ListStr(in.Fields), cq.Bool(in.UseLen), tabs.fmtTable(), cq.List(rows), tabs.parseTable(),
		cq.List(built.cqDs), cq.List(built.cqDraw), cq.List(cqVars))
	var tl []string
	for t := range tags {
		tl = append(tl, t)
	}
	b, _ := json.Marshal(in)
	return Case{Coq: coq, Key: string(b), Nontriv: numeric && len(in.Variants) > 1, Tags: tl,
		Summary: map[string]any{"rules": in.Rules, "fields": in.Fields, "spans": in.Spans, "root": in.Root, "variants": in.Variants}}, nil
}

// ---------------------------------------------------------------- generator
var (
	c09Fields = []string{"a", "b", "c", "http.status"}
	c09Ints   = []int64{0, 1, -1, 2, 127, 128, 200, 255, 256, 404, 65535, 65536, 1 << 24, 1<<24 + 1, 1 << 31, 1<<32 - 1, 1 << 32,
		1 << 53, -(1 << 53), 1<<53 - 1, -200, -129, 1<<63 - 1, -1 << 63, 1<<53 + 1, 1 << 60, -(1 << 62), 1<<60 + 256, 1000000, 123456789012}
	c09Floats = []float64{0.5, 1.5, -2.5, 200, 404, 0.1, float64(float32(0.1)), 1e21, 9223372036854775808, 18446744073709549568,
		3.4028234663852886e38, 16777216, 16777217, 1e-7, 200.5, 2, 0.25, 1e6, 123456789}
	c09Strs = []string{"", "200", "abc", "1.5", "true", "404", "0.1", "ab"}
)

func c09PickVal(r *rand.Rand) rvVal {
	switch x := r.Intn(100); {
	case x < 40:
		if r.Intn(3) == 0 {
			return rvVal{K: "int", I: int64(r.Intn(600)) - 100}
		}
		return rvVal{K: "int", I: c09Ints[r.Intn(len(c09Ints))]}
	case x < 72:
		return rvVal{K: "f", F: c09Floats[r.Intn(len(c09Floats))]}
	case x < 88:
		return rvVal{K: "s", S: c09Strs[r.Intn(len(c09Strs))]}
	case x < 95:
		return rvVal{K: "b", B: r.Intn(2) == 0}
	default:
		return rvVal{K: "nil"}
	}
}

func c09JSONSafe(sp []c08Field) bool {
	for _, f := range sp {
		// a JSON number is decoded into a float64: only integers a float64 holds exactly are
		// "the same value" on a JSON path
		if f.V.K == "int" {
			if x := float64(f.V.I); math.Abs(x) >= 9.2e18 || int64(x) != f.V.I {
				return false
			}
		}
	}
	return true
}

func c09MakeVariant(r *rand.Rand, spans [][]c08Field, class int) c09Variant {
	n := len(spans)
	va := c09Variant{Class: class, Order: make([]int, n), Paths: make([]string, n), Enc: make([][]string, n)}
	for i := range spans {
		va.Order[i] = i
		va.Paths[i] = "msgp"
		va.Enc[i] = make([]string, len(spans[i]))
		for k, f := range spans[i] {
			va.Enc[i][k] = c09Default(f.V)
		}
	}
	perm := func() {
		r.Shuffle(n, func(a, b int) { va.Order[a], va.Order[b] = va.Order[b], va.Order[a] })
	}
	pickEnc := func(f c08Field, want ...string) string {
		have := c09Encodings(f.V)
		var ok []string
		for _, w := range want {
			for _, h := range have {
				if h == w {
					ok = append(ok, w)
				}
			}
		}
		if len(ok) == 0 {
			return c09Default(f.V)
		}
		return ok[r.Intn(len(ok))]
	}
	allPath := func(p string) {
		for i := range spans {
			if (p == "json_event" || p == "json_batch") && !c09JSONSafe(spans[i]) {
				continue // an integer beyond 2^53 is not carried exactly by a JSON number
			}
			va.Paths[i] = p
		}
	}
	switch class {
	case c09Perm:
		perm()
	case c09Unsigned:
		for i := range spans {
			for k, f := range spans[i] {
				if f.V.K == "int" {
					va.Enc[i][k] = pickEnc(f, "u", "u64")
				}
			}
		}
	case c09Float32:
		for i := range spans {
			for k, f := range spans[i] {
				if f.V.K == "f" {
					va.Enc[i][k] = pickEnc(f, "f32")
				}
			}
		}
	case c09JSONEvent:
		allPath("json_event")
	case c09JSONBatch:
		allPath("json_batch")
	case c09Loose:
		allPath("loose")
	case c09OTLP:
		allPath("otlp")
	case c09Peer:
		allPath("peer")
	case c09IntFloat:
		for i := range spans {
			for k, f := range spans[i] {
				if f.V.K == "int" {
					va.Enc[i][k] = pickEnc(f, "f64")
				}
			}
		}
	default:
		perm()
		paths := []string{"msgp", "json_event", "json_batch", "loose", "otlp", "peer"}
		for i := range spans {
			p := paths[r.Intn(len(paths))]
			if (p == "json_event" || p == "json_batch") && !c09JSONSafe(spans[i]) {
				p = "msgp"
			}
			va.Paths[i] = p
			for k, f := range spans[i] {
				if e := c09Encodings(f.V); len(e) > 0 {
					va.Enc[i][k] = e[r.Intn(len(e))]
				}
			}
		}
	}
	return va
}

func c09Gen(r *rand.Rand, tier string, i int) any {
	in := c09Input{Seed: int64(1 + r.Intn(1_000_000)), TraceID: fmt.Sprintf("trace-%d", r.Intn(1000)), UseLen: r.Intn(3) == 0}
	nspans := 1 + r.Intn(4)
	var pool []c08Pooled
	for s := 0; s < nspans; s++ {
		var sp []c08Field
		for _, f := range c09Fields {
			if r.Intn(100) < 55 {
				v := c09PickVal(r)
				// the same number often recurs on other spans (distinct-value sets, ties)
				if len(pool) > 0 && r.Intn(4) == 0 {
					v = pool[r.Intn(len(pool))].V
				}
				sp = append(sp, c08Field{K: f, V: v})
				pool = append(pool, c08Pooled{F: f, V: v})
			}
		}
		in.Spans = append(in.Spans, sp)
	}
	in.Root = -1
	if r.Intn(100) < 75 {
		in.Root = r.Intn(nspans)
	}
	// rules: conditions aimed at the values of the trace (same or neighbouring numbers, also beyond 2^53)
	nrules := 1 + r.Intn(3)
	for k := 0; k < nrules; k++ {
		ru := c08Rule{Name: fmt.Sprintf("r%d", k), Scope: []string{"", "trace", "span"}[r.Intn(3)]}
		switch x := r.Intn(100); {
		case x < 40:
			ru.Drop = true
		case x < 85:
			ru.Rate = []int{1, 2, 3, 10}[r.Intn(4)]
		default:
			ru.Sampler = []int{1, 2, 10}[r.Intn(3)]
		}
		nc := []int{0, 1, 1, 2, 2}[r.Intn(5)]
		for j := 0; j < nc; j++ {
			c := c08GenCond(r, pool)
			ru.Conds = append(ru.Conds, c)
		}
		in.Rules = append(in.Rules, ru)
	}
	// an integer field (every wire encoding of it appears among the variants) against a
	// NON-INTEGRAL float rule value next to it, all ordering operators, untyped and typed
	var ints []c08Pooled
	for _, pv := range pool {
		if pv.V.K == "int" && pv.V.I > -1<<51 && pv.V.I < 1<<51 {
			ints = append(ints, pv)
		}
	}
	if len(ints) > 0 && r.Intn(10) < 6 {
		pv := ints[r.Intn(len(ints))]
		f := float64(pv.V.I) + []float64{0.5, -0.5, 1.5, 1e-9, -1e-9, 0.25, -1.5}[r.Intn(7)]
		field := pv.F
		if r.Intn(4) == 0 {
			field = "root." + field
		}
		c := c08Cond{Field: field, Op: []string{"<", "<=", ">", ">=", "=", "!="}[r.Intn(6)], Val: rvVal{K: "f", F: f},
			Dt: []string{"", "", "", "float", "int"}[r.Intn(5)]}
		ru := c08Rule{Name: "frac", Rate: 1, Drop: r.Intn(2) == 0, Scope: []string{"", "span"}[r.Intn(2)], Conds: []c08Cond{c}}
		in.Rules = append([]c08Rule{ru}, in.Rules...)
	}
	keyPool := []string{"a", "b", "c", "http.status", "root.a", "root.b", "root.http.status", "zz"}
	nf := 1 + r.Intn(3)
	for k := 0; k < nf; k++ {
		in.Fields = append(in.Fields, keyPool[r.Intn(len(keyPool))])
	}
	// reference: msgpack batch, signed integers, float64, original order
	ref := c09Variant{Class: 0, Order: make([]int, nspans), Paths: make([]string, nspans), Enc: make([][]string, nspans)}
	for s := range in.Spans {
		ref.Order[s] = s
		ref.Paths[s] = "msgp"
		ref.Enc[s] = make([]string, len(in.Spans[s]))
		for k, f := range in.Spans[s] {
			ref.Enc[s][k] = c09Default(f.V)
		}
	}
	in.Variants = append(in.Variants, ref)
	nv := 3
	if tier == "thorough" {
		nv = 5
	}
	for k := 0; k < nv; k++ {
		cl := r.Intn(10)
		if k == nv-1 {
			cl = c09Mixed
		}
		in.Variants = append(in.Variants, c09MakeVariant(r, in.Spans, cl))
	}
	return in
}

// ---------------------------------------------------------------- shrink
func c09Shrink(raw json.RawMessage) []json.RawMessage {
	var in c09Input
	if json.Unmarshal(raw, &in) != nil {
		return nil
	}
	var out []json.RawMessage
	clone := func() c09Input {
		var c c09Input
		b, _ := json.Marshal(in)
		json.Unmarshal(b, &c)
		return c
	}
	emit := func(c c09Input) {
		b, _ := json.Marshal(c)
		out = append(out, b)
	}
	for i := 1; i < len(in.Variants) && len(in.Variants) > 2; i++ {
		c := clone()
		c.Variants = append(c.Variants[:i], c.Variants[i+1:]...)
		emit(c)
	}
	for i := range in.Rules {
		if len(in.Rules) > 1 {
			c := clone()
			c.Rules = append(c.Rules[:i], c.Rules[i+1:]...)
			emit(c)
		}
		for j := range in.Rules[i].Conds {
			c := clone()
			c.Rules[i].Conds = append(c.Rules[i].Conds[:j], c.Rules[i].Conds[j+1:]...)
			emit(c)
		}
	}
	for i := range in.Fields {
		if len(in.Fields) > 1 {
			c := clone()
			c.Fields = append(c.Fields[:i], c.Fields[i+1:]...)
			emit(c)
		}
	}
	// drop a span (from every variant)
	for i := range in.Spans {
		if len(in.Spans) <= 1 {
			break
		}
		c := clone()
		c.Spans = append(c.Spans[:i], c.Spans[i+1:]...)
		if c.Root == i {
			c.Root = -1
		} else if c.Root > i {
			c.Root--
		}
		for v := range c.Variants {
			va := &c.Variants[v]
			var ord []int
			for _, o := range va.Order {
				if o == i {
					continue
				}
				if o > i {
					o--
				}
				ord = append(ord, o)
			}
			va.Order = ord
			va.Paths = append(va.Paths[:i], va.Paths[i+1:]...)
			va.Enc = append(va.Enc[:i], va.Enc[i+1:]...)
		}
		emit(c)
	}
	// drop a field of a span
	for i := range in.Spans {
		for k := range in.Spans[i] {
			c := clone()
			c.Spans[i] = append(c.Spans[i][:k], c.Spans[i][k+1:]...)
			for v := range c.Variants {
				e := c.Variants[v].Enc[i]
				if k < len(e) {
					c.Variants[v].Enc[i] = append(e[:k], e[k+1:]...)
				}
			}
			emit(c)
		}
	}
	return out
}
