package drive

import (
	"encoding/json"
	"fmt"
	"math/rand"
	"runtime"
	"strings"
	"sync"
	"sync/atomic"
	"time"

	"github.com/honeycombio/refinery/types"
	cq "github.com/honeycombio/refinery/verifharness/coqfmt"
)

// C22: event timestamps preserved exactly.
// Each case is a handful of instants, each written by the "client" in one of the formats the
// property names, sent through the real incoming listener (/1/events with the event-time header,
// /1/batch as JSON, /1/batch as msgpack) and the real upstream DirectTransmission, and read back by
// the fake Honeycomb API with the harness's own msgpack reader.

type c22Item struct {
	Kind  string `json:"kind"`  // epoch | rfc | msgp
	Batch bool   `json:"batch"` // false: /1/events + header (epoch, rfc only)
	Sec   int64  `json:"sec"`
	Nsec  int64  `json:"nsec"`
	K     int    `json:"k"`    // fractional digits (epoch, rfc)
	Off   int    `json:"off"`  // rfc: zone offset, minutes east
	Zulu  bool   `json:"zulu"` // rfc: write offset 0 as "Z"
	Fmt   int    `json:"fmt"`  // msgp: 32 | 64 | 96
}

// one batch request of a multi-request case
type c22Req struct {
	Enc   string    `json:"enc"` // json | msgp
	Items []c22Item `json:"items"`
}

type c22Input struct {
	Items []c22Item `json:"items,omitempty"`
	// Mode "" : the items above, one request at a time.
	// Mode "interleave": Reqs[0] is posted; while its handler is parked at its first forwarded event
	//   (all events decoded, only the first one's time converted), Reqs[1:] are posted and handled
	//   completely; then Reqs[0] resumes. Deterministic (one P, explicit hand-over).
	// Mode "concurrent": all Reqs are posted at the same time from separate goroutines.
	Mode string   `json:"mode,omitempty"`
	Reqs []c22Req `json:"reqs,omitempty"`
}

func init() {
	Register(&Driver{ID: "C22", Gen: c22Gen, Run: c22Run, Shrink: c22Shrink})
}

var c22Pow10 = []int64{1, 10, 100, 1000, 10000, 100000, 1000000, 10000000, 100000000, 1000000000}

const (
	c22Lo = 978307200   // 2001-01-01T00:00:00Z
	c22Hi = 10000000000 // first instant with eleven digits of seconds
)

func c22GenSec(r *rand.Rand) int64 {
	edges := []int64{c22Lo, c22Lo + 1, 999999999, 1000000000, 1535589382, 1700000000, 2147483647, 2147483648,
		4294967295, 4294967296, 8589934591, 8589934592, 9007199254, 9007199255, 9223372036, 9223372037, c22Hi - 1}
	switch x := r.Intn(10); {
	case x < 3:
		return edges[r.Intn(len(edges))]
	case x < 6:
		return 1500000000 + r.Int63n(400000000) // around "now"
	default:
		return c22Lo + r.Int63n(c22Hi-c22Lo)
	}
}

func c22GenNsec(r *rand.Rand, k int) int64 {
	unit := c22Pow10[9-k]
	n := c22Pow10[k] // number of representable fractions
	var f int64
	switch x := r.Intn(10); {
	case x == 0:
		f = 0
	case x == 1:
		f = n - 1
	case x == 2:
		f = 1 % n
	case x == 3:
		f = (641 * n / 1000) % n
	default:
		f = r.Int63n(n)
	}
	return f * unit
}

func c22GenItem(r *rand.Rand) c22Item {
	it := c22Item{Sec: c22GenSec(r)}
	switch x := r.Intn(10); {
	case x < 4:
		it.Kind = "epoch"
		if r.Intn(10) < 8 {
			it.K = []int{0, 3, 3, 6, 6, 9, 9}[r.Intn(7)]
		} else {
			it.K = r.Intn(10)
		}
		it.Nsec = c22GenNsec(r, it.K)
		it.Batch = r.Intn(2) == 0
	case x < 7:
		it.Kind = "rfc"
		it.K = []int{0, 3, 6, 9, 9, r.Intn(10)}[r.Intn(6)]
		it.Nsec = c22GenNsec(r, it.K)
		switch r.Intn(6) {
		case 0, 1:
			it.Off, it.Zulu = 0, true
		case 2:
			it.Off, it.Zulu = 0, false
		case 3:
			it.Off = []int{330, -480, 840, -720, 1439, -1439, 60, -1}[r.Intn(8)]
		default:
			it.Off = r.Intn(2879) - 1439
		}
		it.Batch = r.Intn(2) == 0
	default:
		it.Kind = "msgp"
		it.Batch = true
		it.K = 9
		it.Nsec = c22GenNsec(r, []int{0, 3, 6, 9, 9}[r.Intn(5)])
		var fmts []int
		if it.Nsec == 0 && it.Sec < 1<<32 {
			fmts = append(fmts, 32, 32)
		}
		if it.Sec < 1<<34 {
			fmts = append(fmts, 64, 64)
		}
		fmts = append(fmts, 96)
		it.Fmt = fmts[r.Intn(len(fmts))]
	}
	return it
}

func c22GenReq(r *rand.Rand, enc string, n int) c22Req {
	q := c22Req{Enc: enc}
	for len(q.Items) < n {
		it := c22GenItem(r)
		if (enc == "msgp") != (it.Kind == "msgp") {
			continue
		}
		it.Batch = true
		q.Items = append(q.Items, it)
	}
	return q
}

func c22Gen(r *rand.Rand, tier string, i int) any {
	// every third case exercises overlapping requests
	if i%3 == 1 {
		in := c22Input{Mode: "interleave"}
		encA := []string{"json", "json", "json", "msgp"}[r.Intn(4)]
		in.Reqs = append(in.Reqs, c22GenReq(r, encA, 2+r.Intn(6)))
		for k := 1 + r.Intn(2); k > 0; k-- {
			in.Reqs = append(in.Reqs, c22GenReq(r, []string{"json", "json", "msgp"}[r.Intn(3)], 1+r.Intn(7)))
		}
		return in
	}
	if i%3 == 2 && i%2 == 0 {
		in := c22Input{Mode: "concurrent"}
		for k := 3 + r.Intn(4); k > 0; k-- {
			in.Reqs = append(in.Reqs, c22GenReq(r, []string{"json", "json", "msgp"}[r.Intn(3)], 2+r.Intn(8)))
		}
		return in
	}
	n := 4 + r.Intn(12)
	if tier == "thorough" {
		n = 8 + r.Intn(24)
	}
	in := c22Input{}
	for j := 0; j < n; j++ {
		in.Items = append(in.Items, c22GenItem(r))
	}
	return in
}

// the client's rendering of an instant
func c22Text(it c22Item) string {
	switch it.Kind {
	case "epoch":
		s := fmt.Sprintf("%010d", it.Sec)
		if it.K > 0 {
			s += fmt.Sprintf("%0*d", it.K, it.Nsec/c22Pow10[9-it.K])
		}
		return s
	case "rfc":
		layout := "2006-01-02T15:04:05"
		if it.K > 0 {
			layout += "." + strings.Repeat("0", it.K)
		}
		if it.Zulu {
			layout += "Z07:00"
		} else {
			layout += "-07:00"
		}
		return time.Unix(it.Sec, it.Nsec).In(time.FixedZone("", it.Off*60)).Format(layout)
	}
	return ""
}

func c22Mts(v MV) string {
	f, sec, nsec, ok := mvReadTimestamp(v)
	if !ok {
		return ""
	}
	switch f {
	case 32:
		return cq.App("Ts32", cq.Z(sec))
	case 64:
		return cq.App("Ts64", fmt.Sprintf("%d%%Z", beUint(v.S)))
	}
	return cq.App("Ts96", cq.Z(int64(nsec)), fmt.Sprintf("%d%%Z", uint64(sec)))
}

func c22Run(raw json.RawMessage) (Case, error) {
	var in c22Input
	if err := json.Unmarshal(raw, &in); err != nil {
		return Case{}, err
	}
	if in.Mode != "" {
		return c22RunMulti(in)
	}
	n, err := rtGetNode()
	if err != nil {
		return Case{}, err
	}
	n.begin()
	hdr := map[string]string{"X-Honeycomb-Team": rtLegacyKey}
	texts := make([]string, len(in.Items))
	sent := make([]MV, len(in.Items))
	var jsonBatch []string
	var msgpBatch []MV
	var statuses []string
	for i, it := range in.Items {
		if it.Sec < 0 || it.Nsec < 0 || it.Nsec > 999999999 || it.K < 0 || it.K > 9 || it.Nsec%c22Pow10[9-it.K] != 0 {
			return Case{}, fmt.Errorf("item %d: not an instant of precision k", i)
		}
		texts[i] = c22Text(it)
		switch {
		case it.Kind == "msgp":
			if (it.Fmt == 32 && (it.Nsec != 0 || it.Sec >= 1<<32)) || (it.Fmt == 64 && it.Sec >= 1<<34) {
				return Case{}, fmt.Errorf("item %d: instant not representable as timestamp %d", i, it.Fmt)
			}
			sent[i] = mvTimestamp(it.Fmt, it.Sec, uint32(it.Nsec))
			msgpBatch = append(msgpBatch, mvMap(mkv("time", sent[i]), mkv("samplerate", mvInt(1)),
				mkv("data", mvMap(mkv("i", mvInt(int64(i)))))))
		case it.Batch:
			jsonBatch = append(jsonBatch, fmt.Sprintf(`{"time":%q,"samplerate":1,"data":{"i":%d}}`, texts[i], i))
		default:
			h := map[string]string{"X-Honeycomb-Team": rtLegacyKey, "X-Honeycomb-Event-Time": texts[i]}
			resp, err := n.post(false, "/1/events/ds", "application/json", h, []byte(fmt.Sprintf(`{"i":%d}`, i)))
			if err != nil {
				return Case{}, err
			}
			statuses = append(statuses, fmt.Sprintf("event:%d", resp.Status))
		}
	}
	if len(jsonBatch) > 0 {
		resp, err := n.post(false, "/1/batch/ds", "application/json", hdr, []byte("["+strings.Join(jsonBatch, ",")+"]"))
		if err != nil {
			return Case{}, err
		}
		statuses = append(statuses, fmt.Sprintf("jsonbatch:%d", resp.Status))
	}
	if len(msgpBatch) > 0 {
		resp, err := n.post(false, "/1/batch/ds", "application/msgpack", hdr, mvAppend(nil, mvArr(msgpBatch...)))
		if err != nil {
			return Case{}, err
		}
		statuses = append(statuses, fmt.Sprintf("msgpbatch:%d", resp.Status))
	}
	n.flush()
	evs, errs := n.api.take()
	if len(errs) > 0 {
		return Case{}, fmt.Errorf("fake API: %v", errs)
	}
	got := map[int]MV{}
	for _, e := range evs {
		d, ok := e.Ev.get("data")
		if !ok {
			continue
		}
		iv, ok := d.get("i")
		if !ok {
			continue
		}
		idx := -1
		switch iv.K {
		case "uint":
			idx = int(iv.U)
		case "int":
			idx = int(iv.I)
		case "f64", "f32":
			idx = int(iv.F)
		}
		if t, ok := e.Ev.get("time"); ok {
			if _, dup := got[idx]; dup {
				return Case{}, fmt.Errorf("event %d forwarded twice", idx)
			}
			got[idx] = t
		}
	}
	var items, human, tags []string
	nontriv := false
	for i, it := range in.Items {
		var g *MV
		if t, ok := got[i]; ok {
			g = &t
		}
		item, h, tg, nt := c22Emit(it, texts[i], sent[i], g, 0)
		items, human, tags, nontriv = append(items, item), append(human, h), append(tags, tg...), nontriv || nt
	}
	key, _ := json.Marshal(in)
	return Case{Coq: cq.App("Build_case", cq.List(items)), Key: string(key), Nontriv: nontriv, Tags: tags,
		Summary: map[string]any{"items": human, "responses": statuses}}, nil
}

// c22Emit prints one item (what the client sent, what the fake API received) as a Monitor.C22.item.
// ctx: 0 = request handled alone, 1 = deterministic interleaving, 2 = concurrent requests.
func c22Emit(it c22Item, text string, sent MV, got *MV, ctx uint64) (item, human string, tags []string, nontriv bool) {
	var f string
	switch it.Kind {
	case "epoch":
		f = cq.App("FEpoch", cq.Nat(it.K))
		tags = append(tags, fmt.Sprintf("fmt:epoch-%d-digits", 10+it.K))
		nontriv = it.K > 0
	case "rfc":
		f = cq.App("FRfc", cq.Nat(it.K), cq.Z(int64(it.Off)), cq.Bool(it.Zulu))
		tags = append(tags, fmt.Sprintf("fmt:rfc3339-frac%d", it.K))
		nontriv = it.K > 0
	default:
		f = cq.App("FMsgp", cq.N(uint64(it.Fmt)))
		tags = append(tags, fmt.Sprintf("fmt:msgpack-ts%d", it.Fmt))
		nontriv = it.Fmt != 32
	}
	mtsS := cq.None()
	if it.Kind == "msgp" {
		mtsS = cq.Some(c22Mts(sent))
	}
	obs, obsH := "OMissing", "missing"
	if got != nil {
		if m := c22Mts(*got); m != "" {
			obs, obsH = cq.App("OTime", m), m
		} else {
			obs, obsH = "OOther", fmt.Sprintf("%s ext=%d len=%d", got.K, got.ET, len(got.S))
		}
	}
	if it.Batch {
		tags = append(tags, "path:batch")
	} else {
		tags = append(tags, "path:event-header")
	}
	item = cq.App("Build_item", f, cq.Bool(it.Batch), cq.Pair(cq.Z(it.Sec), cq.Z(it.Nsec)), cq.Str(text), mtsS, cq.N(ctx), obs)
	human = fmt.Sprintf("%s %q (%d,%d) -> %s", it.Kind, text, it.Sec, it.Nsec, obsH)
	return
}

// c22RunMulti: several batch requests whose handling overlaps. Every forwarded event is matched to
// its own request by the (r, i) marker in its data and must carry the time ITS request supplied.
func c22RunMulti(in c22Input) (Case, error) {
	if len(in.Reqs) < 2 {
		return Case{}, fmt.Errorf("mode %q needs at least two requests", in.Mode)
	}
	n, err := rtGetNode()
	if err != nil {
		return Case{}, err
	}
	n.begin()
	hdr := map[string]string{"X-Honeycomb-Team": rtLegacyKey}
	type sentItem struct {
		text string
		mv   MV
	}
	sent := make([][]sentItem, len(in.Reqs))
	bodies := make([][]byte, len(in.Reqs))
	ctypes := make([]string, len(in.Reqs))
	for ri, q := range in.Reqs {
		var js []string
		var ms []MV
		for i, it := range q.Items {
			if it.Sec < 0 || it.Nsec < 0 || it.Nsec > 999999999 || it.K < 0 || it.K > 9 || it.Nsec%c22Pow10[9-it.K] != 0 {
				return Case{}, fmt.Errorf("request %d item %d: not an instant of precision k", ri, i)
			}
			si := sentItem{text: c22Text(it)}
			switch {
			case q.Enc == "msgp" && it.Kind == "msgp":
				if (it.Fmt == 32 && (it.Nsec != 0 || it.Sec >= 1<<32)) || (it.Fmt == 64 && it.Sec >= 1<<34) {
					return Case{}, fmt.Errorf("request %d item %d: not representable as timestamp %d", ri, i, it.Fmt)
				}
				si.mv = mvTimestamp(it.Fmt, it.Sec, uint32(it.Nsec))
				ms = append(ms, mvMap(mkv("time", si.mv), mkv("samplerate", mvInt(1)),
					mkv("data", mvMap(mkv("r", mvInt(int64(ri))), mkv("i", mvInt(int64(i)))))))
			case q.Enc == "json" && it.Kind != "msgp":
				js = append(js, fmt.Sprintf(`{"time":%q,"samplerate":1,"data":{"r":%d,"i":%d}}`, si.text, ri, i))
			default:
				return Case{}, fmt.Errorf("request %d item %d: kind %s does not fit encoding %s", ri, i, it.Kind, q.Enc)
			}
			sent[ri] = append(sent[ri], si)
		}
		if q.Enc == "msgp" {
			bodies[ri], ctypes[ri] = mvAppend(nil, mvArr(ms...)), "application/msgpack"
		} else {
			bodies[ri], ctypes[ri] = []byte("["+strings.Join(js, ",")+"]"), "application/json"
		}
	}
	statuses := make([]string, len(in.Reqs))
	post := func(ri int) error {
		resp, err := n.post(false, "/1/batch/ds", ctypes[ri], hdr, bodies[ri])
		if err == nil {
			statuses[ri] = fmt.Sprintf("req%d(%s):%d", ri, in.Reqs[ri].Enc, resp.Status)
		}
		return err
	}
	ctx := uint64(2)
	var runErr error
	if in.Mode == "interleave" {
		ctx = 1
		// One P: the pooled JSON parser released by request 0's decoder is the one the next decoder gets.
		prev := runtime.GOMAXPROCS(1)
		parked, resume := make(chan struct{}), make(chan struct{})
		var first atomic.Bool // sync.Once would make the other requests wait for the parked one
		hook := &rtHookTx{inner: n.up, before: func(ev *types.Event) {
			if first.CompareAndSwap(false, true) {
				close(parked)
				<-resume
			}
		}}
		n.inc.UpstreamTransmission = hook
		done := make(chan error, 1)
		go func() { done <- post(0) }()
		select {
		case <-parked:
		case err := <-done: // request 0 forwarded nothing (should not happen): carry on without interleaving
			done <- err
		case <-time.After(10 * time.Second):
			runErr = fmt.Errorf("request 0 never reached its first forwarded event")
		}
		for ri := 1; ri < len(in.Reqs) && runErr == nil; ri++ {
			runErr = post(ri)
		}
		first.Store(true) // if never parked, make sure the hook cannot park later
		close(resume)
		if err := <-done; err != nil && runErr == nil {
			runErr = err
		}
		n.inc.UpstreamTransmission = n.up
		runtime.GOMAXPROCS(prev)
	} else {
		var wg sync.WaitGroup
		errs := make([]error, len(in.Reqs))
		start := make(chan struct{})
		for ri := range in.Reqs {
			wg.Add(1)
			go func(ri int) {
				defer wg.Done()
				<-start
				errs[ri] = post(ri)
			}(ri)
		}
		close(start)
		wg.Wait()
		for _, e := range errs {
			if e != nil {
				runErr = e
			}
		}
	}
	if runErr != nil {
		n.flush()
		return Case{}, runErr
	}
	n.flush()
	evs, errs := n.api.take()
	if len(errs) > 0 {
		return Case{}, fmt.Errorf("fake API: %v", errs)
	}
	type key struct{ r, i int }
	got := map[key]MV{}
	num := func(v MV) int {
		switch v.K {
		case "uint":
			return int(v.U)
		case "int":
			return int(v.I)
		case "f64", "f32":
			return int(v.F)
		}
		return -1
	}
	for _, e := range evs {
		d, ok := e.Ev.get("data")
		if !ok {
			continue
		}
		rv, ok1 := d.get("r")
		iv, ok2 := d.get("i")
		t, ok3 := e.Ev.get("time")
		if !ok1 || !ok2 || !ok3 {
			continue
		}
		k := key{num(rv), num(iv)}
		if _, dup := got[k]; dup {
			return Case{}, fmt.Errorf("event %v forwarded twice", k)
		}
		got[k] = t
	}
	var items, human, tags []string
	for ri, q := range in.Reqs {
		for i, it := range q.Items {
			var g *MV
			if t, ok := got[key{ri, i}]; ok {
				g = &t
			}
			item, h, tg, _ := c22Emit(it, sent[ri][i].text, sent[ri][i].mv, g, ctx)
			items, human, tags = append(items, item), append(human, fmt.Sprintf("req%d ", ri)+h), append(tags, tg...)
		}
		tags = append(tags, "overlap-req:"+q.Enc)
	}
	tags = append(tags, "mode:"+in.Mode)
	kb, _ := json.Marshal(in)
	return Case{Coq: cq.App("Build_case", cq.List(items)), Key: string(kb), Nontriv: true, Tags: tags,
		Summary: map[string]any{"mode": in.Mode, "items": human, "responses": statuses}}, nil
}

func c22Shrink(raw json.RawMessage) []json.RawMessage {
	var in c22Input
	if json.Unmarshal(raw, &in) != nil {
		return nil
	}
	var out []json.RawMessage
	emit := func(c c22Input) {
		b, _ := json.Marshal(c)
		out = append(out, b)
	}
	if in.Mode != "" {
		for ri := range in.Reqs {
			if len(in.Reqs) > 2 && ri > 0 {
				c := in
				c.Reqs = append(append([]c22Req{}, in.Reqs[:ri]...), in.Reqs[ri+1:]...)
				emit(c)
			}
		}
		for ri, q := range in.Reqs {
			for i := range q.Items {
				if len(q.Items) < 2 {
					continue
				}
				c := in
				c.Reqs = append([]c22Req{}, in.Reqs...)
				c.Reqs[ri] = c22Req{Enc: q.Enc, Items: append(append([]c22Item{}, q.Items[:i]...), q.Items[i+1:]...)}
				emit(c)
			}
		}
		return out
	}
	for i := range in.Items {
		c := c22Input{Items: append(append([]c22Item{}, in.Items[:i]...), in.Items[i+1:]...)}
		if len(c.Items) == 0 {
			continue
		}
		emit(c)
	}
	return out
}
