package drive

import (
	"encoding/json"
	"math/rand"
)

func init() {
	Register(&Driver{ID: "C03", Gen: c03Gen, Run: c03Run, Shrink: collShrink})
}

// C03: many ticks aimed at deadlines, small SpanLimit / MaxExpiredTraces, reloads of the timing settings.
func c03Gen(r *rand.Rand, tier string, i int) any {
	in := collGen(r, tier, collBias{Tick: 36, Eject: 3, Reload: 7, Flush: 20})
	if i%3 == 0 { // deadline ties + backlog beyond MaxExpiredTraces: several traces created at the same instant
		in.Cfg.ME = []uint64{1, 2, 3}[r.Intn(3)]
	}
	return in
}

func c03Run(raw json.RawMessage) (Case, error) {
	var in collInput
	if err := json.Unmarshal(raw, &in); err != nil {
		return Case{}, err
	}
	res, err := collRun(in)
	if err != nil {
		return Case{}, err
	}
	if len(res.Obs) == 0 {
		return Case{Coq: collEmptyCase, Key: "empty"}, nil
	}
	tags := collTags(res)
	// boundary statistics: ticks exactly at / 1ns before / 1ns after a buffered deadline, backlog
	atDeadline, backlog, decidedByTick := false, false, false
	var prev [][]collBufEntry
	for _, o := range res.Obs {
		if o.Kind == "ltick" && prev != nil {
			for w, l := range o.LeftW {
				if len(l) > 0 {
					decidedByTick = true
				}
				for _, e := range prev[w] {
					if d := o.Now - e.SendBy; d >= -1 && d <= 1 {
						tags = appendOnce(tags, "real-ticker-within-1ns-of-deadline")
						atDeadline = true
					}
				}
			}
		}
		if o.Kind == "tick" && prev != nil {
			for _, e := range prev[o.W] {
				switch o.Now - e.SendBy {
				case 0:
					tags = appendOnce(tags, "tick-exactly-at-deadline")
					atDeadline = true
				case -1:
					tags = appendOnce(tags, "tick-1ns-before-deadline")
					atDeadline = true
				case 1:
					tags = appendOnce(tags, "tick-1ns-after-deadline")
					atDeadline = true
				}
			}
			if len(o.Left) > 0 {
				decidedByTick = true
				for _, e := range o.Bufs[o.W] {
					if e.SendBy <= o.Now {
						tags = appendOnce(tags, "backlog-beyond-MaxExpiredTraces")
						backlog = true
					}
				}
			}
		}
		prev = o.Bufs
	}
	_ = backlog
	return Case{Coq: collCoq(res), Key: string(raw), Nontriv: decidedByTick && atDeadline,
		Tags: tags, Summary: collSummary(res)}, nil
}

func appendOnce(tags []string, t string) []string {
	for _, x := range tags {
		if x == t {
			return tags
		}
	}
	return append(tags, t)
}
