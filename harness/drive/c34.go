package drive

import (
	"encoding/json"
	"errors"
	"fmt"
	"math/rand"
	"strings"
	"time"

	"github.com/honeycombio/refinery/agent"
	cq "github.com/honeycombio/refinery/verifharness/coqfmt"
	"github.com/jonboulle/clockwork"
	"github.com/open-telemetry/opamp-go/client"
	"github.com/open-telemetry/opamp-go/client/types"
	"github.com/open-telemetry/opamp-go/protobufs"
	"go.opentelemetry.io/collector/pdata/pmetric"
)

// C34: the real agent.usageTracker and Agent.sendUsageReport (through the verif hook) against a
// scripted OpAMP client: every SendCustomMessage call answers what the input says (sent, "pending",
// error) and keeps the payload; payloads are decoded with the OTLP JSON unmarshaler.

type c34Op struct {
	Op   string `json:"op"` // add report
	Sig  int    `json:"sig,omitempty"`
	Data int64  `json:"data,omitempty"`
	R1   string `json:"r1,omitempty"` // ok pending err
	R2   string `json:"r2,omitempty"`
}
type c34Input struct {
	Ops []c34Op `json:"ops"`
}

var c34Signals = []string{"", "traces", "logs", "events_received", "events_dropped"}

type c34Client struct {
	client.OpAMPClient
	script []string
	calls  [][]byte
}

func (c *c34Client) SendCustomMessage(msg *protobufs.CustomMessage) (chan struct{}, error) {
	i := len(c.calls)
	c.calls = append(c.calls, append([]byte{}, msg.Data...))
	r := "err"
	if i < len(c.script) {
		r = c.script[i]
	}
	done := make(chan struct{})
	close(done)
	switch r {
	case "ok":
		return done, nil
	case "pending":
		return done, types.ErrCustomMessagePending
	}
	return nil, errors.New("scripted send failure")
}

func init() {
	Register(&Driver{ID: "C34", Gen: c34Gen, Run: c34Run, Shrink: c34Shrink})
}

func c34Gen(r *rand.Rand, tier string, i int) any {
	var in c34Input
	nops := 4 + r.Intn(20)
	if tier == "thorough" {
		nops = 4 + r.Intn(60)
	}
	nsig := 1 + r.Intn(4)
	cum := make([]int64, 5)
	decreasing := r.Intn(12) == 0
	outcome := func() (string, string) {
		switch x := r.Intn(10); {
		case x < 4:
			return "ok", "ok"
		case x < 7:
			return "err", "ok"
		case x < 8:
			return "pending", "ok"
		case x < 9:
			return "pending", "err"
		default:
			return "pending", "pending"
		}
	}
	add := func() {
		s := 1 + r.Intn(nsig)
		inc := []int64{0, 1, 1, 5, 10, 1000, 1 << 40}[r.Intn(7)]
		cum[s] += inc
		d := cum[s]
		if decreasing && r.Intn(4) == 0 && d > 0 {
			d = d / 2
			cum[s] = d
		}
		if r.Intn(15) == 0 {
			d = 0 // a zero reading is ignored by the tracker
		}
		in.Ops = append(in.Ops, c34Op{Op: "add", Sig: s, Data: d})
	}
	for j := 0; j < nops; j++ {
		switch x := r.Intn(10); {
		case x < 5:
			add()
		case x < 8:
			r1, r2 := outcome()
			in.Ops = append(in.Ops, c34Op{Op: "report", R1: r1, R2: r2})
		default:
			// a run of failed sends with growth in between, then a successful one
			k := 2 + r.Intn(3)
			for q := 0; q < k; q++ {
				if r.Intn(4) > 0 {
					add()
				}
				r1 := []string{"err", "pending"}[r.Intn(2)]
				in.Ops = append(in.Ops, c34Op{Op: "report", R1: r1, R2: "err"})
			}
			if r.Intn(3) > 0 {
				add()
			}
			in.Ops = append(in.Ops, c34Op{Op: "report", R1: []string{"ok", "pending"}[r.Intn(2)], R2: "ok"})
		}
	}
	if r.Intn(2) == 0 {
		in.Ops = append(in.Ops, c34Op{Op: "report", R1: "ok", R2: "ok"})
	}
	return in
}

func c34Decode(data []byte) ([]string, error) {
	m, err := (&pmetric.JSONUnmarshaler{}).UnmarshalMetrics(data)
	if err != nil {
		return nil, err
	}
	var pts []string
	rms := m.ResourceMetrics()
	for a := 0; a < rms.Len(); a++ {
		sms := rms.At(a).ScopeMetrics()
		for b := 0; b < sms.Len(); b++ {
			ms := sms.At(b).Metrics()
			for c := 0; c < ms.Len(); c++ {
				mt := ms.At(c)
				if mt.Type() != pmetric.MetricTypeSum {
					return nil, fmt.Errorf("metric %s is not a sum", mt.Name())
				}
				dps := mt.Sum().DataPoints()
				for d := 0; d < dps.Len(); d++ {
					dp := dps.At(d)
					sig := 0
					attr, _ := dp.Attributes().Get("signal")
					switch {
					case mt.Name() == "bytes_received" && attr.Str() == "traces":
						sig = 1
					case mt.Name() == "bytes_received" && attr.Str() == "logs":
						sig = 2
					case mt.Name() == "events_received":
						sig = 3
					case mt.Name() == "events_dropped":
						sig = 4
					default:
						return nil, fmt.Errorf("unknown metric %s/%s", mt.Name(), attr.Str())
					}
					pts = append(pts, cq.Pair(cq.N(uint64(sig)), cq.Z(dp.IntValue())))
				}
			}
		}
	}
	return pts, nil
}

func c34Res(s string) string {
	switch s {
	case "ok":
		return "ROk"
	case "pending":
		return "RPending"
	}
	return "RErr"
}

func c34Run(raw json.RawMessage) (Case, error) {
	var in c34Input
	if err := json.Unmarshal(raw, &in); err != nil {
		return Case{}, err
	}
	cl := &c34Client{}
	ag, cancel := agent.VerifC34Agent(cl, clockwork.NewFakeClockAt(time.Unix(1700000000, 0)))
	defer cancel()
	var ops, obs, human []string
	failedRun, maxFailedRun, grewSinceFail, nontriv := 0, 0, false, false
	for _, o := range in.Ops {
		var out string
		switch o.Op {
		case "add":
			if o.Sig < 1 || o.Sig > 4 {
				return Case{}, fmt.Errorf("bad signal %d", o.Sig)
			}
			ag.VerifC34Add(c34Signals[o.Sig], float64(o.Data))
			ops = append(ops, cq.App("UAdd", cq.N(uint64(o.Sig)), cq.Z(o.Data)))
			out = "ONone"
			if failedRun > 0 {
				grewSinceFail = true
			}
		case "report":
			cl.script = []string{o.R1, o.R2}
			cl.calls = nil
			err := ag.VerifC34SendUsageReport()
			ops = append(ops, cq.App("UReport", c34Res(o.R1), c34Res(o.R2)))
			switch {
			case len(cl.calls) == 0 && agent.VerifC34IsNoData(err):
				out = "ONoData"
			case len(cl.calls) == 0 && err != nil:
				out = "OError"
			case len(cl.calls) == 0:
				return Case{}, fmt.Errorf("sendUsageReport returned nil without sending")
			default:
				for _, c := range cl.calls[1:] {
					if string(c) != string(cl.calls[0]) {
						return Case{}, fmt.Errorf("the retried message differs from the first one")
					}
				}
				pts, derr := c34Decode(cl.calls[0])
				if derr != nil {
					return Case{}, derr
				}
				sent := err == nil
				out = cq.App("OReport", cq.List(pts), cq.N(uint64(len(cl.calls))), cq.Bool(sent))
				if sent {
					if failedRun >= 2 && grewSinceFail {
						nontriv = true
					}
					failedRun, grewSinceFail = 0, false
				} else {
					failedRun++
					if failedRun > maxFailedRun {
						maxFailedRun = failedRun
					}
				}
			}
		default:
			return Case{}, fmt.Errorf("bad op %q", o.Op)
		}
		cur, last := ag.VerifC34Pending()
		var pend []int64
		for s := 1; s <= 4; s++ {
			v := cur[c34Signals[s]] + last[c34Signals[s]]
			if v != float64(int64(v)) {
				return Case{}, fmt.Errorf("pending usage %v is not an integer", v)
			}
			pend = append(pend, int64(v))
		}
		obs = append(obs, cq.Pair(out, cq.ListZ(pend)))
		human = append(human, fmt.Sprintf("%s -> %s pending=%v", ops[len(ops)-1], out, pend))
	}
	coq := fmt.Sprintf("{| c_ops := %s; c_obs := %s |}", cq.List(ops), cq.List(obs))
	tags := []string{fmt.Sprintf("max-consecutive-failed-sends:%d", maxFailedRun)}
	if nontriv {
		tags = append(tags, ">=2-failed-sends-then-success-with-growth")
	}
	return Case{Coq: coq, Key: strings.Join(ops, ";"), Nontriv: nontriv, Tags: tags,
		Summary: map[string]any{"history": human}}, nil
}

func c34Shrink(raw json.RawMessage) []json.RawMessage {
	var in c34Input
	if json.Unmarshal(raw, &in) != nil {
		return nil
	}
	var out []json.RawMessage
	for _, keep := range smChunkRemovals(len(in.Ops)) {
		c := in
		c.Ops = smKeep(in.Ops, keep)
		b, _ := json.Marshal(c)
		out = append(out, b)
	}
	return out
}
