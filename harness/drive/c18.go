package drive

import (
	"context"
	"encoding/json"
	"fmt"
	"math/rand"
	"sort"
	"strings"
	"time"

	"github.com/honeycombio/refinery/config"
	"github.com/honeycombio/refinery/internal/peer"
	"github.com/honeycombio/refinery/pubsub"
	cq "github.com/honeycombio/refinery/verifharness/coqfmt"
	"github.com/jonboulle/clockwork"
)

// C18: (a) the real peer command codec (marshal / unmarshal through the verif hook), and
// (b) a cluster of 2..4 real peer.RedisPubsubPeers nodes on one FakeClock, connected by a pubsub
// shim that delivers every published message to every subscribed node after a per-receiver delay
// chosen by the input (so registrations and unregistrations overtake each other). The refresh loop
// of every node is the real goroutine of Ready(); its ticker is replaced by a handshaking ticker
// (see c30.go) so the driver decides when a node publishes. Graceful stop = close(Done) (the real
// stop() publishes the unregistration), crash = the node just never publishes again.

type c18Op struct {
	Op     string  `json:"op"` // start tick stop crash adv query
	I      int     `json:"i,omitempty"`
	Delays []int64 `json:"delays,omitempty"`
	D      int64   `json:"d,omitempty"`
	Rev    bool    `json:"rev,omitempty"` // adv: deliver same-instant messages in reverse publish order
}
type c18Input struct {
	Kind string `json:"kind"` // codec decode cluster
	A    []byte `json:"a,omitempty"`
	Addr []byte `json:"addr,omitempty"`
	ID   []byte `json:"id,omitempty"`
	Wire []byte `json:"wire,omitempty"`

	T0     int64    `json:"t0,omitempty"`
	Idents []string `json:"idents,omitempty"`
	Ops    []c18Op  `json:"ops,omitempty"`
}

const (
	c18TTL  = int64(10 * time.Second)
	c18IMax = int64(3600 * time.Millisecond)
)

func init() {
	Register(&Driver{ID: "C18", Gen: c18Gen, Run: c18Run, Shrink: c18Shrink})
}

// ---------------------------------------------------------------- generator
func c18Str(r *rand.Rand, kind string) []byte {
	switch kind {
	case "id":
		switch x := r.Intn(20); {
		case x < 15:
			return []byte(fmt.Sprintf("%08x", r.Uint32()))
		case x < 16:
			return []byte{}
		case x < 17:
			return []byte(fmt.Sprintf("%04x,%03x", r.Intn(65536), r.Intn(4096))) // comma in the id
		}
	case "addr":
		host := []string{"host1", "refinery-0.refinery", "10.0.0.7", "[::1]", "h"}[r.Intn(5)]
		switch x := r.Intn(20); {
		case x < 8:
			return []byte("http://" + host + ":8081")
		case x < 12:
			return []byte("http://rack,1," + host + ":8081")
		case x < 14:
			return []byte("," + host + ",")
		case x < 15:
			return []byte{}
		case x < 16:
			return []byte(",")
		}
	}
	alpha := []byte("abRU,,,:/0189.-\xff\x00 \"")
	n := r.Intn(12)
	b := make([]byte, n)
	for i := range b {
		b[i] = alpha[r.Intn(len(alpha))]
	}
	return b
}

func c18Gen(r *rand.Rand, tier string, i int) any {
	switch x := r.Intn(10); {
	case x < 3:
		a := []string{"R", "U", "R", "U", "R", "U", "X", ",", "r"}[r.Intn(9)]
		return c18Input{Kind: "codec", A: []byte(a), Addr: c18Str(r, "addr"), ID: c18Str(r, "id")}
	case x < 4:
		w := append([]byte([]string{"R", "U", "R", "U", "X", "", ","}[r.Intn(7)]), c18Str(r, "x")...)
		if r.Intn(3) == 0 {
			w = append(w, c18Str(r, "addr")...)
			w = append(w, ',')
			w = append(w, c18Str(r, "id")...)
		}
		return c18Input{Kind: "decode", Wire: w}
	}
	// cluster
	n := 2 + r.Intn(3)
	in := c18Input{Kind: "cluster", T0: 1_000_000_000 + int64(r.Intn(1000))}
	for k := 0; k < n; k++ {
		id := fmt.Sprintf("host%d", k+1)
		if r.Intn(5) == 0 {
			id = fmt.Sprintf("rack,%d,host%d", r.Intn(3), k+1)
		}
		in.Idents = append(in.Idents, id)
	}
	dmax := []int64{0, 1_000_000_000, 3_000_000_000, 6_400_000_000, 6_400_000_000}[r.Intn(5)]
	delays := func() []int64 {
		ds := make([]int64, n)
		for k := range ds {
			switch r.Intn(4) {
			case 0:
				ds[k] = 0
			case 1:
				ds[k] = dmax
			default:
				if dmax > 0 {
					ds[k] = r.Int63n(dmax + 1)
				}
			}
		}
		return ds
	}
	maxDelays := func() []int64 {
		ds := make([]int64, n)
		for k := range ds {
			ds[k] = dmax
		}
		return ds
	}
	live := map[int]bool{}
	started := map[int]bool{}
	now := in.T0
	adv := func(d int64) {
		in.Ops = append(in.Ops, c18Op{Op: "adv", D: d, Rev: r.Intn(3) == 0})
		now += d
	}
	liveList := func() []int {
		var l []int
		for k := 0; k < n; k++ {
			if live[k] {
				l = append(l, k)
			}
		}
		return l
	}
	// phase 1: membership changes, with messages overtaking each other
	for k := 0; k < n; k++ {
		if k < 2 || r.Intn(3) > 0 {
			in.Ops = append(in.Ops, c18Op{Op: "start", I: k})
			live[k], started[k] = true, true
			if r.Intn(2) == 0 {
				adv(int64(r.Intn(2_000_000_000)))
			}
		}
	}
	chaos := 4 + r.Intn(14)
	for j := 0; j < chaos; j++ {
		ll := liveList()
		switch x := r.Intn(10); {
		case x < 5 && len(ll) > 0:
			in.Ops = append(in.Ops, c18Op{Op: "tick", I: ll[r.Intn(len(ll))], Delays: delays()})
		case x < 7:
			adv([]int64{500_000_000, 1_000_000_000, 3_000_000_000, 3_600_000_000}[r.Intn(4)])
		case x < 8:
			for k := 0; k < n; k++ {
				if !started[k] {
					in.Ops = append(in.Ops, c18Op{Op: "start", I: k})
					live[k], started[k] = true, true
					break
				}
			}
		case x < 9 && len(ll) > 0:
			in.Ops = append(in.Ops, c18Op{Op: "query", I: ll[r.Intn(len(ll))]})
		}
	}
	// leave at least one node alive; stop or crash some of the others, registration in flight
	ll := liveList()
	r.Shuffle(len(ll), func(a, b int) { ll[a], ll[b] = ll[b], ll[a] })
	for idx, k := range ll {
		if idx == 0 || r.Intn(2) == 0 {
			continue
		}
		in.Ops = append(in.Ops, c18Op{Op: "tick", I: k, Delays: maxDelays()}) // a registration that will arrive late
		if r.Intn(2) == 0 {
			adv(int64(r.Intn(1_000_000_000)))
		}
		if r.Intn(3) > 0 {
			ds := make([]int64, n) // the unregistration arrives at once: it overtakes the registration
			if r.Intn(3) == 0 {
				ds = delays()
			}
			in.Ops = append(in.Ops, c18Op{Op: "stop", I: k, Delays: ds})
		} else {
			in.Ops = append(in.Ops, c18Op{Op: "crash", I: k})
		}
		live[k] = false
	}
	// phase 2: membership stable from T0 = now on
	T0 := now
	ll = liveList()
	skip := -1 // one node may publish too rarely: then nothing is promised for that run
	if r.Intn(8) == 0 && len(ll) > 1 {
		skip = ll[r.Intn(len(ll))]
	}
	targets := []int64{T0 + dmax + c18TTL, T0 + dmax + c18TTL + 1, T0 + dmax + c18TTL + 2, T0 + c18TTL + c18IMax + 1}
	sort.Slice(targets, func(a, b int) bool { return targets[a] < targets[b] })
	end := T0 + dmax + c18TTL + 3_000_000_000 + int64(r.Intn(6_000_000_000))
	step := 0
	for now < end {
		step++
		for _, k := range ll {
			if k == skip && step%3 != 0 {
				continue
			}
			in.Ops = append(in.Ops, c18Op{Op: "tick", I: k, Delays: delays()})
		}
		g := []int64{3_000_000_000, 3_300_000_000, 3_599_999_999, 3_600_000_000}[r.Intn(4)]
		next := now + g
		for len(targets) > 0 && targets[0] <= next {
			if targets[0] > now {
				adv(targets[0] - now)
			}
			for _, k := range ll {
				if r.Intn(2) == 0 {
					in.Ops = append(in.Ops, c18Op{Op: "query", I: k})
				}
			}
			targets = targets[1:]
		}
		if next > now {
			adv(next - now)
		}
		if r.Intn(3) == 0 {
			in.Ops = append(in.Ops, c18Op{Op: "query", I: ll[r.Intn(len(ll))]})
		}
	}
	for _, k := range ll {
		in.Ops = append(in.Ops, c18Op{Op: "query", I: k})
	}
	return in
}

// ---------------------------------------------------------------- codec
func c18Opt(ok bool, a, ad, id string) string {
	if !ok {
		return cq.None()
	}
	return cq.Some(cq.Pair(cq.Pair(cq.Str(a), cq.Str(ad)), cq.Str(id)))
}

func c18RunCodec(in c18Input) (Case, error) {
	if in.Kind == "decode" {
		ok, a, ad, id := peer.VerifC18Unmarshal(string(in.Wire))
		tags := []string{"kind:decode"}
		if ok {
			tags = append(tags, "decodes")
		}
		return Case{Coq: cq.App("CDecode", cq.Str(string(in.Wire)), c18Opt(ok, a, ad, id)),
			Key: "decode|" + string(in.Wire), Nontriv: ok, Tags: tags,
			Summary: map[string]any{"wire": string(in.Wire), "ok": ok, "action": a, "address": ad, "id": id}}, nil
	}
	if len(in.A) != 1 {
		return Case{}, fmt.Errorf("codec case needs a one-byte action")
	}
	wire := peer.VerifC18Marshal(string(in.A), string(in.Addr), string(in.ID))
	ok, a, ad, id := peer.VerifC18Unmarshal(wire)
	tags := []string{"kind:codec"}
	nontriv := strings.Contains(string(in.Addr), ",")
	if nontriv {
		tags = append(tags, "comma-in-address")
	}
	if strings.Contains(string(in.ID), ",") {
		tags = append(tags, "comma-in-id")
	}
	return Case{Coq: cq.App("CCodec", cq.Str(string(in.A)), cq.Str(string(in.Addr)), cq.Str(string(in.ID)), cq.Str(wire), c18Opt(ok, a, ad, id)),
		Key: "codec|" + wire, Nontriv: nontriv, Tags: tags,
		Summary: map[string]any{"action": string(in.A), "address": string(in.Addr), "id": string(in.ID), "wire": wire,
			"decoded_ok": ok, "decoded_address": ad, "decoded_id": id}}, nil
}

// ---------------------------------------------------------------- cluster
type c18Pend struct {
	t, p int64
	seq  int
	to   int
	from int
	reg  bool
	msg  string
}
type c18Net struct {
	subs      []pubsub.SubscriptionCallback
	cur       int
	from      int
	reg       bool
	delays    []int64
	pend      []c18Pend
	seq       int
	now       *int64
	published chan struct{}
	maxDelay  int64
}

func (n *c18Net) Start() error                    { return nil }
func (n *c18Net) Stop() error                     { return nil }
func (n *c18Net) Close()                          {}
func (n *c18Net) FormatTopic(topic string) string { return "c18-" + topic }
func (n *c18Net) Subscribe(ctx context.Context, topic string, cb pubsub.SubscriptionCallback) pubsub.Subscription {
	n.subs[n.cur] = cb
	return &smSub{}
}
func (n *c18Net) Publish(ctx context.Context, topic, msg string) error {
	for j, cb := range n.subs {
		if cb == nil {
			continue
		}
		d := int64(0)
		if j < len(n.delays) {
			d = n.delays[j]
		}
		if d < 0 {
			d = 0
		}
		if d > n.maxDelay {
			n.maxDelay = d
		}
		n.pend = append(n.pend, c18Pend{t: *n.now + d, p: *n.now, seq: n.seq, to: j, from: n.from, reg: n.reg, msg: msg})
	}
	n.seq++
	select {
	case n.published <- struct{}{}:
	default:
	}
	return nil
}

type c18Clock struct {
	clockwork.Clock
	n    int
	made chan *c30Ticker
}

func (c *c18Clock) NewTicker(d time.Duration) clockwork.Ticker {
	c.n++
	if c.n == 1 { // the refresh ticker of Ready(); the second one only drives a debug log line
		t := &c30Ticker{c: make(chan time.Time), calls: make(chan struct{}), d: d}
		c.made <- t
		return t
	}
	return smIdleTicker{c: make(chan time.Time)}
}

type c18Node struct {
	p       *peer.RedisPubsubPeers
	tk      *c30Ticker
	id      string
	addr    string
	live    bool
	started bool
	items   []string
}

func c18RunCluster(in c18Input) (Case, error) {
	n := len(in.Idents)
	if n == 0 || n > 8 {
		return Case{}, fmt.Errorf("bad cluster size %d", n)
	}
	fc := clockwork.NewFakeClockAt(time.Unix(0, in.T0))
	now := in.T0
	net := &c18Net{subs: make([]pubsub.SubscriptionCallback, n), now: &now, published: make(chan struct{}, 4096)}
	nodes := make([]*c18Node, n)
	idN := map[string]uint64{}
	addrN := map[string]uint64{}
	for k := 0; k < n; k++ {
		nodes[k] = &c18Node{id: fmt.Sprintf("%08x", uint32(k+1)*0x01010101), addr: "http://" + in.Idents[k] + ":8081"}
		idN[nodes[k].id] = uint64(k + 1)
		addrN[nodes[k].addr] = uint64(k + 1)
	}
	var unknown []string
	num := func(m map[string]uint64, s string) uint64 {
		if v, ok := m[s]; ok {
			return v
		}
		unknown = append(unknown, s)
		m[s] = uint64(1000 + len(unknown))
		return m[s]
	}
	timeout := func(what string) error { return fmt.Errorf("timeout waiting for %s", what) }
	waitCalls := func(tk *c30Ticker) error {
		select {
		case <-tk.calls:
			return nil
		case <-time.After(10 * time.Second):
			return timeout("the refresh goroutine to return to its select")
		}
	}
	drain := func() {
		for {
			select {
			case <-net.published:
			default:
				return
			}
		}
	}
	defer func() {
		for _, nd := range nodes {
			if nd.started && nd.p != nil {
				select {
				case <-nd.p.Done:
				default:
					close(nd.p.Done)
				}
			}
		}
	}()
	var intervals []int64
	var views, human []string
	lastChange := in.T0
	tags := map[string]bool{}
	nontriv := false
	hadLoss := false
	item := func(t, p int64, reg bool, id, addr uint64) string {
		return fmt.Sprintf("{| i_t := %s; i_p := %s; i_reg := %s; i_id := %s; i_addr := %s |}", cq.Z(t), cq.Z(p), cq.Bool(reg), cq.N(id), cq.N(addr))
	}
	deliverUpTo := func(target int64, rev bool) {
		for {
			best := -1
			for i, pd := range net.pend {
				if pd.t > target {
					continue
				}
				if best < 0 || pd.t < net.pend[best].t ||
					(pd.t == net.pend[best].t && ((!rev && pd.seq < net.pend[best].seq) || (rev && pd.seq > net.pend[best].seq))) {
					best = i
				}
			}
			if best < 0 {
				break
			}
			pd := net.pend[best]
			net.pend = append(net.pend[:best], net.pend[best+1:]...)
			if pd.t > now {
				fc.Advance(time.Duration(pd.t - now))
				now = pd.t
			}
			nd := nodes[pd.to]
			if !nd.live {
				continue // the process is gone
			}
			net.subs[pd.to](context.Background(), pd.msg)
			nd.items = append(nd.items, item(now, pd.p, pd.reg, idN[nodes[pd.from].id], addrN[nodes[pd.from].addr]))
			if pd.reg && !nodes[pd.from].live {
				tags["late-register-of-dead-node"] = true
			}
			human = append(human, fmt.Sprintf("t=%d node%d processes %q (published t=%d)", now-in.T0, pd.to+1, pd.msg, pd.p-in.T0))
		}
		if target > now {
			fc.Advance(time.Duration(target - now))
			now = target
		}
	}
	for _, o := range in.Ops {
		if (o.Op == "start" || o.Op == "tick" || o.Op == "stop" || o.Op == "crash" || o.Op == "query") && (o.I < 0 || o.I >= n) {
			continue
		}
		switch o.Op {
		case "start":
			nd := nodes[o.I]
			if nd.started {
				continue
			}
			clk := &c18Clock{Clock: fc, made: make(chan *c30Ticker, 1)}
			nd.p = &peer.RedisPubsubPeers{
				Config: &config.MockConfig{GetPeerListenAddrVal: "0.0.0.0:8081", RedisIdentifier: in.Idents[o.I], PeerTimeout: time.Second},
				PubSub: net, Clock: clk, InstanceID: nd.id, Done: make(chan struct{}),
			}
			net.cur = o.I
			if err := nd.p.Start(); err != nil {
				return Case{}, err
			}
			// RedisPubsubPeers builds its TTL map on the real clock; put it on the fake clock and
			// redo Start's own registration there so that it expires on the fake clock as well.
			pm := nd.p.VerifC18PeersMap()
			pm.Clock = fc
			myaddr, err := nd.p.GetInstanceID()
			if err != nil {
				return Case{}, err
			}
			if myaddr != nd.addr {
				return Case{}, fmt.Errorf("public address %q, expected %q", myaddr, nd.addr)
			}
			pm.Set(nd.id, myaddr)
			if err := nd.p.Ready(); err != nil {
				return Case{}, err
			}
			select {
			case nd.tk = <-clk.made:
			case <-time.After(10 * time.Second):
				return Case{}, timeout("Ready to create its ticker")
			}
			if err := waitCalls(nd.tk); err != nil {
				return Case{}, err
			}
			intervals = append(intervals, int64(nd.tk.d))
			nd.started, nd.live = true, true
			nd.items = append(nd.items, item(now, now, true, idN[nd.id], addrN[nd.addr]))
			lastChange = now
			human = append(human, fmt.Sprintf("t=%d node%d starts (%s %s)", now-in.T0, o.I+1, nd.id, nd.addr))
			if strings.Contains(nd.addr, ",") {
				tags["comma-in-address"] = true
			}
		case "tick":
			nd := nodes[o.I]
			if !nd.live {
				continue
			}
			drain()
			net.from, net.reg, net.delays = o.I, true, o.Delays
			select {
			case nd.tk.c <- time.Unix(0, now):
			case <-time.After(10 * time.Second):
				return Case{}, timeout("the refresh goroutine to take a tick")
			}
			if err := waitCalls(nd.tk); err != nil {
				return Case{}, err
			}
			human = append(human, fmt.Sprintf("t=%d node%d publishes its registration, delays %v", now-in.T0, o.I+1, o.Delays))
			deliverUpTo(now, false)
		case "stop":
			nd := nodes[o.I]
			if !nd.live {
				continue
			}
			drain()
			net.from, net.reg, net.delays = o.I, false, o.Delays
			close(nd.p.Done)
			select {
			case <-net.published:
			case <-time.After(10 * time.Second):
				return Case{}, timeout("stop() to publish the unregistration")
			}
			nd.live = false
			lastChange = now
			hadLoss = true
			tags["graceful-stop"] = true
			human = append(human, fmt.Sprintf("t=%d node%d stops gracefully, delays %v", now-in.T0, o.I+1, o.Delays))
			deliverUpTo(now, false)
		case "crash":
			nd := nodes[o.I]
			if !nd.live {
				continue
			}
			nd.live = false
			lastChange = now
			hadLoss = true
			tags["crash"] = true
			human = append(human, fmt.Sprintf("t=%d node%d crashes", now-in.T0, o.I+1))
		case "adv":
			if o.D < 0 {
				continue
			}
			deliverUpTo(now+o.D, o.Rev)
		case "query":
			nd := nodes[o.I]
			if !nd.live {
				continue
			}
			peers, err := nd.p.GetPeers()
			if err != nil {
				return Case{}, err
			}
			keys := nd.p.VerifC18PeersMap().SortedKeys()
			obs := ""
			switch {
			case len(keys) == len(peers):
				var ps []string
				for i := range keys {
					ps = append(ps, cq.Pair(cq.N(num(idN, keys[i])), cq.N(num(addrN, peers[i]))))
				}
				obs = cq.Some(cq.List(ps))
			case len(keys) == 0 && len(peers) == 1 && peers[0] == nd.addr:
				obs = cq.None() // empty map: the node answers with itself
			default:
				var ps []string
				for i := range peers {
					ps = append(ps, cq.Pair(cq.N(uint64(2000+i)), cq.N(num(addrN, peers[i]))))
				}
				obs = cq.Some(cq.List(ps))
			}
			var L []string
			nl := 0
			for _, x := range nodes {
				if x.live {
					L = append(L, cq.Pair(cq.N(idN[x.id]), cq.N(addrN[x.addr])))
					nl++
				}
			}
			views = append(views, fmt.Sprintf("{| q_node := %s; q_n := %s; q_tau := %s; q_obs := %s; q_L := %s; q_T0 := %s; q_d := %s |}",
				cq.Nat(o.I), cq.Nat(len(nd.items)), cq.Z(now), obs, cq.List(L), cq.Z(lastChange), cq.Z(net.maxDelay)))
			human = append(human, fmt.Sprintf("t=%d node%d GetPeers = %v (live nodes: %d, last change t=%d)", now-in.T0, o.I+1, peers, nl, lastChange-in.T0))
			bound := lastChange + net.maxDelay + c18TTL
			if now > bound && c18IMax+net.maxDelay <= c18TTL {
				tags["query-after-convergence-bound"] = true
				if hadLoss {
					nontriv = true
				}
				if now <= bound+2 {
					tags["query-at-bound(+1/+2ns)"] = true
				}
			} else if now == bound {
				tags["query-at-bound-exactly(not-yet-promised)"] = true
			}
		default:
			return Case{}, fmt.Errorf("bad op %q", o.Op)
		}
	}
	var nodeItems []string
	for _, nd := range nodes {
		nodeItems = append(nodeItems, cq.List(nd.items))
	}
	coq := cq.App("CCluster", cq.Z(in.T0), cq.ListZ(intervals), cq.List(nodeItems), cq.List(views))
	var tl []string
	for t := range tags {
		tl = append(tl, t)
	}
	sort.Strings(tl)
	tl = append(tl, "kind:cluster", fmt.Sprintf("nodes:%d", n))
	return Case{Coq: coq, Key: "cluster|" + strings.Join(human, ";"), Nontriv: nontriv, Tags: tl,
		Summary: map[string]any{"nodes": n, "max_delay_ns": net.maxDelay, "refresh_intervals_ns": intervals, "unknown_strings": unknown, "history": human}}, nil
}

func c18Run(raw json.RawMessage) (Case, error) {
	var in c18Input
	if err := json.Unmarshal(raw, &in); err != nil {
		return Case{}, err
	}
	switch in.Kind {
	case "codec", "decode":
		return c18RunCodec(in)
	case "cluster":
		return c18RunCluster(in)
	}
	return Case{}, fmt.Errorf("bad kind %q", in.Kind)
}

func c18Shrink(raw json.RawMessage) []json.RawMessage {
	var in c18Input
	if json.Unmarshal(raw, &in) != nil {
		return nil
	}
	var out []json.RawMessage
	add := func(c c18Input) {
		b, _ := json.Marshal(c)
		out = append(out, b)
	}
	cut := func(b []byte) [][]byte {
		var r [][]byte
		for _, keep := range smChunkRemovals(len(b)) {
			r = append(r, smKeep(b, keep))
		}
		return r
	}
	switch in.Kind {
	case "codec":
		for _, b := range cut(in.Addr) {
			c := in
			c.Addr = b
			add(c)
		}
		for _, b := range cut(in.ID) {
			c := in
			c.ID = b
			add(c)
		}
	case "decode":
		for _, b := range cut(in.Wire) {
			c := in
			c.Wire = b
			add(c)
		}
	case "cluster":
		for _, keep := range smChunkRemovals(len(in.Ops)) {
			c := in
			c.Ops = smKeep(in.Ops, keep)
			add(c)
		}
	}
	return out
}
