package drive

import (
	"encoding/json"
	"math/rand"
)

// C06: decoration under reloads. Same collector driver as C04; reloads toggling AddHostMetadataToTrace,
// AddRuleReasonToTrace, AddSpanCountToRoot, AddCountsToRoot and AdditionalAttributes are frequent.

func init() {
	Register(&Driver{ID: "C06", Gen: func(r *rand.Rand, tier string, i int) any { return c2Gen(r, tier, "c06") },
		Run: func(raw json.RawMessage) (Case, error) {
			return c2RunAs(raw, func(in *c2Input, res *c2Result) bool {
				// non-trivial: a reload happened and spans were forwarded on time and late
				return res.Tags["reload"] && res.OnTime > 0 && res.Late > 0
			})
		}, Shrink: c2Shrink})
}
