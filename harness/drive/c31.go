package drive

import (
	"encoding/json"
	"fmt"
	"math/rand"
	"runtime"
	"strings"
	"sync"
	"time"

	"github.com/honeycombio/refinery/collect/cache"
	"github.com/honeycombio/refinery/config"
	"github.com/honeycombio/refinery/metrics"
	"github.com/honeycombio/refinery/types"
	cq "github.com/honeycombio/refinery/verifharness/coqfmt"
	"github.com/jonboulle/clockwork"
	cuckoo "github.com/panmari/cuckoofilter"
)

// C31: the real cuckooSentCache (kept LRU + reasons cache + two-generation cuckoo filter + recent-drop
// set). The drain goroutine is held back by keeping the filter mutex locked while records are made, and
// released (and awaited) before every lookup / Maintain / Resize; that release is the model's Drain op.

type c31Op struct {
	Op     string `json:"op"` // kept dropped burst span trace maintain resize adv
	ID     int    `json:"id,omitempty"`
	Rate   uint64 `json:"rate,omitempty"`
	Reason int    `json:"reason,omitempty"`
	Desc   uint32 `json:"desc,omitempty"`
	Sev    uint32 `json:"sev,omitempty"`
	Link   uint32 `json:"link,omitempty"`
	Span   uint32 `json:"span,omitempty"`
	Ann    int    `json:"ann,omitempty"` // 0 span, 1 span_event, 2 link
	N      int    `json:"n,omitempty"`   // burst length
	Ksz    uint   `json:"ksz,omitempty"`
	Dsz    uint   `json:"dsz,omitempty"`
	Wc     uint   `json:"wc,omitempty"`
	D      int64  `json:"d,omitempty"`
}
type c31Input struct {
	Ksz uint    `json:"ksz"`
	Dsz uint    `json:"dsz"`
	Wc  uint    `json:"wc"`
	T0  int64   `json:"t0"`
	Ops []c31Op `json:"ops"`
}

var c31Reasons = []string{"rules/trace/keep slow", "deterministic/always", "", "dynamic", "rules/span/erreur-\xc3\xa9"}
var c31Rates = []uint64{1, 2, 10, 1000, 1<<32 - 1, 1 << 32, 1<<32 + 5, 1<<64 - 1}

func init() {
	Register(&Driver{ID: "C31", Gen: c31Gen, Run: c31Run, Shrink: c31Shrink})
}

// ---- trace ids with pairwise distinct cuckoo fingerprints (no false positives by construction)
var (
	c31PoolMu   sync.Mutex
	c31Pool     []string
	c31PoolSeen = map[uint16]bool{}
	c31PoolNext int
	c31PoolF    = cuckoo.NewFilter(1)
)

func c31Fingerprint(f *cuckoo.Filter, s string) uint16 {
	f.Reset()
	f.Insert([]byte(s))
	enc := f.Encode()
	for i := 0; i+1 < len(enc); i += 2 {
		if fp := uint16(enc[i]) | uint16(enc[i+1])<<8; fp != 0 {
			return fp
		}
	}
	return 0
}

func c31ID(i int) string {
	c31PoolMu.Lock()
	defer c31PoolMu.Unlock()
	if i < 0 || i >= 50000 {
		panic("c31ID: id out of range")
	}
	for len(c31Pool) <= i {
		s := fmt.Sprintf("trace-%06d", c31PoolNext)
		c31PoolNext++
		fp := c31Fingerprint(c31PoolF, s)
		if fp == 0 || c31PoolSeen[fp] {
			continue
		}
		c31PoolSeen[fp] = true
		c31Pool = append(c31Pool, s)
	}
	return c31Pool[i]
}

const c31BurstBase = 100 // ids of burst records start here; ids below are the named traces

func c31Gen(r *rand.Rand, tier string, i int) any {
	in := c31Input{T0: 1_700_000_000_000_000_000 + int64(r.Intn(1000))}
	in.Wc = uint(1 + r.Intn(3))
	in.Ksz = uint(1 + r.Intn(7))
	big := r.Intn(30) == 0
	if big {
		in.Dsz = []uint{3000, 5000}[r.Intn(2)]
		in.Wc = 1
	} else {
		in.Dsz = []uint{1, 3, 4, 7, 8, 15}[r.Intn(6)] * in.Wc // per-worker capacity = the listed value
		if r.Intn(4) == 0 {
			in.Dsz -= uint(r.Intn(int(in.Wc))) // ceil division still gives the listed value
		}
	}
	nops := 6 + r.Intn(26)
	if tier == "thorough" {
		nops = 6 + r.Intn(60)
	}
	nids := 3 + r.Intn(6)
	burstNext := c31BurstBase
	// scripted prefix (1 case in 5 with a small filter): fill, rotate, record a drop right after the rotation,
	// fill again, rotate a second time, look the drop up - it was inserted into both generations
	if !big && r.Intn(5) == 0 {
		per := (in.Dsz + in.Wc - 1) / in.Wc
		slots := 4
		if per >= 4 {
			slots = 8
		}
		if per >= 8 {
			slots = 16
		}
		x := 1 + r.Intn(nids)
		in.Ops = append(in.Ops, c31Op{Op: "burst", ID: burstNext, N: slots}, c31Op{Op: "maintain"})
		burstNext += slots
		if r.Intn(2) == 0 {
			in.Ops = append(in.Ops, c31Op{Op: "kept", ID: x, Rate: 7, Reason: 1, Desc: 1, Span: 1})
		}
		in.Ops = append(in.Ops, c31Op{Op: "dropped", ID: x}, c31Op{Op: "burst", ID: burstNext, N: slots - 1}, c31Op{Op: "maintain"},
			c31Op{Op: "trace", ID: x}, c31Op{Op: "span", ID: x})
		burstNext += slots - 1
	}
	for j := 0; j < nops; j++ {
		id := 1 + r.Intn(nids)
		switch x := r.Intn(100); {
		case x < 26:
			o := c31Op{Op: "kept", ID: id, Rate: c31Rates[r.Intn(len(c31Rates))], Reason: r.Intn(len(c31Reasons))}
			o.Sev, o.Link, o.Span = uint32(r.Intn(3)), uint32(r.Intn(3)), uint32(1+r.Intn(4))
			o.Desc = o.Sev + o.Link + o.Span
			in.Ops = append(in.Ops, o)
		case x < 42:
			in.Ops = append(in.Ops, c31Op{Op: "dropped", ID: 1 + r.Intn(nids+3)})
		case x < 50:
			n := 1 + r.Intn(5)
			if big && r.Intn(2) == 0 {
				n = []int{999, 1000, 1001, 1100}[r.Intn(4)]
			}
			in.Ops = append(in.Ops, c31Op{Op: "burst", ID: burstNext, N: n})
			burstNext += n
		case x < 64:
			in.Ops = append(in.Ops, c31Op{Op: "span", ID: 1 + r.Intn(nids+3), Ann: r.Intn(3)})
		case x < 76:
			in.Ops = append(in.Ops, c31Op{Op: "trace", ID: 1 + r.Intn(nids+3)})
		case x < 88:
			in.Ops = append(in.Ops, c31Op{Op: "maintain"})
		case x < 94:
			o := c31Op{Op: "resize", Wc: uint(1 + r.Intn(3))}
			o.Ksz = uint(r.Intn(8)) // 0 makes lru.New fail: Resize must leave everything as it was
			o.Dsz = []uint{1, 3, 4, 7, 8, 15}[r.Intn(6)] * o.Wc
			in.Ops = append(in.Ops, o)
		default:
			in.Ops = append(in.Ops, c31Op{Op: "adv", D: []int64{1, 1_000_000_000, 2_999_999_999, 3_000_000_000, 3_000_000_001, 10_000_000_000}[r.Intn(6)]})
		}
	}
	return in
}

type c31Trace struct {
	id                    string
	rate, reason          uint
	desc, sev, link, span uint32
}

func (t *c31Trace) ID() string              { return t.id }
func (t *c31Trace) SampleRate() uint        { return t.rate }
func (t *c31Trace) DescendantCount() uint32 { return t.desc }
func (t *c31Trace) SpanEventCount() uint32  { return t.sev }
func (t *c31Trace) SpanLinkCount() uint32   { return t.link }
func (t *c31Trace) SpanCount() uint32       { return t.span }
func (t *c31Trace) SetKeptReason(r uint)    { t.reason = r }
func (t *c31Trace) KeptReason() uint        { return t.reason }

func c31Run(raw json.RawMessage) (Case, error) {
	var in c31Input
	if err := json.Unmarshal(raw, &in); err != nil {
		return Case{}, err
	}
	if in.Wc == 0 {
		in.Wc = 1
	}
	cfg := config.SampleCacheConfig{KeptSize: in.Ksz, DroppedSize: in.Dsz, SizeCheckInterval: config.Duration(time.Hour), WorkerCount: in.Wc}
	sc, err := cache.NewCuckooSentCache(cfg, &metrics.NullMetrics{})
	if err != nil {
		return Case{}, fmt.Errorf("NewCuckooSentCache: %v", err)
	}
	clock := clockwork.NewFakeClockAt(time.Unix(0, in.T0))
	cache.VerifC31SetRecentClock(sc, clock)
	chk := cache.VerifC31Dropped(sc)
	curCount, _, _, futCount, _, _ := chk.VerifC31State()
	chk.VerifC31Lock()
	locked := true
	defer func() {
		if locked {
			chk.VerifC31Unlock()
		}
		sc.Stop()
	}()

	var ops, obs, human []string
	tags := map[string]bool{}
	emit := func(o, a string) {
		ops = append(ops, o)
		obs = append(obs, a)
		if len(human) < 60 {
			human = append(human, o+" -> "+a)
		}
	}
	stateAns := func() string {
		cc, cs, hf, fc, fs, _ := chk.VerifC31State()
		curCount, futCount = cc, fc
		f := cq.None()
		if hf {
			f = cq.Some(cq.Pair(cq.N(uint64(fc)), cq.N(uint64(fs))))
		}
		return cq.App("AState", cq.N(uint64(cc)), cq.N(uint64(cs)), f, cq.N(uint64(chk.VerifC31QueueLen())))
	}
	truncated := false
	// release the drain goroutine, wait until the queue is empty, observe; false = an insert failed
	syncDrain := func() (bool, error) {
		q := chk.VerifC31QueueLen()
		wantCur, wantFut := curCount+uint(q), futCount+uint(q)
		chk.VerifC31Unlock()
		locked = false
		deadline := time.Now().Add(20 * time.Second)
		for chk.VerifC31QueueLen() > 0 {
			if time.Now().After(deadline) {
				return false, fmt.Errorf("add queue not drained after 20s")
			}
			runtime.Gosched()
			time.Sleep(20 * time.Microsecond)
		}
		cc, _, hf, fc, _, _ := chk.VerifC31State()
		// a cuckoo insert can only fail when a bucket (4 entries) is full: a shortfall on a filter holding
		// fewer than 4 entries is not a failed insert and is reported as observed
		if (cc != wantCur && cc >= 4) || (hf && fc != wantFut && fc >= 4) {
			return false, nil
		}
		emit("Drain", stateAns())
		return true, nil
	}
	relock := func() {
		chk.VerifC31Lock()
		locked = true
	}
	ansOf := func(rec cache.TraceSentRecord, reason string, found bool) string {
		if !found {
			return "ANotFound"
		}
		if !rec.Kept() {
			return "ADropped"
		}
		return cq.App("AKept", cq.N(uint64(rec.Rate())), cq.N(uint64(rec.DescendantCount())), cq.N(uint64(rec.SpanEventCount())),
			cq.N(uint64(rec.SpanLinkCount())), cq.N(uint64(rec.SpanCount())), cq.Str(reason))
	}
	keptIDs, droppedIDs := map[int]bool{}, map[int]bool{}
	distinctKept := 0
	perWorker := func(size, wc uint) uint { return (size + wc - 1) / max(wc, 1) }
	kcap := perWorker(in.Ksz, in.Wc)
	used := map[int]bool{}
	doOp := func(o c31Op) error {
		switch o.Op {
		case "kept":
			reason := c31Reasons[o.Reason%len(c31Reasons)]
			sc.Record(&c31Trace{id: c31ID(o.ID), rate: uint(o.Rate), desc: o.Desc, sev: o.Sev, link: o.Link, span: o.Span}, true, reason)
			emit(cq.App("RecKept", cq.N(uint64(o.ID)), cq.N(o.Rate), cq.Str(reason), cq.N(uint64(o.Desc)), cq.N(uint64(o.Sev)), cq.N(uint64(o.Link)), cq.N(uint64(o.Span))), "AUnit")
			if !keptIDs[o.ID] {
				distinctKept++
			}
			keptIDs[o.ID] = true
			used[o.ID] = true
			if uint(distinctKept) > kcap {
				tags["kept-over-capacity"] = true
			}
			if o.Rate >= 1<<32 {
				tags["rate>=2^32"] = true
			}
		case "dropped", "burst":
			n := 1
			if o.Op == "burst" {
				n = o.N
			}
			if chk.VerifC31QueueLen()+n > 1000 {
				tags["queue-overflow"] = true
			}
			for k := 0; k < n; k++ {
				sc.Record(&c31Trace{id: c31ID(o.ID + k)}, false, "")
				emit(cq.App("RecDropped", cq.N(uint64(o.ID+k))), "AUnit")
			}
			if o.Op == "dropped" {
				droppedIDs[o.ID] = true
				used[o.ID] = true
			}
		case "span", "trace", "maintain", "resize":
			ok, err := syncDrain()
			if err != nil {
				return err
			}
			if !ok {
				truncated = true
				return nil
			}
			switch o.Op {
			case "span":
				sp := &types.Span{TraceID: c31ID(o.ID), Event: &types.Event{Data: types.Payload{MetaAnnotationType: []string{"", "span_event", "link"}[o.Ann%3]}}}
				rec, reason, found := sc.CheckSpan(sp)
				emit(cq.App("ChkSpan", cq.N(uint64(o.ID)), cq.N(uint64(o.Ann%3))), ansOf(rec, reason, found))
				used[o.ID] = true
			case "trace":
				rec, reason, found := sc.CheckTrace(c31ID(o.ID))
				emit(cq.App("ChkTrace", cq.N(uint64(o.ID))), ansOf(rec, reason, found))
				used[o.ID] = true
			case "maintain":
				cc, cs, _, _, _, _ := chk.VerifC31State()
				if 100*uint64(cc) > 99*uint64(cs) {
					if tags["rotation"] {
						tags["two-rotations"] = true
					}
					tags["rotation"] = true
				}
				chk.Maintain()
				emit("Maintain", stateAns())
			case "resize":
				wc := o.Wc
				if wc == 0 {
					wc = 1
				}
				_ = sc.Resize(config.SampleCacheConfig{KeptSize: o.Ksz, DroppedSize: o.Dsz, SizeCheckInterval: config.Duration(time.Hour), WorkerCount: wc})
				emit(cq.App("Resize", cq.N(uint64(o.Ksz)), cq.N(uint64(o.Dsz)), cq.N(uint64(wc))), "AUnit")
				if nk := perWorker(o.Ksz, wc); nk != 0 {
					if nk < kcap {
						tags["resize-shrink"] = true
					}
					kcap = nk
				} else {
					tags["resize-to-zero"] = true
				}
			}
			if keptIDs[o.ID] && droppedIDs[o.ID] && (o.Op == "span" || o.Op == "trace") {
				tags["lookup-kept-and-dropped"] = true
			}
			relock()
		case "adv":
			clock.Advance(time.Duration(o.D))
			emit(cq.App("Advance", cq.Z(o.D)), "AUnit")
		default:
			return fmt.Errorf("bad op %q", o.Op)
		}
		return nil
	}
	for _, o := range in.Ops {
		if err := doOp(o); err != nil {
			return Case{}, err
		}
		if truncated {
			break
		}
	}
	// final sweep: every named id is looked up once more (CheckTrace never evicts)
	if !truncated {
		for id := 1; id < c31BurstBase; id++ {
			if !used[id] {
				continue
			}
			if err := doOp(c31Op{Op: "trace", ID: id}); err != nil {
				return Case{}, err
			}
			if truncated {
				break
			}
		}
	}
	if truncated {
		tags["truncated-at-failed-insert"] = true
	}
	coq := fmt.Sprintf("{| c_ksz := %s; c_dsz := %s; c_wc := %s; c_t0 := %s; c_ops := %s; c_obs := %s |}",
		cq.N(uint64(in.Ksz)), cq.N(uint64(in.Dsz)), cq.N(uint64(in.Wc)), cq.Z(in.T0), cq.List(ops), cq.List(obs))
	var tl []string
	for t := range tags {
		tl = append(tl, t)
	}
	tl = append(tl, fmt.Sprintf("kcap:%d", perWorker(in.Ksz, in.Wc)), fmt.Sprintf("dcap:%d", perWorker(in.Dsz, in.Wc)))
	nontriv := tags["rotation"] || tags["kept-over-capacity"] || tags["resize-shrink"] || tags["queue-overflow"] || tags["lookup-kept-and-dropped"]
	return Case{Coq: coq, Key: fmt.Sprintf("%d|%d|%d|%s", in.Ksz, in.Dsz, in.Wc, strings.Join(ops, ";")),
		Nontriv: nontriv, Tags: tl,
		Summary: map[string]any{"kept_size": in.Ksz, "dropped_size": in.Dsz, "workers": in.Wc, "history": human}}, nil
}

func c31Shrink(raw json.RawMessage) []json.RawMessage {
	var in c31Input
	if json.Unmarshal(raw, &in) != nil {
		return nil
	}
	var out []json.RawMessage
	add := func(c c31Input) {
		b, _ := json.Marshal(c)
		out = append(out, b)
	}
	// delta debugging: drop large chunks first, then single operations
	n := len(in.Ops)
	for chunk := n / 2; chunk >= 1; chunk /= 2 {
		for i := 0; i+chunk <= n; i += chunk {
			c := in
			c.Ops = append(append([]c31Op{}, in.Ops[:i]...), in.Ops[i+chunk:]...)
			add(c)
		}
		if chunk == 1 {
			break
		}
	}
	for i, o := range in.Ops {
		if o.Op == "burst" && o.N > 1 {
			c := in
			c.Ops = append([]c31Op{}, in.Ops...)
			c.Ops[i].N = o.N / 2
			add(c)
			c2 := in
			c2.Ops = append([]c31Op{}, in.Ops...)
			c2.Ops[i].N = o.N - 1
			add(c2)
		}
		if o.Op == "kept" && o.Rate > 1 {
			c := in
			c.Ops = append([]c31Op{}, in.Ops...)
			c.Ops[i].Rate = 1
			add(c)
		}
	}
	return out
}
