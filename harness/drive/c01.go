package drive

import (
	"encoding/json"
	"fmt"
	"math/rand"
)

func init() {
	Register(&Driver{ID: "C01", Gen: c01Gen, Run: c01Run, Shrink: collShrink})
}

func c01Gen(r *rand.Rand, tier string, i int) any {
	return collGen(r, tier, collBias{Tick: 22, Eject: 8, Reload: 8, Flush: 30, Forget: 12})
}

func c01Run(raw json.RawMessage) (Case, error) {
	var in collInput
	if err := json.Unmarshal(raw, &in); err != nil {
		return Case{}, err
	}
	res, err := collRun(in)
	if err != nil {
		return Case{}, err
	}
	if len(res.Obs) == 0 {
		return Case{Coq: collEmptyCase, Key: "empty"}, nil
	}
	late, decided := 0, 0
	for _, o := range res.Obs {
		decided += len(o.Left)
		if o.Kind == "span" {
			for _, f := range o.Fwd {
				if f.Reason == "trace_send_late_span" {
					late++
				}
			}
		}
	}
	_ = fmt.Sprint
	return Case{Coq: collCoq(res), Key: string(raw), Nontriv: decided > 0,
		Tags: collTags(res), Summary: collSummary(res)}, nil
}
