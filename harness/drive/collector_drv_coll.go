package drive

// Manual (sequential, explicit clock) collector driver shared by C01, C02, C03, C07 and C36.
//
// It calls the REAL InMemCollector.Start(), parks every worker goroutine through the worker's own
// pause channel, and then invokes — from this goroutine, on the parked workers — the real
// processSpan / sendExpiredTracesInCache(now) / sendTracesEarly(bytes) through the add-only hooks in
// collect/verif_export_c01.go. Reloads go through the real path (MockConfig.Reload -> sendReloadSignal
// -> monitor goroutine -> reloadConfigs -> worker reload branch): the worker is resumed until it has
// consumed the signal and is parked again. The real sendTraces goroutine keeps running; after every
// op a marker trace is pushed through tracesToSend and awaited at the recording transmission, so
// everything the op caused has reached the transmission before the observation is taken.
//
// The clock is a clockwork.Clock whose Now() is the explicit virtual time of the current op and
// whose tickers never fire (the embedded FakeClock is never advanced), so nothing happens that is
// not in the op list.

import (
	"context"
	"encoding/json"
	"fmt"
	"math/rand"
	"runtime"
	rtmetrics "runtime/metrics"
	"sort"
	"strings"
	"sync"
	"sync/atomic"
	"time"

	"github.com/jonboulle/clockwork"
	"go.opentelemetry.io/otel/trace/noop"

	"github.com/honeycombio/refinery/collect"
	"github.com/honeycombio/refinery/config"
	"github.com/honeycombio/refinery/internal/peer"
	"github.com/honeycombio/refinery/logger"
	"github.com/honeycombio/refinery/metrics"
	"github.com/honeycombio/refinery/pubsub"
	"github.com/honeycombio/refinery/sample"
	"github.com/honeycombio/refinery/sharder"
	"github.com/honeycombio/refinery/transmit"
	"github.com/honeycombio/refinery/types"
	cq "github.com/honeycombio/refinery/verifharness/coqfmt"
)

var _ = context.Background

// ---------------------------------------------------------------- input

type collSpan struct {
	Tid  int   `json:"t"`           // trace number (trace id "t<n>")
	Sid  int   `json:"s"`           // unique span number
	Root bool  `json:"root,omitempty"`
	Cls  int   `json:"cls,omitempty"`  // value of field "cls" (rules look at it)
	Pad  int   `json:"pad,omitempty"`  // length of the padding field (controls DataSize)
	Kind int   `json:"kind,omitempty"` // 0 span, 1 span event, 2 link
	Age  int64 `json:"age,omitempty"`  // real-clock age given to the span after it was buffered (ns)
	Via  int   `json:"via,omitempty"`  // 0: processSpan called directly on the parked worker; 1: real AddSpan; 2: real AddSpanFromPeer (channel + worker loop)
}

type collCfg struct {
	Ver int    `json:"ver"` // index of the rule table in force
	TT  int64  `json:"tt"`  // TraceTimeout ns
	SD  int64  `json:"sd"`  // SendDelay ns
	SL  uint64 `json:"sl"`  // SpanLimit
	ME  uint64 `json:"me"`  // MaxExpiredTraces
}

type collRule struct {
	Cls      *int  `json:"cls,omitempty"`
	MinSpans *int  `json:"min,omitempty"`
	Root     *bool `json:"root,omitempty"`
	Drop     bool  `json:"drop"`
}

type collOp struct {
	Op    string    `json:"op"`          // span | tick | tickspan | ltick | eject | reload | alloc | stop
	Inflight bool   `json:"inflight,omitempty"` // stop: the real ticker fires on every (resumed) worker and Stop is called at once, while the workers are deciding
	Stall bool      `json:"stall,omitempty"` // stop: upstream stalled, final late tick on every worker, Stop called while the decided traces are still queued
	D     int64     `json:"d,omitempty"` // clock advance before the op (ns)
	W     int       `json:"w,omitempty"` // worker (tick / eject), reduced mod worker count
	Span  *collSpan `json:"span,omitempty"`
	Bytes int64     `json:"bytes,omitempty"` // eject: bytes; alloc: headroom (MaxAlloc = heap - Bytes; <=0 disables)
	Cfg   *collCfg  `json:"cfg,omitempty"`
}

type collInput struct {
	Workers  int          `json:"workers"`
	Dry      bool         `json:"dry,omitempty"`
	KeptSize uint         `json:"kept,omitempty"` // 0 = 10000
	Cfg      collCfg      `json:"cfg"`
	Tables   [][]collRule `json:"tables"`
	T0       int64        `json:"t0"`
	Ops      []collOp     `json:"ops"`
	Flush    bool         `json:"flush,omitempty"` // finish with late ticks until every buffer is empty
	ShrinkRound int       `json:"shrink_round,omitempty"` // bookkeeping of collShrink
	ShrinkMax   int       `json:"shrink_max,omitempty"`   // cap on shrink rounds (0 = 3)
	Inflight    bool      `json:"inflight_case,omitempty"` // C36: run in a child process, only "no crash / no hang" is checked
}

// ---------------------------------------------------------------- doubles

type collClock struct {
	clockwork.Clock
	now atomic.Int64
}

func (c *collClock) Now() time.Time                  { return time.Unix(0, c.now.Load()) }
func (c *collClock) Since(t time.Time) time.Duration { return c.Now().Sub(t) }
func (c *collClock) Until(t time.Time) time.Duration { return t.Sub(c.Now()) }

type collNopHealth struct{}

func (collNopHealth) Register(string, time.Duration) {}
func (collNopHealth) Unregister(string)              {}
func (collNopHealth) Ready(string, bool)             {}

type collFwd struct {
	Tid, Sid int
	Reason   string
	Rate     uint
}

const collBarrierID = "__verif_barrier__"

type collTx struct {
	mu      sync.Mutex
	evs     []collFwd
	barrier chan struct{}
	next    transmit.Transmission // optional: the real transmission behind the recorder
	gate    chan struct{}         // non-nil: the upstream is stalled until the channel is closed
}

func (t *collTx) EnqueueEvent(ev *types.Event) {}
func (t *collTx) stall() {
	t.mu.Lock()
	t.gate = make(chan struct{})
	t.mu.Unlock()
}
func (t *collTx) release() {
	t.mu.Lock()
	if t.gate != nil {
		close(t.gate)
		t.gate = nil
	}
	t.mu.Unlock()
}
func (t *collTx) EnqueueSpan(sp *types.Span) {
	t.mu.Lock()
	g := t.gate
	t.mu.Unlock()
	if g != nil {
		<-g
	}
	if sp.TraceID == collBarrierID {
		t.barrier <- struct{}{}
		return
	}
	f := collFwd{Tid: -1, Sid: -1, Rate: sp.SampleRate}
	fmt.Sscanf(sp.TraceID, "t%d", &f.Tid)
	if v, ok := sp.Data.Get("sid").(int64); ok {
		f.Sid = int(v)
	}
	if v, ok := sp.Data.Get(types.MetaRefinerySendReason).(string); ok {
		f.Reason = v
	}
	t.mu.Lock()
	t.evs = append(t.evs, f)
	t.mu.Unlock()
	if t.next != nil {
		t.next.EnqueueSpan(sp)
	}
}
func (t *collTx) take() []collFwd {
	t.mu.Lock()
	defer t.mu.Unlock()
	e := t.evs
	t.evs = nil
	return e
}

// gauge-recording metrics (only what checkAlloc stores is read back)
type collMetrics struct {
	metrics.NullMetrics
	mu     sync.Mutex
	gauges map[string]float64
	loops  atomic.Int64 // iterations of the workers' collect() loops that have ended
}

func (m *collMetrics) Gauge(name string, v float64) {
	m.mu.Lock()
	if m.gauges == nil {
		m.gauges = map[string]float64{}
	}
	m.gauges[name] = v
	m.mu.Unlock()
}
func (m *collMetrics) Histogram(name string, v float64) {
	if name == "collector_collect_loop_duration_ms" {
		m.loops.Add(1)
	}
}
func (m *collMetrics) gauge(name string) float64 {
	m.mu.Lock()
	defer m.mu.Unlock()
	return m.gauges[name]
}

// ---------------------------------------------------------------- observation

type collBufEntry struct {
	Tid    int
	Sids   []int
	SendBy int64
}

type collObs struct {
	Now    int64
	Kind   string // span tick eject reload alloc stop
	W      int    // worker the op ran on (span: owner of the trace)
	Fwd    []collFwd
	Left   []int            // traces that left worker W's buffer during this op (sorted)
	LeftW  map[int][]int    // alloc/stop: per worker
	Bufs   [][]collBufEntry // per worker, sorted by tid
	Dec    []int            // per trace number 0..ntr-1: 0 unknown, 1 kept, 2 dropped
	Alloc  uint64           // alloc: heap the code measured
	Max    uint64           // alloc: MaxAlloc configured
	Share  int64
	Forgot []int // traces whose remembered decision disappeared during this op
	Span   *collSpan // span op: the span
	Bytes  int64     // eject: byte target
	Cfg    *collCfg  // reload: the new config
}

type collResult struct {
	In      collInput
	NTr     int
	Owner   []int // trace number -> worker
	Sizes   map[int]int
	Obs     []collObs
	StopErr string
	Stopped bool // the history contained an explicit stop op
	Leak    int  // goroutines alive after shutdown minus goroutines alive before Start
	FloodLost int // flood op: spans of kept flood traces that never reached the transmission
}

func collRules(tab []collRule) *config.RulesBasedSamplerConfig {
	rc := &config.RulesBasedSamplerConfig{}
	for i, r := range tab {
		rule := &config.RulesBasedSamplerRule{Name: fmt.Sprintf("r%d", i), Drop: r.Drop, SampleRate: 1}
		if r.Drop {
			rule.SampleRate = 0
		}
		if r.Cls != nil {
			rule.Conditions = append(rule.Conditions, &config.RulesBasedSamplerCondition{
				Field: "cls", Operator: config.EQ, Value: int64(*r.Cls), Datatype: "int"})
		}
		if r.MinSpans != nil {
			rule.Conditions = append(rule.Conditions, &config.RulesBasedSamplerCondition{
				Field: string(config.NUM_DESCENDANTS), Operator: config.GTE, Value: int64(*r.MinSpans), Datatype: "int"})
		}
		if r.Root != nil {
			rule.Conditions = append(rule.Conditions, &config.RulesBasedSamplerCondition{
				Operator: config.HasRootSpan, Value: *r.Root})
		}
		rc.Rules = append(rc.Rules, rule)
	}
	return rc
}

func collTracesCfg(c collCfg) config.TracesConfig {
	return config.TracesConfig{
		SendTicker:       config.Duration(100 * time.Millisecond),
		SendDelay:        config.Duration(c.SD),
		TraceTimeout:     config.Duration(c.TT),
		SpanLimit:        uint(c.SL),
		MaxExpiredTraces: uint(c.ME),
		MaxBatchSize:     500,
	}
}

func collNTraces(in *collInput) int {
	n := 0
	for _, o := range in.Ops {
		if o.Span != nil && o.Span.Tid+1 > n {
			n = o.Span.Tid + 1
		}
	}
	return n
}

// collRun executes the input on the real collector.
// collOpts lets a scenario put real components around the collector (C36 shutdown sequence).
type collOpts struct {
	GoBefore int                                                     // goroutine baseline (0: measured at entry)
	Next     transmit.Transmission                                   // every forwarded span is also handed to it
	Peer     transmit.Transmission                                   // the collector's PeerTransmission
	MkEvent  func(s *collSpan, data map[string]any) *types.Event     // event of a span (nil: default)
	Finish   func()                                                  // after the collector stopped, before goroutines are counted
}

func collRun(in collInput) (*collResult, error) { return collRunOpts(in, collOpts{}) }

func collRunOpts(in collInput, opts collOpts) (*collResult, error) {
	goBefore := opts.GoBefore
	if goBefore == 0 {
		goBefore = runtime.NumGoroutine()
	}
	if in.Workers < 1 {
		in.Workers = 1
	}
	if len(in.Tables) == 0 {
		in.Tables = [][]collRule{{}}
	}
	kept := in.KeptSize
	if kept == 0 {
		kept = 10000
	}
	tabIdx := func(v int) int {
		if v < 0 {
			v = -v
		}
		return v % len(in.Tables)
	}
	conf := &config.MockConfig{
		GetTracesConfigVal: collTracesCfg(in.Cfg),
		SampleCache: config.SampleCacheConfig{
			KeptSize: kept * uint(in.Workers), DroppedSize: 20000 * uint(in.Workers),
			SizeCheckInterval: config.Duration(10 * time.Second), WorkerCount: uint(in.Workers),
		},
		GetSamplerTypeVal:    collRules(in.Tables[tabIdx(in.Cfg.Ver)]),
		DryRun:               in.Dry,
		AddRuleReasonToTrace: true,
		TraceIdFieldNames:    []string{"trace.trace_id"},
		ParentIdFieldNames:   []string{"trace.parent_id"},
		GetCollectionConfigVal: config.CollectionConfig{
			WorkerCount: in.Workers, IncomingQueueSize: 64, PeerQueueSize: 64,
			ShutdownDelay: config.Duration(time.Millisecond),
		},
	}
	fake := clockwork.NewFakeClockAt(time.Unix(0, in.T0))
	clock := &collClock{Clock: fake}
	clock.now.Store(in.T0)
	tx := &collTx{barrier: make(chan struct{}, 1), next: opts.Next}
	var peerTx transmit.Transmission = &collTx{barrier: make(chan struct{}, 1)}
	if opts.Peer != nil {
		peerTx = opts.Peer
	}
	met := &collMetrics{}
	ps := &pubsub.LocalPubSub{Config: conf, Metrics: met}
	ps.Start()
	sf := &sample.SamplerFactory{Config: conf, Metrics: met, Logger: &logger.NullLogger{}}
	if err := sf.Start(); err != nil {
		return nil, err
	}
	coll := &collect.InMemCollector{
		Config: conf, Clock: clock, Logger: &logger.NullLogger{},
		Tracer: noop.NewTracerProvider().Tracer("verif"), Health: collNopHealth{},
		Transmission: tx, PeerTransmission: peerTx,
		PubSub: ps, Metrics: met, StressRelief: &collect.MockStressReliever{}, SamplerFactory: sf,
		Peers:   peer.NewMockPeers([]string{"api1"}, "api1"),
		Sharder: &sharder.MockSharder{Self: &sharder.TestShard{Addr: "api1"}},
	}
	if err := coll.Start(); err != nil {
		return nil, err
	}
	nw := coll.VerifC01NumWorkers()
	resume := make([]func(), nw)
	park := func() {
		for w := 0; w < nw; w++ {
			resume[w] = coll.VerifC01Park(w)
		}
	}
	unpark := func() {
		for w := 0; w < nw; w++ {
			resume[w]()
		}
	}
	park()
	barrier := func() error {
		sp := &types.Span{TraceID: collBarrierID, Event: &types.Event{Data: types.NewPayload(conf, map[string]any{})}}
		tr := &types.Trace{TraceID: collBarrierID}
		tr.AddSpan(sp)
		coll.VerifC01Barrier(tr)
		select {
		case <-tx.barrier:
			return nil
		case <-time.After(5 * time.Second):
			return fmt.Errorf("sendTraces did not reach the barrier within 5s")
		}
	}

	res := &collResult{In: in, NTr: collNTraces(&in), Sizes: map[int]int{}}
	res.Owner = make([]int, res.NTr)
	for t := 0; t < res.NTr; t++ {
		res.Owner[t] = coll.VerifC01WorkerForTrace(fmt.Sprintf("t%d", t))
	}
	snapshot := func() [][]collBufEntry {
		out := make([][]collBufEntry, nw)
		for w := 0; w < nw; w++ {
			for _, tr := range coll.VerifC01Buffer(w) {
				e := collBufEntry{Tid: -1, SendBy: tr.SendBy.UnixNano()}
				fmt.Sscanf(tr.TraceID, "t%d", &e.Tid)
				for _, sp := range tr.GetSpans() {
					if v, ok := sp.Data.Get("sid").(int64); ok {
						e.Sids = append(e.Sids, int(v))
					}
				}
				sort.Ints(e.Sids)
				out[w] = append(out[w], e)
			}
			sort.Slice(out[w], func(a, b int) bool { return out[w][a].Tid < out[w][b].Tid })
		}
		return out
	}
	decided := map[int]bool{} // traces that left a buffer at least once
	fresh := map[int]bool{}   // traces that left a buffer during the current op
	lastDec := make([]int, res.NTr)
	decisions := func() ([]int, []int) {
		// a drop decision reaches the cuckoo filter through a queue drained by a goroutine every
		// 100µs: wait until every worker's queue is empty so that CheckTrace is stable
		for t0 := time.Now(); time.Since(t0) < 3*time.Second; {
			pending := 0
			for w := 0; w < nw; w++ {
				pending += coll.VerifC01DropQueueLen(w)
			}
			if pending == 0 {
				break
			}
			time.Sleep(50 * time.Microsecond)
		}
		out := make([]int, res.NTr)
		var forgot []int
		for t := 0; t < res.NTr; t++ {
			k, found := coll.VerifC01CheckTrace(res.Owner[t], fmt.Sprintf("t%d", t))
			v := 0
			if found && k {
				v = 1
			} else if found {
				v = 2
			}
			if v == 0 && (lastDec[t] != 0 || fresh[t]) {
				forgot = append(forgot, t)
			}
			out[t] = v
		}
		copy(lastDec, out)
		for t := range fresh {
			delete(fresh, t)
		}
		return out, forgot
	}
	diff := func(before, after []collBufEntry) []int {
		still := map[int]bool{}
		for _, e := range after {
			still[e.Tid] = true
		}
		var left []int
		for _, e := range before {
			if !still[e.Tid] {
				left = append(left, e.Tid)
			}
		}
		return left
	}
	now := in.T0
	prev := snapshot()
	observe := func(o collObs) error {
		if err := barrier(); err != nil {
			return err
		}
		o.Now = now
		o.Fwd = tx.take()
		o.Bufs = snapshot()
		if o.Kind == "alloc" || o.Kind == "stop" || o.Kind == "ltick" {
			o.LeftW = map[int][]int{}
			for w := 0; w < nw; w++ {
				l := diff(prev[w], o.Bufs[w])
				for _, t := range l {
					decided[t], fresh[t] = true, true
				}
				o.LeftW[w] = l
			}
		} else {
			o.Left = diff(prev[o.W], o.Bufs[o.W])
			for _, t := range o.Left {
				decided[t], fresh[t] = true, true
			}
		}
		o.Dec, o.Forgot = decisions()
		prev = o.Bufs
		res.Obs = append(res.Obs, o)
		return nil
	}
	stopped := false
	var runErr error
	for _, op := range in.Ops {
		if op.D > 0 && op.Op != "ltick" {
			now += op.D
			clock.now.Store(now)
		}
		switch op.Op {
		case "span":
			s := op.Span
			if s == nil || s.Tid < 0 {
				continue
			}
			kind := ""
			switch s.Kind {
			case 1:
				kind = "span_event"
			case 2:
				kind = "link"
			}
			data := map[string]any{"sid": int64(s.Sid), "cls": int64(s.Cls), "pad": strings.Repeat("x", s.Pad)}
			ev := &types.Event{Dataset: "ds", Environment: "env", APIKey: "key0123456789abcdefghij"}
			if opts.MkEvent != nil {
				ev = opts.MkEvent(s, data)
			}
			ev.Data = types.NewPayload(conf, data)
			sp := &types.Span{TraceID: fmt.Sprintf("t%d", s.Tid), IsRoot: s.Root, Event: ev}
			sp.Data.MetaAnnotationType = kind
			res.Sizes[s.Sid] = sp.GetDataSize()
			w := res.Owner[s.Tid]
			if s.Via == 0 {
				coll.VerifC01ProcessSpan(w, sp)
			} else {
				// the real ingest path: AddSpan routes by trace id and queues the span; the worker's
				// own loop takes it from the channel and calls processSpan
				unpark()
				var err error
				if s.Via == 1 {
					err = coll.AddSpan(sp)
				} else {
					err = coll.AddSpanFromPeer(sp)
				}
				if err != nil {
					return nil, fmt.Errorf("AddSpan: %v", err)
				}
				for t0 := time.Now(); time.Since(t0) < 5*time.Second; {
					q := 0
					for k := 0; k < nw; k++ {
						q += coll.VerifC01QueueLen(k)
					}
					if q == 0 {
						break
					}
					time.Sleep(20 * time.Microsecond)
				}
				park() // returns when every worker is back in its select: processSpan has finished
				for k, b := range snapshot() { // the worker that really got the span
					for _, e := range b {
						if e.Tid == s.Tid {
							w = k
						}
					}
				}
			}
			if s.Age > 0 {
				sp.ArrivalTime = time.Now().Add(-time.Duration(s.Age))
			}
			runErr = observe(collObs{Kind: "span", W: w, Span: s})
		case "flood":
			// more decided traces than the outgoing queue holds while the upstream is stalled: op.Bytes
			// one-span traces "f<k>" are buffered, decided by late ticks (their decisions are recorded,
			// they leave the buffers, `send` hands them to the queue), then the upstream is released.
			// Every span of a kept flood trace must reach the transmission. No model item: only the count.
			n := int(op.Bytes)
			tx.stall()
			for k := 0; k < n; k++ {
				id := fmt.Sprintf("f%d", k)
				ev := &types.Event{Dataset: "ds", Environment: "env", APIKey: "key0123456789abcdefghij",
					Data: types.NewPayload(conf, map[string]any{"sid": int64(-1 - k), "cls": int64(0)})}
				coll.VerifC01ProcessSpan(coll.VerifC01WorkerForTrace(id), &types.Span{TraceID: id, Event: ev})
			}
			late := time.Unix(0, now+(1<<41))
			for round := 0; round < n+2; round++ {
				busy := false
				for w := 0; w < nw; w++ {
					if len(coll.VerifC01Buffer(w)) > len(prev[w]) {
						busy = true
						coll.VerifC01SendExpired(w, late)
					}
				}
				if !busy {
					break
				}
			}
			keptN := 0
			for k := 0; k < n; k++ {
				id := fmt.Sprintf("f%d", k)
				if kept, found := coll.VerifC01CheckTrace(coll.VerifC01WorkerForTrace(id), id); found && kept {
					keptN++
				}
			}
			tx.release()
			if err := barrier(); err != nil {
				return nil, err
			}
			got := 0
			var rest []collFwd
			for _, f := range tx.take() {
				if f.Tid < 0 {
					got++
				} else {
					rest = append(rest, f)
				}
			}
			tx.mu.Lock()
			tx.evs = append(rest, tx.evs...)
			tx.mu.Unlock()
			if in.Dry {
				keptN = n
			}
			if keptN > got {
				res.FloodLost += keptN - got
			}
			prev = snapshot()
		case "tick":
			w := ((op.W % nw) + nw) % nw
			coll.VerifC01SendExpired(w, time.Unix(0, now))
			runErr = observe(collObs{Kind: "tick", W: w})
		case "tickspan":
			// a send tick IMMEDIATELY followed by a span of a trace the tick has just decided: no
			// waiting for the sender goroutine nor for the dropped-trace filter's queue in between
			// (the decision is fresh: well within the retention premise)
			w := ((op.W % nw) + nw) % nw
			s := op.Span
			if s == nil {
				continue
			}
			coll.VerifC01SendExpired(w, time.Unix(0, now))
			mid := snapshot()
			left := diff(prev[w], mid[w])
			sc := *s
			if len(left) > 0 {
				sc.Tid = left[sc.Tid%len(left)]
			}
			sc.Via, sc.Age = 0, 0
			data := map[string]any{"sid": int64(sc.Sid), "cls": int64(sc.Cls), "pad": strings.Repeat("x", sc.Pad)}
			ev := &types.Event{Dataset: "ds", Environment: "env", APIKey: "key0123456789abcdefghij"}
			if opts.MkEvent != nil {
				ev = opts.MkEvent(&sc, data)
			}
			ev.Data = types.NewPayload(conf, data)
			sp := &types.Span{TraceID: fmt.Sprintf("t%d", sc.Tid), IsRoot: sc.Root, Event: ev}
			res.Sizes[sc.Sid] = sp.GetDataSize()
			ws := res.Owner[sc.Tid]
			coll.VerifC01ProcessSpan(ws, sp)
			// observation of the tick part: buffers as snapshotted, decisions as after the whole op
			if err := barrier(); err != nil {
				return nil, err
			}
			all := tx.take()
			var fwdTick, fwdSpan []collFwd
			for _, f := range all {
				if f.Sid == sc.Sid {
					fwdSpan = append(fwdSpan, f)
				} else {
					fwdTick = append(fwdTick, f)
				}
			}
			for _, t := range left {
				decided[t], fresh[t] = true, true
			}
			tickObs := collObs{Kind: "tick", W: w, Now: now, Fwd: fwdTick, Left: left, Bufs: mid}
			prev = mid
			// the span part, observed as usual (waits for a stable CheckTrace)
			tx.mu.Lock()
			tx.evs = append(fwdSpan, tx.evs...)
			tx.mu.Unlock()
			res.Obs = append(res.Obs, tickObs)
			ti := len(res.Obs) - 1
			for k, b := range snapshot() {
				for _, e := range b {
					if e.Tid == sc.Tid {
						ws = k
					}
				}
			}
			runErr = observe(collObs{Kind: "span", W: ws, Span: &sc})
			if runErr == nil {
				// a decision can only be evicted by a Record, i.e. during the tick part
				last := &res.Obs[len(res.Obs)-1]
				res.Obs[ti].Dec = append([]int{}, last.Dec...)
				res.Obs[ti].Forgot, last.Forgot = last.Forgot, nil
			}
		case "ltick":
			// the REAL ticker branch of collect(): every worker is resumed, the fake clock behind the
			// tickers is advanced by one SendTicker period (each ticker fires exactly once), and each
			// worker runs sendExpiredTracesInCache(Clock.Now()) with Clock.Now() = this op's instant
			// The workers are resumed FIRST and left to go idle in their select (each one's paused loop
			// iteration has ended: loop-duration histogram), and only then does time pass: the instant
			// of the tick is later than the instant at which the worker started waiting.
			loops0 := met.loops.Load()
			unpark()
			for t0 := time.Now(); met.loops.Load() < loops0+int64(nw) && time.Since(t0) < 2*time.Second; {
				time.Sleep(20 * time.Microsecond)
			}
			time.Sleep(300 * time.Microsecond)
			if op.D > 0 {
				now += op.D
			} else {
				now++
			}
			clock.now.Store(now)
			fake.Advance(time.Duration(conf.GetTracesConfig().SendTicker))
			for t0 := time.Now(); time.Since(t0) < 5*time.Second; {
				done := true
				for k := 0; k < nw; k++ {
					done = done && coll.VerifC01HealthAt(k) == now
				}
				if done {
					break
				}
				time.Sleep(20 * time.Microsecond)
			}
			park()
			runErr = observe(collObs{Kind: "ltick"})
		case "eject":
			w := ((op.W % nw) + nw) % nw
			coll.VerifC01SendEarly(w, int(op.Bytes))
			runErr = observe(collObs{Kind: "eject", W: w, Bytes: op.Bytes})
		case "reload":
			if op.Cfg == nil {
				continue
			}
			conf.Mux.Lock()
			conf.GetTracesConfigVal = collTracesCfg(*op.Cfg)
			conf.GetSamplerTypeVal = collRules(in.Tables[tabIdx(op.Cfg.Ver)])
			conf.Mux.Unlock()
			conf.Reload()
			ok := false
			for k := 0; k < 20000 && !ok; k++ {
				ok = true
				for w := 0; w < nw; w++ {
					ok = ok && coll.VerifC01ReloadPending(w)
				}
				if !ok {
					time.Sleep(50 * time.Microsecond)
				}
			}
			if !ok {
				return nil, fmt.Errorf("reload signal did not reach every worker")
			}
			unpark()
			for k := 0; k < 20000; k++ {
				pend := false
				for w := 0; w < nw; w++ {
					pend = pend || coll.VerifC01ReloadPending(w)
				}
				if !pend {
					break
				}
				time.Sleep(50 * time.Microsecond)
			}
			park() // returns once every worker is back in its select, i.e. the reload branch finished
			runErr = observe(collObs{Kind: "reload", Cfg: op.Cfg})
		case "alloc":
			o, err := collAllocOp(coll, conf, met, op, nw, unpark, park)
			if err != nil {
				return nil, err
			}
			runErr = observe(o)
		case "stop":
			if stopped {
				continue
			}
			stopped = true
			if op.Inflight {
				// shutdown while the workers are in the middle of their send tick: everything buffered is
				// due (now + 2^40), the workers are resumed, their tickers fire, and Stop is called at once
				now += 1 << 40
				clock.now.Store(now)
				unpark()
				fake.Advance(time.Duration(conf.GetTracesConfig().SendTicker))
				done := make(chan error, 1)
				go func() { done <- coll.Stop() }() // a panic here or in a worker kills the process: the parent reports it
				res.StopErr = collStopWait(done)
				res.Stopped = true
				break
			}
			if op.Stall {
				// Stop while decided traces are still in the outgoing queue: the upstream is stalled, a
				// final late tick on every worker decides what is due (now + 2^40 ns), and Stop is called
				// at once; the upstream is released only after Stop is under way.
				tx.stall()
				now += 1 << 40
				clock.now.Store(now)
				tickObs := collObs{Kind: "ltick", Now: now, LeftW: map[int][]int{}}
				for w := 0; w < nw; w++ {
					coll.VerifC01SendExpired(w, time.Unix(0, now))
				}
				tickObs.Bufs = snapshot()
				for w := 0; w < nw; w++ {
					tickObs.LeftW[w] = diff(prev[w], tickObs.Bufs[w])
					for _, t := range tickObs.LeftW[w] {
						decided[t], fresh[t] = true, true
					}
				}
				prev = tickObs.Bufs
				res.Obs = append(res.Obs, tickObs)
				ti := len(res.Obs) - 1
				done := collStopAsync(coll, unpark)
				time.Sleep(3 * time.Millisecond)
				tx.release()
				res.StopErr = collStopWait(done)
				// everything forwarded from here on belongs to the decisions of that final tick
				res.Obs[ti].Fwd = tx.take()
				dec, forgot := decisions()
				res.Obs[ti].Dec, res.Obs[ti].Forgot = dec, forgot
				o := collObs{Kind: "stop", Now: now, Bufs: snapshot(), LeftW: map[int][]int{}, Dec: append([]int{}, dec...)}
				for w := 0; w < nw; w++ {
					o.LeftW[w] = diff(prev[w], o.Bufs[w])
				}
				prev = o.Bufs
				res.Stopped = true
				res.Obs = append(res.Obs, o)
				break
			}
			res.StopErr = collStop(coll, unpark, tx)
			o := collObs{Kind: "stop", Now: now, Fwd: tx.take(), Bufs: snapshot(), LeftW: map[int][]int{}}
			for w := 0; w < nw; w++ {
				o.LeftW[w] = diff(prev[w], o.Bufs[w])
				for _, t := range o.LeftW[w] {
					decided[t] = true
				}
			}
			o.Dec, o.Forgot = decisions()
			prev = o.Bufs
			res.Stopped = true
			res.Obs = append(res.Obs, o)
		}
		if runErr != nil {
			return nil, runErr
		}
		if stopped {
			break
		}
	}
	if in.Flush && !stopped {
		// late ticks: far beyond every deadline, round-robin over the workers, until all buffers
		// are empty (bounded so a collector that never drains still terminates)
		now += 1 << 50
		clock.now.Store(now)
		for round := 0; round < 200; round++ {
			empty := true
			for w := 0; w < nw; w++ {
				if len(prev[w]) > 0 {
					empty = false
					coll.VerifC01SendExpired(w, time.Unix(0, now))
					if err := observe(collObs{Kind: "tick", W: w}); err != nil {
						return nil, err
					}
				}
			}
			if empty {
				break
			}
		}
	}
	if !stopped {
		res.StopErr = collStop(coll, unpark, tx)
	}
	sf.Stop()
	ps.Stop()
	if opts.Finish != nil {
		opts.Finish()
	}
	for t0 := time.Now(); time.Since(t0) < 500*time.Millisecond; {
		res.Leak = runtime.NumGoroutine() - goBefore
		if res.Leak <= 0 {
			break
		}
		time.Sleep(200 * time.Microsecond)
	}
	if res.Leak < 0 {
		res.Leak = 0
	}
	return res, nil
}

func collStop(coll *collect.InMemCollector, unpark func(), tx *collTx) string {
	return collStopWait(collStopAsync(coll, unpark))
}

func collStopAsync(coll *collect.InMemCollector, unpark func()) chan error {
	unpark()
	done := make(chan error, 1)
	go func() {
		defer func() {
			if r := recover(); r != nil {
				done <- fmt.Errorf("Stop panicked: %v", r)
			}
		}()
		done <- coll.Stop()
	}()
	return done
}

func collStopWait(done chan error) string {
	select {
	case err := <-done:
		if err != nil {
			return err.Error()
		}
		return ""
	case <-time.After(10 * time.Second):
		return "Stop did not return within 10s"
	}
}

// ---------------------------------------------------------------- rendering as Gallina

var collReasonCode = map[string]uint64{
	"":                                0,
	collect.TraceSendGotRoot:          1,
	collect.TraceSendExpired:          2,
	collect.TraceSendSpanLimit:        3,
	collect.TraceSendEjectedMemsize:   4,
	collect.TraceSendLateSpan:         5,
	collect.TraceSendEjectedFull:      6,
}

func collCfgCoq(c collCfg, ntab int) string {
	v := c.Ver
	if v < 0 {
		v = -v
	}
	return fmt.Sprintf("{| c_ver := %s; c_tt := %s; c_sd := %s; c_sl := %s; c_me := %s |}",
		cq.N(uint64(v%ntab)), cq.Z(c.TT), cq.Z(c.SD), cq.Z(int64(c.SL)), cq.Z(int64(c.ME)))
}

func collOptN(p *int) string {
	if p == nil {
		return cq.None()
	}
	return cq.Some(cq.N(uint64(*p)))
}

func collTablesCoq(tabs [][]collRule) string {
	var ts []string
	for _, tab := range tabs {
		var rs []string
		for _, r := range tab {
			root := cq.None()
			if r.Root != nil {
				root = cq.Some(cq.Bool(*r.Root))
			}
			rs = append(rs, fmt.Sprintf("{| r_cls := %s; r_min := %s; r_root := %s; r_drop := %s |}",
				collOptN(r.Cls), collOptN(r.MinSpans), root, cq.Bool(r.Drop)))
		}
		ts = append(ts, cq.List(rs))
	}
	return cq.List(ts)
}

func collFwdCoq(fs []collFwd) string {
	sort.Slice(fs, func(a, b int) bool {
		if fs[a].Tid != fs[b].Tid {
			return fs[a].Tid < fs[b].Tid
		}
		return fs[a].Sid < fs[b].Sid
	})
	var out []string
	for _, f := range fs {
		rc, ok := collReasonCode[f.Reason]
		if !ok {
			rc = 99
		}
		out = append(out, fmt.Sprintf("(%s, %s, %s)", cq.N(uint64(f.Tid+1)-1), cq.N(uint64(f.Sid)), cq.N(rc)))
	}
	return cq.List(out)
}

func collIntsN(xs []int) string {
	s := make([]string, len(xs))
	for i, x := range xs {
		s[i] = cq.N(uint64(x))
	}
	return cq.List(s)
}

func collBufsCoq(bufs [][]collBufEntry) string {
	var ws []string
	for _, b := range bufs {
		var es []string
		for _, e := range b {
			es = append(es, fmt.Sprintf("(%s, %s, %s)", cq.N(uint64(e.Tid)), collIntsN(e.Sids), cq.Z(e.SendBy)))
		}
		ws = append(ws, cq.List(es))
	}
	return cq.List(ws)
}

// collCoq prints the whole case as a term of type Monitor.CollCase_coll.ccase.
func collCoq(r *collResult) string {
	in := r.In
	nw := len(r.Obs[0].Bufs)
	var items []string
	oi := 0
	spanIdx := 0
	_ = spanIdx
	for oi = 0; oi < len(r.Obs); oi++ {
		o := r.Obs[oi]
		var opc string
		switch o.Kind {
		case "span":
			s := o.Span
			opc = fmt.Sprintf("(ISpan %s {| s_id := %s; s_tid := %s; s_root := %s; s_cls := %s; s_size := %s; s_age := %s |})",
				cq.N(uint64(o.W)), cq.N(uint64(s.Sid)), cq.N(uint64(s.Tid)), cq.Bool(s.Root), cq.N(uint64(s.Cls)),
				cq.Z(int64(r.Sizes[s.Sid])), cq.Z(s.Age))
		case "tick":
			opc = fmt.Sprintf("(ITick %s %s)", cq.N(uint64(o.W)), collIntsN(o.Left))
		case "eject":
			opc = fmt.Sprintf("(IEject %s %s %s)", cq.N(uint64(o.W)), cq.Z(o.Bytes), collIntsN(o.Left))
		case "reload":
			opc = fmt.Sprintf("(IReload %s)", collCfgCoq(*o.Cfg, len(in.Tables)))
		case "alloc":
			var ls []string
			for w := 0; w < nw; w++ {
				ls = append(ls, collIntsN(o.LeftW[w]))
			}
			opc = fmt.Sprintf("(IAlloc %s %s %s)", cq.Z(int64(o.Alloc)), cq.Z(int64(o.Max)), cq.List(ls))
		case "ltick":
			var ls []string
			for w := 0; w < nw; w++ {
				ls = append(ls, collIntsN(o.LeftW[w]))
			}
			opc = fmt.Sprintf("(ITickAll %s)", cq.List(ls))
		case "stop":
			var ls []string
			for w := 0; w < nw; w++ {
				ls = append(ls, collIntsN(o.LeftW[w]))
			}
			opc = fmt.Sprintf("(IStop %s)", cq.List(ls))
		}
		items = append(items, fmt.Sprintf("{| i_now := %s; i_op := %s; i_forgot := %s; o_fwd := %s; o_bufs := %s; o_dec := %s |}",
			cq.Z(o.Now), opc, collIntsN(o.Forgot), collFwdCoq(o.Fwd), collBufsCoq(o.Bufs), collIntsN(o.Dec)))
	}
	flush := 0
	if in.Flush {
		flush = 1
	}
	return fmt.Sprintf("{| k_workers := %s; k_dry := %s; k_kept := %s; k_stop := %s; k_leak := %s; k_flood_lost := %s; k_cfg := %s; k_tables := %s; k_ntr := %s; k_flush := %s; k_items := %s |}",
		cq.N(uint64(nw)), cq.Bool(in.Dry), cq.N(uint64(collKept(in))), cq.N(collStopCode(r)), cq.N(uint64(r.Leak)), cq.N(uint64(r.FloodLost)), collCfgCoq(in.Cfg, len(in.Tables)), collTablesCoq(in.Tables),
		cq.N(uint64(r.NTr)), cq.N(uint64(flush)), cq.List(items))
}

// collShrink proposes smaller inputs, big cuts first (the check takes the first candidate that still
// fails): keep a prefix, drop a block, drop one op, one worker, drop rules. The number of rounds is
// capped through a counter carried in the input so that a failing run stays short.
func collShrink(raw json.RawMessage) []json.RawMessage {
	var in collInput
	if json.Unmarshal(raw, &in) != nil {
		return nil
	}
	maxRounds := 3
	if in.ShrinkMax > 0 {
		maxRounds = in.ShrinkMax
	}
	if in.ShrinkRound >= maxRounds {
		return nil
	}
	in.ShrinkRound++
	var out []json.RawMessage
	seen := map[string]bool{}
	add := func(c collInput) {
		b, _ := json.Marshal(c)
		if !seen[string(b)] && len(out) < 64 {
			seen[string(b)] = true
			out = append(out, b)
		}
	}
	n := len(in.Ops)
	dropBlock := func(i, j int) { // remove ops[i:j], keeping the absolute times of the later ops
		if i < 0 || j > n || i >= j {
			return
		}
		c := in
		c.Ops = append(append([]collOp{}, in.Ops[:i]...), in.Ops[j:]...)
		if j < n {
			var d int64
			for k := i; k < j; k++ {
				d += in.Ops[k].D
			}
			c.Ops[i].D += d
		}
		add(c)
	}
	if in.Flush {
		c := in
		c.Flush = false
		add(c)
	}
	for _, frac := range []int{2, 3, 4, 6} { // halves, thirds, quarters, sixths
		sz := n / frac
		if sz < 2 {
			continue
		}
		for i := n - sz; i >= 0; i -= sz {
			dropBlock(i, i+sz)
		}
	}
	for i := n - 1; i >= 0; i-- {
		dropBlock(i, i+1)
	}
	if in.Workers > 1 {
		c := in
		c.Workers = 1
		add(c)
	}
	for ti := range in.Tables {
		for ri := range in.Tables[ti] {
			c := in
			c.Tables = append([][]collRule{}, in.Tables...)
			c.Tables[ti] = append(append([]collRule{}, in.Tables[ti][:ri]...), in.Tables[ti][ri+1:]...)
			add(c)
		}
	}
	return out
}

var _ = rand.Intn

// collAllocOp runs the real checkAlloc once with MaxAlloc = (heap as measured now) - op.Bytes
// (op.Bytes <= 0: MaxAlloc far above the heap, nothing must happen). The heap figure the code
// itself measured is read back from the memory_heap_allocation gauge and handed to the model.
func collAllocOp(coll *collect.InMemCollector, conf *config.MockConfig, met *collMetrics, op collOp, nw int,
	unpark, park func()) (collObs, error) {
	pre := collHeapNow()
	var max uint64
	if op.Bytes > 0 && uint64(op.Bytes) < pre {
		max = pre - uint64(op.Bytes)
	} else {
		max = pre * 8
	}
	conf.Mux.Lock()
	conf.GetCollectionConfigVal.MaxAlloc = config.MemorySize(max)
	conf.Mux.Unlock()
	unpark()
	coll.VerifC07CheckAlloc()
	park()
	conf.Mux.Lock()
	conf.GetCollectionConfigVal.MaxAlloc = 0
	conf.Mux.Unlock()
	alloc := uint64(met.gauge(collect.NUMERATOR_MEMORY_HEAP_ALLOC))
	return collObs{Kind: "alloc", Alloc: alloc, Max: max}, nil
}

func collHeapNow() uint64 {
	s := []rtmetrics.Sample{{Name: metrics.RtMetricNameMemory}}
	rtmetrics.Read(s)
	return s[0].Value.Uint64()
}

const collEmptyCase = "{| k_workers := 1%N; k_dry := false; k_kept := 10000%N; k_stop := 0%N; k_leak := 0%N; k_flood_lost := 0%N; k_cfg := {| c_ver := 0%N; c_tt := 0%Z; c_sd := 0%Z; c_sl := 0%Z; c_me := 0%Z |}; k_tables := [[]]; k_ntr := 0%N; k_flush := 0%N; k_items := [] |}"

func collTags(r *collResult) []string {
	tags := []string{fmt.Sprintf("workers:%d", len(r.Obs[0].Bufs))}
	seen := map[string]bool{}
	add := func(s string) {
		if !seen[s] {
			seen[s] = true
			tags = append(tags, s)
		}
	}
	if r.In.Dry {
		add("dryrun")
	}
	for _, o := range r.Obs {
		add("op:" + o.Kind)
		if o.Kind == "span" && len(o.Fwd) > 0 {
			add("late-span-forwarded")
		}
		if o.Kind == "tick" && len(o.Left) > 0 {
			add("tick-decides")
		}
		if o.Kind == "ltick" {
			for _, l := range o.LeftW {
				if len(l) > 0 {
					add("real-ticker-decides")
				}
			}
		}
		if o.Kind == "eject" && len(o.Left) > 0 {
			add("eject-decides")
		}
		if len(o.Forgot) > 0 {
			add("decision-forgotten")
		}
	}
	return tags
}

func collSummary(r *collResult) any {
	var h []string
	for _, o := range r.Obs {
		h = append(h, fmt.Sprintf("%s@%d w%d left=%v fwd=%d", o.Kind, o.Now-r.In.T0, o.W, o.Left, len(o.Fwd)))
	}
	return map[string]any{"workers": r.In.Workers, "dry": r.In.Dry, "cfg": r.In.Cfg, "history": h, "stop_err": r.StopErr}
}

func collKept(in collInput) uint {
	if in.KeptSize == 0 {
		return 10000
	}
	return in.KeptSize
}

// 0: no explicit stop in the history; 1: Stop returned nil; 2: Stop returned an error or hung
func collStopCode(r *collResult) uint64 {
	if !r.Stopped {
		return 0
	}
	if r.StopErr != "" {
		return 2
	}
	return 1
}
