package drive

import (
	"fmt"
	"math/rand"
	"net/http/httptest"
	"strings"

	cq "github.com/honeycombio/refinery/verifharness/coqfmt"
)

// C14, route level: classic-key POSTs to /1/events/<encoded dataset> through the REAL router
// (route.Router.LnS: gorilla mux on the encoded path, middlewares, event handler,
// getDatasetFromRequest), reusing family resp's rig (harness/drive/util_resp.go). The span that
// reaches the collector double carries the dataset the sampler selection will see.

var c14RouteNames = []string{"checkout+payments", "a+b c", "a b", "a/b", "caf\u00e9", "plain", "x%y", "100%", "+", "a%2Bb", "sp ace+plus/slash"}

// one of the valid encodings of a dataset name as a path segment
func c14Encode(r *rand.Rand, name string) string {
	var b strings.Builder
	for i := 0; i < len(name); i++ {
		c := name[i]
		unreserved := c >= 'a' && c <= 'z' || c >= 'A' && c <= 'Z' || c >= '0' && c <= '9' || c == '-' || c == '_' || c == '.' || c == '~'
		raw := unreserved || c == '+'
		if raw && r.Intn(4) > 0 {
			b.WriteByte(c)
			continue
		}
		if r.Intn(2) == 0 {
			fmt.Fprintf(&b, "%%%02X", c)
		} else {
			fmt.Fprintf(&b, "%%%02x", c)
		}
	}
	return b.String()
}

func c14GenRoute(r *rand.Rand) c14Input {
	in := c14Input{}
	for k := 0; k < 3+r.Intn(4); k++ {
		in.RouteSegments = append(in.RouteSegments, c14Encode(r, c14RouteNames[r.Intn(len(c14RouteNames))]))
	}
	return in
}

func c14RunRoute(in c14Input) (Case, error) {
	rig, err := respGetRig("incoming")
	if err != nil {
		return Case{}, err
	}
	var os, human []string
	plus := false
	for i, seg := range in.RouteSegments {
		rig.reset()
		if seg == "" || strings.ContainsAny(seg, "/ ?#") {
			return Case{}, fmt.Errorf("segment %q is not a single encoded path segment", seg)
		}
		req := httptest.NewRequest("POST", "/1/events/"+seg, strings.NewReader(fmt.Sprintf(`{"trace.trace_id":"c14-route-%d","n":%d}`, i, i)))
		req.Header.Set("X-Honeycomb-Team", "0123456789abcdef0123456789abcdef")
		req.Header.Set("Content-Type", "application/json")
		w := newRespWriter()
		rig.handler.ServeHTTP(w, req)
		seen := "None"
		rig.coll.mu.Lock()
		if n := len(rig.coll.attempts); n > 0 {
			seen = cq.Some(c14Bytes(rig.coll.attempts[n-1].Dataset))
			human = append(human, fmt.Sprintf("/1/events/%s -> status %d, collector sees dataset %q", seg, w.effStatus(), rig.coll.attempts[n-1].Dataset))
		} else {
			human = append(human, fmt.Sprintf("/1/events/%s -> status %d, nothing reached the collector", seg, w.effStatus()))
		}
		rig.coll.mu.Unlock()
		os = append(os, fmt.Sprintf("(Build_robs14 %s %s)", c14Bytes(seg), seen))
		if strings.Contains(seg, "+") {
			plus = true
		}
	}
	tags := []string{"route-level"}
	if plus {
		tags = append(tags, "literal-plus-in-path")
	}
	coq := fmt.Sprintf("(Build_case [] [] [] [] %s)", cq.List(os))
	return Case{Coq: coq, Key: strings.Join(in.RouteSegments, " "), Nontriv: plus, Tags: tags,
		Summary: map[string]any{"route": human}}, nil
}
