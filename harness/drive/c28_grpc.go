package drive

// C28: gRPC part of the request fuzz. The incoming router is started with its gRPC server on a loopback
// port; raw (mutated) protobuf bytes are sent to the OTLP trace and logs Export methods through a codec
// that does not touch them. There is no panic catcher on this path: a handler panic kills the child.

import (
	"context"
	"fmt"
	"math/rand"
	"net"
	"time"

	collectorlogs "go.opentelemetry.io/proto/otlp/collector/logs/v1"
	collectortrace "go.opentelemetry.io/proto/otlp/collector/trace/v1"
	common "go.opentelemetry.io/proto/otlp/common/v1"
	logs "go.opentelemetry.io/proto/otlp/logs/v1"
	resource "go.opentelemetry.io/proto/otlp/resource/v1"
	trace "go.opentelemetry.io/proto/otlp/trace/v1"
	"google.golang.org/grpc"
	"google.golang.org/grpc/credentials/insecure"
	"google.golang.org/grpc/metadata"
	"google.golang.org/grpc/status"
	"google.golang.org/protobuf/proto"
)

const (
	c28GrpcTrace = "/opentelemetry.proto.collector.trace.v1.TraceService/Export"
	c28GrpcLogs  = "/opentelemetry.proto.collector.logs.v1.LogsService/Export"
)

type c28RawCodec struct{}

func (c28RawCodec) Marshal(v any) ([]byte, error) { return *(v.(*[]byte)), nil }
func (c28RawCodec) Unmarshal(data []byte, v any) error {
	*(v.(*[]byte)) = append([]byte{}, data...)
	return nil
}
func (c28RawCodec) Name() string { return "proto" }

func c28FreePort() string {
	l, err := net.Listen("tcp", "127.0.0.1:0")
	if err != nil {
		return "127.0.0.1:0"
	}
	defer l.Close()
	return l.Addr().String()
}

func c28AnyVal(r *rand.Rand) *common.AnyValue {
	switch r.Intn(7) {
	case 0:
		return &common.AnyValue{Value: &common.AnyValue_StringValue{StringValue: []string{"", "x", "tr\xc3\xa4ce", string(make([]byte, 300))}[r.Intn(4)]}}
	case 1:
		return &common.AnyValue{Value: &common.AnyValue_IntValue{IntValue: []int64{0, -1, 1 << 62, -(1 << 63)}[r.Intn(4)]}}
	case 2:
		return &common.AnyValue{Value: &common.AnyValue_DoubleValue{DoubleValue: []float64{0, -1.5, 1e308}[r.Intn(3)]}}
	case 3:
		return &common.AnyValue{Value: &common.AnyValue_BoolValue{BoolValue: r.Intn(2) == 0}}
	case 4:
		return &common.AnyValue{Value: &common.AnyValue_BytesValue{BytesValue: []byte{0, 255, 1}}}
	case 5:
		return &common.AnyValue{Value: &common.AnyValue_ArrayValue{ArrayValue: &common.ArrayValue{Values: []*common.AnyValue{nil, {}, {Value: &common.AnyValue_KvlistValue{KvlistValue: &common.KeyValueList{Values: []*common.KeyValue{{Key: "", Value: nil}}}}}}}}}
	default:
		return nil
	}
}

func c28Attrs(r *rand.Rand) []*common.KeyValue {
	var out []*common.KeyValue
	for i := r.Intn(4); i > 0; i-- {
		out = append(out, &common.KeyValue{Key: []string{"", "k", "service.name", "meta.refinery.probe", "trace.trace_id", "sampleRate", "SampleRate"}[r.Intn(7)], Value: c28AnyVal(r)})
	}
	if r.Intn(6) == 0 {
		out = append(out, nil)
	}
	return out
}

func c28IDBytes(r *rand.Rand, n int) []byte {
	switch r.Intn(5) {
	case 0:
		return nil
	case 1:
		return make([]byte, n)
	case 2:
		b := make([]byte, n+r.Intn(5)-2)
		r.Read(b)
		return b
	default:
		b := make([]byte, n)
		r.Read(b)
		return b
	}
}

// c28GenGrpc returns a request for the gRPC Export methods: a structurally valid message with boundary
// field values, byte-mutated 50 % of the time.
func c28GenGrpc(r *rand.Rand) c28Req {
	q := c28Req{Router: "grpc", Method: "POST", Hdr: map[string]string{}}
	if r.Intn(8) > 0 {
		q.Hdr["x-honeycomb-team"] = []string{crossLegacyKey, "", "x", crossLegacyKey2}[r.Intn(4)]
	}
	if r.Intn(3) > 0 {
		q.Hdr["x-honeycomb-dataset"] = []string{"ds", "", "a/b"}[r.Intn(3)]
	}
	var body []byte
	if r.Intn(3) > 0 {
		q.Path = c28GrpcTrace
		var spans []*trace.Span
		for i := r.Intn(4); i >= 0; i-- {
			sp := &trace.Span{TraceId: c28IDBytes(r, 16), SpanId: c28IDBytes(r, 8), ParentSpanId: c28IDBytes(r, 8), Name: []string{"", "n"}[r.Intn(2)],
				Kind:              trace.Span_SpanKind(r.Intn(9) - 1),
				StartTimeUnixNano: []uint64{0, 1, 1 << 63, 1<<64 - 1, 1700000000000000000}[r.Intn(5)],
				EndTimeUnixNano:   []uint64{0, 1, 1<<64 - 1, 1700000000000000001}[r.Intn(4)],
				Attributes:        c28Attrs(r)}
			if r.Intn(3) == 0 {
				sp.Events = []*trace.Span_Event{nil, {Name: "e", TimeUnixNano: 1<<64 - 1, Attributes: c28Attrs(r)}}
			}
			if r.Intn(3) == 0 {
				sp.Links = []*trace.Span_Link{{TraceId: c28IDBytes(r, 16), SpanId: c28IDBytes(r, 8), Attributes: c28Attrs(r)}, nil}
			}
			if r.Intn(3) == 0 {
				sp.Status = &trace.Status{Code: trace.Status_StatusCode(r.Intn(5) - 1), Message: "m"}
			}
			spans = append(spans, sp)
		}
		if r.Intn(6) == 0 {
			spans = append(spans, nil)
		}
		req := &collectortrace.ExportTraceServiceRequest{ResourceSpans: []*trace.ResourceSpans{{
			Resource:   &resource.Resource{Attributes: c28Attrs(r)},
			ScopeSpans: []*trace.ScopeSpans{{Scope: &common.InstrumentationScope{Name: "s", Attributes: c28Attrs(r)}, Spans: spans}},
		}}}
		if r.Intn(6) == 0 {
			req.ResourceSpans = append(req.ResourceSpans, nil, &trace.ResourceSpans{ScopeSpans: []*trace.ScopeSpans{nil, {}}})
		}
		body, _ = proto.Marshal(req)
	} else {
		q.Path = c28GrpcLogs
		req := &collectorlogs.ExportLogsServiceRequest{ResourceLogs: []*logs.ResourceLogs{{
			Resource: &resource.Resource{Attributes: c28Attrs(r)},
			ScopeLogs: []*logs.ScopeLogs{{LogRecords: []*logs.LogRecord{
				{TimeUnixNano: 1<<64 - 1, SeverityText: "x", Body: c28AnyVal(r), Attributes: c28Attrs(r), TraceId: c28IDBytes(r, 16), SpanId: c28IDBytes(r, 8)}, nil}}},
		}}}
		body, _ = proto.Marshal(req)
	}
	if r.Intn(2) == 0 {
		body = c28Mutate(r, body)
	}
	q.Body = c28B64(body)
	return q
}

type c28GrpcClient struct {
	conn *grpc.ClientConn
}

func c28DialGrpc(addr string) (*c28GrpcClient, error) {
	conn, err := grpc.NewClient(addr, grpc.WithTransportCredentials(insecure.NewCredentials()))
	if err != nil {
		return nil, err
	}
	return &c28GrpcClient{conn: conn}, nil
}

// Call returns 1000 + the gRPC status code (1000 = OK), or 1999 when the call could not be made.
func (c *c28GrpcClient) Call(method string, hdr map[string]string, body []byte) int {
	ctx, cancel := context.WithTimeout(context.Background(), 5*time.Second)
	defer cancel()
	for k, v := range hdr {
		ctx = metadata.AppendToOutgoingContext(ctx, k, v)
	}
	var resp []byte
	err := c.conn.Invoke(ctx, method, &body, &resp, grpc.ForceCodec(c28RawCodec{}))
	if err == nil {
		return 1000
	}
	if st, ok := status.FromError(err); ok {
		return 1000 + int(st.Code())
	}
	return 1999
}

func (c *c28GrpcClient) Close() { c.conn.Close() }

var _ = fmt.Sprintf
