package drive

import (
	"fmt"
	"math/rand"
	"sync"
	"time"

	dynsampler "github.com/honeycombio/dynsampler-go"
	"github.com/honeycombio/refinery/metrics"
	"github.com/honeycombio/refinery/sample"
	cq "github.com/honeycombio/refinery/verifharness/coqfmt"
)

// C33, recorder phase: the real sample.dynsamplerMetricsRecorder (through the verif hook) feeding the
// real MultiMetrics from a scripted dynsampler whose internal counters only grow. Several
// goroutines call RecordMetrics on the one shared recorder.
//   seq    : grow the source, one call, read the store
//   forced : goroutine A is parked INSIDE GetMetrics (it has its snapshot); the source grows; goroutine
//            B calls RecordMetrics. With the snapshot taken under the recorder's mutex B waits for A;
//            if the snapshot is taken before the mutex B overtakes A and A later applies a stale
//            snapshot. The store is read while A is still parked and again when both are done.
//   free   : W goroutines call RecordMetrics repeatedly while growing the source; then one seq call.

type c33RecStep struct {
	Kind    string   `json:"kind"` // seq forced free
	Grow    [3]int64 `json:"grow"`
	Workers int      `json:"workers,omitempty"`
	Calls   int      `json:"calls,omitempty"`
}
type c33Rec struct {
	Init  [3]int64     `json:"init"`
	Steps []c33RecStep `json:"steps"`
}

var c33RecNames = [3]string{"a_count", "b_count", "g_size"} // two counters and a gauge (by suffix)

type c33Sampler struct {
	dynsampler.Sampler
	mu      sync.Mutex
	vals    [3]int64
	snaps   [][3]int64
	park    chan struct{} // when set, the next GetMetrics call parks on it after taking its snapshot
	entered chan int      // index of the snapshot handed out
}

func (s *c33Sampler) GetMetrics(prefix string) map[string]int64 {
	s.mu.Lock()
	snap := s.vals
	s.snaps = append(s.snaps, snap)
	idx := len(s.snaps) - 1
	park := s.park
	s.park = nil
	s.mu.Unlock()
	select {
	case s.entered <- idx:
	default:
	}
	if park != nil {
		<-park
	}
	out := map[string]int64{}
	for i, n := range c33RecNames {
		out[prefix+n] = snap[i]
	}
	return out
}
func (s *c33Sampler) grow(g [3]int64) {
	s.mu.Lock()
	for i := range g {
		if i < 2 && g[i] < 0 {
			continue // counters only grow
		}
		s.vals[i] += g[i]
	}
	s.mu.Unlock()
}

func c33GenRec(r *rand.Rand, tier string) *c33Rec {
	rec := &c33Rec{Init: [3]int64{int64(r.Intn(50)), int64(r.Intn(3)), int64(r.Intn(9))}}
	n := 3 + r.Intn(4)
	grow := func() [3]int64 {
		return [3]int64{int64(1 + r.Intn(9)), int64(r.Intn(4)), int64(r.Intn(7) - 3)}
	}
	for j := 0; j < n; j++ {
		switch x := r.Intn(10); {
		case x < 3:
			rec.Steps = append(rec.Steps, c33RecStep{Kind: "seq", Grow: grow()})
		case x < 7:
			rec.Steps = append(rec.Steps, c33RecStep{Kind: "forced", Grow: grow()})
		default:
			c := 8 + r.Intn(16)
			if tier == "thorough" {
				c = 40 + r.Intn(80)
			}
			rec.Steps = append(rec.Steps, c33RecStep{Kind: "free", Grow: grow(), Workers: 2 + r.Intn(5), Calls: c})
		}
	}
	return rec
}

// c33RunRec returns the Gallina list of recobs and human-readable lines.
func c33RunRec(m *metrics.MultiMetrics, rec *c33Rec) (string, []string, error) {
	if len(rec.Steps) > 64 {
		return "", nil, fmt.Errorf("recorder phase too long")
	}
	const prefix = "verifdyn"
	src := &c33Sampler{vals: rec.Init, entered: make(chan int, 1024)}
	record := sample.VerifC33Recorder(prefix, m, src) // RegisterMetrics takes snapshot 0
	names := [3]string{}
	for i, n := range c33RecNames {
		names[i] = prefix + "_" + n
	}
	var quiet [3][]string // (k, v) reads while nobody is inside RecordMetrics
	var all [3][]int64
	var human []string
	read := func(quiescent bool, what string) {
		src.mu.Lock()
		k := len(src.snaps) - 1
		src.mu.Unlock()
		var vs [3]int64
		for i := range names {
			v, ok := m.Get(names[i])
			if !ok {
				v = 0
			}
			vs[i] = int64(v)
			all[i] = append(all[i], int64(v))
			if quiescent {
				quiet[i] = append(quiet[i], cq.Pair(cq.Nat(k), cq.Z(int64(v))))
			}
		}
		human = append(human, fmt.Sprintf("%s: store a_count=%d b_count=%d g_size=%d (snapshots handed out: %d)", what, vs[0], vs[1], vs[2], k))
	}
	drain := func() {
		for {
			select {
			case <-src.entered:
			default:
				return
			}
		}
	}
	read(true, "registered")
	for si, st := range rec.Steps {
		switch st.Kind {
		case "seq":
			src.grow(st.Grow)
			record(true, 1, 1)
			read(true, fmt.Sprintf("step %d seq", si))
		case "forced":
			drain()
			park := make(chan struct{})
			src.mu.Lock()
			src.park = park
			src.mu.Unlock()
			doneA, doneB := make(chan struct{}), make(chan struct{})
			go func() { record(true, 1, 1); close(doneA) }()
			select { // A is inside GetMetrics and holds its snapshot
			case <-src.entered:
			case <-time.After(10 * time.Second):
				close(park)
				return "", nil, fmt.Errorf("RecordMetrics never called GetMetrics")
			}
			src.grow(st.Grow)
			go func() { record(false, 2, 1); close(doneB) }()
			// B either waits for the recorder's mutex (snapshot under the mutex) or runs to completion
			overtook := false
			select {
			case <-doneB:
				overtook = true
			case <-time.After(15 * time.Millisecond):
			}
			read(false, fmt.Sprintf("step %d forced, A parked in GetMetrics, B overtook A: %v", si, overtook))
			close(park)
			for _, d := range []chan struct{}{doneA, doneB} {
				select {
				case <-d:
				case <-time.After(10 * time.Second):
					return "", nil, fmt.Errorf("RecordMetrics did not return")
				}
			}
			read(true, fmt.Sprintf("step %d forced, both done", si))
		case "free":
			w, c := st.Workers, st.Calls
			if w < 1 || w > 16 || c < 1 || c > 5000 {
				return "", nil, fmt.Errorf("bad free step %+v", st)
			}
			var wg sync.WaitGroup
			start := make(chan struct{})
			for g := 0; g < w; g++ {
				wg.Add(1)
				go func(g int) {
					defer wg.Done()
					<-start
					for j := 0; j < c; j++ {
						src.grow([3]int64{1, int64(j & 1), int64(g)})
						record(j&1 == 0, 1, 1)
					}
				}(g)
			}
			close(start)
			wg.Wait()
			read(true, fmt.Sprintf("step %d free: %d goroutines x %d calls", si, w, c))
			src.grow(st.Grow)
			record(true, 1, 1)
			read(true, fmt.Sprintf("step %d free, one more call", si))
		default:
			return "", nil, fmt.Errorf("bad recorder step %q", st.Kind)
		}
	}
	var obs []string
	for i := range names {
		var snaps []int64
		for _, s := range src.snaps[1:] {
			snaps = append(snaps, s[i])
		}
		obs = append(obs, fmt.Sprintf("{| ro_counter := %s; ro_init := %s; ro_snaps := %s; ro_reads := %s; ro_all := %s |}",
			cq.Bool(i < 2), cq.Z(src.snaps[0][i]), cq.ListZ(snaps), cq.List(quiet[i]), cq.ListZ(all[i])))
	}
	return cq.List(obs), human, nil
}
