package drive

import (
	"encoding/json"
	"fmt"
	"math/rand"
	"sync"

	"github.com/honeycombio/refinery/config"
	"github.com/honeycombio/refinery/logger"
	"github.com/honeycombio/refinery/metrics"
	"github.com/honeycombio/refinery/sample"
	cq "github.com/honeycombio/refinery/verifharness/coqfmt"
)

// C12: the real sample.SamplerFactory (shared dynsampler registry, GetSamplerImplementationForKey,
// rules samplers creating downstream samplers, ClearDynsamplers) driven by N workers' worth of
// lazily created samplers. The worker-local cache is the three statements of makeDecision
// (lookup in datasetSamplers, else ask the factory and store) and the reload case of collect()
// (clear the map); both are tied to the source by translator patterns.

type c12Env struct {
	Name  string     `json:"name"`
	Kind  string     `json:"kind"`            // det | dyn | rules
	Def   *sampDef   `json:"def,omitempty"`   // dyn
	Rules []*sampDef `json:"rules,omitempty"` // rules: one downstream sampler per rule; null = deterministic downstream
}
type c12Op struct {
	Op   string   `json:"op"` // get | reload | wreload
	W    int      `json:"w,omitempty"`
	Name string   `json:"name,omitempty"`
	Cfg  []c12Env `json:"cfg,omitempty"`
}
type c12Input struct {
	Cfg []c12Env `json:"cfg"`
	Ops []c12Op  `json:"ops"`
	// collector-level scenario around the real reloadConfigs (see c12_coll.go)
	Reload *c12Reload `json:"reload,omitempty"`
	// concurrent creation: Goroutines workers ask the factory for the same definition at the same time,
	// Rounds times (registry cleared before each round)
	Conc *c12Conc `json:"conc,omitempty"`
}

type c12Conc struct {
	Goroutines int     `json:"goroutines"`
	Rounds     int     `json:"rounds"`
	Def        sampDef `json:"def"`
}

func init() {
	Register(&Driver{ID: "C12", Gen: c12Gen, Run: c12Run, Shrink: c12Shrink})
}

var c12Names = []string{"prod", "dev", "rules:prod:", "pfx.ds", "__default__"}

func c12GenCfg(r *rand.Rand) []c12Env {
	// a small pool of definitions: a base one, copies differing in one tuning parameter, a copy
	// with the fields in another order, and unrelated ones
	typ := 3 + r.Intn(5)
	base := sampBaseDef(r, typ)
	pool := []sampDef{base, sampMutate(r, base), sampMutate(r, base)}
	perm := base
	perm.Fields = append([]string{}, base.Fields...)
	for i, j := 0, len(perm.Fields)-1; i < j; i, j = i+1, j-1 {
		perm.Fields[i], perm.Fields[j] = perm.Fields[j], perm.Fields[i]
	}
	pool = append(pool, perm)
	other := base
	other.Fields = append([]string{}, sampFieldLists[r.Intn(len(sampFieldLists))]...)
	pool = append(pool, other, sampBaseDef(r, 3+r.Intn(5)))
	pick := func() *sampDef {
		d := pool[r.Intn(len(pool))]
		return &d
	}
	var cfg []c12Env
	for _, n := range c12Names {
		if n != "__default__" && r.Intn(4) == 0 {
			continue
		}
		e := c12Env{Name: n}
		switch x := r.Intn(10); {
		case x < 2:
			e.Kind = "det"
		case x < 5:
			e.Kind = "dyn"
			e.Def = pick()
		default:
			e.Kind = "rules"
			for k := 0; k < 1+r.Intn(4); k++ {
				if r.Intn(6) == 0 {
					e.Rules = append(e.Rules, nil)
				} else {
					e.Rules = append(e.Rules, pick())
				}
			}
		}
		cfg = append(cfg, e)
	}
	return cfg
}

func c12Gen(r *rand.Rand, tier string, i int) any {
	if i%6 == 2 {
		n := 2 + r.Intn(3)
		return c12Input{Cfg: []c12Env{{Name: "__default__", Kind: "det"}},
			Reload: &c12Reload{Workers: n, Actor: r.Intn(n), Def: sampBaseDef(r, 3+r.Intn(5))}}
	}
	if i%10 == 5 {
		return c12Input{Cfg: []c12Env{{Name: "__default__", Kind: "det"}},
			Conc: &c12Conc{Goroutines: 4 + r.Intn(5), Rounds: 40, Def: sampBaseDef(r, 3+r.Intn(5))}}
	}
	in := c12Input{Cfg: c12GenCfg(r)}
	nw := 1 + r.Intn(4)
	nops := 4 + r.Intn(10)
	if tier == "thorough" {
		nops += r.Intn(20)
	}
	names := append([]string{"unknown-env"}, c12Names...)
	for k := 0; k < nops; k++ {
		switch x := r.Intn(100); {
		case x < 75:
			in.Ops = append(in.Ops, c12Op{Op: "get", W: r.Intn(nw), Name: names[r.Intn(len(names))]})
		case x < 85:
			cfg := in.Cfg
			if r.Intn(2) == 0 {
				cfg = c12GenCfg(r)
			}
			in.Ops = append(in.Ops, c12Op{Op: "reload", Cfg: cfg})
			// the collector signals every worker right after clearing the registry
			if r.Intn(4) > 0 {
				for _, w := range r.Perm(nw) {
					in.Ops = append(in.Ops, c12Op{Op: "wreload", W: w})
				}
			}
		default:
			in.Ops = append(in.Ops, c12Op{Op: "wreload", W: r.Intn(nw)})
		}
	}
	return in
}

// ---------------------------------------------------------------- real configuration
func c12Downstream(d *sampDef) (*config.RulesBasedDownstreamSampler, error) {
	if d == nil {
		return &config.RulesBasedDownstreamSampler{DeterministicSampler: &config.DeterministicSamplerConfig{SampleRate: 2}}, nil
	}
	cfg, _, err := sampBuild(*d)
	if err != nil {
		return nil, err
	}
	ds := &config.RulesBasedDownstreamSampler{}
	switch c := cfg.(type) {
	case *config.DynamicSamplerConfig:
		ds.DynamicSampler = c
	case *config.EMADynamicSamplerConfig:
		ds.EMADynamicSampler = c
	case *config.EMAThroughputSamplerConfig:
		ds.EMAThroughputSampler = c
	case *config.WindowedThroughputSamplerConfig:
		ds.WindowedThroughputSampler = c
	case *config.TotalThroughputSamplerConfig:
		ds.TotalThroughputSampler = c
	}
	return ds, nil
}

func c12Samplers(cfg []c12Env) (map[string]*config.V2SamplerChoice, error) {
	m := map[string]*config.V2SamplerChoice{}
	for _, e := range cfg {
		if _, dup := m[e.Name]; dup {
			continue // Go map: one definition per name (first wins here and in the model term)
		}
		ch := &config.V2SamplerChoice{}
		switch e.Kind {
		case "dyn":
			if e.Def == nil {
				return nil, fmt.Errorf("dyn without def")
			}
			c, _, err := sampBuild(*e.Def)
			if err != nil {
				return nil, err
			}
			switch x := c.(type) {
			case *config.DynamicSamplerConfig:
				ch.DynamicSampler = x
			case *config.EMADynamicSamplerConfig:
				ch.EMADynamicSampler = x
			case *config.EMAThroughputSamplerConfig:
				ch.EMAThroughputSampler = x
			case *config.WindowedThroughputSamplerConfig:
				ch.WindowedThroughputSampler = x
			case *config.TotalThroughputSamplerConfig:
				ch.TotalThroughputSampler = x
			}
		case "rules":
			rc := &config.RulesBasedSamplerConfig{}
			for i, d := range e.Rules {
				ds, err := c12Downstream(d)
				if err != nil {
					return nil, err
				}
				rc.Rules = append(rc.Rules, &config.RulesBasedSamplerRule{Name: fmt.Sprintf("rule%d", i), Sampler: ds})
			}
			ch.RulesBasedSampler = rc
		default:
			ch.DeterministicSampler = &config.DeterministicSamplerConfig{SampleRate: 2}
		}
		m[e.Name] = ch
	}
	if _, ok := m["__default__"]; !ok {
		m["__default__"] = &config.V2SamplerChoice{DeterministicSampler: &config.DeterministicSamplerConfig{SampleRate: 1}}
	}
	return m, nil
}

func c12CfgCoq(cfg []c12Env) (string, error) {
	seen := map[string]bool{}
	var es []string
	for _, e := range cfg {
		if seen[e.Name] {
			continue
		}
		seen[e.Name] = true
		var body string
		switch e.Kind {
		case "dyn":
			d, err := sampDefCoq(*e.Def)
			if err != nil {
				return "", err
			}
			body = "(EDyn " + d + ")"
		case "rules":
			var ds []string
			for _, d := range e.Rules {
				if d == nil {
					ds = append(ds, "None")
					continue
				}
				s, err := sampDefCoq(*d)
				if err != nil {
					return "", err
				}
				ds = append(ds, cq.Some(s))
			}
			body = "(ERules " + cq.List(ds) + ")"
		default:
			body = "EDet"
		}
		es = append(es, cq.Pair(c11Str(e.Name), body))
	}
	if !seen["__default__"] {
		es = append(es, cq.Pair(c11Str("__default__"), "EDet"))
	}
	return cq.List(es), nil
}

func c12Run(raw json.RawMessage) (Case, error) {
	var in c12Input
	if err := json.Unmarshal(raw, &in); err != nil {
		return Case{}, err
	}
	sm, err := c12Samplers(in.Cfg)
	if err != nil {
		return Case{}, err
	}
	mc := &config.MockConfig{Samplers: sm}
	factory := &sample.SamplerFactory{Config: mc, Logger: &logger.NullLogger{}, Metrics: &metrics.NullMetrics{}}
	factory.Start()
	defer factory.Stop()

	ids := map[any]uint64{} // dynsampler pointer -> number, by first sight
	number := func(p any) string {
		if p == nil {
			return "None"
		}
		n, ok := ids[p]
		if !ok {
			n = uint64(len(ids))
			ids[p] = n
		}
		return cq.Some(cq.N(n))
	}
	slots := func(s sample.Sampler) []string {
		if _, isRules := s.(*sample.RulesBasedSampler); isRules {
			var out []string
			for _, ds := range sample.VerifC12Downstream(s) {
				if ds == nil {
					out = append(out, "None")
				} else {
					out = append(out, number(sample.VerifC12Dynsampler(ds)))
				}
			}
			return out
		}
		if p := sample.VerifC12Dynsampler(s); p != nil {
			return []string{number(p)}
		}
		return nil
	}

	cfg0, err := c12CfgCoq(in.Cfg)
	if err != nil {
		return Case{}, err
	}
	workers := map[int]map[string]sample.Sampler{}
	var ops, obs, human []string
	tags := []string{}
	gets, shared, reloads := 0, false, 0
	for _, o := range in.Ops {
		switch o.Op {
		case "get":
			if workers[o.W] == nil {
				workers[o.W] = map[string]sample.Sampler{}
			}
			// collect/collector_worker.go makeDecision
			s, found := workers[o.W][o.Name]
			if !found {
				s = factory.GetSamplerImplementationForKey(o.Name)
				workers[o.W][o.Name] = s
			}
			if s == nil {
				return Case{}, fmt.Errorf("no sampler for %q", o.Name)
			}
			sl := slots(s)
			ops = append(ops, fmt.Sprintf("(WGet %s %s)", cq.N(uint64(o.W)), c11Str(o.Name)))
			obs = append(obs, cq.List(sl))
			human = append(human, fmt.Sprintf("worker %d gets %q -> %v", o.W, o.Name, sl))
			gets++
			if len(sl) > 0 {
				shared = true
			}
		case "reload":
			nm, err := c12Samplers(o.Cfg)
			if err != nil {
				return Case{}, err
			}
			mc.Mux.Lock()
			mc.Samplers = nm
			mc.Mux.Unlock()
			// collect/collect.go reloadConfigs
			factory.ClearDynsamplers()
			c, err := c12CfgCoq(o.Cfg)
			if err != nil {
				return Case{}, err
			}
			ops = append(ops, "(WReload "+c+")")
			obs = append(obs, "[]")
			human = append(human, "reload")
			reloads++
		case "wreload":
			clear(workers[o.W])
			ops = append(ops, fmt.Sprintf("(WWorkerReload %s)", cq.N(uint64(o.W))))
			obs = append(obs, "[]")
			human = append(human, fmt.Sprintf("worker %d handles reload", o.W))
		default:
			return Case{}, fmt.Errorf("bad op %q", o.Op)
		}
	}
	tags = append(tags, fmt.Sprintf("workers:%d", len(workers)), fmt.Sprintf("instances:%d", min(len(ids), 6)))
	if reloads > 0 {
		tags = append(tags, "reload")
	}
	for _, e := range in.Cfg {
		tags = append(tags, "env-kind:"+e.Kind)
		if e.Name == "rules:prod:" {
			tags = append(tags, "env-named-like-downstream-prefix")
		}
	}
	reloadCoq := "None"
	if in.Reload != nil {
		rc, rh, err := c12RunReload(*in.Reload)
		if err != nil {
			return Case{}, err
		}
		reloadCoq = rc
		human = append(human, rh...)
		tags = append(tags, "collector-reload-scenario")
		shared = true
		gets += 2
		for len(ids) < 2 { // the scenario always involves two generations of instances
			ids[len(ids)] = uint64(len(ids))
		}
	}
	concCoq := "None"
	if in.Conc != nil {
		bad, err := c12RunConc(*in.Conc)
		if err != nil {
			return Case{}, err
		}
		concCoq = cq.Some(fmt.Sprintf("(%s, %s, %s)", cq.N(uint64(in.Conc.Goroutines)), cq.N(uint64(in.Conc.Rounds)), cq.N(uint64(bad))))
		human = append(human, fmt.Sprintf("%d goroutines x %d rounds of simultaneous creation: %d rounds with different instances", in.Conc.Goroutines, in.Conc.Rounds, bad))
		tags = append(tags, "concurrent-creation")
		shared = true
		gets += 2
		for len(ids) < 2 {
			ids[len(ids)] = uint64(len(ids))
		}
	}
	coq := fmt.Sprintf("(Build_case %s %s %s %s %s)", cfg0, cq.List(ops), cq.List(obs), reloadCoq, concCoq)
	b, _ := json.Marshal(in)
	return Case{Coq: coq, Key: string(b), Nontriv: shared && gets >= 2 && len(ids) >= 2, Tags: sampDedupTags(tags),
		Summary: map[string]any{"rules": in.Cfg, "history": human}}, nil
}

func c12Shrink(raw json.RawMessage) []json.RawMessage {
	var in c12Input
	if json.Unmarshal(raw, &in) != nil {
		return nil
	}
	var out []json.RawMessage
	emit := func(c c12Input) {
		b, _ := json.Marshal(c)
		out = append(out, b)
	}
	for i := range in.Ops {
		c := in
		c.Ops = append(append([]c12Op{}, in.Ops[:i]...), in.Ops[i+1:]...)
		emit(c)
	}
	for i, e := range in.Cfg {
		if e.Name != "__default__" {
			c := in
			c.Cfg = append(append([]c12Env{}, in.Cfg[:i]...), in.Cfg[i+1:]...)
			emit(c)
		}
		for j := range e.Rules {
			if len(e.Rules) > 1 {
				c := in
				c.Cfg = append([]c12Env{}, in.Cfg...)
				ne := e
				ne.Rules = append(append([]*sampDef{}, e.Rules[:j]...), e.Rules[j+1:]...)
				c.Cfg[i] = ne
				emit(c)
			}
		}
	}
	return out
}

// c12RunConc: the real SamplerFactory; in every round the registry is cleared and Goroutines goroutines,
// released together, ask for the sampler of the same environment. Returns the number of rounds in
// which they did not all end up with the same dynsampler instance. (On the source as it is the
// lookup-or-create runs under the factory mutex, so the answer is always 0.)
func c12RunConc(in c12Conc) (int, error) {
	cfgDef, _, err := sampBuild(in.Def)
	if err != nil {
		return 0, err
	}
	ch := &config.V2SamplerChoice{}
	switch x := cfgDef.(type) {
	case *config.DynamicSamplerConfig:
		ch.DynamicSampler = x
	case *config.EMADynamicSamplerConfig:
		ch.EMADynamicSampler = x
	case *config.EMAThroughputSamplerConfig:
		ch.EMAThroughputSampler = x
	case *config.WindowedThroughputSamplerConfig:
		ch.WindowedThroughputSampler = x
	case *config.TotalThroughputSamplerConfig:
		ch.TotalThroughputSampler = x
	}
	mc := &config.MockConfig{Samplers: map[string]*config.V2SamplerChoice{"prod": ch,
		"__default__": {DeterministicSampler: &config.DeterministicSamplerConfig{SampleRate: 1}}}}
	factory := &sample.SamplerFactory{Config: mc, Logger: &logger.NullLogger{}, Metrics: &metrics.NullMetrics{}}
	factory.Start()
	defer factory.Stop()
	if in.Goroutines < 2 {
		in.Goroutines = 2
	}
	bad := 0
	for round := 0; round < in.Rounds; round++ {
		factory.ClearDynsamplers()
		got := make([]any, in.Goroutines)
		start := make(chan struct{})
		var wg sync.WaitGroup
		for g := 0; g < in.Goroutines; g++ {
			wg.Add(1)
			go func(g int) {
				defer wg.Done()
				<-start
				if s := factory.GetSamplerImplementationForKey("prod"); s != nil {
					got[g] = sample.VerifC12Dynsampler(s)
				}
			}(g)
		}
		close(start)
		wg.Wait()
		for g := 1; g < in.Goroutines; g++ {
			if got[g] != got[0] {
				bad++
				break
			}
		}
	}
	return bad, nil
}
