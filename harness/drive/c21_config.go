package drive

// C21: the TraceNames / ParentNames lists reach the router through the REAL configuration loader:
// the operator's lists are written into a YAML file, loaded with config.NewCmdEnvOptions +
// config.NewConfig, and what GetTraceIdFieldNames / GetParentIdFieldNames of that real fileConfig
// return is what the node is configured with.

import (
	"encoding/json"
	"fmt"
	"os"
	"path/filepath"
	"strings"
	"sync"

	"github.com/honeycombio/refinery/config"
)

// documented defaults (struct tags of config.IDFieldsConfig), used when the operator gives no list
var (
	c21DefaultTrace  = []string{"trace.trace_id", "traceId"}
	c21DefaultParent = []string{"trace.parent_id", "parentId"}
)

var (
	c21CfgMu    sync.Mutex
	c21CfgCache = map[string][2][]string{}
)

func c21YAMLList(xs []string) string {
	q := make([]string, len(xs))
	for i, x := range xs {
		b, _ := json.Marshal(x)
		q[i] = string(b)
	}
	return "[" + strings.Join(q, ", ") + "]"
}

// c21LoadIDFields returns the lists the real loader delivers for the operator's lists
// (an empty operator list means "not set in the file").
func c21LoadIDFields(trace, parent []string) (lt, lp []string, err error) {
	key := strings.Join(trace, "\x00") + "\x01" + strings.Join(parent, "\x00")
	c21CfgMu.Lock()
	defer c21CfgMu.Unlock()
	if v, ok := c21CfgCache[key]; ok {
		return v[0], v[1], nil
	}
	dir, err := os.MkdirTemp(".", "c21cfg")
	if err != nil {
		return nil, nil, err
	}
	defer os.RemoveAll(dir)
	body := "General:\n  ConfigurationVersion: 2\n"
	if len(trace)+len(parent) > 0 {
		body += "IDFields:\n"
		if len(trace) > 0 {
			body += "  TraceNames: " + c21YAMLList(trace) + "\n"
		}
		if len(parent) > 0 {
			body += "  ParentNames: " + c21YAMLList(parent) + "\n"
		}
	}
	cp, rp := filepath.Join(dir, "config.yaml"), filepath.Join(dir, "rules.yaml")
	if err := os.WriteFile(cp, []byte(body), 0o644); err != nil {
		return nil, nil, err
	}
	rules := "RulesVersion: 2\nSamplers:\n  __default__:\n    DeterministicSampler:\n      SampleRate: 1\n"
	if err := os.WriteFile(rp, []byte(rules), 0o644); err != nil {
		return nil, nil, err
	}
	opts, err := config.NewCmdEnvOptions([]string{"refinery", "-c", cp, "-r", rp})
	if err != nil {
		return nil, nil, err
	}
	c, err := config.NewConfig(opts)
	if err != nil {
		return nil, nil, fmt.Errorf("config loader rejected %q: %w", body, err)
	}
	lt = append([]string{}, c.GetTraceIdFieldNames()...)
	lp = append([]string{}, c.GetParentIdFieldNames()...)
	c21CfgCache[key] = [2][]string{lt, lp}
	return lt, lp, nil
}
