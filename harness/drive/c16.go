package drive

import (
	"encoding/json"
	"fmt"
	"math/rand"
	"reflect"
	"sort"
	"strings"
	"sync"
	"time"

	"github.com/dgryski/go-wyhash"
	"github.com/honeycombio/refinery/collect"
	cq "github.com/honeycombio/refinery/verifharness/coqfmt"
)

// C16: node A is a complete in-process refinery (real routers, sharder, InMemCollector with the REAL
// StressRelief, real upstream and peer DirectTransmission on fake clocks); B is the other peer
// (real routers + sharder, recording collector); a fake Honeycomb API decodes what it is sent.
// The schedule is sequential: span arrivals at A's incoming router, stress on/off, explicit batch
// dispatches. Observed: every batch request received by Honeycomb and by B, B's collector, and the
// drop/buffer outcome of each span on A.

type c16Op struct {
	Op   string `json:"op"` // arr | probe | stress | rate | flushup | flushpeer
	Rate uint64 `json:"rate,omitempty"`
	Tid  int    `json:"tid,omitempty"`
	Key  int    `json:"key,omitempty"`
	Ds   int    `json:"ds,omitempty"`
	On   bool   `json:"on,omitempty"`
}
type c16Input struct {
	Tids []string `json:"tids"`
	Rate uint64   `json:"rate"`
	Ops  []c16Op  `json:"ops"`
}

const (
	c16AddrA = "http://refinery-a:8081"
	c16AddrB = "http://refinery-b:8081"
	c16Hny   = "http://honeycomb.test:80"
)

var c16Keys = []string{crossLegacyKey, crossLegacyKey2}
var c16Ds = []string{"ds0", "ds1"}

func init() {
	Register(&Driver{ID: "C16", Gen: c16Gen, Run: c16Run, Shrink: c16Shrink})
}

func c16Gen(r *rand.Rand, tier string, i int) any {
	in := c16Input{Rate: []uint64{1, 2, 2, 3, 3, 10}[r.Intn(6)]}
	nt := 3 + r.Intn(4)
	for k := 0; k < nt; k++ {
		in.Tids = append(in.Tids, c17RandTid(r)+fmt.Sprintf("-%d", k))
	}
	stressed := false
	if r.Intn(10) < 8 {
		in.Ops = append(in.Ops, c16Op{Op: "stress", On: true})
		stressed = true
	}
	nops := 5 + r.Intn(10)
	if tier == "thorough" {
		nops = 5 + r.Intn(30)
	}
	for k := 0; k < nops; k++ {
		switch x := r.Intn(100); {
		case x < 6:
			// a reload changes StressRelief.SamplingRate (most interesting while stress relief is active)
			in.Ops = append(in.Ops, c16Op{Op: "rate", Rate: []uint64{1, 2, 3, 5, 10, 1000}[r.Intn(6)]})
		case x < 16:
			// a probe from the other node arrives at A's peer router (most interesting while A is stressed)
			in.Ops = append(in.Ops, c16Op{Op: "probe", Tid: r.Intn(nt)})
		case x < 68:
			// keys/datasets mostly equal so that several spans share one batch (the first event decides the destination)
			key, ds := 0, 0
			if r.Intn(5) == 0 {
				key = 1
			}
			if r.Intn(5) == 0 {
				ds = 1
			}
			in.Ops = append(in.Ops, c16Op{Op: "arr", Tid: r.Intn(nt), Key: key, Ds: ds})
		case x < 82:
			stressed = !stressed
			in.Ops = append(in.Ops, c16Op{Op: "stress", On: stressed})
		case x < 92:
			in.Ops = append(in.Ops, c16Op{Op: "flushup"})
		default:
			in.Ops = append(in.Ops, c16Op{Op: "flushpeer"})
		}
	}
	return in
}

type c16Pay struct {
	Sid, Tid             int64
	Probe, Stress, Late_ bool
}

func c16Bool(b bool) string { return cq.Bool(b) }

func c16Run(raw json.RawMessage) (Case, error) {
	var in c16Input
	if err := json.Unmarshal(raw, &in); err != nil {
		return Case{}, err
	}
	if len(in.Tids) == 0 {
		return Case{}, fmt.Errorf("C16: no trace ids")
	}
	if in.Rate == 0 {
		in.Rate = 1
	}
	mn := newCrossMemNet()
	rec := &crossRecorder{}
	stopH, err := mn.Serve(c16Hny, rec.Wrap("hny", nil))
	if err != nil {
		return Case{}, err
	}
	defer stopH()
	peers := []string{c16AddrA, c16AddrB}
	a, err := crossStartFullNode(crossFullOpts{Addr: c16AddrA, PeerList: peers, Net: mn, Origin: "A"})
	if err != nil {
		return Case{}, fmt.Errorf("C16: node A: %v", err)
	}
	defer a.Stop()
	var bmu sync.Mutex
	var bCollected []crossCollected
	var bUp []crossHop
	b, err := crossStartNode(crossNodeOpts{
		Addr: c16AddrB, PeerList: []string{c16AddrB, c16AddrA}, Net: mn,
		Collector: &crossRecCollector{Node: c16AddrB, mu: &bmu, log: &bCollected},
		Upstream:  &crossRecTx{Node: c16AddrB, mu: &bmu, log: &bUp},
		WrapPeerH: func(h httpHandler) httpHandler { return rec.Wrap("B", h) },
	})
	if err != nil {
		return Case{}, fmt.Errorf("C16: node B: %v", err)
	}
	defer b.Stop()

	// oracle columns: owner and hash of every trace id, from the real sharder / the real wyhash
	tinfo := make([]string, len(in.Tids))
	ownerB := make([]bool, len(in.Tids))
	tidIx := map[string]int{}
	for i, t := range in.Tids {
		tidIx[t] = i
		o := uint64(0)
		if a.Sharder.WhichShard(t).GetAddress() != c16AddrA {
			o = 1
			ownerB[i] = true
		}
		tinfo[i] = cq.Pair(cq.N(uint64(i)), cq.Pair(cq.N(o), crossW64(wyhash.Hash([]byte(t), collect.VerifC16HashSeed))))
	}

	var ops, events, human []string
	sent := map[int64]map[string]any{}
	stressed := false
	probeMade, lateAfterRelief, probeAtStressed, rateWhileStressed := false, false, false, false
	curRate := in.Rate
	var rateChanges []string
	var probeHandled []string
	decidedStress := map[int]bool{}
	sid := int64(10)
	upOrigin, peerOrigin := "A/upstream", "A/peer"
	doFlush := func(up bool) {
		a.Mu.Lock()
		wantUp, wantPeer := len(a.UpLog), len(a.PeerLog)
		a.Mu.Unlock()
		if up {
			crossFlush(a.UpClock, time.Second, wantUp, func() int { return rec.doneEvents(upOrigin) }, 6*time.Second)
		} else {
			crossFlush(a.PeerClock, time.Second, wantPeer, func() int { return rec.doneEvents(peerOrigin) }, 6*time.Second)
		}
	}
	allOps := append(append([]c16Op{}, in.Ops...), c16Op{Op: "flushup"}, c16Op{Op: "flushpeer"})
	for _, o := range allOps {
		switch o.Op {
		case "rate":
			if o.Rate == 0 {
				o.Rate = 1
			}
			curRate = o.Rate
			a.Cfg.Mux.Lock()
			a.Cfg.StressRelief.SamplingRate = curRate
			a.Cfg.Mux.Unlock()
			a.Stress.UpdateFromConfig() // what InMemCollector.reloadConfigs does on a configuration reload
			rateChanges = append(rateChanges, cq.Pair(cq.Nat(len(ops)), cq.N(curRate)))
			if stressed {
				rateWhileStressed = true
			}
			human = append(human, fmt.Sprintf("reload: SamplingRate := %d (stressed=%v)", curRate, stressed))
		case "stress":
			a.SetStress(o.On, curRate)
			if a.Collector.Stressed() != o.On {
				return Case{}, fmt.Errorf("C16: could not switch stress relief to %v", o.On)
			}
			stressed = o.On
			ops = append(ops, cq.App("Stress", c16Bool(o.On)))
			human = append(human, fmt.Sprintf("stress %v", o.On))
		case "flushup":
			doFlush(true)
			ops = append(ops, "FlushUp")
			human = append(human, "dispatch upstream batches")
		case "flushpeer":
			doFlush(false)
			ops = append(ops, "FlushPeer")
			human = append(human, "dispatch peer batches")
		case "probe":
			if o.Tid < 0 || o.Tid >= len(in.Tids) || o.Key < 0 || o.Key > 1 || o.Ds < 0 || o.Ds > 1 {
				return Case{}, fmt.Errorf("C16: bad probe")
			}
			sid++
			data := map[string]any{"trace.trace_id": in.Tids[o.Tid], "sid": sid, "name": fmt.Sprintf("probe-%d", sid),
				"meta.refinery.probe": true, "meta.stressed": true}
			sent[sid] = data
			spans0 := a.Counter("peer_router_span")
			code, body := a.PostPeerBatch(c16Ds[o.Ds], c16Keys[o.Key], []crossBatchEvent{{SampleRate: 1, Data: data}})
			if code != 200 {
				return Case{}, fmt.Errorf("C16: probe post status %d %s", code, body)
			}
			if !a.WaitIdle(3 * time.Second) {
				return Case{}, fmt.Errorf("C16: collector did not become idle")
			}
			outcome := "discarded"
			if a.Counter("peer_router_span") > spans0 {
				probeHandled = append(probeHandled, cq.N(uint64(sid)))
				outcome = "NOT discarded (handled as a span)"
			}
			if stressed {
				probeAtStressed = true
			}
			ops = append(ops, cq.App("Probe", cq.N(uint64(sid)), cq.N(uint64(o.Tid)), cq.N(uint64(o.Key)), cq.N(uint64(o.Ds))))
			human = append(human, fmt.Sprintf("probe %d trace#%d(ownerB=%v) arrives at A's peer router, A stressed=%v -> %s", sid, o.Tid, ownerB[o.Tid], stressed, outcome))
		case "arr":
			if o.Tid < 0 || o.Tid >= len(in.Tids) || o.Key < 0 || o.Key > 1 || o.Ds < 0 || o.Ds > 1 {
				return Case{}, fmt.Errorf("C16: bad arr")
			}
			sid++
			data := map[string]any{"trace.trace_id": in.Tids[o.Tid], "sid": sid, "name": fmt.Sprintf("span-%d", sid),
				"payload": strings.Repeat("x", int(sid%7)), "dur": float64(sid) + 0.5}
			sent[sid] = data
			dropped0 := a.Counter("events_dropped")
			a.Mu.Lock()
			up0, pr0 := len(a.UpLog), len(a.PeerLog)
			a.Mu.Unlock()
			code, body := a.PostBatch(c16Ds[o.Ds], c16Keys[o.Key], []crossBatchEvent{{SampleRate: 1, Data: data}})
			if code != 200 {
				return Case{}, fmt.Errorf("C16: post status %d %s", code, body)
			}
			if !a.WaitIdle(3 * time.Second) {
				return Case{}, fmt.Errorf("C16: collector did not become idle")
			}
			a.Mu.Lock()
			enq := len(a.UpLog) - up0 + len(a.PeerLog) - pr0
			madeProbe := len(a.PeerLog) > pr0 && stressed
			a.Mu.Unlock()
			outcome := "enqueued"
			if a.Counter("events_dropped") > dropped0 {
				events = append(events, cq.App("Dropped", cq.N(uint64(sid))))
				outcome = "dropped"
			} else if enq == 0 {
				events = append(events, cq.App("Buffered", cq.N(uint64(sid))))
				outcome = "buffered"
			}
			if madeProbe {
				probeMade = true
			}
			if stressed {
				decidedStress[o.Tid] = true
			} else if decidedStress[o.Tid] && !ownerB[o.Tid] {
				lateAfterRelief = true
			}
			ops = append(ops, cq.App("Arr", cq.N(uint64(sid)), cq.N(uint64(o.Tid)), cq.N(uint64(o.Key)), cq.N(uint64(o.Ds))))
			human = append(human, fmt.Sprintf("span %d trace#%d(ownerB=%v) key%d %s stressed=%v -> %s", sid, o.Tid, ownerB[o.Tid], o.Key, c16Ds[o.Ds], stressed, outcome))
		default:
			return Case{}, fmt.Errorf("C16: bad op %q", o.Op)
		}
	}
	// let B finish handling what it received
	time.Sleep(2 * time.Millisecond)

	// posts as received
	var posts, fieldsBad, postSum []string
	for _, q := range rec.snapshot() {
		host := uint64(0)
		if q.Receiver == "B" {
			host = 1
		}
		key, ds := uint64(99), uint64(99)
		for i, k := range c16Keys {
			if k == q.APIKey {
				key = uint64(i)
			}
		}
		for i, d := range c16Ds {
			if d == q.Dataset {
				ds = uint64(i)
			}
		}
		up := q.Origin == upOrigin
		if q.Origin != upOrigin && q.Origin != peerOrigin {
			continue // not sent by node A's transmissions (nothing else should arrive)
		}
		var evs, es []string
		for _, e := range q.Events {
			t, ok := tidIx[e.TraceID]
			tid := uint64(999)
			if ok {
				tid = uint64(t)
			}
			s := uint64(0)
			if e.Sid >= 0 {
				s = uint64(e.Sid)
			}
			evs = append(evs, fmt.Sprintf("(mkPay %s %s %s %s %s %s %s %s)", cq.N(s), cq.N(tid), cq.N(key), cq.N(ds), cq.N(host),
				c16Bool(e.Probe), c16Bool(e.Stressed), c16Bool(e.Late)))
			es = append(es, fmt.Sprintf("%d(probe=%v,stressed=%v,late=%v)", e.Sid, e.Probe, e.Stressed, e.Late))
			if want, ok := sent[e.Sid]; ok && host == 0 && !c16SameFields(want, e.Fields) {
				fieldsBad = append(fieldsBad, cq.N(s))
			}
		}
		posts = append(posts, cq.App("Post", c16Bool(up), cq.N(host), cq.N(key), cq.N(ds), cq.List(evs)))
		postSum = append(postSum, fmt.Sprintf("%s -> %s key%d ds%d [%s]", q.Origin, q.Receiver, key, ds, strings.Join(es, " ")))
	}
	sort.Strings(postSum)
	bmu.Lock()
	var bc []string
	for _, c := range bCollected {
		if c.Sid >= 0 {
			bc = append(bc, cq.N(uint64(c.Sid)))
		}
	}
	nbUp := len(bUp)
	bmu.Unlock()
	if nbUp > 0 {
		// B has no reason to send anything upstream in these scenarios (its collector only records)
		bc = append(bc, cq.N(0))
	}

	coq := fmt.Sprintf("{| c_seed := %s; c_rate := %s; c_rate_changes := %s; c_tinfo := %s; c_ops := %s; c_events := %s; c_posts := %s; c_peer_collected := %s; c_fields_bad := %s; c_probe_handled := %s |}",
		cq.N(collect.VerifC16HashSeed), cq.N(in.Rate), cq.List(rateChanges), cq.List(tinfo), cq.List(ops), cq.List(events), cq.List(posts), cq.List(bc), cq.List(fieldsBad), cq.List(probeHandled))
	tags := []string{fmt.Sprintf("rate:%d", in.Rate)}
	if probeMade {
		tags = append(tags, "probe-created")
	}
	if lateAfterRelief {
		tags = append(tags, "late-span-after-relief")
	}
	if probeAtStressed {
		tags = append(tags, "probe-arrives-at-stressed-node")
	}
	if rateWhileStressed {
		tags = append(tags, "rate-reload-while-stressed")
	}
	if len(events) > 0 {
		tags = append(tags, "some-drop-or-buffer")
	}
	key, _ := json.Marshal(in)
	return Case{Coq: coq, Key: string(key), Nontriv: probeMade || probeAtStressed || rateWhileStressed, Tags: tags,
		Summary: map[string]any{"rate": in.Rate, "schedule": human, "requests_received": postSum}}, nil
}

func c16SameFields(want0, got map[string]any) bool {
	want := map[string]any{}
	for k, v := range want0 {
		if !strings.HasPrefix(k, "meta.") {
			want[k] = v
		}
	}
	if len(want) != len(got) {
		return false
	}
	for k, v := range want {
		g, ok := got[k]
		if !ok {
			return false
		}
		if wi, ok := crossToInt(v); ok {
			if _, isF := v.(float64); !isF {
				gi, ok2 := crossToInt(g)
				if !ok2 || gi != wi {
					return false
				}
				continue
			}
		}
		if !reflect.DeepEqual(v, g) {
			return false
		}
	}
	return true
}

func c16Shrink(raw json.RawMessage) []json.RawMessage {
	var in c16Input
	if json.Unmarshal(raw, &in) != nil {
		return nil
	}
	var out []json.RawMessage
	for i := range in.Ops {
		c := in
		c.Ops = append(append([]c16Op{}, in.Ops[:i]...), in.Ops[i+1:]...)
		b, _ := json.Marshal(c)
		out = append(out, b)
	}
	return out
}
