package drive

// Family route2: delivery scenarios on the REAL transmit.DirectTransmission (used by the C19 and C20
// drivers).  Every event carries its own identity in its fields (id, owner key, dataset, padding);
// the fake endpoint records under which X-Honeycomb-Team header and dataset URL each event arrives.
// Observable: every event id arrives exactly once, under its own key and dataset, with exactly its
// own fields.
//
//   burst : G goroutines released together enqueue the FIRST events of a brand-new destination,
//           for many fresh destinations (the double-checked batch creation in EnqueueEvent)
//   keys  : several API keys (two classic ones with an empty environment, two ingest keys of one
//           environment) share host and dataset within one batch window
//   retry : a full batch is refused once with 429/503 + a small Retry-After; while it waits, other
//           batches are serialised and sent; compression off or on (the pooled serialisation buffer)

import (
	"context"
	"fmt"
	"math/rand"
	"runtime"
	"sort"
	"strings"
	"sync"
	"time"

	"github.com/honeycombio/refinery/config"
	"github.com/honeycombio/refinery/logger"
	"github.com/honeycombio/refinery/metrics"
	"github.com/honeycombio/refinery/transmit"
	"github.com/honeycombio/refinery/types"
	cq "github.com/honeycombio/refinery/verifharness/coqfmt"
)

type r2DelivEvent struct {
	ID, Key, DS int
}

type r2DelivArrival struct {
	ID, Key, DS int
	OK          bool
}

type r2DelivResult struct {
	Kind     string
	Expected []r2DelivEvent
	Arrived  []r2DelivArrival
	Human    []string
}

var r2DelivKeys = []struct{ key, env string }{
	{"0123456789abcdef0123456789abcdef", ""},
	{"fedcba9876543210fedcba9876543210", ""},
	{"hcaik_01hqk4k20cjeh63wca8vva5stw70nft6m5n8wr8f5mjx3762s8269j50wc", "prod"},
	{"hcaik_01jzzzzzzzzzzzzzzzzzzzzzzzzzzzzzzzzzzzzzzzzzzzzzzzzzzzzzzzzzzz", "prod"},
}

func r2DelivPad(id int) string { return fmt.Sprintf("pad-%04d-%s", id, strings.Repeat("x", 24)) }

func r2DelivRun(kind string, seed int64) (*r2DelivResult, error) {
	r := rand.New(rand.NewSource(seed))
	base := r2ServerURL()
	r2RunSeq++
	run := fmt.Sprintf("run%d", r2RunSeq)
	host := base + "/" + run + "/hny"
	cfg := &config.MockConfig{GetHoneycombAPIVal: host}
	res := &r2DelivResult{Kind: kind}
	var datasets []string
	dsIndex := func(name string) int {
		for i, d := range datasets {
			if d == name {
				return i
			}
		}
		datasets = append(datasets, name)
		return len(datasets) - 1
	}
	mkEvent := func(id, key int, ds string) *types.Event {
		di := dsIndex(ds)
		res.Expected = append(res.Expected, r2DelivEvent{ID: id, Key: key, DS: di})
		return &types.Event{Context: context.Background(), APIHost: host, APIKey: r2DelivKeys[key].key, Dataset: ds,
			Environment: r2DelivKeys[key].env, SampleRate: 1, Timestamp: time.Unix(c20BaseTime, 0).UTC(),
			Data: types.NewPayload(cfg, map[string]any{"id": int64(id), "who": int64(key), "ds": int64(di), "pad": r2DelivPad(id)})}
	}
	mk := func(maxBatch int, compress bool) (*transmit.DirectTransmission, error) {
		d := transmit.NewDirectTransmission(types.TransmitTypePeer, r2Transport, maxBatch, time.Hour, 10*time.Second, compress, nil)
		d.Config, d.Logger, d.Metrics, d.Version = cfg, &logger.NullLogger{}, &metrics.NullMetrics{}, "verif"
		return d, d.Start()
	}
	arrivedCount := func() int {
		r2Store.mu.Lock()
		defer r2Store.mu.Unlock()
		return len(r2Store.reqs[run])
	}
	waitFor := func(cond func() bool) {
		for i := 0; i < 4000 && !cond(); i++ {
			time.Sleep(time.Millisecond)
		}
	}

	switch kind {
	case "burst":
		d, err := mk(1000, r.Intn(2) == 0)
		if err != nil {
			return nil, err
		}
		const rounds, g = 150, 12
		id := 0
		for rd := 0; rd < rounds; rd++ {
			ds := fmt.Sprintf("burst-%d", rd)
			evs := make([]*types.Event, g)
			for j := range evs {
				id++
				evs[j] = mkEvent(id, rd%2, ds)
			}
			start := make(chan struct{})
			var wg sync.WaitGroup
			for _, ev := range evs {
				wg.Add(1)
				go func(ev *types.Event) {
					defer wg.Done()
					<-start
					d.EnqueueEvent(ev)
				}(ev)
			}
			close(start)
			wg.Wait()
		}
		d.Stop()
		res.Human = append(res.Human, fmt.Sprintf("%d rounds of %d goroutines enqueueing the first events of a new dataset together", rounds, g))
	case "keys":
		d, err := mk(1000, r.Intn(2) == 0)
		if err != nil {
			return nil, err
		}
		id := 0
		order := r.Perm(len(r2DelivKeys))
		for rep := 0; rep < 3; rep++ {
			for _, k := range order {
				id++
				d.EnqueueEvent(mkEvent(id, k, "shared"))
			}
		}
		d.Stop()
		res.Human = append(res.Human, "4 API keys (2 classic, 2 ingest keys of one environment) x 3 events, same host and dataset, one batch window")
	case "retry-off", "retry-on":
		old := runtime.GOMAXPROCS(1) // sync.Pool is per-P: one P makes the buffer hand-over certain
		defer runtime.GOMAXPROCS(old)
		d, err := mk(4, kind == "retry-on")
		if err != nil {
			return nil, err
		}
		status := []int{429, 503}[r.Intn(2)]
		fail := &r2Fail{remaining: 1, status: status, retryAfter: "0.3"}
		r2Store.mu.Lock()
		r2Store.fail[run+"/1/batch/slow"] = fail
		r2Store.mu.Unlock()
		id := 0
		for j := 0; j < 4; j++ {
			id++
			d.EnqueueEvent(mkEvent(id, 0, "slow"))
		}
		waitFor(func() bool { r2Store.mu.Lock(); defer r2Store.mu.Unlock(); return fail.seen > 0 })
		for b := 0; b < 3; b++ {
			for j := 0; j < 4; j++ {
				id++
				d.EnqueueEvent(mkEvent(id, 1, fmt.Sprintf("fast-%d", b)))
			}
		}
		waitFor(func() bool { return arrivedCount() >= 3 })
		d.Stop()
		r2Store.mu.Lock()
		delete(r2Store.fail, run+"/1/batch/slow")
		r2Store.mu.Unlock()
		res.Human = append(res.Human, fmt.Sprintf("batch of 4 for dataset slow refused once with %d Retry-After 0.3 (compression %v); 3 other batches sent meanwhile", status, kind == "retry-on"))
	default:
		return nil, fmt.Errorf("unknown delivery scenario %q", kind)
	}

	// what arrived
	r2Store.mu.Lock()
	reqs := r2Store.reqs[run]
	delete(r2Store.reqs, run)
	r2Store.mu.Unlock()
	exp := map[int]r2DelivEvent{}
	for _, e := range res.Expected {
		exp[e.ID] = e
	}
	keyIdx := func(k string) int {
		for i, c := range r2DelivKeys {
			if c.key == k {
				return i
			}
		}
		return 99
	}
	for _, rq := range reqs {
		ds := -1
		name := strings.TrimPrefix(rq.Path, "/1/batch/")
		for i, d := range datasets {
			if d == name {
				ds = i
			}
		}
		ki := keyIdx(rq.APIKey)
		v, rest, err := mpDecode(rq.Body)
		if err != nil || len(rest) != 0 || v.T != "arr" {
			res.Arrived = append(res.Arrived, r2DelivArrival{ID: 999999, Key: ki, DS: ds + 1000*boolInt(ds < 0)})
			res.Human = append(res.Human, fmt.Sprintf("request for %s under key %d: body is not one msgpack array", name, ki))
			continue
		}
		for _, ev := range v.A {
			a := r2DelivArrival{ID: 999999, Key: ki, DS: ds}
			var data []mpField
			for _, f := range ev.M {
				if string(f.K) == "data" && f.V.T == "map" {
					data = f.V.M
				}
			}
			got := map[string]mpVal{}
			for _, f := range data {
				got[string(f.K)] = f.V
			}
			if idv, ok := got["id"]; ok && idv.T == "int" {
				a.ID = int(idv.I)
			}
			if e, ok := exp[a.ID]; ok {
				a.OK = len(data) == 4 && got["who"].T == "int" && int(got["who"].I) == e.Key &&
					got["ds"].T == "int" && int(got["ds"].I) == e.DS &&
					got["pad"].T == "str" && string(got["pad"].S) == r2DelivPad(e.ID)
			}
			if a.DS < 0 {
				a.DS = 1000
			}
			res.Arrived = append(res.Arrived, a)
		}
	}
	sort.Slice(res.Arrived, func(i, j int) bool {
		if res.Arrived[i].ID != res.Arrived[j].ID {
			return res.Arrived[i].ID < res.Arrived[j].ID
		}
		return res.Arrived[i].Key < res.Arrived[j].Key
	})
	// summary for humans: anomalies only
	cnt := map[int]int{}
	for _, a := range res.Arrived {
		cnt[a.ID]++
		if e, ok := exp[a.ID]; !ok || e.Key != a.Key || e.DS != a.DS || !a.OK {
			res.Human = append(res.Human, fmt.Sprintf("event %d arrived under key %d dataset %d fields-ok=%v (own: %+v)", a.ID, a.Key, a.DS, a.OK, exp[a.ID]))
		}
	}
	for _, e := range res.Expected {
		if cnt[e.ID] != 1 {
			res.Human = append(res.Human, fmt.Sprintf("event %d arrived %d times", e.ID, cnt[e.ID]))
		}
	}
	if len(res.Human) > 12 {
		res.Human = append(res.Human[:12], fmt.Sprintf("... %d more lines", len(res.Human)-12))
	}
	return res, nil
}

func boolInt(b bool) int {
	if b {
		return 1
	}
	return 0
}

// Gallina: {| d_kind := k; d_expected := [(id, key, ds); ...]; d_arrived := [(id, key, ds, ok); ...] |}
func r2DelivCoq(res *r2DelivResult) string {
	if res == nil {
		return "[]"
	}
	kind := map[string]int{"burst": 1, "keys": 2, "retry-off": 3, "retry-on": 4}[res.Kind]
	xs := make([]string, len(res.Expected))
	for i, e := range res.Expected {
		xs[i] = fmt.Sprintf("(%d%%N, %d%%N, %d%%N)", e.ID, e.Key, e.DS)
	}
	ys := make([]string, len(res.Arrived))
	for i, a := range res.Arrived {
		ys[i] = fmt.Sprintf("(%d%%N, %d%%N, %d%%N, %s)", a.ID, a.Key, a.DS, cq.Bool(a.OK))
	}
	return fmt.Sprintf("[{| d_kind := %d%%N; d_expected := %s; d_arrived := %s |}]", kind, r2ChunkedList(xs), r2ChunkedList(ys))
}

// which scenario the i-th generated case of a run carries ("" = none)
func r2DelivSchedule(i int) string {
	switch {
	case i == 0 || i == 5:
		return "burst"
	case i%20 == 1:
		return "keys"
	case i%40 == 2:
		return "retry-off"
	case i%40 == 22:
		return "retry-on"
	}
	return ""
}

// long list literals are very slow to parse in Coq ([a; b; ...] is a recursive notation): print them
// as a concatenation of short ones
func r2ChunkedList(xs []string) string {
	const n = 24
	if len(xs) <= n {
		return cq.List(xs)
	}
	var parts []string
	for i := 0; i < len(xs); i += n {
		j := i + n
		if j > len(xs) {
			j = len(xs)
		}
		parts = append(parts, cq.List(xs[i:j]))
	}
	return "(" + strings.Join(parts, " ++ ") + ")"
}
