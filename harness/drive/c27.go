package drive

import (
	"context"
	"encoding/json"
	"fmt"
	"math/rand"
	"os"
	"path/filepath"
	"strings"
	"sync"
	"time"

	"go.opentelemetry.io/otel/trace/noop"

	"github.com/honeycombio/refinery/config"
	"github.com/honeycombio/refinery/internal/configwatcher"
	"github.com/honeycombio/refinery/logger"
	cq "github.com/honeycombio/refinery/verifharness/coqfmt"
)

// C27: the real config.fileConfig on temp files. Each step rewrites the config / rules files and
// fires a reload trigger exactly as internal/configwatcher does: a timer tick (Config.Reload()),
// a pubsub message (ConfigWatcher.SubscriptionListener), a malformed pubsub message, or a burst of
// concurrent triggers. "Startup would accept" is measured, not assumed: a fresh config.NewConfig
// with the same version runs on the same files.

type c27File struct {
	Kind string `json:"kind"` // valid warn gated invalid garbage missing (gated: a key removed in v2.6 -> rejected by a
	// running version above it, only a warning without a version)
	K    int    `json:"k,omitempty"`
}
type c27Step struct {
	Cfg     *c27File `json:"cfg,omitempty"`   // nil: leave the file as it is
	Rules   *c27File `json:"rules,omitempty"` // nil: leave the file as it is
	Trigger string   `json:"trigger"`         // timer pubsub badmsg burst gated lostupdate
	Cfg2    *c27File `json:"cfg2,omitempty"`  // lostupdate: what the files hold when the second trigger arrives
	Rules2  *c27File `json:"rules2,omitempty"`
	N       int      `json:"n,omitempty"`     // burst size
}
type c27Input struct {
	Version string    `json:"version,omitempty"`
	Cfg     c27File   `json:"cfg"`
	Rules   c27File   `json:"rules"`
	Steps   []c27Step `json:"steps"`
}

func init() {
	Register(&Driver{ID: "C27", Gen: c27Gen, Run: c27Run, Shrink: c27Shrink})
}

func c27GenFile(r *rand.Rand, rules bool) *c27File {
	k := r.Intn(3)
	switch x := r.Intn(100); {
	case x < 40:
		return &c27File{Kind: "valid", K: k}
	case x < 65:
		if rules {
			return &c27File{Kind: "valid", K: k + 3}
		}
		return &c27File{Kind: "warn", K: k}
	case x < 72:
		if !rules {
			return &c27File{Kind: "gated", K: k}
		}
		return &c27File{Kind: "invalid", K: k}
	case x < 80:
		return &c27File{Kind: "invalid", K: k}
	case x < 90:
		return &c27File{Kind: "garbage", K: k}
	default:
		return &c27File{Kind: "missing"}
	}
}

func c27Gen(r *rand.Rand, tier string, i int) any {
	in := c27Input{Version: []string{"", "v2.9.0", "v3.0.0", "v3.1.0"}[r.Intn(4)]}
	in.Cfg = c27File{Kind: "valid", K: r.Intn(3)}
	if in.Version != "v3.1.0" && r.Intn(2) == 0 {
		in.Cfg.Kind = "warn" // the process STARTS with a warning-only config
	}
	in.Rules = c27File{Kind: "valid", K: r.Intn(3)}
	n := 3 + r.Intn(5)
	if tier == "thorough" {
		n = 3 + r.Intn(12)
	}
	for j := 0; j < n; j++ {
		st := c27Step{}
		switch x := r.Intn(100); {
		case x < 25: // nothing changed
		case x < 65:
			st.Cfg = c27GenFile(r, false)
		case x < 88:
			st.Rules = c27GenFile(r, true)
		default:
			st.Cfg = c27GenFile(r, false)
			st.Rules = c27GenFile(r, true)
		}
		switch x := r.Intn(100); {
		case x < 35:
			st.Trigger = "timer"
		case x < 60:
			st.Trigger = "pubsub"
		case x < 70:
			st.Trigger = "badmsg"
		case x < 85:
			st.Trigger = "burst"
			st.N = 2 + r.Intn(5)
		case x < 92:
			st.Trigger = "gated"
			st.N = 2 + r.Intn(3)
		default:
			// reload A is held at the store, the files change again, trigger B arrives, A finishes
			st.Trigger = "lostupdate"
			st.Cfg = &c27File{Kind: "valid", K: r.Intn(3)}
			if r.Intn(4) == 0 {
				st.Cfg = c27GenFile(r, false)
			}
			if r.Intn(2) == 0 {
				st.Cfg2 = &c27File{Kind: []string{"valid", "valid", "warn"}[r.Intn(3)], K: r.Intn(3)}
			} else {
				st.Rules2 = &c27File{Kind: "valid", K: r.Intn(6)}
			}
			if r.Intn(6) == 0 {
				st.Cfg2 = c27GenFile(r, false)
			}
		}
		in.Steps = append(in.Steps, st)
	}
	return in
}

func c27CfgBytes(f c27File) []byte {
	base := fmt.Sprintf("General:\n  ConfigurationVersion: 2\nTraces:\n  SendDelay: %ds\nLogger:\n  Level: %s\n",
		2+f.K, []string{"debug", "info", "warn"}[f.K%3])
	switch f.Kind {
	case "valid":
		return []byte(base)
	case "warn": // Collection.CacheCapacity: deprecated, lastversion v3.0.0
		return []byte(base + fmt.Sprintf("Collection:\n  CacheCapacity: %d\n  PeerQueueSize: %d\n", 1000+f.K, 3000+f.K))
	case "gated": // RedisPeerManagement.Prefix: deprecated, lastversion v2.6
		return []byte(base + fmt.Sprintf("RedisPeerManagement:\n  Prefix: pre%d\n", f.K))
	case "invalid":
		if f.K%2 == 0 {
			return []byte(base + "Traces2:\n  Bogus: 1\n")
		}
		return []byte(strings.Replace(base, fmt.Sprintf("SendDelay: %ds", 2+f.K), "SendDelay: notaduration", 1))
	default:
		return []byte(fmt.Sprintf("General: [unclosed %d\n\t{{{\n", f.K))
	}
}
func c27RulesBytes(f c27File) []byte {
	switch f.Kind {
	case "valid", "warn":
		return []byte(fmt.Sprintf("RulesVersion: 2\nSamplers:\n  __default__:\n    DeterministicSampler:\n      SampleRate: %d\n", 1+f.K))
	case "invalid":
		if f.K%2 == 0 {
			return []byte("RulesVersion: 2\nSamplers:\n  env1:\n    DeterministicSampler:\n      SampleRate: 5\n") // no __default__
		}
		return []byte("RulesVersion: 1\nSamplers:\n  __default__:\n    DeterministicSampler:\n      SampleRate: 5\n")
	default:
		return []byte(fmt.Sprintf("Samplers: [unclosed %d\n\t{{{\n", f.K))
	}
}

func c27Values(c config.Config) string {
	sc, name := c.GetSamplerConfigForDestName("env1")
	return fmt.Sprintf("delay=%v level=%v cache=%v sampler=%s %+v", time.Duration(c.GetTracesConfig().SendDelay), c.GetLoggerLevel(),
		c.GetCollectionConfig().PeerQueueSize, name, sc)
}

type c27Interner struct {
	ids map[string]uint64
}

func (t *c27Interner) id(s string) uint64 {
	if v, ok := t.ids[s]; ok {
		return v
	}
	v := uint64(len(t.ids) + 1)
	t.ids[s] = v
	return v
}

func c27Run(raw json.RawMessage) (Case, error) {
	var in c27Input
	if err := json.Unmarshal(raw, &in); err != nil {
		return Case{}, err
	}
	dir, err := os.MkdirTemp(".", "c27-")
	if err != nil {
		return Case{}, err
	}
	defer os.RemoveAll(dir)
	cfgPath, rulesPath := filepath.Join(dir, "config.yaml"), filepath.Join(dir, "rules.yaml")
	var version []string
	if in.Version != "" {
		version = []string{in.Version}
	}
	write := func(path string, f c27File, rules bool) error {
		if f.Kind == "missing" {
			os.Remove(path)
			return nil
		}
		b := c27CfgBytes(f)
		if rules {
			b = c27RulesBytes(f)
		}
		return os.WriteFile(path, b, 0o644)
	}
	if err := write(cfgPath, in.Cfg, false); err != nil {
		return Case{}, err
	}
	if err := write(rulesPath, in.Rules, true); err != nil {
		return Case{}, err
	}
	newOpts := func() *config.CmdEnv {
		return &config.CmdEnv{ConfigLocations: []string{cfgPath}, RulesLocations: []string{rulesPath}}
	}
	contents := &c27Interner{ids: map[string]uint64{}} // bytes of both files -> content id
	values := &c27Interner{ids: map[string]uint64{}}   // getter tuple -> value id
	hashIDs := map[string]uint64{}                     // GetHashes() pair -> content id
	// what startup makes of the files as they are now
	type verdict struct {
		readable bool
		id       uint64
		acc      bool
		warn     bool
		val      uint64
		term     string
	}
	oracle := func() verdict {
		cb, e1 := os.ReadFile(cfgPath)
		rb, e2 := os.ReadFile(rulesPath)
		if e1 != nil || e2 != nil {
			return verdict{term: "Unreadable"}
		}
		v := verdict{readable: true, id: contents.id(string(cb) + "\x00|\x00" + string(rb))}
		fresh, err := config.NewConfig(newOpts(), version...)
		if fresh != nil {
			v.acc, v.warn = true, err != nil
			v.val = values.id(c27Values(fresh))
			h1, h2 := fresh.GetHashes()
			hashIDs[h1+"|"+h2] = v.id
		}
		v.term = fmt.Sprintf("(Readable {| chash := %s; cacc := %s; cwarn := %s; cval := %s |})", cq.N(v.id), cq.Bool(v.acc), cq.Bool(v.warn), cq.N(v.val))
		return v
	}

	v0 := oracle()
	cfg, err := config.NewConfig(newOpts(), version...)
	if cfg == nil {
		return Case{}, fmt.Errorf("C27: initial files are not accepted by startup: %v", err)
	}
	const nListeners = 2
	var mu sync.Mutex
	got := make([][]string, nListeners)
	for l := 0; l < nListeners; l++ {
		l := l
		cfg.RegisterReloadCallback(func(h1, h2 string) {
			mu.Lock()
			got[l] = append(got[l], h1+"|"+h2)
			mu.Unlock()
		})
	}
	cw := &configwatcher.ConfigWatcher{Config: cfg, Logger: &logger.NullLogger{}, Tracer: noop.NewTracerProvider().Tracer("verif")}

	tags := map[string]bool{"version:" + in.Version: true}
	var steps, human []string
	nontriv := false
	for _, st := range in.Steps {
		if st.Cfg != nil {
			if err := write(cfgPath, *st.Cfg, false); err != nil {
				return Case{}, err
			}
		}
		if st.Rules != nil {
			if err := write(rulesPath, *st.Rules, true); err != nil {
				return Case{}, err
			}
		}
		v := oracle()
		v2 := verdict{term: "Unreadable"}
		mu.Lock()
		for l := range got {
			got[l] = nil
		}
		mu.Unlock()
		kind, n := 0, 1
		msg := time.Unix(1_700_000_000, 0).UTC().Format(time.RFC3339)
		switch st.Trigger {
		case "lostupdate":
			kind, n = 4, 2
			release, _ := config.VerifC27HoldConfigReadLock(cfg)
			var wg sync.WaitGroup
			wg.Add(1)
			go func() { defer wg.Done(); cfg.Reload() }() // A: reads the first content, is held at the store if it applies it
			time.Sleep(70 * time.Millisecond)
			if st.Cfg2 != nil {
				if err := write(cfgPath, *st.Cfg2, false); err != nil {
					return Case{}, err
				}
			}
			if st.Rules2 != nil {
				if err := write(rulesPath, *st.Rules2, true); err != nil {
					return Case{}, err
				}
			}
			v2 = oracle()
			wg.Add(1)
			go func() { defer wg.Done(); cw.SubscriptionListener(context.Background(), msg) }() // B: arrives while A is in flight
			time.Sleep(40 * time.Millisecond)
			release()
			wg.Wait()
		case "timer":
			cfg.Reload() // what ConfigWatcher.monitor does on every tick; its error is only logged
		case "pubsub":
			kind = 1
			cw.SubscriptionListener(context.Background(), msg)
		case "badmsg":
			kind = 2
			cw.SubscriptionListener(context.Background(), "not a timestamp")
		case "burst", "gated":
			kind, n = 3, st.N
			if n < 2 {
				n = 2
			}
			if n > 6 {
				n = 6
			}
			start := make(chan struct{})
			var wg sync.WaitGroup
			for g := 0; g < n; g++ {
				wg.Add(1)
				go func(g int) {
					defer wg.Done()
					<-start
					if g%2 == 0 {
						cfg.Reload()
					} else {
						cw.SubscriptionListener(context.Background(), msg)
					}
				}(g)
			}
			// "gated": every reloader that decides to store is held at the store until all had time to
			// decide; without serialization they all decide on the same stale comparison
			release := func() {}
			if st.Trigger == "gated" {
				release, _ = config.VerifC27HoldConfigReadLock(cfg)
			}
			close(start)
			if st.Trigger == "gated" {
				time.Sleep(time.Duration(40+20*n) * time.Millisecond)
			}
			release()
			wg.Wait()
		default:
			return Case{}, fmt.Errorf("bad trigger %q", st.Trigger)
		}
		h1, h2 := cfg.GetHashes()
		hid, ok := hashIDs[h1+"|"+h2]
		if !ok {
			hid = 9999
		}
		val := values.id(c27Values(cfg))
		mu.Lock()
		var notes []string
		total := 0
		for l := range got {
			var ids []uint64
			for _, h := range got[l] {
				id, ok := hashIDs[h]
				if !ok {
					id = 9999
				}
				ids = append(ids, id)
			}
			total += len(ids)
			notes = append(notes, cq.ListN(ids))
		}
		mu.Unlock()
		steps = append(steps, fmt.Sprintf("{| so_kind := %s; so_n := %s; so_src := %s; so_src2 := %s; so_val := %s; so_hash := %s; so_notes := %s |}",
			cq.N(uint64(kind)), cq.N(uint64(n)), v.term, v2.term, cq.N(val), cq.N(hid), cq.List(notes)))
		desc := "unreadable"
		if v.readable {
			desc = fmt.Sprintf("content#%d accepted=%v warnings=%v", v.id, v.acc, v.warn)
		}
		if st.Trigger == "lostupdate" {
			desc += fmt.Sprintf(", then (while the first reload is in flight) content#%d accepted=%v", v2.id, v2.acc)
			tags["file-change-while-reload-in-flight"] = true
		}
		human = append(human, fmt.Sprintf("%s x%d on %s -> running content#%d values#%d callbacks=%d", st.Trigger, n, desc, hid, val, total))
		tags["trigger:"+st.Trigger] = true
		if v.readable && v.acc && v.warn {
			tags["warning-only-content"] = true
		}
		if v0.warn {
			tags["started-with-warning-only-config"] = true
			if v.readable && !v.acc {
				tags["started-with-warnings-then-rejected-content"] = true
			}
		}
		if !v.readable {
			tags["unreadable"] = true
		} else if !v.acc {
			tags["rejected-content"] = true
		}
		if total > 0 {
			tags["change-applied"] = true
			nontriv = true
			if st.Trigger == "burst" || st.Trigger == "gated" {
				tags["change-applied-under-"+st.Trigger] = true
			}
		}
	}
	init := fmt.Sprintf("{| chash := %s; cacc := %s; cwarn := %s; cval := %s |}", cq.N(v0.id), cq.Bool(v0.acc), cq.Bool(v0.warn), cq.N(v0.val))
	coq := fmt.Sprintf("{| c_init := %s; c_steps := %s |}", init, cq.List(steps))
	var tl []string
	for t := range tags {
		tl = append(tl, t)
	}
	return Case{Coq: coq, Key: in.Version + "|" + strings.Join(steps, ";"), Nontriv: nontriv, Tags: tl,
		Summary: map[string]any{"version": in.Version, "history": human}}, nil
}

func c27Shrink(raw json.RawMessage) []json.RawMessage {
	var in c27Input
	if json.Unmarshal(raw, &in) != nil {
		return nil
	}
	var out []json.RawMessage
	emit := func(c c27Input) {
		b, _ := json.Marshal(c)
		out = append(out, b)
	}
	for i := range in.Steps {
		c := in
		c.Steps = append(append([]c27Step{}, in.Steps[:i]...), in.Steps[i+1:]...)
		emit(c)
	}
	for i, st := range in.Steps {
		if (st.Trigger == "burst" || st.Trigger == "gated") && st.N > 2 {
			c := in
			c.Steps = append([]c27Step{}, in.Steps...)
			c.Steps[i].N = 2
			emit(c)
		}
		if st.Cfg != nil && st.Rules != nil {
			c := in
			c.Steps = append([]c27Step{}, in.Steps...)
			c.Steps[i].Rules = nil
			emit(c)
		}
	}
	return out
}
