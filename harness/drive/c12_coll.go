package drive

import (
	"fmt"
	"sync"
	"time"

	"github.com/honeycombio/refinery/collect"
	"github.com/honeycombio/refinery/config"
	"github.com/honeycombio/refinery/internal/health"
	"github.com/honeycombio/refinery/internal/peer"
	"github.com/honeycombio/refinery/logger"
	"github.com/honeycombio/refinery/metrics"
	"github.com/honeycombio/refinery/pubsub"
	"github.com/honeycombio/refinery/sample"
	"github.com/honeycombio/refinery/sharder"
	"github.com/honeycombio/refinery/types"
	cq "github.com/honeycombio/refinery/verifharness/coqfmt"
	"github.com/jonboulle/clockwork"
	"go.opentelemetry.io/otel/trace/noop"
)

// C12, collector level: the REAL InMemCollector.reloadConfigs with several workers. The workers are
// parked (VerifC04Park) and driven one step at a time (VerifC01ProcessSpan / SendExpired). The
// configuration double calls back into the driver when reloadConfigs reads the stress-relief
// configuration, which the handler does BETWEEN clearing the shared sampler registry and signalling
// the workers: at that point one worker runs its reload branch if a signal is already pending (hook
// VerifC12HandleReload) and takes a decision. Afterwards every worker runs its reload branch if a
// signal is pending and decides again; the dynsampler instance behind each worker's cached sampler
// is read through VerifC12WorkerSampler / VerifC12Dynsampler.

type c12Reload struct {
	Workers int     `json:"workers"`
	Actor   int     `json:"actor"`
	Def     sampDef `json:"def"`
}

type c12Conf struct {
	*config.MockConfig
	mu   sync.Mutex
	hook func()
}

func (c *c12Conf) GetStressReliefConfig() config.StressReliefConfig {
	c.mu.Lock()
	h := c.hook
	c.hook = nil // one shot
	c.mu.Unlock()
	if h != nil {
		h()
	}
	return c.MockConfig.GetStressReliefConfig()
}

type c12Tx struct{}

func (t *c12Tx) EnqueueEvent(ev *types.Event) {}
func (t *c12Tx) EnqueueSpan(sp *types.Span)   {}

func c12RunReload(in c12Reload) (coq string, human []string, err error) {
	if in.Workers < 2 {
		in.Workers = 2
	}
	if in.Actor < 0 || in.Actor >= in.Workers {
		in.Actor = 0
	}
	cfgDef, _, err := sampBuild(in.Def)
	if err != nil {
		return "", nil, err
	}
	ch := &config.V2SamplerChoice{}
	switch x := cfgDef.(type) {
	case *config.DynamicSamplerConfig:
		ch.DynamicSampler = x
	case *config.EMADynamicSamplerConfig:
		ch.EMADynamicSampler = x
	case *config.EMAThroughputSamplerConfig:
		ch.EMAThroughputSampler = x
	case *config.WindowedThroughputSamplerConfig:
		ch.WindowedThroughputSampler = x
	case *config.TotalThroughputSamplerConfig:
		ch.TotalThroughputSampler = x
	}
	mock := &config.MockConfig{
		GetTracesConfigVal: config.TracesConfig{SendTicker: config.Duration(time.Hour), SendDelay: config.Duration(time.Second),
			TraceTimeout: config.Duration(60 * time.Second), MaxBatchSize: 500, MaxExpiredTraces: 100000},
		SampleCache:        config.SampleCacheConfig{KeptSize: 10000, DroppedSize: 100000, SizeCheckInterval: config.Duration(time.Hour)},
		TraceIdFieldNames:  []string{"trace.trace_id"},
		ParentIdFieldNames: []string{"trace.parent_id"},
		GetCollectionConfigVal: config.CollectionConfig{WorkerCount: in.Workers, ShutdownDelay: config.Duration(time.Millisecond),
			IncomingQueueSize: 16, PeerQueueSize: 16},
		Samplers: map[string]*config.V2SamplerChoice{"prod": ch,
			"__default__": {DeterministicSampler: &config.DeterministicSamplerConfig{SampleRate: 1}}},
	}
	conf := &c12Conf{MockConfig: mock}
	clock := clockwork.NewFakeClockAt(time.Unix(1_700_000_000, 0))
	met := &metrics.MockMetrics{}
	met.Start()
	hr := &health.Health{Clock: clock}
	hr.Start()
	defer hr.Stop()
	ps := &pubsub.LocalPubSub{Config: conf, Metrics: met}
	ps.Start()
	defer ps.Stop()
	sf := &sample.SamplerFactory{Config: conf, Metrics: met, Logger: &logger.NullLogger{}}
	if err := sf.Start(); err != nil {
		return "", nil, err
	}
	defer sf.Stop()
	sr := &collect.StressRelief{Config: conf, Logger: &logger.NullLogger{}, RefineryMetrics: met, Health: hr}
	coll := &collect.InMemCollector{
		TestMode: true, Config: conf, Clock: clock, Logger: &logger.NullLogger{},
		Tracer: noop.NewTracerProvider().Tracer("verif"), Health: hr,
		Transmission: &c12Tx{}, PeerTransmission: &c12Tx{},
		PubSub: ps, Metrics: met, StressRelief: sr, SamplerFactory: sf,
		Peers:   peer.NewMockPeers([]string{"api1"}, "api1"),
		Sharder: &sharder.MockSharder{Self: &sharder.TestShard{Addr: "api1"}},
	}
	if err := coll.Start(); err != nil {
		return "", nil, err
	}
	resume := coll.VerifC04Park()
	defer func() {
		resume()
		coll.Stop()
	}()
	if coll.VerifC01NumWorkers() != in.Workers {
		return "", nil, fmt.Errorf("collector has %d workers, wanted %d", coll.VerifC01NumWorkers(), in.Workers)
	}

	ids := map[any]uint64{}
	number := func(s sample.Sampler) string {
		if s == nil {
			return "None"
		}
		p := sample.VerifC12Dynsampler(s)
		if p == nil {
			return "None"
		}
		n, ok := ids[p]
		if !ok {
			n = uint64(len(ids))
			ids[p] = n
		}
		return cq.Some(cq.N(n))
	}
	next := 0
	// worker w decides one fresh trace of environment prod; returns the instance behind its cached sampler
	decide := func(w int) string {
		var id string
		for {
			id = fmt.Sprintf("c12-reload-%d", next)
			next++
			if coll.VerifC01WorkerForTrace(id) == w {
				break
			}
		}
		sp := &types.Span{TraceID: id, IsRoot: true, Event: &types.Event{APIHost: "http://api", APIKey: "abcdefghij0123456789ab",
			Environment: "prod", Dataset: "ds", Data: types.NewPayload(conf, map[string]any{"a": "x"})}}
		coll.VerifC01ProcessSpan(w, sp)
		coll.VerifC01SendExpired(w, clock.Now().Add(24*time.Hour))
		return number(coll.VerifC12WorkerSampler(w, "prod"))
	}

	var before, after []string
	for w := 0; w < in.Workers; w++ {
		before = append(before, decide(w))
	}
	midHandled, mid, hookRan := false, "None", false
	conf.mu.Lock()
	conf.hook = func() {
		hookRan = true
		midHandled = coll.VerifC12HandleReload(in.Actor)
		mid = decide(in.Actor)
	}
	conf.mu.Unlock()
	coll.VerifC12ReloadConfigs()
	if !hookRan {
		return "", nil, fmt.Errorf("reloadConfigs did not read the stress-relief configuration: no point between its steps to act at")
	}
	handledAfter := 0
	for w := 0; w < in.Workers; w++ {
		if coll.VerifC12HandleReload(w) {
			handledAfter++
		}
		after = append(after, decide(w))
	}
	dc, err := sampDefCoq(in.Def)
	if err != nil {
		return "", nil, err
	}
	coq = cq.Some(fmt.Sprintf("(Build_robs %s %s %s %s %s %s %s)", cq.N(uint64(in.Workers)), cq.N(uint64(in.Actor)), dc,
		cq.Bool(midHandled), cq.List(before), mid, cq.List(after)))
	human = []string{
		fmt.Sprintf("%d workers decide: instances %v", in.Workers, before),
		fmt.Sprintf("inside reloadConfigs (between its steps): worker %d reload signal pending=%v, decides with instance %s", in.Actor, midHandled, mid),
		fmt.Sprintf("after reloadConfigs: %d workers had a pending signal; they decide with instances %v", handledAfter, after),
	}
	return coq, human, nil
}
