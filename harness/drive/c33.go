package drive

import (
	"encoding/json"
	"fmt"
	"math/rand"
	"runtime"
	"strings"
	"sync"
	"sync/atomic"

	"github.com/honeycombio/refinery/metrics"
	cq "github.com/honeycombio/refinery/verifharness/coqfmt"
)

// C33: the real metrics.MultiMetrics (no children) driven through its public API:
// sequential histories with registrations anywhere (lazy re-registration), and - when `par` > 1 -
// a concurrent phase in which `par` goroutines replay the same increment / up / register block
// before the final Gets (the expected totals do not depend on the interleaving).

type c33Op struct {
	Op   string `json:"op"` // reg inc count gauge up down store hist get
	Name int    `json:"name"`
	Kind string `json:"kind,omitempty"` // counter gauge updown histogram
	V    int64  `json:"v,omitempty"`
}
type c33Input struct {
	Ops []c33Op `json:"ops"`
	// concurrent block: every worker executes Block once, all workers concurrently, then Tail runs
	Par   int     `json:"par,omitempty"`
	Block []c33Op `json:"block,omitempty"`
	Tail  []c33Op `json:"tail,omitempty"`
	// race phase: for every entry, Workers goroutines are released together (spin barrier) and each
	// performs its FIRST operation on a fresh name that nothing has touched before; the name is
	// never registered, or is registered by one more goroutine released at the same instant
	Race []c33Race `json:"race,omitempty"`
	// recorder phase (c33_rec.go): the dynsampler metrics recorder of sample/sample.go on this store
	Rec *c33Rec `json:"rec,omitempty"`
}

// one fresh name: the operations of the racing goroutines (one each)
type c33Race struct {
	Kind string  `json:"kind"`          // counter updown
	Ops  []int64 `json:"ops"`           // counter: 1 = Increment, n>1 = Count(n); updown: +1 = Up, -1 = Down
	Reg  bool    `json:"reg,omitempty"` // a further goroutine registers the name concurrently
}

func init() {
	Register(&Driver{ID: "C33", Gen: c33Gen, Run: c33Run, Shrink: c33Shrink})
}

var c33Kinds = []string{"counter", "gauge", "updown"}

func c33Gen(r *rand.Rand, tier string, i int) any {
	var in c33Input
	nn := 1 + r.Intn(4)
	kind := make([]string, nn+1)
	for k := 1; k <= nn; k++ {
		kind[k] = c33Kinds[r.Intn(3)]
	}
	valueOp := func(k int) c33Op {
		switch kind[k] {
		case "counter":
			if r.Intn(3) == 0 {
				return c33Op{Op: "count", Name: k, V: []int64{0, 1, 2, 10, 1 << 33}[r.Intn(5)]}
			}
			return c33Op{Op: "inc", Name: k}
		case "gauge":
			return c33Op{Op: "gauge", Name: k, V: []int64{0, 1, -3, 100, 1 << 40}[r.Intn(5)]}
		default:
			if r.Intn(3) == 0 {
				return c33Op{Op: "down", Name: k}
			}
			return c33Op{Op: "up", Name: k}
		}
	}
	gen := func(n int, gets bool) []c33Op {
		var ops []c33Op
		for j := 0; j < n; j++ {
			k := 1 + r.Intn(nn)
			switch x := r.Intn(100); {
			case x < 18: // (re-)registration, as lazily created samplers and caches do
				ops = append(ops, c33Op{Op: "reg", Name: k, Kind: kind[k]})
			case x < 62:
				ops = append(ops, valueOp(k))
			case x < 66:
				ops = append(ops, c33Op{Op: "store", Name: 10 + r.Intn(2), V: int64(r.Intn(1000))})
			case x < 69:
				ops = append(ops, c33Op{Op: "hist", Name: k, V: 5})
			case x < 71:
				ops = append(ops, c33Op{Op: "reg", Name: 20, Kind: "histogram"})
			default:
				if gets {
					nm := k
					if r.Intn(8) == 0 {
						nm = []int{10, 11, 20, 30}[r.Intn(4)]
					}
					ops = append(ops, c33Op{Op: "get", Name: nm})
					if r.Intn(3) == 0 { // register right after looking: the next Get must not go down
						ops = append(ops, c33Op{Op: "reg", Name: k, Kind: kind[k]}, c33Op{Op: "get", Name: k})
					}
				}
			}
		}
		return ops
	}
	n := 6 + r.Intn(30)
	if tier == "thorough" {
		n = 6 + r.Intn(100)
	}
	in.Ops = gen(n, true)
	if r.Intn(4) == 0 {
		in.Par = 2 + r.Intn(3)
		in.Block = gen(4+r.Intn(12), false)
		var blk []c33Op
		for _, o := range in.Block { // keep the block order-insensitive: no gauge / store writes
			if o.Op != "gauge" && o.Op != "store" {
				blk = append(blk, o)
			}
		}
		in.Block = blk
	}
	for k := 1; k <= nn; k++ {
		in.Tail = append(in.Tail, c33Op{Op: "get", Name: k})
	}
	if r.Intn(2) == 0 {
		names := 24 + r.Intn(24)
		if tier == "thorough" {
			names = 48 + r.Intn(49)
		}
		workers := []int{2, 2, 3, 4, 6, 8}[r.Intn(6)]
		for j := 0; j < names; j++ {
			rc := c33Race{Kind: "counter", Reg: r.Intn(4) == 0}
			if r.Intn(4) == 0 {
				rc.Kind = "updown"
			}
			for w := 0; w < workers; w++ {
				switch {
				case rc.Kind == "updown" && r.Intn(3) == 0:
					rc.Ops = append(rc.Ops, -1)
				case rc.Kind == "counter" && r.Intn(3) == 0:
					rc.Ops = append(rc.Ops, int64(2+r.Intn(9)))
				default:
					rc.Ops = append(rc.Ops, 1)
				}
			}
			in.Race = append(in.Race, rc)
		}
	}
	if r.Intn(3) == 0 {
		in.Rec = c33GenRec(r, tier)
	}
	return in
}

const c33RaceBase = 1000 // names of the race phase: metric_1000, metric_1001, ...

// c33RunRace releases, for every fresh name in turn, all its goroutines at the same instant.
func c33RunRace(m *metrics.MultiMetrics, race []c33Race) {
	maxW := 0
	for _, rc := range race {
		w := len(rc.Ops)
		if rc.Reg {
			w++
		}
		if w > maxW {
			maxW = w
		}
	}
	if maxW == 0 {
		return
	}
	names := make([]string, len(race))
	for i := range race {
		names[i] = fmt.Sprintf("metric_%d", c33RaceBase+i)
	}
	gates := make([]atomic.Int32, len(race))
	var wg sync.WaitGroup
	for w := 0; w < maxW; w++ {
		wg.Add(1)
		go func(w int) {
			defer wg.Done()
			for i, rc := range race {
				parties := len(rc.Ops)
				if rc.Reg {
					parties++
				}
				if w >= parties {
					continue
				}
				// spin barrier: everybody arrives, then everybody goes at once
				gates[i].Add(1)
				for spins := 0; gates[i].Load() < int32(parties); spins++ {
					if spins&1023 == 1023 {
						runtime.Gosched()
					}
				}
				if w == len(rc.Ops) { // the registering goroutine
					mt := metrics.Counter
					if rc.Kind == "updown" {
						mt = metrics.UpDown
					}
					m.Register(metrics.Metadata{Name: names[i], Type: mt})
					continue
				}
				switch v := rc.Ops[w]; {
				case rc.Kind == "updown" && v < 0:
					m.Down(names[i])
				case rc.Kind == "updown":
					m.Up(names[i])
				case v == 1:
					m.Increment(names[i])
				default:
					m.Count(names[i], v)
				}
			}
		}(w)
	}
	wg.Wait()
}

func c33Kind(s string) (metrics.MetricType, string, error) {
	switch s {
	case "counter":
		return metrics.Counter, "KCounter", nil
	case "gauge":
		return metrics.Gauge, "KGauge", nil
	case "updown":
		return metrics.UpDown, "KUpDown", nil
	case "histogram":
		return metrics.Histogram, "KHist", nil
	}
	return 0, "", fmt.Errorf("bad kind %q", s)
}

func c33Run(raw json.RawMessage) (Case, error) {
	var in c33Input
	if err := json.Unmarshal(raw, &in); err != nil {
		return Case{}, err
	}
	m := metrics.NewMultiMetrics()
	name := func(k int) string { return fmt.Sprintf("metric_%d", k) }
	var ops, obs, human []string
	reRegAfterUse := false
	used := map[int]bool{}
	apply := func(o c33Op, record bool) error {
		var cop, out string
		switch o.Op {
		case "reg":
			mt, ck, err := c33Kind(o.Kind)
			if err != nil {
				return err
			}
			m.Register(metrics.Metadata{Name: name(o.Name), Type: mt})
			cop = cq.App("MReg", cq.N(uint64(o.Name)), ck)
			if record && used[o.Name] {
				reRegAfterUse = true
			}
		case "inc":
			m.Increment(name(o.Name))
			cop = cq.App("MInc", cq.N(uint64(o.Name)))
		case "count":
			m.Count(name(o.Name), o.V)
			cop = cq.App("MCount", cq.N(uint64(o.Name)), cq.Z(o.V))
		case "gauge":
			m.Gauge(name(o.Name), float64(o.V))
			cop = cq.App("MGaugeSet", cq.N(uint64(o.Name)), cq.Z(o.V))
		case "up":
			m.Up(name(o.Name))
			cop = cq.App("MUp", cq.N(uint64(o.Name)))
		case "down":
			m.Down(name(o.Name))
			cop = cq.App("MDown", cq.N(uint64(o.Name)))
		case "store":
			m.Store(name(o.Name), float64(o.V))
			cop = cq.App("MStore", cq.N(uint64(o.Name)), cq.Z(o.V))
		case "hist":
			m.Histogram(name(o.Name), float64(o.V))
			cop = cq.App("MHist", cq.N(uint64(o.Name)))
		case "get":
			if !record {
				return fmt.Errorf("get inside the concurrent block")
			}
			v, ok := m.Get(name(o.Name))
			cop = cq.App("MGet", cq.N(uint64(o.Name)))
			if !ok {
				out = cq.None()
			} else {
				if v != float64(int64(v)) {
					return fmt.Errorf("Get(%s) = %v is not integral", name(o.Name), v)
				}
				out = cq.Some(cq.Z(int64(v)))
			}
		default:
			return fmt.Errorf("bad op %q", o.Op)
		}
		// the concurrent block runs apply from several goroutines: the bookkeeping map is only
		// written on the sequential (recording) path
		if record && o.Op != "reg" && o.Op != "get" && o.Op != "hist" && o.Op != "store" {
			used[o.Name] = true
		}
		if record {
			ops = append(ops, cop)
			if out != "" {
				obs = append(obs, out)
				human = append(human, cop+" -> "+out)
			} else {
				human = append(human, cop)
			}
		}
		return nil
	}
	for _, o := range in.Ops {
		if err := apply(o, true); err != nil {
			return Case{}, err
		}
	}
	tags := []string{}
	if in.Par > 1 && len(in.Block) > 0 {
		if in.Par > 8 {
			in.Par = 8
		}
		for _, o := range in.Block {
			if o.Op == "get" || o.Op == "gauge" || o.Op == "store" {
				return Case{}, fmt.Errorf("concurrent block must be order-insensitive (no %s)", o.Op)
			}
		}
		var wg sync.WaitGroup
		start := make(chan struct{})
		errs := make([]error, in.Par)
		for w := 0; w < in.Par; w++ {
			wg.Add(1)
			go func(w int) {
				defer wg.Done()
				<-start
				for _, o := range in.Block {
					if err := apply(o, false); err != nil {
						errs[w] = err
						return
					}
				}
			}(w)
		}
		close(start)
		wg.Wait()
		for _, e := range errs {
			if e != nil {
				return Case{}, e
			}
		}
		// the model sees the block once per worker, one worker after the other: every interleaving
		// must give the same totals
		for w := 0; w < in.Par; w++ {
			for _, o := range in.Block {
				mo := o
				switch mo.Op {
				case "reg":
					_, ck, _ := c33Kind(mo.Kind)
					ops = append(ops, cq.App("MReg", cq.N(uint64(mo.Name)), ck))
					if used[mo.Name] {
						reRegAfterUse = true
					}
				case "inc":
					ops = append(ops, cq.App("MInc", cq.N(uint64(mo.Name))))
				case "count":
					ops = append(ops, cq.App("MCount", cq.N(uint64(mo.Name)), cq.Z(mo.V)))
				case "up":
					ops = append(ops, cq.App("MUp", cq.N(uint64(mo.Name))))
				case "down":
					ops = append(ops, cq.App("MDown", cq.N(uint64(mo.Name))))
				case "hist":
					ops = append(ops, cq.App("MHist", cq.N(uint64(mo.Name))))
				}
				if mo.Op != "reg" && mo.Op != "hist" {
					used[mo.Name] = true
				}
			}
		}
		human = append(human, fmt.Sprintf("[%d goroutines run concurrently: %d ops each]", in.Par, len(in.Block)))
		tags = append(tags, "concurrent-block")
	}
	for _, o := range in.Tail {
		if err := apply(o, true); err != nil {
			return Case{}, err
		}
	}
	var raceNames []uint64
	if len(in.Race) > 0 {
		if len(in.Race) > 4096 {
			return Case{}, fmt.Errorf("race phase too large")
		}
		for _, rc := range in.Race {
			if (rc.Kind != "counter" && rc.Kind != "updown") || len(rc.Ops) == 0 || len(rc.Ops) > 16 {
				return Case{}, fmt.Errorf("bad race entry %+v", rc)
			}
			for _, v := range rc.Ops {
				if (rc.Kind == "updown" && v != 1 && v != -1) || (rc.Kind == "counter" && v < 1) {
					return Case{}, fmt.Errorf("bad race op %d for %s", v, rc.Kind)
				}
			}
		}
		c33RunRace(m, in.Race)
		lost := 0
		for i, rc := range in.Race {
			nm := uint64(c33RaceBase + i)
			raceNames = append(raceNames, nm)
			// the model sees the racing operations one after the other: every interleaving must
			// give the same total
			if rc.Reg {
				ck := "KCounter"
				if rc.Kind == "updown" {
					ck = "KUpDown"
				}
				ops = append(ops, cq.App("MReg", cq.N(nm), ck))
			}
			var want int64
			for _, v := range rc.Ops {
				want += v
				switch {
				case rc.Kind == "updown" && v < 0:
					ops = append(ops, cq.App("MDown", cq.N(nm)))
				case rc.Kind == "updown":
					ops = append(ops, cq.App("MUp", cq.N(nm)))
				case v == 1:
					ops = append(ops, cq.App("MInc", cq.N(nm)))
				default:
					ops = append(ops, cq.App("MCount", cq.N(nm), cq.Z(v)))
				}
			}
			v, ok := m.Get(fmt.Sprintf("metric_%d", nm))
			ops = append(ops, cq.App("MGet", cq.N(nm)))
			if !ok {
				obs = append(obs, cq.None())
				lost++
			} else {
				if v != float64(int64(v)) {
					return Case{}, fmt.Errorf("Get(metric_%d) = %v is not integral", nm, v)
				}
				obs = append(obs, cq.Some(cq.Z(int64(v))))
				if int64(v) != want {
					lost++
					human = append(human, fmt.Sprintf("race on fresh metric_%d (%s, ops %v, concurrent register %v): Get = %d, sum = %d", nm, rc.Kind, rc.Ops, rc.Reg, int64(v), want))
				}
			}
		}
		human = append(human, fmt.Sprintf("[race phase: %d fresh names, first operations released together; %d disagree with the sum]", len(in.Race), lost))
		tags = append(tags, "race-on-fresh-names")
	}
	if reRegAfterUse {
		tags = append(tags, "register-after-use")
	}
	recObs := "[]"
	if in.Rec != nil {
		ro, lines, err := c33RunRec(m, in.Rec)
		if err != nil {
			return Case{}, err
		}
		recObs = ro
		human = append(human, lines...)
		tags = append(tags, "dynsampler-recorder")
	}
	coq := fmt.Sprintf("{| c_ops := %s; c_race := %s; c_obs := %s; c_rec := %s |}", cq.List(ops), cq.ListN(raceNames), cq.List(obs), recObs)
	return Case{Coq: coq, Key: strings.Join(ops, ";"), Nontriv: reRegAfterUse || len(in.Race) > 0 || in.Rec != nil, Tags: tags,
		Summary: map[string]any{"history": human}}, nil
}

func c33Shrink(raw json.RawMessage) []json.RawMessage {
	var in c33Input
	if json.Unmarshal(raw, &in) != nil {
		return nil
	}
	var out []json.RawMessage
	add := func(c c33Input) {
		b, _ := json.Marshal(c)
		out = append(out, b)
	}
	if in.Par > 1 {
		c := in
		c.Par, c.Block = 0, nil
		add(c)
		for _, keep := range smChunkRemovals(len(in.Block)) {
			c := in
			c.Block = smKeep(in.Block, keep)
			add(c)
		}
	}
	if in.Rec != nil {
		if len(in.Ops) > 0 || len(in.Tail) > 0 || in.Par > 1 || len(in.Race) > 0 {
			c := in
			c.Ops, c.Tail, c.Par, c.Block, c.Race = nil, nil, 0, nil, nil
			add(c)
		}
		c := in
		c.Rec = nil
		add(c)
		if len(in.Rec.Steps) > 1 {
			for _, keep := range smChunkRemovals(len(in.Rec.Steps)) {
				c := in
				rc := *in.Rec
				rc.Steps = smKeep(in.Rec.Steps, keep)
				c.Rec = &rc
				add(c)
			}
		}
	}
	if len(in.Race) > 0 {
		// a lost update is a matter of scheduling: keep the whole race phase while everything
		// around it is cut away, then try a smaller race phase (re-run decides)
		if len(in.Ops) > 0 || len(in.Tail) > 0 || in.Par > 1 {
			c := in
			c.Ops, c.Tail, c.Par, c.Block = nil, nil, 0, nil
			add(c)
		}
		c := in
		c.Race = nil
		add(c)
	}
	for _, keep := range smChunkRemovals(len(in.Ops)) {
		c := in
		c.Ops = smKeep(in.Ops, keep)
		add(c)
	}
	for _, keep := range smChunkRemovals(len(in.Tail)) {
		c := in
		c.Tail = smKeep(in.Tail, keep)
		add(c)
	}
	return out
}
