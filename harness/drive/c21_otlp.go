package drive

// C21, OTLP ingestion: real POST /v1/traces and /v1/logs (application/protobuf) on the incoming
// listener. husky translates the request; trace spans then go through
// processOTLPRequestBatchMsgp (msgpack attribute maps, bytes path) and log records through
// processOTLPRequest (Go maps, map path).

import (
	"encoding/hex"
	"fmt"

	collectorlogs "go.opentelemetry.io/proto/otlp/collector/logs/v1"
	collectortrace "go.opentelemetry.io/proto/otlp/collector/trace/v1"
	commonpb "go.opentelemetry.io/proto/otlp/common/v1"
	logspb "go.opentelemetry.io/proto/otlp/logs/v1"
	resourcepb "go.opentelemetry.io/proto/otlp/resource/v1"
	tracepb "go.opentelemetry.io/proto/otlp/trace/v1"
	"google.golang.org/protobuf/proto"
)

func c21OTLPAttr(name string, v c21Val) (*commonpb.KeyValue, error) {
	kv := &commonpb.KeyValue{Key: name}
	switch v.K {
	case "str":
		kv.Value = &commonpb.AnyValue{Value: &commonpb.AnyValue_StringValue{StringValue: v.S}}
	case "int":
		kv.Value = &commonpb.AnyValue{Value: &commonpb.AnyValue_IntValue{IntValue: 7}}
	case "float":
		kv.Value = &commonpb.AnyValue{Value: &commonpb.AnyValue_DoubleValue{DoubleValue: 1.5}}
	case "bool":
		kv.Value = &commonpb.AnyValue{Value: &commonpb.AnyValue_BoolValue{BoolValue: v.B}}
	default:
		return nil, fmt.Errorf("value kind %s is not sent over OTLP by this driver", v.K)
	}
	return kv, nil
}

// c21OTLPBody builds one export request holding the given events (all of the same encoding).
func c21OTLPBody(enc string, idx []int, evs []c21Event) ([]byte, error) {
	res := &resourcepb.Resource{Attributes: []*commonpb.KeyValue{{Key: "service.name",
		Value: &commonpb.AnyValue{Value: &commonpb.AnyValue_StringValue{StringValue: "svc"}}}}}
	var spans []*tracepb.Span
	var logs []*logspb.LogRecord
	for k, ev := range evs {
		var attrs []*commonpb.KeyValue
		for _, f := range ev.Fields {
			a, err := c21OTLPAttr(f.Name, f.Val)
			if err != nil {
				return nil, err
			}
			attrs = append(attrs, a)
		}
		attrs = append(attrs, &commonpb.KeyValue{Key: "i", Value: &commonpb.AnyValue{Value: &commonpb.AnyValue_IntValue{IntValue: int64(idx[k])}}})
		tid, err := hex.DecodeString(ev.TraceHex)
		if err != nil || (len(tid) != 0 && len(tid) != 16) {
			return nil, fmt.Errorf("bad trace id %q", ev.TraceHex)
		}
		pid, err := hex.DecodeString(ev.ParentHex)
		if err != nil || (len(pid) != 0 && len(pid) != 8) {
			return nil, fmt.Errorf("bad parent id %q", ev.ParentHex)
		}
		if enc == "otlp-trace" {
			spans = append(spans, &tracepb.Span{TraceId: tid, SpanId: []byte{1, 2, 3, 4, 5, 6, 7, byte(idx[k] + 1)}, ParentSpanId: pid,
				Name: "op", Kind: tracepb.Span_SPAN_KIND_SERVER, StartTimeUnixNano: 1700000000000000000, EndTimeUnixNano: 1700000001000000000,
				Attributes: attrs})
		} else {
			logs = append(logs, &logspb.LogRecord{TraceId: tid, SpanId: pid, TimeUnixNano: 1700000000000000000,
				Body: &commonpb.AnyValue{Value: &commonpb.AnyValue_StringValue{StringValue: "msg"}}, Attributes: attrs})
		}
	}
	if enc == "otlp-trace" {
		return proto.Marshal(&collectortrace.ExportTraceServiceRequest{ResourceSpans: []*tracepb.ResourceSpans{{Resource: res,
			ScopeSpans: []*tracepb.ScopeSpans{{Spans: spans}}}}})
	}
	return proto.Marshal(&collectorlogs.ExportLogsServiceRequest{ResourceLogs: []*logspb.ResourceLogs{{Resource: res,
		ScopeLogs: []*logspb.ScopeLogs{{LogRecords: logs}}}}})
}

// the fields refinery is handed for an OTLP event, as far as this property reads them: the
// client's attributes plus what husky derives from the OTLP identifiers.
func c21OTLPFields(ev c21Event) []c21Field {
	fs := append([]c21Field{}, ev.Fields...)
	if ev.TraceHex != "" {
		fs = append(fs, c21Field{Name: "trace.trace_id", Val: c21Val{K: "str", S: ev.TraceHex}})
	}
	if ev.ParentHex != "" {
		fs = append(fs, c21Field{Name: "trace.parent_id", Val: c21Val{K: "str", S: ev.ParentHex}})
	}
	sig := "trace"
	if ev.Enc == "otlp-log" {
		sig = "log"
	}
	return append(fs, c21Field{Name: "meta.signal_type", Val: c21Val{K: "str", S: sig}})
}
