package drive

import (
	"bytes"
	"compress/gzip"
	"context"
	"encoding/json"
	"fmt"
	"io"
	"math/rand"
	"net/http/httptest"
	"strings"
	"time"

	"github.com/gorilla/mux"
	huskyotlp "github.com/honeycombio/husky/otlp"
	"github.com/honeycombio/refinery/config"
	cq "github.com/honeycombio/refinery/verifharness/coqfmt"
	"github.com/klauspost/compress/zstd"
	"github.com/vmihailenco/msgpack/v5"
	collectorlogs "go.opentelemetry.io/proto/otlp/collector/logs/v1"
	collectortrace "go.opentelemetry.io/proto/otlp/collector/trace/v1"
	common "go.opentelemetry.io/proto/otlp/common/v1"
	logspb "go.opentelemetry.io/proto/otlp/logs/v1"
	resource "go.opentelemetry.io/proto/otlp/resource/v1"
	tracepb "go.opentelemetry.io/proto/otlp/trace/v1"
	"google.golang.org/grpc"
	"google.golang.org/grpc/codes"
	"google.golang.org/grpc/metadata"
	"google.golang.org/grpc/status"
	"google.golang.org/protobuf/encoding/protojson"
	"google.golang.org/protobuf/proto"
)

// C23: responses reflect what happened to the data.
// The driver sends one request to a REAL route.Router (real mux, middlewares, handlers, real husky
// translation, real gRPC dispatch) with injected faults and records the status, the number of
// WriteHeader calls, the documents in the body, and every event that reached the collector or a
// transmission.

type c23Ev struct {
	ID  int64  `json:"id"`
	Cls string `json:"cls"` // empty probe nontrace nodata peer mine
}
type c23Input struct {
	Ep       string  `json:"ep"`     // event batch otlp_trace_http otlp_logs_http otlp_trace_grpc otlp_logs_grpc
	Router   string  `json:"router"` // incoming peer
	Via      string  `json:"via"`    // mux direct   (direct: /1/ handlers only, below the middlewares)
	Enc      string  `json:"enc"`    // json msgpack (for /1/)  |  json proto (OTLP HTTP)
	Comp     string  `json:"comp,omitempty"`
	Key      string  `json:"key"`             // legacy modern
	FAuth    bool    `json:"f_auth,omitempty"` // key not accepted (AcceptOnlyListedKeys)
	FBody    string  `json:"f_body,omitempty"` // "" readerr badcomp
	FDataset string  `json:"f_dataset,omitempty"` // "" badescape missing   (direct only)
	FEnv     bool    `json:"f_env,omitempty"`   // environment lookup fails
	FParse   string  `json:"f_parse,omitempty"` // "" trunc garbage
	FCtype   bool    `json:"f_ctype,omitempty"` // OTLP HTTP: unsupported content type
	Events   []c23Ev `json:"events"`
	Admit    []bool  `json:"admit,omitempty"` // collector's answer to the i-th AddSpan
}

const (
	c23Legacy = "0123456789abcdef0123456789abcdef"
	c23Modern = "abcdefghijklmnopqrstuv"
	c23Listed = "fedcba9876543210fedcba9876543210"
)

func init() {
	Register(&Driver{ID: "C23", Gen: c23Gen, Run: c23Run, Shrink: c23Shrink})
}

var c23Eps = []string{"event", "batch", "otlp_trace_http", "otlp_logs_http", "otlp_trace_grpc", "otlp_logs_grpc"}

func c23Gen(r *rand.Rand, tier string, i int) any {
	in := c23Input{Router: "incoming", Via: "mux", Key: "modern"}
	// endpoint: batch is where the item statuses live; weight it
	switch x := r.Intn(100); {
	case x < 40:
		in.Ep = "batch"
	case x < 52:
		in.Ep = "event"
	case x < 66:
		in.Ep = "otlp_trace_http"
	case x < 78:
		in.Ep = "otlp_logs_http"
	case x < 89:
		in.Ep = "otlp_trace_grpc"
	default:
		in.Ep = "otlp_logs_grpc"
	}
	if r.Intn(5) == 0 {
		in.Router = "peer"
	}
	if r.Intn(4) == 0 {
		in.Key = "legacy"
	}
	isV1 := in.Ep == "event" || in.Ep == "batch"
	isHTTP := !strings.HasSuffix(in.Ep, "_grpc")
	if isV1 {
		in.Enc = []string{"json", "msgpack"}[r.Intn(2)]
		if r.Intn(5) == 0 {
			in.Via = "direct"
		}
	} else if isHTTP {
		in.Enc = []string{"json", "proto"}[r.Intn(2)]
	} else {
		in.Enc = "proto"
	}
	if isHTTP && r.Intn(5) == 0 {
		in.Comp = []string{"gzip", "zstd"}[r.Intn(2)]
	}
	// events
	n := 1
	if in.Ep != "event" {
		n = []int{0, 1, 1, 2, 3, 3, 4, 5, 6}[r.Intn(9)]
		if tier == "thorough" && r.Intn(4) == 0 {
			n = r.Intn(16)
		}
	}
	var classes []string
	switch in.Ep {
	case "event":
		classes = []string{"mine", "mine", "mine", "peer", "nontrace", "empty", "probe"}
	case "batch":
		classes = []string{"mine", "mine", "mine", "mine", "peer", "nontrace", "empty", "empty", "probe", "nodata"}
	case "otlp_logs_http", "otlp_logs_grpc":
		classes = []string{"mine", "mine", "peer", "nontrace"}
	default:
		classes = []string{"mine", "mine", "peer"}
	}
	mine := 0
	for j := 0; j < n; j++ {
		c := classes[r.Intn(len(classes))]
		if c == "mine" {
			mine++
		}
		in.Events = append(in.Events, c23Ev{ID: int64(j + 1), Cls: c})
	}
	// queue admission script: mostly accept; often refuse a boundary one (first / last / all)
	if mine > 0 {
		in.Admit = make([]bool, mine)
		for j := range in.Admit {
			in.Admit[j] = true
		}
		switch x := r.Intn(10); {
		case x < 3:
			in.Admit[r.Intn(mine)] = false
		case x == 3:
			in.Admit[0] = false
		case x == 4:
			in.Admit[mine-1] = false
		case x == 5:
			for j := range in.Admit {
				in.Admit[j] = false
			}
		case x == 6:
			for j := range in.Admit {
				in.Admit[j] = r.Intn(2) == 0
			}
		}
	}
	// faults: none (35%), exactly one (45%), several (20%)
	pick := func() {
		switch r.Intn(7) {
		case 0:
			in.FAuth = true
		case 1:
			if isHTTP {
				in.FBody = []string{"readerr", "badcomp"}[r.Intn(2)]
			} else {
				in.FParse = "garbage"
			}
		case 2:
			if isV1 {
				in.Via = "direct"
				in.FDataset = []string{"badescape", "missing"}[r.Intn(2)]
			} else {
				in.FEnv = true
				in.Key = "modern"
			}
		case 3, 4:
			in.FEnv = true
			if r.Intn(8) != 0 {
				in.Key = "modern"
			}
		case 5:
			in.FParse = []string{"trunc", "garbage"}[r.Intn(2)]
		case 6:
			if !isV1 && isHTTP {
				in.FCtype = true
			} else {
				in.FEnv = true
				in.Key = "modern"
			}
		}
	}
	switch x := r.Intn(100); {
	case x < 35:
	case x < 80:
		pick()
	default:
		pick()
		pick()
		if r.Intn(2) == 0 {
			pick()
		}
	}
	if in.FBody == "badcomp" && in.Comp == "" {
		in.Comp = []string{"gzip", "zstd"}[r.Intn(2)]
	}
	return in
}

// c23Norm makes an input canonical (so that what is printed for Coq is what was run).
func c23Norm(in *c23Input) {
	isV1 := in.Ep == "event" || in.Ep == "batch"
	isGRPC := strings.HasSuffix(in.Ep, "_grpc")
	if in.Router != "peer" {
		in.Router = "incoming"
	}
	if in.Key != "legacy" {
		in.Key = "modern"
	}
	if !isV1 || in.Via != "direct" {
		in.Via = "mux"
	}
	if in.Via != "direct" {
		in.FDataset = ""
	}
	if in.Via == "direct" {
		in.FAuth = false // the middleware is not on the path
	}
	if isV1 {
		in.FCtype = false
		if in.Enc != "msgpack" {
			in.Enc = "json"
		}
	} else if isGRPC {
		in.FCtype = false
		in.Enc = "proto"
		in.Comp = ""
		if in.FBody != "" { // no body reader on gRPC: fold into a malformed message
			in.FBody = ""
			in.FParse = "garbage"
		}
	} else if in.Enc != "json" {
		in.Enc = "proto"
	}
	if in.FBody == "badcomp" && in.Comp == "" {
		in.Comp = "gzip"
	}
	if in.Ep == "event" {
		if len(in.Events) == 0 {
			in.Events = []c23Ev{{ID: 1, Cls: "empty"}}
		}
		in.Events = in.Events[:1]
		if in.Events[0].Cls == "nodata" {
			in.Events[0].Cls = "nontrace"
		}
	}
	for i := range in.Events {
		c := in.Events[i].Cls
		switch in.Ep {
		case "otlp_trace_http", "otlp_trace_grpc":
			if c != "peer" {
				c = "mine"
			}
		case "otlp_logs_http", "otlp_logs_grpc":
			if c != "peer" && c != "mine" {
				c = "nontrace"
			}
		default:
			switch c {
			case "empty", "probe", "nontrace", "nodata", "peer", "mine":
			default:
				c = "mine"
			}
		}
		in.Events[i].Cls = c
	}
}

func c23TraceID(c string, id int64) string {
	p := "aa"
	if c == "peer" {
		p = "bb"
	}
	return fmt.Sprintf("%s%030x", p, id)
}

func c23EventData(e c23Ev) map[string]any {
	switch e.Cls {
	case "empty":
		return map[string]any{}
	case "probe":
		return map[string]any{"evid": e.ID, "trace.trace_id": c23TraceID("mine", e.ID), "meta.refinery.probe": true}
	case "nontrace":
		return map[string]any{"evid": e.ID, "name": "no trace"}
	case "peer", "mine":
		return map[string]any{"evid": e.ID, "trace.trace_id": c23TraceID(e.Cls, e.ID), "name": "span"}
	}
	return nil // nodata
}

func c23V1Body(in *c23Input) ([]byte, error) {
	var v any
	if in.Ep == "event" {
		v = c23EventData(in.Events[0])
	} else {
		items := []map[string]any{}
		for _, e := range in.Events {
			it := map[string]any{"samplerate": 2}
			if d := c23EventData(e); d != nil {
				it["data"] = d
			}
			items = append(items, it)
		}
		v = items
	}
	if in.Enc == "msgpack" {
		return msgpack.Marshal(v)
	}
	return json.Marshal(v)
}

func c23KV(k string, v int64) *common.KeyValue {
	return &common.KeyValue{Key: k, Value: &common.AnyValue{Value: &common.AnyValue_IntValue{IntValue: v}}}
}

func c23TraceBytes(c string, id int64) []byte {
	b := make([]byte, 16)
	b[0] = 0xaa
	if c == "peer" {
		b[0] = 0xbb
	}
	b[14] = byte(id >> 8)
	b[15] = byte(id)
	return b
}

func c23OTLPBody(in *c23Input) (proto.Message, error) {
	res := &resource.Resource{Attributes: []*common.KeyValue{{Key: "service.name",
		Value: &common.AnyValue{Value: &common.AnyValue_StringValue{StringValue: "svc"}}}}}
	if strings.HasPrefix(in.Ep, "otlp_trace") {
		var spans []*tracepb.Span
		for _, e := range in.Events {
			spans = append(spans, &tracepb.Span{
				TraceId: c23TraceBytes(e.Cls, e.ID), SpanId: []byte{1, 2, 3, 4, 5, 6, 7, byte(e.ID)},
				Name: "span", StartTimeUnixNano: 1_700_000_000_000_000_000, EndTimeUnixNano: 1_700_000_001_000_000_000,
				Attributes: []*common.KeyValue{c23KV("evid", e.ID)},
			})
		}
		return &collectortrace.ExportTraceServiceRequest{ResourceSpans: []*tracepb.ResourceSpans{{
			Resource: res, ScopeSpans: []*tracepb.ScopeSpans{{Spans: spans}}}}}, nil
	}
	var recs []*logspb.LogRecord
	for _, e := range in.Events {
		lr := &logspb.LogRecord{TimeUnixNano: 1_700_000_000_000_000_000,
			Body:       &common.AnyValue{Value: &common.AnyValue_StringValue{StringValue: "log line"}},
			Attributes: []*common.KeyValue{c23KV("evid", e.ID)}}
		if e.Cls != "nontrace" {
			lr.TraceId = c23TraceBytes(e.Cls, e.ID)
			lr.SpanId = []byte{1, 2, 3, 4, 5, 6, 7, byte(e.ID)}
		}
		recs = append(recs, lr)
	}
	return &collectorlogs.ExportLogsServiceRequest{ResourceLogs: []*logspb.ResourceLogs{{
		Resource: res, ScopeLogs: []*logspb.ScopeLogs{{LogRecords: recs}}}}}, nil
}

func c23Compress(kind string, b []byte) []byte {
	switch kind {
	case "gzip":
		var buf bytes.Buffer
		zw := gzip.NewWriter(&buf)
		zw.Write(b)
		zw.Close()
		return buf.Bytes()
	case "zstd":
		zw, _ := zstd.NewWriter(nil)
		defer zw.Close()
		return zw.EncodeAll(b, nil)
	}
	return b
}

// documents found in a /1/ response body
func c23Docs(body []byte) []string {
	var docs []string
	dec := json.NewDecoder(bytes.NewReader(body))
	for {
		var v any
		err := dec.Decode(&v)
		if err == io.EOF {
			break
		}
		if err != nil {
			docs = append(docs, "DOther")
			break
		}
		switch x := v.(type) {
		case map[string]any:
			if _, ok := x["error"]; ok {
				docs = append(docs, "DErr")
			} else {
				docs = append(docs, "DOther")
			}
		case []any:
			var sts []uint64
			ok := true
			for _, it := range x {
				m, isM := it.(map[string]any)
				st, isN := m["status"].(float64)
				if !isM || !isN {
					ok = false
					break
				}
				sts = append(sts, uint64(st))
			}
			if ok {
				docs = append(docs, cq.App("DList", cq.ListN(sts)))
			} else {
				docs = append(docs, "DOther")
			}
		default:
			docs = append(docs, "DOther")
		}
	}
	return docs
}

var c23ClsCoq = map[string]string{"empty": "EvEmpty", "probe": "EvProbe", "nontrace": "EvNonTrace",
	"nodata": "EvNonTrace", "peer": "EvPeer", "mine": "EvMine"}
var c23EpCoq = map[string]string{"event": "EpEvent", "batch": "EpBatch", "otlp_trace_http": "EpOtlpTraceHttp",
	"otlp_logs_http": "EpOtlpLogsHttp", "otlp_trace_grpc": "EpOtlpTraceGrpc", "otlp_logs_grpc": "EpOtlpLogsGrpc"}

func c23Run(raw json.RawMessage) (Case, error) {
	var in c23Input
	if err := json.Unmarshal(raw, &in); err != nil {
		return Case{}, err
	}
	c23Norm(&in)
	g, err := respGetRig(in.Router)
	if err != nil {
		return Case{}, err
	}
	g.coll.admit = append([]bool(nil), in.Admit...)
	key := c23Modern
	if in.Key == "legacy" {
		key = c23Legacy
	}
	g.envFail = in.FEnv
	if in.FAuth {
		g.setAccessKeys(config.AccessKeyConfig{AcceptOnlyListedKeys: true, ReceiveKeys: []string{c23Listed}, SendKeyMode: "none"})
	}
	isV1 := in.Ep == "event" || in.Ep == "batch"
	isGRPC := strings.HasSuffix(in.Ep, "_grpc")

	// ---- body
	var body []byte
	if isV1 {
		body, err = c23V1Body(&in)
	} else {
		var m proto.Message
		m, err = c23OTLPBody(&in)
		if err == nil {
			if in.Enc == "json" {
				body, err = protojson.Marshal(m)
			} else {
				body, err = proto.Marshal(m)
			}
		}
	}
	if err != nil {
		return Case{}, err
	}
	switch in.FParse {
	case "trunc":
		if len(body) > 1 {
			body = body[:len(body)-1-len(body)/3]
		} else {
			body = []byte{0xc1}
		}
	case "garbage":
		body = []byte("\xc1\xff{{{ not a body")
	}
	wire := c23Compress(in.Comp, body)
	if in.FBody == "badcomp" {
		wire = []byte("this is not compressed data at all")
	}

	var status, hdrCalls uint64
	var docs []string
	if isGRPC {
		conn, err := g.grpc()
		if err != nil {
			return Case{}, err
		}
		method := "/opentelemetry.proto.collector.trace.v1.TraceService/Export"
		if in.Ep == "otlp_logs_grpc" {
			method = "/opentelemetry.proto.collector.logs.v1.LogsService/Export"
		}
		ctx, cancel := context.WithTimeout(context.Background(), 20*time.Second)
		ctx = metadata.NewOutgoingContext(ctx, metadata.New(map[string]string{
			"x-honeycomb-team": key, "x-honeycomb-dataset": "ds"}))
		var out []byte
		err = conn.Invoke(ctx, method, &wire, &out, grpc.ForceCodec(respRawCodec{}))
		cancel()
		status = uint64(status_code(err))
		hdrCalls = 1
	} else {
		var rd io.ReadCloser = io.NopCloser(bytes.NewReader(wire))
		if in.FBody == "readerr" {
			rd = &respErrReader{data: wire[:len(wire)/2]}
		}
		var path string
		switch in.Ep {
		case "event":
			path = "/1/events/ds"
		case "batch":
			path = "/1/batch/ds"
		case "otlp_trace_http":
			path = "/v1/traces"
		default:
			path = "/v1/logs"
		}
		req := httptest.NewRequest("POST", path, rd)
		req.Header.Set("X-Honeycomb-Team", key)
		req.Header.Set("User-Agent", "c23-driver")
		if in.Comp != "" {
			req.Header.Set("Content-Encoding", in.Comp)
		}
		if isV1 {
			if in.Enc == "msgpack" {
				req.Header.Set("Content-Type", "application/msgpack")
			} else {
				req.Header.Set("Content-Type", "application/json")
			}
		} else {
			req.Header.Set("X-Honeycomb-Dataset", "ds")
			if in.Enc == "json" {
				req.Header.Set("Content-Type", "application/json")
			} else {
				req.Header.Set("Content-Type", "application/protobuf")
			}
			if in.FCtype {
				req.Header.Set("Content-Type", "text/plain")
			}
		}
		w := newRespWriter()
		if in.Via == "direct" {
			ds := "ds"
			switch in.FDataset {
			case "badescape":
				ds = "%zz"
			case "missing":
				ds = ""
			}
			req = mux.SetURLVars(req, map[string]string{"datasetName": ds})
			if in.Ep == "event" {
				g.router.VerifC23Event(w, req)
			} else {
				g.router.VerifC23Batch(w, req)
			}
		} else {
			g.handler.ServeHTTP(w, req)
		}
		status = uint64(w.effStatus())
		hdrCalls = uint64(w.statusWrites())
		if isV1 {
			docs = c23Docs(w.body)
		}
	}

	// ---- effects
	var adds, human []string
	for _, a := range g.coll.attempts {
		adds = append(adds, cq.Pair(cq.N(uint64(a.ID)), cq.Bool(a.OK)))
	}
	// an event sent without a "data" object carries no label: the k-th unlabelled enqueue is
	// attributed to the k-th such event of the request (label 0 = no such event in the request)
	var nodata []int64
	for _, e := range in.Events {
		if e.Cls == "nodata" {
			nodata = append(nodata, e.ID)
		}
	}
	ids := func(s []respSent) []uint64 {
		out := make([]uint64, len(s))
		for i, x := range s {
			id := x.ID
			if id < 0 {
				id = 0
				if len(nodata) > 0 {
					id, nodata = nodata[0], nodata[1:]
				}
			}
			out[i] = uint64(id)
		}
		return out
	}
	upIDs, peerIDs := ids(g.up.sent), ids(g.peer.sent)
	var evs []string
	for _, e := range in.Events {
		evs = append(evs, cq.Pair(cq.N(uint64(e.ID)), c23ClsCoq[e.Cls]))
		human = append(human, fmt.Sprintf("%d:%s", e.ID, e.Cls))
	}
	admit := make([]string, len(in.Admit))
	for i, b := range in.Admit {
		admit[i] = cq.Bool(b)
	}
	ext := fmt.Sprintf("{| x_ctype := %s; x_parse := %s; x_grpc_unauth := %s; x_grpc_internal := %s |}",
		cq.N(uint64(huskyotlp.ErrInvalidContentType.HTTPStatusCode)), cq.N(uint64(huskyotlp.ErrFailedParseBody.HTTPStatusCode)),
		cq.N(uint64(codes.Unauthenticated)), cq.N(uint64(codes.Internal)))
	faults := fmt.Sprintf("{| f_auth := %s; f_body := %s; f_dataset := %s; f_env := %s; f_parse := %s; f_ctype := %s |}",
		cq.Bool(in.FAuth), cq.Bool(in.FBody != ""), cq.Bool(in.FDataset != ""), cq.Bool(in.FEnv), cq.Bool(in.FParse != ""), cq.Bool(in.FCtype))
	coq := fmt.Sprintf("{| c_req := {| r_ep := %s; r_direct := %s; r_legacy := %s; r_f := %s; r_events := %s; r_admit := %s; r_ext := %s |}; "+
		"o_status := %s; o_hdr_calls := %s; o_docs := %s; o_adds := %s; o_up := %s; o_peer := %s |}",
		c23EpCoq[in.Ep], cq.Bool(in.Via == "direct"), cq.Bool(in.Key == "legacy"), faults, cq.List(evs), cq.List(admit), ext,
		cq.N(status), cq.N(hdrCalls), cq.List(docs), cq.List(adds), cq.ListN(upIDs), cq.ListN(peerIDs))

	nfaults := 0
	tags := []string{"ep:" + in.Ep, "router:" + in.Router, "via:" + in.Via, "enc:" + in.Enc, "key:" + in.Key, fmt.Sprintf("events:%d", len(in.Events))}
	for name, on := range map[string]bool{"auth": in.FAuth, "body": in.FBody != "", "dataset": in.FDataset != "",
		"env": in.FEnv && in.Key == "modern", "parse": in.FParse != "", "ctype": in.FCtype} {
		if on {
			nfaults++
			tags = append(tags, "fault:"+name)
		}
	}
	refused := false
	for _, a := range g.coll.attempts {
		if !a.OK {
			refused = true
		}
	}
	if refused {
		tags = append(tags, "queue-full")
	}
	tags = append(tags, fmt.Sprintf("faults:%d", nfaults), fmt.Sprintf("status:%d", status))
	b, _ := json.Marshal(in)
	return Case{Input: b, Coq: coq, Key: string(b), Nontriv: nfaults > 0 || refused, Tags: tags,
		Summary: map[string]any{"endpoint": in.Ep, "via": in.Via, "router": in.Router, "key": in.Key, "events": human,
			"faults": map[string]any{"auth": in.FAuth, "body": in.FBody, "dataset": in.FDataset, "env": in.FEnv, "parse": in.FParse, "ctype": in.FCtype},
			"admit": in.Admit, "status": status, "status_writes": hdrCalls, "body_docs": docs,
			"collector_attempts": adds, "upstream": upIDs, "peer": peerIDs}}, nil
}

func status_code(err error) codes.Code {
	if err == nil {
		return codes.OK
	}
	return status.Code(err)
}

func c23Shrink(raw json.RawMessage) []json.RawMessage {
	var in c23Input
	if json.Unmarshal(raw, &in) != nil {
		return nil
	}
	var out []json.RawMessage
	c23Norm(&in)
	cur, _ := json.Marshal(in)
	seen := map[string]bool{string(cur): true}
	add := func(c c23Input) {
		c.Events = append([]c23Ev{}, c.Events...)
		c23Norm(&c) // candidates are compared in normal form, otherwise shrinking can cycle
		b, _ := json.Marshal(c)
		if !seen[string(b)] {
			seen[string(b)] = true
			out = append(out, b)
		}
	}
	// big steps first: one event only, then halves, then single removals
	if n := len(in.Events); n > 1 {
		for _, keep := range [][]c23Ev{in.Events[:1], in.Events[n-1:], in.Events[:n/2], in.Events[n/2:]} {
			c := in
			c.Events = append([]c23Ev{}, keep...)
			add(c)
		}
	}
	for i := range in.Events {
		c := in
		c.Events = append(append([]c23Ev{}, in.Events[:i]...), in.Events[i+1:]...)
		add(c)
	}
	if len(in.Admit) > 0 {
		c := in
		c.Admit = nil
		add(c)
	}
	if len(in.Admit) > 0 {
		c := in
		c.Admit = in.Admit[:len(in.Admit)-1]
		add(c)
	}
	for _, f := range []func(*c23Input){
		func(c *c23Input) { c.FAuth = false }, func(c *c23Input) { c.FBody = "" }, func(c *c23Input) { c.FDataset = "" },
		func(c *c23Input) { c.FEnv = false }, func(c *c23Input) { c.FParse = "" }, func(c *c23Input) { c.FCtype = false },
		func(c *c23Input) { c.Comp = "" }, func(c *c23Input) { c.Router = "incoming" }, func(c *c23Input) { c.Enc = "json" },
	} {
		c := in
		c.Events = append([]c23Ev{}, in.Events...)
		f(&c)
		add(c)
	}
	for i := range in.Events {
		if in.Events[i].Cls != "mine" {
			c := in
			c.Events = append([]c23Ev{}, in.Events...)
			c.Events[i].Cls = "mine"
			add(c)
		}
	}
	return out
}
