// vh: the verification harness. `vh Cxx --seed S --n N --tier T --out cases.jsonl`
package main

import (
	"bufio"
	"encoding/json"
	"flag"
	"fmt"
	"math/rand"
	"os"
	"path/filepath"
	"sort"

	"github.com/honeycombio/refinery/verifharness/drive"
)

func main() {
	if len(os.Args) < 2 {
		fmt.Fprintln(os.Stderr, "usage: vh <Cxx>|list [flags]")
		os.Exit(2)
	}
	id := os.Args[1]
	if id == "list" {
		for _, i := range drive.IDs() {
			fmt.Println(i)
		}
		return
	}
	fs := flag.NewFlagSet("vh", flag.ExitOnError)
	seed := fs.Int64("seed", 1, "PRNG seed")
	n := fs.Int("n", 100, "number of generated cases")
	tier := fs.String("tier", "quick", "quick|thorough")
	out := fs.String("out", "", "output jsonl")
	replay := fs.String("replay", "", "replay file (json with .input) or jsonl of inputs")
	corpus := fs.String("corpus", "", "corpus dir of *.json inputs run first")
	shrink := fs.String("shrink", "", "emit cases for the shrink candidates of the input in this file")
	fs.Parse(os.Args[2:])
	d := drive.Lookup(id)
	if d == nil {
		fmt.Fprintln(os.Stderr, "unknown driver", id)
		os.Exit(2)
	}
	w := bufio.NewWriterSize(os.Stdout, 1<<20)
	if *out != "" {
		f, err := os.Create(*out)
		if err != nil {
			panic(err)
		}
		defer f.Close()
		w = bufio.NewWriterSize(f, 1<<20)
	}
	defer w.Flush()
	emit := func(in json.RawMessage, origin string) {
		c, err := d.Run(in)
		if err != nil {
			fmt.Fprintf(os.Stderr, "vh: driver error on %s input: %v\n", origin, err)
			os.Exit(3)
		}
		if c.Input == nil {
			c.Input = in
		}
		c.Tags = append(c.Tags, "origin:"+origin)
		b, _ := json.Marshal(c)
		w.Write(b)
		w.WriteByte('\n')
	}
	readInput := func(path string) json.RawMessage {
		b, err := os.ReadFile(path)
		if err != nil {
			panic(err)
		}
		var wrap struct {
			Input json.RawMessage `json:"input"`
		}
		if json.Unmarshal(b, &wrap) == nil && wrap.Input != nil {
			return wrap.Input
		}
		return b
	}
	if *shrink != "" {
		if d.Shrink == nil {
			return
		}
		for _, cand := range d.Shrink(readInput(*shrink)) {
			emit(cand, "shrink")
		}
		return
	}
	if *replay != "" {
		emit(readInput(*replay), "replay")
		return
	}
	if *corpus != "" {
		files, _ := filepath.Glob(filepath.Join(*corpus, "*.json"))
		sort.Strings(files)
		for _, f := range files {
			emit(readInput(f), "corpus")
		}
	}
	r := rand.New(rand.NewSource(*seed))
	for i := 0; i < *n; i++ {
		in := d.Gen(r, *tier, i)
		b, err := json.Marshal(in)
		if err != nil {
			panic(err)
		}
		emit(b, "gen")
	}
}
