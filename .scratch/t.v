From Coq Require Import String Ascii ZArith List Bool.
Check String.compare_antisym. Check String.compare_eq_iff. Print String.ltb. Print String.leb. Check String.eqb_eq.
Print Z.ltb. Print Z.leb. Print Z.eqb. Check Z.compare_antisym. Check Z.compare_eq_iff. Print Bool.compare.
Check Z.eqb_compare. Check String.eqb_compare.
