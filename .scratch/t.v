From Coq Require Import String Ascii ZArith List DecimalString.
Open Scope string_scope.
Check String.compare. Check String.prefix. Check String.eqb. Check String.ltb.
Eval vm_compute in NilZero.string_of_int (Z.to_int (-120)%Z).
Eval vm_compute in NilZero.string_of_int (Z.to_int 0%Z).
Eval vm_compute in String.compare "ab" "b".
