From Refinery Require Import Lib.Base Model.Values Model.Rules Model.RulesSpec Gen.GenC08 Proofs.Rules.
Eval vm_compute in (hd ""%string regex_arm, hd ""%string expected_regex_arm).
