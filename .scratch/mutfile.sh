#!/bin/bash
# usage: mutfile.sh <prop> <file> <git-rev-of-old-version>   (replace file by an older version)
export GOFLAGS=-mod=mod GOPROXY=off
cd /work/rules/repo && git show $3:$2 > $2 && go build ./... 2>&1 | head
cd /work/rules/verif && VERIF_REPO=/work/rules/repo timeout 1500 ./check $1 --seed 1 2>&1 | grep -v "^BROKEN" | tail -8 | cut -c1-300
cd /work/rules/repo && git checkout -- . && git status --short
