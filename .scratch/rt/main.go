package main

import (
	"fmt"
	"math/rand"
	"os"
)

func main() {
	os.Setenv("GODEBUG", "randseednop=0")
	for _, seed := range []int64{1, 2, 3} {
		rand.Seed(seed)
		a := rand.Intn(10)
		b := rand.New(rand.NewSource(seed)).Intn(10)
		fmt.Println(a, b)
	}
}
