module rt
go 1.25.0
