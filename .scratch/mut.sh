#!/bin/bash
# usage: mut.sh <prop> <file> <python-replace-old> <new>
export GOFLAGS=-mod=mod GOPROXY=off
PROP=$1; FILE=$2; OLD=$3; NEW=$4
cd /work/rules/repo
python3 - "$FILE" "$OLD" "$NEW" <<'PY'
import sys
p,old,new=sys.argv[1:4]
s=open(p).read()
assert s.count(old)>=1, "pattern not found"
s=s.replace(old,new,1)
open(p,'w').write(s)
PY
[ $? -eq 0 ] || { echo "MUTATION NOT APPLIED"; exit 2; }
go build ./... 2>&1 | head -5
cd /work/rules/verif
VERIF_REPO=/work/rules/repo timeout 900 ./check $PROP --seed 1 2>&1 | grep -v "^BROKEN" | tail -4 | cut -c1-400
cd /work/rules/repo && git checkout -- . && git status --short
