(* Exactly-once for the product of workers: the events of a system run are an interleaving of the
   per-worker event lists; each of those has no duplicates, and two different workers never forward
   the same (trace, span) because each forwarded span was accepted by the worker that forwarded it. *)
From Coq Require Import Permutation.
From Refinery Require Import Lib.Base Model.Collector Proofs.CollectorAbs Proofs.CollectorRef.

(* ---------- list facts ---------- *)
Lemma NoDup_app_inv {A} (l1 l2 : list A) :
  NoDup (l1 ++ l2) -> NoDup l1 /\ NoDup l2 /\ forall x, In x l1 -> ~ In x l2.
Proof.
  induction l1 as [|a r IH]; cbn [app]; intros H.
  - split; [constructor|]. split; [exact H|]. intros x [].
  - inversion H as [|? ? Hn Hr]; subst. destruct (IH Hr) as [H1 [H2 H3]]. split; [|split; [exact H2|]].
    + constructor; [|exact H1]. intros F. apply Hn. apply in_or_app. left; exact F.
    + intros x [<-|Hx] F; [apply Hn; apply in_or_app; right; exact F|exact (H3 x Hx F)].
Qed.

Lemma NoDup_flat_map_filter {A B} (f : A -> list B) (p : A -> bool) l :
  NoDup (flat_map f l) -> NoDup (flat_map f (filter p l)).
Proof.
  induction l as [|a r IH]; cbn [flat_map filter]; intros H; [constructor|].
  destruct (NoDup_app_inv _ _ H) as [H1 [H2 H3]]. destruct (p a); [|apply IH; exact H2].
  cbn [flat_map]. apply NoDup_app_disj; [exact H1|apply IH; exact H2|].
  intros x Hx F. apply (H3 x Hx). apply in_flat_map in F. destruct F as [y [Hy Hxy]].
  apply in_flat_map. exists y. split; [|exact Hxy]. apply filter_In in Hy. tauto.
Qed.

Lemma NoDup_flat_map_distinct {A B} (f : A -> list B) l a b x :
  NoDup (flat_map f l) -> In a l -> In b l -> a <> b -> In x (f a) -> In x (f b) -> False.
Proof.
  induction l as [|c r IH]; cbn [flat_map]; intros H Ha Hb Hne Hxa Hxb; [destruct Ha|].
  destruct (NoDup_app_inv _ _ H) as [H1 [H2 H3]].
  destruct Ha as [->|Ha], Hb as [->|Hb].
  - congruence.
  - apply (H3 x Hxa). apply in_flat_map. exists b. split; assumption.
  - apply (H3 x Hxb). apply in_flat_map. exists a. split; assumption.
  - exact (IH H2 Ha Hb Hne Hxa Hxb).
Qed.

Lemma flat_map_map {A B C} (f : B -> list C) (g : A -> B) l : flat_map f (map g l) = flat_map (fun a => f (g a)) l.
Proof. induction l as [|a r IH]; cbn; [reflexivity|]. rewrite IH. reflexivity. Qed.

Lemma map_flat_map {A B C} (f : A -> list B) (g : B -> C) l : map g (flat_map f l) = flat_map (fun a => map g (f a)) l.
Proof. induction l as [|a r IH]; cbn; [reflexivity|]. rewrite map_app, IH. reflexivity. Qed.

Lemma flat_map_app_perm {A B} (f g : A -> list B) l :
  Permutation (flat_map (fun a => f a ++ g a) l) (flat_map f l ++ flat_map g l).
Proof.
  induction l as [|a r IH]; cbn [flat_map]; [constructor|].
  rewrite <- !app_assoc. apply Permutation_app_head.
  rewrite IH. apply Permutation_app_swap_app.
Qed.

Lemma flat_map_select {B} (e : list B) (i : nat) l :
  NoDup l -> flat_map (fun j => if Nat.eqb i j then e else []) l = if in_dec Nat.eq_dec i l then e else [].
Proof.
  induction l as [|a r IH]; intros Hnd; cbn [flat_map]; [reflexivity|].
  inversion Hnd as [|? ? Hn Hr]; subst. rewrite (IH Hr). destruct (Nat.eqb i a) eqn:E.
  - apply Nat.eqb_eq in E. subst a. destruct (in_dec Nat.eq_dec i r) as [F|_]; [contradiction|].
    destruct (in_dec Nat.eq_dec i (i :: r)) as [_|F]; [apply app_nil_r|exfalso; apply F; left; reflexivity].
  - apply Nat.eqb_neq in E. cbn [app]. destruct (in_dec Nat.eq_dec i r) as [F|F];
      destruct (in_dec Nat.eq_dec i (a :: r)) as [G|G]; try reflexivity.
    + exfalso. apply G. right; exact F.
    + exfalso. destruct G as [G|G]; [congruence|contradiction].
Qed.

Lemma NoDup_flat_map_intro {A B} (F : A -> list B) l :
  NoDup l -> (forall a, In a l -> NoDup (F a)) ->
  (forall a b x, In a l -> In b l -> a <> b -> In x (F a) -> ~ In x (F b)) ->
  NoDup (flat_map F l).
Proof.
  induction l as [|a r IH]; intros Hnd H1 H2; cbn [flat_map]; [constructor|].
  inversion Hnd as [|? ? Hn Hr]; subst. apply NoDup_app_disj.
  - apply H1. left; reflexivity.
  - apply IH; [exact Hr|intros b Hb; apply H1; right; exact Hb|].
    intros b c x Hb Hc. apply H2; right; assumption.
  - intros x Hx Hf. apply in_flat_map in Hf. destruct Hf as [b [Hb Hxb]].
    apply (H2 a b x); [left; reflexivity|right; exact Hb|intros ->; contradiction|exact Hx|exact Hxb].
Qed.

Section Sys.
  Variable sampler : N -> list span -> bool.
  Variable dry : bool.
  Notation run := (run sampler dry).
  Notation sys_run := (sys_run sampler dry).
  Notation sys_step := (sys_step sampler dry).

  (* the system's event list is a permutation of the workers' event lists put side by side *)
  Lemma interleave_perm n : forall (ops : list sop) (es : list (list ev)),
    length ops = length es ->
    (forall k so e, nth_error ops k = Some so -> nth_error es k = Some e -> (n <= sop_w so)%nat -> e = []) ->
    Permutation (concat es) (flat_map (fun i => concat (evs_at i ops es)) (seq 0 n)).
  Proof.
    induction ops as [|so r IH]; intros es Hlen Hout; destruct es as [|e er]; try discriminate.
    - cbn. induction (seq 0 n); cbn; [constructor|assumption].
    - cbn [concat evs_at].
      assert (IH' : Permutation (concat er) (flat_map (fun i => concat (evs_at i r er)) (seq 0 n))).
      { apply IH; [cbn in Hlen; lia|].
        intros k so' e' H1 H2. apply (Hout (S k)); assumption. }
      transitivity (flat_map (fun j => (if Nat.eqb (sop_w so) j then e else []) ++ concat (evs_at j r er)) (seq 0 n)).
      + rewrite flat_map_app_perm, (flat_map_select e (sop_w so) (seq 0 n) (seq_NoDup n 0)).
        destruct (in_dec Nat.eq_dec (sop_w so) (seq 0 n)) as [Hin|Hnin].
        * apply Permutation_app_head. exact IH'.
        * assert (e = []).
          { apply (Hout 0%nat so e); [reflexivity|reflexivity|]. destruct (le_lt_dec n (sop_w so)) as [H|H]; [exact H|].
            exfalso. apply Hnin. apply in_seq. lia. }
          subst e. cbn [app]. exact IH'.
      + apply Permutation_refl'. apply flat_map_ext. intros j.
        destruct (Nat.eqb (sop_w so) j); reflexivity.
  Qed.

  Lemma sys_run_lengths ops : forall ws, length (snd (sys_run ws ops)) = length ops.
  Proof.
    induction ops as [|so r IH]; intros ws; [reflexivity|]. rewrite sys_run_cons. cbn [snd length]. f_equal. apply IH.
  Qed.

  Lemma sys_run_length_ws ops : forall ws, length (fst (sys_run ws ops)) = length ws.
  Proof.
    assert (Hupd : forall A (l : list A) i x, length (upd i x l) = length l).
    { induction l as [|a r IHl]; intros [|i] x; cbn; try reflexivity. f_equal. apply IHl. }
    induction ops as [|so r IH]; intros ws; [reflexivity|]. rewrite sys_run_cons. cbn [fst]. rewrite IH.
    unfold Collector.sys_step. destruct (nth_error ws (sop_w so)); [|reflexivity].
    destruct (Collector.step_total sampler dry w (sop_op so)). cbn [fst]. apply Hupd.
  Qed.

  Lemma sys_run_out_of_range ops : forall ws k so e,
    nth_error ops k = Some so -> nth_error (snd (sys_run ws ops)) k = Some e ->
    (length ws <= sop_w so)%nat -> e = [].
  Proof.
    induction ops as [|so0 r IH]; intros ws k so e Hk He Hout; [destruct k; discriminate|].
    rewrite sys_run_cons in He. destruct k as [|k]; cbn [nth_error snd] in *.
    - injection Hk as ->. injection He as <-. unfold Collector.sys_step.
      destruct (nth_error ws (sop_w so)) eqn:E; [|reflexivity].
      exfalso. apply nth_error_None in Hout. congruence.
    - eapply IH; [exact Hk|exact He|].
      assert (Hl : length (fst (sys_step ws so0)) = length ws).
      { pose proof (sys_run_length_ws [so0] ws) as H. rewrite sys_run_cons in H. cbn [fst Collector.sys_run] in H. exact H. }
      rewrite Hl. exact Hout.
  Qed.

  Definition sys_span_keys (ops : list sop) : list (N * N) := span_keys (map sop_op ops).

  Theorem sys_exactly_once n c ops :
    NoDup (sys_span_keys ops) ->
    NoDup (map proj (concat (snd (sys_run (repeat (winit c) n) ops)))) /\
    (forall t s, forwarded (snd (sys_run (repeat (winit c) n) ops)) t s -> sys_accepted ops t s).
  Proof.
    intros Hnd. set (ws0 := repeat (winit c) n). set (es := snd (sys_run ws0 ops)).
    assert (Hn : length ws0 = n) by apply repeat_length.
    assert (Hwi : forall i, In i (seq 0 n) -> nth_error ws0 i = Some (winit c)).
    { intros i Hi. apply in_seq in Hi. unfold ws0. rewrite nth_error_repeat; [reflexivity|lia]. }
    assert (Hev : forall i, In i (seq 0 n) -> evs_at i ops es = snd (run (winit c) (pops i ops))).
    { intros i Hi. destruct (sys_run_proj sampler dry ops ws0 i (winit c) (Hwi i Hi)) as [_ H]. exact H. }
    assert (Hkeys : forall i, NoDup (span_keys (pops i ops))).
    { intros i. unfold pops, span_keys. rewrite flat_map_map.
      apply NoDup_flat_map_filter. unfold sys_span_keys, span_keys in Hnd. rewrite flat_map_map in Hnd. exact Hnd. }
    assert (Hperm : Permutation (concat es) (flat_map (fun i => concat (evs_at i ops es)) (seq 0 n))).
    { apply interleave_perm.
      - unfold es. symmetry. apply sys_run_lengths.
      - intros k so e H1 H2 H3. eapply sys_run_out_of_range; [exact H1|exact H2|rewrite Hn; exact H3]. }
    split.
    - apply (Permutation_map proj) in Hperm. apply (Permutation_NoDup (Permutation_sym Hperm)).
      rewrite map_flat_map. apply NoDup_flat_map_intro; [apply seq_NoDup| |].
      + intros i Hi. rewrite (Hev i Hi). apply (worker_exactly_once sampler dry c (pops i ops) (Hkeys i)).
      + intros i j [t s] Hi Hj Hne Hxi Hxj.
        rewrite (Hev i Hi) in Hxi. rewrite (Hev j Hj) in Hxj.
        assert (Hacc : forall i0, In (t, s) (map proj (concat (snd (run (winit c) (pops i0 ops))))) ->
                                  exists now sp, In (SOp i0 (OSpan now sp)) ops /\ s_tid sp = t /\ s_id sp = s).
        { intros i0 Hx. destruct (worker_exactly_once sampler dry c (pops i0 ops) (Hkeys i0)) as [_ Hsub].
          assert (Hf : forwarded (snd (run (winit c) (pops i0 ops))) t s) by (apply forwarded_proj; rewrite <- in_rev; exact Hx).
          destruct (Hsub t s Hf) as [now [sp [Hin [H1 H2]]]]. exists now, sp. split; [apply pops_in; exact Hin|split; assumption]. }
        destruct (Hacc i Hxi) as [now1 [sp1 [Hin1 [Ht1 Hs1]]]]. destruct (Hacc j Hxj) as [now2 [sp2 [Hin2 [Ht2 Hs2]]]].
        unfold sys_span_keys, span_keys in Hnd. rewrite flat_map_map in Hnd.
        apply (NoDup_flat_map_distinct _ ops (SOp i (OSpan now1 sp1)) (SOp j (OSpan now2 sp2)) (t, s) Hnd Hin1 Hin2).
        * intros F. injection F as F _. contradiction.
        * cbn. left. congruence.
        * cbn. left. congruence.
    - intros t s [r Hin]. fold es in Hin. apply (Permutation_in _ Hperm) in Hin.
      apply in_flat_map in Hin. destruct Hin as [i [Hi Hin]]. rewrite (Hev i Hi) in Hin.
      destruct (worker_exactly_once sampler dry c (pops i ops) (Hkeys i)) as [_ Hsub].
      destruct (Hsub t s (ex_intro _ r Hin)) as [now [sp [Hsp [H1 H2]]]].
      exists now, sp. split; [|split; assumption]. apply in_map_iff. exists (SOp i (OSpan now sp)).
      split; [reflexivity|apply pops_in; exact Hsp].
  Qed.
End Sys.
