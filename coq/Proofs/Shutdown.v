(* C36 (collector part): what the pinned Stop does not do, what holds anyway, and that the
   documented drain would establish the property. *)
From Refinery Require Import Lib.Base Model.Collector Model.Shutdown Proofs.CollectorAbs Proofs.CollectorRef Proofs.CollectorTime.

Section ShutdownProofs.
  Variable sampler : N -> list span -> bool.
  Variable dry : bool.
  Notation run := (run sampler dry).
  Notation decide_list := (decide_list sampler dry).

  Lemma run_then_stop_pinned w ops :
    run_then_stop sampler dry stop_pinned w ops = (fst (run w ops), snd (run w ops) ++ [[]]).
  Proof. unfold run_then_stop, stop_pinned. destruct (run w ops) as [w1 es]. reflexivity. Qed.

  (* partial: whatever was decided before shutdown was handled completely: if every buffer is empty
     when Stop is called, every accepted span of a never-forgotten trace has met its decision *)
  Theorem stop_pinned_loses_nothing_if_drained c ops t s :
    w_buf (fst (run (winit c) ops)) = [] ->
    ~ In (OForget t) ops -> accepted_by ops t s ->
    exists k, alookup t (w_dec (fst (run_then_stop sampler dry stop_pinned (winit c) ops))) = Some k /\
              (forwarded (snd (run_then_stop sampler dry stop_pinned (winit c) ops)) t s <-> k || dry = true).
  Proof.
    intros Hempty Hnf Hacc. rewrite run_then_stop_pinned. cbn [fst snd].
    pose proof (worker_no_span_lost sampler dry c ops t s Hnf Hacc) as H.
    destruct (alookup t (w_dec (fst (run (winit c) ops)))) as [k|].
    - exists k. split; [reflexivity|]. destruct H as [_ H]. rewrite <- H.
      unfold forwarded. rewrite concat_app. cbn [concat]. rewrite !app_nil_r. tauto.
    - destruct H as [tr [Hb _]]. rewrite Hempty in Hb. discriminate.
  Qed.

  Lemma decide_list_dec_notin rf : forall (l : list (N * trace)) (w : wstate) t1,
    ~ In t1 (map fst l) -> alookup t1 (w_dec (fst (decide_list w rf l))) = alookup t1 (w_dec w).
  Proof.
    induction l as [|[t2 tr2] r2 IH]; intros w t1 Hn; [reflexivity|].
    cbn [Collector.decide_list]. unfold decide_one.
    destruct (Collector.decide_list sampler dry _ rf r2) as [w3 e3] eqn:E3. cbn [fst].
    specialize (IH {| w_buf := aremove t2 (w_buf w);
                      w_dec := aset t2 (sampler (c_ver (w_cfg w)) (rev (t_spans tr2))) (w_dec w);
                      w_cfg := w_cfg w |} t1).
    rewrite E3 in IH. cbn [fst w_dec] in IH. rewrite IH by (intros F; apply Hn; right; exact F).
    apply alookup_aset_neq. intros ->. apply Hn. left; reflexivity.
  Qed.

  (* the documented drain: removes every buffered trace, decides each, forwards the kept ones *)
  Lemma decide_list_all : forall (l : list (N * trace)) (w : wstate) rf,
    NoDup (map fst l) ->
    forall t tr, In (t, tr) l ->
      alookup t (w_dec (fst (decide_list w rf l))) = Some (sampler (c_ver (w_cfg w)) (rev (t_spans tr))) /\
      (forall s, In s (sids tr) ->
         (In (t, s, rf tr) (snd (decide_list w rf l)) <-> fw dry (sampler (c_ver (w_cfg w)) (rev (t_spans tr))) = true)).
  Proof.
    induction l as [|[t0 tr0] r IH]; intros w rf Hnd t tr Hin; [destruct Hin|].
    cbn [map fst] in Hnd. inversion Hnd as [|? ? Hn0 Hr]; subst.
    cbn [Collector.decide_list]. unfold decide_one.
    set (keep0 := sampler (c_ver (w_cfg w)) (rev (t_spans tr0))).
    set (w1 := {| w_buf := aremove t0 (w_buf w); w_dec := aset t0 keep0 (w_dec w); w_cfg := w_cfg w |}).
    destruct (Collector.decide_list sampler dry w1 rf r) as [w2 e2] eqn:E2. cbn [fst snd].
    assert (Hkeepdec : forall t1, ~ In t1 (map fst r) -> alookup t1 (w_dec w2) = alookup t1 (w_dec w1)).
    { intros t1 Hn. pose proof (decide_list_dec_notin rf r w1 t1 Hn) as H. rewrite E2 in H. exact H. }
    destruct Hin as [Heq|Hin].
    - injection Heq as <- <-. split.
      + rewrite Hkeepdec by exact Hn0. cbn [w_dec w1]. apply alookup_aset_eq.
      + intros s Hs. fold keep0. split.
        * intros Hev. apply in_app_or in Hev. destruct Hev as [Hev|Hev].
          -- destruct (fw dry keep0); [reflexivity|destruct Hev].
          -- exfalso. assert (H2 : e2 = snd (decide_list w1 rf r)) by (rewrite E2; reflexivity). rewrite H2 in Hev.
             apply decide_list_events in Hev. destruct Hev as [tr' [Hl _]]. apply Hn0.
             apply in_map_iff. exists (t0, tr'). split; [reflexivity|exact Hl].
        * intros Hf. apply in_or_app. left. rewrite Hf. apply in_map_iff.
          unfold sids in Hs. apply in_map_iff in Hs. destruct Hs as [sp [<- Hsp]]. exists sp. split; [reflexivity|].
          apply in_rev in Hsp. exact Hsp.
    - specialize (IH w1 rf Hr t tr Hin). rewrite E2 in IH. cbn [fst snd w_cfg w1] in IH. destruct IH as [I1 I2].
      split; [exact I1|]. intros s Hs. rewrite <- (I2 s Hs). split.
      + intros Hev. apply in_app_or in Hev. destruct Hev as [Hev|Hev]; [|exact Hev]. exfalso.
        destruct (fw dry keep0); [|destruct Hev]. apply in_map_iff in Hev. destruct Hev as [sp [Heq _]].
        injection Heq as -> _ _. apply Hn0. apply in_map_iff. exists (t, tr). split; [reflexivity|exact Hin].
      + intros Hev. apply in_or_app. right. exact Hev.
  Qed.

  Theorem stop_drain_spec w :
    NoDup (akeys (w_buf w)) ->
    w_buf (fst (stop_drain sampler dry w)) = [] /\
    forall t tr, alookup t (w_buf w) = Some tr ->
      alookup t (w_dec (fst (stop_drain sampler dry w))) = Some (sampler (c_ver (w_cfg w)) (rev (t_spans tr))) /\
      (forall s, In s (sids tr) ->
         (In (t, s, tick_reason (w_cfg w) tr) (snd (stop_drain sampler dry w)) <->
          fw dry (sampler (c_ver (w_cfg w)) (rev (t_spans tr))) = true)).
  Proof.
    intros Hnd. unfold stop_drain. split.
    - destruct (decide_list_buf sampler dry (tick_reason (w_cfg w)) (w_buf w) w) as [Hb _]. rewrite Hb.
      destruct (remove_all (map fst (w_buf w)) (w_buf w)) as [|kv r] eqn:E; [reflexivity|exfalso].
      assert (Hin : In kv (remove_all (map fst (w_buf w)) (w_buf w))) by (rewrite E; left; reflexivity).
      apply In_remove_all in Hin. destruct Hin as [Hin Hn]. apply Hn. apply in_map. exact Hin.
    - intros t tr Hl. apply decide_list_all; [exact Hnd|apply alookup_In; exact Hl].
  Qed.
End ShutdownProofs.
